# Per-property metadata shared by bin/check and bin/mkmanifest.
TIMEOUT = {"quick": 900, "thorough": 7200}

TRUSTED_COMMON = [
    "Coq 8.16.1 kernel (coqc; vm_compute used, native_compute not used); coqchk in the thorough tier",
    "no axioms declared; Print Assumptions output of every property theorem is in coverage.print_assumptions",
    "extraction: ExtrOcamlBasic only (bool/option/list/prod/unit/sumbool to OCaml natives), Z/N/positive/nat stay Coq inductives; hand-written glue ocaml/{conv,ops,driver}.ml",
    "translator harness/cmd/gen (go/parser based table and write-site dumper) and Go harness harness/cmd/vh (generators, differ, oracles)",
    "the Go code is modelled, not verified: theorems are about the Gallina models; the correspondence run ties model to code on the generated cases only",
]

HOOK_COMMITS = ["7db9398"]
GEN_FILES = ["MQTables_gen.v", "JpegTables_gen.v", "Facts_gen.v", "HtTables_gen.v", "T1Tables_gen.v"]
NOT_READY = set()   # Props present but suites not yet registered in cmd/vh
HOOK_PROPS = {"C04", "C05", "C19"}   # properties with hook-based suites in harness/cmd/vhk
NOTES = "All checks: bin/check <id>. Level proof = Coq theorems about hand-written Gallina models + regenerated tables/facts, tied to /repo by a correspondence run on every check; an implementation-side oracle searches for failing inputs. See DESIGN.md."

PROPS = {}
def prop(pid, **kw):
    PROPS[pid] = kw


COMMON_NOTE = ("Theorems are about hand-written Gallina models (coq/<Area>/*Model*.v); on every run the models are extracted and "
               "compared with the Go implementation on generated inputs (correspondence), regenerated tables/facts are re-proved, and an "
               "implementation-side oracle evaluates the property on the Go code alone (failing-input search; reaches un-modelled glue).")

prop("C01", design_ref="DESIGN.md 5 (C01)",
     level_text="RLE: complete model of rle.go (encoder state machine, segment/plane mapping, header, decoder loop) with an independent PackBits/Annex G reader; theorems for all geometries and all byte strings (see evidence.coverage.theorems for exact status).",
     level_note=COMMON_NOTE + " bytes.Buffer / binary.Write assumed to append.",
     trusted=["bytes.Buffer/binary.Write modelled as list append"])
prop("C02", design_ref="DESIGN.md 5 (C02)",
     level_text="JPEG Lossless/SV1: byte-exact model of encoder and decoder (predictors, category coder, optimal Huffman builder, stuffing, markers); category coder exhaustive over all 65536 differences, modulo-2^16 reconstruction, Huffman prefix decoding, stuffing round trip; whole-image round trip as far as listed in evidence (parts may be _partial).",
     level_note=COMMON_NOTE)
prop("C03", design_ref="DESIGN.md 5 (C03)",
     level_text="JPEG-LS lossless: byte-exact model (parameters, Golomb, run mode, contexts, scan) and per-symbol exactness theorems for all precisions 2..16; whole-scan lockstep status in evidence.",
     level_note=COMMON_NOTE + " GolombReader word cache modelled as bit list.")
prop("C04", design_ref="DESIGN.md 5 (C04)",
     level_text="JPEG 2000 reversible single tile: arithmetic/geometry stages proved exactly (sample codec, RCT, 5/3 DWT all sizes/levels/parities, band and code-block partitions); entropy/packet stages are tied by component theorems (MQ, T1, tag-tree where present) and decided end to end by the implementation-side round-trip oracle over the property's configuration space. Partial: T1/T2 transport is not a single end-to-end theorem.",
     level_note=COMMON_NOTE + " Section hypotheses t1_rt/t2_rt where the pipeline theorem uses them.")
prop("C05", design_ref="DESIGN.md 5 (C05)",
     level_text="JPEG 2000 lossless syntaxes: theorem that for any allocation the final layer completes every code-block and that every accepted parameter object in the property's domain maps to that premise; rate-control internals are an arbitrary allocation in the theorem; end-to-end decided by the codec round-trip oracle over the parameter space.",
     level_note=COMMON_NOTE + " Hook-based correspondence (build tag verif) for finalizeBlock and the parameter mapping.")
prop("C06", design_ref="DESIGN.md 5 (C06)",
     level_text="HTJ2K lossless: MEL/UVLC/VLC table and Kmax theorems over regenerated tables; the HT cleanup pass as a whole is not modelled, so the property level is partial: the round trip and the 14 third-party fixtures are decided by the implementation-side oracle.",
     level_note=COMMON_NOTE)
prop("C07", design_ref="DESIGN.md 5 (C07)",
     level_text="JPEG-LS near-lossless: per-sample theorem |x'-x| <= NEAR, range, encoder/decoder reconstruction agreement for every NEAR and precision; byte-exact model; whole-scan status in evidence.",
     level_note=COMMON_NOTE)
prop("C08", design_ref="DESIGN.md 5 (C08)",
     level_text="No decoder panics: panic-explicit models of the header parsers with no-panic theorems for all byte strings (list in evidence), MQ decoder bounds; entropy-decoder inner loops and tile decoding are searched (mutation corpus in child processes), not proved. Partial.",
     level_note=COMMON_NOTE + " Child processes with watchdog; a fatal abort counts as failure.")
prop("C09", design_ref="DESIGN.md 5 (C09)",
     level_text="Bounded decode: fuel/allocation theorems for the modelled parsers (every loop consumes input; allocation requests bounded by declared size); wall time and heap are measured per decode in child processes. Partial: the theorem is about iteration counts and requested sizes, not about the Go runtime.",
     level_note=COMMON_NOTE + " Watchdog 10 s, heap budget 512 MiB + 64*S.")
prop("C10", design_ref="DESIGN.md 5 (C10)",
     level_text="Codec contract: theorems over all histories for the frame-loop shapes and the field-dataflow summaries of Encoder/Decoder; regenerated write/read-site facts must be covered by the summaries (re-proved every run); per-frame codec functions are abstract; histories on real objects are searched.",
     level_note=COMMON_NOTE + " Fact extractor (go/parser+go/types) is trusted to see every write.")
prop("C11", design_ref="DESIGN.md 5 (C11)",
     level_text="JPEG DCT loss bound: quantiser error, table ranges for all qualities (regenerated), DQT written = used, zig-zag, linear bound over Q and its 8x8 IDCT instantiation over R; the coded integer DCT/IDCT pair's deviation from an exact inverse pair is an explicit hypothesis (_partial); the bound itself is evaluated on every case by the oracle with DQT parsed from the stream.",
     level_note=COMMON_NOTE + " Theorems over R use the standard library Reals axioms (listed in print_assumptions).")
prop("C12", design_ref="DESIGN.md 5 (C12)",
     level_text="JPEG 2000 irreversible bound: step-size field round trip, dead-zone error, linear bound, clamp; the float 9/7 and ICT kernels enter as Section hypotheses (partial); the declared-step bound is evaluated per sample by the oracle through an independent float64 inverse 9/7.",
     level_note=COMMON_NOTE)
prop("C13", design_ref="DESIGN.md 5 (C13)",
     level_text="JPEG Lossless vs T.81: independent Annex H codec written from the standard; code model = T.81 model theorems per predictor; cross-decoding Go <-> T.81 model on generated conformant streams (table ids 0-3, table kinds, DHT placement).",
     level_note=COMMON_NOTE)
prop("C14", design_ref="DESIGN.md 5 (C14)",
     level_text="JPEG-LS vs T.87: coded parameters = standard's formulas over the whole (P,NEAR) domain, independent T.87 decoder agrees on every generated stream, lossless = near(0) byte identity, H.3 vector.",
     level_note=COMMON_NOTE)
prop("C15", design_ref="DESIGN.md 5 (C15)",
     level_text="JPEG DCT vs independent JPEG: theorem content is geometry (block grid for all sampling factors), Huffman table validity and entropy-layer facts; the agreement itself compares two implementations (image/jpeg and a reference encoder in the harness) and is labelled as such.",
     level_note=COMMON_NOTE)
prop("C16", design_ref="DESIGN.md 5 (C16)",
     level_text="Well-formed codestreams: strict walkers written from the standards (extracted and run on every emitted stream of every encoder), segment-length / stuffing / no-marker theorems for the writers incl. the MQ coder invariant.",
     level_note=COMMON_NOTE)
prop("C17", design_ref="DESIGN.md 5 (C17)",
     level_text="Encoder guards: accepts(a) -> representable(a) per encoder over the argument tuples, model guards compared with Go on enumerated tuples around every limit; never-panic and geometry-of-returned-stream are oracle checks.",
     level_note=COMMON_NOTE)
prop("C18", design_ref="DESIGN.md 5 (C18)",
     level_text="Concurrency: non-interference theorem for any number of threads and any schedule when no step writes shared state, with the premise discharged over regenerated write-site facts (no package-level writes outside init, no Codec receiver writes, parameter objects written only under an already-valid guard); race-detector stress is a schedule sample.",
     level_note=COMMON_NOTE + " The Go scheduler/runtime is not modelled.")
prop("C19", design_ref="DESIGN.md 5 (C19)",
     level_text="JPEG 2000 tiled: tile partition/assembly and origin-parity band geometry proved for all sizes; 5/3 DWT inverse for every origin parity; end to end decided by the tiled round-trip oracle (1..12 tiles per axis, odd sizes, layers, global PCRD).",
     level_note=COMMON_NOTE)
prop("C20", design_ref="DESIGN.md 5 (C20)",
     level_text="RCT inverse (all integers; int32 within +-2^28) and 5/3 DWT inverse (1-D all lengths and parities, 2-D, multilevel any origin) fully proved; MQ: table well-formedness, encoder invariants/no-marker, decoder bounds, round trip as listed (bounded or partial parts named); T1: LUT = Annex D, lockstep as listed.",
     level_note=COMMON_NOTE + " int32 wrap written explicitly in the RCT model; DWT theorems over Z with a growth lemma.",
     trusted=["Go int32 arithmetic is modelled with explicit wrapS 32 in the RCT model; DWT/MQ models over Z with stated range hypotheses"],
     assumptions=["model = code shown only on the generated cases (byte/integer-exact comparison)"],
     explanation="see theorems list")
