# Per-property metadata shared by bin/check and bin/mkmanifest.
TIMEOUT = {"quick": 900, "thorough": 7200}

TRUSTED_COMMON = [
    "Coq 8.16.1 kernel (coqc; vm_compute used, native_compute not used); coqchk in the thorough tier",
    "no axioms declared; Print Assumptions output of every property theorem is in coverage.print_assumptions",
    "extraction: ExtrOcamlBasic only (bool/option/list/prod/unit/sumbool to OCaml natives), Z/N/positive/nat stay Coq inductives; hand-written glue ocaml/{conv,ops,driver}.ml",
    "translator harness/cmd/gen (go/parser based table and write-site dumper) and Go harness harness/cmd/vh (generators, differ, oracles)",
    "the Go code is modelled, not verified: theorems are about the Gallina models; the correspondence run ties model to code on the generated cases only",
]

HOOK_COMMITS = []
NOTES = "All checks: bin/check <id>. Level proof = Coq theorems about hand-written Gallina models + regenerated tables/facts, tied to /repo by a correspondence run on every check; an implementation-side oracle searches for failing inputs. See DESIGN.md."

PROPS = {}
def prop(pid, **kw):
    PROPS[pid] = kw

prop("C20",
     level_text="RCT inverse proved for all integers and for the int32 code within +-2^28 (complete). DWT 5/3, MQ, T1: see theorem list in evidence; parts marked _partial are named there.",
     level_note="Theorems are about Gallina models of rct.go/dwt53.go/mqc; models are compared integer-exactly with the Go functions on generated inputs on every run.",
     trusted=["Go int32 arithmetic is modelled with explicit wrapS 32 in the RCT model; DWT/MQ models over Z with stated range hypotheses"],
     assumptions=["model = code shown only on the generated cases (byte/integer-exact comparison)"],
     explanation="RCT: proved for all integers and for int32 within +-2^28.")
