# Per-property metadata shared by bin/check and bin/mkmanifest.
TIMEOUT = {"quick": 900, "thorough": 7200}

TRUSTED_COMMON = [
    "Coq 8.16.1 kernel (coqc; vm_compute used, native_compute not used); coqchk in the thorough tier",
    "no axioms declared; Print Assumptions output of every property theorem is in coverage.print_assumptions",
    "extraction: ExtrOcamlBasic only (bool/option/list/prod/unit/sumbool to OCaml natives), Z/N/positive/nat stay Coq inductives; hand-written glue ocaml/{conv,ops,driver}.ml",
    "translator harness/cmd/gen (go/parser based table and write-site dumper) and Go harness harness/cmd/vh (generators, differ, oracles)",
    "the Go code is modelled, not verified: theorems are about the Gallina models; the correspondence run ties model to code on the generated cases only",
]

HOOK_COMMITS = ["7db9398", "e7bad6e"]
GEN_FILES = ["MQTables_gen.v", "JpegTables_gen.v", "Facts_gen.v", "HtTables_gen.v", "T1Tables_gen.v"]
NOT_READY = set()   # Props present but suites not yet registered in cmd/vh
HOOK_PROPS = {"C04", "C05", "C19", "C08"}   # properties with hook-based suites in harness/cmd/vhk
NOTES = "All checks: bin/check <id>. Level proof = Coq theorems about hand-written Gallina models + regenerated tables/facts, tied to /repo by a correspondence run on every check; an implementation-side oracle searches for failing inputs. See DESIGN.md."

PROPS = {}
def prop(pid, **kw):
    PROPS[pid] = kw


COMMON_NOTE = ("Theorems are about hand-written Gallina models (coq/<Area>/*Model*.v); on every run the models are extracted and "
               "compared with the Go implementation on generated inputs (correspondence), regenerated tables/facts are re-proved, and an "
               "implementation-side oracle evaluates the property on the Go code alone (failing-input search; reaches un-modelled glue).")

prop("C01", design_ref="DESIGN.md 5 (C01), Corrections",
     level_text="Complete: faithful model of rle.go (encoder state machine, NextSegment/offsets incl. the 32-bit overflow check, plane mapping, header, decoder loop) and an independent PackBits/Annex G reader. Proved for every accepted geometry (npix any positive integer) and every byte string: encoder invariant, segment round trip, whole-frame round trip with pad byte, Annex G validity, independent reader recovers each plane, plane bijection, any legal packet split decodes. Unconditional on rle_encode = Ok.",
     level_note=COMMON_NOTE + " bytes.Buffer / binary.Write assumed to append.",
     trusted=["bytes.Buffer/binary.Write modelled as list append"])
prop("C02", design_ref="DESIGN.md 5 (C02), Corrections",
     level_text="Complete at byte level: model of jpeg/lossless and lossless14sv1 (predictors, T.81 edge rule, category coder, optimal Huffman builder incl. length limiting, canonical codes, uint32 bit writer/reader with stuffing, markers, decoder marker loop, Build, bit-serial decode). Proved for every image, precision 2..16, predictors 0-7 and SV1, 1 and 3 components: decode(encode(img)) = img with geometry; category coder over all 65536 differences; modulo-2^16 reconstruction; the table the optimal builder returns is a valid covering table for the encoders' histograms (C02_build_table_ok) and the histogram step cannot index out of range for ANY frequency vector (C02_build_count_sizes_ok, defect F48); Huffman prefix decoding; min/max/valptr decoder = canonical decoder; stuffing round trip; Build never panics. Not proved: totality of the length-limiting loop for arbitrary (non-encoder) frequency vectors deeper than the encoders can produce (stated).",
     level_note=COMMON_NOTE)
prop("C03", design_ref="DESIGN.md 5 (C03), Corrections",
     level_text="Complete at byte level: model of jpegls/lossless reproduces the Go encoder byte for byte; proved for every precision 2..16, 1 and 3 components, every image: decode(encode(img)) = img with geometry (through marker parsing and scan extraction), encoder totality, Golomb / run / run-interruption round trips, per-sample exactness with identical context updates, the as-coded 32-bit Golomb writer = bit-list packer, no-marker property.",
     level_note=COMMON_NOTE + " GolombReader's 64-bit cache is modelled as a bit list (tied by the byte-exact correspondence).")
prop("C04", design_ref="DESIGN.md 5 (C04), Corrections",
     level_text="Every stage has a model and unbounded theorems: sample codec and pixel (de)interleaving, RCT, 5/3 DWT (all sizes/levels/parities/origins), band partition = DWT split, code-block partition, subband extraction/assembly, MQ coder round trip, T1 symbol-level lockstep, and the whole tier-2 packet layer (bit I/O with stuffing incl. the header-ending-in-0xFF case, tag trees for any grid and any query interleaving, pass-count / comma / Lblock codes, packet headers over any layer schedule incl. empty bands, all five progression orders, per-block data gathering: EncodePackets then DecodePackets delivers every block's bytes and pass count). Partial: the stages are not composed into ONE end-to-end theorem (T1 byte-level composition and the agreement of the encoder's precinct/code-block indexing with the decoder's are stated hypotheses of the T2 theorem), and rate control is outside the model; the round trip over the property's configuration space is therefore also decided by the implementation-side oracle (700 / 12000 configurations per run incl. many-packet and many-layer classes plus a corpus of earlier failures).",
     level_note=COMMON_NOTE + " Hook-based correspondence (build tag verif) for geometry functions.")
prop("C05", design_ref="DESIGN.md 5 (C05), Corrections",
     level_text="Proved: for any block with non-decreasing pass rates and any monotone allocation the layers concatenate to the complete code-block data and the last layer holds all passes (both finalisers); for ANY allocation the last layer is complete; every parameter object in the property's domain maps (Validate + configureLosslessEncodeParams + initRDLayerConfig) to lossless with either one untruncated layer or >= 2 layers with the lossless layer forced; the tier-2 packet layer delivers every block's layer contributions for any layer schedule and progression order (C04_t2). Monotonicity of the real allocators and rates_ok are checked at run time through hooks. End to end decided by the codec round-trip oracle over every rate-control path incl. layer counts to 5000 and non-descending ladders.",
     level_note=COMMON_NOTE + " Rate-distortion optimiser is an arbitrary allocation in the theorem.")
prop("C06", design_ref="DESIGN.md 5 (C06), Corrections",
     level_text="The HT block coder (the lossless path emits cleanup passes only) has a byte-exact Gallina model of encoder and decoder (three bit streams with their stuffing rules, quad contexts, exponent predictor, UVLC pair rule, MEL/VLC fusion, Scup) and the round trip is proved: for every block size inside a code-block validateParams admits, every Kmax 1..30 and every coefficient array within the bit budget, decode(encode(block)) = block (C06_ht_cleanup_roundtrip_validated; the Scup representability bound is proved from the model); segments are well formed (no marker code, Scup consistent, last byte not 0xFF); every stream-dependent table index stays in range. Also proved: MEL round trip, UVLC/VLC exhaustive over regenerated tables, level clamp, Kmax sufficiency and encoder/packet/decoder consistency for every precision/level/band. Partial: the frame-level chain block -> T2 -> DWT/RCT is not composed into one theorem (each stage has its own: C04_t2, C20), so whole-frame round trips and the 14 third-party fixtures are decided by the implementation-side oracle.",
     level_note=COMMON_NOTE)
prop("C07", design_ref="DESIGN.md 5 (C07), Corrections",
     level_text="Complete at byte level: for every precision, every NEAR in range and every image, decode(encode) is within NEAR, in range, reports NEAR and geometry; NEAR = 0 exact; encoder and decoder reconstructions coincide; byte-exact model of jpegls/nearlossless.",
     level_note=COMMON_NOTE)
prop("C08", design_ref="DESIGN.md 5 (C08), Corrections",
     level_text="Proved for ALL byte strings: the header/segment paths of every decoder (both JPEG-LS decoders, jpeg/lossless, SV1, baseline up to the first block, the JPEG 2000 main header, tile-part parser and tile assembler, RLE with arbitrary FrameInfo, Huffman Build) never panic and never run out of fuel; the complete JPEG-LS lossless and near-lossless decoders incl. the as-coded Golomb reader are total (C08_jls_*: Ok or Err for any bytes, index-explicit twin = model); the JPEG 2000 packet parser, tag-tree decoders, packet body extraction and all five packet loops are total for any bytes and geometry tables (C08_t2_*); MQ decoder and raw reader never read out of bounds. Searched, not proved: JPEG Huffman entropy loops, T1 passes, HT block decoder, tile decoding glue (about 170000 mutated streams per run in child processes incl. 45 paired-field mutator classes).",
     level_note=COMMON_NOTE + " Child processes with watchdog; a fatal abort counts as failure.")
prop("C09", design_ref="DESIGN.md 5 (C09), Corrections",
     level_text="Partial: proved for all byte strings that every modelled parser loop consumes input (fuel = input length suffices) and that every allocation request of the modelled paths is bounded by c*S + 2*len + const with S the size declared by the first frame header of the stream (the same walker the oracle uses); RLE allocation <= 15*65535^2+1; the JPEG-LS decoders and the JPEG 2000 packet loops terminate on every input (C08_jls_*, C08_t2_*: fuel from lengths only). CPU time and peak heap of every decode are measured in child processes against calibrated budgets cpu = 1 s + b*S + c*len, heap = 16 MiB + m1*S + m2*len per decoder family (coefficients from the clean envelope of 1.08 M cases, >= 5x / >= 3x headroom; candidates must reproduce in isolation); the Go runtime is not modelled. One known finding (F53: layers x code-blocks amplification in the packet header parser, thorough tier).",
     level_note=COMMON_NOTE)
prop("C10", design_ref="DESIGN.md 5 (C10), Corrections",
     level_text="Proved over all histories: one output frame per input frame in order for both frame-loop shapes; for a call summary that is self-initialising the output is a function of the arguments only; the hand summaries of jpeg2000.Encoder/Decoder are self-initialising and cover every field write/read the regenerated facts report (re-proved on every run). Per-frame codec functions are abstract (C01-C07). Histories on real objects, input immutability, decoded lengths are searched over all 14 syntaxes. One known finding (F27).",
     level_note=COMMON_NOTE + " The fact extractor (go/parser + go/types) is trusted to see every write; reflection/unsafe are absent.")
prop("C11", design_ref="DESIGN.md 5 (C11), Corrections",
     level_text="Proved: coded quantiser error <= d/2 (8- and 12-bit), every scaled table entry in 1..255 for quality 1..100 (regenerated tables), DQT written = parsed, zig-zag permutation, the linear bound over Q and its instantiation to the exact IDCT basis over R, block-grid correctness for every sampling factor. Partial: the end-to-end per-sample theorem keeps the coded integer DCT/IDCT pair's deviation from an exact inverse pair as explicit hypotheses (a triangle-inequality proof cannot fit the allowance of 2); the bound is evaluated on every case by the oracle with DQT parsed from the stream.",
     level_note=COMMON_NOTE + " Theorems over R use the standard library's axioms ClassicalDedekindReals.sig_not_dec, sig_forall_dec and FunctionalExtensionality.functional_extensionality_dep (listed in print_assumptions).",
     trusted=["Coq standard library Reals axioms: ClassicalDedekindReals.sig_not_dec, ClassicalDedekindReals.sig_forall_dec, FunctionalExtensionality.functional_extensionality_dep (only the four C11 theorems over R)"])
prop("C12", design_ref="DESIGN.md 5 (C12), Corrections",
     level_text="Proved: QCD step field round trip (all 32x2048 field pairs) and one-ulp accuracy, dead-zone error <= D for the mathematical and the as-coded quantiser, linear bound, clamp. Partial: the float 9/7 analysis/synthesis pair and ICT enter as named hypotheses; the declared-step bound is evaluated per sample by the oracle through an independent float64 inverse 9/7 with exact absolute response sums. One known finding (F51: 32-bit quantiser range at 16 bits and high quality).",
     level_note=COMMON_NOTE)
prop("C13", design_ref="DESIGN.md 5 (C13), Corrections",
     level_text="Proved: the code's prediction is the T.81 H.1.2.1 rule; Annex C codes = BuildHuffmanCodes; model encoder and an independent T.81 encoder emit identical bytes for predictors 1-7; the independent T.81 decoder returns the exact source from the library encoders' streams; the library decoders recover the source from T.81-encoder streams for any predictor and any valid covering table in the single-table configuration. Arbitrary Td assignment / DHT placement / extra segments are stated and exercised by the cross-decoding runs only.",
     level_note=COMMON_NOTE)
prop("C14", design_ref="DESIGN.md 5 (C14), Corrections",
     level_text="Complete: coded parameters = T.87 formulas over the whole (P,NEAR) domain; lossless = near(0) as functions on whole images; both cross-decoding directions; H.3 vector; and the whole-stream theorem C14_t87_decoder_agrees: for every stream the library encoders emit (P 2..16, NEAR in range, 1 component and 3 sample-interleaved components, any image) the independent decoder written from T.87 Annex A/C returns exactly the samples the library decoder returns (lossless: the source). The extracted T.87 decoder is also run on every generated stream.",
     level_note=COMMON_NOTE)
prop("C15", design_ref="DESIGN.md 5 (C15), Corrections",
     level_text="Theorem content: block-grid and pixel-read correctness for every sampling factor and size, restart-interval bookkeeping (segments split at RSTn, MCU k uses interval k/Ri, DC reset), standard Huffman table validity, zig-zag. The agreement with image/jpeg and a reference encoder compares two implementations and is labelled as such (oracle).",
     level_note=COMMON_NOTE)
prop("C16", design_ref="DESIGN.md 5 (C16), Corrections",
     level_text="Strict walkers written from the standards (T.81, T.87, 15444-1 Annex A) are extracted and run on every emitted stream of every encoder. Proved for all inputs: WriteSegment framing, Huffman and packet-header bit writers never emit an unescaped marker, MQ encoder invariant and no-marker (Flush, ErtermEnc, bypass segments), header fields round trip, every accepted argument tuple's header declares exactly the arguments, whole JPEG Lossless frames are well formed. One known finding (F35).",
     level_note=COMMON_NOTE + " bioWriter is unexported: its model is tied by the walker run over real streams.")
prop("C17", design_ref="DESIGN.md 5 (C17), Corrections",
     level_text="Proved per encoder and per registry codec: accepts(a) -> representable(a) for the guards as coded (unconditional for baseline, extended, lossless, SV1, JPEG-LS lossless, RLE for every uint16 FrameInfo, jpeg2000 under type-size limits); model guards agree with Go on every enumerated tuple around every limit. Two known findings (F33 NEAR bound pinned by the repository's own test, F34 Validate normalises).",
     level_note=COMMON_NOTE)
prop("C18", design_ref="DESIGN.md 5 (C18), Corrections",
     level_text="Proved: for any number of threads and any schedule, if no step writes shared state every thread's result equals its result alone and no accesses conflict; the premise is discharged on every run over regenerated facts: no package-level variable is written outside init (allow-list inspected and pinned), no Codec method writes a receiver field, parameter objects are written only under already-valid guards. The race-detector stress over all 14 codecs is a schedule sample.",
     level_note=COMMON_NOTE + " The Go scheduler/runtime is not modelled; a shared parameters object with streams of a different NEAR still writes (documented limit).")
prop("C19", design_ref="DESIGN.md 5 (C19), Corrections",
     level_text="Proved for all sizes: encoder, TileLayout and tile-decoder rectangles coincide, tiles are non-empty, disjoint and cover the image, extraction + assembly is the identity, origin-aware band geometry = DWT split, 5/3 inverse for every origin. End to end (T2 with tiles, global PCRD) decided by the tiled round-trip oracle incl. a corpus of the five earlier failure classes.",
     level_note=COMMON_NOTE)
prop("C20", design_ref="DESIGN.md 5 (C20), Corrections",
     level_text="Complete for RCT (all integers; int32 within +-2^28), 5/3 DWT (1-D every length and parity, 2-D, multilevel any origin), MQ (unbounded round trip for any decision sequence and initial contexts, encoder invariant, decoder bounds, ErtermEnc and raw-segment round trips) and T1: symbol-level lockstep for every block size, orientation, style word and pass count (LUTs = Annex D over all entries) AND the byte-level round trip t1_decode(t1_encode(block)) = block for every block and ALL 64 code-block styles (bypass/LAZY, RESET, TERMALL, VSC, PTERM, SEGSYM in any combination): unconditional for the 32 styles without PTERM (and 8 more when fb >= 1), for PTERM on a terminated pass under the explicit hypothesis that the encoder's stream is not empty (GetBuffer drops a final 0xFF; no such stream is known). Truncated decoding (first n passes) is a stated Definition.",
     level_note=COMMON_NOTE + " int32 wrap written explicitly in the RCT model; DWT over Z with a growth lemma.",
     trusted=["Go int32 arithmetic is modelled with explicit wrapS 32 in the RCT model; DWT/MQ/T1 models over Z with stated range hypotheses"],
     assumptions=["model = code shown only on the generated cases (byte/integer-exact comparison)"])
