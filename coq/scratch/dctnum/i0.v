From V Require Import Common.Base Gen.JpegTables_gen JpegDCT.DctQuant JpegDCT.DctIslow JpegDCT.DctGeometry JpegDCT.DctPipeline.
Definition img := map (fun k => (Z.of_nat k * 37 + 11) mod 256) (seq 0 (11*5)).
Eval vm_compute in (length (pipeline8 11 5 1 90 img), fold_right Z.max 0 (map (fun p => Z.abs (fst p - snd p)) (combine (pipeline8 11 5 1 90 img) img))).
Eval vm_compute in (znth (pipeline8 11 5 1 90 img) (3*11+9) 0, znth img (3*11+9) 0).
