From V Require Import Common.Base Pipe.PipeModel Pipe.PipeProofsFront PipeHT.PhtModel PipeHT.PhtProofsZeroDef PipeHT.PhtHyps.
Definition p1 := mkPP 4 4 1 8 false 1 4 4 false 2 0 0 4.
Eval vm_compute in pht_encode_tile_z p1 (pack_image p1 (repeat 200 16)).
Eval vm_compute in pht_encode_tile p1 (pack_image p1 (repeat 200 16)).
Eval vm_compute in pht_encode_tile_z p1 (pack_image p1 (repeat 128 16)).
Eval vm_compute in pht_encode_tile p1 (pack_image p1 (repeat 128 16)).
Eval vm_compute in pht_roundtrip_z p1 (pack_image p1 (repeat 128 16)).
Definition p2 := mkPP 8 8 3 8 false 2 4 4 true 2 0 0 8.
Definition s2 := flat_map (fun i => [Z.of_nat i; 100; 7]) (seq 0 64).
Eval vm_compute in pht_encode_tile_z p2 (pack_image p2 s2).
Eval vm_compute in pht_encode_tile p2 (pack_image p2 s2).
Eval vm_compute in match pht_roundtrip_z p2 (pack_image p2 s2) with Ok x => Some (phy_zlist_eqb x (pack_image p2 s2)) | _ => None end.
Eval vm_compute in match pht_encode_tile_z p2 (pack_image p2 s2) with Ok t => pht_hyps p2 (pack_image p2 s2) t | _ => Err end.
