From V Require Import Common.Base T2.T2Header T2Ht.T2hModel T2Ht.T2hSpec T2Ht.T2hProofsSmall T2Ht.T2hProofsMain T2Ht.T2hProofsGlue.
Eval vm_compute in map (fun k => let b := nth k small_domain [] in (any_coded b, map (fun p => (ebn_w p, ebn_h p, map (fun b => (eb_zbp b, zlen (eb_data b))) (ebn_blocks p))) b, hth_header_bits b 0)) [2000%nat; 2500%nat].
