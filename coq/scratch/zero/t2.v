From V Require Import Common.Base T2.T2Header Pipe.PipeModel Pipe.PipeProofsFront PipeHT.PhtModel PipeHT.PhtProofsZeroDef PipeHT.PhtHyps.
Fixpoint all_lists (vals : list Z) (n : nat) : list (list Z) :=
  match n with O => [[]] | S m => flat_map (fun v => map (cons v) (all_lists vals m)) vals end.
Definition zrt_ok (p : pparams) (s : list Z) : bool :=
  match pht_roundtrip_z p (pack_image p s) with Ok x => phy_zlist_eqb x (pack_image p s) | _ => false end.
Definition pp22 (prec order : Z) : pparams := mkPP 2 2 1 prec false 1 4 4 false order 0 0 2.
Definition has_zero (p : pparams) (s : list Z) : bool :=
  match pipe_coeffs p (pack_image p s) with Ok c => negb (phy_no_zero p c) | _ => false end.
Time Eval vm_compute in forallb (fun o => forallb (zrt_ok (pp22 3 o)) (all_lists (zseq 8) 4)) [0;1;2].
Time Eval vm_compute in zlen (filter (has_zero (pp22 3 2)) (all_lists (zseq 8) 4)).
Definition zeq_classic (p : pparams) (s : list Z) : bool :=
  match pht_encode_tile_z p (pack_image p s), pht_encode_tile p (pack_image p s) with Ok a, Ok b => phy_zlist_eqb a b | _, _ => false end.
Time Eval vm_compute in forallb (fun s => orb (has_zero (pp22 3 2) s) (zeq_classic (pp22 3 2) s)) (all_lists (zseq 8) 4).
Time Eval vm_compute in zlen (filter (fun s => andb (has_zero (pp22 3 2) s) (zeq_classic (pp22 3 2) s)) (all_lists (zseq 8) 4)).
