From V Require Import Common.Base Pipe.PipeModel Pipe.PipeProofsFront PipeHT.PhtModel PipeHT.PhtProofsZeroDef PipeHT.PhtHyps PipeHT.PhtProofsZero.
Eval vm_compute in map (fun s => (s, has_zero_block (pp22 3 2) s, pipe_coeffs (pp22 3 2) (pack_image (pp22 3 2) s))) [[7;0;3;5]; [7;0;0;2]; [7;1;2;6]; [0;7;6;2]].
