From V Require Import Common.Base T1.T1Store T1.T1Ctx T1.T1Model T1.T1Bytes.
Require V.Pipe.PipeT1ojThm.
Goal forall (wn hn : nat) (orient : Z) (cs : list Z),
    length cs = (wn * hn)%nat -> (forall c, In c cs -> - 2 ^ 25 < c < 2 ^ 25) ->
    let data := map (fun c => c * 64) cs in
    let n := find_max_bitplane data + 1 - 6 in
    0 < n ->
    exists bytes, T1Bytes.enc_plain wn hn orient 0 6 (n * 3 - 2) data = Ok bytes /\
      T1Bytes.dec_with_options wn hn orient 0 n true false bytes (n * 3 - 2)
        = Ok (map (fun c => Z.sgn c * (2 * Z.abs c + 1)) cs).
Proof. exact V.Pipe.PipeT1ojThm.t1_tile_decode_roundtrip. Qed.
Print Assumptions V.Pipe.PipeT1ojThm.t1_tile_decode_roundtrip.
