From V Require Import Common.Base MQ.MqModel.
Definition lpsrun (n : nat) := mq_encode_cx [45] (repeat (1, 0) n).
Eval vm_compute in (map (fun n => zlen (lpsrun n)) [0;1;2;3;4;5;6;8;10;20;40;100;1000]%nat).
(* alternate: LPS then MPS on state 45 *)
Definition uni (n : nat) := mq_encode_cx [46] (repeat (1, 0) n).
Eval vm_compute in (map (fun n => zlen (uni n)) [0;1;2;10;100;1000]%nat).
