(* HTJ2K packet header (C06), general part 15: the INITIAL correspondence (item (3'), link of the two sides):
   fresh HTJ2K flags against classic trees characterised (T2hProofsGen11 Char) by processed leaves that carry
   the level-0 values of the HTJ2K arrays are related by StateRel - so the block loop theorem
   T2hProofsGen8.blocks_agree applies from the start. *)
From V Require Import Common.Base T2.T2Bio T2.T2TagTree T2.T2ProofsStore T2.T2ProofsTagTree T2.T2Header J2KGeo.GeoLayers
  T2Ht.T2hModel T2Ht.T2hProofsGen1 T2Ht.T2hProofsGen2 T2Ht.T2hProofsGen3 T2Ht.T2hProofsGen4 T2Ht.T2hProofsGen5
  T2Ht.T2hProofsGen6 T2Ht.T2hProofsGen7 T2Ht.T2hProofsGen8 T2Ht.T2hProofsGen9 T2Ht.T2hProofsGen10 T2Ht.T2hProofsGen11
  T2Ht.T2hProofsGen12.

Section Initial.
Variable p : eband.
Hypothesis Hwb : ebn_w p <= 2 ^ 63.
Hypothesis Hhb : ebn_h p <= 2 ^ 63.
Let t := hth_new p 0.
Let w := ht_w t.
Let h := ht_h t.
Let n := Z.to_nat (ht_levels t).

Lemma fresh_flag : forall x y k, in_grid2 p 0 x y -> (k < n)%nat ->
  get2 (hth_flags w h (ht_levels t)) (fst (pid t x y k)) (snd (pid t x y k)) false = false.
Proof.
  intros x y k [Hx Hy] Hk.
  pose proof (new_w_pos p 0 Hwb : 1 <= w <= 2 ^ 63) as Hw. pose proof (new_h_pos p 0 Hhb : 1 <= h <= 2 ^ 63) as Hh.
  destruct (hth_pos_in_level w h x y (Z.of_nat k) ltac:(lia) Hx Hy) as [PX PY].
  destruct (flags_valid w h (ht_levels t) k _ _ Hk PX PY) as [V G].
  pose proof (get2o_spec (hth_flags w h (ht_levels t)) (fst (pid t x y k)) (snd (pid t x y k)) false) as S1.
  pose proof (get2o_spec (hth_flags w h (ht_levels t)) (fst (pid t x y k)) (snd (pid t x y k)) true) as S2.
  unfold pid, hth_id in *. cbn [fst snd] in *. fold w h in S1, S2. rewrite V in S1, S2. rewrite S1 in S2. injection S2 as S2.
  rewrite S2. exact G.
Qed.

Variables it zt : ttree.
Variables aI aZ : list entry.
Hypothesis CI : Char w h n it aI.
Hypothesis CZ : Char w h n zt aZ.
Hypothesis QI : quiet it.
Hypothesis QZ : quiet zt.
Hypothesis GI : Geo p it.
Hypothesis GZ : Geo p zt.

(* the processed leaves carry the level-0 values of the HTJ2K arrays *)
Hypothesis H01 : incl_01 p 0.
Hypothesis LI0 : forall e, In e aI -> snd e = 0 /\ hth_val w h (incl0 p 0) 0 (fst (fst e)) (snd (fst e)) = 0.
Hypothesis LI1 : forall x y, in_grid2 p 0 x y -> hth_val w h (incl0 p 0) 0 x y = 0 -> exists e, In e aI /\ fst e = (x, y).
Hypothesis LZ0 : forall e, In e aZ -> hth_val w h (miss0 p 0) 0 (fst (fst e)) (snd (fst e)) = snd e.
Hypothesis LZ1 : forall x y, in_grid2 p 0 x y -> exists e, In e aZ /\ fst e = (x, y).

Lemma ival_unfold : forall x y k, (k < n)%nat ->
  ival p 0 x y k = hth_val w h (incl0 p 0) k (Z.shiftr x (Z.of_nat k)) (Z.shiftr y (Z.of_nat k)).
Proof. intros x y k Hk. unfold ival, walk_val. fold t. fold n. destruct (Nat.ltb_spec k n); [reflexivity | lia]. Qed.

Lemma mval_unfold : forall x y k, (k < n)%nat ->
  mval p 0 x y k = hth_val w h (miss0 p 0) k (Z.shiftr x (Z.of_nat k)) (Z.shiftr y (Z.of_nat k)).
Proof. intros x y k Hk. unfold mval, walk_val. fold t. fold n. destruct (Nat.ltb_spec k n); [reflexivity | lia]. Qed.

Theorem initial_state_rel : StateRel p (ht_isent t) (ht_msent t) it zt.
Proof.
  pose proof (new_w_pos p 0 Hwb : 1 <= w <= 2 ^ 63) as Hw. pose proof (new_h_pos p 0 Hhb : 1 <= h <= 2 ^ 63) as Hh.
  destruct CI as [SsI [GeoI [AccI ChI]]]. destruct CZ as [SsZ [GeoZ [AccZ ChZ]]].
  split; [|split; [|split; [exact GI | exact GZ]]].
  - (* InvI *)
    split; [reflexivity|]. split; [exact SsI|]. intros x y k Hg Hk. cbv zeta. pose proof Hg as [Hx Hy].
    destruct (ChI x y k Hg Hk) as [V [C1 [C2 C3]]]. change (cid w h x y k) with (pid t x y k) in *.
    destruct (QI (pid t x y k)) as [Q1 Q2].
    change (ht_isent t) with (hth_flags w h (ht_levels t)). rewrite (fresh_flag x y k Hg Hk).
    split; [exact V|]. split; [left; exact Q1|]. rewrite (ival_unfold x y k Hk). split.
    + intros E0.
      destruct (proj1 (hth_val_zero_leaf w h (incl0 p 0) k x y ltac:(lia) ltac:(lia) Hx Hy H01) E0)
        as [x' [y' [Hx' [Hy' [Sx [Sy L0]]]]]].
      destruct (LI1 x' y' (conj Hx' Hy') L0) as [e [He Epos]].
      assert (Hb : e_below x y k e) by (unfold e_below, shares; rewrite Epos; cbn [fst snd]; split; assumption).
      destruct (C2 e He Hb) as [D1 D2]. destruct (C3 D1) as [e' [He' [_ Ev]]].
      destruct (LI0 e' He') as [Z0 _]. split; [exact D1|]. split; [lia|]. split; [exact Q1 | symmetry; exact Q2].
    + intros E1. split.
      * destruct (nu it (pid t x y k)) eqn:Eu; [reflexivity|]. exfalso.
        destruct (C3 eq_refl) as [e [He [[Sx Sy] _]]]. destruct (LI0 e He) as [_ L0].
        assert (Z : hth_val w h (incl0 p 0) k (Z.shiftr x (Z.of_nat k)) (Z.shiftr y (Z.of_nat k)) = 0).
        { apply (proj2 (hth_val_zero_leaf w h (incl0 p 0) k x y ltac:(lia) ltac:(lia) Hx Hy H01)).
          exists (fst (fst e)), (snd (fst e)). pose proof (AccI e He) as [A1 A2]. repeat split; try lia; assumption. }
        lia.
      * intros _. rewrite Q1. reflexivity.
  - (* InvM *)
    split; [reflexivity|]. split; [exact SsZ|]. intros x y k Hg Hk. cbv zeta. pose proof Hg as [Hx Hy].
    destruct (ChZ x y k Hg Hk) as [V [C1 [C2 C3]]]. change (cid w h x y k) with (pid t x y k) in *.
    destruct (QZ (pid t x y k)) as [Q1 Q2].
    change (ht_msent t) with (hth_flags w h (ht_levels t)). rewrite (fresh_flag x y k Hg Hk).
    destruct (LZ1 x y Hg) as [e0 [He0 Epos0]].
    assert (Hb0 : e_below x y k e0) by (unfold e_below, shares; rewrite Epos0; cbn [fst snd]; split; reflexivity).
    destruct (C2 e0 He0 Hb0) as [D1 _].
    split; [exact V|]. split; [exact D1|]. rewrite Q2, (mval_unfold x y k Hk). split; [|split; [exact Q1 | reflexivity]].
    intros Hlt.
    destruct (hth_pos_in_level w h x y (Z.of_nat k) ltac:(lia) Hx Hy) as [PX PY].
    destruct (hth_val_attained w h (miss0 p 0) k _ _ ltac:(lia) ltac:(lia) PX PY) as [E255 | [x' [y' [Hx' [Hy' [Sx [Sy Ev]]]]]]]; [lia|].
    destruct (LZ1 x' y' (conj Hx' Hy')) as [e1 [He1 Epos1]].
    assert (Hb1 : e_below x y k e1) by (unfold e_below, shares; rewrite Epos1; cbn [fst snd]; split; assumption).
    destruct (C2 e1 He1 Hb1) as [_ Le]. pose proof (LZ0 e1 He1) as L1. rewrite Epos1 in L1. cbn [fst snd] in L1.
    destruct (C3 D1) as [e2 [He2 [[Sx2 Sy2] Ev2]]]. pose proof (LZ0 e2 He2) as L2. pose proof (AccZ e2 He2) as [A1 A2].
    pose proof (hth_val_below w h (miss0 p 0) (fst (fst e2)) (snd (fst e2)) k ltac:(lia) ltac:(lia) A1 A2) as Hle.
    rewrite Sx2, Sy2 in Hle. lia.
Qed.

End Initial.
