(* BuildOptimalHuffmanTable, part B: from Kraft-complete code sizes (at most 18 symbols, depth at
   most 17) the length limiting, the removal of the pseudo symbol and the value list give a
   valid canonical table.  The numeric part is decided over ALL count vectors by a pruned
   exhaustive search (11918 vectors). *)
From V Require Import Common.Base JpegLL.JllBits JpegLL.JllHuff JpegLL.JllModel JpegLL.JllT81
  JpegLL.JllProofsBits JpegLL.JllProofsHuff scratch.JllProofsOpt.

(* ---------- exhaustive search over count vectors ---------- *)
Fixpoint kraftw (l : list Z) (level : Z) : Z :=
  match l with
  | [] => 0
  | b :: l' => b * 2 ^ (17 - level) + kraftw l' (level + 1)
  end.

Fixpoint search (levels : nat) (level weight leaves : Z) (acc : list Z) (P : list Z -> bool) : bool :=
  match levels with
  | O => if weight =? 0 then P (rev acc) else true
  | S k =>
    forallb (fun b =>
      if b * 2 ^ (17 - level) <=? weight
      then search k (level + 1) (weight - b * 2 ^ (17 - level)) (leaves - b) (b :: acc) P
      else true) (seqZ 0 (Z.to_nat leaves + 1))
  end.

Lemma kraftw_nonneg : forall l level, Forall (fun b => 0 <= b) l -> 0 <= kraftw l level.
Proof.
  induction l as [|b l IH]; intros level H; cbn [kraftw]; [lia|]. inversion H; subst.
  specialize (IH (level + 1) H3). assert (0 <= 2 ^ (17 - level)) by (apply Z.pow_nonneg; lia). nia.
Qed.

Lemma search_sound : forall levels level weight leaves acc P,
  search levels level weight leaves acc P = true ->
  forall l, length l = levels -> Forall (fun b => 0 <= b) l -> zsum l <= leaves ->
  kraftw l level = weight -> P (rev acc ++ l) = true.
Proof.
  induction levels as [|k IH]; intros level weight leaves acc P Hs l Hl Hnn Hsum Hk.
  - destruct l; [|discriminate]. cbn [kraftw] in Hk. subst weight. cbn [search] in Hs.
    rewrite app_nil_r. exact Hs.
  - destruct l as [|b l]; [discriminate|]. inversion Hnn as [|? ? Hb Hnn']; subst.
    cbn [kraftw zsum fold_right] in *. fold (zsum l) in Hsum.
    pose proof (kraftw_nonneg l (level + 1) Hnn') as Hk0.
    assert (Hsl : 0 <= zsum l) by (apply zsum_nonneg; assumption).
    cbn [search] in Hs.
    assert (Hin : In b (seqZ 0 (Z.to_nat leaves + 1))) by (apply In_seqZ; lia).
    pose proof (proj1 (forallb_forall _ _) Hs b Hin) as Hb'. cbv beta in Hb'.
    destruct (Z.leb_spec (b * 2 ^ (17 - level)) (b * 2 ^ (17 - level) + kraftw l (level + 1))); [|lia].
    specialize (IH (level + 1) _ (leaves - b) (b :: acc) P Hb' l ltac:(simpl in Hl; lia) Hnn' ltac:(lia) ltac:(lia)).
    cbn [rev] in IH. rewrite <- app_assoc in IH. exact IH.
Qed.

(* what happens to a count vector (sizes 1..17) after the merge loop *)
Definition post (b17 : list Z) : bool :=
  match limit_all sizes_32_17 (0 :: b17 ++ repeat 0 15) with
  | Ok bits' =>
    let b16 := firstn 16 (skipn 1 (remove_pseudo 33 bits' 32)) in
    forallb (fun b => (0 <=? b) && (b <? 256)) b16 && (zsum b16 =? zsum b17 - 1)
    && (t81_kraft b16 1 <=? 65536) && (length b16 =? 16)%nat
  | _ => false
  end.

Lemma search_all : search 17 1 (2 ^ 17) 18 [] post = true.
Proof. vm_compute. reflexivity. Qed.

Theorem post_ok : forall b17, length b17 = 17%nat -> Forall (fun b => 0 <= b) b17 -> zsum b17 <= 18 ->
  kraftw b17 1 = 2 ^ 17 -> post b17 = true.
Proof.
  intros b17 Hl Hnn Hs Hk. exact (search_sound 17 1 (2 ^ 17) 18 [] post search_all b17 Hl Hnn Hs Hk).
Qed.
