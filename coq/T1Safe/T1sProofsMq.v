(* T1Safe proofs, part 6: what the oracle abstraction of T1sModel.v leaves to the MQ area,
   spelled out against MQ/MqModel.v.  T1sModel checks every Decode(ctx) / SetContextState(ctx)
   against len(contexts) and treats the decisions as arbitrary; MQ/MqProofsDec.v proves that
   a decoder satisfying dec_inv survives any sequence of Decode(ctx < len(contexts)) /
   RawDecode() calls inside the sentinel-extended buffer.  The remaining operations the T1
   decoder performs on an MQ decoder object between decisions keep dec_inv:
     ReinitAfterTermination (a = 0x8000, c = 0, ct = 0; bp unchanged)     mqc.go 317-324
     ResetContexts + SetContextState(18,46) (17,3) (0,4)                  mqc.go 307-311, 332-334
     NewMQDecoder / NewMQDecoderWithContexts on a segment                 mqc.go 25-53, 101-125 *)
From V Require Import Common.Base MQ.MqModel MQ.MqProofs MQ.MqProofsDec.

Lemma t1s_mq_reinit_inv : forall data d c ct cx',
  dec_inv data d -> Forall cx_ok cx' ->
  dec_inv data (mkDec 32768 c ct (d_eos d) (d_bp d) (d_dlen d) (d_cur d) (d_rest d) cx').
Proof.
  intros data d c ct cx' (Hwf & Ha & Hcx) Hcx'. unfold dec_inv, dec_wf in *.
  cbn [d_a d_bp d_dlen d_cur d_rest d_cx]. repeat split; try tauto; try lia.
Qed.

(* the context vector the T1 decoder installs: 19 zero states, then [18]:=46, [17]:=3, [0]:=4 *)
Definition t1s_init_cx : list Z := [4; 0; 0; 0; 0; 0; 0; 0; 0; 0; 0; 0; 0; 0; 0; 0; 0; 3; 46].

Lemma t1s_init_cx_ok : Forall cx_ok t1s_init_cx /\ zlen t1s_init_cx = 19.
Proof.
  split; [|reflexivity].
  unfold t1s_init_cx. repeat constructor; vm_compute; try discriminate; reflexivity.
Qed.

(* one codeword segment: fresh decoder on ANY bytes with valid context states (the initial ones,
   or those inherited through GetContexts), then any interleaving of Decode(ctx < 19) and
   RawDecode(): every index stays in range and dec_inv holds again at the end *)
Theorem t1s_mq_segment_in_bounds : forall data cx ops,
  Forall cx_ok cx -> zlen cx = 19 ->
  Forall (fun o => fst o = 0 -> 0 <= snd o < 19) ops ->
  exists d0 d' bits, dec_new_cx data cx = Ok d0 /\
    dec_mixed_list d0 ops = Ok (d', bits) /\ dec_inv data d' /\
    length bits = length ops /\ 0 <= d_bp d' <= zlen data.
Proof.
  intros data cx ops Hcx Hlen Hops.
  destruct (dec_new_ok data cx Hcx) as (d0 & E0 & I0 & C0).
  destruct (mq_decoder_mixed_in_bounds data ops d0 I0) as (d' & bits & E & I & L & B).
  { rewrite C0, Hlen. exact Hops. }
  exists d0, d', bits. auto.
Qed.
