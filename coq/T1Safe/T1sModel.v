(* EXTRACT *)
(* T1Safe: PANIC-EXPLICIT control skeleton of the EBCOT tier-1 block DECODER of
   /repo/jpeg2000/t1/decoder.go on ARBITRARY input (properties C08 / C09).

   What is modelled (every line reference is to /repo/jpeg2000/t1/decoder.go):
     NewT1Decoder (43-63), DecodeLayeredWithMode (94-229), DecodeWithOptions (234-315),
     decodeSigPropPass (429-490), decodeMagRefPass (494-527), decodeCleanupPass (532-664),
     updateNeighborFlags (710-756), GetData (409-423), isLazyRawPass / isTerminatingPass
     (encoder.go 51-78) and the dispatch of t2/tile_decoder.go decodeCodeBlock (704-725).
   NOT modelled: Decoder.Decode (328-405; same loop as DecodeWithOptions with the start
   bit-plane estimated from numPasses; no caller outside tests), the HTJ2K block decoder.
   Every slice index (flags[idx], data[idx], passLengths[i], contexts[ctx]), slice expression
   (data[prevEnd:segmentEnd]) and make() of that code is an explicit check that yields Panic.
   Go shifts `int32(1) << uint(bitplane)` cannot panic (the count is converted to uint), Go
   integer overflow does not panic, the code has no division: coefficient VALUES are therefore
   not modelled; `t1.data` has the same length as `t1.flags` (both made in NewT1Decoder with
   paddedWidth*paddedHeight) and is only indexed with an `idx` that the same statement block
   has already used on `t1.flags`, so one check covers both.

   The entropy decoder is an ORACLE: `d_bits` is the list of decisions mqc.Decode / RawDecode
   will return (exhausted list = 0).  Decode returns mps or 1-mps with mps = *cx>>7, RawDecode
   returns (c>>ct)&1: a bit, so oracle entries are normalised to {0,1}.  What the oracle
   abstracts is exactly what Props/C08_mq.v proves separately: for any data and any sequence
   of Decode(ctx)/RawDecode() calls with ctx < len(contexts) the MQ decoder never indexes out
   of range.  What is NOT abstracted is the length of `contexts`: NewRawDecoder (mqc.go 56-72)
   leaves it nil, so Decode / SetContextState on a raw decoder panics; `d_nctx` tracks
   len(t1.mqc.contexts) and every Decode(ctx) / SetContextState(ctx) checks ctx < d_nctx.

   Loop bounds: stripes/columns/rows are the Go loop bounds (t1.height, t1.width); the pass
   loop runs on `nat` fuel = number of passes + 1 (one unit per coding pass).  The ROI skip
   (`if t1.roishift > 0 && t1.bitplane >= t1.roishift { passType = 0; t1.bitplane--; continue }`,
   which in Go runs once per skipped bit-plane, clearing VISIT each time) is written in closed
   form: bitplane := roishift-1, passType := 0, work += skipped * len(flags).  d_work counts:
   one per sample visit, one per oracle decision, len(flags) per VISIT-clearing sweep.
   l_alloc (layered loop) / t1s_layered_mem count the bytes requested with make(). *)
From V Require Import Common.Base T1.T1Store T1.T1Ctx.

Notation "'do' x <- m ; f" := (obind m (fun x => f))
  (at level 200, x pattern, m at level 100, f at level 200, right associativity).

Record dst : Type := mkD {
  d_flags : tree;   (* t1.flags (and, for the index checks, t1.data) *)
  d_nctx : Z;       (* len(t1.mqc.contexts) *)
  d_bits : list Z;  (* oracle *)
  d_work : Z }.

Definition setf (d : dst) (t : tree) : dst := mkD t (d_nctx d) (d_bits d) (d_work d).
Definition setn (d : dst) (n : Z) : dst := mkD (d_flags d) n (d_bits d) (d_work d).
Definition addw (d : dst) (k : Z) : dst := mkD (d_flags d) (d_nctx d) (d_bits d) (d_work d + k).
Definition tick (d : dst) : dst := addw d 1.

(* a[i] with len(a) = n *)
Definition chk {A} (i n : Z) (k : outcome A) : outcome A :=
  if (0 <=? i) && (i <? n) then k else Panic.

Definition nbit (b : Z) : Z := if b =? 0 then 0 else 1.
Definition next_bit (d : dst) : Z * dst :=
  match d_bits d with
  | [] => (0, tick d)
  | b :: r => (nbit b, mkD (d_flags d) (d_nctx d) r (d_work d + 1))
  end.

(* mqc.Decode(ctx): cx := &mqc.contexts[contextID] (mqc.go 175) *)
Definition mq_dec (ctx : Z) (d : dst) : outcome (Z * dst) :=
  chk ctx (d_nctx d) (Ok (next_bit d)).
(* mqc.RawDecode() (mqc.go 274-299): no context; data[bp] guarded by bp < dataLen *)
Definition raw_dec (d : dst) : outcome (Z * dst) := Ok (next_bit d).
(* mqc.SetContextState(ctx, v): mqc.contexts[contextID] = state (mqc.go 333) *)
Definition set_ctx (ctx : Z) (d : dst) : outcome dst := chk ctx (d_nctx d) (Ok d).
(* SetContextState(CTXUNI,46); SetContextState(CTXRL,3); SetContextState(CTXZCSTART,4) *)
Definition set_ctx3 (d : dst) : outcome dst :=
  do d1 <- set_ctx CTXUNI d; do d2 <- set_ctx CTXRL d1; set_ctx 0 d2.

(* for i := i0; i < i0+n; i++ { body } over a state *)
Fixpoint ofor {S : Type} (n : nat) (i : Z) (body : Z -> S -> outcome S) (s : S) : outcome S :=
  match n with
  | O => Ok s
  | Datatypes.S m => do s1 <- body i s; ofor m (i + 1) body s1
  end.

(* flags[i] |= m with the index check *)
Definition orc (n i m : Z) (t : tree) : outcome tree := chk i n (Ok (orf t i m)).

(* updateNeighborFlags(x, y, idx) (710-756); pw = paddedWidth *)
Definition upd_nb (w n x y idx : Z) (t : tree) : outcome tree :=
  let pw := w + 2 in
  chk idx n (
  let sg := has (fget t idx) T1Sign in
  let os (i sigm signm : Z) (t : tree) : outcome tree :=
    do t1 <- orc n i sigm t; if sg then orc n i signm t1 else Ok t1 in
  do t1 <- os ((y + 0) * pw + (x + 1)) T1SigS T1SignS t;
  do t2 <- os ((y + 2) * pw + (x + 1)) T1SigN T1SignN t1;
  do t3 <- os ((y + 1) * pw + (x + 0)) T1SigE T1SignE t2;
  do t4 <- os ((y + 1) * pw + (x + 2)) T1SigW T1SignW t3;
  do t5 <- orc n ((y + 0) * pw + (x + 0)) T1SigSE t4;
  do t6 <- orc n ((y + 0) * pw + (x + 2)) T1SigSW t5;
  do t7 <- orc n ((y + 2) * pw + (x + 0)) T1SigNE t6;
  orc n ((y + 2) * pw + (x + 2)) T1SigNW t7).

(* sign known: flags[idx] |= T1Sign (if sign); data[idx] = ...; flags[idx] |= T1Sig;
   updateNeighborFlags *)
Definition become_sig (w n x y idx sign : Z) (d : dst) : outcome dst :=
  let t := d_flags d in
  let t := if sign =? 0 then t else orf t idx T1Sign in
  let t := orf t idx T1Sig in
  do t' <- upd_nb w n x y idx t;
  Ok (setf d t').

(* sign decoding through the MQ coder: Decode(getSignCodingContext) ^ getSignPrediction *)
Definition mq_sign (f : Z) (d : dst) : outcome (Z * dst) :=
  do (sb, d1) <- mq_dec (sc_ctx_t f) d; Ok (Z.lxor sb (spb_t f), d1).

(* ---- decodeSigPropPass (429-490): body of the innermost loop ---- *)
Definition spp_sample (w n orient : Z) (raw : bool) (x y : Z) (d : dst) : outcome dst :=
  let idx := (y + 1) * (w + 2) + (x + 1) in
  chk idx n (
  let f := fget (d_flags d) idx in
  if has f T1Sig then Ok (tick d)
  else if negb (has f T1SigNeighbors) then Ok (tick d)
  else
    do (bit, d1) <- (if raw then raw_dec d else mq_dec (zc_ctx_t f orient) d);
    let d2 := setf d1 (orf (d_flags d1) idx T1Visit) in
    if bit =? 0 then Ok (tick d2)
    else
      do (sign, d3) <- (if raw then raw_dec d2 else mq_sign f d2);
      do d4 <- become_sig w n x y idx sign d3;
      Ok (tick d4)).

(* ---- decodeMagRefPass (494-527) ---- *)
Definition mrp_sample (w n : Z) (raw : bool) (x y : Z) (d : dst) : outcome dst :=
  let idx := (y + 1) * (w + 2) + (x + 1) in
  chk idx n (
  let f := fget (d_flags d) idx in
  if negb (has f T1Sig) || has f T1Visit then Ok (tick d)
  else
    do (bit, d1) <- (if raw then raw_dec d else mq_dec (mr_ctx f) d);
    (* t1.data[idx] = refine(t1.data[idx], ...) ; t1.flags[idx] |= T1Refine *)
    Ok (tick (setf d1 (orf (d_flags d1) idx T1Refine)))).

(* rows of one stripe column: for dy := 0; dy < 4 && k+dy < h; dy++ *)
Definition stripe_rows (h k : Z) : nat := Z.to_nat (Z.min 4 (h - k)).
Definition nstripes (h : Z) : nat := Z.to_nat ((h + 3) / 4).

(* for k := 0; k < h; k += 4 { for x := 0; x < w; x++ { col k x } } *)
Definition stripes (w h : Z) (col : Z -> Z -> dst -> outcome dst) (d : dst) : outcome dst :=
  ofor (nstripes h) 0 (fun j d1 => ofor (Z.to_nat w) 0 (fun x d2 => col (4 * j) x d2) d1) d.

Definition spp_pass (w h n orient : Z) (raw : bool) (d : dst) : outcome dst :=
  stripes w h (fun k x d1 =>
    ofor (stripe_rows h k) 0 (fun dy d2 => spp_sample w n orient raw x (k + dy) d2) d1) d.

Definition mrp_pass (w h n : Z) (raw : bool) (d : dst) : outcome dst :=
  stripes w h (fun k x d1 =>
    ofor (stripe_rows h k) 0 (fun dy d2 => mrp_sample w n raw x (k + dy) d2) d1) d.

(* ---- decodeCleanupPass (532-664) ---- *)
(* canUseRL scan (544-559): up to 4 rows, break on the first disqualifying sample *)
Fixpoint rl_scan (cnt : nat) (w n x y : Z) (d : dst) : outcome bool :=
  match cnt with
  | O => Ok true
  | S c =>
      let idx := (y + 1) * (w + 2) + (x + 1) in
      chk idx n (
      let f := fget (d_flags d) idx in
      if has f T1Visit then Ok false
      else if has f T1Sig || has f T1SigNeighbors then Ok false
      else rl_scan c w n x (y + 1) d)
  end.

(* significance found in the cleanup pass: sign, flags, neighbours (598-613 / 640-655) *)
Definition cln_sig (w n x y idx f : Z) (d : dst) : outcome dst :=
  do (sign, d1) <- mq_sign f d;
  become_sig w n x y idx sign d1.

(* flags[idx] &^= T1Visit (idx already checked) *)
Definition clr_visit (idx : Z) (d : dst) : dst := setf d (clrf (d_flags d) idx T1Visit).

(* rows runlen..3 of a run-length column (578-618); state = (partial, d) *)
Definition cln_rl_row (w n orient x k : Z) (dy : Z) (s : bool * dst) : outcome (bool * dst) :=
  let '(partial, d) := s in
  let y := k + dy in
  let idx := (y + 1) * (w + 2) + (x + 1) in
  chk idx n (
  let f := fget (d_flags d) idx in
  if has f T1Visit || has f T1Sig then Ok (partial, tick (clr_visit idx d))
  else
    do (isSig, d1) <- (if partial then Ok (1, d) else mq_dec (zc_ctx_t f orient) d);
    do d2 <- (if isSig =? 0 then Ok d1 else cln_sig w n x y idx f d1);
    Ok (false, tick (clr_visit idx d2))).

(* normal rows (625-660) *)
Definition cln_row (w n orient x k : Z) (dy : Z) (d : dst) : outcome dst :=
  let y := k + dy in
  let idx := (y + 1) * (w + 2) + (x + 1) in
  chk idx n (
  let f := fget (d_flags d) idx in
  if has f T1Visit || has f T1Sig then Ok (tick (clr_visit idx d))
  else
    do (bit, d1) <- mq_dec (zc_ctx_t f orient) d;
    do d2 <- (if bit =? 0 then Ok d1 else cln_sig w n x y idx f d1);
    Ok (tick (clr_visit idx d2))).

Definition cln_col (w h n orient : Z) (k x : Z) (d : dst) : outcome dst :=
  let normal (d : dst) := ofor (stripe_rows h k) 0 (cln_row w n orient x k) d in
  if k + 3 <? h then
    do can <- rl_scan 4 w n x k d;
    if can : bool then
      do (rl, d1) <- mq_dec CTXRL d;
      if rl =? 0 then Ok d1
      else
        do (b1, d2) <- mq_dec CTXUNI d1;
        do (b2, d3) <- mq_dec CTXUNI d2;
        let runlen := Z.lor (Z.shiftl b1 1) b2 in
        do s <- ofor (Z.to_nat (4 - runlen)) runlen (cln_rl_row w n orient x k) (true, d3);
        Ok (snd s)
    else normal d
  else normal d.

Definition cln_pass (w h n orient : Z) (d : dst) : outcome dst :=
  stripes w h (cln_col w h n orient) d.

(* if t1.segmentation { for i := 0; i < 4; i++ { t1.mqc.Decode(CTXUNI) } } *)
Definition segsym (d : dst) : outcome dst :=
  ofor 4 0 (fun _ d1 => do (_, d2) <- mq_dec CTXUNI d1; Ok d2) d.

(* isLazyRawPass / isTerminatingPass (encoder.go 51-78) *)
Definition is_lazy_raw (bp maxbp pt style : Z) : bool :=
  if negb (has style 1) then false
  else if 2 <=? pt then false
  else bp <? maxbp - 3.
Definition is_term (bp maxbp pt style : Z) : bool :=
  if (pt =? 2) && (bp =? 0) then true
  else if has style 4 then true
  else if has style 1 then
    if (bp =? maxbp - 3) && (pt =? 2) then true
    else if (bp <? maxbp - 3) && (0 <? pt) then true
    else false
  else false.

(* for i := 0; i < paddedWidth*paddedHeight; i++ { t1.flags[i] &^= T1Visit }: the bound is
   recomputed from t1.width/t1.height, the slice length is n *)
Definition clear_visit (w h n : Z) (d : dst) : outcome dst :=
  let m := (w + 2) * (h + 2) in
  if n <? m then Panic
  else Ok (addw (setf d (tmap (fun v => Z.ldiff v T1Visit) (d_flags d))) (Z.max 0 m)).

(* start of bit-plane handling common to both pass loops: VISIT sweep, ROI skip in closed
   form.  Returns (bitplane, passType, d) with which the pass is executed. *)
Definition bp_start (w h n roishift bp idx pt : Z) (d : dst) : outcome (Z * Z * dst) :=
  let start := (pt =? 0) || ((pt =? 2) && (idx =? 0)) in
  if start then
    do d1 <- clear_visit w h n d;
    if (0 <? roishift) && (roishift <=? bp)
    then Ok (roishift - 1, 0, addw d1 ((bp - roishift + 1) * Z.max 0 ((w + 2) * (h + 2))))
    else Ok (bp, pt, d1)
  else Ok (bp, pt, d).

(* switch passType { case 0: SPP; case 1: MRP; case 2: cleanup (+ segmentation symbols) } *)
Definition run_pass (w h n orient style : Z) (raw : bool) (pt : Z) (d : dst) : outcome dst :=
  if pt =? 0 then spp_pass w h n orient raw d
  else if pt =? 1 then mrp_pass w h n raw d
  else if pt =? 2 then
    do d1 <- cln_pass w h n orient d;
    if has style 32 then segsym d1 else Ok d1
  else Ok d.

(* ---- DecodeWithOptions (234-315) ---- *)
Fixpoint opt_loop (fuel : nat) (w h n orient style numPasses maxbp roishift : Z) (useT : bool)
         (bp idx pt : Z) (d : dst) : outcome dst :=
  if (0 <=? bp) && (idx <? numPasses) then
    match fuel with
    | O => OutOfFuel
    | S fu =>
        do (bp1, pt1, d1) <- bp_start w h n roishift bp idx pt d;
        let raw := is_lazy_raw bp1 maxbp pt1 style in
        do d2 <- run_pass w h n orient style raw pt1 d1;
        let idx' := idx + 1 in
        (* ReinitAfterTermination; ResetContexts; SetContextState x3 *)
        do d3 <- (if useT && (idx' <? numPasses) then set_ctx3 d2 else Ok d2);
        do d4 <- (if has style 2 && (idx' <? numPasses) && negb raw then set_ctx3 d3 else Ok d3);
        if pt1 =? 2
        then opt_loop fu w h n orient style numPasses maxbp roishift useT (bp1 - 1) idx' 0 d4
        else opt_loop fu w h n orient style numPasses maxbp roishift useT bp1 idx' (pt1 + 1) d4
    end
  else Ok d.

Definition pass_fuel (numPasses : Z) : nat := S (Z.to_nat numPasses).

Definition dec_opts (w h n orient style : Z) (data : list Z) (numPasses maxbp roishift : Z)
           (useT : bool) (fl : tree) (bits : list Z) : outcome dst :=
  let useT := useT || has style 4 in
  if zlen data =? 0 then Err
  else
    (* mqc.NewMQDecoder(data, NUMCONTEXTS): make(len(data)+2), make(19) *)
    do d1 <- set_ctx3 (mkD fl NUMCONTEXTS bits 0);
    opt_loop (pass_fuel numPasses) w h n orient style numPasses maxbp roishift useT maxbp 0 2 d1.

(* ---- DecodeLayeredWithMode (94-229) ---- *)
(* the closed form of `for t1.roishift > 0 && bp >= t1.roishift && bp > 0 { bp-- }` (159) *)
Definition roi_skip (roishift bp : Z) : Z :=
  if (0 <? roishift) && (roishift <=? bp) then roishift - 1 else bp.

(* lines 152-165: find the pass that terminates the segment starting at pass sl *)
Fixpoint seg_scan (fuel : nat) (numPasses maxbp roishift style : Z) (useT : bool)
         (sl bp pt : Z) : outcome Z :=
  if (sl <? numPasses - 1) && negb useT && negb (is_term bp maxbp pt style) then
    match fuel with
    | O => OutOfFuel
    | S fu =>
        if pt =? 2
        then seg_scan fu numPasses maxbp roishift style useT (sl + 1) (roi_skip roishift (bp - 1)) 0
        else seg_scan fu numPasses maxbp roishift style useT (sl + 1) bp (pt + 1)
    end
  else Ok sl.

Record lst : Type := mkL {
  l_prevEnd : Z; l_segEnd : Z; l_segLast : Z; l_needSeg : bool;
  l_mqStarted : bool;
  l_prevctx : Z;   (* len(prevContexts); 0 while nil *)
  l_alloc : Z;     (* bytes requested with make() inside the pass loop so far *)
  l_d : dst }.

(* lines 150-185 *)
Definition open_segment (numPasses maxbp roishift style : Z) (useT reset raw : bool)
           (data lens : list Z) (idx bp pt : Z) (s : lst) : outcome lst :=
  if l_needSeg s then
    do sl <- seg_scan (pass_fuel numPasses) numPasses maxbp roishift style useT idx bp pt;
    (* segmentEnd = passLengths[segmentLastPass] *)
    chk sl (zlen lens) (
    let se := znth lens sl 0 in
    if (se <? l_prevEnd s) || (zlen data <? se) then Err
    else
      (* data[prevEnd:segmentEnd]: 0 <= prevEnd <= segmentEnd <= cap(data) *)
      if (l_prevEnd s <? 0) || (se <? l_prevEnd s) || (zlen data <? se) then Panic
      else
        let d := l_d s in
        if raw then
          (* mqc.NewRawDecoder: contexts nil *)
          (* make([]byte, len(segmentData)+2) *)
          Ok (mkL (l_prevEnd s) se sl false (l_mqStarted s) (l_prevctx s)
                  (l_alloc s + (se - l_prevEnd s + 2)) (setn d 0))
        else if negb (l_mqStarted s) || reset then
          do d1 <- set_ctx3 (setn d NUMCONTEXTS);
          (* make([]byte, len(segmentData)+2); make([]uint8, NUMCONTEXTS) *)
          Ok (mkL (l_prevEnd s) se sl false true (l_prevctx s)
                  (l_alloc s + (se - l_prevEnd s + 2) + NUMCONTEXTS) d1)
        else
          (* mqc.NewMQDecoderWithContexts(segmentData, prevContexts): make(len(prevContexts)) *)
          Ok (mkL (l_prevEnd s) se sl false (l_mqStarted s) (l_prevctx s)
                  (l_alloc s + (se - l_prevEnd s + 2) + l_prevctx s) (setn d (l_prevctx s))))
  else Ok s.

Fixpoint lay_loop (fuel : nat) (w h n orient style numPasses maxbp roishift : Z)
         (useT reset : bool) (data lens : list Z) (bp idx pt : Z) (s : lst) : outcome (dst * Z) :=
  if (0 <=? bp) && (idx <? numPasses) then
    match fuel with
    | O => OutOfFuel
    | S fu =>
        do (bp1, pt1, d1) <- bp_start w h n roishift bp idx pt (l_d s);
        let raw := is_lazy_raw bp1 maxbp pt1 style in
        let s1 := mkL (l_prevEnd s) (l_segEnd s) (l_segLast s) (l_needSeg s) (l_mqStarted s)
                      (l_prevctx s) (l_alloc s) d1 in
        do s2 <- open_segment numPasses maxbp roishift style useT reset raw data lens idx bp1 pt1 s1;
        do d2 <- run_pass w h n orient style raw pt1 (l_d s2);
        (* lines 201-212 *)
        do (d3, pc) <- (if negb raw then
                           if reset then do d3 <- set_ctx3 d2; Ok (d3, l_prevctx s2)
                           else Ok (d2, d_nctx d2)        (* prevContexts = GetContexts() *)
                         else Ok (d2, l_prevctx s2));
        let last := idx =? l_segLast s2 in
        (* GetContexts: make([]uint8, len(mqc.contexts)) *)
        let ga := if negb raw && negb reset then d_nctx d2 else 0 in
        let s3 := mkL (if last then l_segEnd s2 else l_prevEnd s2) (l_segEnd s2) (l_segLast s2)
                      last (l_mqStarted s2) pc (l_alloc s2 + ga) d3 in
        if pt1 =? 2
        then lay_loop fu w h n orient style numPasses maxbp roishift useT reset data lens (bp1 - 1) (idx + 1) 0 s3
        else lay_loop fu w h n orient style numPasses maxbp roishift useT reset data lens bp1 (idx + 1) (pt1 + 1) s3
    end
  else Ok (l_d s, l_alloc s).

Definition dec_layered (w h n orient style : Z) (data lens : list Z) (maxbp roishift : Z)
           (useT lossless : bool) (fl : tree) (bits : list Z) : outcome (dst * Z) :=
  if zlen data =? 0 then Err
  else if zlen lens =? 0 then Err
  else if negb useT && negb (has style 1) then
    (* one NewMQDecoder: make([]byte, len(data)+2), make([]uint8, NUMCONTEXTS) *)
    do d <- dec_opts w h n orient style data (zlen lens) maxbp roishift false fl bits;
    Ok (d, zlen data + 2 + NUMCONTEXTS)
  else
    let numPasses := zlen lens in
    let reset := lossless || has style 2 in
    lay_loop (pass_fuel numPasses) w h n orient style numPasses maxbp roishift useT reset data lens
             maxbp 0 2 (mkL 0 0 0 true false 0 0 (mkD fl 0 bits 0)).

(* ---- NewT1Decoder (43-63): two make([]T, paddedWidth*paddedHeight) with 4-byte elements.
   runtime.makeslice panics for a negative length or more than maxAlloc = 2^48 bytes.
   (faithful for |w|,|h| < 2^31, where the int product does not wrap) ---- *)
Definition new_decoder (w h : Z) : outcome Z :=
  let n := (w + 2) * (h + 2) in
  if (n <? 0) || (2 ^ 48 <? n * 4) then Panic else Ok n.

(* ---- GetData (409-423): result[y*w+x] = data[(y+1)*pw+(x+1)] ---- *)
Definition get_data (w h n : Z) (d : dst) : outcome dst :=
  let m := w * h in
  if (m <? 0) || (2 ^ 48 <? m * 4) then Panic
  else
    ofor (Z.to_nat h) 0 (fun y d1 =>
      ofor (Z.to_nat w) 0 (fun x d2 =>
        chk ((y + 1) * (w + 2) + (x + 1)) n (chk (y * w + x) m (Ok (tick d2)))) d1) d.

(* ---- the three ways t2/tile_decoder.go decodeCodeBlock (704-725) reaches the decoder, on a
   freshly made decoder (buildAndDecodeCodeBlocks 593), followed by GetData on success ---- *)
Definition t1s_layered (w h orient style : Z) (data lens : list Z) (maxbp roishift : Z)
           (useT lossless : bool) (bits : list Z) : outcome dst :=
  do n <- new_decoder w h;
  do r <- dec_layered w h n orient style data lens maxbp roishift useT lossless Leaf bits;
  get_data w h n (fst r).

(* bytes requested with make() by NewT1Decoder (two arrays of 4-byte elements), by the pass
   loop (codeword-segment buffers, context arrays) and by GetData *)
Definition t1s_layered_mem (w h orient style : Z) (data lens : list Z) (maxbp roishift : Z)
           (useT lossless : bool) (bits : list Z) : outcome Z :=
  do n <- new_decoder w h;
  do r <- dec_layered w h n orient style data lens maxbp roishift useT lossless Leaf bits;
  do _ <- get_data w h n (fst r);
  Ok (8 * n + snd r + 4 * (w * h)).

Definition t1s_bitplane (w h orient style : Z) (data : list Z) (numPasses maxbp roishift : Z)
           (bits : list Z) : outcome dst :=
  do n <- new_decoder w h;
  do d <- dec_opts w h n orient style data numPasses maxbp roishift false Leaf bits;
  get_data w h n d.

(* decodeCodeBlock: passLengths present -> DecodeLayeredWithMode(data, passLengths, maxbp, 0,
   useTERMALL, style&2 != 0), else DecodeWithBitplane(data, numPasses, maxbp, 0) *)
Definition t1s_block (w h orient style : Z) (data lens : list Z) (numPasses maxbp : Z)
           (useT : bool) (bits : list Z) : outcome dst :=
  if 0 <? zlen lens
  then t1s_layered w h orient style data lens maxbp 0 useT (has style 2) bits
  else t1s_bitplane w h orient style data numPasses maxbp 0 bits.

(* observable of the correspondence run: outcome class and work *)
Definition t1s_class (o : outcome dst) : outcome Z :=
  match o with Ok d => Ok (d_work d) | Err => Err | Panic => Panic | OutOfFuel => OutOfFuel end.
