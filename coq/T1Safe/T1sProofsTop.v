(* T1Safe proofs, part 4: the entry points as reached from t2/tile_decoder.go.
   Guards (Go sites):
     1 <= w, h       t2/tile_decoder.go 569-571 (`if actualWidth <= 0 || actualHeight <= 0 { continue }`)
     w, h <= 1024    actualWidth <= cbWidth (tile_decoder.go 553-568: localX1 = localX0 + cbWidth,
                     clipped to the band), cbWidth = 1 << (CodeBlockWidth+2) (codestream/types.go
                     94-98), CodeBlockWidth, CodeBlockHeight <= 8 (codestream/parser.go 962-964)
     roishift = 0    literal 0 at tile_decoder.go 711, 713, 716 (only t1_decode_work needs it; the
                     totality theorems hold for every roishift)
   Everything else (style, orientation, data bytes, pass lengths, number of passes, maxBitplane,
   roishift, useTERMALL, lossless, and whatever the entropy decoder returns) is ARBITRARY. *)
From V Require Import Common.Base T1.T1Store T1.T1Ctx T1Safe.T1sModel T1Safe.T1sProofsBase
  T1Safe.T1sProofsPass T1Safe.T1sProofsLoop.

(* per-pass work constant: 15 per stripe column (<= 15 w h), 4 segmentation symbols, one VISIT
   sweep of the padded array *)
Definition t1s_K (w h : Z) : Z := 15 * w * h + 4 + (w + 2) * (h + 2).

Lemma itercost_le_K : forall w h, 0 <= w -> 0 <= h -> itercost w h <= t1s_K w h.
Proof. intros. unfold itercost, t1s_K. pose proof (passcost_le w h). lia. Qed.

Lemma t1s_K_le : forall w h, 1 <= w -> 1 <= h -> t1s_K w h <= 28 * w * h.
Proof. intros. unfold t1s_K. nia. Qed.

Lemma new_decoder_ok : forall w h, 0 <= w <= 1024 -> 0 <= h <= 1024 ->
  new_decoder w h = Ok ((w + 2) * (h + 2)).
Proof.
  intros w h Hw Hh. unfold new_decoder.
  replace ((w + 2) * (h + 2) <? 0) with false by (symmetry; apply Z.ltb_ge; nia).
  replace (2 ^ 48 <? (w + 2) * (h + 2) * 4) with false; [reflexivity|].
  symmetry. apply Z.ltb_ge. change (2 ^ 48) with 281474976710656. nia.
Qed.

Lemma get_data_ok : forall w h d, 0 <= w <= 1024 -> 0 <= h <= 1024 ->
  okd (w * h) d (get_data w h ((w + 2) * (h + 2)) d).
Proof.
  intros w h d Hw Hh. unfold get_data.
  replace (w * h <? 0) with false by (symmetry; apply Z.ltb_ge; nia).
  replace (2 ^ 48 <? w * h * 4) with false
    by (symmetry; apply Z.ltb_ge; change (2 ^ 48) with 281474976710656; nia).
  cbn [orb].
  apply okd_mono with (c := Z.of_nat (Z.to_nat h) * (Z.of_nat (Z.to_nat w) * 1)).
  { rewrite !Z2Nat.id by lia. lia. }
  apply ofor_okd with (nc := d_nctx d); auto.
  intros y d1 Hy Hd1. apply ofor_okd with (nc := d_nctx d); auto.
  intros x d2 Hx Hd2. rewrite Z2Nat.id in Hy, Hx by lia.
  rewrite chk_in by (apply idx_in; lia).
  rewrite chk_in by nia.
  apply okd_tick; lia.
Qed.

Lemma dec_opts_ok : forall w h orient style data numPasses maxbp roishift useT fl bits,
  0 <= w -> 0 <= h ->
  dec_opts w h ((w + 2) * (h + 2)) orient style data numPasses maxbp roishift useT fl bits = Err \/
  exists d, dec_opts w h ((w + 2) * (h + 2)) orient style data numPasses maxbp roishift useT fl bits
            = Ok d /\
    (roishift <= 0 -> d_work d <= Z.max 0 numPasses * t1s_K w h).
Proof.
  intros w h orient style data numPasses maxbp roishift useT fl bits Hw Hh. unfold dec_opts.
  destruct (zlen data =? 0); [left; reflexivity|]. right.
  rewrite set_ctx3_ok by (cbn [d_nctx]; apply ctx_consts). cbn [obind].
  destruct (opt_loop_ok w h orient style numPasses maxbp roishift (useT || has style 4) Hw Hh
              (pass_fuel numPasses) maxbp 0 2 (mkD fl NUMCONTEXTS bits 0))
    as (d' & E & _ & W).
  { cbn [d_nctx]. apply ctx_consts. }
  { unfold pass_fuel. lia. }
  exists d'. split; auto. intros Hr. specialize (W Hr). cbn [d_work] in W.
  rewrite Z.sub_0_r in W. pose proof (itercost_le_K w h Hw Hh).
  pose proof (itercost_nonneg w h Hw Hh). nia.
Qed.

Lemma dec_layered_ok : forall w h orient style data lens maxbp roishift useT lossless fl bits,
  0 <= w -> 0 <= h ->
  dec_layered w h ((w + 2) * (h + 2)) orient style data lens maxbp roishift useT lossless fl bits = Err \/
  exists r, dec_layered w h ((w + 2) * (h + 2)) orient style data lens maxbp roishift useT lossless
              fl bits = Ok r /\
    (roishift <= 0 -> d_work (fst r) <= zlen lens * t1s_K w h) /\
    snd r <= zlen data + 40 * zlen lens + 21.
Proof.
  intros w h orient style data lens maxbp roishift useT lossless fl bits Hw Hh.
  assert (HL : 0 <= zlen lens) by (unfold zlen; lia).
  unfold dec_layered.
  destruct (zlen data =? 0) eqn:D0; [left; reflexivity|].
  destruct (zlen lens =? 0); [left; reflexivity|].
  destruct (negb useT && negb (has style 1)).
  - destruct (dec_opts_ok w h orient style data (zlen lens) maxbp roishift false fl bits Hw Hh)
      as [E | (d & E & W)]; rewrite E; cbn [obind]; [left; auto|].
    right. eexists. split; [reflexivity|]. cbn [fst snd]. split.
    + intros Hr. specialize (W Hr). rewrite Z.max_r in W by lia. exact W.
    + destruct ctx_consts as (_ & _ & C19). rewrite C19. lia.
  - destruct (lay_loop_ok w h orient style (zlen lens) maxbp roishift useT (lossless || has style 2)
                data lens Hw Hh eq_refl (pass_fuel (zlen lens)) maxbp 0 2
                (mkL 0 0 0 true false 0 0 (mkD fl 0 bits 0))) as [E | (r & E & W & A)].
    + unfold linv. cbn [l_prevEnd l_needSeg l_mqStarted l_segEnd l_prevctx l_d d_nctx].
      repeat split; try lia; try discriminate.
    + unfold minv. cbn [l_prevEnd l_needSeg l_segEnd l_alloc].
      assert (0 <= zlen data) by (unfold zlen; lia). lia.
    + lia.
    + unfold pass_fuel. lia.
    + left. auto.
    + right. exists r. split; auto. split; [|lia]. intros Hr. specialize (W Hr).
      cbn [l_d d_work] in W. rewrite Z.sub_0_r in W. rewrite Z.max_r in W by lia.
      pose proof (itercost_le_K w h Hw Hh). pose proof (itercost_nonneg w h Hw Hh). nia.
Qed.

(* ---------------- top level ---------------- *)
Definition t1s_safe (bound : Z) (roishift : Z) (o : outcome dst) : Prop :=
  o = Err \/ exists d, o = Ok d /\ (roishift <= 0 -> d_work d <= bound).

Theorem t1s_layered_total :
  forall w h orient style data lens maxbp roishift useT lossless bits,
  1 <= w <= 1024 -> 1 <= h <= 1024 ->
  t1s_safe (zlen lens * t1s_K w h + w * h) roishift
    (t1s_layered w h orient style data lens maxbp roishift useT lossless bits).
Proof.
  intros w h orient style data lens maxbp roishift useT lossless bits Hw Hh.
  unfold t1s_safe, t1s_layered.
  rewrite new_decoder_ok by lia. cbn [obind].
  destruct (dec_layered_ok w h orient style data lens maxbp roishift useT lossless Leaf bits)
    as [E | (r & E & W & _)]; try lia; rewrite E; cbn [obind]; [left; reflexivity|].
  right. destruct (get_data_ok w h (fst r)) as (d' & E' & _ & W'); try lia.
  exists d'. split; auto. intros Hr. specialize (W Hr). lia.
Qed.

(* bytes requested with make(): the two padded arrays, the result of GetData, the codeword
   segment buffers (disjoint slices of data, + 2 sentinel bytes each) and the context arrays *)
Theorem t1s_layered_mem_total :
  forall w h orient style data lens maxbp roishift useT lossless bits,
  1 <= w <= 1024 -> 1 <= h <= 1024 ->
  t1s_layered_mem w h orient style data lens maxbp roishift useT lossless bits = Err \/
  exists m, t1s_layered_mem w h orient style data lens maxbp roishift useT lossless bits = Ok m /\
            m <= 8 * ((w + 2) * (h + 2)) + 4 * (w * h) + zlen data + 40 * zlen lens + 21.
Proof.
  intros w h orient style data lens maxbp roishift useT lossless bits Hw Hh.
  unfold t1s_layered_mem.
  rewrite new_decoder_ok by lia. cbn [obind].
  destruct (dec_layered_ok w h orient style data lens maxbp roishift useT lossless Leaf bits)
    as [E | (r & E & _ & A)]; try lia; rewrite E; cbn [obind]; [left; reflexivity|].
  right. destruct (get_data_ok w h (fst r)) as (d' & E' & _ & _); try lia.
  rewrite E'. cbn [obind]. eexists. split; [reflexivity|]. lia.
Qed.

Theorem t1s_bitplane_total :
  forall w h orient style data numPasses maxbp roishift bits,
  1 <= w <= 1024 -> 1 <= h <= 1024 ->
  t1s_safe (Z.max 0 numPasses * t1s_K w h + w * h) roishift
    (t1s_bitplane w h orient style data numPasses maxbp roishift bits).
Proof.
  intros w h orient style data numPasses maxbp roishift bits Hw Hh.
  unfold t1s_safe, t1s_bitplane.
  rewrite new_decoder_ok by lia. cbn [obind].
  destruct (dec_opts_ok w h orient style data numPasses maxbp roishift false Leaf bits)
    as [E | (d & E & W)]; try lia; rewrite E; cbn [obind]; [left; reflexivity|].
  right. destruct (get_data_ok w h d) as (d' & E' & _ & W'); try lia.
  exists d'. split; auto. intros Hr. specialize (W Hr). lia.
Qed.

(* the dispatch of tile_decoder.go decodeCodeBlock: roishift is the literal 0 there *)
Theorem t1_decode_total :
  forall w h orient style data lens numPasses maxbp useT bits,
  1 <= w <= 1024 -> 1 <= h <= 1024 ->
  exists r, t1s_block w h orient style data lens numPasses maxbp useT bits = Ok r \/
            t1s_block w h orient style data lens numPasses maxbp useT bits = Err.
Proof.
  intros w h orient style data lens numPasses maxbp useT bits Hw Hh. unfold t1s_block.
  destruct (0 <? zlen lens).
  - destruct (t1s_layered_total w h orient style data lens maxbp 0 useT (has style 2) bits Hw Hh)
      as [E | (d & E & _)].
    + exists (mkD Leaf 0 [] 0). right. exact E.
    + exists d. left. exact E.
  - destruct (t1s_bitplane_total w h orient style data numPasses maxbp 0 bits Hw Hh)
      as [E | (d & E & _)].
    + exists (mkD Leaf 0 [] 0). right. exact E.
    + exists d. left. exact E.
Qed.

Theorem t1_decode_work :
  forall w h orient style data lens numPasses maxbp useT bits d,
  1 <= w <= 1024 -> 1 <= h <= 1024 ->
  t1s_block w h orient style data lens numPasses maxbp useT bits = Ok d ->
  d_work d <= 28 * w * h * (Z.max (zlen lens) numPasses) + w * h.
Proof.
  intros w h orient style data lens numPasses maxbp useT bits d Hw Hh E.
  unfold t1s_block in E.
  assert (HL : 0 <= zlen lens) by (unfold zlen; lia).
  pose proof (t1s_K_le w h (proj1 Hw) (proj1 Hh)) as HK.
  assert (HK0 : 0 <= t1s_K w h) by (unfold t1s_K; nia).
  destruct (0 <? zlen lens) eqn:L.
  - destruct (t1s_layered_total w h orient style data lens maxbp 0 useT (has style 2) bits Hw Hh)
      as [E' | (d' & E' & W)]; rewrite E' in E; [discriminate|].
    inversion E. subst d'. specialize (W (Z.le_refl 0)).
    assert (zlen lens <= Z.max (zlen lens) numPasses) by lia. nia.
  - apply Z.ltb_ge in L.
    destruct (t1s_bitplane_total w h orient style data numPasses maxbp 0 bits Hw Hh)
      as [E' | (d' & E' & W)]; rewrite E' in E; [discriminate|].
    inversion E. subst d'. specialize (W (Z.le_refl 0)).
    assert (Z.max 0 numPasses <= Z.max (zlen lens) numPasses) by lia.
    assert (0 <= Z.max 0 numPasses) by lia. nia.
Qed.

(* non-vacuity / sanity instances, evaluated *)
Example t1s_example_ok :
  t1s_class (t1s_block 4 4 0 0 [1; 2; 3] [] 4 2 false [1; 0; 1; 1; 0; 1; 0; 0; 1]) = Ok 173.
Proof. vm_compute. reflexivity. Qed.

Example t1s_example_err :
  t1s_class (t1s_block 4 4 0 1 [1; 2; 3] [2; 1; 9] 0 7 false []) = Err.
Proof. vm_compute. reflexivity. Qed.

(* the model does distinguish decoders without contexts: cleanup on a raw decoder panics *)
Example t1s_example_raw_panics :
  cln_pass 4 4 36 0 (mkD Leaf 0 [] 0) = Panic.
Proof. vm_compute. reflexivity. Qed.
