(* T1Safe proofs, part 2: the three coding passes are total on any flag array of the padded
   size, preserve len(contexts) and do at most 15 units of work per stripe column. *)
From V Require Import Common.Base T1.T1Store T1.T1Ctx T1Safe.T1sModel T1Safe.T1sProofsBase.

Lemma okd_mono : forall c c' d o, c <= c' -> okd c d o -> okd c' d o.
Proof. intros c c' d o H (d' & E & N & W). exists d'. repeat split; auto. lia. Qed.

Lemma ofor_okd : forall nc c body n i0 d,
  (forall i d, i0 <= i < i0 + Z.of_nat n -> d_nctx d = nc -> okd c d (body i d)) ->
  d_nctx d = nc -> okd (Z.of_nat n * c) d (ofor n i0 body d).
Proof.
  intros nc c body n i0 d Hb Hd.
  destruct (ofor_ok dst (fun d => d_nctx d = nc) d_work c body n i0 d) as (d' & E & N & W); auto.
  - intros i s Hi Hs. destruct (Hb i s Hi Hs) as (s' & E & N & W). exists s'.
    repeat split; auto. congruence.
  - exists d'. repeat split; auto. congruence.
Qed.

Lemma stripe_rows_le : forall h k, Z.of_nat (stripe_rows h k) <= 4.
Proof. intros. unfold stripe_rows. lia. Qed.
Lemma stripe_rows_in : forall h k dy, 0 <= k -> 0 <= dy < 0 + Z.of_nat (stripe_rows h k) -> 0 <= k + dy < h.
Proof. intros h k dy Hk H. unfold stripe_rows in H. lia. Qed.

(* stripes: the column body is run for k = 4j < h and 0 <= x < w *)
Lemma stripes_okd : forall nc c w h col d,
  0 <= c ->
  (forall k x d, 0 <= k < h -> 0 <= x < w -> d_nctx d = nc -> okd c d (col k x d)) ->
  d_nctx d = nc ->
  okd (Z.of_nat (nstripes h) * (Z.of_nat (Z.to_nat w) * c)) d (stripes w h col d).
Proof.
  intros nc c w h col d Hc Hcol Hd. unfold stripes.
  apply ofor_okd with (nc := nc); auto.
  intros j d1 Hj Hd1.
  apply ofor_okd with (nc := nc); auto.
  intros x d2 Hx Hd2. apply Hcol; auto.
  - unfold nstripes in Hj.
    assert (0 <= (h + 3) / 4) by (destruct (Z_lt_le_dec h 0); [lia | apply Z.div_pos; lia]).
    rewrite Z2Nat.id in Hj by lia.
    assert (4 * ((h + 3) / 4) <= h + 3) by (apply Z.mul_div_le; lia). lia.
  - lia.
Qed.

Definition colcost : Z := 15.
Definition passcost (w h : Z) : Z := Z.of_nat (nstripes h) * (Z.of_nat (Z.to_nat w) * colcost).

Lemma passcost_le : forall w h, 0 <= w -> 0 <= h -> passcost w h <= 15 * w * h.
Proof.
  intros w h Hw Hh. unfold passcost, colcost, nstripes.
  rewrite !Z2Nat.id; try lia.
  - assert ((h + 3) / 4 <= h).
    { destruct (Z.eq_dec h 0) as [->|]; [reflexivity|].
      apply Z.div_le_upper_bound; lia. }
    assert (0 <= (h + 3) / 4) by (apply Z.div_pos; lia). nia.
  - apply Z.div_pos; lia.
Qed.
Lemma passcost_nonneg : forall w h, 0 <= passcost w h.
Proof. intros. unfold passcost, colcost. lia. Qed.

Lemma spp_pass_ok : forall w h orient raw d,
  raw = true \/ d_nctx d = 19 ->
  okd (passcost w h) d (spp_pass w h ((w + 2) * (h + 2)) orient raw d).
Proof.
  intros w h orient raw d Hr. unfold spp_pass, passcost.
  apply stripes_okd with (nc := d_nctx d); auto; [unfold colcost; lia|].
  intros k x d1 Hk Hx Hd1.
  apply okd_mono with (c := Z.of_nat (stripe_rows h k) * 3).
  { pose proof (stripe_rows_le h k). unfold colcost. lia. }
  apply ofor_okd with (nc := d_nctx d); auto.
  intros dy d2 Hdy Hd2. apply spp_sample_ok; auto.
  - apply stripe_rows_in with (dy := dy); lia.
  - destruct Hr; [left; auto | right; congruence].
Qed.

Lemma mrp_pass_ok : forall w h raw d,
  raw = true \/ d_nctx d = 19 ->
  okd (passcost w h) d (mrp_pass w h ((w + 2) * (h + 2)) raw d).
Proof.
  intros w h raw d Hr. unfold mrp_pass, passcost.
  apply stripes_okd with (nc := d_nctx d); auto; [unfold colcost; lia|].
  intros k x d1 Hk Hx Hd1.
  apply okd_mono with (c := Z.of_nat (stripe_rows h k) * 3).
  { pose proof (stripe_rows_le h k). unfold colcost. lia. }
  apply ofor_okd with (nc := d_nctx d); auto.
  intros dy d2 Hdy Hd2. apply mrp_sample_ok; auto.
  - apply stripe_rows_in with (dy := dy); lia.
  - destruct Hr; [left; auto | right; congruence].
Qed.

(* the rows of a run-length column *)
Lemma cln_rl_rows_ok : forall w h orient x k runlen d,
  0 <= x < w -> 0 <= k -> k + 3 < h -> 0 <= runlen <= 3 -> d_nctx d = 19 ->
  exists s, ofor (Z.to_nat (4 - runlen)) runlen
                 (cln_rl_row w ((w + 2) * (h + 2)) orient x k) (true, d) = Ok s /\
            d_nctx (snd s) = 19 /\ d_work (snd s) <= d_work d + 12.
Proof.
  intros w h orient x k runlen d Hx Hk Hk3 Hr Hn.
  destruct (ofor_ok (bool * dst) (fun s => d_nctx (snd s) = 19) (fun s => d_work (snd s)) 3
              (cln_rl_row w ((w + 2) * (h + 2)) orient x k) (Z.to_nat (4 - runlen)) runlen (true, d))
    as (s' & E & N & W); auto.
  - intros i [p d0] Hi Hs. rewrite Z2Nat.id in Hi by lia.
    destruct (cln_rl_row_ok w h orient x k i p d0) as (p' & d' & E & N & W); auto; [lia|].
    exists (p', d'). auto.
  - exists s'. repeat split; auto. rewrite Z2Nat.id in W by lia. cbn [snd] in W. lia.
Qed.

Lemma cln_col_ok : forall w h orient k x d, 0 <= k < h -> 0 <= x < w -> d_nctx d = 19 ->
  okd colcost d (cln_col w h ((w + 2) * (h + 2)) orient k x d).
Proof.
  intros w h orient k x d Hk Hx Hn.
  assert (Hnorm : okd colcost d
            (ofor (stripe_rows h k) 0 (cln_row w ((w + 2) * (h + 2)) orient x k) d)).
  { apply okd_mono with (c := Z.of_nat (stripe_rows h k) * 3).
    { pose proof (stripe_rows_le h k). unfold colcost. lia. }
    apply ofor_okd with (nc := 19); auto.
    intros dy d2 Hdy Hd2. apply cln_row_ok; auto.
    apply stripe_rows_in with (dy := dy); lia. }
  unfold cln_col.
  destruct (k + 3 <? h) eqn:Hk3; [|exact Hnorm].
  apply Z.ltb_lt in Hk3.
  destruct (rl_scan_ok 4 w h x k d) as (can & Ecan); [lia | lia | simpl; lia |].
  rewrite Ecan. cbn [obind].
  destruct can; [|exact Hnorm].
  destruct ctx_consts as (CRL & CUNI & _).
  destruct (mq_dec_ok CTXRL d) as (rl & d1 & E1 & _ & N1 & W1 & _); [rewrite CRL; lia|].
  rewrite E1. cbn [obind].
  destruct (rl =? 0).
  { exists d1. unfold colcost. repeat split; auto; lia. }
  destruct (mq_dec_ok CTXUNI d1) as (b1 & d2 & E2 & B1 & N2 & W2 & _); [rewrite CUNI; lia|].
  rewrite E2. cbn [obind].
  destruct (mq_dec_ok CTXUNI d2) as (b2 & d3 & E3 & B2 & N3 & W3 & _); [rewrite CUNI; lia|].
  rewrite E3. cbn [obind].
  assert (Hrun : 0 <= Z.lor (Z.shiftl b1 1) b2 <= 3).
  { destruct B1 as [-> | ->]; destruct B2 as [-> | ->]; vm_compute; split; discriminate. }
  destruct (cln_rl_rows_ok w h orient x k _ d3 Hx (proj1 Hk) Hk3 Hrun) as (s & Es & Ns & Ws); [lia|].
  rewrite Es. cbn [obind].
  exists (snd s). unfold colcost. repeat split; auto; lia.
Qed.

Lemma cln_pass_ok : forall w h orient d, d_nctx d = 19 ->
  okd (passcost w h) d (cln_pass w h ((w + 2) * (h + 2)) orient d).
Proof.
  intros w h orient d Hn. unfold cln_pass, passcost.
  apply stripes_okd with (nc := 19); auto; [unfold colcost; lia|].
  intros k x d1 Hk Hx Hd1. replace (d_nctx d) with (d_nctx d1) by congruence.
  apply cln_col_ok; auto.
Qed.

Lemma segsym_ok : forall d, d_nctx d = 19 -> okd 4 d (segsym d).
Proof.
  intros d Hn. unfold segsym.
  change 4 with (Z.of_nat 4 * 1).
  apply ofor_okd with (nc := 19); auto.
  intros i d1 _ Hd1. destruct ctx_consts as (_ & CUNI & _).
  destruct (mq_dec_ok CTXUNI d1) as (b & d2 & E & _ & N & W & _); [rewrite CUNI; lia|].
  rewrite E. cbn [obind]. exists d2. repeat split; auto; lia.
Qed.

(* one coding pass: safe when the decoder has its 19 contexts, or when the pass is raw (then it
   is an SPP or MRP and only calls RawDecode) *)
Lemma run_pass_ok : forall w h orient style raw pt d,
  d_nctx d = 19 \/ (raw = true /\ pt <> 2) ->
  okd (passcost w h + 4) d (run_pass w h ((w + 2) * (h + 2)) orient style raw pt d).
Proof.
  intros w h orient style raw pt d Hc. unfold run_pass.
  pose proof (passcost_nonneg w h) as Hp.
  destruct (pt =? 0).
  { apply okd_mono with (c := passcost w h); [lia|]. apply spp_pass_ok. tauto. }
  destruct (pt =? 1).
  { apply okd_mono with (c := passcost w h); [lia|]. apply mrp_pass_ok. tauto. }
  destruct (pt =? 2) eqn:E2.
  - apply Z.eqb_eq in E2. destruct Hc as [Hn | [_ Hne]]; [|contradiction].
    destruct (cln_pass_ok w h orient d Hn) as (d1 & E1 & N1 & W1). rewrite E1. cbn [obind].
    destruct (has style 32).
    + destruct (segsym_ok d1) as (d2 & Es & Ns & Ws); [congruence|].
      exists d2. repeat split; auto; [congruence | lia].
    + exists d1. repeat split; auto. lia.
  - exists d. repeat split; auto. lia.
Qed.
