(* T1Safe proofs, part 1: checked accessors, the generic loop lemma, context ranges, index
   arithmetic of the padded (w+2) x (h+2) arrays, per-sample totality and work. *)
From V Require Import Common.Base T1.T1Store T1.T1Ctx T1.T1CtxProofs T1Safe.T1sModel.
Require V.Gen.T1Tables_gen.

Lemma chk_in : forall A i n (k : outcome A), 0 <= i < n -> chk i n k = k.
Proof.
  intros A i n k H. unfold chk.
  replace (0 <=? i) with true by (symmetry; apply Z.leb_le; lia).
  replace (i <? n) with true by (symmetry; apply Z.ltb_lt; lia). reflexivity.
Qed.

(* generic loop lemma: invariant P, measure wk growing by at most c per iteration *)
Lemma ofor_ok : forall (S : Type) (P : S -> Prop) (wk : S -> Z) (c : Z) body n i0 (s : S),
  (forall i s, i0 <= i < i0 + Z.of_nat n -> P s ->
     exists s', body i s = Ok s' /\ P s' /\ wk s' <= wk s + c) ->
  P s ->
  exists s', ofor n i0 body s = Ok s' /\ P s' /\ wk s' <= wk s + Z.of_nat n * c.
Proof.
  intros S P wk c body n. induction n as [|n IH]; intros i0 s Hb Hs.
  - exists s. cbn [ofor]. repeat split; auto. lia.
  - cbn [ofor]. destruct (Hb i0 s) as (s1 & E1 & P1 & W1); [lia | auto |].
    rewrite E1. cbn [obind].
    destruct (IH (i0 + 1) s1) as (s2 & E2 & P2 & W2); [| auto |].
    + intros i s0 Hi Hp. apply Hb; [lia | auto].
    + exists s2. repeat split; auto. lia.
Qed.

(* ---------------- context ranges ---------------- *)
Lemma znth_forallb : forall (P : Z -> bool) l i d,
  forallb P l = true -> P d = true -> P (znth l i d) = true.
Proof.
  intros P l i d Hl Hd. unfold znth. destruct (i <? 0); auto.
  destruct (nth_in_or_default (Z.to_nat i) l d) as [Hin | He].
  - rewrite forallb_forall in Hl. apply Hl; auto.
  - rewrite He; auto.
Qed.

Definition ctx19 (v : Z) : bool := (0 <=? v) && (v <? 19).

Lemma lut_zc_ctx19 : forallb ctx19 T1Tables_gen.t1_lut_zc = true.
Proof. vm_compute. reflexivity. Qed.
Lemma lut_sc_ctx19 : forallb ctx19 T1Tables_gen.t1_lut_sc = true.
Proof. vm_compute. reflexivity. Qed.

Lemma ctx19_range : forall v, ctx19 v = true -> 0 <= v < 19.
Proof. intros v H. unfold ctx19 in H. apply andb_prop in H. destruct H as [A B].
  apply Z.leb_le in A. apply Z.ltb_lt in B. lia. Qed.

Lemma zc_ctx_range : forall f o, 0 <= zc_ctx_t f o < 19.
Proof.
  intros f o. rewrite zc_ctx_t_eq. apply ctx19_range. unfold zc_ctx.
  apply znth_forallb; [exact lut_zc_ctx19 | reflexivity].
Qed.
Lemma sc_ctx_range : forall f, 0 <= sc_ctx_t f < 19.
Proof.
  intros f. rewrite sc_ctx_t_eq. apply ctx19_range. unfold sc_ctx.
  apply znth_forallb; [exact lut_sc_ctx19 | reflexivity].
Qed.
Lemma mr_ctx_range : forall f, 0 <= mr_ctx f < 19.
Proof.
  intros f. unfold mr_ctx.
  destruct (has f T1Refine); [vm_compute; split; [discriminate | reflexivity] |].
  destruct (has f T1SigNeighbors); vm_compute; split; try discriminate; reflexivity.
Qed.
Lemma ctx_consts : CTXRL = 17 /\ CTXUNI = 18 /\ NUMCONTEXTS = 19.
Proof. vm_compute. auto. Qed.

(* ---------------- index arithmetic ---------------- *)
Lemma idx_in : forall w h x y a b, 0 <= x < w -> 0 <= y < h -> 0 <= a <= 2 -> 0 <= b <= 2 ->
  0 <= (y + a) * (w + 2) + (x + b) < (w + 2) * (h + 2).
Proof. intros. nia. Qed.

(* ---------------- entropy decoder ---------------- *)
Lemma next_bit_ok : forall d, exists b d', next_bit d = (b, d') /\ (b = 0 \/ b = 1) /\
  d_nctx d' = d_nctx d /\ d_work d' = d_work d + 1 /\ d_flags d' = d_flags d.
Proof.
  intros d. unfold next_bit. destruct (d_bits d) as [|b r].
  - exists 0, (tick d). cbn. auto.
  - exists (nbit b). eexists. split; [reflexivity|]. cbn. unfold nbit.
    destruct (b =? 0); auto.
Qed.

Lemma mq_dec_ok : forall ctx d, 0 <= ctx < d_nctx d ->
  exists b d', mq_dec ctx d = Ok (b, d') /\ (b = 0 \/ b = 1) /\
  d_nctx d' = d_nctx d /\ d_work d' = d_work d + 1 /\ d_flags d' = d_flags d.
Proof.
  intros ctx d H. unfold mq_dec. rewrite chk_in by lia.
  destruct (next_bit_ok d) as (b & d' & E & R). exists b, d'. rewrite E. auto.
Qed.

Lemma raw_dec_ok : forall d,
  exists b d', raw_dec d = Ok (b, d') /\ (b = 0 \/ b = 1) /\
  d_nctx d' = d_nctx d /\ d_work d' = d_work d + 1 /\ d_flags d' = d_flags d.
Proof.
  intros d. unfold raw_dec.
  destruct (next_bit_ok d) as (b & d' & E & R). exists b, d'. rewrite E. auto.
Qed.

Lemma mq_sign_ok : forall f d, d_nctx d = 19 ->
  exists b d', mq_sign f d = Ok (b, d') /\
  d_nctx d' = d_nctx d /\ d_work d' = d_work d + 1.
Proof.
  intros f d H. unfold mq_sign.
  destruct (mq_dec_ok (sc_ctx_t f) d) as (b & d' & E & _ & N & W & _).
  - rewrite H. apply sc_ctx_range.
  - rewrite E. cbn [obind]. eexists. eexists. split; [reflexivity|]. auto.
Qed.

Lemma set_ctx3_ok : forall d, d_nctx d = 19 -> set_ctx3 d = Ok d.
Proof.
  intros d H. unfold set_ctx3, set_ctx.
  destruct ctx_consts as (A & B & _). rewrite A, B.
  rewrite !chk_in by lia. cbn [obind]. rewrite !chk_in by lia. cbn [obind].
  rewrite !chk_in by lia. reflexivity.
Qed.

(* ---------------- neighbour update ---------------- *)
Lemma orc_ok : forall n i m t, 0 <= i < n -> orc n i m t = Ok (orf t i m).
Proof. intros. unfold orc. apply chk_in; auto. Qed.

Lemma upd_nb_ok : forall w h x y idx t, 0 <= x < w -> 0 <= y < h ->
  idx = (y + 1) * (w + 2) + (x + 1) ->
  exists t', upd_nb w ((w + 2) * (h + 2)) x y idx t = Ok t'.
Proof.
  intros w h x y idx t Hx Hy Hi. unfold upd_nb.
  rewrite chk_in by (subst idx; apply idx_in; lia).
  destruct (has (fget t idx) T1Sign);
    repeat (rewrite orc_ok by (apply idx_in; lia); cbn [obind]);
    eexists; reflexivity.
Qed.

Lemma become_sig_ok : forall w h x y idx sign d, 0 <= x < w -> 0 <= y < h ->
  idx = (y + 1) * (w + 2) + (x + 1) ->
  exists d', become_sig w ((w + 2) * (h + 2)) x y idx sign d = Ok d' /\
             d_nctx d' = d_nctx d /\ d_work d' = d_work d.
Proof.
  intros w h x y idx sign d Hx Hy Hi. unfold become_sig.
  match goal with |- context [upd_nb w ?n x y idx ?t] =>
    destruct (upd_nb_ok w h x y idx t Hx Hy Hi) as (t' & E); rewrite E end.
  cbn [obind]. eexists. split; [reflexivity|]. cbn. auto.
Qed.

(* result predicate: Ok, nctx preserved, work grows by at most c *)
Definition okd (c : Z) (d : dst) (o : outcome dst) : Prop :=
  exists d', o = Ok d' /\ d_nctx d' = d_nctx d /\ d_work d' <= d_work d + c.

Lemma okd_tick : forall c d d', d_nctx d' = d_nctx d -> d_work d' + 1 <= d_work d + c ->
  okd c d (Ok (tick d')).
Proof. intros. exists (tick d'). cbn. auto. Qed.

(* ---------------- samples ---------------- *)
Lemma spp_sample_ok : forall w h orient raw x y d, 0 <= x < w -> 0 <= y < h ->
  raw = true \/ d_nctx d = 19 ->
  okd 3 d (spp_sample w ((w + 2) * (h + 2)) orient raw x y d).
Proof.
  intros w h orient raw x y d Hx Hy Hr. unfold spp_sample.
  rewrite chk_in by (apply idx_in; lia).
  set (idx := (y + 1) * (w + 2) + (x + 1)).
  set (f := fget (d_flags d) idx).
  destruct (has f T1Sig). { apply okd_tick; lia. }
  destruct (negb (has f T1SigNeighbors)). { apply okd_tick; lia. }
  assert (E1 : exists b d1, (if raw then raw_dec d else mq_dec (zc_ctx_t f orient) d) = Ok (b, d1) /\
              d_nctx d1 = d_nctx d /\ d_work d1 = d_work d + 1).
  { destruct raw.
    - destruct (raw_dec_ok d) as (b & d1 & E & _ & N & W & _). exists b, d1. auto.
    - destruct Hr as [Hr | Hr]; [discriminate Hr|].
      destruct (mq_dec_ok (zc_ctx_t f orient) d) as (b & d1 & E & _ & N & W & _).
      + rewrite Hr. apply zc_ctx_range.
      + exists b, d1. auto. }
  destruct E1 as (b & d1 & E1 & N1 & W1). rewrite E1. cbn [obind].
  destruct (b =? 0). { apply okd_tick; cbn; lia. }
  set (d2 := setf d1 (orf (d_flags d1) idx T1Visit)).
  assert (N2 : d_nctx d2 = d_nctx d) by (cbn; auto).
  assert (W2 : d_work d2 = d_work d + 1) by (cbn; auto).
  assert (E3 : exists s d3, (if raw then raw_dec d2 else mq_sign f d2) = Ok (s, d3) /\
              d_nctx d3 = d_nctx d /\ d_work d3 = d_work d + 2).
  { destruct raw.
    - destruct (raw_dec_ok d2) as (s & d3 & E & _ & N & W & _). exists s, d3.
      split; auto. split; lia.
    - destruct Hr as [Hr | Hr]; [discriminate Hr|].
      destruct (mq_sign_ok f d2) as (s & d3 & E & N & W); [lia|].
      exists s, d3. split; auto. split; lia. }
  destruct E3 as (s & d3 & E3 & N3 & W3). rewrite E3. cbn [obind].
  destruct (become_sig_ok w h x y idx s d3 Hx Hy eq_refl) as (d4 & E4 & N4 & W4).
  rewrite E4. cbn [obind]. apply okd_tick; lia.
Qed.

Lemma mrp_sample_ok : forall w h raw x y d, 0 <= x < w -> 0 <= y < h ->
  raw = true \/ d_nctx d = 19 ->
  okd 3 d (mrp_sample w ((w + 2) * (h + 2)) raw x y d).
Proof.
  intros w h raw x y d Hx Hy Hr. unfold mrp_sample.
  rewrite chk_in by (apply idx_in; lia).
  set (idx := (y + 1) * (w + 2) + (x + 1)).
  set (f := fget (d_flags d) idx).
  destruct (negb (has f T1Sig) || has f T1Visit). { apply okd_tick; lia. }
  assert (E1 : exists b d1, (if raw then raw_dec d else mq_dec (mr_ctx f) d) = Ok (b, d1) /\
              d_nctx d1 = d_nctx d /\ d_work d1 = d_work d + 1).
  { destruct raw.
    - destruct (raw_dec_ok d) as (b & d1 & E & _ & N & W & _). exists b, d1. auto.
    - destruct Hr as [Hr | Hr]; [discriminate Hr|].
      destruct (mq_dec_ok (mr_ctx f) d) as (b & d1 & E & _ & N & W & _).
      + rewrite Hr. apply mr_ctx_range.
      + exists b, d1. auto. }
  destruct E1 as (b & d1 & E1 & N1 & W1). rewrite E1. cbn [obind].
  apply okd_tick; cbn; lia.
Qed.

Lemma cln_sig_ok : forall w h x y idx f d, 0 <= x < w -> 0 <= y < h ->
  idx = (y + 1) * (w + 2) + (x + 1) -> d_nctx d = 19 ->
  exists d', cln_sig w ((w + 2) * (h + 2)) x y idx f d = Ok d' /\
             d_nctx d' = 19 /\ d_work d' = d_work d + 1.
Proof.
  intros w h x y idx f d Hx Hy Hi Hn. unfold cln_sig.
  destruct (mq_sign_ok f d Hn) as (s & d1 & E & N & W). rewrite E. cbn [obind].
  destruct (become_sig_ok w h x y idx s d1 Hx Hy Hi) as (d2 & E2 & N2 & W2).
  exists d2. split; auto. split; lia.
Qed.

Lemma cln_row_ok : forall w h orient x k dy d, 0 <= x < w -> 0 <= k + dy < h ->
  d_nctx d = 19 ->
  okd 3 d (cln_row w ((w + 2) * (h + 2)) orient x k dy d).
Proof.
  intros w h orient x k dy d Hx Hy Hn. unfold cln_row.
  rewrite chk_in by (apply idx_in; lia).
  set (y := k + dy) in *.
  set (idx := (y + 1) * (w + 2) + (x + 1)).
  set (f := fget (d_flags d) idx).
  destruct (has f T1Visit || has f T1Sig). { apply okd_tick; cbn; lia. }
  destruct (mq_dec_ok (zc_ctx_t f orient) d) as (b & d1 & E & _ & N & W & _).
  { rewrite Hn. apply zc_ctx_range. }
  rewrite E. cbn [obind].
  destruct (b =? 0).
  - cbn [obind]. apply okd_tick; cbn; lia.
  - destruct (cln_sig_ok w h x y idx f d1 Hx Hy eq_refl) as (d2 & E2 & N2 & W2); [lia|].
    rewrite E2. cbn [obind]. apply okd_tick; cbn; lia.
Qed.

(* run-length rows: state (partial, d) *)
Lemma cln_rl_row_ok : forall w h orient x k dy p d, 0 <= x < w -> 0 <= k + dy < h ->
  d_nctx d = 19 ->
  exists p' d', cln_rl_row w ((w + 2) * (h + 2)) orient x k dy (p, d) = Ok (p', d') /\
                d_nctx d' = 19 /\ d_work d' <= d_work d + 3.
Proof.
  intros w h orient x k dy p d Hx Hy Hn. unfold cln_rl_row.
  rewrite chk_in by (apply idx_in; lia).
  set (y := k + dy) in *.
  set (idx := (y + 1) * (w + 2) + (x + 1)).
  set (f := fget (d_flags d) idx).
  destruct (has f T1Visit || has f T1Sig).
  { eexists. eexists. split; [reflexivity|]. cbn. split; lia. }
  assert (E1 : exists b d1, (if p then Ok (1, d) else mq_dec (zc_ctx_t f orient) d) = Ok (b, d1) /\
              d_nctx d1 = 19 /\ d_work d1 <= d_work d + 1).
  { destruct p.
    - exists 1, d. split; auto. split; lia.
    - destruct (mq_dec_ok (zc_ctx_t f orient) d) as (b & d1 & E & _ & N & W & _).
      + rewrite Hn. apply zc_ctx_range.
      + exists b, d1. split; auto. split; lia. }
  destruct E1 as (b & d1 & E1 & N1 & W1). rewrite E1. cbn [obind].
  destruct (b =? 0).
  - cbn [obind]. eexists. eexists. split; [reflexivity|]. cbn. split; lia.
  - destruct (cln_sig_ok w h x y idx f d1 Hx Hy eq_refl N1) as (d2 & E2 & N2 & W2).
    rewrite E2. cbn [obind]. eexists. eexists. split; [reflexivity|]. cbn. split; lia.
Qed.

Lemma rl_scan_ok : forall cnt w h x y d, 0 <= x < w -> 0 <= y -> y + Z.of_nat cnt <= h ->
  exists b, rl_scan cnt w ((w + 2) * (h + 2)) x y d = Ok b.
Proof.
  induction cnt as [|c IH]; intros w h x y d Hx Hy Hh.
  - exists true. reflexivity.
  - cbn [rl_scan]. rewrite chk_in by (apply idx_in; lia).
    destruct (has _ T1Visit). { eexists; reflexivity. }
    destruct (has _ T1Sig || has _ T1SigNeighbors). { eexists; reflexivity. }
    apply IH; lia.
Qed.
