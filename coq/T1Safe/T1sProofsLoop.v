(* T1Safe proofs, part 3: the pass loops of DecodeWithOptions and DecodeLayeredWithMode
   (codeword-segment bookkeeping) never panic and never run out of fuel. *)
From V Require Import Common.Base T1.T1Store T1.T1Ctx T1Safe.T1sModel T1Safe.T1sProofsBase
  T1Safe.T1sProofsPass.

Ltac prj := cbn [l_prevEnd l_segEnd l_segLast l_needSeg l_mqStarted l_prevctx l_alloc l_d
                 d_nctx d_work d_flags d_bits setn setf addw tick fst snd].

(* work of one iteration of a pass loop: VISIT sweep + pass + segmentation symbols *)
Definition itercost (w h : Z) : Z := passcost w h + 4 + (w + 2) * (h + 2).

Lemma itercost_nonneg : forall w h, 0 <= w -> 0 <= h -> 0 <= itercost w h.
Proof. intros. unfold itercost. pose proof (passcost_nonneg w h). nia. Qed.

Lemma bp_start_ok : forall w h roishift bp idx pt d, 0 <= w -> 0 <= h ->
  exists bp1 pt1 d1,
    bp_start w h ((w + 2) * (h + 2)) roishift bp idx pt d = Ok (bp1, pt1, d1) /\
    d_nctx d1 = d_nctx d /\
    (pt = 1 -> bp1 = bp /\ pt1 = 1) /\
    (pt = 0 \/ pt = 1 \/ pt = 2 -> pt1 = 0 \/ pt1 = 1 \/ pt1 = 2) /\
    (roishift <= 0 -> bp1 = bp /\ pt1 = pt /\ d_work d1 <= d_work d + (w + 2) * (h + 2)).
Proof.
  intros w h roishift bp idx pt d Hw Hh. unfold bp_start.
  destruct ((pt =? 0) || ((pt =? 2) && (idx =? 0))) eqn:St.
  - unfold clear_visit. rewrite Z.ltb_irrefl. cbn [obind].
    destruct ((0 <? roishift) && (roishift <=? bp)) eqn:Sk.
    + eexists. eexists. eexists. split; [reflexivity|]. prj.
      split; [reflexivity|]. split.
      { intros ->. cbn in St. discriminate. }
      split; [auto|].
      intros Hr. apply andb_prop in Sk. destruct Sk as [Sk _]. apply Z.ltb_lt in Sk. lia.
    + eexists. eexists. eexists. split; [reflexivity|]. prj.
      split; [reflexivity|]. split.
      { intros ->. cbn in St. discriminate. }
      split; [auto|].
      intros _. repeat split; auto. assert (0 <= (w + 2) * (h + 2)) by nia. lia.
  - eexists. eexists. eexists. split; [reflexivity|].
    split; [reflexivity|]. split; [auto|]. split; [auto|].
    intros _. repeat split; auto. assert (0 <= (w + 2) * (h + 2)) by nia. lia.
Qed.

Lemma if_set_ctx3 : forall (b : bool) d, d_nctx d = 19 -> (if b then set_ctx3 d else Ok d) = Ok d.
Proof. intros b d H. destruct b; auto using set_ctx3_ok. Qed.

(* ---------------- DecodeWithOptions ---------------- *)
Lemma opt_loop_ok : forall w h orient style numPasses maxbp roishift useT, 0 <= w -> 0 <= h ->
  forall fuel bp idx pt d, d_nctx d = 19 -> numPasses - idx <= Z.of_nat fuel ->
  exists d', opt_loop fuel w h ((w + 2) * (h + 2)) orient style numPasses maxbp roishift useT
                      bp idx pt d = Ok d' /\ d_nctx d' = 19 /\
    (roishift <= 0 -> d_work d' <= d_work d + Z.max 0 (numPasses - idx) * itercost w h).
Proof.
  intros w h orient style numPasses maxbp roishift useT Hw Hh.
  pose proof (itercost_nonneg w h Hw Hh) as HC.
  induction fuel as [|fu IH]; intros bp idx pt d Hn Hf.
  - cbn [opt_loop]. destruct ((0 <=? bp) && (idx <? numPasses)) eqn:C.
    + apply andb_prop in C. destruct C as [_ C]. apply Z.ltb_lt in C. lia.
    + exists d. repeat split; auto. intros _. nia.
  - cbn [opt_loop]. destruct ((0 <=? bp) && (idx <? numPasses)) eqn:C.
    2:{ exists d. repeat split; auto. intros _. nia. }
    apply andb_prop in C. destruct C as [_ C]. apply Z.ltb_lt in C.
    destruct (bp_start_ok w h roishift bp idx pt d Hw Hh) as (bp1 & pt1 & d1 & E & N1 & _ & _ & R).
    rewrite E. cbn [obind].
    destruct (run_pass_ok w h orient style (is_lazy_raw bp1 maxbp pt1 style) pt1 d1)
      as (d2 & E2 & N2 & W2); [left; congruence|].
    rewrite E2. cbn [obind].
    assert (Hn2 : d_nctx d2 = 19) by congruence.
    rewrite (if_set_ctx3 _ d2 Hn2). cbn [obind].
    rewrite (if_set_ctx3 _ d2 Hn2). cbn [obind].
    assert (Hf' : numPasses - (idx + 1) <= Z.of_nat fu) by lia.
    assert (Hfin : forall d', (roishift <= 0 ->
                d_work d' <= d_work d2 + Z.max 0 (numPasses - (idx + 1)) * itercost w h) ->
              roishift <= 0 -> d_work d' <= d_work d + Z.max 0 (numPasses - idx) * itercost w h).
    { intros d' Hd' Hr. specialize (Hd' Hr). destruct (R Hr) as (_ & _ & W1).
      unfold itercost in *.
      rewrite Z.max_r in Hd' by lia. rewrite Z.max_r by lia. nia. }
    destruct (pt1 =? 2).
    + destruct (IH (bp1 - 1) (idx + 1) 0 d2 Hn2 Hf') as (d' & E' & N' & W').
      exists d'. repeat split; auto.
    + destruct (IH bp1 (idx + 1) (pt1 + 1) d2 Hn2 Hf') as (d' & E' & N' & W').
      exists d'. repeat split; auto.
Qed.

(* ---------------- segment scan ---------------- *)
Lemma is_lazy_raw_inv : forall bp maxbp pt style, is_lazy_raw bp maxbp pt style = true ->
  has style 1 = true /\ pt < 2 /\ bp < maxbp - 3.
Proof.
  intros bp maxbp pt style H. unfold is_lazy_raw in H.
  destruct (has style 1); cbn [negb] in H; [|discriminate].
  destruct (2 <=? pt) eqn:P; [discriminate|].
  apply Z.leb_gt in P. apply Z.ltb_lt in H. auto.
Qed.

Lemma is_lazy_raw_intro : forall bp maxbp pt style,
  has style 1 = true -> pt < 2 -> bp < maxbp - 3 -> is_lazy_raw bp maxbp pt style = true.
Proof.
  intros bp maxbp pt style H1 H2 H3. unfold is_lazy_raw. rewrite H1. cbn [negb].
  replace (2 <=? pt) with false by (symmetry; apply Z.leb_gt; lia). apply Z.ltb_lt. lia.
Qed.

Lemma is_term_raw1 : forall bp maxbp style,
  is_lazy_raw bp maxbp 1 style = true -> is_term bp maxbp 1 style = true.
Proof.
  intros bp maxbp style H. apply is_lazy_raw_inv in H. destruct H as (H1 & _ & H3).
  unfold is_term. rewrite H1.
  replace (1 =? 2) with false by reflexivity. cbn [andb].
  destruct (has style 4); auto.
  rewrite andb_false_r.
  replace (bp <? maxbp - 3) with true by (symmetry; apply Z.ltb_lt; lia). reflexivity.
Qed.

Lemma seg_scan_raw1 : forall fuel numPasses maxbp roishift style useT sl bp,
  is_lazy_raw bp maxbp 1 style = true ->
  seg_scan fuel numPasses maxbp roishift style useT sl bp 1 = Ok sl.
Proof.
  intros fuel numPasses maxbp roishift style useT sl bp H.
  destruct fuel; cbn [seg_scan]; rewrite (is_term_raw1 _ _ _ H); cbn [negb];
    rewrite andb_false_r; reflexivity.
Qed.

Lemma seg_scan_raw0 : forall fuel numPasses maxbp roishift style useT sl bp,
  is_lazy_raw bp maxbp 0 style = true ->
  exists r, seg_scan (S fuel) numPasses maxbp roishift style useT sl bp 0 = Ok r /\
            (r = sl \/ r = sl + 1).
Proof.
  intros fuel numPasses maxbp roishift style useT sl bp H. cbn [seg_scan].
  destruct ((sl <? numPasses - 1) && negb useT && negb (is_term bp maxbp 0 style)).
  - replace (0 =? 2) with false by reflexivity. cbn iota.
    replace (0 + 1) with 1 by reflexivity.
    rewrite seg_scan_raw1.
    + exists (sl + 1). auto.
    + apply is_lazy_raw_inv in H. destruct H as (H1 & _ & H3). apply is_lazy_raw_intro; auto; lia.
  - exists sl. auto.
Qed.

Lemma seg_scan_ok : forall numPasses maxbp roishift style useT fuel sl bp pt,
  numPasses - 1 - sl < Z.of_nat fuel ->
  exists r, seg_scan fuel numPasses maxbp roishift style useT sl bp pt = Ok r /\
            sl <= r /\ (r <= numPasses - 1 \/ r = sl).
Proof.
  intros numPasses maxbp roishift style useT.
  induction fuel as [|fu IH]; intros sl bp pt Hf.
  - cbn [seg_scan].
    destruct ((sl <? numPasses - 1) && negb useT && negb (is_term bp maxbp pt style)) eqn:C.
    + apply andb_prop in C. destruct C as [C _]. apply andb_prop in C. destruct C as [C _].
      apply Z.ltb_lt in C. lia.
    + exists sl. split; auto. lia.
  - cbn [seg_scan].
    destruct ((sl <? numPasses - 1) && negb useT && negb (is_term bp maxbp pt style)) eqn:C.
    + apply andb_prop in C. destruct C as [C _]. apply andb_prop in C. destruct C as [C _].
      apply Z.ltb_lt in C.
      destruct (pt =? 2).
      * destruct (IH (sl + 1) (roi_skip roishift (bp - 1)) 0) as (r & E & L & U); [lia|].
        exists r. split; auto. lia.
      * destruct (IH (sl + 1) bp (pt + 1)) as (r & E & L & U); [lia|].
        exists r. split; auto. lia.
    + exists sl. split; auto. lia.
Qed.

(* ---------------- DecodeLayeredWithMode ---------------- *)
(* state of the decoder object w.r.t. the pass about to run: it has its 19 contexts, or it is
   a raw decoder and the pass is a raw SPP/MRP inside the segment *)
Definition seg_state (idx pt : Z) (raw : bool) (s : lst) : Prop :=
  d_nctx (l_d s) = 19 \/
  (d_nctx (l_d s) = 0 /\ raw = true /\
   ((pt = 1 /\ l_segLast s = idx) \/ (pt = 0 /\ (l_segLast s = idx \/ l_segLast s = idx + 1)))).

Definition linv (style maxbp : Z) (reset : bool) (bp idx pt : Z) (s : lst) : Prop :=
  0 <= l_prevEnd s /\ 0 <= idx /\ (pt = 0 \/ pt = 1 \/ pt = 2) /\
  (l_needSeg s = false -> 0 <= l_segEnd s) /\
  (l_mqStarted s = true -> reset = false -> l_prevctx s = 19) /\
  (l_needSeg s = false ->
     d_nctx (l_d s) = 19 \/
     (d_nctx (l_d s) = 0 /\ pt = 1 /\ is_lazy_raw bp maxbp 1 style = true /\ l_segLast s = idx)).

Lemma open_segment_ok : forall numPasses maxbp roishift style useT reset data lens idx bp pt s,
  numPasses = zlen lens -> 0 <= idx < numPasses ->
  linv style maxbp reset bp idx pt s ->
  let raw := is_lazy_raw bp maxbp pt style in
  open_segment numPasses maxbp roishift style useT reset raw data lens idx bp pt s = Err \/
  exists s2,
    open_segment numPasses maxbp roishift style useT reset raw data lens idx bp pt s = Ok s2 /\
    l_needSeg s2 = false /\ l_prevEnd s2 = l_prevEnd s /\ 0 <= l_segEnd s2 /\
    (l_mqStarted s2 = true -> reset = false -> l_prevctx s2 = 19 \/ raw = false) /\
    d_work (l_d s2) = d_work (l_d s) /\
    seg_state idx pt raw s2.
Proof.
  intros numPasses maxbp roishift style useT reset data lens idx bp pt s HN Hidx
         (I1 & I2 & I3 & I4 & I5 & I6) raw.
  unfold open_segment. destruct (l_needSeg s) eqn:NS.
  - destruct (seg_scan_ok numPasses maxbp roishift style useT (pass_fuel numPasses) idx bp pt)
      as (r & Er & Lr & Ur).
    { unfold pass_fuel. lia. }
    rewrite Er. cbn [obind].
    rewrite chk_in by lia.
    set (se := znth lens r 0).
    destruct ((se <? l_prevEnd s) || (zlen data <? se)) eqn:C1; [left; reflexivity|].
    apply orb_false_elim in C1. destruct C1 as [C1 C2].
    replace (l_prevEnd s <? 0) with false by (symmetry; apply Z.ltb_ge; lia).
    rewrite C1, C2. cbn [orb].
    apply Z.ltb_ge in C1.
    destruct raw eqn:RAW.
    + right. eexists. split; [reflexivity|]. prj.
      repeat split; auto; try lia.
      right. split; [reflexivity|]. split; [reflexivity|].
      subst raw. pose proof (is_lazy_raw_inv _ _ _ _ RAW) as (H1 & H2 & H3).
      destruct I3 as [-> | [-> | ->]]; [| |lia].
      * right. split; auto.
        destruct (seg_scan_raw0 (Z.to_nat numPasses) numPasses maxbp roishift style useT idx bp RAW)
          as (r' & Er' & Hr').
        unfold pass_fuel in Er. rewrite Er in Er'. inversion Er'. subst r'. auto.
      * left. split; auto.
        rewrite seg_scan_raw1 in Er by auto. inversion Er. auto.
    + destruct (negb (l_mqStarted s) || reset) eqn:MS.
      * rewrite set_ctx3_ok by (prj; apply ctx_consts).
        cbn [obind]. right. eexists. split; [reflexivity|]. prj.
        repeat split; auto; try lia.
        left. apply ctx_consts.
      * right. eexists. split; [reflexivity|]. prj.
        apply orb_false_elim in MS. destruct MS as [MS1 MS2].
        apply negb_false_iff in MS1.
        repeat split; auto; try lia.
        left. auto.
  - right. exists s. split; [reflexivity|].
    repeat split; auto.
    destruct (I6 eq_refl) as [H | (H0 & Hp & Hr & Hl)].
    + left. auto.
    + right. subst pt. split; [auto|]. split; [exact Hr|]. left. auto.
Qed.

(* allocation invariant: the segment buffers are disjoint slices of data, at most 40 further
   bytes per pass (2 sentinel + 19 contexts for a new decoder, 19 for GetContexts) *)
Definition minv (data : list Z) (idx : Z) (s : lst) : Prop :=
  (if l_needSeg s then l_prevEnd s else l_segEnd s) <= zlen data /\
  l_alloc s <= (if l_needSeg s then l_prevEnd s else l_segEnd s) + 40 * idx.

Lemma open_segment_mem : forall numPasses maxbp roishift style useT reset raw data lens idx bp pt s s2,
  open_segment numPasses maxbp roishift style useT reset raw data lens idx bp pt s = Ok s2 ->
  (l_mqStarted s = true -> reset = false -> l_prevctx s = 19) ->
  minv data idx s -> l_needSeg s2 = false ->
  l_segEnd s2 <= zlen data /\ l_alloc s2 <= l_segEnd s2 + 40 * idx + 21.
Proof.
  intros numPasses maxbp roishift style useT reset raw data lens idx bp pt s s2 H I5 (M1 & M2) NS2.
  unfold open_segment in H. destruct (l_needSeg s) eqn:NS.
  - destruct (seg_scan _ _ _ _ _ _ _ _ _) as [r| | |]; cbn [obind] in H; try discriminate H.
    unfold chk in H. destruct ((0 <=? r) && (r <? zlen lens)); try discriminate H.
    set (se := znth lens r 0) in *.
    destruct ((se <? l_prevEnd s) || (zlen data <? se)) eqn:C1; try discriminate H.
    apply orb_false_elim in C1. destruct C1 as [C1 C2].
    apply Z.ltb_ge in C1. apply Z.ltb_ge in C2.
    destruct ((l_prevEnd s <? 0) || (se <? l_prevEnd s) || (zlen data <? se)); try discriminate H.
    destruct ctx_consts as (_ & _ & C19).
    destruct raw.
    + inversion H. subst s2. prj. lia.
    + destruct (negb (l_mqStarted s) || reset) eqn:MS.
      * destruct (set_ctx3 _) as [d1| | |]; cbn [obind] in H; try discriminate H.
        inversion H. subst s2. prj. lia.
      * apply orb_false_elim in MS. destruct MS as [MS1 MS2]. apply negb_false_iff in MS1.
        specialize (I5 MS1 MS2).
        inversion H. subst s2. prj. lia.
  - inversion H. subst s2. cbn iota in M1, M2. lia.
Qed.

Lemma lay_loop_ok : forall w h orient style numPasses maxbp roishift useT reset data lens,
  0 <= w -> 0 <= h -> numPasses = zlen lens ->
  forall fuel bp idx pt s, linv style maxbp reset bp idx pt s ->
  minv data idx s -> idx <= numPasses ->
  numPasses - idx <= Z.of_nat fuel ->
  lay_loop fuel w h ((w + 2) * (h + 2)) orient style numPasses maxbp roishift useT reset
           data lens bp idx pt s = Err \/
  exists r, lay_loop fuel w h ((w + 2) * (h + 2)) orient style numPasses maxbp roishift useT reset
                      data lens bp idx pt s = Ok r /\
    (roishift <= 0 ->
       d_work (fst r) <= d_work (l_d s) + Z.max 0 (numPasses - idx) * itercost w h) /\
    snd r <= zlen data + 40 * numPasses.
Proof.
  intros w h orient style numPasses maxbp roishift useT reset data lens Hw Hh HN.
  pose proof (itercost_nonneg w h Hw Hh) as HC.
  assert (Hexit : forall idx s, minv data idx s -> idx <= numPasses ->
            l_alloc s <= zlen data + 40 * numPasses).
  { intros idx s (M1 & M2) Hi. destruct (l_needSeg s); lia. }
  induction fuel as [|fu IH]; intros bp idx pt s Hinv Hm Hle Hf.
  - cbn [lay_loop]. destruct ((0 <=? bp) && (idx <? numPasses)) eqn:C.
    + apply andb_prop in C. destruct C as [_ C]. apply Z.ltb_lt in C. lia.
    + right. exists (l_d s, l_alloc s). split; [reflexivity|]. cbn [fst snd].
      split; [intros _; nia | eapply Hexit; eauto].
  - cbn [lay_loop]. destruct ((0 <=? bp) && (idx <? numPasses)) eqn:C.
    2:{ right. exists (l_d s, l_alloc s). split; [reflexivity|]. cbn [fst snd].
        split; [intros _; nia | eapply Hexit; eauto]. }
    apply andb_prop in C. destruct C as [_ C]. apply Z.ltb_lt in C.
    destruct Hinv as (I1 & I2 & I3 & I4 & I5 & I6).
    destruct (bp_start_ok w h roishift bp idx pt (l_d s) Hw Hh)
      as (bp1 & pt1 & d1 & E & N1 & P1 & P3 & R).
    rewrite E. cbn [obind].
    set (raw := is_lazy_raw bp1 maxbp pt1 style).
    set (s1 := mkL (l_prevEnd s) (l_segEnd s) (l_segLast s) (l_needSeg s) (l_mqStarted s)
                   (l_prevctx s) (l_alloc s) d1).
    assert (Hinv1 : linv style maxbp reset bp1 idx pt1 s1).
    { unfold linv, s1. prj. repeat split; auto.
      intros NS. destruct (I6 NS) as [H | (H0 & Hp & Hr & Hl)].
      - left. congruence.
      - right. destruct (P1 Hp) as (-> & ->). repeat split; auto. congruence. }
    destruct (open_segment_ok numPasses maxbp roishift style useT reset data lens idx bp1 pt1 s1
                HN (conj I2 C) Hinv1) as [Eo | (s2 & Eo & O1 & O2 & O3 & O4 & O5 & O6)];
      fold raw in Eo; rewrite Eo; cbn [obind]; [left; reflexivity|].
    fold raw in O4, O6.
    assert (Hm1 : minv data idx s1) by exact Hm.
    destruct (open_segment_mem _ _ _ _ _ _ _ _ _ _ _ _ _ _ Eo I5 Hm1 O1) as (Q1 & Q2).
    assert (Hpass : d_nctx (l_d s2) = 19 \/ (raw = true /\ pt1 <> 2)).
    { destruct O6 as [H | (_ & Hr & [[Hp _] | [Hp _]])]; [left; auto | right; split; auto; lia ..]. }
    destruct (run_pass_ok w h orient style raw pt1 (l_d s2) Hpass) as (d2 & E2 & N2 & W2).
    rewrite E2. cbn [obind].
    (* lines 201-212 *)
    assert (E3 : exists pc,
      (if negb raw
       then if reset then obind (set_ctx3 d2) (fun d3 => Ok (d3, l_prevctx s2))
            else Ok (d2, d_nctx d2)
       else Ok (d2, l_prevctx s2)) = Ok (d2, pc) /\
      (l_mqStarted s2 = true -> reset = false -> pc = 19)).
    { destruct raw eqn:RAW; cbn [negb].
      - exists (l_prevctx s2). split; auto. intros A B. destruct (O4 A B); [auto | discriminate].
      - assert (H19 : d_nctx d2 = 19).
        { rewrite N2. destruct O6 as [H | (_ & Hr & _)]; [auto | discriminate]. }
        destruct reset.
        + rewrite set_ctx3_ok by auto. cbn [obind]. exists (l_prevctx s2). split; auto.
          intros _ B. discriminate.
        + exists (d_nctx d2). split; auto. }
    destruct E3 as (pc & E3 & Hpc). rewrite E3. cbn [obind].
    set (last := idx =? l_segLast s2).
    set (ga := if negb raw && negb reset then d_nctx d2 else 0).
    assert (Hga : ga <= 19).
    { unfold ga. destruct (negb raw && negb reset); [|lia]. rewrite N2.
      destruct O6 as [H | (H0 & _)]; lia. }
    set (s3 := mkL (if last then l_segEnd s2 else l_prevEnd s2) (l_segEnd s2) (l_segLast s2)
                   last (l_mqStarted s2) pc (l_alloc s2 + ga) d2).
    assert (Hm3 : minv data (idx + 1) s3).
    { unfold minv, s3. prj. destruct last; lia. }
    assert (Hle3 : idx + 1 <= numPasses) by lia.
    assert (Hf' : numPasses - (idx + 1) <= Z.of_nat fu) by lia.
    assert (Hw3 : roishift <= 0 -> d_work d2 + Z.max 0 (numPasses - (idx + 1)) * itercost w h
                    <= d_work (l_d s) + Z.max 0 (numPasses - idx) * itercost w h).
    { intros Hr. destruct (R Hr) as (_ & _ & W1).
      replace (d_work (l_d s2)) with (d_work d1) in W2 by (rewrite O5; reflexivity).
      unfold itercost in *. rewrite Z.max_r by lia. rewrite (Z.max_r 0 (numPasses - idx)) by lia.
      nia. }
    assert (Hinv3 : forall bp', linv style maxbp reset bp' (idx + 1)
                      (if pt1 =? 2 then 0 else pt1 + 1) s3 \/ True) by (intros; right; exact I).
    clear Hinv3.
    assert (Hnext : forall bp' pt', (pt' = 0 \/ pt' = 1 \/ pt' = 2) ->
              (pt1 = 0 -> pt' = 1 /\ bp' = bp1) ->
              linv style maxbp reset bp' (idx + 1) pt' s3).
    { intros bp' pt' Hpt' Hstep. unfold linv, s3. prj.
      assert (O2' : l_prevEnd s2 = l_prevEnd s) by (rewrite O2; reflexivity).
      split. { unfold last. destruct (idx =? l_segLast s2); lia. }
      split; [lia|]. split; [auto|]. split; [auto|]. split; [auto|].
      intros Hl. unfold last in Hl. apply Z.eqb_neq in Hl.
      destruct O6 as [H | (H0 & Hr & [[Hp Hs] | [Hp [Hs | Hs]]])].
      - left. congruence.
      - congruence.
      - congruence.
      - right. destruct (Hstep Hp) as (-> & ->). split; [congruence|]. split; auto. split; auto.
        unfold raw in Hr. rewrite Hp in Hr.
        apply is_lazy_raw_inv in Hr. destruct Hr as (H1 & _ & H3).
        apply is_lazy_raw_intro; auto. lia. }
    destruct (pt1 =? 2) eqn:P2.
    + apply Z.eqb_eq in P2.
      destruct (IH (bp1 - 1) (idx + 1) 0 s3) as [Ee | (d' & E' & W' & A')]; auto.
      { apply Hnext; auto. intros; lia. }
      right. exists d'. split; auto. split; auto. intros Hr. specialize (W' Hr). unfold s3 in W'.
      cbn [l_d] in W'. specialize (Hw3 Hr). lia.
    + apply Z.eqb_neq in P2.
      destruct (IH bp1 (idx + 1) (pt1 + 1) s3) as [Ee | (d' & E' & W' & A')]; auto.
      { apply Hnext; [specialize (P3 I3); lia | intros; lia]. }
      right. exists d'. split; auto. split; auto. intros Hr. specialize (W' Hr). unfold s3 in W'.
      cbn [l_d] in W'. specialize (Hw3 Hr). lia.
Qed.
