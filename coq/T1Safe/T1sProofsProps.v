(* T1Safe proofs, part 5: the statements quoted by Props/C08_t1.v and Props/C09_t1.v. *)
From V Require Import Common.Base T1.T1Store T1.T1Ctx T1Safe.T1sModel T1Safe.T1sProofsBase
  T1Safe.T1sProofsPass T1Safe.T1sProofsLoop T1Safe.T1sProofsTop.

Lemma t1s_layered_no_panic :
  forall w h orient style data lens maxbp roishift useT lossless bits,
  1 <= w <= 1024 -> 1 <= h <= 1024 ->
  exists r, t1s_layered w h orient style data lens maxbp roishift useT lossless bits = Ok r \/
            t1s_layered w h orient style data lens maxbp roishift useT lossless bits = Err.
Proof.
  intros w h orient style data lens maxbp roishift useT lossless bits Hw Hh.
  destruct (t1s_layered_total w h orient style data lens maxbp roishift useT lossless bits Hw Hh)
    as [E | (d & E & _)].
  - exists (mkD Leaf 0 [] 0). right. exact E.
  - exists d. left. exact E.
Qed.

Lemma t1s_bitplane_no_panic :
  forall w h orient style data numPasses maxbp roishift bits,
  1 <= w <= 1024 -> 1 <= h <= 1024 ->
  exists r, t1s_bitplane w h orient style data numPasses maxbp roishift bits = Ok r \/
            t1s_bitplane w h orient style data numPasses maxbp roishift bits = Err.
Proof.
  intros w h orient style data numPasses maxbp roishift bits Hw Hh.
  destruct (t1s_bitplane_total w h orient style data numPasses maxbp roishift bits Hw Hh)
    as [E | (d & E & _)].
  - exists (mkD Leaf 0 [] 0). right. exact E.
  - exists d. left. exact E.
Qed.

Lemma t1s_layered_work :
  forall w h orient style data lens maxbp roishift useT lossless bits d,
  1 <= w <= 1024 -> 1 <= h <= 1024 -> roishift <= 0 ->
  t1s_layered w h orient style data lens maxbp roishift useT lossless bits = Ok d ->
  d_work d <= zlen lens * t1s_K w h + w * h.
Proof.
  intros w h orient style data lens maxbp roishift useT lossless bits d Hw Hh Hr E.
  destruct (t1s_layered_total w h orient style data lens maxbp roishift useT lossless bits Hw Hh)
    as [E' | (d' & E' & W)]; rewrite E' in E; [discriminate|].
  inversion E. subst d'. auto.
Qed.

Lemma t1s_bitplane_work :
  forall w h orient style data numPasses maxbp roishift bits d,
  1 <= w <= 1024 -> 1 <= h <= 1024 -> roishift <= 0 ->
  t1s_bitplane w h orient style data numPasses maxbp roishift bits = Ok d ->
  d_work d <= Z.max 0 numPasses * t1s_K w h + w * h.
Proof.
  intros w h orient style data numPasses maxbp roishift bits d Hw Hh Hr E.
  destruct (t1s_bitplane_total w h orient style data numPasses maxbp roishift bits Hw Hh)
    as [E' | (d' & E' & W)]; rewrite E' in E; [discriminate|].
  inversion E. subst d'. auto.
Qed.

(* the fuel handed to the pass loops is one unit per coding pass plus one *)
Lemma t1s_fuel_linear : forall numPasses, 0 <= numPasses ->
  Z.of_nat (pass_fuel numPasses) = numPasses + 1.
Proof. intros. unfold pass_fuel. lia. Qed.

(* per-pass constant: at most 28 units per sample *)
Lemma t1s_K_bound : forall w h, 1 <= w -> 1 <= h -> t1s_K w h <= 28 * w * h.
Proof. exact t1s_K_le. Qed.

(* The hypothesis roishift <= 0 of the work bounds cannot be dropped: with roishift > 0 the Go
   pass loop (decoder.go 254-270 / 132-147) executes one iteration with a full VISIT sweep for
   every bit-plane from maxBitplane down to roishift, so the work grows with the VALUE of
   maxBitplane.  Replayed on the Go code (1x1 block, data [0], 1 pass, roishift 1):
   DecodeWithBitplane takes 0.09 s for maxBitplane = 2^24, 1.4 s for 2^28 (linear).  Not
   reachable from jpeg2000.Decode: t2/tile_decoder.go passes the literal 0 (711, 713, 716). *)
Lemma t1s_work_roishift_refuted :
  exists w h style data numPasses maxbp roishift bits d,
    1 <= w <= 1024 /\ 1 <= h <= 1024 /\ 0 < roishift /\
    t1s_bitplane w h 0 style data numPasses maxbp roishift bits = Ok d /\
    Z.max 0 numPasses * t1s_K w h + w * h < d_work d.
Proof.
  exists 1, 1, 0, [0], 1, (2 ^ 30), 1, []. eexists.
  split; [lia|]. split; [lia|]. split; [lia|].
  split; [vm_compute; reflexivity|]. vm_compute. reflexivity.
Qed.
