(* Byte-level round trip of the tier-1 model for the code-block styles that produce a single MQ
   codeword: any combination of RESET (0x02), VSC (0x08, ignored by the code) and SEGSYM (0x20),
   in particular the default style 0.  Composition of
     t1_lockstep / t1_ideal_roundtrip   (the decoder's requests = the encoder's decisions),
     mq_passes_future                    (the MQ decoder returns those decisions from the bytes),
     dec_passes_fsim                     (same decoder model over both channels). *)
From V Require Import Common.Base MQ.MqModel MQ.MqProofs MQ.MqProofsDec MQ.MqProofsRt MQ.MqProofsRt2.
From V Require Import T1.T1Store T1.T1Ctx T1.T1CtxProofs T1.T1Model T1.T1Bytes T1.T1ProofsBase
  T1.T1ProofsSeq T1.T1ProofsFinal T1.T1ProofsSim T1.T1ProofsMqRt.

(* =====================================================================================
   The symbols the encoder model emits are well formed
   ===================================================================================== *)
Definition bit01 (b : Z) : Prop := b = 0 \/ b = 1.
Definition sym_mq (s : sym) : Prop := fst (fst s) = 0 /\ 0 <= snd (fst s) < 19 /\ bit01 (snd s).
Definition sym_raw (s : sym) : Prop := fst (fst s) = 1 /\ snd (fst s) = 0 /\ bit01 (snd s).
Definition sym_okr (raw : bool) (s : sym) : Prop := if raw then sym_raw s else sym_mq s.

Lemma lut_ranges :
  forallb (fun i => (0 <=? fget lut_zc_tree i) && (fget lut_zc_tree i <? 19)) (zrange 2048) = true /\
  forallb (fun i => (0 <=? fget lut_sc_tree i) && (fget lut_sc_tree i <? 19)) (zrange 256) = true /\
  forallb (fun i => (fget lut_spb_tree i =? 0) || (fget lut_spb_tree i =? 1)) (zrange 256) = true.
Proof. vm_compute. repeat split. Qed.

Lemma zc_range : forall f o, 0 <= zc_ctx_t f o < 19.
Proof.
  intros f o. unfold zc_ctx_t. destruct lut_ranges as (H & _ & _). rewrite forallb_forall in H.
  pose proof (zc_index_range f) as Hr.
  set (o' := if (o <? 0) || (3 <? o) then 0 else o).
  assert (Ho : 0 <= o' < 4).
  { unfold o'. destruct (Z.ltb_spec o 0); cbn [orb]; [lia|]. destruct (Z.ltb_spec 3 o); lia. }
  assert (Hin : In (o' * 512 + zc_index f) (zrange 2048)) by (apply zrange_in; change (Z.of_nat 2048) with 2048; lia).
  specialize (H _ Hin).
  apply andb_true_iff in H. destruct H as [H1 H2]. apply Z.leb_le in H1. apply Z.ltb_lt in H2. lia.
Qed.

Lemma sc_range : forall f, 0 <= sc_ctx_t f < 19.
Proof.
  intros f. unfold sc_ctx_t. destruct lut_ranges as (_ & H & _). rewrite forallb_forall in H.
  pose proof (sc_index_range f) as Hr. assert (Hin : In (sc_index f) (zrange 256)) by (apply zrange_in; change (Z.of_nat 256) with 256; lia).
  specialize (H _ Hin).
  apply andb_true_iff in H. destruct H as [H1 H2]. apply Z.leb_le in H1. apply Z.ltb_lt in H2. lia.
Qed.

Lemma spb_t_01 : forall f, bit01 (spb_t f).
Proof.
  intros f. unfold spb_t. destruct lut_ranges as (_ & _ & H). rewrite forallb_forall in H.
  pose proof (sc_index_range f) as Hr. assert (Hin : In (sc_index f) (zrange 256)) by (apply zrange_in; change (Z.of_nat 256) with 256; lia).
  specialize (H _ Hin).
  apply orb_true_iff in H. destruct H as [H|H]; apply Z.eqb_eq in H; [left|right]; exact H.
Qed.

Lemma mr_range : forall f, 0 <= mr_ctx f < 19.
Proof.
  intros f. unfold mr_ctx. change CTXMRSTART with 14.
  destruct (has f T1Refine); [lia|]. destruct (has f T1SigNeighbors); lia.
Qed.

Lemma bit_at_01 : forall v bp, bit01 (bit_at v bp).
Proof. intros. unfold bit_at, bit01. apply land1_01. Qed.

Lemma sign_bit_01 : forall v, bit01 (sign_bit v).
Proof. intros. unfold sign_bit, bit01. destruct (v <? 0); auto. Qed.

Lemma lxor_01 : forall a b, bit01 a -> bit01 b -> bit01 (Z.lxor a b).
Proof. intros a b [->| ->] [->| ->]; cbn; unfold bit01; auto. Qed.

Lemma mk_sym_ok : forall raw ctx b, 0 <= ctx < 19 -> bit01 b -> sym_okr raw (mk_sym raw ctx b).
Proof.
  intros raw ctx b Hc Hb. destruct raw; unfold sym_okr, mk_sym, sym_raw, sym_mq; cbn [fst snd].
  - split; [reflexivity|split; [reflexivity|exact Hb]].
  - split; [reflexivity|split; [exact Hc|exact Hb]].
Qed.

Lemma sym_mq_mk : forall ctx b, 0 <= ctx < 19 -> bit01 b -> sym_mq (0, ctx, b).
Proof. intros ctx b Hc Hb. unfold sym_mq. cbn [fst snd]. split; [reflexivity|split; [exact Hc|exact Hb]]. Qed.

Lemma ctxrl_range : 0 <= CTXRL < 19. Proof. change CTXRL with 17. lia. Qed.
Lemma ctxuni_range : 0 <= CTXUNI < 19. Proof. change CTXUNI with 18. lia. Qed.
Lemma bit01_0 : bit01 0. Proof. left; reflexivity. Qed.
Lemma bit01_1 : bit01 1. Proof. right; reflexivity. Qed.
Lemma bit01_land1 : forall x, bit01 (Z.land x 1). Proof. intros. apply land1_01. Qed.

Lemma loop_e_out : forall {SE} (P : sym -> Prop) n i (f : Z -> SE -> SE * list sym) s,
  (forall j s', Forall P (snd (f j s'))) -> Forall P (snd (loop_e n i f s)).
Proof.
  intros SE P n. induction n as [|n IH]; intros i f s H; cbn [loop_e]; [constructor|].
  pose proof (H i s) as H1. destruct (f i s) as [s1 o1]. cbn [snd] in H1.
  pose proof (IH (i + 1) f s1 H) as H2. destruct (loop_e n (i + 1) f s1) as [s2 o2]. cbn [snd] in *.
  apply Forall_app. split; assumption.
Qed.

Lemma spp_sample_syms : forall w orient bp raw V x y F, Forall (sym_okr raw) (snd (enc_spp_sample w orient bp raw V x y F)).
Proof.
  intros. unfold enc_spp_sample.
  destruct (has _ T1Sig); [constructor|]. destruct (negb (has _ T1SigNeighbors)); [constructor|].
  assert (H1 : sym_okr raw (mk_sym raw (zc_ctx_t (fget F (idx_of w x y)) orient) (bit_at (fget V (idx_of w x y)) bp)))
    by (apply mk_sym_ok; [apply zc_range|apply bit_at_01]).
  destruct (bit_at (fget V (idx_of w x y)) bp =? 0); cbn [snd]; [repeat constructor; exact H1|].
  constructor; [exact H1|]. constructor; [|constructor].
  destruct raw; unfold sym_okr, sym_raw, sym_mq; cbn [fst snd].
  - split; [reflexivity|split; [reflexivity|apply sign_bit_01]].
  - split; [reflexivity|split; [apply sc_range|]]. apply lxor_01; [apply sign_bit_01|apply spb_t_01].
Qed.

Lemma mrp_sample_syms : forall w bp raw V x y F, Forall (sym_okr raw) (snd (enc_mrp_sample w bp raw V x y F)).
Proof.
  intros. unfold enc_mrp_sample.
  destruct (negb (has _ T1Sig) || has _ T1Visit); cbn [snd]; [constructor|].
  constructor; [|constructor]. apply mk_sym_ok; [apply mr_range|apply bit_at_01].
Qed.

Lemma cup_sample_syms : forall w orient bp V x y st, Forall sym_mq (snd (enc_cup_sample w orient bp V x y st)).
Proof.
  intros w orient bp V x y [F p]. unfold enc_cup_sample.
  destruct (has _ T1Visit || has _ T1Sig); cbn [snd]; [constructor|].
  assert (Ho1 : Forall sym_mq (if p then [] else [(0, zc_ctx_t (fget F (idx_of w x y)) orient, if p then 1 else bit_at (fget V (idx_of w x y)) bp)])).
  { destruct p; [constructor|]. constructor; [|constructor]. apply sym_mq_mk; [apply zc_range|apply bit_at_01]. }
  destruct ((if p then 1 else bit_at (fget V (idx_of w x y)) bp) =? 0); cbn [snd]; [exact Ho1|].
  apply Forall_app. split; [exact Ho1|]. constructor; [|constructor].
  apply sym_mq_mk; [apply sc_range|]. apply lxor_01; [apply sign_bit_01|apply spb_t_01].
Qed.

Lemma cup_col_syms : forall w h orient bp V k n x F, Forall sym_mq (snd (enc_cup_col w h orient bp V k n x F)).
Proof.
  intros. unfold enc_cup_col.
  destruct ((k + 3 <? h) && rl_ok F w x k).
  - destruct (rl_pos V w bp x k <? 0) eqn:Epos; cbn [snd].
    + constructor; [|constructor]. apply sym_mq_mk; [apply ctxrl_range|apply bit01_0].
    + pose proof (loop_e_out sym_mq (Z.to_nat (4 - rl_pos V w bp x k)) (rl_pos V w bp x k)
                    (fun dy => enc_cup_sample w orient bp V x (k + dy)) (F, true)
                    (fun j s' => cup_sample_syms w orient bp V x (k + j) s')) as Hl.
      destruct (loop_e _ _ _ _) as [st o]. cbn [snd] in *.
      constructor; [apply sym_mq_mk; [apply ctxrl_range|apply bit01_1]|].
      constructor; [apply sym_mq_mk; [apply ctxuni_range|apply bit01_land1]|].
      constructor; [apply sym_mq_mk; [apply ctxuni_range|apply bit01_land1]|].
      exact Hl.
  - pose proof (loop_e_out sym_mq n 0 (fun dy => enc_cup_sample w orient bp V x (k + dy)) (F, false)
                  (fun j s' => cup_sample_syms w orient bp V x (k + j) s')) as Hl.
    destruct (loop_e _ _ _ _) as [st o]. cbn [snd] in *. exact Hl.
Qed.

Lemma enc_pass_syms : forall wn hn orient style bp ptype raw V F,
  Forall (sym_okr (raw && ((ptype =? 0) || (ptype =? 1)))) (snd (enc_pass wn hn orient style bp ptype raw V F)).
Proof.
  intros. unfold enc_pass.
  destruct (ptype =? 0); cbn [orb andb]; [rewrite andb_true_r|].
  { apply loop_e_out. intros. apply loop_e_out. intros. apply loop_e_out. intros. apply spp_sample_syms. }
  destruct (ptype =? 1); cbn [orb andb]; [rewrite andb_true_r|].
  { apply loop_e_out. intros. apply loop_e_out. intros. apply loop_e_out. intros. apply mrp_sample_syms. }
  rewrite andb_false_r. cbn [sym_okr].
  pose proof (loop_e_out sym_mq (nstripes (Z.of_nat hn)) 0
                (fun s => loop_e wn 0 (fun x => enc_cup_col (Z.of_nat wn) (Z.of_nat hn) orient bp V (4 * s) (stripe_rows (Z.of_nat hn) s) x)) F) as Hl.
  destruct (loop_e _ _ _ _) as [F1 o]. cbn [snd] in *.
  assert (Ho : Forall sym_mq o).
  { apply Hl. intros. apply loop_e_out. intros. apply cup_col_syms. }
  destruct (negb (Z.land style CblkStyleSegsym =? 0)); [|exact Ho].
  apply Forall_app. split; [exact Ho|].
  unfold segsym_syms.
  repeat (constructor; [apply sym_mq_mk; [lia|first [apply bit01_0|apply bit01_1]]|]). constructor.
Qed.

(* =====================================================================================
   Single-codeword styles
   ===================================================================================== *)
Definition mq_style (style : Z) : Prop := Z.land style 21 = 0.   (* no LAZY, TERMALL, PTERM *)

Lemma land_sub : forall s m k, Z.land m k = k -> Z.land s m = 0 -> Z.land s k = 0.
Proof. intros s m k Hk Hs. rewrite <- Hk. rewrite Z.land_assoc, Hs. apply Z.land_0_l. Qed.

Lemma mq_style_bits : forall style, mq_style style ->
  Z.land style CblkStyleLazy = 0 /\ Z.land style CblkStyleTermAll = 0 /\ Z.land style CblkStylePterm = 0.
Proof.
  intros style H. unfold mq_style in H.
  repeat split; apply (land_sub style 21); try exact H; reflexivity.
Qed.

Lemma mq_style_raw : forall style bp maxbp pt, mq_style style -> is_lazy_raw bp maxbp pt style = false.
Proof. intros style bp maxbp pt H. unfold is_lazy_raw. destruct (mq_style_bits style H) as (-> & _ & _). reflexivity. Qed.

Lemma mq_style_term : forall style bp maxbp pt, mq_style style ->
  is_terminating bp maxbp pt style = (pt =? 2) && (bp =? 0).
Proof.
  intros style bp maxbp pt H. unfold is_terminating. destruct (mq_style_bits style H) as (E1 & E2 & _).
  rewrite E1, E2. destruct ((pt =? 2) && (bp =? 0)); reflexivity.
Qed.

Lemma enc_passes_syms_mq : forall wn hn orient style maxbp V pl first F, mq_style style ->
  Forall (Forall sym_mq) (enc_passes wn hn orient style maxbp V pl first F).
Proof.
  intros wn hn orient style maxbp V pl. induction pl as [|[bp pt] r IH]; intros first F Hs; cbn [enc_passes]; [constructor|].
  pose proof (enc_pass_syms wn hn orient style bp pt (is_lazy_raw bp maxbp pt style) V
                (if start_bitplane pt first then clear_visit F else F)) as H1.
  rewrite (mq_style_raw style bp maxbp pt Hs) in *. cbn [andb sym_okr] in H1.
  destruct (enc_pass _ _ _ _ _ _ _ _ _) as [F1 o]. cbn [snd] in H1.
  constructor; [exact H1|]. apply IH. exact Hs.
Qed.

(* ---------- encoder: the bytes are the flush of one MQ codeword ---------- *)
Definition dec_of (s : sym) : Z * Z := (snd s, snd (fst s)).
Definition decs (l : list sym) : list (Z * Z) := map dec_of l.

Definition cx0 : list Z := e_cx (set3_e (enc_new nctx)).

Lemma enc_init : set3_e (enc_new nctx) = enc_new_cx cx0.
Proof. reflexivity. Qed.

Lemma cx0_ok : Forall cx_ok cx0.
Proof.
  assert (E : cx0 = reset_cx (zrepeat_nat 0 nctx)) by reflexivity. rewrite E. apply reset_cx_ok.
Qed.

Lemma cx0_len : zlen cx0 = 19.
Proof. reflexivity. Qed.

Lemma sym_mq_decision : forall l, Forall sym_mq l -> Forall (decision_ok 19) (decs l).
Proof.
  intros l H. unfold decs. apply Forall_map. eapply Forall_impl; [|exact H].
  intros [[k c] b] (Hk & Hc & Hb). cbn [fst snd] in *. split; [exact Hb|exact Hc].
Qed.

Lemma enc_guard_ok : forall e ctx, enc_inv e -> 0 <= ctx < zlen (e_cx e) -> enc_encode_guard e ctx = true.
Proof.
  intros e ctx [[_ _ _ _ _ Hcx] _] Hc. unfold enc_encode_guard, ctx_in_range.
  apply andb_true_iff. split.
  - apply andb_true_iff. split; [apply Z.leb_le|apply Z.ltb_lt]; lia.
  - apply Z.ltb_lt. apply cx_ok_state. apply znth_Forall; [exact Hcx|exact cx_ok_0].
Qed.

Lemma enc_syms_o_mq : forall l e, Forall sym_mq l -> enc_inv e -> zlen (e_cx e) = 19 ->
  enc_syms_o e l = Ok (enc_encode_list e (decs l)).
Proof.
  induction l as [|[[k c] b] t IH]; intros e Hl Hinv Hn; cbn [enc_syms_o decs map enc_encode_list]; [reflexivity|].
  inversion Hl as [|? ? (Hk & Hc & Hb) Ht]; subst. cbn [fst snd] in *. subst k.
  unfold enc_sym_o. change (0 =? 0) with true. cbv iota. unfold enc_encode_o.
  rewrite enc_guard_ok by (try exact Hinv; rewrite Hn; exact Hc). cbn [obind]. cbn [dec_of fst snd].
  apply IH; [exact Ht|apply enc_encode_inv; exact Hinv|].
  unfold zlen in *. rewrite enc_encode_cx_length. exact Hn.
Qed.

Lemma get_buffer_r_e : forall e, enc_get_buffer (r_e e) = enc_get_buffer e.
Proof. reflexivity. Qed.

Lemma enc_bytes_mq : forall style maxbp pl bp pt syms e, mq_style style ->
  chain bp pt pl -> length syms = length pl -> Forall (Forall sym_mq) syms ->
  enc_inv e -> zlen (e_cx e) = 19 ->
  exists e' term ps,
    enc_bytes_passes style maxbp pl syms false e = Ok ((e', term), ps) /\ length ps = length pl /\
    (if term : bool then enc_get_buffer e' else enc_flush e') =
    enc_flush (enc_mq_passes (negb (Z.land style CblkStyleReset =? 0)) e (map decs syms)).
Proof.
  intros style maxbp pl. induction pl as [|[b p] r IH]; intros bp pt syms e Hs Hc Hlen Hsy Hinv Hn.
  - destruct syms; [|discriminate]. exists e, false, []. cbn. auto.
  - destruct syms as [|ss syms']; [discriminate|]. cbn [length] in Hlen.
    cbn [chain] in Hc. destruct Hc as (-> & -> & Hbp & Hpt & Hc).
    inversion Hsy as [|? ? Hss Hsy']; subst.
    cbn [enc_bytes_passes map enc_mq_passes].
    rewrite (mq_style_raw style bp maxbp pt Hs). rewrite (mq_style_term style bp maxbp pt Hs).
    destruct (mq_style_bits style Hs) as (_ & _ & Epterm). rewrite Epterm. change (negb (0 =? 0)) with false.
    cbv iota.
    rewrite (enc_syms_o_mq ss e Hss Hinv Hn). cbn [obind].
    set (e2 := enc_encode_list e (decs ss)).
    assert (Hinv2 : enc_inv e2) by (apply enc_encode_list_inv; exact Hinv).
    assert (Hn2 : zlen (e_cx e2) = 19) by (unfold e2; rewrite enc_encode_list_cx_len; exact Hn).
    set (reset := negb (Z.land style CblkStyleReset =? 0)).
    destruct ((pt =? 2) && (bp =? 0)) eqn:Eterm.
    + (* terminating pass: it is the last one *)
      apply andb_true_iff in Eterm. destruct Eterm as [E2 E0]. apply Z.eqb_eq in E2, E0. subst pt bp.
      assert (r = []).
      { destruct r as [|[b' p'] r']; [reflexivity|]. cbn [chain] in Hc. unfold next_bp in Hc. cbn in Hc. lia. }
      subst r. destruct syms'; [|discriminate]. cbn [enc_terminate obind enc_bytes_passes map enc_mq_passes fst snd].
      unfold enc_terminate. cbn [obind].
      eexists _, true, _. split; [reflexivity|]. split; [reflexivity|]. cbv iota.
      fold (r_e (enc_flush_state e2)). fold (r_e e2).
      destruct reset.
      * rewrite get_buffer_r_e, enc_flush_r_e. unfold enc_flush. reflexivity.
      * unfold enc_flush. reflexivity.
    + cbn [obind].
      change (set3_e (enc_reset_contexts e2)) with (r_e e2).
      destruct (IH (next_bp bp pt) (next_pt pt) syms' (if reset then r_e e2 else e2) Hs Hc ltac:(lia) Hsy'
                   (enc_reset_step_inv reset e2 Hinv2) ltac:(rewrite enc_reset_step_len; exact Hn2))
        as (e' & term & ps & E & Hl & Hb).
      rewrite E. cbn [obind fst snd].
      eexists e', term, _. split; [reflexivity|]. split; [cbn [length]; rewrite Hl; reflexivity|]. exact Hb.
Qed.

Lemma normalize_rev_length : forall data ps l, length (normalize_rev data ps l) = length ps.
Proof. intros data ps. induction ps as [|p r IH]; intros l; cbn [normalize_rev length]; [reflexivity|]. rewrite IH. reflexivity. Qed.

(* ---------- decoder: NewMQDecoder + the three SetContextState = the decoder started on cx0 ---------- *)
Definition dcx (d : dec) (cx : list Z) : dec :=
  mkDec (d_a d) (d_c d) (d_ct d) (d_eos d) (d_bp d) (d_dlen d) (d_cur d) (d_rest d) cx.

Lemma dec_bytein_dcx : forall d cx,
  dec_bytein (dcx d cx) = match dec_bytein d with Ok d1 => Ok (dcx d1 cx) | Err => Err | Panic => Panic | OutOfFuel => OutOfFuel end.
Proof.
  intros d cx. unfold dec_bytein, dcx. cbn [d_a d_c d_ct d_eos d_bp d_dlen d_cur d_rest d_cx].
  destruct ((0 <=? d_bp d + 1) && (d_bp d + 1 <? d_dlen d)); [|reflexivity].
  destruct (d_rest d) as [|nx rest']; [reflexivity|].
  destruct (d_cur d =? 255); [destruct (143 <? nx)|]; reflexivity.
Qed.

Lemma dec_new_cx_dcx : forall data cx cx' d, dec_new_cx data cx = Ok d ->
  dec_new_cx data cx' = Ok (dcx d cx') /\ d_cx d = cx.
Proof.
  intros data cx cx' d H. unfold dec_new_cx in *.
  destruct (data ++ [255; 255]) as [|b0 rest]; [discriminate|].
  set (c0 := if zlen data =? 0 then Z.shiftl 255 16 else u32 (Z.shiftl b0 16)) in *.
  change (mkDec 32768 c0 0 0 0 (zlen data + 2) b0 rest cx') with (dcx (mkDec 32768 c0 0 0 0 (zlen data + 2) b0 rest cx) cx').
  rewrite dec_bytein_dcx.
  destruct (dec_bytein (mkDec 32768 c0 0 0 0 (zlen data + 2) b0 rest cx)) as [d1| | |] eqn:E; cbn [obind] in *; try discriminate.
  inversion H; subst. split; [reflexivity|]. cbn [d_cx].
  (* bytein keeps the contexts *)
  unfold dec_bytein in E. cbn [d_a d_c d_ct d_eos d_bp d_dlen d_cur d_rest d_cx] in E.
  destruct ((0 <=? 0 + 1) && (0 + 1 <? zlen data + 2)); [|discriminate].
  destruct rest as [|nx rest']; [discriminate|].
  destruct (b0 =? 255); [destruct (143 <? nx)|]; inversion E; reflexivity.
Qed.

Lemma dec_new_set3 : forall data dd, dec_new_cx data cx0 = Ok dd ->
  exists d, dec_new data nctx = Ok d /\ set3_d d = dd.
Proof.
  intros data dd H. destruct (dec_new_cx_dcx data cx0 (zrepeat_nat 0 nctx) dd H) as [H1 H2].
  exists (dcx dd (zrepeat_nat 0 nctx)). split; [exact H1|].
  destruct dd as [a c ct eos bp dlen cur rest cx]. cbn [d_cx] in H2. subst cx. reflexivity.
Qed.

(* ---------- the channel relation ---------- *)
Section Rel.
Variables (style np : Z).
Let reset := negb (Z.land style CblkStyleReset =? 0).

Definition RB (i : Z) (c1 : ichan) (c2 : coder) : Prop :=
  exists d, c2 = CoMQ d /\ Forall sym_mq (fst c1) /\ Forall (Forall sym_mq) (snd c1) /\
    dec_future reset d (decs (fst c1)) (map decs (snd c1)) /\ zlen (snd c1) = np - i - 1.

Definition RA (i : Z) (c1 : ichan) (c2 : coder) : Prop :=
  fst c1 = [] /\ exists d, c2 = CoMQ d /\ Forall (Forall sym_mq) (snd c1) /\ zlen (snd c1) = np - i /\
    match snd c1 with [] => True | p :: r => dec_future reset d (decs p) (map decs r) end.

Lemma RB_ask : forall i, ask_sim ideal_ask coder_ask (RB i).
Proof.
  intros i [cur rest] c2 k ctx (d & -> & Hcur & Hrest & Hfut & Hlen) [c1' b] E.
  unfold ideal_ask in E. cbn [fst snd] in *.
  destruct cur as [|[[k' cx'] b'] cur']; [discriminate|].
  destruct ((k' =? k) && (cx' =? ctx)) eqn:Ek; [|discriminate].
  apply andb_true_iff in Ek. destruct Ek as [Ek Ec]. apply Z.eqb_eq in Ek, Ec. subst k' cx'.
  inversion E; subst c1' b'. clear E.
  inversion Hcur as [|? ? (Hk0 & Hc & Hb) Hcur']; subst. cbn [fst snd] in Hk0. subst k.
  cbn [decs map dec_of fst snd] in Hfut.
  destruct rest as [|p r]; cbn [map dec_future] in Hfut; destruct Hfut as (d1 & Ed & Hnext);
    destruct (dec_decode_list_cons_inv _ _ _ _ _ _ Ed) as (d2 & E2 & E3); cbn [dec_of fst snd] in E2.
  - unfold coder_ask. change (0 =? 0) with true. cbv iota. rewrite E2. cbn [obind fst snd].
    eexists. split; [reflexivity|]. split; [reflexivity|]. cbn [fst].
    exists d2. repeat split; auto. cbn [fst snd map dec_future]. exists d1. split; [exact E3|exact I].
  - unfold coder_ask. change (0 =? 0) with true. cbv iota. rewrite E2. cbn [obind fst snd].
    eexists. split; [reflexivity|]. split; [reflexivity|]. cbn [fst].
    exists d2. repeat split; auto. cbn [fst snd map dec_future]. exists d1. split; [exact E3|exact Hnext].
Qed.

Lemma RA_pre : forall i bp pt raw c1 c2, RA i c1 c2 ->
  fsim (RB i) (ideal_pre i bp pt raw c1) ((fun _ _ _ _ c => Ok c) i bp pt raw c2).
Proof.
  intros i bp pt raw [cur rest] c2 (Hcur & d & -> & Hrest & Hlen & Hfut) c1' E.
  cbn [fst snd] in *. subst cur. unfold ideal_pre in E. cbn [fst snd] in E.
  destruct rest as [|p r]; [discriminate|]. inversion E; subst c1'. clear E.
  eexists. split; [reflexivity|]. exists d. cbn [fst snd].
  inversion Hrest; subst. repeat split; auto. rewrite zlen_cons in Hlen. lia.
Qed.

Lemma RB_post : forall i bp pt c1 c2, RB i c1 c2 ->
  fsim (RA (i + 1)) (ideal_post i bp pt false c1) (opt_post style np false i bp pt false c2).
Proof.
  intros i bp pt [cur rest] c2 (d & -> & Hcur & Hrest & Hfut & Hlen) c1' E.
  cbn [fst snd] in *. unfold ideal_post in E. cbn [fst] in E.
  destruct cur; [|discriminate]. inversion E; subst c1'. clear E.
  unfold opt_post. cbn [andb negb]. fold reset.
  destruct rest as [|p r]; cbn [map decs dec_future] in Hfut; destruct Hfut as (d1 & Ed & Hnext);
    cbn [dec_decode_list] in Ed; inversion Ed; subst d1.
  - change (zlen (@nil (list sym))) with 0 in Hlen.
    replace (i + 1 <? np) with false by (symmetry; apply Z.ltb_ge; lia). rewrite andb_false_r. cbn [andb].
    eexists. split; [reflexivity|]. split; [reflexivity|]. exists d. cbn [fst snd]. repeat split; auto.
    change (zlen (@nil (list sym))) with 0. lia.
  - rewrite zlen_cons in Hlen. pose proof (Zle_0_nat (length r)) as Hr0. fold (zlen r) in Hr0.
    replace (i + 1 <? np) with true by (symmetry; apply Z.ltb_lt; lia). rewrite andb_true_r.
    eexists. split; [reflexivity|]. split; [reflexivity|].
    destruct reset; cbn [co_map].
    + exists (r_d d). cbn [fst snd]. repeat split; auto. rewrite zlen_cons. lia.
    + exists d. cbn [fst snd]. repeat split; auto. rewrite zlen_cons. lia.
Qed.

End Rel.

