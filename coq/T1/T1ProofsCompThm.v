(* Byte-level round trip for the single-codeword styles: the theorem (lemmas in T1ProofsComp.v). *)
From V Require Import Common.Base MQ.MqModel MQ.MqProofs MQ.MqProofsDec MQ.MqProofsRt MQ.MqProofsRt2.
From V Require Import T1.T1Store T1.T1Ctx T1.T1CtxProofs T1.T1Model T1.T1Bytes T1.T1ProofsBase
  T1.T1ProofsSeq T1.T1ProofsFinal T1.T1ProofsSim T1.T1ProofsMqRt T1.T1ProofsComp.

(* =====================================================================================
   The theorem
   ===================================================================================== *)
Lemma all_zero_below : forall data fb, data_ok data -> 0 <= fb ->
  (forall v, In v data -> exists c, v = c * 2 ^ fb) -> find_max_bitplane data < fb ->
  forall v, In v data -> v = 0.
Proof.
  intros data fb Hok Hfb Hmul Hlt v Hin.
  destruct (find_max_bitplane_spec data Hok) as [[_ Hz]|[Hmb Hhigh]]; [apply Hz; exact Hin|].
  specialize (Hhigh _ Hin). destruct (Hmul _ Hin) as [c Hc]. rewrite Hc in *.
  assert (Hp : 0 < 2 ^ fb) by (apply Z.pow_pos_nonneg; lia).
  rewrite Z.shiftr_div_pow2 in Hhigh by lia.
  assert (Hlt2 : Z.abs (c * 2 ^ fb) < 2 ^ (find_max_bitplane data + 1)).
  { apply Z.div_small_iff in Hhigh; [|apply Z.pow_nonzero; lia]. destruct Hhigh; [lia|].
    assert (0 < 2 ^ (find_max_bitplane data + 1)) by (apply Z.pow_pos_nonneg; lia). lia. }
  assert (2 ^ (find_max_bitplane data + 1) <= 2 ^ fb) by (apply Z.pow_le_mono_r; lia).
  rewrite Z.abs_mul, (Z.abs_eq (2 ^ fb)) in Hlt2 by lia.
  assert (Z.abs c = 0) by nia. assert (c = 0) by lia. subst c. reflexivity.
Qed.

Lemma nolazy_raw : forall style bp maxbp pt, Z.land style CblkStyleLazy = 0 -> is_lazy_raw bp maxbp pt style = false.
Proof. intros style bp maxbp pt H. unfold is_lazy_raw. rewrite H. reflexivity. Qed.

Lemma enc_passes_syms_nolazy : forall wn hn orient style maxbp V pl first F, Z.land style CblkStyleLazy = 0 ->
  Forall (Forall sym_mq) (enc_passes wn hn orient style maxbp V pl first F).
Proof.
  intros wn hn orient style maxbp V pl. induction pl as [|[bp pt] r IH]; intros first F Hs; cbn [enc_passes]; [constructor|].
  pose proof (enc_pass_syms wn hn orient style bp pt (is_lazy_raw bp maxbp pt style) V
                (if start_bitplane pt first then clear_visit F else F)) as H1.
  rewrite (nolazy_raw style bp maxbp pt Hs) in *. cbn [andb sym_okr] in H1.
  destruct (enc_pass _ _ _ _ _ _ _ _ _) as [F1 o]. cbn [snd] in H1.
  constructor; [exact H1|]. apply IH. exact Hs.
Qed.

(* the composition, for any style without LAZY and TERMALL whose encoder run is one MQ codeword *)
Lemma single_codeword_core2 :
  forall (wn hn : nat) (orient style fb : Z) (data : list Z),
  Z.land style CblkStyleLazy = 0 -> Z.land style CblkStyleTermAll = 0 ->
  length data = (wn * hn)%nat -> data_ok data -> 0 <= fb ->
  (forall v, In v data -> exists c, v = c * 2 ^ fb) ->
  (let maxbp := find_max_bitplane data in
   let pl := pass_list maxbp fb (3 * (maxbp - fb + 1) - 2) in
   let syms := enc_passes wn hn orient style maxbp (pad_data wn hn data) pl true Leaf in
   fb <= maxbp -> chain maxbp 2 pl -> Forall (Forall sym_mq) syms ->
   exists e' term ps,
     enc_bytes_passes style maxbp pl syms false (enc_new_cx cx0) = Ok ((e', term), ps) /\ length ps = length pl /\
     (if term : bool then enc_get_buffer e' else enc_flush e') <> [] /\
     exists dd, dec_new_cx (if term : bool then enc_get_buffer e' else enc_flush e') cx0 = Ok dd /\
       match syms with
       | [] => True
       | s0 :: symr => dec_future (negb (Z.land style CblkStyleReset =? 0)) dd (decs s0) (map decs symr)
       end) ->
  t1_roundtrip wn hn orient style fb data = Ok data.
Proof.
  intros wn hn orient style fb data Elazy Etermall Hlen Hok Hfb Hmul Henc.
  unfold t1_roundtrip, enc_layered, enc_syms.
  set (maxbp := find_max_bitplane data).
  set (NP := 3 * (maxbp - fb + 1) - 2).
  set (V := pad_data wn hn data).
  set (pl := pass_list maxbp fb NP).
  set (syms := enc_passes wn hn orient style maxbp V pl true Leaf).
  destruct (Z.ltb_spec maxbp fb) as [Hlt|Hge].
  - (* no pass coded: the block is all zero *)
    cbn [obind]. f_equal.
    pose proof (all_zero_below data fb Hok Hfb Hmul Hlt) as Hz.
    clear - Hz. induction data as [|a l IH]; [reflexivity|]. cbn [map].
    rewrite (Hz a (or_introl eq_refl)). f_equal. apply IH. intros v Hv. apply Hz. right. exact Hv.
  - (* the encoder *)
    pose proof (find_max_bitplane_spec data Hok) as Hspec. cbv zeta in Hspec. fold maxbp in Hspec.
    destruct Hspec as [[Hm1 _]|[Hmb _]]; [lia|].
    assert (Hchain : chain maxbp 2 pl).
    { unfold pl, pass_list. destruct (Z.ltb_spec maxbp fb); [exact I|]. apply chain_firstn. apply chain_all_passes; lia. }
    assert (Hsl : length syms = length pl) by apply enc_passes_length.
    assert (Hsy : Forall (Forall sym_mq) syms) by (apply enc_passes_syms_nolazy; exact Elazy).
    rewrite enc_init.
    destruct (Henc Hge Hchain Hsy) as (e' & term & ps & Eenc & Hpl0 & Hne0 & dd & Edd0 & Hfut0).
    assert (Hpl : length ps = length pl) by exact Hpl0.
    assert (Hfut : match syms with
                   | [] => True
                   | s0 :: symr => dec_future (negb (Z.land style CblkStyleReset =? 0)) dd (decs s0) (map decs symr)
                   end) by exact Hfut0.
    clear Hpl0 Hfut0.
    match goal with |- context [enc_bytes_passes ?a ?b ?c ?d ?e ?f] =>
      replace (enc_bytes_passes a b c d e f) with (Ok ((e', term), ps)) by (symmetry; exact Eenc) end.
    cbn [obind].
    remember (if term then enc_get_buffer e' else enc_flush e') as bytes eqn:Ebytes0.
    rename Hne0 into Hne. rename Edd0 into Edd.
    remember (rev (normalize_rev bytes (rev ps) (zlen bytes))) as ps' eqn:Eps'.
    assert (Hps' : length ps' = length pl).
    { subst ps'. rewrite rev_length, normalize_rev_length, rev_length. exact Hpl. }
    (* at least one pass *)
    assert (Hpl1 : (0 < length pl)%nat).
    { unfold pl, pass_list. destruct (Z.ltb_spec maxbp fb); [lia|]. unfold all_passes.
      replace (Z.to_nat NP) with (S (Z.to_nat (NP - 1))) by (unfold NP; lia). cbn [firstn length]. lia. }
    destruct ps' as [|p0 psr]; [cbn [length] in Hps'; lia|].
    (* the MQ codeword *)
    destruct syms as [|s0 symr] eqn:Esyms; [cbn [length] in Hsl; lia|].
    pose proof (Forall_inv Hsy) as Hs0. pose proof (Forall_inv_tail Hsy) as Hsr.
    destruct (dec_new_set3 bytes dd Edd) as (dnew & Enew & Eset).
    (* the decoder *)
    destruct bytes as [|by0 byr]; [congruence|].
    unfold dec_layered. cbn [map].
    rewrite Elazy, Etermall. change (negb (0 =? 0)) with false. cbn [negb andb]. cbv iota.
    unfold dec_with_options. rewrite Etermall. change (negb (0 =? 0)) with false. cbn [orb].
    rewrite Enew. cbn [obind]. rewrite Eset.
    assert (Enp : zlen (p_rate p0 :: map p_rate psr) = zlen pl).
    { unfold zlen. cbn [length] in *. rewrite map_length. lia. }
    rewrite Enp.
    assert (Epl0 : pass_list maxbp 0 (zlen pl) = pl) by (unfold pl; apply pass_list_dec; exact Hfb).
    rewrite Epl0.
    (* the ideal run *)
    destruct (t1_ideal_roundtrip wn hn orient style fb NP data Hlen Hok Hfb Hmul ltac:(fold maxbp; unfold NP; lia))
      as (st & Eid & Hdata).
    change (snd (enc_syms wn hn orient style fb NP data)) with syms in Eid.
    change (find_max_bitplane data) with maxbp in Eid. rewrite Esyms in Eid.
    unfold dec_ideal in Eid.
    assert (El : zlen (s0 :: symr) = zlen pl) by (unfold zlen; rewrite Hsl; reflexivity).
    rewrite El, Epl0 in Eid.
    pose proof (dec_passes_fsim ideal_ask coder_ask (RA style (zlen pl)) (RB style (zlen pl))
                  ideal_pre ideal_post (fun _ _ _ _ c => Ok c) (opt_post style (zlen pl) false)
                  wn hn orient style maxbp false (RB_ask style (zlen pl)) pl 0 (Leaf, Leaf)
                  ([], s0 :: symr) (CoMQ dd)) as Hsim.
    destruct (Hsim) with (a := (st, (@nil sym, @nil (list sym)))) as (b & Eb & Hb).
    + intros k bp pt Hn c1 c2 Hr. apply RA_pre. exact Hr.
    + intros k bp pt Hn c1 c2 Hr. rewrite (nolazy_raw style bp maxbp pt Elazy). apply RB_post. exact Hr.
    + split; [reflexivity|]. exists dd. cbn [fst snd]. repeat split; auto. rewrite El. lia.
    + exact Eid.
    + destruct b as [st2 c2]. destruct Hb as [Hst _]. cbn [fst] in Hst. subst st2.
      match goal with |- obind ?X _ = _ => replace X with (Ok (st, c2)) by (symmetry; exact Eb) end.
      cbn [obind fst snd]. f_equal. exact Hdata.
Qed.

Lemma single_codeword_core :
  forall (wn hn : nat) (orient style fb : Z) (data : list Z),
  Z.land style CblkStyleLazy = 0 -> Z.land style CblkStyleTermAll = 0 ->
  length data = (wn * hn)%nat -> data_ok data -> 0 <= fb ->
  (forall v, In v data -> exists c, v = c * 2 ^ fb) ->
  (let maxbp := find_max_bitplane data in
   let pl := pass_list maxbp fb (3 * (maxbp - fb + 1) - 2) in
   let syms := enc_passes wn hn orient style maxbp (pad_data wn hn data) pl true Leaf in
   fb <= maxbp -> chain maxbp 2 pl -> Forall (Forall sym_mq) syms ->
   exists e' term ps,
     enc_bytes_passes style maxbp pl syms false (enc_new_cx cx0) = Ok ((e', term), ps) /\ length ps = length pl /\
     (if term : bool then enc_get_buffer e' else enc_flush e') =
     enc_flush (enc_mq_passes (negb (Z.land style CblkStyleReset =? 0)) (enc_new_cx cx0) (map decs syms))) ->
  t1_roundtrip wn hn orient style fb data = Ok data.
Proof.
  intros wn hn orient style fb data Elazy Etermall Hlen Hok Hfb Hmul Henc.
  apply single_codeword_core2; auto.
  intros maxbp pl syms Hge Hchain Hsy.
  destruct (Henc Hge Hchain Hsy) as (e' & term & ps & Eenc & Hpl & Hbytes).
  exists e', term, ps. split; [exact Eenc|]. split; [exact Hpl|].
  fold maxbp pl syms in Hbytes. rewrite Hbytes.
  assert (Hsl : length syms = length pl) by apply enc_passes_length.
  destruct syms as [|s0 symr] eqn:Esyms.
  - (* no pass: cannot happen (fb <= maxbp), but the statement is easy anyway *)
    cbn [map enc_mq_passes].
    destruct (mq_passes_future false cx0 [] [] cx0_ok ltac:(constructor) ltac:(constructor)) as (Hne & dd & Edd & _).
    cbn [enc_mq_passes enc_encode_list] in Hne, Edd. split; [exact Hne|]. exists dd. auto.
  - cbn [map].
    pose proof (Forall_inv Hsy) as Hs0. pose proof (Forall_inv_tail Hsy) as Hsr.
    destruct (mq_passes_future (negb (Z.land style CblkStyleReset =? 0)) cx0 (decs s0) (map decs symr) cx0_ok
                ltac:(rewrite cx0_len; apply sym_mq_decision; exact Hs0)
                ltac:(rewrite cx0_len; apply Forall_map; eapply Forall_impl; [|exact Hsr]; intros l0 Hl0; apply sym_mq_decision; exact Hl0))
      as (Hne & dd & Edd & Hfut).
    split; [exact Hne|]. exists dd. auto.
Qed.

Theorem t1_bytes_roundtrip_single_codeword :
  forall (wn hn : nat) (orient style fb : Z) (data : list Z),
  mq_style style ->
  length data = (wn * hn)%nat -> data_ok data -> 0 <= fb ->
  (forall v, In v data -> exists c, v = c * 2 ^ fb) ->
  t1_roundtrip wn hn orient style fb data = Ok data.
Proof.
  intros wn hn orient style fb data Hs Hlen Hok Hfb Hmul.
  destruct (mq_style_bits style Hs) as (Elazy & Etermall & _).
  apply single_codeword_core; auto.
  intros maxbp pl syms Hge Hchain Hsy.
  apply (enc_bytes_mq style maxbp pl maxbp 2 syms (enc_new_cx cx0) Hs Hchain); auto;
    try apply enc_passes_length; try (apply enc_new_inv; exact cx0_ok); try exact cx0_len.
Qed.

(* the default style *)
Corollary t1_bytes_roundtrip_default : forall (wn hn : nat) (orient fb : Z) (data : list Z),
  length data = (wn * hn)%nat -> data_ok data -> 0 <= fb ->
  (forall v, In v data -> exists c, v = c * 2 ^ fb) ->
  t1_roundtrip wn hn orient 0 fb data = Ok data.
Proof. intros. apply t1_bytes_roundtrip_single_codeword; auto. reflexivity. Qed.

(* ---------- PTERM without LAZY / TERMALL, fractional bits fb >= 1 ----------
   Predictable termination only changes how a TERMINATED pass is flushed (ErtermEnc instead of
   FlushToOutput).  Without LAZY and TERMALL the only terminating pass is the cleanup pass of
   bit-plane 0, which is not coded when fb >= 1 (the top-level encoder's convention is fb = 6):
   the stream then ends with the ordinary Flush and is one MQ codeword. *)
Lemma In_firstn : forall {A} n (l : list A) x, In x (firstn n l) -> In x l.
Proof. intros A n l x H. rewrite <- (firstn_skipn n l). apply in_or_app. left. exact H. Qed.

Lemma pass_list_bp_ge : forall maxbp fb np q, In q (pass_list maxbp fb np) -> fb <= fst q.
Proof.
  intros maxbp fb np q H. unfold pass_list in H. destruct (Z.ltb_spec maxbp fb); [destruct H|].
  apply In_firstn in H. unfold all_passes in H. destruct H as [<-|H]; [cbn; lia|].
  apply in_flat_map in H. destruct H as (i & Hi & Hq). apply in_seq in Hi. cbv zeta in Hq.
  destruct Hq as [<-|[<-|[<-|[]]]]; cbn [fst]; lia.
Qed.

Lemma noterm_term : forall style bp maxbp pt, Z.land style CblkStyleLazy = 0 -> Z.land style CblkStyleTermAll = 0 ->
  1 <= bp -> is_terminating bp maxbp pt style = false.
Proof.
  intros style bp maxbp pt E1 E4 Hbp. unfold is_terminating. rewrite E1, E4.
  replace (bp =? 0) with false by (symmetry; apply Z.eqb_neq; lia). rewrite andb_false_r. reflexivity.
Qed.

Lemma enc_bytes_noterm : forall style maxbp pl syms e,
  Z.land style CblkStyleLazy = 0 -> Z.land style CblkStyleTermAll = 0 ->
  Forall (fun q => 1 <= fst q) pl -> length syms = length pl -> Forall (Forall sym_mq) syms ->
  enc_inv e -> zlen (e_cx e) = 19 ->
  exists e' ps,
    enc_bytes_passes style maxbp pl syms false e = Ok ((e', false), ps) /\ length ps = length pl /\
    enc_flush e' = enc_flush (enc_mq_passes (negb (Z.land style CblkStyleReset =? 0)) e (map decs syms)).
Proof.
  intros style maxbp pl. induction pl as [|[bp pt] r IH]; intros syms e E1 E4 Hbp Hlen Hsy Hinv Hn.
  - destruct syms; [|discriminate]. exists e, []. cbn. auto.
  - destruct syms as [|ss syms']; [discriminate|]. cbn [length] in Hlen.
    pose proof (Forall_inv Hbp) as Hb1. pose proof (Forall_inv_tail Hbp) as Hbp'. cbn [fst] in Hb1.
    pose proof (Forall_inv Hsy) as Hss. pose proof (Forall_inv_tail Hsy) as Hsy'.
    cbn [enc_bytes_passes map enc_mq_passes].
    rewrite (nolazy_raw style bp maxbp pt E1), (noterm_term style bp maxbp pt E1 E4 Hb1). cbv iota.
    rewrite (enc_syms_o_mq ss e Hss Hinv Hn). cbn [obind].
    set (e2 := enc_encode_list e (decs ss)).
    assert (Hinv2 : enc_inv e2) by (apply enc_encode_list_inv; exact Hinv).
    assert (Hn2 : zlen (e_cx e2) = 19) by (unfold e2; rewrite enc_encode_list_cx_len; exact Hn).
    set (reset := negb (Z.land style CblkStyleReset =? 0)).
    change (set3_e (enc_reset_contexts e2)) with (r_e e2).
    destruct (IH syms' (if reset then r_e e2 else e2) E1 E4 Hbp' ltac:(lia) Hsy'
                 (enc_reset_step_inv reset e2 Hinv2) ltac:(rewrite enc_reset_step_len; exact Hn2))
      as (e' & ps & E & Hl & Hb).
    rewrite E. cbn [obind fst snd].
    eexists e', _. split; [reflexivity|]. split; [cbn [length]; rewrite Hl; reflexivity|]. exact Hb.
Qed.

Theorem t1_bytes_roundtrip_single_codeword_fb :
  forall (wn hn : nat) (orient style fb : Z) (data : list Z),
  Z.land style 5 = 0 ->                      (* no LAZY, no TERMALL; PTERM allowed *)
  length data = (wn * hn)%nat -> data_ok data -> 1 <= fb ->
  (forall v, In v data -> exists c, v = c * 2 ^ fb) ->
  t1_roundtrip wn hn orient style fb data = Ok data.
Proof.
  intros wn hn orient style fb data Hs Hlen Hok Hfb Hmul.
  assert (E1 : Z.land style CblkStyleLazy = 0) by (apply (land_sub style 5); [reflexivity|exact Hs]).
  assert (E4 : Z.land style CblkStyleTermAll = 0) by (apply (land_sub style 5); [reflexivity|exact Hs]).
  apply single_codeword_core; auto; try lia.
  intros maxbp pl syms Hge Hchain Hsy.
  destruct (enc_bytes_noterm style maxbp pl syms (enc_new_cx cx0) E1 E4) as (e' & ps & E & Hl & Hb); auto.
  - apply Forall_forall. intros q Hq. apply pass_list_bp_ge in Hq. lia.
  - apply enc_passes_length.
  - apply enc_new_inv. exact cx0_ok.
  - exists e', false, ps. auto.
Qed.
