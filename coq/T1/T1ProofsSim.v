(* Forward simulation between two channels under the same decoder model.  If the decoder run
   over channel 1 succeeds and every request answered by channel 1 is answered identically by
   channel 2 (relation on channel states preserved), then the run over channel 2 succeeds with
   the same flags and data.  Used with channel 1 = the ideal channel (t1_lockstep) and channel
   2 = the real MQ / raw coders (T1Bytes). *)
From V Require Import Common.Base T1.T1Store T1.T1Ctx T1.T1Model.

Definition fsim {A B : Type} (R : A -> B -> Prop) (o1 : outcome A) (o2 : outcome B) : Prop :=
  forall a, o1 = Ok a -> exists b, o2 = Ok b /\ R a b.

Lemma fsim_ok : forall {A B} (R : A -> B -> Prop) a b, R a b -> fsim R (Ok a) (Ok b).
Proof. intros A B R a b H a' E. inversion E; subst. exists b. auto. Qed.

Lemma obind_fsim : forall {A B A' B'} (R : A -> B -> Prop) (R' : A' -> B' -> Prop) o1 o2
    (f : A -> outcome A') (g : B -> outcome B'),
  fsim R o1 o2 -> (forall a b, R a b -> fsim R' (f a) (g b)) -> fsim R' (obind o1 f) (obind o2 g).
Proof.
  intros A B A' B' R R' o1 o2 f g H Hf a' E. destruct o1 as [a| | |]; cbn [obind] in E; try discriminate.
  destruct (H a eq_refl) as (b & -> & Hab). cbn [obind]. exact (Hf a b Hab a' E).
Qed.

Lemma loop_d_fsim : forall {S1 S2} (R : S1 -> S2 -> Prop) n i (f : Z -> S1 -> outcome S1) (g : Z -> S2 -> outcome S2) a b,
  (forall j a b, R a b -> fsim R (f j a) (g j b)) -> R a b -> fsim R (loop_d n i f a) (loop_d n i g b).
Proof.
  intros S1 S2 R n. induction n as [|n IH]; intros i f g a b Hfg Hab; cbn [loop_d]; [apply fsim_ok; exact Hab|].
  apply (obind_fsim R R); [apply Hfg; exact Hab|]. intros a' b' Hab'. apply IH; assumption.
Qed.

Section Two.
Context {C1 C2 : Type} (ask1 : ask_t C1) (ask2 : ask_t C2).

(* the channels answer alike *)
Definition ask_sim (Rc : C1 -> C2 -> Prop) : Prop :=
  forall c1 c2 k ctx, Rc c1 c2 ->
    fsim (fun r1 r2 => snd r1 = snd r2 /\ Rc (fst r1) (fst r2)) (ask1 c1 k ctx) (ask2 c2 k ctx).

Section Rel.
Variable Rc : C1 -> C2 -> Prop.
Hypothesis Hask : ask_sim Rc.

Definition Rst (s1 : dstate * C1) (s2 : dstate * C2) : Prop := fst s1 = fst s2 /\ Rc (snd s1) (snd s2).
Definition Rstp (s1 : (dstate * bool) * C1) (s2 : (dstate * bool) * C2) : Prop :=
  fst s1 = fst s2 /\ Rc (snd s1) (snd s2).

Lemma spp_sample_fsim : forall w orient bp raw oj x y s1 s2, Rst s1 s2 ->
  fsim Rst (dec_spp_sample ask1 w orient bp raw oj x y s1) (dec_spp_sample ask2 w orient bp raw oj x y s2).
Proof.
  intros w orient bp raw oj x y [[F D] c1] [[F2 D2] c2] [HF Hc]. cbn [fst snd] in HF, Hc. inversion HF; subst F2 D2.
  unfold dec_spp_sample.
  destruct (has (fget F (idx_of w x y)) T1Sig); [apply fsim_ok; split; auto|].
  destruct (negb (has (fget F (idx_of w x y)) T1SigNeighbors)); [apply fsim_ok; split; auto|].
  eapply obind_fsim; [destruct raw; apply Hask; exact Hc|].
  intros [ca b] [cb b'] [Eb Hc']. cbn [fst snd] in Eb, Hc'. subst b'.
  destruct (b =? 0); [apply fsim_ok; split; auto|].
  eapply obind_fsim; [destruct raw; apply Hask; exact Hc'|].
  intros [ca2 sb] [cb2 sb'] [Eb2 Hc2]. cbn [fst snd] in Eb2, Hc2. subst sb'.
  apply fsim_ok. split; auto.
Qed.

Lemma mrp_sample_fsim : forall w bp raw oj x y s1 s2, Rst s1 s2 ->
  fsim Rst (dec_mrp_sample ask1 w bp raw oj x y s1) (dec_mrp_sample ask2 w bp raw oj x y s2).
Proof.
  intros w bp raw oj x y [[F D] c1] [[F2 D2] c2] [HF Hc]. cbn [fst snd] in HF, Hc. inversion HF; subst F2 D2.
  unfold dec_mrp_sample.
  destruct (negb (has (fget F (idx_of w x y)) T1Sig) || has (fget F (idx_of w x y)) T1Visit); [apply fsim_ok; split; auto|].
  eapply obind_fsim; [destruct raw; apply Hask; exact Hc|].
  intros [ca b] [cb b'] [Eb Hc']. cbn [fst snd] in Eb, Hc'. subst b'.
  apply fsim_ok. split; auto.
Qed.

Lemma cup_sample_fsim : forall w orient bp oj x y s1 s2, Rstp s1 s2 ->
  fsim Rstp (dec_cup_sample ask1 w orient bp oj x y s1) (dec_cup_sample ask2 w orient bp oj x y s2).
Proof.
  intros w orient bp oj x y [[[F D] p] c1] [[[F2 D2] p2] c2] [HF Hc]. cbn [fst snd] in HF, Hc. inversion HF; subst F2 D2 p2.
  unfold dec_cup_sample.
  destruct (has (fget F (idx_of w x y)) T1Visit || has (fget F (idx_of w x y)) T1Sig); [apply fsim_ok; split; auto|].
  eapply (obind_fsim (fun r1 r2 => snd r1 = snd r2 /\ Rc (fst r1) (fst r2))).
  { destruct p; [apply fsim_ok; split; auto|apply Hask; exact Hc]. }
  intros [ca b] [cb b'] [Eb Hc']. cbn [fst snd] in Eb, Hc'. subst b'.
  destruct (b =? 0); [apply fsim_ok; split; auto|].
  eapply obind_fsim; [apply Hask; exact Hc'|].
  intros [ca2 sb] [cb2 sb'] [Eb2 Hc2]. cbn [fst snd] in Eb2, Hc2. subst sb'.
  apply fsim_ok. split; auto.
Qed.

Lemma drop_partial_fsim : forall (r1 : (dstate * bool) * C1) (r2 : (dstate * bool) * C2), Rstp r1 r2 ->
  fsim Rst (Ok (drop_partial r1)) (Ok (drop_partial r2)).
Proof.
  intros [[[F D] p] c1] [[[F2 D2] p2] c2] [HF Hc]. cbn [fst snd] in HF, Hc. inversion HF; subst.
  apply fsim_ok. split; auto.
Qed.

Lemma cup_col_fsim : forall w h orient bp oj k n x s1 s2, Rst s1 s2 ->
  fsim Rst (dec_cup_col ask1 w h orient bp oj k n x s1) (dec_cup_col ask2 w h orient bp oj k n x s2).
Proof.
  intros w h orient bp oj k n x [[F D] c1] [[F2 D2] c2] [HF Hc]. cbn [fst snd] in HF, Hc. inversion HF; subst F2 D2.
  unfold dec_cup_col.
  destruct ((k + 3 <? h) && rl_ok F w x k).
  - eapply obind_fsim; [apply Hask; exact Hc|].
    intros [c0 rl] [c0' rl'] [E0 Hc0]. cbn [fst snd] in E0, Hc0. subst rl'.
    destruct (rl =? 0); [apply fsim_ok; split; auto|].
    eapply obind_fsim; [apply Hask; exact Hc0|].
    intros [ca b1] [ca' b1'] [E1 Hca]. cbn [fst snd] in E1, Hca. subst b1'.
    eapply obind_fsim; [apply Hask; exact Hca|].
    intros [cb b2] [cb' b2'] [E2 Hcb]. cbn [fst snd] in E2, Hcb. subst b2'.
    eapply (obind_fsim Rstp Rst).
    + apply loop_d_fsim; [intros; apply cup_sample_fsim; assumption|split; auto].
    + intros r1 r2 Hr. apply drop_partial_fsim. exact Hr.
  - eapply (obind_fsim Rstp Rst).
    + apply loop_d_fsim; [intros; apply cup_sample_fsim; assumption|split; auto].
    + intros r1 r2 Hr. apply drop_partial_fsim. exact Hr.
Qed.

Lemma segsym_fsim : forall c1 c2, Rc c1 c2 -> fsim Rc (dec_segsym ask1 c1) (dec_segsym ask2 c2).
Proof.
  intros c1 c2 Hc. unfold dec_segsym.
  eapply obind_fsim; [apply Hask; exact Hc|]. intros [a1 x1] [b1 y1] [_ H1]. cbn [fst snd] in *.
  eapply obind_fsim; [apply Hask; exact H1|]. intros [a2 x2] [b2 y2] [_ H2]. cbn [fst snd] in *.
  eapply obind_fsim; [apply Hask; exact H2|]. intros [a3 x3] [b3 y3] [_ H3]. cbn [fst snd] in *.
  eapply obind_fsim; [apply Hask; exact H3|]. intros [a4 x4] [b4 y4] [_ H4]. cbn [fst snd] in *.
  apply fsim_ok. exact H4.
Qed.

Lemma dec_pass_fsim : forall wn hn orient style bp ptype raw oj s1 s2, Rst s1 s2 ->
  fsim Rst (dec_pass ask1 wn hn orient style bp ptype raw oj s1) (dec_pass ask2 wn hn orient style bp ptype raw oj s2).
Proof.
  intros wn hn orient style bp ptype raw oj s1 s2 Hs. unfold dec_pass.
  destruct (ptype =? 0).
  { apply loop_d_fsim; [|exact Hs]. intros s a b Hab. apply loop_d_fsim; [|exact Hab].
    intros x a' b' Hab'. apply loop_d_fsim; [|exact Hab']. intros dy a'' b'' H''. apply spp_sample_fsim. exact H''. }
  destruct (ptype =? 1).
  { apply loop_d_fsim; [|exact Hs]. intros s a b Hab. apply loop_d_fsim; [|exact Hab].
    intros x a' b' Hab'. apply loop_d_fsim; [|exact Hab']. intros dy a'' b'' H''. apply mrp_sample_fsim. exact H''. }
  eapply (obind_fsim Rst Rst).
  - apply loop_d_fsim; [|exact Hs]. intros s a b Hab. apply loop_d_fsim; [|exact Hab].
    intros x a' b' Hab'. apply cup_col_fsim. exact Hab'.
  - intros [st1 c1] [st2 c2] [HF Hc]. cbn [fst snd] in HF, Hc. subst st2.
    destruct (negb (Z.land style CblkStyleSegsym =? 0)); [|apply fsim_ok; split; auto].
    cbn [snd fst]. eapply obind_fsim; [apply segsym_fsim; exact Hc|].
    intros ca cb Hcab. apply fsim_ok. split; auto.
Qed.

End Rel.

(* The pass loop with hooks.  RA i relates the channels before the pre-hook of pass i, RB i
   inside pass i (preserved by requests). *)
Lemma dec_passes_fsim : forall (RA RB : Z -> C1 -> C2 -> Prop) (pre1 post1 : hook_t C1) (pre2 post2 : hook_t C2)
    wn hn orient style maxbp oj,
  (forall i, ask_sim (RB i)) ->
  forall pl i0 st c1 c2,
  (forall k bp pt, nth_error pl k = Some (bp, pt) -> forall c1 c2, RA (i0 + Z.of_nat k) c1 c2 ->
     fsim (RB (i0 + Z.of_nat k)) (pre1 (i0 + Z.of_nat k) bp pt (is_lazy_raw bp maxbp pt style) c1)
                                 (pre2 (i0 + Z.of_nat k) bp pt (is_lazy_raw bp maxbp pt style) c2)) ->
  (forall k bp pt, nth_error pl k = Some (bp, pt) -> forall c1 c2, RB (i0 + Z.of_nat k) c1 c2 ->
     fsim (RA (i0 + Z.of_nat k + 1)) (post1 (i0 + Z.of_nat k) bp pt (is_lazy_raw bp maxbp pt style) c1)
                                     (post2 (i0 + Z.of_nat k) bp pt (is_lazy_raw bp maxbp pt style) c2)) ->
  RA i0 c1 c2 ->
  fsim (Rst (RA (i0 + Z.of_nat (length pl))))
       (dec_passes ask1 pre1 post1 wn hn orient style maxbp oj pl i0 (st, c1))
       (dec_passes ask2 pre2 post2 wn hn orient style maxbp oj pl i0 (st, c2)).
Proof.
  intros RA RB pre1 post1 pre2 post2 wn hn orient style maxbp oj Hask pl.
  induction pl as [|[bp pt] r IH]; intros i0 st c1 c2 Hpre Hpost Hc.
  - cbn [dec_passes length]. apply fsim_ok. split; [reflexivity|]. cbn [snd]. rewrite Z.add_0_r. exact Hc.
  - destruct st as [F D]. cbn [dec_passes].
    pose proof (Hpre O bp pt eq_refl c1 c2) as Hp0. cbn [Z.of_nat] in Hp0. rewrite Z.add_0_r in Hp0.
    pose proof (Hpost O bp pt eq_refl) as Hq0. cbn [Z.of_nat] in Hq0. rewrite Z.add_0_r in Hq0.
    eapply obind_fsim; [apply Hp0; exact Hc|]. intros ca cb Hcab.
    eapply (obind_fsim (Rst (RB i0))).
    { apply dec_pass_fsim; [apply Hask|split; auto]. }
    intros [sa cxa] [sb cxb] [Hs Hcx]. cbn [fst snd] in Hs, Hcx. subst sb. cbn [snd fst].
    eapply obind_fsim; [apply Hq0; exact Hcx|]. intros cya cyb Hcy.
    replace (i0 + Z.of_nat (length ((bp, pt) :: r))) with (i0 + 1 + Z.of_nat (length r)) by (cbn [length]; lia).
    apply IH.
    + intros k b p Hn c1' c2' Hr. specialize (Hpre (S k) b p Hn c1' c2').
      replace (i0 + Z.of_nat (S k)) with (i0 + 1 + Z.of_nat k) in Hpre by lia. apply Hpre. exact Hr.
    + intros k b p Hn c1' c2' Hr. specialize (Hpost (S k) b p Hn c1' c2').
      replace (i0 + Z.of_nat (S k)) with (i0 + 1 + Z.of_nat k) in Hpost by lia. apply Hpost. exact Hr.
    + exact Hcy.
Qed.

End Two.
