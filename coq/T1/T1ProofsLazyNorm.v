(* LAZY without TERMALL, part 4: normalizePassRates keeps the Rate of every group-ending pass *)
From V Require Import Common.Base MQ.MqModel MQ.MqProofs MQ.MqProofsDec MQ.MqProofsRt MQ.MqProofsRt2 MQ.MqProofsTerm MQ.MqProofsSeg.
From V Require Import T1.T1Store T1.T1Ctx T1.T1CtxProofs T1.T1Model T1.T1Bytes T1.T1ProofsBase
  T1.T1ProofsSeq T1.T1ProofsFinal T1.T1ProofsSim T1.T1ProofsMqRt T1.T1ProofsComp T1.T1ProofsCompThm T1.T1ProofsRestart
  T1.T1ProofsTermEnc T1.T1ProofsTermall T1.T1ProofsPterm T1.T1ProofsLazyEnc T1.T1ProofsLazyTerm.
From V Require Import T1.T1ProofsLazyMq T1.T1ProofsLazyEnc2 T1.T1ProofsLazyLayered.

Lemma norm_body : forall data brev rest L off,
  off <= L -> Forall (fun r => off <= p_rate r) brev -> (off <= 0 \/ znth data (off - 1) 0 <> 255) ->
  exists out L', normalize_rev data (brev ++ rest) L = out ++ normalize_rev data rest L' /\
    length out = length brev /\ off <= L'.
Proof.
  intros data brev. induction brev as [|p brev IH]; intros rest L off HL Hr Hoff.
  - exists [], L. cbn. auto.
  - pose proof (Forall_inv Hr) as Hp. cbv beta in Hp. pose proof (Forall_inv_tail Hr) as Hr'.
    cbn [app normalize_rev]. cbv zeta.
    set (rate1 := if L <? p_rate p then L else p_rate p).
    assert (H1 : off <= rate1) by (unfold rate1; destruct (Z.ltb_spec L (p_rate p)); lia).
    set (ff := (0 <? rate1) && (rate1 <=? zlen data) && (znth data (rate1 - 1) 0 =? 255)).
    assert (H2 : off <= (if ff then rate1 - 1 else rate1)).
    { destruct ff eqn:Eff; [|exact H1]. unfold ff in Eff.
      apply andb_true_iff in Eff. destruct Eff as [Eff E3]. apply andb_true_iff in Eff. destruct Eff as [E1 E2].
      apply Z.ltb_lt in E1. apply Z.eqb_eq in E3.
      destruct (Z.eq_dec rate1 off) as [E|E]; [|lia]. rewrite E in *. destruct Hoff; [lia|contradiction]. }
    destruct (IH rest (if ff then rate1 - 1 else rate1) off H2 Hr' Hoff) as (out & L' & E & Hl & HL').
    eexists (_ :: out), L'. rewrite E. split; [reflexivity|]. split; [cbn [length]; lia|exact HL'].
Qed.

Lemma norm_final : forall data rl rest L endo,
  endo <= L -> endo <= p_rate rl -> (p_rate rl = endo \/ L = endo) ->
  (endo <= 0 \/ znth data (endo - 1) 0 <> 255) ->
  exists rl', normalize_rev data (rl :: rest) L = rl' :: normalize_rev data rest endo /\ p_rate rl' = endo.
Proof.
  intros data rl rest L endo HL Hr Hc Hff. cbn [normalize_rev]. cbv zeta.
  assert (E1 : (if L <? p_rate rl then L else p_rate rl) = endo) by (destruct (Z.ltb_spec L (p_rate rl)); lia).
  rewrite E1.
  assert (Eff : (0 <? endo) && (endo <=? zlen data) && (znth data (endo - 1) 0 =? 255) = false).
  { destruct Hff as [H|H].
    - replace (0 <? endo) with false by (symmetry; apply Z.ltb_ge; lia). reflexivity.
    - replace (znth data (endo - 1) 0 =? 255) with false by (symmetry; apply Z.eqb_neq; exact H). apply andb_false_r. }
  rewrite Eff. eexists. split; [reflexivity|]. reflexivity.
Qed.

Fixpoint rates_shape (off : Z) (gs : list grp) (X : list Z) : Prop :=
  match gs with
  | [] => X = []
  | g :: r => exists br rest, X = br ++ (off + zlen (g_seg g)) :: rest /\ length br = length (g_body g) /\
                rates_shape (off + zlen (g_seg g)) r rest
  end.

Lemma znth_pre_last : forall (pre r : list Z), last pre 0 <> 255 -> zlen pre <= 0 \/ znth (pre ++ r) (zlen pre - 1) 0 <> 255.
Proof.
  intros pre r H. destruct pre as [|x p]; [left; cbn; lia|]. right. rewrite znth_last by discriminate. exact H.
Qed.

Lemma norm_groups : forall style maxbp data gs off pre rest,
  gs_ok style maxbp off gs -> data = pre ++ concat (map g_seg gs) -> zlen pre = off -> last pre 0 <> 255 ->
  exists out L', normalize_rev data (rev (concat (map g_recs gs)) ++ rest) (zlen data) = out ++ normalize_rev data rest L' /\
    rates_shape off gs (map p_rate (rev out)) /\ off <= L' /\ (gs = [] -> L' = zlen data).
Proof.
  intros style maxbp data gs. induction gs as [|g r IH]; intros off pre rest Hgs Hdata Hoff Hlast.
  - exists [], (zlen data). cbn [map concat rev app rates_shape]. split; [reflexivity|]. split; [reflexivity|].
    split; [|reflexivity]. rewrite Hdata. cbn [map concat]. rewrite app_nil_r. lia.
  - cbn [gs_ok] in Hgs. destruct Hgs as (Hg & Hcl & Hgs').
    destruct Hg as (Hlb & Hls & Hraw & Hnt & Hbr & Hlseg & Hsy & Hrl).
    cbn [map concat] in *. unfold g_recs at 1. rewrite !rev_app_distr. cbn [rev app]. rewrite <- app_assoc. cbn [app].
    assert (Hz : zlen (pre ++ g_seg g) = off + zlen (g_seg g)) by (unfold zlen in *; rewrite app_length; lia).
    destruct (IH (off + zlen (g_seg g)) (pre ++ g_seg g) (g_rl g :: rev (g_brecs g) ++ rest) Hgs'
                 ltac:(rewrite <- app_assoc; exact Hdata) Hz (last_app_ne _ _ Hlast Hlseg))
      as (out_r & L1 & E1 & Hshape & HL1 & Hnil).
    rewrite E1.
    assert (Hzs : 0 <= zlen (g_seg g)) by (unfold zlen; lia).
    assert (Hff1 : off + zlen (g_seg g) <= 0 \/ znth data (off + zlen (g_seg g) - 1) 0 <> 255).
    { rewrite <- Hz. rewrite Hdata, app_assoc. apply znth_pre_last. apply last_app_ne; assumption. }
    assert (Hc : p_rate (g_rl g) = off + zlen (g_seg g) \/ L1 = off + zlen (g_seg g)).
    { destruct Hcl as [[_ Hc]|Hc]; [left; exact Hc|right].
      rewrite (Hnil Hc), Hdata, Hc. cbn [map concat]. rewrite app_nil_r. unfold zlen in *. rewrite app_length. lia. }
    destruct (norm_final data (g_rl g) (rev (g_brecs g) ++ rest) L1 _ HL1 Hrl Hc Hff1) as (rl' & E2 & Hrl').
    rewrite E2.
    assert (Hff0 : off <= 0 \/ znth data (off - 1) 0 <> 255).
    { rewrite <- Hoff, Hdata. apply znth_pre_last. exact Hlast. }
    destruct (norm_body data (rev (g_brecs g)) rest (off + zlen (g_seg g)) off ltac:(lia)
                ltac:(apply Forall_rev; exact Hbr) Hff0) as (out_b & L' & E3 & Hlen & HL').
    rewrite E3.
    exists (out_r ++ rl' :: out_b), L'. split; [rewrite <- app_assoc; reflexivity|].
    split; [|split; [exact HL'|discriminate]].
    cbn [rates_shape]. exists (map p_rate (rev out_b)), (map p_rate (rev out_r)).
    split.
    { rewrite rev_app_distr. cbn [rev]. rewrite !map_app. cbn [map]. rewrite Hrl', <- app_assoc. reflexivity. }
    split; [rewrite map_length, rev_length, Hlen, rev_length; exact Hlb|exact Hshape].
Qed.
