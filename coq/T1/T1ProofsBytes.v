(* Byte level: the composition statement (lockstep + MQ round trip + raw-bit round trip =>
   bytes round trip) and BOUNDED instances of it decided by computation through the real
   coder models (MQ.MqModel).  Nothing here is used by t1_lockstep. *)
From V Require Import Common.Base T1.T1Store T1.T1Ctx T1.T1Model T1.T1Bytes T1.T1CtxProofs.

(* The T1 clause of C20 on the model of the code: the block decoder
   (DecodeLayeredWithMode(data, Rate values, maxBitplane, 0, style&4, style&2), default
   reconstruction) applied to the output of the block encoder (EncodeLayered, all 3*planes-2
   passes) returns the block.  fb = SetNMSEDecFractionalBits; coefficients are multiples of 2^fb
   with |v| <= 2^30.
   Status: STATEMENT.  It follows from t1_lockstep / t1_ideal_roundtrip (proved, T1ProofsFinal)
   once the byte transport is shown to be an ideal channel: the MQ decoder returns the decisions
   of every terminated MQ segment (C20_mq_roundtrip with the three termination variants and
   RestartInitEnc), the raw decoder returns the bits of every bypass segment, and the Rate values
   delimit the segments.  Those transport facts belong to the mq area and are not proved here;
   below the statement is decided by computation on bounded domains. *)
Definition t1_roundtrip_statement : Prop :=
  forall (wn hn : nat) (orient style fb : Z) (data : list Z),
    length data = (wn * hn)%nat -> (forall v, In v data -> Z.abs v <= 2 ^ 30) -> 0 <= fb ->
    (forall v, In v data -> exists c, v = c * 2 ^ fb) ->
    t1_roundtrip wn hn orient style fb data = Ok data.

Definition list_eqb (a b : list Z) : bool :=
  (length a =? length b)%nat && forallb (fun p => fst p =? snd p) (combine a b).

Lemma list_eqb_eq : forall a b, list_eqb a b = true -> a = b.
Proof.
  induction a as [|x a IH]; intros [|y b] H; unfold list_eqb in H; cbn in H; try discriminate; try reflexivity.
  apply andb_true_iff in H. destruct H as [Hl H]. apply andb_true_iff in H. destruct H as [Hxy H].
  apply Z.eqb_eq in Hxy. subst y. f_equal. apply IH. unfold list_eqb. rewrite Hl. exact H.
Qed.

Definition rt_ok (wn hn : nat) (orient style fb : Z) (data : list Z) : bool :=
  match t1_roundtrip wn hn orient style fb data with Ok r => list_eqb r data | _ => false end.

Lemma rt_ok_spec : forall wn hn orient style fb data,
  rt_ok wn hn orient style fb data = true -> t1_roundtrip wn hn orient style fb data = Ok data.
Proof.
  intros. unfold rt_ok in H. destruct (t1_roundtrip wn hn orient style fb data); try discriminate.
  apply list_eqb_eq in H. subst. reflexivity.
Qed.

(* ---------- bounded instance 1: every 1x1 block -20..20 (up to 5 bit-planes, so the lazy raw
   passes, their terminations and restarts occur), all 64 styles ---------- *)
Definition vals41 : list Z := map (fun i => i - 20) (zrange 41).

Lemma rt_1x1_all :
  forallb (fun st => forallb (fun v => rt_ok 1 1 0 st 0 [v]) vals41) (zrange 64) = true.
Proof. vm_compute. reflexivity. Qed.

Theorem t1_roundtrip_bounded_1x1 : forall style v, 0 <= style < 64 -> -20 <= v <= 20 ->
  t1_roundtrip 1 1 0 style 0 [v] = Ok [v].
Proof.
  intros style v Hs Hv. apply rt_ok_spec. pose proof rt_1x1_all as H.
  rewrite forallb_forall in H. specialize (H style (zrange_in 64 style Hs)).
  rewrite forallb_forall in H. apply H. unfold vals41. apply in_map_iff.
  exists (v + 20). split; [lia|]. apply zrange_in. lia.
Qed.

(* the same with 6 fractional bits (coefficients c << 6, planes 6 and up coded), four styles *)
Lemma rt_1x1_fb6_all :
  forallb (fun st => forallb (fun v => rt_ok 1 1 0 st 6 [v * 64]) vals41) [0; 1; 5; 63] = true.
Proof. vm_compute. reflexivity. Qed.

Theorem t1_roundtrip_bounded_1x1_fb6 : forall style c, In style [0; 1; 5; 63] -> -20 <= c <= 20 ->
  t1_roundtrip 1 1 0 style 6 [c * 64] = Ok [c * 64].
Proof.
  intros style c Hs Hc. apply rt_ok_spec. pose proof rt_1x1_fb6_all as H.
  rewrite forallb_forall in H. specialize (H style Hs).
  rewrite forallb_forall in H. apply (H c). unfold vals41. apply in_map_iff.
  exists (c + 20). split; [lia|]. apply zrange_in. lia.
Qed.

(* ---------- bounded instance 2: every 2x2 block over {-1,0,1}, 4 orientations, styles 0 and 63 ---------- *)
Definition tern : list Z := [-1; 0; 1].
Definition blocks_2x2 : list (list Z) :=
  flat_map (fun a => flat_map (fun b => flat_map (fun c => map (fun d => [a; b; c; d]) tern) tern) tern) tern.

Lemma rt_2x2_all :
  forallb (fun st => forallb (fun o => forallb (fun blk => rt_ok 2 2 o st 0 blk) blocks_2x2) (zrange 4)) [0; 63] = true.
Proof. vm_compute. reflexivity. Qed.

Theorem t1_roundtrip_bounded_2x2 : forall style orient a b c d, style = 0 \/ style = 63 -> 0 <= orient < 4 ->
  -1 <= a <= 1 -> -1 <= b <= 1 -> -1 <= c <= 1 -> -1 <= d <= 1 ->
  t1_roundtrip 2 2 orient style 0 [a; b; c; d] = Ok [a; b; c; d].
Proof.
  intros style orient a b c d Hs Ho Ha Hb Hc Hd. apply rt_ok_spec. pose proof rt_2x2_all as H.
  rewrite forallb_forall in H. assert (Hin : In style [0; 63]) by (destruct Hs as [->| ->]; cbn; auto).
  specialize (H style Hin).
  rewrite forallb_forall in H. specialize (H orient (zrange_in 4 orient Ho)).
  rewrite forallb_forall in H. apply H. unfold blocks_2x2, tern.
  assert (Ht : forall t, -1 <= t <= 1 -> In t [-1; 0; 1]) by (intros t Ht; cbn; lia).
  apply in_flat_map. exists a. split; [apply Ht; lia|].
  apply in_flat_map. exists b. split; [apply Ht; lia|].
  apply in_flat_map. exists c. split; [apply Ht; lia|].
  apply in_map_iff. exists d. split; [reflexivity|apply Ht; lia].
Qed.

(* ---------- bounded instance 3: one full stripe and a partial one (run-length mode, stripe
   boundary): every 1x5 block over {-2..2} in the LL orientation, styles 0 and 63 ---------- *)
Definition five : list Z := [-2; -1; 0; 1; 2].
Definition blocks_1x5 : list (list Z) :=
  flat_map (fun a => flat_map (fun b => flat_map (fun c => flat_map (fun d => map (fun e => [a; b; c; d; e]) five) five) five) five) five.

Lemma rt_1x5_all :
  forallb (fun st => forallb (fun blk => rt_ok 1 5 0 st 0 blk) blocks_1x5) [0; 63] = true.
Proof. vm_compute. reflexivity. Qed.

Theorem t1_roundtrip_bounded_1x5 : forall style a b c d e, style = 0 \/ style = 63 ->
  -2 <= a <= 2 -> -2 <= b <= 2 -> -2 <= c <= 2 -> -2 <= d <= 2 -> -2 <= e <= 2 ->
  t1_roundtrip 1 5 0 style 0 [a; b; c; d; e] = Ok [a; b; c; d; e].
Proof.
  intros style a b c d e Hs Ha Hb Hc Hd He. apply rt_ok_spec. pose proof rt_1x5_all as H.
  rewrite forallb_forall in H. assert (Hin : In style [0; 63]) by (destruct Hs as [->| ->]; cbn; auto).
  specialize (H style Hin).
  rewrite forallb_forall in H. apply H. unfold blocks_1x5, five.
  assert (Ht : forall t, -2 <= t <= 2 -> In t [-2; -1; 0; 1; 2]) by (intros t Ht; cbn; lia).
  apply in_flat_map. exists a. split; [apply Ht; lia|].
  apply in_flat_map. exists b. split; [apply Ht; lia|].
  apply in_flat_map. exists c. split; [apply Ht; lia|].
  apply in_flat_map. exists d. split; [apply Ht; lia|].
  apply in_map_iff. exists e. split; [reflexivity|apply Ht; lia].
Qed.

(* the historical witness of finding F18 (fixed in /repo b319f17): before the fix the decoder
   returned [18] for the 1x1 block [16] with style 0x01 (bypass without TERMALL) *)
Example t1_roundtrip_F18_witness : t1_roundtrip 1 1 0 1 0 [16] = Ok [16].
Proof. vm_compute. reflexivity. Qed.
