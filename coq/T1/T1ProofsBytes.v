(* Byte level: the composition statement (lockstep + MQ round trip + raw-bit round trip =>
   bytes round trip) and BOUNDED instances of it decided by computation through the real
   coder models (MQ.MqModel).  Nothing here is used by t1_lockstep. *)
From V Require Import Common.Base T1.T1Store T1.T1Ctx T1.T1Model T1.T1Bytes T1.T1CtxProofs.
Require V.MQ.MqModel V.MQ.MqProofs V.MQ.MqProofsRt.

(* The T1 clause of C20 on the model of the code: the block decoder
   (DecodeLayeredWithMode(data, Rate values, maxBitplane, 0, style&4, style&2), default
   reconstruction) applied to the output of the block encoder (EncodeLayered, all 3*planes-2
   passes) returns the block.  fb = SetNMSEDecFractionalBits; coefficients are multiples of 2^fb
   with |v| <= 2^30.
   Status: proved for all 64 style combinations, unbounded in block size, orientation,
   coefficients, fb (T1ProofsCompThm, T1ProofsTermall, T1ProofsPterm, T1ProofsLazyTerm,
   T1ProofsLazy; summary theorems T1ProofsLazy.t1_roundtrip_all / t1_bytes_roundtrip_all_styles /
   t1_bytes_roundtrip_no_pterm):
     - no LAZY, no TERMALL: one MQ codeword (RESET, VSC, SEGSYM, PTERM in any combination);
     - TERMALL, with or without LAZY: one segment per pass, MQ codeword or raw bits;
     - LAZY without TERMALL: the MQ codeword down to bit-plane maxBitplane-3, then raw SPP+MRP
       segments alternating with cleanup codewords (T1ProofsLazyMq .. T1ProofsLazy).
   For the styles with PTERM the theorems carry the hypothesis that EncodeLayered's output is not
   empty (except PTERM alone with fb >= 1): GetBuffer does not count a final byte 0xFF, so a
   codeword closed by ErtermEnc can be empty for all the MQ invariants say, and the decoder
   rejects empty data (no such stream exists among all decision sequences of length <= 6 over the
   T1 start contexts; the harness found none).  The Definition below is the statement WITHOUT
   that hypothesis; it is a theorem for the 32 styles without PTERM.  Below it is also decided by
   computation on bounded domains for all 64 styles. *)
Definition t1_roundtrip_statement : Prop :=
  forall (wn hn : nat) (orient style fb : Z) (data : list Z),
    length data = (wn * hn)%nat -> (forall v, In v data -> Z.abs v <= 2 ^ 30) -> 0 <= fb ->
    (forall v, In v data -> exists c, v = c * 2 ^ fb) ->
    t1_roundtrip wn hn orient style fb data = Ok data.

(* ---------- the two coder facts the PTERM / LAZY styles need ----------
   Both are now theorems of the mq area (MqProofsSeg.mq_erterm_segment_t1, raw_segment_t1); the
   first versions written here were wrong and are refuted there: a codeword closed by ErtermEnc
   CAN be empty as far as GetBuffer is concerned (its last byte 0xFF is not counted; cx = [0],
   l = []), and a bypass segment needs a byte before it in the buffer (bp >= 1). *)
Definition mq_erterm_segment_statement : Prop :=
  forall (cx : list Z) (l : list (Z * Z)),
    Forall MqProofs.cx_ok cx -> Forall (MqProofsRt.decision_ok (zlen cx)) l ->
    let en := MqModel.enc_encode_list (MqModel.enc_new_cx cx) l in
    MqModel.enc_erterm_panics en = false /\
    fst (MqModel.enc_erterm_loop 4 (11 - MqModel.e_ct en + 1) en) <= 0 /\
    exists seg, rev (MqModel.e_pre (MqModel.enc_erterm en)) = 0 :: seg /\ last seg 0 <> 255 /\
      exists dd d', MqModel.dec_new_cx seg cx = Ok dd /\
        MqModel.dec_decode_list dd (map snd l) = Ok (d', map fst l) /\
        MqModel.d_cx d' = MqModel.e_cx en.

Definition raw_segment_statement : Prop :=
  forall (e : MqModel.enc) (bits : list Z) (erterm : bool),
    Forall (fun b => b = 0 \/ b = 1) bits -> MqModel.e_pre e <> [] -> hd 0 (MqModel.e_pre e) <> 255 ->
    let e2 := MqModel.enc_bypass_flush (fold_left MqModel.enc_bypass_encode bits (MqModel.enc_bypass_init e)) erterm in
    exists seg r', MqModel.e_pre e2 = rev seg ++ MqModel.e_pre e /\
      MqModel.raw_decode_n (length bits) (MqModel.raw_new seg) = Ok (r', bits).

(* ---------- truncation (NOT proved; statement only) ----------
   Coding only the first np passes and decoding them with the reported Rate values gives what
   the decoder model returns over the ideal channel, i.e. (t1_lockstep) every coefficient
   truncated to the bit-planes coded for it.  Excluded: a pass count that ends on a
   non-terminated bypass pass - there the encoder closes the bypass segment with the MQ Flush()
   and the statement is FALSE as coded (1x2 block [16,0], style 0x01, 11 of 13 passes -> [16,-1];
   reproduced by the model, outside C20). *)
Definition raw_tail (style maxbp : Z) (pl : list (Z * Z)) : bool :=
  let '(bp, pt) := last pl (0, 2) in
  is_lazy_raw bp maxbp pt style && negb (is_terminating bp maxbp pt style).

Definition t1_truncation_statement : Prop :=
  forall (wn hn : nat) (orient style fb np : Z) (data : list Z),
    length data = (wn * hn)%nat -> (forall v, In v data -> Z.abs v <= 2 ^ 30) -> 0 <= fb -> 1 <= np ->
    let maxbp := find_max_bitplane data in
    fb <= maxbp -> raw_tail style maxbp (pass_list maxbp fb np) = false ->
    obind (enc_layered wn hn orient style fb np data) (fun r =>
      let '((mb, ps), bytes) := r in
      dec_layered wn hn orient style mb false
                  (negb (Z.land style CblkStyleTermAll =? 0)) (negb (Z.land style CblkStyleReset =? 0))
                  bytes (map p_rate ps))
    = obind (dec_ideal wn hn orient style maxbp false (snd (enc_syms wn hn orient style fb np data)))
            (fun r => Ok (get_data wn hn (snd (fst r)))).

Definition list_eqb (a b : list Z) : bool :=
  (length a =? length b)%nat && forallb (fun p => fst p =? snd p) (combine a b).

Lemma list_eqb_eq : forall a b, list_eqb a b = true -> a = b.
Proof.
  induction a as [|x a IH]; intros [|y b] H; unfold list_eqb in H; cbn in H; try discriminate; try reflexivity.
  apply andb_true_iff in H. destruct H as [Hl H]. apply andb_true_iff in H. destruct H as [Hxy H].
  apply Z.eqb_eq in Hxy. subst y. f_equal. apply IH. unfold list_eqb. rewrite Hl. exact H.
Qed.

Definition rt_ok (wn hn : nat) (orient style fb : Z) (data : list Z) : bool :=
  match t1_roundtrip wn hn orient style fb data with Ok r => list_eqb r data | _ => false end.

Lemma rt_ok_spec : forall wn hn orient style fb data,
  rt_ok wn hn orient style fb data = true -> t1_roundtrip wn hn orient style fb data = Ok data.
Proof.
  intros. unfold rt_ok in H. destruct (t1_roundtrip wn hn orient style fb data); try discriminate.
  apply list_eqb_eq in H. subst. reflexivity.
Qed.

(* ---------- bounded instance 1: every 1x1 block -20..20 (up to 5 bit-planes, so the lazy raw
   passes, their terminations and restarts occur), all 64 styles ---------- *)
Definition vals41 : list Z := map (fun i => i - 20) (zrange 41).

Lemma rt_1x1_all :
  forallb (fun st => forallb (fun v => rt_ok 1 1 0 st 0 [v]) vals41) (zrange 64) = true.
Proof. vm_compute. reflexivity. Qed.

Theorem t1_roundtrip_bounded_1x1 : forall style v, 0 <= style < 64 -> -20 <= v <= 20 ->
  t1_roundtrip 1 1 0 style 0 [v] = Ok [v].
Proof.
  intros style v Hs Hv. apply rt_ok_spec. pose proof rt_1x1_all as H.
  rewrite forallb_forall in H. specialize (H style (zrange_in 64 style Hs)).
  rewrite forallb_forall in H. apply H. unfold vals41. apply in_map_iff.
  exists (v + 20). split; [lia|]. apply zrange_in. lia.
Qed.

(* the same with 6 fractional bits (coefficients c << 6, planes 6 and up coded), four styles *)
Lemma rt_1x1_fb6_all :
  forallb (fun st => forallb (fun v => rt_ok 1 1 0 st 6 [v * 64]) vals41) [0; 1; 5; 63] = true.
Proof. vm_compute. reflexivity. Qed.

Theorem t1_roundtrip_bounded_1x1_fb6 : forall style c, In style [0; 1; 5; 63] -> -20 <= c <= 20 ->
  t1_roundtrip 1 1 0 style 6 [c * 64] = Ok [c * 64].
Proof.
  intros style c Hs Hc. apply rt_ok_spec. pose proof rt_1x1_fb6_all as H.
  rewrite forallb_forall in H. specialize (H style Hs).
  rewrite forallb_forall in H. apply (H c). unfold vals41. apply in_map_iff.
  exists (c + 20). split; [lia|]. apply zrange_in. lia.
Qed.

(* ---------- bounded instance 2: every 2x2 block over {-1,0,1}, 4 orientations, styles 0 and 63 ---------- *)
Definition tern : list Z := [-1; 0; 1].
Definition blocks_2x2 : list (list Z) :=
  flat_map (fun a => flat_map (fun b => flat_map (fun c => map (fun d => [a; b; c; d]) tern) tern) tern) tern.

Lemma rt_2x2_all :
  forallb (fun st => forallb (fun o => forallb (fun blk => rt_ok 2 2 o st 0 blk) blocks_2x2) (zrange 4)) [0; 63] = true.
Proof. vm_compute. reflexivity. Qed.

Theorem t1_roundtrip_bounded_2x2 : forall style orient a b c d, style = 0 \/ style = 63 -> 0 <= orient < 4 ->
  -1 <= a <= 1 -> -1 <= b <= 1 -> -1 <= c <= 1 -> -1 <= d <= 1 ->
  t1_roundtrip 2 2 orient style 0 [a; b; c; d] = Ok [a; b; c; d].
Proof.
  intros style orient a b c d Hs Ho Ha Hb Hc Hd. apply rt_ok_spec. pose proof rt_2x2_all as H.
  rewrite forallb_forall in H. assert (Hin : In style [0; 63]) by (destruct Hs as [->| ->]; cbn; auto).
  specialize (H style Hin).
  rewrite forallb_forall in H. specialize (H orient (zrange_in 4 orient Ho)).
  rewrite forallb_forall in H. apply H. unfold blocks_2x2, tern.
  assert (Ht : forall t, -1 <= t <= 1 -> In t [-1; 0; 1]) by (intros t Ht; cbn; lia).
  apply in_flat_map. exists a. split; [apply Ht; lia|].
  apply in_flat_map. exists b. split; [apply Ht; lia|].
  apply in_flat_map. exists c. split; [apply Ht; lia|].
  apply in_map_iff. exists d. split; [reflexivity|apply Ht; lia].
Qed.

(* ---------- bounded instance 3: one full stripe and a partial one (run-length mode, stripe
   boundary): every 1x5 block over {-2..2} in the LL orientation, styles 0 and 63 ---------- *)
Definition five : list Z := [-2; -1; 0; 1; 2].
Definition blocks_1x5 : list (list Z) :=
  flat_map (fun a => flat_map (fun b => flat_map (fun c => flat_map (fun d => map (fun e => [a; b; c; d; e]) five) five) five) five) five.

Lemma rt_1x5_all :
  forallb (fun st => forallb (fun blk => rt_ok 1 5 0 st 0 blk) blocks_1x5) [0; 63] = true.
Proof. vm_compute. reflexivity. Qed.

Theorem t1_roundtrip_bounded_1x5 : forall style a b c d e, style = 0 \/ style = 63 ->
  -2 <= a <= 2 -> -2 <= b <= 2 -> -2 <= c <= 2 -> -2 <= d <= 2 -> -2 <= e <= 2 ->
  t1_roundtrip 1 5 0 style 0 [a; b; c; d; e] = Ok [a; b; c; d; e].
Proof.
  intros style a b c d e Hs Ha Hb Hc Hd He. apply rt_ok_spec. pose proof rt_1x5_all as H.
  rewrite forallb_forall in H. assert (Hin : In style [0; 63]) by (destruct Hs as [->| ->]; cbn; auto).
  specialize (H style Hin).
  rewrite forallb_forall in H. apply H. unfold blocks_1x5, five.
  assert (Ht : forall t, -2 <= t <= 2 -> In t [-2; -1; 0; 1; 2]) by (intros t Ht; cbn; lia).
  apply in_flat_map. exists a. split; [apply Ht; lia|].
  apply in_flat_map. exists b. split; [apply Ht; lia|].
  apply in_flat_map. exists c. split; [apply Ht; lia|].
  apply in_flat_map. exists d. split; [apply Ht; lia|].
  apply in_map_iff. exists e. split; [reflexivity|apply Ht; lia].
Qed.

(* the historical witness of finding F18 (fixed in /repo b319f17): before the fix the decoder
   returned [18] for the 1x1 block [16] with style 0x01 (bypass without TERMALL) *)
Example t1_roundtrip_F18_witness : t1_roundtrip 1 1 0 1 0 [16] = Ok [16].
Proof. vm_compute. reflexivity. Qed.
