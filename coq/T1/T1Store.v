(* EXTRACT *)
(* Integer-indexed store with default 0: the model's representation of the Go slices
   `flags []uint32` / `data []int32` (zero-initialised, read and written at computed indices)
   and of the lookup tables.  A binary trie keyed by the positive i+1, so reads and writes cost
   O(log i) in the extracted model.  A store has no length: the theorems state the index ranges
   (all indices the coders touch lie inside the padded (w+2) x (h+2) arrays). *)
From V Require Import Common.Base.

Inductive tree : Type := Leaf | Node (l : tree) (v : Z) (r : tree).

Fixpoint tget (t : tree) (p : positive) : Z :=
  match t with
  | Leaf => 0
  | Node l v r => match p with xH => v | xO q => tget l q | xI q => tget r q end
  end.

Fixpoint tset (t : tree) (p : positive) (x : Z) : tree :=
  match p with
  | xH => match t with Leaf => Node Leaf x Leaf | Node l _ r => Node l x r end
  | xO q => match t with Leaf => Node (tset Leaf q x) 0 Leaf | Node l v r => Node (tset l q x) v r end
  | xI q => match t with Leaf => Node Leaf 0 (tset Leaf q x) | Node l v r => Node l v (tset r q x) end
  end.

Fixpoint tmap (f : Z -> Z) (t : tree) : tree :=
  match t with Leaf => Leaf | Node l v r => Node (tmap f l) (f v) (tmap f r) end.

Definition key (i : Z) : positive := Z.to_pos (i + 1).
Definition fget (t : tree) (i : Z) : Z := tget t (key i).
Definition fset (t : tree) (i x : Z) : tree := tset t (key i) x.

(* a[i] |= m ; a[i] &^= m *)
Definition orf (t : tree) (i m : Z) : tree := fset t i (Z.lor (fget t i) m).
Definition clrf (t : tree) (i m : Z) : tree := fset t i (Z.ldiff (fget t i) m).

(* store holding l[0], l[1], ... at indices start, start+1, ... *)
Fixpoint tree_of_list_from (l : list Z) (i : Z) (t : tree) : tree :=
  match l with [] => t | x :: r => tree_of_list_from r (i + 1) (fset t i x) end.
Definition tree_of_list (l : list Z) : tree := tree_of_list_from l 0 Leaf.
