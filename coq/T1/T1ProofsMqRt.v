(* One MQ codeword carrying several coding passes, optionally with the context reset of the
   RESET style between passes: the decoder started on the flushed encoder output returns, pass
   after pass, the decisions of every pass.  Built from the joint encoder / decoder simulation
   of the mq area (MqProofsRt2: DS, ECa, joint_decode_list, DS_init, EC_flush); the only new
   ingredient is that resetting the contexts on both sides preserves the simulation. *)
From V Require Import Common.Base MQ.MqModel MQ.MqProofs MQ.MqProofsDec MQ.MqProofsRt MQ.MqProofsRt2 MQ.MqProofsTerm.
Require V.MQ.MqProofsSeg.
From V Require Import T1.T1Store T1.T1Ctx T1.T1Model T1.T1Bytes.

(* ResetContexts + the three SetContextState calls, on either side *)
Definition r_e (e : enc) : enc := set3_e (enc_reset_contexts e).
Definition r_d (d : dec) : dec := set3_d (dec_reset_contexts d).
Definition reset_cx (cx : list Z) : list Z :=
  upd (upd (upd (map (fun _ => 0) cx) CTXUNI (u8 46)) CTXRL (u8 3)) 0 (u8 4).

Definition cxset (e : enc) (cx : list Z) : enc := mkEnc (e_a e) (e_c e) (e_ct e) (e_pre e) (e_post e) cx.

Lemma r_e_cxset : forall e, r_e e = cxset e (reset_cx (e_cx e)).
Proof. reflexivity. Qed.
Lemma r_d_cx : forall d, d_cx (r_d d) = reset_cx (d_cx d).
Proof. reflexivity. Qed.

Lemma Forall_map_const : forall (P : Z -> Prop) (l : list Z) c, P c -> Forall P (map (fun _ => c) l).
Proof. intros P l c H. induction l; cbn [map]; constructor; auto. Qed.

Lemma reset_cx_ok : forall cx, Forall cx_ok (reset_cx cx).
Proof.
  intros cx. unfold reset_cx.
  assert (H46 : cx_ok (u8 46)) by (split; [vm_compute; split; [discriminate|reflexivity]|vm_compute; reflexivity]).
  assert (H3 : cx_ok (u8 3)) by (split; [vm_compute; split; [discriminate|reflexivity]|vm_compute; reflexivity]).
  assert (H4 : cx_ok (u8 4)) by (split; [vm_compute; split; [discriminate|reflexivity]|vm_compute; reflexivity]).
  apply upd_Forall; [|exact H4]. apply upd_Forall; [|exact H3]. apply upd_Forall; [|exact H46].
  apply Forall_map_const. exact cx_ok_0.
Qed.

Lemma reset_cx_length : forall cx, length (reset_cx cx) = length cx.
Proof. intros. unfold reset_cx. rewrite !upd_length, map_length. reflexivity. Qed.

Lemma cxset_inv : forall e cx, enc_inv e -> Forall cx_ok cx -> enc_inv (cxset e cx).
Proof.
  intros e cx [[Ha Hct Hc Hpot Hbuf Hcx] Ha8] Hok. split; [|exact Ha8].
  constructor; cbn [cxset e_a e_c e_ct e_pre e_post e_cx]; assumption.
Qed.

Lemma r_e_inv : forall e, enc_inv e -> enc_inv (r_e e).
Proof. intros e H. rewrite r_e_cxset. apply cxset_inv; [exact H|apply reset_cx_ok]. Qed.

(* the flush does not look at the contexts *)
Lemma enc_byteout_cxset : forall e cx, enc_byteout (cxset e cx) = cxset (enc_byteout e) cx.
Proof.
  intros e cx. unfold enc_byteout, cxset. cbn [e_a e_c e_ct e_pre e_post e_cx].
  destruct (e_post e) as [|x r]; cbn [e_a e_c e_ct e_pre e_post e_cx];
    repeat match goal with |- context [if ?b then _ else _] => destruct b end; reflexivity.
Qed.

Lemma enc_flush_state_cxset : forall e cx, enc_flush_state (cxset e cx) = cxset (enc_flush_state e) cx.
Proof.
  intros e cx. unfold enc_flush_state.
  assert (E1 : enc_shift_ct (enc_setbits (cxset e cx)) = cxset (enc_shift_ct (enc_setbits e)) cx) by reflexivity.
  rewrite E1, enc_byteout_cxset.
  assert (E2 : forall e', enc_shift_ct (cxset e' cx) = cxset (enc_shift_ct e') cx) by reflexivity.
  rewrite E2, enc_byteout_cxset.
  cbn [cxset e_post].
  destruct (e_post (enc_byteout (enc_shift_ct (enc_byteout (enc_shift_ct (enc_setbits e)))))) as [|last rest];
    [reflexivity|].
  destruct (last =? 255); reflexivity.
Qed.

Lemma enc_flush_cxset : forall e cx, enc_flush (cxset e cx) = enc_flush e.
Proof. intros. unfold enc_flush. rewrite enc_flush_state_cxset. reflexivity. Qed.

Lemma enc_flush_r_e : forall e, enc_flush (r_e e) = enc_flush e.
Proof. intros. rewrite r_e_cxset. apply enc_flush_cxset. Qed.

(* ---------- the encoder over several passes ---------- *)
Fixpoint enc_mq_passes (reset : bool) (e : enc) (ps : list (list (Z * Z))) : enc :=
  match ps with
  | [] => e
  | p :: r => let e1 := enc_encode_list e p in enc_mq_passes reset (if reset then r_e e1 else e1) r
  end.

(* what the decoder will return from state d: the decisions of the current pass, then (after
   the context reset when the style asks for it) those of the following passes *)
Fixpoint dec_future (reset : bool) (d : dec) (cur : list (Z * Z)) (rest : list (list (Z * Z))) : Prop :=
  exists d1, dec_decode_list d (map snd cur) = Ok (d1, map fst cur) /\
    match rest with
    | [] => True
    | p :: r => dec_future reset (if reset then r_d d1 else d1) p r
    end.

Lemma dec_decode_list_cons_inv : forall d c t d' b bs,
  dec_decode_list d (c :: t) = Ok (d', b :: bs) ->
  exists d1, dec_decode d c = Ok (d1, b) /\ dec_decode_list d1 t = Ok (d', bs).
Proof.
  intros d c t d' b bs H. cbn [dec_decode_list] in H.
  destruct (dec_decode d c) as [[d1 b1]| | |] eqn:E1; cbn [obind fst snd] in H; try discriminate.
  destruct (dec_decode_list d1 t) as [[d2 bs2]| | |] eqn:E2; cbn [obind fst snd] in H; try discriminate.
  injection H as Ea Eb Ec. subst. exists d1. split; [reflexivity|exact E2].
Qed.

Lemma enc_reset_step_inv : forall (reset : bool) e, enc_inv e -> enc_inv (if reset then r_e e else e).
Proof. intros [|] e H; [apply r_e_inv; exact H|exact H]. Qed.

Lemma enc_reset_step_len : forall (reset : bool) e, zlen (e_cx (if reset then r_e e else e)) = zlen (e_cx e).
Proof.
  intros [|] e; [|reflexivity]. rewrite r_e_cxset. cbn [cxset e_cx]. unfold zlen. rewrite reset_cx_length. reflexivity.
Qed.

Lemma enc_encode_list_cx_len : forall l e, zlen (e_cx (enc_encode_list e l)) = zlen (e_cx e).
Proof.
  induction l as [|[b c] t IH]; intros e; cbn [enc_encode_list]; [reflexivity|].
  rewrite IH. unfold zlen. rewrite enc_encode_cx_length. reflexivity.
Qed.

Lemma enc_mq_passes_inv : forall reset ps e, enc_inv e -> enc_inv (enc_mq_passes reset e ps).
Proof.
  intros reset ps. induction ps as [|p r IH]; intros e H; cbn [enc_mq_passes]; [exact H|].
  apply IH. apply enc_reset_step_inv. apply enc_encode_list_inv. exact H.
Qed.

Section Stream.
Variable d0 : Z.
Variable SS : list Z.
Hypothesis Bbytes : forall i, 0 <= nth i (d0 :: SS) 255 <= 255.
Hypothesis Bnm1 : forall i, (S i < length (d0 :: SS))%nat ->
  nth i (d0 :: SS) 255 = 255 -> nth (S i) (d0 :: SS) 255 <= 143.
Hypothesis Bnm2 : forall i, S i = length (d0 :: SS) -> nth i (d0 :: SS) 255 <> 255.

Lemma ECa_cxset : forall e cx, ECa d0 SS (cxset e cx) <-> ECa d0 SS e.
Proof.
  intros e cx. split; intros [A B C]; constructor; [exact A|exact B|exact C|exact A|exact B|exact C].
Qed.

Lemma ECa_reset_step : forall (reset : bool) e, ECa d0 SS (if reset then r_e e else e) -> ECa d0 SS e.
Proof. intros [|] e H; [|exact H]. rewrite r_e_cxset in H. exact (proj1 (ECa_cxset _ _) H). Qed.

Lemma DS_reset_step : forall (reset : bool) e d k, DS d0 SS e d k ->
  DS d0 SS (if reset then r_e e else e) (if reset then r_d d else d) k.
Proof.
  intros [|] e d k H; [|exact H]. destruct H as [Ha Hcx Hct Hk Hal Hc Hz].
  constructor.
  - exact Ha.
  - rewrite r_d_cx, r_e_cxset. cbn [cxset e_cx]. rewrite Hcx. reflexivity.
  - exact Hct.
  - exact Hk.
  - exact Hal.
  - exact Hc.
  - exact Hz.
Qed.

Lemma ECa_passes_back : forall reset ps e, enc_inv e -> ECa d0 SS (enc_mq_passes reset e ps) -> ECa d0 SS e.
Proof.
  intros reset ps. induction ps as [|p r IH]; intros e Hinv H; cbn [enc_mq_passes] in H; [exact H|].
  apply (ECa_list_back d0 SS Bbytes Bnm1 Bnm2 p e Hinv).
  apply (ECa_reset_step reset). apply IH; [|exact H].
  apply enc_reset_step_inv. apply enc_encode_list_inv. exact Hinv.
Qed.

Lemma joint_passes : forall reset rest cur e d k n,
  enc_inv e -> zlen (e_cx e) = n -> DS d0 SS e d k ->
  ECa d0 SS (enc_mq_passes reset e (cur :: rest)) ->
  Forall (decision_ok n) cur -> Forall (Forall (decision_ok n)) rest ->
  dec_future reset d cur rest.
Proof.
  intros reset rest. induction rest as [|p r IH]; intros cur e d k n Hinv Hn HDS HE Hcur Hrest.
  - cbn [enc_mq_passes] in HE. apply ECa_reset_step in HE.
    destruct (joint_decode_list d0 SS Bbytes Bnm1 Bnm2 cur e d k Hinv HDS HE ltac:(rewrite Hn; exact Hcur))
      as (d1 & k1 & E1 & _).
    cbn [dec_future]. exists d1. split; [exact E1|exact I].
  - change (enc_mq_passes reset e (cur :: p :: r))
      with (enc_mq_passes reset (if reset then r_e (enc_encode_list e cur) else enc_encode_list e cur) (p :: r)) in HE.
    pose proof (enc_encode_list_inv cur e Hinv) as Hinv1.
    pose proof (enc_reset_step_inv reset _ Hinv1) as Hinv2.
    pose proof (ECa_reset_step reset _ (ECa_passes_back reset (p :: r) _ Hinv2 HE)) as HE1.
    destruct (joint_decode_list d0 SS Bbytes Bnm1 Bnm2 cur e d k Hinv HDS HE1 ltac:(rewrite Hn; exact Hcur))
      as (d1 & k1 & E1 & HDS1).
    cbn [dec_future]. exists d1. split; [exact E1|].
    inversion Hrest as [|? ? Hp Hr]; subst.
    apply (IH p (if reset then r_e (enc_encode_list e cur) else enc_encode_list e cur)
              (if reset then r_d d1 else d1) k1 (zlen (e_cx e))); auto.
    + rewrite enc_reset_step_len, enc_encode_list_cx_len. reflexivity.
    + apply DS_reset_step. exact HDS1.
Qed.

(* the completion bounds of a fresh encoder force the dummy byte of the final buffer to be 0:
   no carry ever reaches it *)
Lemma ECa_new_d0 : forall cx, ECa d0 SS (enc_new_cx cx) -> d0 = 0.
Proof.
  intros cx HE0. destruct HE0 as [_ _ [_ HU]]. specialize (HU O).
  unfold encL, enc_new_cx, plen in HU. cbn [e_pre e_post e_ct e_c e_a length hd Tv Wp] in HU.
  change (1 + 0)%nat with 1%nat in HU. cbn [Tv] in HU.
  change (2 ^ (27 - 12)) with 32768 in HU. change 0x8000 with 32768 in HU.
  pose proof (Dbytes d0 SS Bbytes 0) as HB. rewrite Db_0 in *. lia.
Qed.

End Stream.

(* ---------- the theorem ---------- *)
Theorem mq_passes_future : forall (reset : bool) (cx : list Z) (p : list (Z * Z)) (r : list (list (Z * Z))),
  Forall cx_ok cx -> Forall (decision_ok (zlen cx)) p -> Forall (Forall (decision_ok (zlen cx))) r ->
  let bytes := enc_flush (enc_mq_passes reset (enc_new_cx cx) (p :: r)) in
  bytes <> [] /\
  exists dd, dec_new_cx bytes cx = Ok dd /\ dec_future reset dd p r.
Proof.
  intros reset cx p r Hcx Hp Hr bytes.
  set (en := enc_mq_passes reset (enc_new_cx cx) (p :: r)) in *.
  assert (Hinv0 : enc_inv (enc_new_cx cx)) by (apply enc_new_inv; exact Hcx).
  assert (Hinv : enc_inv en) by (apply enc_mq_passes_inv; exact Hinv0).
  destruct (flush_state_spec en Hinv) as (h & P' & EP & HP' & Hh & [Hb Hn]).
  remember (rev (h :: P')) as B eqn:EB.
  assert (HlenB : length B = S (length P')) by (rewrite EB, rev_length; reflexivity).
  destruct B as [|d0 SS]; [simpl in HlenB; lia|].
  assert (HSSne : SS <> []).
  { intro E. rewrite E in HlenB. cbn [length] in HlenB. destruct P'; [congruence|cbn [length] in HlenB; lia]. }
  assert (Hflush : bytes = SS).
  { unfold bytes, enc_flush, enc_get_buffer, enc_bp, zlen. rewrite EP.
    destruct (Z.ltb_spec (Z.of_nat (length (h :: P'))) 1) as [Hx|_]; [simpl length in Hx; lia|].
    rewrite <- EB. reflexivity. }
  assert (H1 : forall i, 0 <= nth i (d0 :: SS) 255 <= 255).
  { intros i. destruct (lt_dec i (length (d0 :: SS))) as [Hi|Hi].
    - assert (HF : Forall is_byteP (d0 :: SS)) by (rewrite EB; apply Forall_rev; exact Hb).
      rewrite Forall_forall in HF. specialize (HF (nth i (d0 :: SS) 255) (nth_In _ _ Hi)).
      unfold is_byteP in HF. lia.
    - rewrite nth_overflow by lia. lia. }
  assert (H2 : forall i, (S i < length (d0 :: SS))%nat ->
                 nth i (d0 :: SS) 255 = 255 -> nth (S i) (d0 :: SS) 255 <= 143).
  { intros i Hi Hx. rewrite EB in *. apply nomark_rev_index; [exact Hn | rewrite rev_length in Hi; exact Hi | exact Hx]. }
  assert (H3 : forall i, S i = length (d0 :: SS) -> nth i (d0 :: SS) 255 <> 255).
  { intros i Hi Hx. rewrite EB in Hx, Hi. rewrite rev_length in Hi.
    rewrite rev_nth in Hx by lia. replace (length (h :: P') - S i)%nat with O in Hx by lia.
    simpl in Hx. contradiction. }
  assert (HE : ECa d0 SS en).
  { apply (EC_flush d0 SS H1 H2 H3 en Hinv). unfold D. rewrite EP, <- EB. reflexivity. }
  rewrite Hflush. split; [exact HSSne|].
  pose proof (ECa_passes_back d0 SS H1 H2 H3 reset (p :: r) _ Hinv0 HE) as HE0.
  destruct (DS_init d0 SS H1 H2 H3 cx HE0) as (dd & Edd & HDS0).
  exists dd. split; [exact Edd|].
  apply (joint_passes d0 SS H1 H2 H3 reset r p (enc_new_cx cx) dd 3%nat (zlen cx)); auto.
Qed.

(* ---------- one segment, with the final contexts and the shape of the encoder buffer ---------- *)
Theorem mq_segment_rt : forall (cx : list Z) (l : list (Z * Z)),
  Forall cx_ok cx -> Forall (decision_ok (zlen cx)) l ->
  let en := enc_encode_list (enc_new_cx cx) l in
  rev (e_pre (enc_flush_state en)) = 0 :: enc_flush en /\ enc_flush en <> [] /\
  exists dd d', dec_new_cx (enc_flush en) cx = Ok dd /\
    dec_decode_list dd (map snd l) = Ok (d', map fst l) /\ d_cx d' = e_cx en.
Proof.
  intros cx l Hcx Hl en.
  assert (Hinv0 : enc_inv (enc_new_cx cx)) by (apply enc_new_inv; exact Hcx).
  assert (Hinv : enc_inv en) by (apply enc_encode_list_inv; exact Hinv0).
  destruct (flush_state_spec en Hinv) as (h & P' & EP & HP' & Hh & [Hb Hn]).
  remember (rev (h :: P')) as B eqn:EB.
  assert (HlenB : length B = S (length P')) by (rewrite EB, rev_length; reflexivity).
  destruct B as [|d0 SS]; [simpl in HlenB; lia|].
  assert (HSSne : SS <> []).
  { intro E. rewrite E in HlenB. cbn [length] in HlenB. destruct P'; [congruence|cbn [length] in HlenB; lia]. }
  assert (Hflush : enc_flush en = SS).
  { unfold enc_flush, enc_get_buffer, enc_bp, zlen. rewrite EP.
    destruct (Z.ltb_spec (Z.of_nat (length (h :: P'))) 1) as [Hx|_]; [simpl length in Hx; lia|].
    rewrite <- EB. reflexivity. }
  assert (H1 : forall i, 0 <= nth i (d0 :: SS) 255 <= 255).
  { intros i. destruct (lt_dec i (length (d0 :: SS))) as [Hi|Hi].
    - assert (HF : Forall is_byteP (d0 :: SS)) by (rewrite EB; apply Forall_rev; exact Hb).
      rewrite Forall_forall in HF. specialize (HF (nth i (d0 :: SS) 255) (nth_In _ _ Hi)).
      unfold is_byteP in HF. lia.
    - rewrite nth_overflow by lia. lia. }
  assert (H2 : forall i, (S i < length (d0 :: SS))%nat ->
                 nth i (d0 :: SS) 255 = 255 -> nth (S i) (d0 :: SS) 255 <= 143).
  { intros i Hi Hx. rewrite EB in *. apply nomark_rev_index; [exact Hn | rewrite rev_length in Hi; exact Hi | exact Hx]. }
  assert (H3 : forall i, S i = length (d0 :: SS) -> nth i (d0 :: SS) 255 <> 255).
  { intros i Hi Hx. rewrite EB in Hx, Hi. rewrite rev_length in Hi.
    rewrite rev_nth in Hx by lia. replace (length (h :: P') - S i)%nat with O in Hx by lia.
    simpl in Hx. contradiction. }
  assert (HE : ECa d0 SS en).
  { apply (EC_flush d0 SS H1 H2 H3 en Hinv). unfold D. rewrite EP, <- EB. reflexivity. }
  pose proof (ECa_list_back d0 SS H1 H2 H3 l _ Hinv0 HE) as HE0.
  pose proof (ECa_new_d0 d0 SS H1 cx HE0) as Hd0. subst d0.
  rewrite Hflush. split; [rewrite EP, <- EB; reflexivity|]. split; [exact HSSne|].
  destruct (DS_init 0 SS H1 H2 H3 cx HE0) as (dd & Edd & HDS0).
  destruct (joint_decode_list 0 SS H1 H2 H3 l _ dd 3%nat Hinv0 HDS0 HE Hl) as (d' & k' & E1 & HDS1).
  exists dd, d'. split; [exact Edd|]. split; [exact E1|]. apply HDS1.
Qed.

(* ---------- the same codeword closed by ErtermEnc (PTERM on the last pass) ---------- *)
Lemma reset_step_fresh : forall (reset : bool) e, MqProofsSeg.fresh_buf e -> MqProofsSeg.fresh_buf (if reset then r_e e else e).
Proof. intros [|] e H; [|exact H]. rewrite r_e_cxset. exact H. Qed.

Lemma enc_mq_passes_fresh : forall reset ps e, MqProofsSeg.fresh_buf e -> MqProofsSeg.fresh_buf (enc_mq_passes reset e ps).
Proof.
  intros reset ps. induction ps as [|p r IH]; intros e H; cbn [enc_mq_passes]; [exact H|].
  apply IH. apply reset_step_fresh. apply MqProofsSeg.encode_list_fresh. exact H.
Qed.

Theorem mq_passes_future_erterm : forall (reset : bool) (cx : list Z) (p : list (Z * Z)) (r : list (list (Z * Z))),
  Forall cx_ok cx -> Forall (decision_ok (zlen cx)) p -> Forall (Forall (decision_ok (zlen cx))) r ->
  let en := enc_mq_passes reset (enc_new_cx cx) (p :: r) in
  let bytes := enc_get_buffer (enc_erterm en) in
  exists dd, dec_new_cx bytes cx = Ok dd /\ dec_future reset dd p r.
Proof.
  intros reset cx p r Hcx Hp Hr en bytes.
  assert (Hinv0 : enc_inv (enc_new_cx cx)) by (apply enc_new_inv; exact Hcx).
  assert (Hinv : enc_inv en) by (apply enc_mq_passes_inv; exact Hinv0).
  destruct (MqProofsSeg.erterm_state_spec en Hinv) as (e1 & last1 & stale & Ee1 & Ht1 & Hpost1 & Hbuf1 & Epre & _).
  destruct (buf_ok_head _ _ Hbuf1) as [Hlb Hlm].
  assert (HP : exists h P', e_pre (enc_erterm en) = h :: P' /\ h <> 255 /\ buf_ok (h :: P')).
  { rewrite Epre. destruct (Z.eqb_spec last1 255) as [E|E].
    - destruct (e_pre e1) as [|x t] eqn:Ex.
      + exfalso.
        assert (E1 : e1 = en).
        { rewrite Ee1. apply MqProofsSeg.erterm_loop_pre_nil. rewrite <- Ee1. exact Ex. }
        assert (Hf : MqProofsSeg.fresh_buf en).
        { apply enc_mq_passes_fresh. unfold MqProofsSeg.fresh_buf, enc_new_cx. reflexivity. }
        rewrite E1 in Ex, Hpost1. rewrite (Hf Ex) in Hpost1. inversion Hpost1. lia.
      + exists x, t. split; [reflexivity|]. split; [|eapply buf_ok_tail; exact Hbuf1].
        intros Hx. cbn [hd] in Hlm. specialize (Hlm Hx). lia.
    - exists last1, (e_pre e1). auto. }
  destruct HP as (h & P' & EP & Hh & [Hb Hn]).
  remember (rev (h :: P')) as B eqn:EB.
  assert (HlenB : length B = S (length P')) by (rewrite EB, rev_length; reflexivity).
  destruct B as [|d0 SS]; [simpl in HlenB; lia|].
  assert (Hbuf : bytes = SS).
  { unfold bytes, enc_get_buffer, enc_bp, zlen. rewrite EP.
    destruct (Z.ltb_spec (Z.of_nat (length (h :: P'))) 1) as [Hx|_]; [simpl length in Hx; lia|].
    rewrite <- EB. reflexivity. }
  assert (H1 : forall i, 0 <= nth i (d0 :: SS) 255 <= 255).
  { intros i. destruct (lt_dec i (length (d0 :: SS))) as [Hi|Hi].
    - assert (HF : Forall is_byteP (d0 :: SS)) by (rewrite EB; apply Forall_rev; exact Hb).
      rewrite Forall_forall in HF. specialize (HF (nth i (d0 :: SS) 255) (nth_In _ _ Hi)).
      unfold is_byteP in HF. lia.
    - rewrite nth_overflow by lia. lia. }
  assert (H2 : forall i, (S i < length (d0 :: SS))%nat ->
                 nth i (d0 :: SS) 255 = 255 -> nth (S i) (d0 :: SS) 255 <= 143).
  { intros i Hi Hx. rewrite EB in *. apply nomark_rev_index; [exact Hn | rewrite rev_length in Hi; exact Hi | exact Hx]. }
  assert (H3 : forall i, S i = length (d0 :: SS) -> nth i (d0 :: SS) 255 <> 255).
  { intros i Hi Hx. rewrite EB in Hx, Hi. rewrite rev_length in Hi.
    rewrite rev_nth in Hx by lia. replace (length (h :: P') - S i)%nat with O in Hx by lia.
    simpl in Hx. contradiction. }
  assert (HE : ECa d0 SS en).
  { apply (MqProofsSeg.EC_erterm d0 SS H1 H2 H3 en Hinv). unfold D. rewrite EP, <- EB. reflexivity. }
  rewrite Hbuf.
  pose proof (ECa_passes_back d0 SS H1 H2 H3 reset (p :: r) _ Hinv0 HE) as HE0.
  destruct (DS_init d0 SS H1 H2 H3 cx HE0) as (dd & Edd & HDS0).
  exists dd. split; [exact Edd|].
  apply (joint_passes d0 SS H1 H2 H3 reset r p (enc_new_cx cx) dd 3%nat (zlen cx)); auto.
Qed.
