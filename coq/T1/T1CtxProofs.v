(* The regenerated context tables of jpeg2000/t1/context.go are the Annex D tables
   (ISO/IEC 15444-1 Tables D.1 - D.4): every entry, re-proved against whatever the translator
   emitted.  Then the Go functions on the flag word = Annex D on the neighbourhood the flag
   word encodes, for every integer flag word. *)
From V Require Import Common.Base T1.T1Store T1.T1Ctx.
Require V.Gen.T1Tables_gen.

Definition zrange (n : nat) : list Z := map Z.of_nat (seq 0 n).

Lemma zrange_in : forall n i, 0 <= i < Z.of_nat n -> In i (zrange n).
Proof.
  intros n i H. unfold zrange. apply in_map_iff. exists (Z.to_nat i). split; [lia|].
  apply in_seq. lia.
Qed.

Lemma lut_lengths :
  length T1Tables_gen.t1_lut_zc = 2048%nat /\ length T1Tables_gen.t1_lut_sc = 256%nat /\
  length T1Tables_gen.t1_lut_spb = 256%nat.
Proof. vm_compute. repeat split. Qed.

(* ---------- Table D.1 ---------- *)
Definition zc_entry_ok (o i : Z) : bool :=
  znth T1Tables_gen.t1_lut_zc (o * 512 + i) 0 =? annexD_zc o (nbhd_of_zc_index i).

Lemma lut_zc_all : forallb (fun o => forallb (zc_entry_ok o) (zrange 512)) (zrange 4) = true.
Proof. vm_compute. reflexivity. Qed.

Theorem lut_zc_matches_annexD : forall o i, 0 <= o < 4 -> 0 <= i < 512 ->
  znth T1Tables_gen.t1_lut_zc (o * 512 + i) 0 = annexD_zc o (nbhd_of_zc_index i).
Proof.
  intros o i Ho Hi. pose proof lut_zc_all as H.
  rewrite forallb_forall in H. specialize (H o (zrange_in 4 o Ho)).
  rewrite forallb_forall in H. specialize (H i (zrange_in 512 i Hi)).
  unfold zc_entry_ok in H. apply Z.eqb_eq in H. exact H.
Qed.

(* ---------- Tables D.2 / D.3 ---------- *)
Definition sc_entry_ok (i : Z) : bool :=
  znth T1Tables_gen.t1_lut_sc i 0 =? annexD_sc (nbhd_of_sc_index i).
Definition spb_entry_ok (i : Z) : bool :=
  znth T1Tables_gen.t1_lut_spb i 0 =? annexD_xor (nbhd_of_sc_index i).

Lemma lut_sc_all : forallb sc_entry_ok (zrange 256) = true.
Proof. vm_compute. reflexivity. Qed.
Lemma lut_spb_all : forallb spb_entry_ok (zrange 256) = true.
Proof. vm_compute. reflexivity. Qed.

Theorem lut_sc_matches_annexD : forall i, 0 <= i < 256 ->
  znth T1Tables_gen.t1_lut_sc i 0 = annexD_sc (nbhd_of_sc_index i).
Proof.
  intros i Hi. pose proof lut_sc_all as H. rewrite forallb_forall in H.
  specialize (H i (zrange_in 256 i Hi)). apply Z.eqb_eq in H. exact H.
Qed.

Theorem lut_spb_matches_annexD : forall i, 0 <= i < 256 ->
  znth T1Tables_gen.t1_lut_spb i 0 = annexD_xor (nbhd_of_sc_index i).
Proof.
  intros i Hi. pose proof lut_spb_all as H. rewrite forallb_forall in H.
  specialize (H i (zrange_in 256 i Hi)). apply Z.eqb_eq in H. exact H.
Qed.

(* ---------- the Go functions on flag words ---------- *)

(* the flag constants are the distinct single bits the layouts assume *)
Lemma flag_constants :
  T1Sig = 1 /\ T1Refine = 2 /\ T1Visit = 4 /\
  T1SigN = 16 /\ T1SigS = 32 /\ T1SigW = 64 /\ T1SigE = 128 /\
  T1SigNW = 256 /\ T1SigNE = 512 /\ T1SigSW = 1024 /\ T1SigSE = 2048 /\
  T1SigNeighbors = 4080 /\ T1Sign = 4096 /\
  T1SignN = 8192 /\ T1SignS = 16384 /\ T1SignW = 32768 /\ T1SignE = 65536 /\
  CTXMRSTART = 14 /\ CTXRL = 17 /\ CTXUNI = 18 /\ NUMCONTEXTS = 19.
Proof. vm_compute. repeat split. Qed.

Lemma zc_index_range : forall f, 0 <= zc_index f < 512.
Proof.
  intros f. unfold zc_index.
  destruct (has f T1SigNW), (has f T1SigN), (has f T1SigNE), (has f T1SigW),
           (has f T1SigE), (has f T1SigSW), (has f T1SigS), (has f T1SigSE); lia.
Qed.

Lemma sc_index_range : forall f, 0 <= sc_index f < 256.
Proof.
  intros f. unfold sc_index.
  destruct (has f T1SigW), (has f T1SignW), (has f T1SigN), (has f T1SignN),
           (has f T1SigE), (has f T1SignE), (has f T1SigS), (has f T1SignS); lia.
Qed.

Lemma annexD_zc_of_index : forall o f,
  annexD_zc o (nbhd_of_zc_index (zc_index f)) = annexD_zc o (nbhd_of_flags f).
Proof.
  intros o f. unfold zc_index, nbhd_of_flags.
  destruct (has f T1SigNW), (has f T1SigN), (has f T1SigNE), (has f T1SigW),
           (has f T1SigE), (has f T1SigSW), (has f T1SigS), (has f T1SigSE);
    reflexivity.
Qed.

(* getZeroCodingContext(flags, orient) = Table D.1 of the neighbourhood in the flag word, for
   every flag word and every orientation 0..3 (other orientations are treated as 0 = LL) *)
Theorem zc_ctx_matches_annexD : forall f o, 0 <= o < 4 ->
  zc_ctx f o = annexD_zc o (nbhd_of_flags f).
Proof.
  intros f o Ho. unfold zc_ctx.
  replace ((o <? 0) || (3 <? o)) with false
    by (symmetry; apply orb_false_iff; split; [apply Z.ltb_ge|apply Z.ltb_ge]; lia).
  rewrite lut_zc_matches_annexD by (try apply zc_index_range; lia).
  apply annexD_zc_of_index.
Qed.

Theorem zc_ctx_bad_orient : forall f o, o < 0 \/ 3 < o -> zc_ctx f o = zc_ctx f 0.
Proof.
  intros f o Ho. unfold zc_ctx.
  replace ((o <? 0) || (3 <? o)) with true.
  - reflexivity.
  - symmetry. apply orb_true_iff. destruct Ho; [left; apply Z.ltb_lt|right; apply Z.ltb_lt]; lia.
Qed.

Lemma annexD_sc_tab_of_index : forall f,
  annexD_sc_tab (annexD_hc (nbhd_of_sc_index (sc_index f))) (annexD_vc (nbhd_of_sc_index (sc_index f))) =
  annexD_sc_tab (annexD_hc (nbhd_of_flags f)) (annexD_vc (nbhd_of_flags f)).
Proof.
  intros f. unfold sc_index, nbhd_of_flags, annexD_hc, annexD_vc.
  destruct (has f T1SigW), (has f T1SignW), (has f T1SigN), (has f T1SignN),
           (has f T1SigE), (has f T1SignE), (has f T1SigS), (has f T1SignS);
    reflexivity.
Qed.

(* getSignCodingContext(flags) = Table D.3 context, getSignPrediction(flags) = Table D.3 XOR bit *)
Theorem sc_ctx_matches_annexD : forall f, sc_ctx f = annexD_sc (nbhd_of_flags f).
Proof.
  intros f. unfold sc_ctx. rewrite lut_sc_matches_annexD by apply sc_index_range.
  unfold annexD_sc. rewrite annexD_sc_tab_of_index. reflexivity.
Qed.

Theorem spb_matches_annexD : forall f, spb f = annexD_xor (nbhd_of_flags f).
Proof.
  intros f. unfold spb. rewrite lut_spb_matches_annexD by apply sc_index_range.
  unfold annexD_xor. rewrite annexD_sc_tab_of_index. reflexivity.
Qed.

Lemma spb_01 : forall f, spb f = 0 \/ spb f = 1.
Proof.
  intros f. rewrite spb_matches_annexD. unfold annexD_xor, annexD_sc_tab.
  destruct (annexD_hc (nbhd_of_flags f) =? 1), (annexD_hc (nbhd_of_flags f) =? 0),
           (annexD_vc (nbhd_of_flags f) =? 1), (annexD_vc (nbhd_of_flags f) =? 0); simpl; auto.
Qed.

(* getMagRefinementContext(flags) = Table D.4; "first refinement" = the refine flag is not yet
   set; the neighbour sum is >= 1 iff one of the 8 neighbour significance bits is set *)
Lemma nb_mask_split : forall f,
  has f T1SigNeighbors =
  (has f T1SigN || has f T1SigS || has f T1SigW || has f T1SigE ||
   has f T1SigNW || has f T1SigNE || has f T1SigSW || has f T1SigSE)%bool.
Proof.
  intros f. unfold has.
  destruct flag_constants as (_ & _ & _ & -> & -> & -> & -> & -> & -> & -> & -> & -> & _).
  (* each single-bit test is a testbit; the mask test is the disjunction *)
  assert (Hbit : forall k, 0 <= k -> (Z.land f (2 ^ k) =? 0) = negb (Z.testbit f k)).
  { intros k Hk. destruct (Z.testbit f k) eqn:E.
    - apply Z.eqb_neq. intro H0.
      assert (Z.testbit (Z.land f (2 ^ k)) k = false) by (rewrite H0; apply Z.bits_0).
      rewrite Z.land_spec, E, Z.pow2_bits_true in H by lia. discriminate.
    - apply Z.eqb_eq. apply Z.bits_inj'. intros n Hn. rewrite Z.land_spec, Z.bits_0.
      destruct (Z.eq_dec n k) as [->|Hne].
      + rewrite E. reflexivity.
      + rewrite Z.pow2_bits_false by lia. apply andb_false_r. }
  change 16 with (2 ^ 4). change 32 with (2 ^ 5). change 64 with (2 ^ 6). change 128 with (2 ^ 7).
  change 256 with (2 ^ 8). change 512 with (2 ^ 9). change 1024 with (2 ^ 10). change 2048 with (2 ^ 11).
  rewrite !Hbit by lia. rewrite !negb_involutive.
  destruct (Z.land f 4080 =? 0) eqn:E.
  - apply Z.eqb_eq in E.
    assert (Hz : forall k, 4 <= k <= 11 -> Z.testbit f k = false).
    { intros k Hk.
      assert (Hk' : Z.testbit (Z.land f 4080) k = false) by (rewrite E; apply Z.bits_0).
      rewrite Z.land_spec in Hk'.
      assert (Z.testbit 4080 k = true).
      { assert (k = 4 \/ k = 5 \/ k = 6 \/ k = 7 \/ k = 8 \/ k = 9 \/ k = 10 \/ k = 11) as Hc by lia.
        destruct Hc as [->|[->|[->|[->|[->|[->|[->| ->]]]]]]]; reflexivity. }
      rewrite H, andb_true_r in Hk'. exact Hk'. }
    rewrite !Hz by lia. reflexivity.
  - apply Z.eqb_neq in E. cbn [negb].
    destruct (Z.testbit f 4) eqn:E4; [reflexivity|]. destruct (Z.testbit f 5) eqn:E5; [reflexivity|].
    destruct (Z.testbit f 6) eqn:E6; [reflexivity|]. destruct (Z.testbit f 7) eqn:E7; [reflexivity|].
    destruct (Z.testbit f 8) eqn:E8; [reflexivity|]. destruct (Z.testbit f 9) eqn:E9; [reflexivity|].
    destruct (Z.testbit f 10) eqn:E10; [reflexivity|]. destruct (Z.testbit f 11) eqn:E11; [reflexivity|].
    exfalso. apply E. apply Z.bits_inj'. intros n Hn. rewrite Z.land_spec, Z.bits_0.
    destruct (Z_lt_le_dec n 4).
    { assert (n = 0 \/ n = 1 \/ n = 2 \/ n = 3) as Hc by lia.
      destruct Hc as [->|[->|[->| ->]]]; apply andb_false_r. }
    destruct (Z_lt_le_dec 11 n).
    { replace (Z.testbit 4080 n) with false; [apply andb_false_r|].
      symmetry. apply Z.bits_above_log2; [lia|]. change (Z.log2 4080) with 11. lia. }
    assert (n = 4 \/ n = 5 \/ n = 6 \/ n = 7 \/ n = 8 \/ n = 9 \/ n = 10 \/ n = 11) as Hc by lia.
    destruct Hc as [->|[->|[->|[->|[->|[->|[->| ->]]]]]]];
      rewrite ?E4, ?E5, ?E6, ?E7, ?E8, ?E9, ?E10, ?E11; reflexivity.
Qed.

Theorem mr_ctx_matches_annexD : forall f,
  mr_ctx f = annexD_mr (negb (has f T1Refine)) (nbhd_of_flags f).
Proof.
  intros f. unfold mr_ctx, annexD_mr. rewrite negb_involutive.
  destruct (has f T1Refine); [reflexivity|]. cbn [negb].
  rewrite nb_mask_split. unfold nbhd_of_flags, sum_h, sum_v, sum_d. cbn [nb_n nb_s nb_w nb_e nb_nw nb_ne nb_sw nb_se].
  destruct (has f T1SigN), (has f T1SigS), (has f T1SigW), (has f T1SigE),
           (has f T1SigNW), (has f T1SigNE), (has f T1SigSW), (has f T1SigSE); reflexivity.
Qed.

(* ---------- the trie lookups used by the executable model = the list lookups ---------- *)
Lemma lut_trees_all :
  forallb (fun i => fget lut_zc_tree i =? znth T1Tables_gen.t1_lut_zc i 0) (zrange 2048) = true /\
  forallb (fun i => fget lut_sc_tree i =? znth T1Tables_gen.t1_lut_sc i 0) (zrange 256) = true /\
  forallb (fun i => fget lut_spb_tree i =? znth T1Tables_gen.t1_lut_spb i 0) (zrange 256) = true.
Proof. vm_compute. repeat split. Qed.

Theorem zc_ctx_t_eq : forall f o, zc_ctx_t f o = zc_ctx f o.
Proof.
  intros f o. unfold zc_ctx_t, zc_ctx.
  destruct lut_trees_all as (H & _ & _). rewrite forallb_forall in H.
  pose proof (zc_index_range f) as Hr.
  set (o' := if (o <? 0) || (3 <? o) then 0 else o).
  assert (Ho : 0 <= o' < 4).
  { unfold o'. destruct (Z.ltb_spec o 0); cbn [orb]; [lia|]. destruct (Z.ltb_spec 3 o); lia. }
  apply Z.eqb_eq. apply H. apply zrange_in. lia.
Qed.

Theorem sc_ctx_t_eq : forall f, sc_ctx_t f = sc_ctx f.
Proof.
  intros f. unfold sc_ctx_t, sc_ctx. destruct lut_trees_all as (_ & H & _).
  rewrite forallb_forall in H. apply Z.eqb_eq. apply H. apply zrange_in.
  pose proof (sc_index_range f). lia.
Qed.

Theorem spb_t_eq : forall f, spb_t f = spb f.
Proof.
  intros f. unfold spb_t, spb. destruct lut_trees_all as (_ & _ & H).
  rewrite forallb_forall in H. apply Z.eqb_eq. apply H. apply zrange_in.
  pose proof (sc_index_range f). lia.
Qed.

(* ---------- the context functions the executable model calls = Annex D ---------- *)
Theorem model_zc_is_annexD : forall f o, 0 <= o < 4 -> zc_ctx_t f o = annexD_zc o (nbhd_of_flags f).
Proof. intros. rewrite zc_ctx_t_eq. apply zc_ctx_matches_annexD. assumption. Qed.

Theorem model_sc_is_annexD : forall f, sc_ctx_t f = annexD_sc (nbhd_of_flags f).
Proof. intros. rewrite sc_ctx_t_eq. apply sc_ctx_matches_annexD. Qed.

Theorem model_spb_is_annexD : forall f, spb_t f = annexD_xor (nbhd_of_flags f).
Proof. intros. rewrite spb_t_eq. apply spb_matches_annexD. Qed.
