(* Corollaries of t1_lockstep: all passes coded => the decoder model over the ideal channel
   returns the coefficient block (list level), and the bounded exhaustive cross-check. *)
From V Require Import Common.Base T1.T1Store T1.T1Ctx T1.T1Model T1.T1ProofsBase T1.T1ProofsSample
  T1.T1ProofsPass T1.T1ProofsSeq.

(* ---------- the last pass of a complete pass list is the cleanup of plane fb ---------- *)
Lemma length_flat_map_const : forall {A B} (f : A -> list B) k l,
  (forall a, length (f a) = k) -> length (flat_map f l) = (k * length l)%nat.
Proof.
  intros A B f k l Hk. induction l as [|a l IH]; cbn [flat_map length]; [lia|].
  rewrite app_length, Hk, IH. lia.
Qed.

Lemma all_passes_length : forall maxbp low, length (all_passes maxbp low) = (1 + 3 * Z.to_nat (maxbp - low))%nat.
Proof.
  intros. unfold all_passes. cbn [length].
  rewrite (length_flat_map_const _ 3%nat) by (intros; reflexivity). rewrite seq_length. lia.
Qed.

Lemma last_app3 : forall {A} (l : list A) a b c d, last (l ++ [a; b; c]) d = c.
Proof.
  intros. change [a; b; c] with ([a; b] ++ [c]). rewrite app_assoc. apply last_last.
Qed.

Lemma all_passes_last : forall maxbp low, low <= maxbp -> last (all_passes maxbp low) (0, 0) = (low, 2).
Proof.
  intros maxbp low Hl. unfold all_passes.
  destruct (Z.to_nat (maxbp - low)) as [|m] eqn:En.
  - cbn [seq flat_map last]. f_equal. lia.
  - rewrite seq_S, flat_map_app. cbn [flat_map]. cbv zeta. rewrite app_nil_r.
    rewrite app_comm_cons. rewrite last_app3. f_equal. cbn [plus]. lia.
Qed.

Lemma pass_list_complete : forall maxbp fb np, fb <= maxbp -> 3 * (maxbp - fb + 1) - 2 <= np ->
  pass_list maxbp fb np = all_passes maxbp fb.
Proof.
  intros maxbp fb np Hl Hnp. unfold pass_list. destruct (Z.ltb_spec maxbp fb); [lia|].
  apply firstn_all2. rewrite all_passes_length. lia.
Qed.

(* ---------- truncation is the identity on multiples of 2^fb ---------- *)
Lemma trunc_multiple : forall c fb, 0 <= fb -> trunc (c * 2 ^ fb) fb = c * 2 ^ fb.
Proof.
  intros c fb Hfb. unfold trunc, tmag.
  assert (Hp : 0 < 2 ^ fb) by (apply Z.pow_pos_nonneg; lia).
  rewrite Z.abs_mul, (Z.abs_eq (2 ^ fb)) by lia.
  rewrite Z.shiftr_div_pow2, Z.shiftl_mul_pow2 by lia.
  rewrite Z.div_mul by lia. rewrite Z.sgn_mul, (Z.sgn_pos (2 ^ fb)) by lia.
  rewrite Z.mul_1_r. rewrite Z.mul_assoc. rewrite (Z.mul_comm (Z.sgn c)). rewrite Z.abs_sgn. reflexivity.
Qed.

(* ---------- GetData ---------- *)
Lemma map_seq_nth : forall (l : list Z) n (f : nat -> Z), length l = n ->
  (forall i, (i < n)%nat -> f i = nth i l 0) -> map f (seq 0 n) = l.
Proof.
  intros l n f Hlen Hf. apply (nth_ext _ _ 0 0).
  - rewrite map_length, seq_length. lia.
  - intros i Hi. rewrite map_length, seq_length in Hi.
    rewrite (nth_indep _ 0 (f 0%nat)) by (rewrite map_length, seq_length; exact Hi).
    rewrite map_nth. rewrite seq_nth by exact Hi. cbn [plus]. apply Hf. exact Hi.
Qed.

Lemma rows_eq : forall wn hn y0 (g : nat -> nat -> Z) (data : list Z), length data = (wn * hn)%nat ->
  (forall x y, (x < wn)%nat -> (y < hn)%nat -> g x (y0 + y)%nat = nth (y * wn + x) data 0) ->
  flat_map (fun y => map (fun x => g x y) (seq 0 wn)) (seq y0 hn) = data.
Proof.
  intros wn hn. induction hn as [|hn IH]; intros y0 g data Hlen Hg.
  - cbn [seq flat_map]. destruct data; [reflexivity|]. cbn [length] in Hlen. lia.
  - cbn [seq flat_map]. rewrite <- (firstn_skipn wn data) at 1. f_equal.
    + apply map_seq_nth.
      * rewrite firstn_length. lia.
      * intros i Hi. rewrite nth_firstn_lt by exact Hi.
        specialize (Hg i 0%nat Hi ltac:(lia)). rewrite Nat.add_0_r in Hg. exact Hg.
    + apply IH.
      * rewrite skipn_length. lia.
      * intros x y Hx Hy. rewrite nth_skipn_add.
        replace (S y0 + y)%nat with (y0 + S y)%nat by lia. rewrite Hg by lia. f_equal. lia.
Qed.

Lemma get_data_eq : forall wn hn D (data : list Z), length data = (wn * hn)%nat ->
  (forall x y, 0 <= x < Z.of_nat wn -> 0 <= y < Z.of_nat hn ->
     fget D (idx_of (Z.of_nat wn) x y) = nth (Z.to_nat (y * Z.of_nat wn + x)) data 0) ->
  get_data wn hn D = data.
Proof.
  intros wn hn D data Hlen H. unfold get_data.
  apply (rows_eq wn hn 0 (fun x y => fget D (idx_of (Z.of_nat wn) (Z.of_nat x) (Z.of_nat y))) data Hlen).
  intros x y Hx Hy. cbn [plus]. rewrite H by lia. f_equal. lia.
Qed.

(* ---------- all passes coded ---------- *)
Theorem t1_lockstep_all_passes : forall (wn hn : nat) (orient style fb np : Z) (data : list Z),
  length data = (wn * hn)%nat -> data_ok data -> 0 <= fb ->
  let maxbp := find_max_bitplane data in
  3 * (maxbp - fb + 1) - 2 <= np ->
  let syms := snd (enc_syms wn hn orient style fb np data) in
  exists st,
    dec_ideal wn hn orient style maxbp false syms = Ok (st, ([], [])) /\
    forall x y, 0 <= x < Z.of_nat wn -> 0 <= y < Z.of_nat hn ->
      fget (snd st) (idx_of (Z.of_nat wn) x y) =
      if maxbp <? fb then 0 else trunc (nth (Z.to_nat (y * Z.of_nat wn + x)) data 0) fb.
Proof.
  intros wn hn orient style fb np data Hlen Hok Hfb maxbp Hnp syms.
  destruct (t1_lockstep wn hn orient style fb np data Hlen Hok Hfb) as (D' & Ed & Hd).
  fold maxbp in Ed, Hd. fold syms in Ed.
  eexists. split; [exact Ed|]. cbn [snd]. intros x y Hx Hy. rewrite (Hd x y Hx Hy).
  destruct (Z.ltb_spec maxbp fb) as [Hlt|Hge].
  - unfold pass_list. destruct (Z.ltb_spec maxbp fb); [reflexivity|lia].
  - rewrite pass_list_complete by lia.
    pose proof (all_passes_last maxbp fb Hge) as Hlast.
    unfold all_passes at 1. rewrite Hlast. unfold plane_after. change (2 =? 0) with false. change (2 =? 1) with false.
    reflexivity.
Qed.

(* The decoder model fed, over the ideal channel, the symbols of the encoder model for ALL
   3*planes-2 passes returns the block given to the encoder: for every block size, every integer
   orientation and style word (so all 64 style combinations), fractional bits fb >= 0, and
   coefficients that are multiples of 2^fb with magnitude below 2^31 (fb = 0: any coefficients). *)
Theorem t1_ideal_roundtrip : forall (wn hn : nat) (orient style fb np : Z) (data : list Z),
  length data = (wn * hn)%nat -> data_ok data -> 0 <= fb ->
  (forall v, In v data -> exists c, v = c * 2 ^ fb) ->
  let maxbp := find_max_bitplane data in
  3 * (maxbp - fb + 1) - 2 <= np ->
  exists st,
    dec_ideal wn hn orient style maxbp false (snd (enc_syms wn hn orient style fb np data)) = Ok (st, ([], [])) /\
    get_data wn hn (snd st) = data.
Proof.
  intros wn hn orient style fb np data Hlen Hok Hfb Hmul maxbp Hnp.
  destruct (t1_lockstep_all_passes wn hn orient style fb np data Hlen Hok Hfb Hnp) as (st & Ed & Hd).
  exists st. split; [exact Ed|]. apply get_data_eq; [exact Hlen|].
  intros x y Hx Hy. rewrite (Hd x y Hx Hy).
  assert (Hin : In (nth (Z.to_nat (y * Z.of_nat wn + x)) data 0) data) by (apply nth_In; rewrite Hlen; nia).
  destruct (Hmul _ Hin) as [c Hc].
  destruct (Z.ltb_spec (find_max_bitplane data) fb) as [Hlt|Hge].
  - (* no plane at or above fb: a multiple of 2^fb below 2^fb is 0 *)
    destruct (find_max_bitplane_spec data Hok) as [[_ Hz]|[Hmb Hhigh]].
    + symmetry. apply Hz. exact Hin.
    + specialize (Hhigh _ Hin). rewrite Hc in *.
      assert (Hp : 0 < 2 ^ fb) by (apply Z.pow_pos_nonneg; lia).
      rewrite Z.shiftr_div_pow2 in Hhigh by lia.
      assert (Hlt2 : Z.abs (c * 2 ^ fb) < 2 ^ (find_max_bitplane data + 1)).
      { apply Z.div_small_iff in Hhigh; [|apply Z.pow_nonzero; lia]. destruct Hhigh; [lia|].
        assert (0 < 2 ^ (find_max_bitplane data + 1)) by (apply Z.pow_pos_nonneg; lia). lia. }
      assert (2 ^ (find_max_bitplane data + 1) <= 2 ^ fb) by (apply Z.pow_le_mono_r; lia).
      rewrite Z.abs_mul, (Z.abs_eq (2 ^ fb)) in Hlt2 by lia.
      assert (Z.abs c = 0) by nia. assert (c = 0) by lia. subst c. reflexivity.
  - rewrite Hc. apply trunc_multiple. exact Hfb.
Qed.
