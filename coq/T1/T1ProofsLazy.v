(* LAZY (selective arithmetic bypass) without TERMALL: byte-level round trip, and with it the
   byte-level round trip for all 64 code-block style combinations *)
From V Require Import Common.Base MQ.MqModel MQ.MqProofs MQ.MqProofsDec MQ.MqProofsRt MQ.MqProofsRt2 MQ.MqProofsTerm MQ.MqProofsSeg.
From V Require Import T1.T1Store T1.T1Ctx T1.T1CtxProofs T1.T1Model T1.T1Bytes T1.T1ProofsBase
  T1.T1ProofsSeq T1.T1ProofsFinal T1.T1ProofsSim T1.T1ProofsMqRt T1.T1ProofsComp T1.T1ProofsCompThm T1.T1ProofsRestart
  T1.T1ProofsTermEnc T1.T1ProofsTermall T1.T1ProofsPterm T1.T1ProofsLazyEnc T1.T1ProofsLazyTerm.
From V Require Import T1.T1ProofsLazyMq T1.T1ProofsLazyEnc2 T1.T1ProofsLazyLayered T1.T1ProofsLazyNorm T1.T1ProofsLazyDec.

Lemma gs_recs_length : forall style maxbp gs off, gs_ok style maxbp off gs ->
  length (concat (map g_recs gs)) = length (concat (map g_pl gs)).
Proof.
  intros style maxbp gs. induction gs as [|g r IH]; intros off H; [reflexivity|].
  cbn [gs_ok] in H. destruct H as ((Hlb & _) & _ & H'). cbn [map concat]. rewrite !app_length, (IH _ H').
  unfold g_recs, g_pl. rewrite !app_length, Hlb. reflexivity.
Qed.

Lemma dec_layered_seg : forall wn hn orient style maxbp oj useT lossless D PL, D <> [] -> PL <> [] ->
  negb (Z.land style CblkStyleLazy =? 0) = true ->
  dec_layered wn hn orient style maxbp oj useT lossless D PL =
  obind (dec_passes seg_ask (seg_pre style maxbp useT (lossless || negb (Z.land style CblkStyleReset =? 0)) D PL)
                    (seg_post (lossless || negb (Z.land style CblkStyleReset =? 0)))
                    wn hn orient style maxbp oj (pass_list maxbp 0 (zlen PL)) 0
                    ((Leaf, Leaf), mkSeg CoNone [] 0 0 0 true false)) (fun r => Ok (get_data wn hn (snd (fst r)))).
Proof.
  intros wn hn orient style maxbp oj useT lossless D PL HD HP Hl. unfold dec_layered.
  destruct D; [congruence|]. destruct PL; [congruence|]. rewrite Hl. cbn [negb]. rewrite andb_false_r. reflexivity.
Qed.

Theorem t1_bytes_roundtrip_lazy_gen :
  forall (wn hn : nat) (orient style fb : Z) (data : list Z),
  Z.land style CblkStyleLazy <> 0 -> Z.land style CblkStyleTermAll = 0 ->
  length data = (wn * hn)%nat -> data_ok data -> 0 <= fb ->
  (forall v, In v data -> exists c, v = c * 2 ^ fb) ->
  (forall mb ps bytes,
     enc_layered wn hn orient style fb (3 * (find_max_bitplane data - fb + 1) - 2) data = Ok (mb, ps, bytes) ->
     ps <> [] -> bytes <> []) ->
  t1_roundtrip wn hn orient style fb data = Ok data.
Proof.
  intros wn hn orient style fb data Hlazy Hnt Hlen Hok Hfb Hmul Hout.
  unfold t1_roundtrip.
  set (maxbp := find_max_bitplane data) in *.
  set (NP := 3 * (maxbp - fb + 1) - 2) in *.
  destruct (Z.ltb_spec maxbp fb) as [Hlt|Hge].
  - unfold enc_layered, enc_syms. fold maxbp. destruct (Z.ltb_spec maxbp fb); [|lia].
    cbn [obind]. f_equal.
    pose proof (all_zero_below data fb Hok Hfb Hmul Hlt) as Hz.
    clear - Hz. induction data as [|a l IH]; [reflexivity|]. cbn [map].
    rewrite (Hz a (or_introl eq_refl)). f_equal. apply IH. intros v Hv. apply Hz. right. exact Hv.
  - set (V := pad_data wn hn data).
    set (pl := pass_list maxbp fb NP).
    set (syms := enc_passes wn hn orient style maxbp V pl true Leaf).
    set (reset := negb (Z.land style CblkStyleReset =? 0)).
    pose proof (find_max_bitplane_spec data Hok) as Hspec. cbv zeta in Hspec. fold maxbp in Hspec.
    destruct Hspec as [[Hm1 _]|[Hmb _]]; [lia|].
    assert (Hchain : chain maxbp 2 pl).
    { unfold pl, pass_list. destruct (Z.ltb_spec maxbp fb); [exact I|]. apply chain_firstn. apply chain_all_passes; lia. }
    assert (Hpl1 : pl <> []).
    { unfold pl, pass_list. destruct (Z.ltb_spec maxbp fb); [lia|]. unfold all_passes.
      replace (Z.to_nat NP) with (S (Z.to_nat (NP - 1))) by (unfold NP; lia). cbn [firstn]. discriminate. }
    destruct (enc_layered_lazy wn hn orient style fb data Hlazy Hnt Hok Hge Hfb)
      as (gs & bytes & Eenc & Ebytes & Esyms & Epl & Hrel & Hgs & (g0 & gr & Egs & Hg0) & _).
    fold maxbp NP V pl syms in Eenc, Esyms, Epl, Hrel, Hgs.
    destruct (norm_groups style maxbp bytes gs 0 [] [] Hgs Ebytes eq_refl ltac:(cbn; lia))
      as (out & L' & Enorm & Hshape & _ & _).
    rewrite app_nil_r in Enorm. cbn [normalize_rev] in Enorm. rewrite app_nil_r in Enorm.
    assert (Hpslen : length (rev out) = length pl).
    { rewrite rev_length. rewrite <- Enorm, normalize_rev_length, rev_length, (gs_recs_length _ _ _ _ Hgs), <- Epl. reflexivity. }
    pose proof Enorm as Enorm0.
    rewrite Enorm in Eenc. clear Enorm0.
    remember (rev out) as ps eqn:Eps.
    assert (Hps1 : ps <> []).
    { intros Habs. rewrite Habs in Hpslen. destruct pl; [congruence|discriminate]. }
    pose proof (Hout _ _ _ Eenc Hps1) as HDne.
    rewrite Eenc. cbn [obind].
    assert (Hsl : length syms = length pl) by apply enc_passes_length.
    destruct (t1_ideal_roundtrip wn hn orient style fb NP data Hlen Hok Hfb Hmul ltac:(fold maxbp; unfold NP; lia))
      as (st & Eid & Hdata).
    change (snd (enc_syms wn hn orient style fb NP data)) with syms in Eid.
    change (find_max_bitplane data) with maxbp in Eid.
    unfold dec_ideal in Eid.
    assert (El : zlen syms = zlen pl) by (unfold zlen; rewrite Hsl; reflexivity).
    assert (Epl0 : pass_list maxbp 0 (zlen pl) = pl) by (unfold pl; apply pass_list_dec; exact Hfb).
    rewrite El, Epl0 in Eid.
    assert (Enp : zlen (map p_rate ps) = zlen pl).
    { unfold zlen. rewrite map_length, Hpslen. reflexivity. }
    destruct ps as [|p0 psr]; [congruence|]. cbv iota.
    remember (map p_rate (p0 :: psr)) as PL eqn:EPL in *.
    assert (HPLne : PL <> []) by (rewrite EPL; discriminate).
    clear EPL Eps Hps1 Eenc.
    rewrite Hnt. change (negb (0 =? 0)) with false. fold reset.
    rewrite (dec_layered_seg wn hn orient style maxbp false false reset bytes PL HDne HPLne
               ltac:(apply negb_true_iff; apply Z.eqb_neq; exact Hlazy)).
    fold reset. rewrite orb_diag.
    rewrite Enp. rewrite Epl0.
    rename PL into PL'. rename bytes into D.
    assert (Hlay : glay style maxbp pl PL' 0 0 gs).
    { apply (glay_intro style maxbp pl PL' gs 0 0 [] [] PL' maxbp 2); auto. }
    pose proof (dec_passes_fsim ideal_ask seg_ask
                  (GA style maxbp pl D PL') (GB style maxbp pl D PL')
                  ideal_pre ideal_post (seg_pre style maxbp false reset D PL') (seg_post reset)
                  wn hn orient style maxbp false (GB_ask style maxbp pl D PL') pl 0 (Leaf, Leaf)
                  ([], syms) (mkSeg CoNone [] 0 0 0 true false)) as Hsim.
    destruct (Hsim) with (a := (st, (@nil sym, @nil (list sym)))) as (bb & Eb & Hbb).
    + intros k bp pt Hn c1 c2 Hr. apply (GA_pre style maxbp pl D PL' k bp pt c1 c2 Hn). exact Hr.
    + intros k bp pt Hn c1 c2 Hr. apply (GB_post style maxbp pl D PL' k bp pt c1 c2 Hn). exact Hr.
    + split; [reflexivity|]. split; [lia|]. left.
      exists [], cx0, gs. cbn [fst snd sg_prevEnd sg_need sg_mqStarted sg_prevctx app].
      split; [exact cx0_cxs_ok|]. split; [exact Esyms|]. split; [exact Hrel|]. split; [exact Hlay|].
      split; [exact Ebytes|]. split; [reflexivity|]. split; [reflexivity|]. split; [reflexivity|].
      split; [intros _; split; [reflexivity|rewrite Egs; exact Hg0]|].
      split; [auto|]. intros H0. lia.
    + exact Eid.
    + destruct bb as [st2 c2]. destruct Hbb as [Hst _]. cbn [fst] in Hst. subst st2.
      match goal with |- obind ?X _ = _ => replace X with (Ok (st, c2)) by (symmetry; exact Eb) end.
      cbn [obind fst snd]. f_equal. exact Hdata.
Qed.

(* without PTERM the first codeword, hence the stream, is never empty *)
Theorem t1_bytes_roundtrip_lazy :
  forall (wn hn : nat) (orient style fb : Z) (data : list Z),
  Z.land style CblkStyleLazy <> 0 -> Z.land style CblkStyleTermAll = 0 -> Z.land style CblkStylePterm = 0 ->
  length data = (wn * hn)%nat -> data_ok data -> 0 <= fb ->
  (forall v, In v data -> exists c, v = c * 2 ^ fb) ->
  t1_roundtrip wn hn orient style fb data = Ok data.
Proof.
  intros wn hn orient style fb data Hlazy Hnt Hp Hlen Hok Hfb Hmul.
  apply t1_bytes_roundtrip_lazy_gen; auto.
  intros mb ps bytes Eenc Hps.
  set (maxbp := find_max_bitplane data) in *.
  destruct (Z.ltb_spec maxbp fb) as [Hlt|Hge].
  { unfold enc_layered, enc_syms in Eenc. fold maxbp in Eenc.
    destruct (Z.ltb_spec maxbp fb); [|lia]. inversion Eenc; subst. congruence. }
  destruct (enc_layered_lazy wn hn orient style fb data Hlazy Hnt Hok Hge Hfb) as (gs & bytes' & E2 & _ & _ & _ & _ & _ & _ & Hne).
  fold maxbp in E2. rewrite E2 in Eenc. inversion Eenc; subst. exact (Hne Hp).
Qed.

(* ---------- all 64 code-block style combinations ---------- *)
(* The byte-level T1 clause of C20 for every style.  The one hypothesis besides the domain of the
   coefficients: the stream EncodeLayered returns is not empty (the decoder rejects empty data);
   it is a theorem for every style without PTERM (t1_bytes_roundtrip_no_pterm) and for PTERM
   without LAZY and TERMALL when fb >= 1; for the other PTERM cases it is not derivable from the
   MQ invariants (a codeword closed by ErtermEnc whose only byte is 0xFF would be empty). *)
Theorem t1_bytes_roundtrip_all_styles :
  forall (wn hn : nat) (orient style fb : Z) (data : list Z),
  length data = (wn * hn)%nat -> data_ok data -> 0 <= fb ->
  (forall v, In v data -> exists c, v = c * 2 ^ fb) ->
  (forall mb ps bytes,
     enc_layered wn hn orient style fb (3 * (find_max_bitplane data - fb + 1) - 2) data = Ok (mb, ps, bytes) ->
     ps <> [] -> bytes <> []) ->
  t1_roundtrip wn hn orient style fb data = Ok data.
Proof.
  intros wn hn orient style fb data Hlen Hok Hfb Hmul Hout.
  destruct (Z.eq_dec (Z.land style 4) 0) as [E4|E4].
  - destruct (Z.eq_dec (Z.land style 1) 0) as [E1|E1].
    + apply t1_bytes_roundtrip_covered; auto. right. exact E1.
    + apply t1_bytes_roundtrip_lazy_gen; auto.
  - apply t1_bytes_roundtrip_covered; auto. left. exact E4.
Qed.

Theorem t1_bytes_roundtrip_no_pterm :
  forall (wn hn : nat) (orient style fb : Z) (data : list Z),
  Z.land style 16 = 0 ->
  length data = (wn * hn)%nat -> data_ok data -> 0 <= fb ->
  (forall v, In v data -> exists c, v = c * 2 ^ fb) ->
  t1_roundtrip wn hn orient style fb data = Ok data.
Proof.
  intros wn hn orient style fb data E16 Hlen Hok Hfb Hmul.
  destruct (Z.eq_dec (Z.land style 4) 0) as [E4|E4].
  - destruct (Z.eq_dec (Z.land style 1) 0) as [E1|E1].
    + apply t1_bytes_roundtrip_unconditional; auto. left.
      change 21 with (Z.lor 16 (Z.lor 4 1)). rewrite !Z.land_lor_distr_r, E16, E4, E1. reflexivity.
    + apply t1_bytes_roundtrip_lazy; auto.
  - apply t1_bytes_roundtrip_unconditional; auto. right. left. split; assumption.
Qed.

(* t1_roundtrip_statement (T1ProofsBytes) for all styles, with the non-emptiness of the stream as
   a hypothesis where it is not proved (PTERM) *)
Theorem t1_roundtrip_all :
  forall (wn hn : nat) (orient style fb : Z) (data : list Z),
    length data = (wn * hn)%nat -> (forall v, In v data -> Z.abs v <= 2 ^ 30) -> 0 <= fb ->
    (forall v, In v data -> exists c, v = c * 2 ^ fb) ->
    (Z.land style 16 = 0 \/
     forall mb ps bytes,
       enc_layered wn hn orient style fb (3 * (find_max_bitplane data - fb + 1) - 2) data = Ok (mb, ps, bytes) ->
       ps <> [] -> bytes <> []) ->
    t1_roundtrip wn hn orient style fb data = Ok data.
Proof.
  intros wn hn orient style fb data Hlen Habs Hfb Hmul Hne.
  assert (Hok : data_ok data).
  { intros v Hv. specialize (Habs v Hv). change (2 ^ 31) with 2147483648. change (2 ^ 30) with 1073741824 in Habs. lia. }
  destruct Hne as [E16|Hout].
  - apply t1_bytes_roundtrip_no_pterm; assumption.
  - apply t1_bytes_roundtrip_all_styles; assumption.
Qed.
