(* Byte-level round trip for TERMALL (every coding pass its own MQ codeword segment), with any of
   RESET, VSC, SEGSYM; no bypass, no predictable termination. *)
From V Require Import Common.Base MQ.MqModel MQ.MqProofs MQ.MqProofsDec MQ.MqProofsRt MQ.MqProofsRt2 MQ.MqProofsTerm MQ.MqProofsSeg.
From V Require Import T1.T1Store T1.T1Ctx T1.T1CtxProofs T1.T1Model T1.T1Bytes T1.T1ProofsBase
  T1.T1ProofsSeq T1.T1ProofsFinal T1.T1ProofsSim T1.T1ProofsMqRt T1.T1ProofsComp T1.T1ProofsCompThm
  T1.T1ProofsRestart T1.T1ProofsTermEnc.

Fixpoint cumul (off : Z) (segs : list (list Z)) : list Z :=
  match segs with [] => [] | s :: r => (off + zlen s) :: cumul (off + zlen s) r end.

Lemma term_ps_rates : forall pl off segs, length pl = length segs ->
  map p_rate (term_ps pl off segs) = cumul off segs.
Proof.
  induction pl as [|[bp pt] pl IH]; intros off [|s segs] H; try discriminate; [reflexivity|].
  cbn [term_ps map cumul p_rate]. f_equal. apply IH. cbn [length] in H. lia.
Qed.

Lemma slice_mid : forall (a s r : list Z), slice (a ++ s ++ r) (zlen a) (zlen a + zlen s) = s.
Proof.
  intros a s r. unfold slice, zlen. rewrite Nat2Z.id.
  replace (Z.to_nat (Z.of_nat (length a) + Z.of_nat (length s) - Z.of_nat (length a))) with (length s) by lia.
  rewrite skipn_app, skipn_all, Nat.sub_diag. cbn [skipn app].
  rewrite firstn_app, firstn_all, Nat.sub_diag. cbn [firstn]. apply app_nil_r.
Qed.

Lemma znth_app_mid : forall (a : list Z) x r, znth (a ++ x :: r) (zlen a) 0 = x.
Proof.
  intros a x r. unfold znth, zlen. destruct (Z.ltb_spec (Z.of_nat (length a)) 0); [lia|].
  rewrite Nat2Z.id. rewrite app_nth2 by lia. rewrite Nat.sub_diag. reflexivity.
Qed.

Section Rel.
Variables (style maxbp : Z) (data plens : list Z).
Let reset := negb (Z.land style CblkStyleReset =? 0).
Let pterm := negb (Z.land style CblkStylePterm =? 0).

(* before pass i: `done` bytes consumed, the remaining bytes are the segments of the remaining passes *)
Definition TA (i : Z) (c1 : ichan) (c2 : segst) : Prop :=
  fst c1 = [] /\ Forall (Forall sym_mq) (snd c1) /\
  exists done done_pl cx,
    cxs_ok cx /\
    data = done ++ concat (segs_of pterm reset cx (map decs (snd c1))) /\
    plens = done_pl ++ cumul (zlen done) (segs_of pterm reset cx (map decs (snd c1))) /\
    zlen done_pl = i /\
    sg_prevEnd c2 = zlen done /\ sg_need c2 = true /\
    sg_mqStarted c2 = (0 <? i) /\
    (i = 0 -> cx = cx0) /\ (reset = true -> cx = cx0) /\
    (0 < i -> reset = false -> sg_prevctx c2 = cx).

(* inside pass i *)
Definition TB (i : Z) (c1 : ichan) (c2 : segst) : Prop :=
  Forall sym_mq (fst c1) /\ Forall (Forall sym_mq) (snd c1) /\
  exists done seg done_pl cxn d d',
    sg_co c2 = CoMQ d /\
    dec_decode_list d (map snd (decs (fst c1))) = Ok (d', map fst (decs (fst c1))) /\ d_cx d' = cxn /\
    cxs_ok cxn /\
    data = done ++ seg ++ concat (segs_of pterm reset (if reset then cx0 else cxn) (map decs (snd c1))) /\
    plens = done_pl ++ cumul (zlen done + zlen seg) (segs_of pterm reset (if reset then cx0 else cxn) (map decs (snd c1))) /\
    zlen done_pl = i + 1 /\
    sg_segEnd c2 = zlen done + zlen seg /\ sg_segLast c2 = i /\ sg_need c2 = false /\ sg_mqStarted c2 = true.

Lemma TB_ask : forall i, ask_sim ideal_ask seg_ask (TB i).
Proof.
  intros i [cur rest] c2 k ctx (Hcur & Hrest & done & seg & dpl & cxn & d & d' & Eco & Edec & Ecx & Hcxn & Hdata & Hpl & Hdl & Hse & Hsl & Hn & Hm) [c1' b] E.
  unfold ideal_ask in E. cbn [fst snd] in *.
  destruct cur as [|[[k' cx'] b'] cur']; [discriminate|].
  destruct ((k' =? k) && (cx' =? ctx)) eqn:Ek; [|discriminate].
  apply andb_true_iff in Ek. destruct Ek as [Ek Ec]. apply Z.eqb_eq in Ek, Ec. subst k' cx'.
  inversion E; subst c1' b'. clear E.
  pose proof (Forall_inv Hcur) as (Hk0 & Hc & Hb). pose proof (Forall_inv_tail Hcur) as Hcur'.
  cbn [fst snd] in Hk0. subst k.
  cbn [decs map dec_of fst snd] in Edec.
  destruct (dec_decode_list_cons_inv _ _ _ _ _ _ Edec) as (d2 & E2 & E3).
  unfold seg_ask, coder_ask. rewrite Eco. change (0 =? 0) with true. cbv iota. rewrite E2. cbn [obind fst snd].
  eexists. split; [reflexivity|]. split; [reflexivity|]. cbn [fst snd].
  split; [exact Hcur'|]. split; [exact Hrest|].
  exists done, seg, dpl, cxn, d2, d'. cbn [sg_co sg_segEnd sg_segLast sg_need sg_mqStarted].
  repeat split; auto; apply Hcxn.
Qed.

Lemma seg_last_termall : forall fuel np i bp pt, seg_last fuel style maxbp np true i bp pt = i.
Proof. intros [|f] np i bp pt; cbn [seg_last]; [reflexivity|]. rewrite andb_false_r. reflexivity. Qed.

Opaque enc_flush enc_encode_list enc_new_cx dec_new_cx dec_decode_list dec_new mq_segment_rt enc_flush_state enc_get_buffer enc_erterm seg_fn fresh_segment.

Lemma TA_pre : forall i bp pt c1 c2, TA i c1 c2 ->
  fsim (TB i) (ideal_pre i bp pt false c1) (seg_pre style maxbp true reset data plens i bp pt false c2).
Proof.
  intros i bp pt [cur rest] c2 (Hcur & Hrest & done & dpl & cx & Hcx & Hdata & Hpl & Hdl & Hpe & Hn & Hm & Hi0 & Hr & Hpc) c1' E.
  cbn [fst snd] in *. subst cur. unfold ideal_pre in E. cbn [fst snd] in E.
  destruct rest as [|p r]; [discriminate|]. inversion E; subst c1'. clear E.
  pose proof (Forall_inv Hrest) as Hp. pose proof (Forall_inv_tail Hrest) as Hrest'.
  cbn [map segs_of concat cumul] in Hdata, Hpl.
  destruct (fresh_segment pterm cx (decs p) (proj1 Hcx) ltac:(rewrite (proj2 Hcx); apply sym_mq_decision; exact Hp))
    as (_ & _ & dd & d' & Edd & Edec & Ecxd).
  cbv zeta in Edd, Edec, Ecxd.
  assert (Hnext : next_cx reset cx (decs p) = if reset then cx0 else d_cx d').
  { unfold next_cx. destruct reset; [reflexivity|]. symmetry. exact Ecxd. }
  assert (Hcxn : cxs_ok (d_cx d')).
  { rewrite Ecxd. apply (next_cx_ok false cx (decs p)). exact Hcx. }
  rewrite Hnext in Hdata, Hpl. clear Hnext Ecxd.
  remember (seg_fn pterm cx (decs p)) as seg eqn:Eseg. clear Eseg.
  remember (concat (segs_of pterm reset (if reset then cx0 else d_cx d') (map decs r))) as tailb eqn:Etb.
  unfold seg_pre. rewrite Hn. cbv zeta. rewrite seg_last_termall.
  assert (Ese : znth plens i 0 = zlen done + zlen seg).
  { rewrite Hpl, <- Hdl. apply znth_app_mid. }
  rewrite Ese, Hpe.
  assert (Hdl2 : zlen data = zlen done + (zlen seg + zlen tailb)).
  { rewrite Hdata. unfold zlen. rewrite !app_length. lia. }
  replace ((zlen done + zlen seg <? zlen done) || (zlen data <? zlen done + zlen seg)) with false.
  2:{ symmetry. apply orb_false_iff. unfold zlen in *. split; apply Z.ltb_ge; lia. }
  rewrite Hdata, slice_mid.
  assert (Hdl3 : zlen (dpl ++ [zlen done + zlen seg]) = i + 1).
  { unfold zlen in *. rewrite app_length. cbn [length]. lia. }
  destruct (negb (sg_mqStarted c2) || reset) eqn:Efresh.
  - (* a fresh MQ decoder: the segment was coded from the initial contexts *)
    assert (Ecx0 : cx = cx0).
    { apply orb_true_iff in Efresh. destruct Efresh as [Ef|Ef]; [|apply Hr; exact Ef].
      apply negb_true_iff in Ef. rewrite Hm in Ef. apply Z.ltb_ge in Ef. apply Hi0.
      pose proof (Zle_0_nat (length dpl)) as H0. fold (zlen dpl) in H0. lia. }
    rewrite Ecx0 in Edd. destruct (dec_new_set3 _ dd Edd) as (dn & En & Es).
    rewrite En. cbn [obind]. rewrite Es.
    eexists. split; [reflexivity|]. cbn [fst snd].
    split; [exact Hp|]. split; [exact Hrest'|].
    exists done, seg, (dpl ++ [zlen done + zlen seg]), (d_cx d'), dd, d'.
    cbn [fst snd sg_co sg_segEnd sg_segLast sg_need sg_mqStarted]. rewrite <- Etb.
    split; [reflexivity|]. split; [exact Edec|]. split; [reflexivity|]. split; [exact Hcxn|].
    split; [exact Hdata|]. split; [rewrite <- app_assoc; exact Hpl|]. split; [exact Hdl3|]. auto.
  - apply orb_false_iff in Efresh. destruct Efresh as [Ef Er]. apply negb_false_iff in Ef.
    pose proof Ef as Ef'. rewrite Hm in Ef'. apply Z.ltb_lt in Ef'. rewrite (Hpc Ef' Er). rewrite Edd. cbn [obind].
    eexists. split; [reflexivity|]. cbn [fst snd].
    split; [exact Hp|]. split; [exact Hrest'|].
    exists done, seg, (dpl ++ [zlen done + zlen seg]), (d_cx d'), dd, d'.
    cbn [fst snd sg_co sg_segEnd sg_segLast sg_need sg_mqStarted]. rewrite <- Etb.
    split; [reflexivity|]. split; [exact Edec|]. split; [reflexivity|]. split; [exact Hcxn|].
    split; [exact Hdata|]. split; [rewrite <- app_assoc; exact Hpl|]. split; [exact Hdl3|]. auto.
Qed.

Lemma TB_post : forall i bp pt c1 c2, 0 <= i -> TB i c1 c2 ->
  fsim (TA (i + 1)) (ideal_post i bp pt false c1) (seg_post reset i bp pt false c2).
Proof.
  intros i bp pt [cur rest] c2 Hi (Hcur & Hrest & done & seg & dpl & cxn & d & d' & Eco & Edec & Ecx & Hcxn & Hdata & Hpl & Hdl & Hse & Hsl & Hn & Hm) c1' E.
  cbn [fst snd] in *. unfold ideal_post in E. cbn [fst] in E.
  destruct cur; [|discriminate]. inversion E; subst c1'. clear E.
  cbn [decs map dec_decode_list] in Edec. inversion Edec; subst d'. clear Edec.
  unfold seg_post. rewrite Eco.
  assert (Hz : zlen (done ++ seg) = zlen done + zlen seg) by (unfold zlen; rewrite app_length; lia).
  destruct reset eqn:Ereset; cbn [obind sg_segLast]; rewrite Hsl, Z.eqb_refl.
  - eexists. split; [reflexivity|]. cbn [fst snd sg_segEnd].
    split; [reflexivity|]. split; [exact Hrest|].
    exists (done ++ seg), dpl, cx0. cbn [sg_prevEnd sg_need sg_mqStarted sg_prevctx sg_segEnd].
    rewrite Hz, Hse. cbn [fst snd]. rewrite ?Ereset. repeat split; auto; try apply cx0_cxs_ok.
    + rewrite <- app_assoc. exact Hdata.
    + rewrite Hm. symmetry. apply Z.ltb_lt. lia.
    + intros _ Hf. discriminate.
  - eexists. split; [reflexivity|]. cbn [fst snd sg_segEnd].
    split; [reflexivity|]. split; [exact Hrest|].
    exists (done ++ seg), dpl, cxn. cbn [sg_prevEnd sg_need sg_mqStarted sg_prevctx sg_segEnd].
    rewrite Hz, Hse. cbn [fst snd]. rewrite ?Ereset. repeat split; auto; try apply Hcxn.
    + rewrite <- app_assoc. exact Hdata.
    + rewrite Hm. symmetry. apply Z.ltb_lt. lia.
    + intros H0. lia.
    + intros Hf. discriminate.
Qed.

End Rel.

(* ---------- the theorem ---------- *)
Lemma enc_passes_syms_termall : forall wn hn orient style maxbp V pl first F, termall_style style ->
  Forall (Forall sym_mq) (enc_passes wn hn orient style maxbp V pl first F).
Proof.
  intros wn hn orient style maxbp V pl. induction pl as [|[bp pt] r IH]; intros first F Hs; cbn [enc_passes]; [constructor|].
  pose proof (enc_pass_syms wn hn orient style bp pt (is_lazy_raw bp maxbp pt style) V
                (if start_bitplane pt first then clear_visit F else F)) as H1.
  rewrite (termall_raw style bp maxbp pt Hs) in *. cbn [andb sym_okr] in H1.
  destruct (enc_pass _ _ _ _ _ _ _ _ _) as [F1 o]. cbn [snd] in H1.
  constructor; [exact H1|]. apply IH. exact Hs.
Qed.

Lemma get_buffer_pre : forall e d, e_pre e = rev d ++ [0] -> enc_get_buffer e = d.
Proof.
  intros e d E. unfold enc_get_buffer, enc_bp, zlen. rewrite E, app_length. cbn [length].
  destruct (Z.ltb_spec (Z.of_nat (length (rev d) + 1)) 1); [lia|].
  rewrite rev_app_distr, rev_involutive. reflexivity.
Qed.

(* what EncodeLayered returns for a TERMALL style *)
Lemma enc_layered_termall : forall (wn hn : nat) (orient style fb np : Z) (data : list Z),
  termall_style style -> data_ok data ->
  let maxbp := find_max_bitplane data in
  let pl := pass_list maxbp fb np in
  let syms := enc_passes wn hn orient style maxbp (pad_data wn hn data) pl true Leaf in
  let segs := segs_of (negb (Z.land style CblkStylePterm =? 0)) (negb (Z.land style CblkStyleReset =? 0)) cx0 (map decs syms) in
  fb <= maxbp -> pl <> [] ->
  enc_layered wn hn orient style fb np data = Ok (maxbp, term_ps pl 0 segs, concat segs) /\
  Forall (fun s => last s 0 <> 255) segs /\ length segs = length pl.
Proof.
  intros wn hn orient style fb np data Hs Hok maxbp pl syms segs Hge Hpl1.
  unfold enc_layered, enc_syms. fold maxbp. fold pl. fold syms.
  destruct (Z.ltb_spec maxbp fb); [lia|].
  assert (Hsl : length syms = length pl) by apply enc_passes_length.
  assert (Hsy : Forall (Forall sym_mq) syms) by (apply enc_passes_syms_termall; exact Hs).
  set (reset := negb (Z.land style CblkStyleReset =? 0)) in *.
  set (pterm := negb (Z.land style CblkStylePterm =? 0)) in *.
  rewrite enc_init. unfold segs. clear segs.
  remember pl as pl_ eqn:Epl_. remember syms as syms_ eqn:Esyms_. clear Epl_ Esyms_.
  destruct pl_ as [|[b p] pl']; [congruence|].
  destruct syms_ as [|s0 syms']; [cbn [length] in Hsl; lia|].
  pose proof (Forall_inv Hsy) as Hs0. pose proof (Forall_inv_tail Hsy) as Hsy'.
  cbn [enc_bytes_passes].
  rewrite (termall_raw style b maxbp p Hs), (termall_term style b maxbp p Hs).
  fold pterm. cbv iota.
  rewrite (enc_syms_o_mq s0 _ Hs0 (enc_new_inv cx0 cx0_ok) cx0_len). cbn [obind].
  assert (Hinv2 : enc_inv (enc_encode_list (enc_new_cx cx0) (decs s0)))
    by (apply enc_encode_list_inv; apply enc_new_inv; exact cx0_ok).
  rewrite (enc_terminate_fl pterm _ Hinv2). cbn [obind].
  destruct (fresh_segment pterm cx0 (decs s0) cx0_ok ltac:(rewrite cx0_len; apply sym_mq_decision; exact Hs0))
    as (Hfr & Hlast1 & _).
  cbv zeta in Hfr.
  set (er := fl pterm (enc_encode_list (enc_new_cx cx0) (decs s0))) in *.
  remember (seg_fn pterm cx0 (decs s0)) as seg1 eqn:Eseg1.
  assert (E1 : e_pre er = rev seg1 ++ [0]).
  { apply (f_equal (@rev Z)) in Hfr. rewrite rev_involutive in Hfr. rewrite Hfr. cbn [rev]. reflexivity. }
  change (set3_e (enc_reset_contexts er)) with (r_e er). fold reset.
  assert (Hcxer : cxs_ok (e_cx er)).
  { unfold er. rewrite fl_cx. apply (next_cx_ok false cx0 (decs s0)). exact cx0_cxs_ok. }
  assert (HTI : TI (if reset then r_e er else er)).
  { apply TI_after; [|exact Hcxer].
    pose proof (fl_buf_ok pterm _ Hinv2) as Hbo. fold er in Hbo.
    pose proof (hd_rev_last seg1) as Hhd. rewrite <- E1 in Hhd.
    destruct (e_pre er) as [|h P'] eqn:Eer.
    { apply (f_equal (@length Z)) in E1. rewrite app_length in E1. cbn [length] in E1. lia. }
    exists h, P'. split; [reflexivity|]. split; [|exact Hbo]. cbn [hd] in Hhd. rewrite Hhd. exact Hlast1. }
  assert (Hpre : e_pre (if reset then r_e er else er) = rev seg1 ++ [0]).
  { destruct reset; [rewrite r_e_cxset; cbn [cxset e_pre]|]; exact E1. }
  assert (Hcx3 : e_cx (if reset then r_e er else er) = next_cx reset cx0 (decs s0)).
  { unfold next_cx. destruct reset.
    - rewrite r_e_cxset. cbn [cxset e_cx]. apply reset_cx_19. apply Hcxer.
    - unfold er. apply fl_cx. }
  destruct (enc_bytes_termall_tail style maxbp pl' syms' _ seg1 Hs ltac:(cbn [length] in Hsl; lia) Hsy' HTI Hpre Hlast1)
    as (e' & E & Hpre' & Hsegs & Hlen').
  fold reset pterm in E, Hpre', Hsegs, Hlen'. rewrite Hcx3 in E, Hpre', Hsegs, Hlen'.
  cbn [map segs_of concat term_ps]. rewrite <- Eseg1.
  set (segs' := segs_of pterm reset (next_cx reset cx0 (decs s0)) (map decs syms')) in *.
  rewrite E. cbn [obind fst snd]. rewrite (num_bytes_pre _ _ Hpre).
  rewrite (get_buffer_pre e' (seg1 ++ concat segs') Hpre').
  set (D := seg1 ++ concat segs').
  set (ps := mkPass b p (zlen seg1) (zlen seg1) true :: term_ps pl' (zlen seg1) segs').
  assert (Hsegs1 : Forall (fun s => last s 0 <> 255) (seg1 :: segs')) by (constructor; assumption).
  assert (Hnorm : rev (normalize_rev D (rev ps) (zlen D)) = ps).
  { rewrite normalize_rev_id; [apply rev_involutive|].
    pose proof (term_ps_desc ((b, p) :: pl') (seg1 :: segs') [] (zlen D) Hsegs1) as Hd.
    cbn [concat app] in Hd. fold D in Hd. change (zlen (@nil Z)) with 0 in Hd.
    specialize (Hd ltac:(cbn; lia) ltac:(lia) []). rewrite app_nil_r in Hd. exact Hd. }
  rewrite Hnorm. split; [reflexivity|]. split; [exact Hsegs1|]. cbn [length]. rewrite Hlen'. reflexivity.
Qed.

(* The round trip for TERMALL without LAZY (PTERM allowed).  With PTERM the stream must not be
   empty: GetBuffer does not count a final byte 0xFF, so a codeword closed by ErtermEnc can in
   principle be empty (hypothesis Hout; no such case exists among all decision sequences up to
   length 6 over the T1 start contexts, and none was found by the harness). *)
Theorem t1_bytes_roundtrip_termall_gen :
  forall (wn hn : nat) (orient style fb : Z) (data : list Z),
  termall_style style ->
  length data = (wn * hn)%nat -> data_ok data -> 0 <= fb ->
  (forall v, In v data -> exists c, v = c * 2 ^ fb) ->
  (forall mb ps bytes,
     enc_layered wn hn orient style fb (3 * (find_max_bitplane data - fb + 1) - 2) data = Ok (mb, ps, bytes) ->
     ps <> [] -> bytes <> []) ->
  t1_roundtrip wn hn orient style fb data = Ok data.
Proof.
  intros wn hn orient style fb data Hs Hlen Hok Hfb Hmul Hout.
  unfold t1_roundtrip.
  set (maxbp := find_max_bitplane data) in *.
  set (NP := 3 * (maxbp - fb + 1) - 2) in *.
  destruct (Z.ltb_spec maxbp fb) as [Hlt|Hge].
  - unfold enc_layered, enc_syms. fold maxbp. destruct (Z.ltb_spec maxbp fb); [|lia].
    cbn [obind]. f_equal.
    pose proof (all_zero_below data fb Hok Hfb Hmul Hlt) as Hz.
    clear - Hz. induction data as [|a l IH]; [reflexivity|]. cbn [map].
    rewrite (Hz a (or_introl eq_refl)). f_equal. apply IH. intros v Hv. apply Hz. right. exact Hv.
  - set (V := pad_data wn hn data).
    set (pl := pass_list maxbp fb NP).
    set (syms := enc_passes wn hn orient style maxbp V pl true Leaf).
    set (reset := negb (Z.land style CblkStyleReset =? 0)).
    set (pterm := negb (Z.land style CblkStylePterm =? 0)).
    assert (Hpl1 : pl <> []).
    { unfold pl, pass_list. destruct (Z.ltb_spec maxbp fb); [lia|]. unfold all_passes.
      replace (Z.to_nat NP) with (S (Z.to_nat (NP - 1))) by (unfold NP; lia). cbn [firstn]. discriminate. }
    destruct (enc_layered_termall wn hn orient style fb NP data Hs Hok Hge Hpl1) as (Eenc & Hsegs & Hlsegs).
    fold maxbp V pl syms reset pterm in Eenc, Hsegs, Hlsegs.
    set (segs := segs_of pterm reset cx0 (map decs syms)) in *.
    assert (Hsl : length syms = length pl) by apply enc_passes_length.
    assert (Hsy : Forall (Forall sym_mq) syms) by (apply enc_passes_syms_termall; exact Hs).
    assert (Hps1 : term_ps pl 0 segs <> []).
    { destruct pl as [|[b p] pl']; [congruence|]. destruct segs; [discriminate|]. discriminate. }
    pose proof (Hout _ _ _ Eenc Hps1) as HDne.
    rewrite Eenc. cbn [obind].
    set (D := concat segs) in *. set (ps := term_ps pl 0 segs) in *.
    assert (Hplens : map p_rate ps = cumul 0 segs).
    { unfold ps. apply term_ps_rates. symmetry. exact Hlsegs. }
    assert (Hpslen : length ps = length pl).
    { unfold ps. clear - Hlsegs. revert Hlsegs. generalize 0. generalize segs.
      induction pl as [|[b' p'] pl IH]; intros [|s sg] z H; try discriminate; [reflexivity|].
      cbn [term_ps length]. f_equal. apply IH. cbn [length] in H. lia. }
    clearbody ps.
    destruct ps as [|p0 psr]; [congruence|].
    (* the ideal run *)
    destruct (t1_ideal_roundtrip wn hn orient style fb NP data Hlen Hok Hfb Hmul ltac:(fold maxbp; unfold NP; lia))
      as (st & Eid & Hdata).
    change (snd (enc_syms wn hn orient style fb NP data)) with syms in Eid.
    change (find_max_bitplane data) with maxbp in Eid.
    unfold dec_ideal in Eid.
    assert (El : zlen syms = zlen pl) by (unfold zlen; rewrite Hsl; reflexivity).
    assert (Epl0 : pass_list maxbp 0 (zlen pl) = pl) by (unfold pl; apply pass_list_dec; exact Hfb).
    rewrite El, Epl0 in Eid.
    (* the decoder *)
    unfold dec_layered.
    destruct D as [|by0 byr] eqn:ED; [congruence|].
    rewrite Hplens.
    destruct (cumul 0 segs) as [|c0 cr] eqn:Ecum.
    { destruct segs; [|discriminate]. cbn [length] in Hlsegs. destruct pl; [congruence|discriminate]. }
    cbv iota. rewrite <- ED, <- Ecum.
    destruct (termall_bits style Hs) as (Elazy & Eterm). rewrite Elazy. rewrite Eterm. cbn [negb andb]. cbv iota.
    fold reset. rewrite orb_diag.
    set (plens := cumul 0 segs) in *.
    assert (Enp : zlen plens = zlen pl).
    { rewrite Ecum, <- Hplens. unfold zlen. rewrite map_length, Hpslen. reflexivity. }
    rewrite Enp. rewrite Epl0.
    pose proof (dec_passes_fsim ideal_ask seg_ask (TA style D plens) (TB style D plens)
                  ideal_pre ideal_post (seg_pre style maxbp true reset D plens) (seg_post reset)
                  wn hn orient style maxbp false (TB_ask style D plens) pl 0 (Leaf, Leaf)
                  ([], syms) (mkSeg CoNone [] 0 0 0 true false)) as Hsim.
    destruct (Hsim) with (a := (st, (@nil sym, @nil (list sym)))) as (bb & Eb & Hbb).
    + intros k bp pt Hn c1 c2 Hr. rewrite (termall_raw style bp maxbp pt Hs). apply TA_pre. exact Hr.
    + intros k bp pt Hn c1 c2 Hr. rewrite (termall_raw style bp maxbp pt Hs). apply TB_post; [lia|exact Hr].
    + split; [reflexivity|]. split; [exact Hsy|].
      exists [], [], cx0. cbn [fst snd sg_prevEnd sg_need sg_mqStarted sg_prevctx app].
      split; [exact cx0_cxs_ok|]. split; [reflexivity|]. split; [reflexivity|].
      split; [reflexivity|]. split; [reflexivity|]. split; [reflexivity|]. split; [reflexivity|].
      split; [auto|]. split; [auto|]. intros H0. lia.
    + exact Eid.
    + destruct bb as [st2 c2]. destruct Hbb as [Hst _]. cbn [fst] in Hst. subst st2.
      match goal with |- obind ?X _ = _ => replace X with (Ok (st, c2)) by (symmetry; exact Eb) end.
      cbn [obind fst snd]. f_equal. exact Hdata.
Qed.

(* without PTERM the stream is never empty: FlushToOutput always leaves at least one byte *)
Theorem t1_bytes_roundtrip_termall :
  forall (wn hn : nat) (orient style fb : Z) (data : list Z),
  termall_style style -> Z.land style CblkStylePterm = 0 ->
  length data = (wn * hn)%nat -> data_ok data -> 0 <= fb ->
  (forall v, In v data -> exists c, v = c * 2 ^ fb) ->
  t1_roundtrip wn hn orient style fb data = Ok data.
Proof.
  intros wn hn orient style fb data Hs Hp Hlen Hok Hfb Hmul.
  apply t1_bytes_roundtrip_termall_gen; auto.
  intros mb ps bytes Eenc Hps.
  set (maxbp := find_max_bitplane data) in *.
  destruct (Z.ltb_spec maxbp fb) as [Hlt|Hge].
  { unfold enc_layered, enc_syms in Eenc. fold maxbp in Eenc.
    destruct (Z.ltb_spec maxbp fb); [|lia]. inversion Eenc; subst. congruence. }
  set (NP := 3 * (maxbp - fb + 1) - 2) in *.
  assert (Hpl1 : pass_list maxbp fb NP <> []).
  { unfold pass_list. destruct (Z.ltb_spec maxbp fb); [lia|]. unfold all_passes.
    replace (Z.to_nat NP) with (S (Z.to_nat (NP - 1))) by (unfold NP; lia). cbn [firstn]. discriminate. }
  destruct (enc_layered_termall wn hn orient style fb NP data Hs Hok Hge Hpl1) as (E2 & _ & Hl2).
  fold maxbp in E2, Hl2. rewrite E2 in Eenc. inversion Eenc; subst. clear Eenc.
  rewrite Hp in *. change (negb (0 =? 0)) with false in *.
  destruct (enc_passes wn hn orient style maxbp (pad_data wn hn data) (pass_list maxbp fb NP) true Leaf) as [|s0 sr] eqn:Es.
  { cbn in Hl2. destruct (pass_list maxbp fb NP); [congruence|discriminate]. }
  cbn [map segs_of concat]. intro Habs. apply app_eq_nil in Habs. destruct Habs as [Habs _].
  assert (Hsy : Forall (Forall sym_mq) (s0 :: sr)).
  { rewrite <- Es. apply enc_passes_syms_termall. exact Hs. }
  destruct (mq_segment_rt cx0 (decs s0) cx0_ok ltac:(rewrite cx0_len; apply sym_mq_decision; exact (Forall_inv Hsy)))
    as (_ & Hne & _).
  apply Hne. rewrite <- seg_fn_false. exact Habs.
Qed.

(* ---------- what is proved at byte level, in one statement ---------- *)
Definition style_proved (style fb : Z) : Prop :=
  mq_style style \/ (termall_style style /\ Z.land style CblkStylePterm = 0) \/ (Z.land style 5 = 0 /\ 1 <= fb).

Theorem t1_bytes_roundtrip_partial :
  forall (wn hn : nat) (orient style fb : Z) (data : list Z),
  style_proved style fb ->
  length data = (wn * hn)%nat -> data_ok data -> 0 <= fb ->
  (forall v, In v data -> exists c, v = c * 2 ^ fb) ->
  t1_roundtrip wn hn orient style fb data = Ok data.
Proof.
  intros wn hn orient style fb data [H|[[H H'] |[H1 H2]]] Hlen Hok Hfb Hmul.
  - apply t1_bytes_roundtrip_single_codeword; assumption.
  - apply t1_bytes_roundtrip_termall; assumption.
  - apply t1_bytes_roundtrip_single_codeword_fb; assumption.
Qed.
