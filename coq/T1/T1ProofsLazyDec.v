(* LAZY without TERMALL, part 5: the decoder (segment path of DecodeLayeredWithMode) follows
   the groups *)
From V Require Import Common.Base MQ.MqModel MQ.MqProofs MQ.MqProofsDec MQ.MqProofsRt MQ.MqProofsRt2 MQ.MqProofsTerm MQ.MqProofsSeg.
From V Require Import T1.T1Store T1.T1Ctx T1.T1CtxProofs T1.T1Model T1.T1Bytes T1.T1ProofsBase
  T1.T1ProofsSeq T1.T1ProofsFinal T1.T1ProofsSim T1.T1ProofsMqRt T1.T1ProofsComp T1.T1ProofsCompThm T1.T1ProofsRestart
  T1.T1ProofsTermEnc T1.T1ProofsTermall T1.T1ProofsPterm T1.T1ProofsLazyEnc T1.T1ProofsLazyTerm.
From V Require Import T1.T1ProofsLazyMq T1.T1ProofsLazyEnc2 T1.T1ProofsLazyLayered T1.T1ProofsLazyNorm.

Lemma seg_last_run : forall style maxbp body ql rest fuel np i bp pt,
  chain bp pt (body ++ ql :: rest) -> Forall (fun q => termq style maxbp q = false) body ->
  (termq style maxbp ql = true \/ rest = []) -> np = i + zlen body + 1 + zlen rest -> (length body < fuel)%nat ->
  seg_last fuel style maxbp np false i bp pt = i + zlen body.
Proof.
  intros style maxbp body. induction body as [|[b p] body IH]; intros ql rest fuel np i bp pt Hc Hnt Hq Hnp Hf.
  - destruct fuel as [|f]; [cbn [length] in Hf; lia|]. cbn [seg_last]. change (zlen (@nil (Z * Z))) with 0 in *.
    destruct ql as [b p]. cbn [app chain] in Hc. destruct Hc as (-> & -> & _).
    replace ((i <? np - 1) && negb false && negb (is_terminating bp maxbp pt style)) with false; [lia|].
    symmetry. destruct Hq as [Hq|Hq].
    + unfold termq in Hq. cbn [fst snd] in Hq. rewrite Hq. rewrite andb_false_r. reflexivity.
    + subst rest. change (zlen (@nil (Z * Z))) with 0 in Hnp.
      replace (i <? np - 1) with false by (symmetry; apply Z.ltb_ge; lia). reflexivity.
  - destruct fuel as [|f]; [cbn [length] in Hf; lia|]. cbn [seg_last].
    cbn [app chain] in Hc. destruct Hc as (-> & -> & _ & _ & Hc).
    pose proof (Forall_inv Hnt) as Ht. unfold termq in Ht. cbn [fst snd] in Ht. rewrite Ht.
    assert (Hz : zlen ((bp, pt) :: body) = zlen body + 1) by (unfold zlen; cbn [length]; lia).
    assert (Hzr : 0 <= zlen rest /\ 0 <= zlen body) by (unfold zlen; lia).
    replace (i <? np - 1) with true by (symmetry; apply Z.ltb_lt; lia). cbn [negb andb].
    unfold next_bp, next_pt in Hc.
    destruct (pt =? 2).
    + rewrite (IH ql rest f np (i + 1) (bp - 1) 0 Hc (Forall_inv_tail Hnt) Hq ltac:(lia) ltac:(cbn [length] in Hf; lia)). lia.
    + rewrite (IH ql rest f np (i + 1) bp (pt + 1) Hc (Forall_inv_tail Hnt) Hq ltac:(lia) ltac:(cbn [length] in Hf; lia)). lia.
Qed.

Lemma chain_suffix : forall A B bp pt, chain bp pt (A ++ B) ->
  match B with [] => True | (b, p) :: _ => chain b p B end.
Proof.
  intros A. induction A as [|[b p] A IH]; intros B bp pt H.
  - cbn [app] in H. destruct B as [|[b p] B]; [exact I|]. cbn [chain] in H. destruct H as (-> & -> & H). cbn [chain]. auto.
  - cbn [app chain] in H. destruct H as (_ & _ & _ & _ & H). exact (IH B _ _ H).
Qed.

Section Rel.
Variables (style maxbp : Z) (pl : list (Z * Z)) (data plens : list Z).
Let reset := negb (Z.land style CblkStyleReset =? 0).
Let pterm := negb (Z.land style CblkStylePterm =? 0).

(* where the groups sit in the pass list and in the list of pass lengths *)
Fixpoint glay (i off : Z) (gs : list grp) : Prop :=
  match gs with
  | [] => True
  | g :: r =>
    let n := zlen (g_syms g) in
    g_syms g <> [] /\ Forall (Forall (sym_okr (g_raw g))) (g_syms g) /\
    (forall j bp pt, 0 <= j < n -> nth_error pl (Z.to_nat (i + j)) = Some (bp, pt) ->
       is_lazy_raw bp maxbp pt style = g_raw g) /\
    (forall bp pt, nth_error pl (Z.to_nat i) = Some (bp, pt) ->
       seg_last (length plens) style maxbp (zlen plens) false i bp pt = i + n - 1) /\
    znth plens (i + n - 1) 0 = off + zlen (g_seg g) /\
    glay (i + n) (off + zlen (g_seg g)) r
  end.

Lemma glay_intro : forall gs i off prepl prerates X bp0 pt0,
  pl = prepl ++ concat (map g_pl gs) -> plens = prerates ++ X -> rates_shape off gs X ->
  zlen prepl = i -> zlen prerates = i -> zlen plens = zlen pl -> gs_ok style maxbp off gs -> chain bp0 pt0 pl ->
  glay i off gs.
Proof.
  intros gs. induction gs as [|g r IH]; intros i off prepl prerates X bp0 pt0 Hpl Hplens Hshape Hi1 Hi2 Hnp Hgs Hchain.
  - exact I.
  - cbn [gs_ok] in Hgs. destruct Hgs as (Hg & Hcl & Hgs').
    destruct Hg as (Hlb & Hls & Hraw & Hnt & Hbr & Hlseg & Hsy & Hrl).
    cbn [rates_shape] in Hshape. destruct Hshape as (br & rest & -> & Hlbr & Hshape').
    cbn [map concat] in Hpl.
    assert (Hn : zlen (g_syms g) = zlen (g_body g) + 1) by (unfold zlen; rewrite Hls; lia).
    assert (Hlpl : length (g_pl g) = S (length (g_body g))) by (unfold g_pl; rewrite app_length; cbn [length]; lia).
    cbn [glay]. cbv zeta. rewrite Hn.
    split; [destruct (g_syms g); [discriminate|discriminate]|]. split; [exact Hsy|].
    split.
    { intros j bp pt Hj Hnth. rewrite Hpl in Hnth.
      replace (Z.to_nat (i + j)) with (length prepl + Z.to_nat j)%nat in Hnth by (unfold zlen in Hi1; lia).
      rewrite nth_error_app2 in Hnth by lia. replace (length prepl + Z.to_nat j - length prepl)%nat with (Z.to_nat j) in Hnth by lia.
      rewrite nth_error_app1 in Hnth by (unfold zlen in Hj; lia).
      apply nth_error_In in Hnth. rewrite Forall_forall in Hraw. exact (Hraw _ Hnth). }
    split.
    { intros bp pt Hnth.
      assert (Hc2 : chain bp pt (g_body g ++ g_ql g :: concat (map g_pl r))).
      { assert (EL : g_pl g ++ concat (map g_pl r) = g_body g ++ g_ql g :: concat (map g_pl r))
          by (unfold g_pl; rewrite <- app_assoc; reflexivity).
        pose proof (chain_suffix prepl (g_pl g ++ concat (map g_pl r)) bp0 pt0 ltac:(rewrite <- Hpl; exact Hchain)) as H.
        rewrite Hpl in Hnth. replace (Z.to_nat i) with (length prepl + 0)%nat in Hnth by (unfold zlen in Hi1; lia).
        rewrite nth_error_app2 in Hnth by lia. replace (length prepl + 0 - length prepl)%nat with 0%nat in Hnth by lia.
        rewrite EL in H, Hnth.
        destruct (g_body g ++ g_ql g :: concat (map g_pl r)) as [|[b p] t]; [discriminate|].
        cbn in Hnth. inversion Hnth; subst b p. exact H. }
      rewrite (seg_last_run style maxbp (g_body g) (g_ql g) (concat (map g_pl r)) (length plens) (zlen plens) i bp pt Hc2 Hnt).
      - lia.
      - destruct Hcl as [[Hc _]|Hc]; [left; exact Hc|right; rewrite Hc; reflexivity].
      - rewrite Hnp, Hpl. unfold g_pl, zlen in *. rewrite !app_length. cbn [length]. lia.
      - assert (length plens = length pl) by (unfold zlen in Hnp; lia).
        rewrite H, Hpl. unfold g_pl. rewrite !app_length. cbn [length]. lia. }
    split.
    { rewrite Hplens. rewrite app_assoc.
      replace (i + (zlen (g_body g) + 1) - 1) with (zlen (prerates ++ br)) by (unfold zlen in *; rewrite app_length; lia).
      apply znth_app_mid. }
    apply (IH (i + (zlen (g_body g) + 1)) (off + zlen (g_seg g)) (prepl ++ g_pl g) ((prerates ++ br) ++ [off + zlen (g_seg g)]) rest bp0 pt0).
    + rewrite <- app_assoc. exact Hpl.
    + rewrite Hplens. rewrite <- !app_assoc. reflexivity.
    + exact Hshape'.
    + unfold zlen in *. rewrite app_length, Hlpl. lia.
    + unfold zlen in *. rewrite !app_length. cbn [length]. lia.
    + exact Hnp.
    + exact Hgs'.
    + exact Hchain.
Qed.

(* inside a group: pass i is running (cur = its remaining symbols) or about to start; remp are
   the symbol lists of the group's later passes *)
Definition core (i : Z) (cur : list sym) (remp tails : list (list sym)) (c2 : segst) : Prop :=
  exists (kind : bool) done seg cxn gs,
    Forall (sym_okr kind) cur /\ Forall (Forall (sym_okr kind)) remp /\
    (forall j bp pt, 0 <= j <= zlen remp -> nth_error pl (Z.to_nat (i + j)) = Some (bp, pt) ->
       is_lazy_raw bp maxbp pt style = kind) /\
    tails = concat (map g_syms gs) /\
    data = done ++ seg ++ concat (map g_seg gs) /\
    sg_segEnd c2 = zlen done + zlen seg /\ sg_segLast c2 = i + zlen remp /\ sg_need c2 = false /\
    sg_mqStarted c2 = true /\
    cxs_ok cxn /\ (reset = true -> cxn = cx0) /\ grel style cxn gs /\
    glay (i + zlen remp + 1) (zlen done + zlen seg) gs /\
    (if kind
     then (exists r r', sg_co c2 = CoRaw r /\
             raw_decode_n (length (cur ++ concat remp)) r = Ok (r', bits_of (cur ++ concat remp))) /\
          (reset = false -> sg_prevctx c2 = cxn)
     else exists d cxf, sg_co c2 = CoMQ d /\ dec_future_cx reset d (decs cur) (map decs remp) cxf /\
            (reset = false -> cxf = cxn)).

Definition boundary (i : Z) (sy : list (list sym)) (c2 : segst) : Prop :=
  exists done cx gs,
    cxs_ok cx /\ sy = concat (map g_syms gs) /\ grel style cx gs /\ glay i (zlen done) gs /\
    data = done ++ concat (map g_seg gs) /\
    sg_prevEnd c2 = zlen done /\ sg_need c2 = true /\ sg_mqStarted c2 = (0 <? i) /\
    (i = 0 -> cx = cx0 /\ match gs with g :: _ => g_raw g = false | [] => True end) /\
    (reset = true -> cx = cx0) /\ (0 < i -> reset = false -> sg_prevctx c2 = cx).

Definition GA (i : Z) (c1 : ichan) (c2 : segst) : Prop :=
  fst c1 = [] /\ 0 <= i /\
  (boundary i (snd c1) c2 \/
   exists cur remp tails, snd c1 = cur :: remp ++ tails /\ core i cur remp tails c2).

Definition GB (i : Z) (c1 : ichan) (c2 : segst) : Prop :=
  0 <= i /\ exists remp tails, snd c1 = remp ++ tails /\ core i (fst c1) remp tails c2.

Lemma GB_ask : forall i, ask_sim ideal_ask seg_ask (GB i).
Proof.
  intros i [cur rest] c2 k ctx (Hi & remp & tails & Hsnd & kind & done & seg & cxn & gs & Hcur & Hremp & Hkinds & Htails & Hdata & Hse & Hsl & Hn & Hm & Hcxn & Hrc & Hrel & Hlay & Hco) [c1' b] E.
  unfold ideal_ask in E. cbn [fst snd] in *.
  destruct cur as [|[[k' cx'] b'] cur']; [discriminate|].
  destruct ((k' =? k) && (cx' =? ctx)) eqn:Ek; [|discriminate].
  apply andb_true_iff in Ek. destruct Ek as [Ek Ec]. apply Z.eqb_eq in Ek, Ec. subst k' cx'.
  inversion E; subst c1' b'. clear E.
  pose proof (Forall_inv Hcur) as Hs0. pose proof (Forall_inv_tail Hcur) as Hcur'.
  destruct kind; cbn [sym_okr] in Hs0.
  - destruct Hs0 as (Hk & Hc0 & Hb). cbn [fst snd] in Hk, Hc0. subst k ctx.
    destruct Hco as ((r & r' & Eco & Edec) & Hpc).
    cbn [app length bits_of map snd] in Edec.
    destruct (raw_decode_n_cons_inv _ _ _ _ _ Edec) as (r1 & E1 & E2).
    unfold seg_ask, coder_ask. rewrite Eco. change (1 =? 0) with false. cbv iota. rewrite E1. cbn [obind fst snd].
    eexists. split; [reflexivity|]. split; [reflexivity|]. cbn [fst snd].
    split; [exact Hi|]. exists remp, tails. split; [exact Hsnd|].
    exists true, done, seg, cxn, gs.
    cbn [sg_co sg_segEnd sg_segLast sg_need sg_mqStarted sg_prevctx].
    split; [exact Hcur'|]. split; [exact Hremp|]. split; [exact Hkinds|]. split; [exact Htails|]. split; [exact Hdata|].
    split; [exact Hse|]. split; [exact Hsl|]. split; [exact Hn|]. split; [exact Hm|]. split; [exact Hcxn|].
    split; [exact Hrc|]. split; [exact Hrel|]. split; [exact Hlay|].
    split; [|exact Hpc]. exists r1, r'. split; [reflexivity|exact E2].
  - destruct Hs0 as (Hk & Hc0 & Hb). cbn [fst snd] in Hk. subst k.
    destruct Hco as (d & cxf & Eco & Hfut & Hcxf).
    destruct remp as [|p1 remp']; cbn [map dec_future_cx] in Hfut; destruct Hfut as (d1 & Edec & Hfut);
      cbn [decs map dec_of fst snd] in Edec;
      destruct (dec_decode_list_cons_inv _ _ _ _ _ _ Edec) as (d2 & E2 & E3);
      unfold seg_ask, coder_ask; rewrite Eco; change (0 =? 0) with true; cbv iota; rewrite E2; cbn [obind fst snd];
      (eexists; split; [reflexivity|]; split; [reflexivity|]; cbn [fst snd];
       split; [exact Hi|]; eexists _, tails; split; [exact Hsnd|];
       exists false, done, seg, cxn, gs;
       cbn [sg_co sg_segEnd sg_segLast sg_need sg_mqStarted sg_prevctx];
       split; [exact Hcur'|]; split; [exact Hremp|]; split; [exact Hkinds|]; split; [exact Htails|]; split; [exact Hdata|];
       split; [exact Hse|]; split; [exact Hsl|]; split; [exact Hn|]; split; [exact Hm|]; split; [exact Hcxn|];
       split; [exact Hrc|]; split; [exact Hrel|]; split; [exact Hlay|];
       exists d2, cxf; split; [reflexivity|]; split; [|exact Hcxf];
       cbn [map dec_future_cx]; exists d1; split; [exact E3|exact Hfut]).
Qed.

Opaque enc_flush enc_encode_list enc_new_cx dec_new_cx dec_decode_list dec_new mq_segment_rt enc_flush_state
       enc_get_buffer enc_erterm seg_fn fresh_segment raw_decode_n raw_new.

Lemma GA_pre : forall k bp pt c1 c2, nth_error pl k = Some (bp, pt) -> GA (Z.of_nat k) c1 c2 ->
  fsim (GB (Z.of_nat k)) (ideal_pre (Z.of_nat k) bp pt (is_lazy_raw bp maxbp pt style) c1)
       (seg_pre style maxbp false reset data plens (Z.of_nat k) bp pt (is_lazy_raw bp maxbp pt style) c2).
Proof.
  intros k bp pt [cur rest] c2 Hnth (Hcur & Hi & [Hb|Hin]) c1' E; cbn [fst snd] in *; subst cur;
    unfold ideal_pre in E; cbn [fst snd] in E.
  - (* a new group starts *)
    destruct Hb as (done & cx & gs & Hcx & Hsy & Hrel & Hlay & Hdata & Hpe & Hn & Hm & Hi0 & Hr & Hpc).
    destruct gs as [|g gs']; [cbn [map concat] in Hsy; subst rest; discriminate|].
    cbn [glay] in Hlay. cbv zeta in Hlay. destruct Hlay as (Hne & Hsyg & Hkinds & Hlast & Hplens & Hlay').
    cbn [grel] in Hrel. destruct Hrel as (cxn & Hdec & Hcxn & Hrcn & Hrel').
    cbn [map concat] in Hsy, Hdata.
    destruct (g_syms g) as [|p0 remp] eqn:Egs; [congruence|].
    assert (Hz : zlen (p0 :: remp) = zlen remp + 1) by (unfold zlen; cbn [length]; lia).
    assert (Hzr : 0 <= zlen remp) by (unfold zlen; lia).
    rewrite Hz in *.
    subst rest. cbn [app] in E. inversion E; subst c1'. clear E.
    rewrite Nat2Z.id in Hlast. specialize (Hlast bp pt Hnth).
    assert (Ekind : is_lazy_raw bp maxbp pt style = g_raw g).
    { apply (Hkinds 0 bp pt ltac:(lia)). rewrite Z.add_0_r, Nat2Z.id. exact Hnth. }
    remember (concat (map g_seg gs')) as tailb eqn:Etb.
    unfold seg_pre. rewrite Hn. cbv zeta. rewrite Hlast.
    replace (Z.of_nat k + (zlen remp + 1) - 1) with (Z.of_nat k + zlen remp) in * by lia.
    rewrite Hplens, Hpe.
    assert (Hdl2 : zlen data = zlen done + (zlen (g_seg g) + zlen tailb)).
    { rewrite Hdata. unfold zlen. rewrite !app_length. lia. }
    replace ((zlen done + zlen (g_seg g) <? zlen done) || (zlen data <? zlen done + zlen (g_seg g))) with false.
    2:{ symmetry. apply orb_false_iff. unfold zlen in *. split; apply Z.ltb_ge; lia. }
    rewrite Hdata, slice_mid.
    pose proof (Forall_inv Hsyg) as Hp0. pose proof (Forall_inv_tail Hsyg) as Hremp.
    assert (Hkinds' : forall j bp pt, 0 <= j <= zlen remp -> nth_error pl (Z.to_nat (Z.of_nat k + j)) = Some (bp, pt) ->
                        is_lazy_raw bp maxbp pt style = g_raw g).
    { intros j b p Hj Hn'. apply (Hkinds j b p); [lia|exact Hn']. }
    rewrite Ekind. unfold grp_dec_ok in Hdec. rewrite Egs in Hdec. fold reset in Hdec.
    destruct (g_raw g) eqn:Eraw.
    + (* raw group *)
      destruct Hdec as [(r' & Edec) Ecxn]. subst cxn. cbn [concat] in Edec.
      assert (Hk0 : 0 < Z.of_nat k).
      { destruct k; [|lia]. destruct (Hi0 eq_refl) as [_ Habs]. congruence. }
      eexists. split; [reflexivity|]. cbn [fst snd].
      split; [exact Hi|]. exists remp, (concat (map g_syms gs')). split; [reflexivity|].
      exists true, done, (g_seg g), cx, gs'.
      cbn [sg_co sg_segEnd sg_segLast sg_need sg_mqStarted sg_prevctx]. rewrite <- Etb.
      split; [exact Hp0|]. split; [exact Hremp|]. split; [exact Hkinds'|]. split; [reflexivity|]. split; [exact Hdata|].
      split; [reflexivity|]. split; [reflexivity|]. split; [reflexivity|].
      split; [rewrite Hm; apply Z.ltb_lt; exact Hk0|].
      split; [exact Hcx|]. split; [exact Hr|]. split; [exact Hrel'|].
      split; [replace (Z.of_nat k + zlen remp + 1) with (Z.of_nat k + (zlen remp + 1)) by lia; exact Hlay'|].
      split; [exists (raw_new (g_seg g)), r'; split; [reflexivity|exact Edec]|].
      intros Hrf. apply Hpc; assumption.
    + (* MQ group *)
      cbn [map] in Hdec. destruct Hdec as (dd & cxf & Edd & Hfut & Ecxn).
      assert (Hcxf : reset = false -> cxf = cxn) by (intros Hrf; rewrite Ecxn, Hrf; reflexivity).
      cbn [sym_okr] in Hp0.
      destruct (negb (sg_mqStarted c2) || reset) eqn:Efresh.
      * assert (Ecx0 : cx = cx0).
        { apply orb_true_iff in Efresh. destruct Efresh as [Ef|Ef]; [|apply Hr; exact Ef].
          apply negb_true_iff in Ef. rewrite Hm in Ef. apply Z.ltb_ge in Ef. apply Hi0. lia. }
        rewrite Ecx0 in Edd. destruct (dec_new_set3 _ dd Edd) as (dn & En & Es).
        rewrite En. cbn [obind]. rewrite Es.
        eexists. split; [reflexivity|]. cbn [fst snd].
        split; [exact Hi|]. exists remp, (concat (map g_syms gs')). split; [reflexivity|].
        exists false, done, (g_seg g), cxn, gs'.
        cbn [sg_co sg_segEnd sg_segLast sg_need sg_mqStarted sg_prevctx]. rewrite <- Etb.
        split; [exact Hp0|]. split; [exact Hremp|]. split; [exact Hkinds'|]. split; [reflexivity|]. split; [exact Hdata|].
        split; [reflexivity|]. split; [reflexivity|]. split; [reflexivity|]. split; [reflexivity|].
        split; [exact Hcxn|]. split; [exact Hrcn|]. split; [exact Hrel'|].
        split; [replace (Z.of_nat k + zlen remp + 1) with (Z.of_nat k + (zlen remp + 1)) by lia; exact Hlay'|].
        exists dd, cxf. auto.
      * apply orb_false_iff in Efresh. destruct Efresh as [Ef Er]. apply negb_false_iff in Ef.
        pose proof Ef as Ef'. rewrite Hm in Ef'. apply Z.ltb_lt in Ef'. rewrite (Hpc Ef' Er). rewrite Edd. cbn [obind].
        eexists. split; [reflexivity|]. cbn [fst snd].
        split; [exact Hi|]. exists remp, (concat (map g_syms gs')). split; [reflexivity|].
        exists false, done, (g_seg g), cxn, gs'.
        cbn [sg_co sg_segEnd sg_segLast sg_need sg_mqStarted sg_prevctx]. rewrite <- Etb.
        split; [exact Hp0|]. split; [exact Hremp|]. split; [exact Hkinds'|]. split; [reflexivity|]. split; [exact Hdata|].
        split; [reflexivity|]. split; [reflexivity|]. split; [reflexivity|]. split; [exact Ef|].
        split; [exact Hcxn|]. split; [exact Hrcn|]. split; [exact Hrel'|].
        split; [replace (Z.of_nat k + zlen remp + 1) with (Z.of_nat k + (zlen remp + 1)) by lia; exact Hlay'|].
        exists dd, cxf. auto.
  - (* the next pass of the running group *)
    destruct Hin as (cur & remp & tails & Hsnd & Hcore). subst rest. inversion E; subst c1'. clear E.
    pose proof Hcore as (kind & done & seg & cxn & gs & _ & _ & _ & _ & _ & _ & _ & Hn & _).
    unfold seg_pre. rewrite Hn.
    eexists. split; [reflexivity|]. cbn [fst snd].
    split; [exact Hi|]. exists remp, tails. split; [reflexivity|exact Hcore].
Qed.

Lemma GB_post : forall k bp pt c1 c2, nth_error pl k = Some (bp, pt) -> GB (Z.of_nat k) c1 c2 ->
  fsim (GA (Z.of_nat k + 1)) (ideal_post (Z.of_nat k) bp pt (is_lazy_raw bp maxbp pt style) c1)
       (seg_post reset (Z.of_nat k) bp pt (is_lazy_raw bp maxbp pt style) c2).
Proof.
  intros k bp pt [cur rest] c2 Hnth (Hi & remp & tails & Hsnd & kind & done & seg & cxn & gs & Hcur & Hremp & Hkinds & Htails & Hdata & Hse & Hsl & Hn & Hm & Hcxn & Hrc & Hrel & Hlay & Hco) c1' E.
  cbn [fst snd] in *. unfold ideal_post in E. cbn [fst] in E.
  destruct cur; [|discriminate]. inversion E; subst c1'. clear E.
  assert (Ekind : is_lazy_raw bp maxbp pt style = kind).
  { apply (Hkinds 0 bp pt); [unfold zlen; lia|]. rewrite Z.add_0_r, Nat2Z.id. exact Hnth. }
  assert (Hz : zlen (done ++ seg) = zlen done + zlen seg) by (unfold zlen; rewrite app_length; lia).
  rewrite Ekind. unfold seg_post.
  destruct remp as [|p1 remp'].
  - (* last pass of the group *)
    change (zlen (@nil (list sym))) with 0 in *. rewrite Z.add_0_r in Hsl.
    replace (Z.of_nat k + 0 + 1) with (Z.of_nat k + 1) in Hlay by lia.
    cbn [app] in Hsnd. subst rest.
    destruct kind.
    + destruct Hco as ((r & r' & Eco & _) & Hpc).
      cbn [obind]. rewrite Hsl, Z.eqb_refl.
      eexists. split; [reflexivity|]. cbn [fst snd].
      split; [reflexivity|]. split; [lia|]. left.
      exists (done ++ seg), cxn, gs. cbn [sg_prevEnd sg_need sg_mqStarted sg_prevctx sg_segEnd].
      rewrite Hz, Hse.
      split; [exact Hcxn|]. split; [exact Htails|]. split; [exact Hrel|]. split; [exact Hlay|].
      split; [rewrite <- app_assoc; exact Hdata|].
      split; [reflexivity|]. split; [reflexivity|]. split; [rewrite Hm; symmetry; apply Z.ltb_lt; lia|].
      split; [intros H0; lia|]. split; [exact Hrc|]. intros _ Hrf. apply Hpc. exact Hrf.
    + destruct Hco as (d & cxf & Eco & Hfut & Hcxf).
      cbn [decs map dec_future_cx] in Hfut. destruct Hfut as (d1 & Edec & Hfin).
      change (dec_decode_list d []) with (Ok (d, @nil Z)) in Edec. inversion Edec; subst d1. clear Edec.
      rewrite Eco.
      destruct reset eqn:Ereset; cbn [obind sg_segLast]; rewrite Hsl, Z.eqb_refl.
      * eexists. split; [reflexivity|]. cbn [fst snd].
        split; [reflexivity|]. split; [lia|]. left.
        exists (done ++ seg), cxn, gs. cbn [sg_prevEnd sg_need sg_mqStarted sg_prevctx sg_segEnd].
        rewrite Hz, Hse. rewrite ?Ereset.
        split; [exact Hcxn|]. split; [exact Htails|]. split; [exact Hrel|]. split; [exact Hlay|].
        split; [rewrite <- app_assoc; exact Hdata|].
        split; [reflexivity|]. split; [reflexivity|]. split; [rewrite Hm; symmetry; apply Z.ltb_lt; lia|].
        split; [intros H0; lia|]. split; [exact Hrc|]. intros _ Hf. discriminate.
      * eexists. split; [reflexivity|]. cbn [fst snd].
        split; [reflexivity|]. split; [lia|]. left.
        exists (done ++ seg), cxn, gs. cbn [sg_prevEnd sg_need sg_mqStarted sg_prevctx sg_segEnd].
        rewrite Hz, Hse. rewrite ?Ereset.
        split; [exact Hcxn|]. split; [exact Htails|]. split; [exact Hrel|]. split; [exact Hlay|].
        split; [rewrite <- app_assoc; exact Hdata|].
        split; [reflexivity|]. split; [reflexivity|]. split; [rewrite Hm; symmetry; apply Z.ltb_lt; lia|].
        split; [intros H0; lia|]. split; [intros Hf; discriminate|]. intros _ _. rewrite Hfin. apply Hcxf. reflexivity.
  - (* a later pass of the group follows *)
    assert (Hz1 : zlen (p1 :: remp') = zlen remp' + 1) by (unfold zlen; cbn [length]; lia).
    assert (Hzr : 0 <= zlen remp') by (unfold zlen; lia).
    rewrite Hz1 in *.
    assert (Hne : (Z.of_nat k =? Z.of_nat k + (zlen remp' + 1)) = false) by (apply Z.eqb_neq; lia).
    assert (Hkinds' : forall j bp pt, 0 <= j <= zlen remp' -> nth_error pl (Z.to_nat (Z.of_nat k + 1 + j)) = Some (bp, pt) ->
                        is_lazy_raw bp maxbp pt style = kind).
    { intros j b p Hj Hn'. apply (Hkinds (j + 1) b p); [lia|].
      replace (Z.of_nat k + (j + 1)) with (Z.of_nat k + 1 + j) by lia. exact Hn'. }
    replace (Z.of_nat k + (zlen remp' + 1) + 1) with (Z.of_nat k + 1 + zlen remp' + 1) in Hlay by lia.
    cbn [app] in Hsnd. subst rest.
    pose proof (Forall_inv Hremp) as Hp1. pose proof (Forall_inv_tail Hremp) as Hremp'.
    destruct kind.
    + destruct Hco as ((r & r' & Eco & Edec) & Hpc).
      cbn [obind]. rewrite Hsl, Hne.
      eexists. split; [reflexivity|]. cbn [fst snd].
      split; [reflexivity|]. split; [lia|]. right.
      exists p1, remp', tails. split; [reflexivity|].
      exists true, done, seg, cxn, gs.
      split; [exact Hp1|]. split; [exact Hremp'|]. split; [exact Hkinds'|]. split; [exact Htails|]. split; [exact Hdata|].
      split; [exact Hse|]. split; [try rewrite Hsl; lia|]. split; [exact Hn|]. split; [exact Hm|]. split; [exact Hcxn|].
      split; [exact Hrc|]. split; [exact Hrel|]. split; [exact Hlay|].
      split; [|exact Hpc]. exists r, r'. split; [exact Eco|exact Edec].
    + destruct Hco as (d & cxf & Eco & Hfut & Hcxf).
      cbn [decs map dec_future_cx] in Hfut. destruct Hfut as (d1 & Edec & Hfut).
      change (dec_decode_list d []) with (Ok (d, @nil Z)) in Edec. inversion Edec; subst d1. clear Edec.
      rewrite Eco.
      destruct reset eqn:Ereset; cbn [obind sg_segLast]; rewrite Hsl, Hne.
      * eexists. split; [reflexivity|]. cbn [fst snd].
        split; [reflexivity|]. split; [lia|]. right.
        exists p1, remp', tails. split; [reflexivity|].
        exists false, done, seg, cxn, gs.
        cbn [sg_co sg_segEnd sg_segLast sg_need sg_mqStarted sg_prevctx]. rewrite ?Ereset.
        split; [exact Hp1|]. split; [exact Hremp'|]. split; [exact Hkinds'|]. split; [exact Htails|]. split; [exact Hdata|].
        split; [exact Hse|]. split; [try rewrite Hsl; lia|]. split; [exact Hn|]. split; [exact Hm|]. split; [exact Hcxn|].
        split; [exact Hrc|]. split; [exact Hrel|]. split; [exact Hlay|].
        exists (r_d d), cxf. split; [reflexivity|]. split; [exact Hfut|exact Hcxf].
      * eexists. split; [reflexivity|]. cbn [fst snd].
        split; [reflexivity|]. split; [lia|]. right.
        exists p1, remp', tails. split; [reflexivity|].
        exists false, done, seg, cxn, gs.
        cbn [sg_co sg_segEnd sg_segLast sg_need sg_mqStarted sg_prevctx]. rewrite ?Ereset.
        split; [exact Hp1|]. split; [exact Hremp'|]. split; [exact Hkinds'|]. split; [exact Htails|]. split; [exact Hdata|].
        split; [exact Hse|]. split; [try rewrite Hsl; lia|]. split; [exact Hn|]. split; [exact Hm|]. split; [exact Hcxn|].
        split; [exact Hrc|]. split; [exact Hrel|]. split; [exact Hlay|].
        exists d, cxf. split; [reflexivity|]. split; [exact Hfut|exact Hcxf].
Qed.
End Rel.
