(* TERMALL (one MQ codeword segment per coding pass, FlushToOutput + RestartInitEnc between
   passes; no bypass, no predictable termination): what the encoder model writes.  The bytes are
   the concatenation of the codewords fresh MQ encoders produce for each pass's decisions
   (T1ProofsRestart), the Rate values are the running lengths, normalizePassRates leaves them
   alone. *)
From V Require Import Common.Base MQ.MqModel MQ.MqProofs MQ.MqProofsDec MQ.MqProofsRt MQ.MqProofsRt2 MQ.MqProofsTerm MQ.MqProofsSeg.
From V Require Import T1.T1Store T1.T1Ctx T1.T1CtxProofs T1.T1Model T1.T1Bytes T1.T1ProofsBase
  T1.T1ProofsSeq T1.T1ProofsSim T1.T1ProofsMqRt T1.T1ProofsComp T1.T1ProofsRestart.

Definition termall_style (style : Z) : Prop :=
  Z.land style CblkStyleTermAll <> 0 /\ Z.land style CblkStyleLazy = 0.      (* TERMALL, no LAZY *)

Lemma termall_bits : forall style, termall_style style ->
  Z.land style CblkStyleLazy = 0 /\ negb (Z.land style CblkStyleTermAll =? 0) = true.
Proof.
  intros style [Ht H]. split; [exact H|]. apply negb_true_iff. apply Z.eqb_neq. exact Ht.
Qed.

Lemma termall_raw : forall style bp maxbp pt, termall_style style -> is_lazy_raw bp maxbp pt style = false.
Proof. intros style bp maxbp pt H. unfold is_lazy_raw. destruct (termall_bits style H) as (-> & _). reflexivity. Qed.

Lemma termall_term : forall style bp maxbp pt, termall_style style -> is_terminating bp maxbp pt style = true.
Proof.
  intros style bp maxbp pt H. unfold is_terminating. destruct (termall_bits style H) as (_ & ->).
  destruct ((pt =? 2) && (bp =? 0)); reflexivity.
Qed.

(* ---------- contexts and segments ---------- *)
Definition cxs_ok (cx : list Z) : Prop := Forall cx_ok cx /\ zlen cx = 19.

Definition next_cx (reset : bool) (cx : list Z) (l : list (Z * Z)) : list Z :=
  if reset then cx0 else e_cx (enc_encode_list (enc_new_cx cx) l).

(* how a terminated MQ pass is closed: ErtermEnc (PTERM) or FlushToOutput *)
Definition fl (pterm : bool) (e : enc) : enc := if pterm then enc_erterm e else enc_flush_state e.
(* the codeword a fresh encoder (contexts cx) produces for the decisions l *)
Definition seg_fn (pterm : bool) (cx : list Z) (l : list (Z * Z)) : list Z :=
  enc_get_buffer (fl pterm (enc_encode_list (enc_new_cx cx) l)).

Fixpoint segs_of (pterm reset : bool) (cx : list Z) (passes : list (list (Z * Z))) : list (list Z) :=
  match passes with
  | [] => []
  | l :: r => seg_fn pterm cx l :: segs_of pterm reset (next_cx reset cx l) r
  end.

Lemma cx0_cxs_ok : cxs_ok cx0.
Proof. split; [exact cx0_ok|exact cx0_len]. Qed.

Lemma next_cx_ok : forall reset cx l, cxs_ok cx -> cxs_ok (next_cx reset cx l).
Proof.
  intros reset cx l [Hok Hlen]. unfold next_cx. destruct reset; [exact cx0_cxs_ok|].
  pose proof (enc_encode_list_inv l _ (enc_new_inv cx Hok)) as [[_ _ _ _ _ Hcx] _].
  split; [exact Hcx|]. rewrite enc_encode_list_cx_len. exact Hlen.
Qed.

Lemma reset_cx_19 : forall cx, zlen cx = 19 -> reset_cx cx = cx0.
Proof.
  intros cx H. unfold zlen in H.
  do 20 (destruct cx as [|? cx]; try (cbn [length] in H; lia)). reflexivity.
Qed.

(* ---------- the state between two terminated passes ---------- *)
Definition TI (e : enc) : Prop :=
  exists h P, e_pre e = h :: P /\ h <> 255 /\ buf_ok (h :: P) /\ cxs_ok (e_cx e).

Lemma restart_inv : forall e, TI e -> enc_inv (enc_restart_init e).
Proof.
  intros e (h & P & E & Hh & Hb & Hcx & _). unfold enc_restart_init. rewrite E.
  destruct (Z.eqb_spec h 255) as [|_]; [contradiction|].
  destruct (buf_ok_head _ _ Hb) as [Hbyte Hnm]. unfold is_byteP in Hbyte.
  split; [|cbn [e_a]; lia].
  constructor; cbn [e_a e_c e_ct e_pre e_post e_cx]; try lia; try exact Hcx.
  exists h, (e_post e). split; [reflexivity|]. split; [exact Hb|].
  intros H255. specialize (Hnm H255). change (2 ^ 12) with 4096. change (2 ^ 27) with 134217728. lia.
Qed.

Lemma restart_cx : forall e, e_cx (enc_restart_init e) = e_cx e.
Proof. intros e. unfold enc_restart_init. destruct (e_pre e); reflexivity. Qed.

Lemma flush_state_cx : forall e, e_cx (enc_flush_state e) = e_cx e.
Proof.
  intros e. unfold enc_flush_state.
  set (e2 := enc_byteout (enc_shift_ct (enc_byteout (enc_shift_ct (enc_setbits e))))).
  assert (E2 : e_cx e2 = e_cx e).
  { unfold e2. rewrite enc_byteout_cx. unfold enc_shift_ct. cbn [e_cx]. rewrite enc_byteout_cx. reflexivity. }
  destruct (e_post e2) as [|last rest]; [exact E2|]. destruct (last =? 255); [exact E2|exact E2].
Qed.

Lemma erterm_loop_cx : forall f k e, e_cx (snd (enc_erterm_loop f k e)) = e_cx e.
Proof.
  induction f as [|f IH]; intros k e; cbn [enc_erterm_loop]; [reflexivity|].
  destruct (0 <? k); [|reflexivity]. rewrite IH, enc_byteout_cx. reflexivity.
Qed.

Lemma erterm_cx : forall e, e_cx (enc_erterm e) = e_cx e.
Proof.
  intros e. unfold enc_erterm.
  destruct (e_post (snd (enc_erterm_loop 4 (11 - e_ct e + 1) e))) as [|last rest]; [apply erterm_loop_cx|].
  destruct (last =? 255); [apply erterm_loop_cx|]. rewrite enc_byteout_cx. apply erterm_loop_cx.
Qed.

Lemma fl_cx : forall pterm e, e_cx (fl pterm e) = e_cx e.
Proof. intros [|] e; [apply erterm_cx|apply flush_state_cx]. Qed.

Lemma fl_buf_ok : forall pterm e, enc_inv e -> buf_ok (e_pre (fl pterm e)).
Proof.
  intros [|] e Hinv; cbn [fl].
  - destruct (erterm_state_spec e Hinv) as (e1 & last1 & stale & _ & _ & _ & Hbuf & Epre & _).
    rewrite Epre. destruct (last1 =? 255); [eapply buf_ok_tail; exact Hbuf|exact Hbuf].
  - destruct (flush_state_spec e Hinv) as (h & P' & EP & _ & _ & Hb). rewrite EP. exact Hb.
Qed.

Lemma enc_terminate_fl : forall pterm e, enc_inv e -> enc_terminate e false pterm = Ok (fl pterm e).
Proof.
  intros [|] e Hinv; unfold enc_terminate; cbn [fl]; [|reflexivity].
  destruct (enc_erterm_no_marker e Hinv) as (Hpan & Hfuel & _).
  destruct (Z.ltb_spec 0 (fst (enc_erterm_loop 4 (11 - e_ct e + 1) e))); [lia|]. rewrite Hpan. reflexivity.
Qed.

Lemma seg_fn_false : forall cx l, seg_fn false cx l = enc_flush (enc_encode_list (enc_new_cx cx) l).
Proof. intros. unfold seg_fn, enc_flush. cbn [fl]. reflexivity. Qed.

Lemma seg_fn_true : forall cx l, seg_fn true cx l = enc_get_buffer (enc_erterm (enc_encode_list (enc_new_cx cx) l)).
Proof. intros. unfold seg_fn. cbn [fl]. reflexivity. Qed.

(* the fresh codeword: buffer shape, last byte, and what a decoder started on it returns *)
Lemma fresh_segment : forall pterm cx l, Forall cx_ok cx -> Forall (decision_ok (zlen cx)) l ->
  let en := enc_encode_list (enc_new_cx cx) l in
  rev (e_pre (fl pterm en)) = 0 :: seg_fn pterm cx l /\ last (seg_fn pterm cx l) 0 <> 255 /\
  exists dd d', dec_new_cx (seg_fn pterm cx l) cx = Ok dd /\
    dec_decode_list dd (map snd l) = Ok (d', map fst l) /\ d_cx d' = e_cx en.
Proof.
  intros pterm cx l Hcx Hl. cbv zeta. destruct pterm.
  - rewrite seg_fn_true. cbn [fl].
    destruct (mq_erterm_segment cx l Hcx Hl) as (_ & _ & seg & E1 & E2 & E3 & E4).
    cbv zeta in E1, E2, E3, E4. rewrite <- E2. auto.
  - rewrite seg_fn_false. cbn [fl].
    destruct (mq_segment_rt cx l Hcx Hl) as (E1 & Hne & E4). cbv zeta in E1, Hne, E4.
    split; [exact E1|]. split; [|exact E4].
    assert (Hinv : enc_inv (enc_encode_list (enc_new_cx cx) l)) by (apply enc_encode_list_inv; apply enc_new_inv; exact Hcx).
    destruct (flush_state_spec _ Hinv) as (h & P' & EP & _ & Hh & _).
    rewrite EP in E1. cbn [rev] in E1.
    destruct (last_rev_cons h P' 0 _ E1) as [E|E]; [congruence|rewrite E; exact Hh].
Qed.

Lemma sim_restart' : forall e h P, e_pre e = h :: P -> h <> 255 ->
  shift_sim h P (enc_new_cx (e_cx e)) (enc_restart_init e).
Proof.
  intros e h P E Hh. unfold enc_restart_init. rewrite E.
  destruct (Z.eqb_spec h 255) as [|_]; [contradiction|].
  apply SS0; cbn [enc_new_cx e_a e_c e_ct e_cx e_pre e_post]; auto.
  - repeat split.
  - eexists; reflexivity.
  - eexists; reflexivity.
Qed.

Lemma sim_fl : forall pterm h P ef er, h <> 255 -> 0 <= h < 256 -> shift_sim h P ef er ->
  flushed_sim h P (fl pterm ef) (fl pterm er).
Proof. intros [|] h P ef er Hh Hb Hs; [apply sim_erterm|apply sim_flush_state]; assumption. Qed.

Lemma last_app_ne : forall (a b : list Z), last a 0 <> 255 -> last b 0 <> 255 -> last (a ++ b) 0 <> 255.
Proof.
  intros a b Ha Hb. destruct b as [|x b']; [rewrite app_nil_r; exact Ha|].
  destruct (exists_last (l := x :: b') ltac:(discriminate)) as (b0 & y & E). rewrite E in *.
  rewrite app_assoc, last_last. rewrite last_last in Hb. exact Hb.
Qed.

Lemma hd_rev_last : forall (d : list Z), hd 0 (rev d ++ [0]) = last d 0.
Proof.
  intros d. destruct d as [|x d'] using rev_ind; [reflexivity|].
  rewrite rev_app_distr, last_last. reflexivity.
Qed.

Opaque enc_flush enc_encode_list enc_new_cx enc_flush_state enc_restart_init enc_erterm.

(* one restarted segment *)
Lemma restart_segment : forall pterm e data0 l, TI e -> e_pre e = rev data0 ++ [0] -> last data0 0 <> 255 ->
  Forall (decision_ok 19) l ->
  let er := fl pterm (enc_encode_list (enc_restart_init e) l) in
  let seg := seg_fn pterm (e_cx e) l in
  e_pre er = rev (data0 ++ seg) ++ [0] /\ last seg 0 <> 255 /\
  e_cx er = e_cx (enc_encode_list (enc_new_cx (e_cx e)) l) /\
  (exists h P, e_pre er = h :: P /\ h <> 255 /\ buf_ok (h :: P)).
Proof.
  intros pterm e data0 l HTI Hpre Hlast0 Hl er seg.
  pose proof HTI as (h & P & E & Hh & Hb & Hcx & Hlen).
  destruct (buf_ok_head _ _ Hb) as [Hbyte _]. unfold is_byteP in Hbyte.
  (* the fresh run *)
  destruct (fresh_segment pterm (e_cx e) l Hcx ltac:(rewrite Hlen; exact Hl)) as (Hfr & Hlast & _).
  cbv zeta in Hfr. fold seg in Hfr, Hlast.
  set (ef := fl pterm (enc_encode_list (enc_new_cx (e_cx e)) l)) in *.
  clearbody seg.
  assert (Hef : e_pre ef = rev seg ++ [0]).
  { apply (f_equal (@rev Z)) in Hfr. rewrite rev_involutive in Hfr. rewrite Hfr. cbn [rev]. reflexivity. }
  (* the simulation *)
  pose proof (sim_fl pterm h P _ _ Hh Hbyte
                (sim_encode_list h P l _ _ Hh Hbyte (sim_restart' e h P E Hh))) as Hsim.
  fold ef in Hsim. fold er in Hsim.
  destruct Hsim as [(B & d & EB & Hd)|(Ecx & B & EBf & EBr)].
  { rewrite Hef in EB. apply app_inj_tail in EB. destruct EB as [_ Ed]. congruence. }
  rewrite Hef in EBf. apply app_inj_tail in EBf. destruct EBf as [EB _]. subst B.
  assert (Hinvr : enc_inv (enc_encode_list (enc_restart_init e) l))
    by (apply enc_encode_list_inv; apply restart_inv; exact HTI).
  assert (Hpre2 : e_pre er = rev (data0 ++ seg) ++ [0]).
  { rewrite EBr. rewrite E in Hpre. rewrite rev_app_distr, <- app_assoc. f_equal. exact Hpre. }
  split; [exact Hpre2|]. split; [exact Hlast|]. split.
  - rewrite <- Ecx. unfold ef. apply fl_cx.
  - pose proof (fl_buf_ok pterm _ Hinvr) as Hbo. fold er in Hbo.
    pose proof (hd_rev_last (data0 ++ seg)) as Hhd. rewrite <- Hpre2 in Hhd.
    destruct (e_pre er) as [|h' P'] eqn:Eer.
    { apply (f_equal (@length Z)) in Hpre2. rewrite app_length in Hpre2. cbn [length] in Hpre2. lia. }
    exists h', P'. split; [reflexivity|]. split; [|exact Hbo].
    cbn [hd] in Hhd. rewrite Hhd. apply last_app_ne; assumption.
Qed.

(* ---------- all passes ---------- *)
Fixpoint term_ps (pl : list (Z * Z)) (off : Z) (segs : list (list Z)) : list passrec :=
  match pl, segs with
  | (bp, pt) :: pl', s :: segs' =>
    mkPass bp pt (off + zlen s) (off + zlen s) true :: term_ps pl' (off + zlen s) segs'
  | _, _ => []
  end.

Lemma num_bytes_pre : forall e d, e_pre e = rev d ++ [0] -> enc_num_bytes e = zlen d.
Proof.
  intros e d E. unfold enc_num_bytes, enc_bp, zlen. rewrite E, app_length, rev_length. cbn [length].
  destruct (Z.ltb_spec (Z.of_nat (length d + 1)) 1); lia.
Qed.

Lemma TI_after : forall (reset : bool) er, (exists h P, e_pre er = h :: P /\ h <> 255 /\ buf_ok (h :: P)) ->
  cxs_ok (e_cx er) -> TI (if reset then r_e er else er).
Proof.
  intros reset er (h & P & E & Hh & Hb) Hcx. destruct reset.
  - exists h, P. rewrite r_e_cxset. cbn [cxset e_pre e_cx].
    split; [exact E|split; [exact Hh|split; [exact Hb|split; [apply reset_cx_ok|]]]].
    unfold zlen. rewrite reset_cx_length. apply Hcx.
  - exists h, P. split; [exact E|split; [exact Hh|split; [exact Hb|exact Hcx]]].
Qed.

Lemma enc_bytes_termall_tail : forall style maxbp pl syms e data0, termall_style style ->
  length syms = length pl -> Forall (Forall sym_mq) syms -> TI e -> e_pre e = rev data0 ++ [0] ->
  last data0 0 <> 255 ->
  let reset := negb (Z.land style CblkStyleReset =? 0) in
  let pterm := negb (Z.land style CblkStylePterm =? 0) in
  let segs := segs_of pterm reset (e_cx e) (map decs syms) in
  exists e',
    enc_bytes_passes style maxbp pl syms true e = Ok ((e', true), term_ps pl (zlen data0) segs) /\
    e_pre e' = rev (data0 ++ concat segs) ++ [0] /\
    Forall (fun s => last s 0 <> 255) segs /\ length segs = length pl.
Proof.
  intros style maxbp pl. induction pl as [|[bp pt] r IH]; intros syms e data0 Hs Hlen Hsy HTI Hpre Hl0 reset pterm segs.
  - destruct syms; [|discriminate]. exists e. cbn. rewrite app_nil_r. auto.
  - destruct syms as [|ss syms']; [discriminate|]. cbn [length] in Hlen.
    pose proof (Forall_inv Hsy) as Hss. pose proof (Forall_inv_tail Hsy) as Hsy'.
    pose proof HTI as (h0 & P0 & _ & _ & _ & Hcx0).
    cbn [enc_bytes_passes].
    rewrite (termall_raw style bp maxbp pt Hs), (termall_term style bp maxbp pt Hs).
    fold pterm. cbv iota.
    pose proof (restart_inv e HTI) as Hinv1.
    rewrite (enc_syms_o_mq ss _ Hss Hinv1 ltac:(rewrite restart_cx; apply Hcx0)). cbn [obind].
    rewrite (enc_terminate_fl pterm _ (enc_encode_list_inv _ _ Hinv1)). cbn [obind].
    destruct (restart_segment pterm e data0 (decs ss) HTI Hpre Hl0 (sym_mq_decision ss Hss)) as (Hpre2 & Hlast & Hcx2 & Hhd).
    set (er := fl pterm (enc_encode_list (enc_restart_init e) (decs ss))) in *.
    set (seg := seg_fn pterm (e_cx e) (decs ss)) in *.
    change (set3_e (enc_reset_contexts er)) with (r_e er). fold reset.
    assert (Hcxer : cxs_ok (e_cx er)).
    { rewrite Hcx2. apply (next_cx_ok false (e_cx e) (decs ss)). exact Hcx0. }
    assert (HTI2 : TI (if reset then r_e er else er)) by (apply TI_after; assumption).
    assert (Hpre3 : e_pre (if reset then r_e er else er) = rev (data0 ++ seg) ++ [0]).
    { destruct reset; [rewrite r_e_cxset; cbn [cxset e_pre]|]; exact Hpre2. }
    assert (Hcx3 : e_cx (if reset then r_e er else er) = next_cx reset (e_cx e) (decs ss)).
    { unfold next_cx. destruct reset.
      - rewrite r_e_cxset. cbn [cxset e_cx]. apply reset_cx_19. apply Hcxer.
      - exact Hcx2. }
    destruct (IH syms' (if reset then r_e er else er) (data0 ++ seg) Hs ltac:(lia) Hsy' HTI2 Hpre3
                 (last_app_ne _ _ Hl0 Hlast))
      as (e' & E & Hpre' & Hsegs & Hlen').
    fold reset pterm in E, Hpre', Hsegs, Hlen'. rewrite Hcx3 in E, Hpre', Hsegs, Hlen'.
    rewrite E. cbn [obind fst snd].
    exists e'. unfold segs. cbn [map segs_of concat term_ps length]. fold seg.
    rewrite (num_bytes_pre _ _ Hpre3).
    replace (zlen (data0 ++ seg)) with (zlen data0 + zlen seg) in * by (unfold zlen; rewrite app_length; lia).
    split; [reflexivity|]. split; [rewrite app_assoc; exact Hpre'|].
    split; [constructor; assumption|]. rewrite Hlen'. reflexivity.
Qed.

(* ---------- normalizePassRates does nothing on these passes ---------- *)
Fixpoint desc_ok (data : list Z) (psr : list passrec) (hi : Z) : Prop :=
  match psr with
  | [] => True
  | p :: r => p_rate p <= hi /\ p_actual p = p_rate p /\
              (p_rate p <= 0 \/ znth data (p_rate p - 1) 0 <> 255) /\ desc_ok data r (p_rate p)
  end.

Lemma normalize_rev_id : forall data psr hi, desc_ok data psr hi -> normalize_rev data psr hi = psr.
Proof.
  intros data psr. induction psr as [|p r IH]; intros hi H; cbn [normalize_rev]; [reflexivity|].
  destruct H as (H1 & H2 & H4 & H5).
  destruct (Z.ltb_spec hi (p_rate p)); [lia|].
  replace ((0 <? p_rate p) && (p_rate p <=? zlen data) && (znth data (p_rate p - 1) 0 =? 255)) with false.
  2:{ symmetry. destruct H4 as [H4|H4].
      - replace (0 <? p_rate p) with false by (symmetry; apply Z.ltb_ge; lia). reflexivity.
      - apply andb_false_iff. right. apply Z.eqb_neq. exact H4. }
  rewrite H2. destruct (Z.ltb_spec (p_rate p) (p_rate p)); [lia|].
  rewrite (IH _ H5). destruct p; cbn in *. subst. reflexivity.
Qed.

Lemma desc_ok_snoc : forall data X p hi, desc_ok data X hi ->
  p_rate p <= hi -> (forall q, In q X -> p_rate p <= p_rate q) ->
  p_actual p = p_rate p -> (p_rate p <= 0 \/ znth data (p_rate p - 1) 0 <> 255) ->
  desc_ok data (X ++ [p]) hi.
Proof.
  intros data X. induction X as [|q X IH]; intros p hi HX Hhi Hall Ha Hb.
  - cbn. auto.
  - cbn [app desc_ok] in *. destruct HX as (H1 & H2 & H4 & H5).
    repeat split; auto. apply IH; auto.
    + apply Hall. left. reflexivity.
    + intros q' Hq'. apply Hall. right. exact Hq'.
Qed.

Lemma term_ps_rates_ge : forall pl off segs q, In q (term_ps pl off segs) -> off <= p_rate q.
Proof.
  induction pl as [|[bp pt] pl IH]; intros off segs q Hq; [destruct Hq|].
  destruct segs as [|s segs]; [destruct Hq|]. cbn [term_ps] in Hq.
  pose proof (Zle_0_nat (length s)) as Hs. fold (zlen s) in Hs.
  destruct Hq as [<-|Hq]; [cbn; lia|]. specialize (IH _ _ _ Hq). lia.
Qed.

Lemma znth_last : forall (a r : list Z), a <> [] -> znth (a ++ r) (zlen a - 1) 0 = last a 0.
Proof.
  intros a r Ha. unfold znth, zlen.
  destruct (exists_last Ha) as (a' & x & ->). rewrite last_last, app_length. cbn [length].
  destruct (Z.ltb_spec (Z.of_nat (length a' + 1) - 1) 0); [lia|].
  replace (Z.to_nat (Z.of_nat (length a' + 1) - 1)) with (length a') by lia.
  rewrite <- app_assoc. rewrite app_nth2 by lia. rewrite Nat.sub_diag. reflexivity.
Qed.

Lemma term_ps_desc : forall pl segs data0 hi,
  Forall (fun s => last s 0 <> 255) segs -> last data0 0 <> 255 ->
  zlen data0 + zlen (concat segs) <= hi ->
  forall tail, desc_ok (data0 ++ concat segs ++ tail) (rev (term_ps pl (zlen data0) segs)) hi.
Proof.
  induction pl as [|[bp pt] pl IH]; intros segs data0 hi Hsegs Hl0 Hhi tail; [exact I|].
  destruct segs as [|s segs]; [exact I|]. cbn [term_ps rev concat] in *.
  pose proof (Forall_inv Hsegs) as Hlast. pose proof (Forall_inv_tail Hsegs) as Hsegs'.
  assert (Hz : zlen (s ++ concat segs) = zlen s + zlen (concat segs)) by (unfold zlen; rewrite app_length; lia).
  assert (Hz2 : zlen (data0 ++ s) = zlen data0 + zlen s) by (unfold zlen; rewrite app_length; lia).
  pose proof (Zle_0_nat (length (concat segs))) as Hc0. fold (zlen (concat segs)) in Hc0.
  pose proof (Zle_0_nat (length data0)) as Hd0. fold (zlen data0) in Hd0.
  pose proof (Zle_0_nat (length s)) as Hs0. fold (zlen s) in Hs0.
  apply desc_ok_snoc.
  - rewrite <- Hz2. replace (data0 ++ (s ++ concat segs) ++ tail) with ((data0 ++ s) ++ concat segs ++ tail)
      by (rewrite <- !app_assoc; reflexivity).
    apply IH; [exact Hsegs'|apply last_app_ne; assumption|]. rewrite Hz2. lia.
  - cbn [p_rate]. lia.
  - intros q Hq. apply in_rev in Hq. cbn [p_rate]. apply term_ps_rates_ge in Hq. exact Hq.
  - reflexivity.
  - cbn [p_rate].
    assert (Hcases : data0 ++ s = [] \/ data0 ++ s <> []) by (destruct (data0 ++ s); [left|right]; congruence).
    destruct Hcases as [E|E].
    + left. rewrite <- Hz2, E. change (zlen (@nil Z)) with 0. lia.
    + right. replace (data0 ++ (s ++ concat segs) ++ tail) with ((data0 ++ s) ++ (concat segs ++ tail))
        by (rewrite <- !app_assoc; reflexivity).
      rewrite <- Hz2. rewrite znth_last by exact E. apply last_app_ne; assumption.
Qed.
