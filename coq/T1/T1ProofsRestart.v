(* A codeword segment coded after RestartInitEnc is, byte for byte, the codeword a fresh MQ
   encoder produces for the same decisions and contexts.

   After FlushToOutput the buffer is  dummy, b1 .. bk (bk = h, not 0xFF);  RestartInitEnc steps
   back onto h, which then plays the role the dummy byte plays for a fresh encoder (the byte a
   carry could still reach).  The two runs are compared state by state: equal registers and
   contexts, and buffers  B ++ [0]  (fresh)  vs  B ++ h :: P  (restarted).  The comparison can only
   break if the fresh run carries into its dummy byte; that is excluded at the end, because the
   mq area's round-trip argument shows the dummy byte of a fresh encoder is still 0 after Flush. *)
From V Require Import Common.Base MQ.MqModel MQ.MqProofs.

Definition regs_eq (ef er : enc) : Prop :=
  e_a ef = e_a er /\ e_c ef = e_c er /\ e_ct ef = e_ct er /\ e_cx ef = e_cx er.

Definition broken (ef : enc) : Prop := exists B d, e_pre ef = B ++ [d] /\ d <> 0.

Inductive shift_sim (h : Z) (P : list Z) (ef er : enc) : Prop :=
| SS0 : regs_eq ef er -> e_pre ef = [] -> (exists sf, e_post ef = 0 :: sf) ->
        e_pre er = P -> (exists sr, e_post er = h :: sr) -> shift_sim h P ef er
| SS1 : regs_eq ef er -> (exists B, e_pre ef = B ++ [0] /\ e_pre er = B ++ h :: P) ->
        (exists x sf sr, e_post ef = x :: sf /\ e_post er = x :: sr) -> shift_sim h P ef er
| SSb : broken ef -> shift_sim h P ef er.

(* ---------- every coder operation only pushes onto e_pre ---------- *)
Lemma byteout_pushes : forall e, exists y, e_pre (enc_byteout e) = y :: e_pre e.
Proof.
  intros e. unfold enc_byteout.
  destruct (e_post e) as [|x r];
    repeat match goal with |- context [if ?b then _ else _] => destruct b end; cbn [e_pre]; eexists; reflexivity.
Qed.

Lemma broken_byteout : forall e, broken e -> broken (enc_byteout e).
Proof.
  intros e (B & d & E & Hd). destruct (byteout_pushes e) as [y Ey]. exists (y :: B), d.
  rewrite Ey, E. split; [reflexivity|exact Hd].
Qed.

Lemma broken_regs : forall e a c ct cx, broken e -> broken (mkEnc a c ct (e_pre e) (e_post e) cx).
Proof. intros e a c ct cx (B & d & E & Hd). exists B, d. cbn [e_pre]. auto. Qed.

Lemma broken_renorme : forall fuel e, broken e -> broken (enc_renorme_fuel fuel e).
Proof.
  induction fuel as [|f IH]; intros e H; cbn [enc_renorme_fuel]; [exact H|].
  destruct (e_a e <? 32768); [|exact H]. apply IH. cbn [e_ct].
  destruct (e_ct e - 1 =? 0); [apply broken_byteout|]; apply broken_regs; exact H.
Qed.

Lemma broken_encode : forall e bit ctx, broken e -> broken (enc_encode e bit ctx).
Proof.
  intros e bit ctx H. unfold enc_encode. cbv zeta.
  repeat match goal with |- context [if ?b then _ else _] => destruct b end;
    unfold enc_renorme, enc_set_acx; try apply broken_renorme; apply broken_regs; exact H.
Qed.

Lemma broken_encode_list : forall l e, broken e -> broken (enc_encode_list e l).
Proof.
  induction l as [|[b c] t IH]; intros e H; cbn [enc_encode_list]; [exact H|].
  apply IH. apply broken_encode. exact H.
Qed.

(* ---------- the simulation ---------- *)
Lemma sim_regs : forall h P ef er a c ct cx, shift_sim h P ef er ->
  shift_sim h P (mkEnc a c ct (e_pre ef) (e_post ef) cx) (mkEnc a c ct (e_pre er) (e_post er) cx).
Proof.
  intros h P ef er a c ct cx [Hr Hf Hpf Hp Hpr|Hr Hb Hp|Hb].
  - apply SS0; cbn [e_pre e_post]; auto. repeat split.
  - apply SS1; cbn [e_pre e_post]; auto. repeat split.
  - apply SSb. apply broken_regs. exact Hb.
Qed.

Lemma sim_byteout : forall h P ef er, h <> 255 -> 0 <= h < 256 -> shift_sim h P ef er ->
  shift_sim h P (enc_byteout ef) (enc_byteout er).
Proof.
  intros h P ef er Hh Hhb [(Ea & Ec & Ect & Ecx) Hf (sf & Epf) Hp (sr & Epr)|(Ea & Ec & Ect & Ecx) (B & Ef & Er) (x & sf & sr & Epf & Epr)|Hb].
  - (* no byte emitted yet: the fresh dummy 0 against h *)
    unfold enc_byteout. rewrite Epf, Epr, <- Ec, <- Ea, <- Ecx.
    change (0 =? 255) with false. cbv iota.
    destruct (Z.eqb_spec h 255) as [E|_]; [contradiction|].
    destruct (Z.land (e_c ef) 134217728 =? 0).
    + apply SS1; cbn [e_a e_c e_ct e_cx e_pre e_post].
      * repeat split.
      * exists []. rewrite Hf, Hp. split; reflexivity.
      * eexists _, _, _. split; reflexivity.
    + (* the fresh run carries into its dummy byte *)
      apply SSb. change (u8 (0 + 1)) with 1. change (1 =? 255) with false. cbv iota.
      exists [], 1. cbn [e_pre]. rewrite Hf. split; [reflexivity|discriminate].
  - unfold enc_byteout. rewrite Epf, Epr, <- Ec, <- Ea, <- Ecx.
    repeat match goal with |- context [if ?b then _ else _] => destruct b end;
      (apply SS1; cbn [e_a e_c e_ct e_cx e_pre e_post];
       [repeat split
       |eexists (_ :: B); rewrite Ef, Er; split; reflexivity
       |eexists _, _, _; split; reflexivity]).
  - apply SSb. apply broken_byteout. exact Hb.
Qed.

Lemma sim_is_broken_or_regs : forall h P ef er, shift_sim h P ef er -> broken ef \/ regs_eq ef er.
Proof. intros h P ef er [Hr _ _ _ _|Hr _ _|Hb]; auto. Qed.

Lemma sim_renorme : forall h P fuel ef er, h <> 255 -> 0 <= h < 256 -> shift_sim h P ef er ->
  shift_sim h P (enc_renorme_fuel fuel ef) (enc_renorme_fuel fuel er).
Proof.
  intros h P fuel. induction fuel as [|f IH]; intros ef er Hh Hhb Hs; cbn [enc_renorme_fuel]; [exact Hs|].
  destruct (sim_is_broken_or_regs _ _ _ _ Hs) as [Hb|(Ea & Ec & Ect & Ecx)].
  { apply SSb. apply (broken_renorme (S f)). exact Hb. }
  rewrite <- Ea, <- Ec, <- Ect, <- Ecx.
  destruct (e_a ef <? 32768); [|exact Hs].
  apply IH; [exact Hh|exact Hhb|]. cbn [e_ct].
  destruct (e_ct ef - 1 =? 0); [apply sim_byteout; [exact Hh|exact Hhb|]|]; apply sim_regs; exact Hs.
Qed.

Lemma sim_encode : forall h P ef er bit ctx, h <> 255 -> 0 <= h < 256 -> shift_sim h P ef er ->
  shift_sim h P (enc_encode ef bit ctx) (enc_encode er bit ctx).
Proof.
  intros h P ef er bit ctx Hh Hhb Hs.
  destruct (sim_is_broken_or_regs _ _ _ _ Hs) as [Hb|(Ea & Ec & Ect & Ecx)].
  { apply SSb. apply broken_encode. exact Hb. }
  unfold enc_encode. rewrite <- Ea, <- Ec, <- Ecx. cbv zeta.
  repeat match goal with |- context [if ?b then _ else _] => destruct b end;
    unfold enc_renorme, enc_set_acx; rewrite <- ?Ect; try apply sim_renorme; try assumption; apply sim_regs; exact Hs.
Qed.

Lemma sim_encode_list : forall h P l ef er, h <> 255 -> 0 <= h < 256 -> shift_sim h P ef er ->
  shift_sim h P (enc_encode_list ef l) (enc_encode_list er l).
Proof.
  intros h P l. induction l as [|[b c] t IH]; intros ef er Hh Hhb Hs; cbn [enc_encode_list]; [exact Hs|].
  apply IH; try assumption. apply sim_encode; assumption.
Qed.

(* after FlushToOutput only the buffers matter *)
Definition flushed_sim (h : Z) (P : list Z) (ef er : enc) : Prop :=
  broken ef \/ (e_cx ef = e_cx er /\ exists B, e_pre ef = B ++ [0] /\ e_pre er = B ++ h :: P).

Lemma sim_flush_state : forall h P ef er, h <> 255 -> 0 <= h < 256 -> shift_sim h P ef er ->
  flushed_sim h P (enc_flush_state ef) (enc_flush_state er).
Proof.
  intros h P ef er Hh Hhb Hs. unfold enc_flush_state.
  destruct (sim_is_broken_or_regs _ _ _ _ Hs) as [Hb|(Ea & Ec & Ect & Ecx)].
  { left.
    set (e2 := enc_byteout (enc_shift_ct (enc_byteout (enc_shift_ct (enc_setbits ef))))).
    assert (Hb2 : broken e2).
    { unfold e2. apply broken_byteout. unfold enc_shift_ct. apply broken_regs. apply broken_byteout.
      unfold enc_setbits. apply (broken_regs (mkEnc (e_a ef) _ (e_ct ef) (e_pre ef) (e_post ef) (e_cx ef))).
      exact Hb. }
    destruct (e_post e2) as [|last rest]; [exact Hb2|]. destruct (last =? 255); [exact Hb2|].
    destruct Hb2 as (B & d & E & Hd). exists (last :: B), d. cbn [e_pre]. rewrite E. split; [reflexivity|exact Hd]. }
  assert (S1 : shift_sim h P (enc_shift_ct (enc_setbits ef)) (enc_shift_ct (enc_setbits er))).
  { unfold enc_shift_ct, enc_setbits. cbn [e_a e_c e_ct e_pre e_post e_cx]. rewrite <- Ea, <- Ec, <- Ect, <- Ecx.
    apply (sim_regs h P ef er). exact Hs. }
  pose proof (sim_byteout h P _ _ Hh Hhb S1) as S2.
  set (f1 := enc_byteout (enc_shift_ct (enc_setbits ef))) in *.
  set (r1 := enc_byteout (enc_shift_ct (enc_setbits er))) in *.
  assert (S3 : shift_sim h P (enc_shift_ct f1) (enc_shift_ct r1)).
  { destruct (sim_is_broken_or_regs _ _ _ _ S2) as [Hb|(Ea1 & Ec1 & Ect1 & Ecx1)].
    - apply SSb. unfold enc_shift_ct. apply broken_regs. exact Hb.
    - unfold enc_shift_ct. rewrite <- Ea1, <- Ec1, <- Ect1, <- Ecx1. apply (sim_regs h P f1 r1). exact S2. }
  pose proof (sim_byteout h P _ _ Hh Hhb S3) as S4.
  set (f2 := enc_byteout (enc_shift_ct f1)) in *. set (r2 := enc_byteout (enc_shift_ct r1)) in *.
  destruct S4 as [(Ea2 & Ec2 & Ect2 & Ecx2) Hf2 _ _ _|(Ea2 & Ec2 & Ect2 & Ecx2) (B & Ef & Er) (x & sf & sr & Epf & Epr)|Hb].
  - (* impossible: a byteout has happened *)
    destruct (byteout_pushes (enc_shift_ct f1)) as [y Ey]. fold f2 in Ey. rewrite Hf2 in Ey. discriminate.
  - rewrite Epf, Epr. destruct (x =? 255).
    + right. split; [exact Ecx2|]. exists B. auto.
    + right. cbn [e_cx e_pre]. split; [exact Ecx2|]. exists (x :: B). rewrite Ef, Er. split; reflexivity.
  - left. destruct (e_post f2) as [|last rest]; [exact Hb|]. destruct (last =? 255); [exact Hb|].
    destruct Hb as (B & d & E & Hd). exists (last :: B), d. cbn [e_pre]. rewrite E. split; [reflexivity|exact Hd].
Qed.

(* ---------- the restart state against the fresh state ---------- *)
Lemma sim_restart : forall e h P cx, e_pre e = h :: P -> h <> 255 ->
  shift_sim h P (enc_new_cx cx) (mkEnc (e_a (enc_restart_init e)) (e_c (enc_restart_init e)) (e_ct (enc_restart_init e))
                                   (e_pre (enc_restart_init e)) (e_post (enc_restart_init e)) cx).
Proof.
  intros e h P cx E Hh. unfold enc_restart_init. rewrite E. cbn [e_a e_c e_ct e_pre e_post].
  destruct (Z.eqb_spec h 255) as [|_]; [contradiction|].
  apply SS0; cbn [enc_new_cx e_a e_c e_ct e_cx e_pre e_post]; auto.
  - repeat split.
  - eexists; reflexivity.
  - eexists; reflexivity.
Qed.

(* ---------- ErtermEnc ---------- *)
Lemma broken_erterm_loop : forall fuel k e, broken e -> broken (snd (enc_erterm_loop fuel k e)).
Proof.
  induction fuel as [|f IH]; intros k e H; cbn [enc_erterm_loop]; [exact H|].
  destruct (0 <? k); [|exact H]. apply IH. apply broken_byteout.
  apply (broken_regs e). exact H.
Qed.

Lemma broken_erterm : forall e, broken e -> broken (enc_erterm e).
Proof.
  intros e H. unfold enc_erterm.
  pose proof (broken_erterm_loop 4 (11 - e_ct e + 1) e H) as H1.
  destruct (e_post (snd (enc_erterm_loop 4 (11 - e_ct e + 1) e))) as [|last rest]; [exact H1|].
  destruct (last =? 255); [exact H1|apply broken_byteout; exact H1].
Qed.

Lemma sim_erterm_loop : forall h P fuel k ef er, h <> 255 -> 0 <= h < 256 -> shift_sim h P ef er ->
  shift_sim h P (snd (enc_erterm_loop fuel k ef)) (snd (enc_erterm_loop fuel k er)).
Proof.
  intros h P fuel. induction fuel as [|f IH]; intros k ef er Hh Hhb Hs; cbn [enc_erterm_loop]; [exact Hs|].
  destruct (0 <? k); [|exact Hs].
  destruct (sim_is_broken_or_regs _ _ _ _ Hs) as [Hb|(Ea & Ec & Ect & Ecx)].
  { apply SSb. apply broken_erterm_loop. apply broken_byteout. apply (broken_regs ef). exact Hb. }
  rewrite <- Ea, <- Ec, <- Ect, <- Ecx.
  set (f1 := enc_byteout (mkEnc (e_a ef) (shl32 (e_c ef) (e_ct ef)) 0 (e_pre ef) (e_post ef) (e_cx ef))).
  set (r1 := enc_byteout (mkEnc (e_a ef) (shl32 (e_c ef) (e_ct ef)) 0 (e_pre er) (e_post er) (e_cx ef))).
  assert (S1 : shift_sim h P f1 r1) by (apply sim_byteout; [exact Hh|exact Hhb|apply sim_regs; exact Hs]).
  destruct (sim_is_broken_or_regs _ _ _ _ S1) as [Hb|(_ & _ & Ect1 & _)].
  - apply SSb. apply broken_erterm_loop. exact Hb.
  - rewrite <- Ect1. apply IH; assumption.
Qed.

Lemma sim_erterm : forall h P ef er, h <> 255 -> 0 <= h < 256 -> shift_sim h P ef er ->
  flushed_sim h P (enc_erterm ef) (enc_erterm er).
Proof.
  intros h P ef er Hh Hhb Hs.
  destruct (sim_is_broken_or_regs _ _ _ _ Hs) as [Hb|(_ & _ & Ect & _)].
  { left. apply broken_erterm. exact Hb. }
  unfold enc_erterm. rewrite <- Ect.
  pose proof (sim_erterm_loop h P 4 (11 - e_ct ef + 1) ef er Hh Hhb Hs) as S1.
  set (f1 := snd (enc_erterm_loop 4 (11 - e_ct ef + 1) ef)) in *.
  set (r1 := snd (enc_erterm_loop 4 (11 - e_ct ef + 1) er)) in *.
  assert (Hfin : forall f r, shift_sim h P f r -> e_pre f <> [] -> flushed_sim h P f r).
  { intros f r [_ Hf _ _ _|(_ & _ & _ & Ecx) (B & Ef & Er) _|Hb] Hne.
    - congruence.
    - right. split; [exact Ecx|]. exists B. auto.
    - left. exact Hb. }
  destruct S1 as [(Ea1 & Ec1 & Ect1 & Ecx1) Hf (sf & Epf) Hp (sr & Epr)|(Ea1 & Ec1 & Ect1 & Ecx1) (B & Ef & Er) (x & sf & sr & Epf & Epr)|Hb].
  - (* no byte emitted by the loop: both sides emit their first byte now *)
    rewrite Epf, Epr. change (0 =? 255) with false. cbv iota.
    destruct (Z.eqb_spec h 255) as [|_]; [contradiction|].
    apply Hfin.
    + apply sim_byteout; [exact Hh|exact Hhb|].
      apply SS0; auto; [repeat split; assumption|exists sf; exact Epf|exists sr; exact Epr].
    + destruct (byteout_pushes f1) as [y Ey]. rewrite Ey. discriminate.
  - rewrite Epf, Epr. destruct (x =? 255).
    + right. split; [exact Ecx1|]. exists B. auto.
    + apply Hfin.
      * apply sim_byteout; [exact Hh|exact Hhb|].
        apply SS1; [repeat split; assumption|exists B; auto|exists x, sf, sr; auto].
      * destruct (byteout_pushes f1) as [y Ey]. rewrite Ey. discriminate.
  - left. destruct (e_post f1) as [|last rest]; [exact Hb|]. destruct (last =? 255); [exact Hb|apply broken_byteout; exact Hb].
Qed.
