(* Foundations for the tier-1 lockstep proof: store laws, flag-bit algebra, bit-plane
   arithmetic, the lockstep relation over the ideal channel and its loop rules. *)
From V Require Import Common.Base T1.T1Store T1.T1Ctx T1.T1Model.
Require Import V.J2K.RCTProofs.   (* wrapS_id *)

(* =====================================================================================
   Store
   ===================================================================================== *)
Lemma tget_leaf : forall p, tget Leaf p = 0.
Proof. destruct p; reflexivity. Qed.

Lemma tget_tset_same : forall p t x, tget (tset t p x) p = x.
Proof. induction p; intros t x; destruct t; cbn [tset tget]; auto. Qed.

Lemma tget_tset_other : forall p q t x, p <> q -> tget (tset t p x) q = tget t q.
Proof.
  induction p; intros q t x Hne; destruct q; destruct t; cbn [tset tget];
    rewrite ?tget_leaf; try reflexivity; try congruence;
    try (rewrite IHp by congruence; rewrite ?tget_leaf; reflexivity).
Qed.

Lemma tget_tmap : forall f t p, f 0 = 0 -> tget (tmap f t) p = f (tget t p).
Proof.
  intros f t. induction t as [|l IHl v r IHr]; intros p H0.
  - cbn [tmap]. rewrite tget_leaf. auto.
  - destruct p; cbn [tmap tget]; auto.
Qed.

Lemma fget_leaf : forall i, fget Leaf i = 0.
Proof. intros. apply tget_leaf. Qed.

Lemma fget_fset : forall t i x j,
  fget (fset t i x) j = if Pos.eqb (key j) (key i) then x else fget t j.
Proof.
  intros t i x j. unfold fget, fset. destruct (Pos.eqb_spec (key j) (key i)) as [E|E].
  - rewrite E. apply tget_tset_same.
  - apply tget_tset_other. congruence.
Qed.

Lemma fget_fset_same : forall t i x, fget (fset t i x) i = x.
Proof. intros. rewrite fget_fset, Pos.eqb_refl. reflexivity. Qed.

Lemma fget_eq_key : forall t i j, key i = key j -> fget t i = fget t j.
Proof. intros t i j E. unfold fget. rewrite E. reflexivity. Qed.

Lemma fget_orf : forall t i m j,
  fget (orf t i m) j = if Pos.eqb (key j) (key i) then Z.lor (fget t j) m else fget t j.
Proof.
  intros. unfold orf. rewrite fget_fset. destruct (Pos.eqb_spec (key j) (key i)) as [E|E]; [|reflexivity].
  rewrite (fget_eq_key t i j) by congruence. reflexivity.
Qed.

Lemma fget_clrf : forall t i m j,
  fget (clrf t i m) j = if Pos.eqb (key j) (key i) then Z.ldiff (fget t j) m else fget t j.
Proof.
  intros. unfold clrf. rewrite fget_fset. destruct (Pos.eqb_spec (key j) (key i)) as [E|E]; [|reflexivity].
  rewrite (fget_eq_key t i j) by congruence. reflexivity.
Qed.

Lemma fget_clear_visit : forall F j, fget (clear_visit F) j = Z.ldiff (fget F j) T1Visit.
Proof. intros. unfold clear_visit, fget. apply tget_tmap. reflexivity. Qed.

Lemma key_inj : forall i j, 0 <= i -> 0 <= j -> key i = key j -> i = j.
Proof.
  intros i j Hi Hj E. unfold key in E.
  assert (Z.pos (Z.to_pos (i + 1)) = Z.pos (Z.to_pos (j + 1))) by congruence.
  rewrite !Z2Pos.id in H by lia. lia.
Qed.

(* sample coordinates inside the block have distinct, non-negative indices *)
Lemma idx_of_nonneg : forall w x y, 0 <= w -> 0 <= x -> 0 <= y -> 0 <= idx_of w x y.
Proof. intros. unfold idx_of. nia. Qed.

Lemma idx_of_inj : forall w x y x' y', 0 <= x < w -> 0 <= x' < w -> 0 <= y -> 0 <= y' ->
  idx_of w x y = idx_of w x' y' -> x = x' /\ y = y'.
Proof.
  intros w x y x' y' Hx Hx' Hy Hy' E. unfold idx_of in E.
  assert (y = y') by nia. subst. split; [nia|reflexivity].
Qed.

Lemma key_idx_neq : forall w x y x' y', 0 <= x < w -> 0 <= x' < w -> 0 <= y -> 0 <= y' ->
  (x, y) <> (x', y') -> Pos.eqb (key (idx_of w x y)) (key (idx_of w x' y')) = false.
Proof.
  intros w x y x' y' Hx Hx' Hy Hy' Hne. apply Pos.eqb_neq. intro E.
  apply key_inj in E; try (apply idx_of_nonneg; lia).
  apply idx_of_inj in E; try lia. destruct E; subst. congruence.
Qed.

(* tree_of_list_from *)
Lemma zlen_cons : forall {A} (a : A) l, zlen (a :: l) = 1 + zlen l.
Proof. intros. unfold zlen. cbn [length]. lia. Qed.

Lemma fget_fset_ne : forall t i x j, 0 <= i -> 0 <= j -> i <> j -> fget (fset t i x) j = fget t j.
Proof.
  intros t i x j Hi Hj Hne. rewrite fget_fset.
  destruct (Pos.eqb_spec (key j) (key i)) as [E|E]; [apply key_inj in E; lia|reflexivity].
Qed.

Lemma fget_tree_of_list_from : forall l i t j, 0 <= i -> 0 <= j ->
  fget (tree_of_list_from l i t) j =
  if (i <=? j) && (j <? i + zlen l) then nth (Z.to_nat (j - i)) l 0 else fget t j.
Proof.
  induction l as [|a l IH]; intros i t j Hi Hj.
  - cbn [tree_of_list_from]. change (zlen (@nil Z)) with 0.
    destruct (Z.leb_spec i j); destruct (Z.ltb_spec j (i + 0)); cbn [andb]; try reflexivity; lia.
  - cbn [tree_of_list_from]. rewrite IH by lia. rewrite zlen_cons.
    pose proof (Zle_0_nat (length l)) as Hl. fold (zlen l) in Hl.
    destruct (Z_lt_le_dec j i) as [C1|C1].
    { replace (i + 1 <=? j) with false by (symmetry; apply Z.leb_gt; lia).
      replace (i <=? j) with false by (symmetry; apply Z.leb_gt; lia). cbn [andb].
      apply fget_fset_ne; lia. }
    destruct (Z.eq_dec j i) as [C2|C2].
    { subst j. replace (i + 1 <=? i) with false by (symmetry; apply Z.leb_gt; lia).
      replace (i <=? i) with true by (symmetry; apply Z.leb_le; lia).
      replace (i <? i + (1 + zlen l)) with true by (symmetry; apply Z.ltb_lt; lia). cbn [andb].
      rewrite fget_fset_same. replace (i - i) with 0 by lia. reflexivity. }
    replace (i + 1 <=? j) with true by (symmetry; apply Z.leb_le; lia).
    replace (i <=? j) with true by (symmetry; apply Z.leb_le; lia). cbn [andb].
    replace (i + 1 + zlen l) with (i + (1 + zlen l)) by lia.
    destruct (Z.ltb_spec j (i + (1 + zlen l))).
    + replace (Z.to_nat (j - i)) with (S (Z.to_nat (j - (i + 1)))) by lia. reflexivity.
    + apply fget_fset_ne; lia.
Qed.

(* =====================================================================================
   Flag bits
   ===================================================================================== *)
Lemma has_lor : forall f m q, has (Z.lor f m) q = has f q || has m q.
Proof.
  intros. unfold has. rewrite Z.land_lor_distr_l.
  destruct (Z.eqb_spec (Z.land f q) 0) as [E1|E1]; destruct (Z.eqb_spec (Z.land m q) 0) as [E2|E2]; cbn [negb orb].
  - rewrite E1, E2. reflexivity.
  - destruct (Z.eqb_spec (Z.lor (Z.land f q) (Z.land m q)) 0) as [E|E]; [|reflexivity].
    apply Z.lor_eq_0_iff in E. tauto.
  - destruct (Z.eqb_spec (Z.lor (Z.land f q) (Z.land m q)) 0) as [E|E]; [|reflexivity].
    apply Z.lor_eq_0_iff in E. tauto.
  - destruct (Z.eqb_spec (Z.lor (Z.land f q) (Z.land m q)) 0) as [E|E]; [|reflexivity].
    apply Z.lor_eq_0_iff in E. tauto.
Qed.

Lemma has_pow2 : forall f k, 0 <= k -> has f (2 ^ k) = Z.testbit f k.
Proof.
  intros f k Hk. unfold has. destruct (Z.testbit f k) eqn:E.
  - apply negb_true_iff. apply Z.eqb_neq. intro H0.
    assert (H : Z.testbit (Z.land f (2 ^ k)) k = false) by (rewrite H0; apply Z.bits_0).
    rewrite Z.land_spec, E, Z.pow2_bits_true in H by lia. discriminate.
  - apply negb_false_iff. apply Z.eqb_eq. apply Z.bits_inj'. intros n Hn. rewrite Z.land_spec, Z.bits_0.
    destruct (Z.eq_dec n k) as [->|Hne].
    + rewrite E. reflexivity.
    + rewrite Z.pow2_bits_false by lia. apply andb_false_r.
Qed.

Lemma has_ldiff_pow2 : forall f j k, 0 <= j -> 0 <= k ->
  has (Z.ldiff f (2 ^ j)) (2 ^ k) = Z.testbit f k && negb (Z.eqb j k).
Proof.
  intros f j k Hj Hk. rewrite has_pow2 by lia. rewrite Z.ldiff_spec.
  rewrite Z.pow2_bits_eqb by lia. reflexivity.
Qed.

Lemma c_T1Sig : T1Sig = 2 ^ 0. Proof. reflexivity. Qed.
Lemma c_T1Refine : T1Refine = 2 ^ 1. Proof. reflexivity. Qed.
Lemma c_T1Visit : T1Visit = 2 ^ 2. Proof. reflexivity. Qed.
Lemma c_T1Sign : T1Sign = 2 ^ 12. Proof. reflexivity. Qed.

Lemma has_clr_visit_sig : forall f, has (Z.ldiff f T1Visit) T1Sig = has f T1Sig.
Proof. intros. rewrite c_T1Visit, c_T1Sig, has_ldiff_pow2, has_pow2 by lia. cbn. apply andb_true_r. Qed.
Lemma has_clr_visit_sign : forall f, has (Z.ldiff f T1Visit) T1Sign = has f T1Sign.
Proof. intros. rewrite c_T1Visit, c_T1Sign, has_ldiff_pow2, has_pow2 by lia. cbn. apply andb_true_r. Qed.
Lemma has_clr_visit_visit : forall f, has (Z.ldiff f T1Visit) T1Visit = false.
Proof. intros. rewrite c_T1Visit, has_ldiff_pow2 by lia. cbn. apply andb_false_r. Qed.

(* the three self bits the data invariant looks at *)
Definition sigb (F : tree) (i : Z) : bool := has (fget F i) T1Sig.
Definition visb (F : tree) (i : Z) : bool := has (fget F i) T1Visit.
Definition sgnb (F : tree) (i : Z) : bool := has (fget F i) T1Sign.

Definition nbmask (m : Z) : Prop := has m T1Sig = false /\ has m T1Visit = false /\ has m T1Sign = false.

Lemma orf_nb_self : forall F i m j, nbmask m ->
  sigb (orf F i m) j = sigb F j /\ visb (orf F i m) j = visb F j /\ sgnb (orf F i m) j = sgnb F j.
Proof.
  intros F i m j (H1 & H2 & H3). unfold sigb, visb, sgnb. rewrite fget_orf.
  destruct (Pos.eqb (key j) (key i)); [|auto].
  rewrite !has_lor, H1, H2, H3, !orb_false_r. auto.
Qed.

Lemma update_nb_self : forall F w x y idx j,
  sigb (update_nb F w x y idx) j = sigb F j /\ visb (update_nb F w x y idx) j = visb F j /\
  sgnb (update_nb F w x y idx) j = sgnb F j.
Proof.
  intros. unfold update_nb. cbv zeta.
  repeat match goal with
  | |- context [orf ?G ?p ?m] =>
    let H := fresh in
    assert (H : nbmask m) by (destruct (has (fget F idx) T1Sign); vm_compute; auto);
    destruct (orf_nb_self G p m j H) as (-> & -> & ->); clear H
  end.
  auto.
Qed.

Lemma orf_other : forall F i m j, Pos.eqb (key j) (key i) = false -> fget (orf F i m) j = fget F j.
Proof. intros. rewrite fget_orf, H. reflexivity. Qed.

(* set_sig: at the sample itself Sig is set, Sign is or-ed with neg, Visit is untouched;
   every other sample keeps its three self bits *)
Lemma set_sig_at : forall F w x y idx neg j, key j = key idx ->
  sigb (set_sig F w x y idx neg) j = true /\
  visb (set_sig F w x y idx neg) j = visb F j /\
  sgnb (set_sig F w x y idx neg) j = (sgnb F j || neg).
Proof.
  intros F w x y idx neg j E. unfold set_sig.
  destruct (update_nb_self (orf (if neg then orf F idx T1Sign else F) idx T1Sig) w x y idx j) as (-> & -> & ->).
  assert (Ek : Pos.eqb (key j) (key idx) = true) by (rewrite E; apply Pos.eqb_refl).
  unfold sigb, visb, sgnb. rewrite fget_orf, Ek.
  destruct neg.
  - rewrite fget_orf, Ek. rewrite !has_lor.
    change (has T1Sig T1Sig) with true. change (has T1Sig T1Visit) with false. change (has T1Sig T1Sign) with false.
    change (has T1Sign T1Visit) with false. change (has T1Sign T1Sign) with true.
    rewrite !orb_false_r, !orb_true_r. auto.
  - rewrite !has_lor.
    change (has T1Sig T1Sig) with true. change (has T1Sig T1Visit) with false. change (has T1Sig T1Sign) with false.
    rewrite !orb_false_r, !orb_true_r. auto.
Qed.

Lemma set_sig_other : forall F w x y idx neg j, Pos.eqb (key j) (key idx) = false ->
  sigb (set_sig F w x y idx neg) j = sigb F j /\
  visb (set_sig F w x y idx neg) j = visb F j /\
  sgnb (set_sig F w x y idx neg) j = sgnb F j.
Proof.
  intros F w x y idx neg j E. unfold set_sig.
  destruct (update_nb_self (orf (if neg then orf F idx T1Sign else F) idx T1Sig) w x y idx j) as (-> & -> & ->).
  unfold sigb, visb, sgnb. rewrite orf_other by exact E.
  destruct neg; [rewrite orf_other by exact E|]; auto.
Qed.

Lemma orf_visit_at : forall F idx j, key j = key idx ->
  sigb (orf F idx T1Visit) j = sigb F j /\ visb (orf F idx T1Visit) j = true /\ sgnb (orf F idx T1Visit) j = sgnb F j.
Proof.
  intros F idx j E. unfold sigb, visb, sgnb. rewrite fget_orf, E, Pos.eqb_refl, !has_lor.
  change (has T1Visit T1Sig) with false. change (has T1Visit T1Visit) with true. change (has T1Visit T1Sign) with false.
  rewrite !orb_false_r, orb_true_r. auto.
Qed.

Lemma orf_refine_self : forall F idx j,
  sigb (orf F idx T1Refine) j = sigb F j /\ visb (orf F idx T1Refine) j = visb F j /\ sgnb (orf F idx T1Refine) j = sgnb F j.
Proof. intros. apply orf_nb_self. vm_compute. auto. Qed.

Lemma clrf_visit_at : forall F idx j, key j = key idx ->
  sigb (clrf F idx T1Visit) j = sigb F j /\ visb (clrf F idx T1Visit) j = false /\ sgnb (clrf F idx T1Visit) j = sgnb F j.
Proof.
  intros F idx j E. unfold sigb, visb, sgnb. rewrite fget_clrf, E, Pos.eqb_refl.
  rewrite has_clr_visit_sig, has_clr_visit_visit, has_clr_visit_sign. auto.
Qed.

Lemma clrf_other : forall F i m j, Pos.eqb (key j) (key i) = false -> fget (clrf F i m) j = fget F j.
Proof. intros. rewrite fget_clrf, H. reflexivity. Qed.

Lemma clear_visit_self : forall F j,
  sigb (clear_visit F) j = sigb F j /\ visb (clear_visit F) j = false /\ sgnb (clear_visit F) j = sgnb F j.
Proof.
  intros. unfold sigb, visb, sgnb. rewrite fget_clear_visit.
  rewrite has_clr_visit_sig, has_clr_visit_visit, has_clr_visit_sign. auto.
Qed.

(* =====================================================================================
   Bit-plane arithmetic
   ===================================================================================== *)
Lemma abs32_abs : forall v, - 2 ^ 31 < v < 2 ^ 31 -> abs32 v = Z.abs v.
Proof.
  intros v Hv. unfold abs32. destruct (Z.ltb_spec v 0).
  - rewrite wrapS_id by (change (2 ^ (32 - 1)) with (2 ^ 31); lia). lia.
  - lia.
Qed.

Lemma land1_mod2 : forall x, Z.land x 1 = x mod 2.
Proof.
  intros x. pose proof (Z.land_ones x 1 ltac:(lia)) as H.
  change (Z.ones 1) with 1 in H. change (2 ^ 1) with 2 in H. exact H.
Qed.

Lemma shiftr_split : forall a bp, 0 <= bp ->
  Z.shiftr a bp = 2 * Z.shiftr a (bp + 1) + Z.land (Z.shiftr a bp) 1.
Proof.
  intros a bp Hbp. rewrite <- (Z.shiftr_shiftr a bp 1) by lia.
  rewrite land1_mod2. rewrite (Z.shiftr_div_pow2 (Z.shiftr a bp) 1) by lia. change (2 ^ 1) with 2.
  apply Z.div_mod. lia.
Qed.

Lemma land1_01 : forall x, Z.land x 1 = 0 \/ Z.land x 1 = 1.
Proof. intros. rewrite land1_mod2. pose proof (Z.mod_pos_bound x 2). lia. Qed.

Lemma bit0_shiftr0 : forall a bp, 0 <= bp -> Z.shiftr a (bp + 1) = 0 -> Z.land (Z.shiftr a bp) 1 = 0 ->
  Z.shiftr a bp = 0.
Proof. intros a bp Hbp H1 H2. rewrite (shiftr_split a bp Hbp), H1, H2. reflexivity. Qed.

Lemma bit1_shiftr1 : forall a bp, 0 <= bp -> Z.shiftr a (bp + 1) = 0 -> Z.land (Z.shiftr a bp) 1 <> 0 ->
  Z.shiftr a bp = 1.
Proof.
  intros a bp Hbp H1 H2. rewrite (shiftr_split a bp Hbp), H1.
  destruct (land1_01 (Z.shiftr a bp)); lia.
Qed.

Lemma shiftr_nonneg : forall a n, 0 <= a -> 0 <= Z.shiftr a n.
Proof. intros. apply Z.shiftr_nonneg. assumption. Qed.

Lemma shiftr_mono0 : forall a bp, 0 <= a -> 0 <= bp -> Z.shiftr a bp = 0 -> Z.shiftr a (bp + 1) = 0.
Proof.
  intros a bp Ha Hbp H. rewrite <- (Z.shiftr_shiftr a bp 1) by lia. rewrite H. apply Z.shiftr_0_l.
Qed.

(* truncation of a magnitude to the bit-planes >= P *)
Definition tmag (a P : Z) : Z := Z.shiftl (Z.shiftr a P) P.

Lemma tmag_refine : forall a bp, 0 <= bp ->
  tmag a bp = tmag a (bp + 1) + Z.land (Z.shiftr a bp) 1 * 2 ^ bp.
Proof.
  intros a bp Hbp. unfold tmag. rewrite !Z.shiftl_mul_pow2 by lia.
  rewrite (shiftr_split a bp Hbp) at 1. rewrite Z.pow_add_r by lia. change (2 ^ 1) with 2. ring.
Qed.

Lemma tmag_le : forall a P, 0 <= a -> 0 <= P -> 0 <= tmag a P <= a.
Proof.
  intros a P Ha HP. unfold tmag. rewrite Z.shiftl_mul_pow2, Z.shiftr_div_pow2 by lia.
  assert (0 < 2 ^ P) by (apply Z.pow_pos_nonneg; lia).
  pose proof (Z.mul_div_le a (2 ^ P) H). pose proof (Z.div_pos a (2 ^ P) Ha H). nia.
Qed.

Lemma tmag_pos : forall a P, 0 <= P -> 0 < Z.shiftr a P -> 0 < tmag a P.
Proof.
  intros a P HP H. unfold tmag. rewrite Z.shiftl_mul_pow2 by lia.
  assert (0 < 2 ^ P) by (apply Z.pow_pos_nonneg; lia). nia.
Qed.

Lemma shiftr_pos_down : forall a bp, 0 <= a -> 0 <= bp -> 0 < Z.shiftr a (bp + 1) -> 0 < Z.shiftr a bp.
Proof.
  intros a bp Ha Hbp H. rewrite (shiftr_split a bp Hbp). destruct (land1_01 (Z.shiftr a bp)); lia.
Qed.

Lemma tmag_0 : forall a, 0 <= a -> tmag a 0 = a.
Proof. intros. unfold tmag. rewrite Z.shiftr_0_r, Z.shiftl_0_r. reflexivity. Qed.

Lemma one_shl_pow : forall bp, 0 <= bp <= 30 -> one_shl bp = 2 ^ bp.
Proof.
  intros bp H. unfold one_shl, i32. rewrite Z.shiftl_mul_pow2 by lia. rewrite Z.mul_1_l.
  apply wrapS_id; [lia|]. change (2 ^ (32 - 1)) with (2 ^ 31).
  assert (0 < 2 ^ bp) by (apply Z.pow_pos_nonneg; lia).
  assert (2 ^ bp < 2 ^ 31) by (apply Z.pow_lt_mono_r; lia). lia.
Qed.

Lemma i32_id : forall x, - 2 ^ 31 <= x < 2 ^ 31 -> i32 x = x.
Proof. intros. unfold i32. apply wrapS_id; [lia|]. change (2 ^ (32 - 1)) with (2 ^ 31). lia. Qed.

Lemma lxor_cancel : forall s p, Z.lxor (Z.lxor s p) p = s.
Proof. intros. rewrite Z.lxor_assoc, Z.lxor_nilpotent, Z.lxor_0_r. reflexivity. Qed.

(* =====================================================================================
   The lockstep relation: an encoder step and a decoder step over the ideal channel
   ===================================================================================== *)
Lemma ideal_ask_hit : forall k cx b r ps, ideal_ask ((k, cx, b) :: r, ps) k cx = Ok ((r, ps), b).
Proof. intros. unfold ideal_ask. cbn [fst snd]. rewrite !Z.eqb_refl. reflexivity. Qed.

(* Starting in related states, the decoder step run on the channel holding the symbols the
   encoder step emitted (followed by anything) succeeds, consumes exactly those symbols, and
   ends in related states.  Since ideal_ask fails on any kind / context mismatch, success means
   the decoder asked for exactly the encoder's (kind, ctx) sequence. *)
Definition lockstep {SE TD : Type} (fe : SE -> SE * list sym) (fd : TD * ichan -> outcome (TD * ichan))
                    (Rpre Rpost : SE -> TD -> Prop) : Prop :=
  forall s t, Rpre s t -> forall tl ps,
    exists t', fd (t, (snd (fe s) ++ tl, ps)) = Ok (t', (tl, ps)) /\ Rpost (fst (fe s)) t'.

Lemma lockstep_conseq : forall {SE TD} (fe : SE -> SE * list sym) fd (R1 R2 R1' R2' : SE -> TD -> Prop),
  (forall s t, R1' s t -> R1 s t) -> (forall s t, R2 s t -> R2' s t) ->
  lockstep fe fd R1 R2 -> lockstep fe fd R1' R2'.
Proof.
  intros SE TD fe fd R1 R2 R1' R2' H1 H2 L s t Hr tl ps.
  destruct (L s t (H1 _ _ Hr) tl ps) as (t' & E & Hp). exists t'. auto.
Qed.

Lemma loop_lockstep : forall {SE TD} (n : nat) (i0 : Z) (fe : Z -> SE -> SE * list sym)
    (fd : Z -> TD * ichan -> outcome (TD * ichan)) (R : Z -> SE -> TD -> Prop),
  (forall i, i0 <= i < i0 + Z.of_nat n -> lockstep (fe i) (fd i) (R i) (R (i + 1))) ->
  lockstep (loop_e n i0 fe) (loop_d n i0 fd) (R i0) (R (i0 + Z.of_nat n)).
Proof.
  intros SE TD n. induction n as [|n IH]; intros i0 fe fd R Hstep s t Hr tl ps.
  - cbn [loop_e loop_d fst snd app]. exists t. rewrite Z.add_0_r. auto.
  - cbn [loop_e loop_d].
    destruct (fe i0 s) as [s1 o1] eqn:E1.
    destruct (loop_e n (i0 + 1) fe s1) as [s2 o2] eqn:E2. cbn [fst snd].
    assert (Hs : lockstep (fe i0) (fd i0) (R i0) (R (i0 + 1))) by (apply Hstep; lia).
    destruct (Hs s t Hr (o2 ++ tl) ps) as (t1 & Ed1 & Hr1). rewrite E1 in Ed1, Hr1. cbn [fst snd] in Ed1, Hr1.
    rewrite <- app_assoc. rewrite Ed1. cbn [obind].
    assert (Hrest : forall i, i0 + 1 <= i < i0 + 1 + Z.of_nat n -> lockstep (fe i) (fd i) (R i) (R (i + 1))).
    { intros i Hi. apply Hstep. lia. }
    destruct (IH (i0 + 1) fe fd R Hrest s1 t1 Hr1 tl ps) as (t2 & Ed2 & Hr2).
    rewrite E2 in Ed2, Hr2. cbn [fst snd] in Ed2, Hr2.
    exists t2. split; [exact Ed2|]. replace (i0 + Z.of_nat (S n)) with (i0 + 1 + Z.of_nat n) by lia. exact Hr2.
Qed.
