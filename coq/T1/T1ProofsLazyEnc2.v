(* LAZY without TERMALL, part 2: what the encoder model writes.  The passes fall into groups,
   each decoded by one coder: the MQ codeword of the passes down to bit-plane maxbp-3, then for
   every lower bit-plane a raw group (significance + refinement) and an MQ group (cleanup). *)
From V Require Import Common.Base MQ.MqModel MQ.MqProofs MQ.MqProofsDec MQ.MqProofsRt MQ.MqProofsRt2 MQ.MqProofsTerm MQ.MqProofsSeg.
From V Require Import T1.T1Store T1.T1Ctx T1.T1CtxProofs T1.T1Model T1.T1Bytes T1.T1ProofsBase
  T1.T1ProofsSeq T1.T1ProofsSim T1.T1ProofsMqRt T1.T1ProofsComp T1.T1ProofsCompThm T1.T1ProofsRestart
  T1.T1ProofsTermEnc T1.T1ProofsPterm T1.T1ProofsLazyEnc.
From V Require Import T1.T1ProofsLazyMq.

Record grp : Type := mkGrp {
  g_raw : bool; g_body : list (Z * Z); g_ql : Z * Z; g_syms : list (list sym); g_seg : list Z;
  g_brecs : list passrec; g_rl : passrec }.
Definition g_pl (g : grp) : list (Z * Z) := g_body g ++ [g_ql g].
Definition g_recs (g : grp) : list passrec := g_brecs g ++ [g_rl g].

Lemma obind_eta : forall {A B} (x : outcome (A * B)), obind x (fun r => Ok (fst r, snd r)) = x.
Proof. intros A B [[a b]| | |]; reflexivity. Qed.

Lemma enc_num_bytes_nonneg : forall e, 0 <= enc_num_bytes e.
Proof. intros e. unfold enc_num_bytes. destruct (Z.ltb_spec (enc_bp e) 1); lia. Qed.

Lemma bypass_extra_nonneg : forall e b, 0 <= enc_bypass_extra_bytes e b.
Proof. intros e b. unfold enc_bypass_extra_bytes. destruct (_ <? _); [lia|]. destruct (_ && _); lia. Qed.

Lemma enc_bytes_passes_app : forall style maxbp A sA B sB pT e, length sA = length A ->
  enc_bytes_passes style maxbp (A ++ B) (sA ++ sB) pT e =
  obind (enc_bytes_passes style maxbp A sA pT e) (fun r1 =>
    obind (enc_bytes_passes style maxbp B sB (snd (fst r1)) (fst (fst r1))) (fun r2 =>
      Ok (fst r2, snd r1 ++ snd r2))).
Proof.
  intros style maxbp A. induction A as [|[bp pt] A IH]; intros sA B sB pT e Hl.
  - destruct sA; [|discriminate]. cbn [app enc_bytes_passes obind fst snd]. symmetry. apply obind_eta.
  - destruct sA as [|ss sA]; [discriminate|]. cbn [length] in Hl.
    cbn [app enc_bytes_passes].
    destruct (enc_syms_o _ ss) as [e2| | |]; cbn [obind]; try reflexivity.
    destruct (if is_terminating bp maxbp pt style then _ else _) as [e3| | |]; cbn [obind]; try reflexivity.
    rewrite IH by lia.
    destruct (enc_bytes_passes style maxbp A sA _ _) as [[[e5 t5] ps5]| | |]; cbn [obind fst snd]; try reflexivity.
    destruct (enc_bytes_passes style maxbp B sB t5 e5) as [[[e6 t6] ps6]| | |]; cbn [obind fst snd]; reflexivity.
Qed.

Lemma enc_mq_last_inv : forall reset rest cur e, enc_inv e -> enc_inv (enc_mq_last reset e cur rest).
Proof.
  intros reset rest. induction rest as [|p r IH]; intros cur e H; cbn [enc_mq_last].
  - apply enc_encode_list_inv. exact H.
  - apply IH. apply enc_reset_step_inv. apply enc_encode_list_inv. exact H.
Qed.

Lemma enc_mq_last_cx_len : forall reset rest cur e, zlen (e_cx (enc_mq_last reset e cur rest)) = zlen (e_cx e).
Proof.
  intros reset rest. induction rest as [|p r IH]; intros cur e; cbn [enc_mq_last].
  - apply enc_encode_list_cx_len.
  - rewrite IH, enc_reset_step_len. apply enc_encode_list_cx_len.
Qed.

(* ---------- a raw group: significance + refinement pass of one bit-plane ---------- *)
Lemma bypass_encode_cxset : forall e cx b, enc_bypass_encode (cxset e cx) b = cxset (enc_bypass_encode e b) cx.
Proof.
  intros e cx b. unfold enc_bypass_encode. cbv zeta. cbn [cxset e_ct e_c e_a e_pre e_post e_cx].
  destruct (_ =? 0); reflexivity.
Qed.

Lemma bypass_fold_cxset : forall bits e cx,
  fold_left enc_bypass_encode bits (cxset e cx) = cxset (fold_left enc_bypass_encode bits e) cx.
Proof.
  induction bits as [|b t IH]; intros e cx; cbn [fold_left]; [reflexivity|].
  rewrite bypass_encode_cxset. apply IH.
Qed.

Lemma bypass_flush_cxset : forall e cx b, enc_bypass_flush (cxset e cx) b = cxset (enc_bypass_flush e b) cx.
Proof.
  intros e cx b. unfold enc_bypass_flush, prev_isnt, prev_is. cbn [cxset e_ct e_c e_a e_pre e_post e_cx].
  destruct (_ || _).
  - destruct (bypass_pad 8 (e_ct e) (e_c e) 0). reflexivity.
  - destruct (_ && _).
    + destruct b; [reflexivity|]. destruct (e_pre e); reflexivity.
    + destruct (e_pre e) as [|x1 [|x2 p]]; try reflexivity. destruct (_ && _); reflexivity.
Qed.

Lemma bypass_encode_pre : forall e b, exists X, e_pre (enc_bypass_encode e b) = X ++ e_pre e.
Proof.
  intros e b. unfold enc_bypass_encode. cbv zeta. destruct (_ =? 0).
  - eexists [_]. reflexivity.
  - exists []. reflexivity.
Qed.

Lemma bypass_fold_pre : forall bits e, exists X, e_pre (fold_left enc_bypass_encode bits e) = X ++ e_pre e.
Proof.
  induction bits as [|b t IH]; intros e; cbn [fold_left]; [exists []; reflexivity|].
  destruct (IH (enc_bypass_encode e b)) as (X & E). destruct (bypass_encode_pre e b) as (Y & E2).
  exists (X ++ Y). rewrite E, E2, app_assoc. reflexivity.
Qed.

Lemma bits_of_app : forall a b, bits_of (a ++ b) = bits_of a ++ bits_of b.
Proof. intros. unfold bits_of. apply map_app. Qed.


Section Enc.
Variables (style maxbp : Z).
Let reset := negb (Z.land style CblkStyleReset =? 0).
Let pterm := negb (Z.land style CblkStylePterm =? 0).
Definition rawq (q : Z * Z) : bool := is_lazy_raw (fst q) maxbp (snd q) style.
Definition termq (q : Z * Z) : bool := is_terminating (fst q) maxbp (snd q) style.

(* ---------- the first group: passes coded by the fresh MQ encoder ---------- *)
Lemma encA : forall body ql s0 symr e,
  Forall (fun q => rawq q = false) (body ++ [ql]) -> Forall (fun q => termq q = false) body ->
  length symr = length body -> Forall (Forall sym_mq) (s0 :: symr) -> enc_inv e -> zlen (e_cx e) = 19 ->
  let X := enc_mq_last reset e (decs s0) (map decs symr) in
  let X2 := if termq ql then fl pterm X else X in
  let e' := if reset then r_e X2 else X2 in
  exists brecs,
    enc_bytes_passes style maxbp (body ++ [ql]) (s0 :: symr) false e =
      Ok ((e', termq ql),
          brecs ++ [mkPass (fst ql) (snd ql) (if termq ql then enc_num_bytes e' else enc_num_bytes e' + 3)
                           (enc_num_bytes e') (termq ql)]) /\
    length brecs = length body /\ Forall (fun r => 0 <= p_rate r) brecs.
Proof.
  intros body. induction body as [|[b p] body IH]; intros [bq pq] s0 symr e Hraw Hnt Hlen Hsy Hinv Hn.
  - destruct symr; [|discriminate]. cbv zeta. cbn [app] in *.
    pose proof (Forall_inv Hraw) as Hr. unfold rawq in Hr. cbn [fst snd] in Hr.
    cbn [enc_bytes_passes map enc_mq_last]. rewrite Hr. fold pterm. cbv iota.
    rewrite (enc_syms_o_mq s0 e (Forall_inv Hsy) Hinv Hn). cbn [obind].
    unfold termq. cbn [fst snd].
    assert (Hinv2 : enc_inv (enc_encode_list e (decs s0))) by (apply enc_encode_list_inv; exact Hinv).
    exists []. fold reset.
    destruct (is_terminating bq maxbp pq style).
    + rewrite (enc_terminate_fl pterm _ Hinv2). cbn [obind fst snd app]. auto.
    + cbn [obind fst snd app]. auto.
  - destruct symr as [|s1 symr]; [discriminate|]. cbn [length] in Hlen.
    cbn [app] in Hraw. pose proof (Forall_inv Hraw) as Hr. unfold rawq in Hr. cbn [fst snd] in Hr.
    pose proof (Forall_inv Hnt) as Ht. unfold termq in Ht. cbn [fst snd] in Ht.
    cbv zeta. cbn [app enc_bytes_passes map enc_mq_last]. rewrite Hr, Ht. fold pterm reset. cbv iota.
    rewrite (enc_syms_o_mq s0 e (Forall_inv Hsy) Hinv Hn). cbn [obind].
    set (e2 := enc_encode_list e (decs s0)).
    assert (Hinv2 : enc_inv e2) by (apply enc_encode_list_inv; exact Hinv).
    assert (Hn2 : zlen (e_cx e2) = 19) by (unfold e2; rewrite enc_encode_list_cx_len; exact Hn).
    change (set3_e (enc_reset_contexts e2)) with (r_e e2).
    destruct (IH (bq, pq) s1 symr (if reset then r_e e2 else e2) (Forall_inv_tail Hraw) (Forall_inv_tail Hnt)
                 ltac:(lia) (Forall_inv_tail Hsy) (enc_reset_step_inv reset e2 Hinv2)
                 ltac:(rewrite enc_reset_step_len; exact Hn2)) as (brecs & E & Hl & Hr0).
    cbv zeta in E. rewrite E. cbn [obind fst snd].
    eexists (_ :: brecs). split; [reflexivity|]. split; [cbn [length]; lia|].
    constructor; [|exact Hr0]. cbn [p_rate]. pose proof (enc_num_bytes_nonneg (if reset then r_e e2 else e2)). lia.
Qed.

Lemma raw2_step : forall e data0 ss1 ss2, TI e -> e_pre e = rev data0 ++ [0] -> last data0 0 <> 255 ->
  Forall sym_raw ss1 -> Forall sym_raw ss2 ->
  let em := fold_left enc_bypass_encode (bits_of ss1) (enc_bypass_init e) in
  let e4 := if reset then r_e em else em in
  let e3 := enc_bypass_flush (fold_left enc_bypass_encode (bits_of ss2) e4) pterm in
  exists seg, e_pre e3 = rev (data0 ++ seg) ++ [0] /\ last seg 0 <> 255 /\
    (exists r', raw_decode_n (length (ss1 ++ ss2)) (raw_new seg) = Ok (r', bits_of (ss1 ++ ss2))) /\
    cxs_ok (e_cx e3) /\ (reset = false -> e_cx e3 = e_cx e) /\
    (exists h P, e_pre e3 = h :: P /\ h <> 255 /\ buf_ok (h :: P)) /\
    zlen data0 <= enc_num_bytes e4.
Proof.
  intros e data0 ss1 ss2 HTI Hpre Hl0 H1 H2 em e4 e3.
  assert (H12 : Forall sym_raw (ss1 ++ ss2)) by (apply Forall_app; split; assumption).
  destruct (raw_pass_step pterm e data0 (ss1 ++ ss2) HTI Hpre Hl0 H12) as (seg & Hpre2 & Hlast & Hdec & Hcx2 & Hhd).
  cbv zeta in Hpre2, Hcx2, Hhd. rewrite bits_of_app, fold_left_app in Hpre2, Hcx2, Hhd. fold em in Hpre2, Hcx2, Hhd.
  set (f3 := enc_bypass_flush (fold_left enc_bypass_encode (bits_of ss2) em) pterm) in *.
  assert (E3 : e3 = if reset then cxset f3 (reset_cx (e_cx em)) else f3).
  { unfold e3, e4, f3. destruct reset; [|reflexivity].
    rewrite r_e_cxset, bypass_fold_cxset, bypass_flush_cxset. reflexivity. }
  assert (Epre3 : e_pre e3 = e_pre f3) by (rewrite E3; destruct reset; reflexivity).
  pose proof HTI as (h0 & P0 & _ & _ & _ & Hcx0).
  exists seg. rewrite Epre3.
  split; [exact Hpre2|]. split; [exact Hlast|]. split; [exact Hdec|].
  split.
  { rewrite E3. destruct reset.
    - cbn [cxset e_cx]. split; [apply reset_cx_ok|]. unfold zlen. rewrite reset_cx_length.
      unfold em. rewrite bypass_fold_cx. apply Hcx0.
    - rewrite Hcx2. exact Hcx0. }
  split; [intros Er; rewrite E3, Er; exact Hcx2|].
  split; [exact Hhd|].
  assert (Epre4 : e_pre e4 = e_pre em) by (unfold e4; destruct reset; reflexivity).
  destruct (bypass_fold_pre (bits_of ss1) (enc_bypass_init e)) as (X & EX). fold em in EX.
  unfold enc_num_bytes, enc_bp. rewrite Epre4, EX. change (e_pre (enc_bypass_init e)) with (e_pre e). rewrite Hpre.
  unfold zlen. rewrite !app_length, rev_length. cbn [length].
  destruct (Z.ltb_spec (Z.of_nat (length X + (length data0 + 1))) 1); lia.
Qed.

(* ---------- groups ---------- *)
Definition grp_dec_ok (cx : list Z) (g : grp) (cxn : list Z) : Prop :=
  if g_raw g then
    (exists r', raw_decode_n (length (concat (g_syms g))) (raw_new (g_seg g)) =
                Ok (r', bits_of (concat (g_syms g)))) /\ cxn = cx
  else match map decs (g_syms g) with
       | [] => False
       | p :: r => exists dd cxf, dec_new_cx (g_seg g) cx = Ok dd /\ dec_future_cx reset dd p r cxf /\
                     cxn = (if reset then cx0 else cxf)
       end.

Fixpoint grel (cx : list Z) (gs : list grp) : Prop :=
  match gs with
  | [] => True
  | g :: r => exists cxn, grp_dec_ok cx g cxn /\ cxs_ok cxn /\ (reset = true -> cxn = cx0) /\ grel cxn r
  end.

Definition g_ok (off : Z) (g : grp) : Prop :=
  length (g_brecs g) = length (g_body g) /\ length (g_syms g) = S (length (g_body g)) /\
  Forall (fun q => rawq q = g_raw g) (g_pl g) /\ Forall (fun q => termq q = false) (g_body g) /\
  Forall (fun r => off <= p_rate r) (g_brecs g) /\ last (g_seg g) 0 <> 255 /\
  Forall (Forall (sym_okr (g_raw g))) (g_syms g) /\ off + zlen (g_seg g) <= p_rate (g_rl g).

Definition g_closed (off : Z) (g : grp) : Prop :=
  termq (g_ql g) = true /\ p_rate (g_rl g) = off + zlen (g_seg g).

Fixpoint gs_ok (off : Z) (gs : list grp) : Prop :=
  match gs with
  | [] => True
  | g :: r => g_ok off g /\ (g_closed off g \/ r = []) /\ gs_ok (off + zlen (g_seg g)) r
  end.

Definition triples (bs : list Z) : list (Z * Z) := flat_map (fun b => [(b, 0); (b, 1); (b, 2)]) bs.

Hypothesis Hlazy : Z.land style CblkStyleLazy <> 0.
Hypothesis Hnt : Z.land style CblkStyleTermAll = 0.

Lemma lazy_raw_eq : forall bp pt, is_lazy_raw bp maxbp pt style = if 2 <=? pt then false else bp <? maxbp - 3.
Proof. intros. unfold is_lazy_raw. destruct (Z.eqb_spec (Z.land style CblkStyleLazy) 0); [contradiction|reflexivity]. Qed.

Lemma lazy_term_eq : forall bp pt, is_terminating bp maxbp pt style =
  if (pt =? 2) && (bp =? 0) then true
  else if (bp =? maxbp - 3) && (pt =? 2) then true
  else if (bp <? maxbp - 3) && (0 <? pt) then true else false.
Proof.
  intros. unfold is_terminating. rewrite Hnt. change (negb (0 =? 0)) with false. cbv iota.
  destruct (Z.eqb_spec (Z.land style CblkStyleLazy) 0); [contradiction|reflexivity].
Qed.

Lemma low_plane_kinds : forall b, b < maxbp - 3 ->
  is_lazy_raw b maxbp 0 style = true /\ is_lazy_raw b maxbp 1 style = true /\ is_lazy_raw b maxbp 2 style = false /\
  is_terminating b maxbp 0 style = false /\ is_terminating b maxbp 1 style = true /\ is_terminating b maxbp 2 style = true.
Proof.
  intros b Hb. rewrite !lazy_raw_eq, !lazy_term_eq.
  change (2 <=? 0) with false. change (2 <=? 1) with false. change (2 <=? 2) with true.
  change (0 =? 2) with false. change (1 =? 2) with false. change (2 =? 2) with true.
  change (0 <? 0) with false. change (0 <? 1) with true. change (0 <? 2) with true.
  cbn [andb]. rewrite !andb_false_r, !andb_true_r.
  assert (E : (b <? maxbp - 3) = true) by (apply Z.ltb_lt; exact Hb). rewrite E. cbv iota.
  repeat split; try reflexivity. destruct (b =? 0); [reflexivity|]. destruct (b =? maxbp - 3); reflexivity.
Qed.

Opaque enc_flush enc_encode_list enc_new_cx enc_flush_state enc_restart_init enc_erterm enc_bypass_flush enc_bypass_init.

Lemma encB : forall bs syms e data0, Forall (fun b => b < maxbp - 3) bs ->
  all_syms_ok style maxbp (triples bs) syms -> TI e -> e_pre e = rev data0 ++ [0] -> last data0 0 <> 255 ->
  (reset = true -> e_cx e = cx0) ->
  exists e' gs,
    enc_bytes_passes style maxbp (triples bs) syms true e = Ok ((e', true), concat (map g_recs gs)) /\
    e_pre e' = rev (data0 ++ concat (map g_seg gs)) ++ [0] /\
    syms = concat (map g_syms gs) /\ triples bs = concat (map g_pl gs) /\
    grel (e_cx e) gs /\ gs_ok (zlen data0) gs /\ (bs <> [] -> gs <> []).
Proof.
  intros bs. induction bs as [|b bs IH]; intros syms e data0 Hbs Hok HTI Hpre Hl0 Hrc.
  - destruct syms; [|destruct Hok]. exists e, []. cbn. rewrite app_nil_r. repeat split; auto.
  - pose proof (Forall_inv Hbs) as Hb. pose proof (Forall_inv_tail Hbs) as Hbs'.
    destruct (low_plane_kinds b Hb) as (Er0 & Er1 & Er2 & Et0 & Et1 & Et2).
    change (triples (b :: bs)) with ((b, 0) :: (b, 1) :: (b, 2) :: triples bs) in *.
    destruct syms as [|ss1 [|ss2 [|ss3 syms']]]; cbn [all_syms_ok] in Hok; try tauto.
    destruct Hok as (Hs1 & Hs2 & Hs3 & Hok').
    unfold pass_syms_ok in Hs1, Hs2, Hs3. cbn [fst snd] in Hs1, Hs2, Hs3.
    rewrite Er0 in Hs1. rewrite Er1 in Hs2. rewrite Er2 in Hs3. cbn [sym_okr] in Hs1, Hs2, Hs3.
    pose proof HTI as (h0 & P0 & _ & _ & _ & Hcx0).
    destruct (raw2_step e data0 ss1 ss2 HTI Hpre Hl0 Hs1 Hs2) as (seg1 & Hpre1 & Hlast1 & Hdec1 & Hcxs1 & Hcx1 & Hhd1 & Hnb).
    cbv zeta in Hpre1, Hcxs1, Hcx1, Hhd1, Hnb.
    cbn [enc_bytes_passes]. rewrite Er0, Et0, Er1, Et1, Er2, Et2. fold pterm reset. cbv iota.
    rewrite (enc_syms_o_raw ss1 _ Hs1). cbn [obind].
    set (em := fold_left enc_bypass_encode (bits_of ss1) (enc_bypass_init e)) in *.
    change (set3_e (enc_reset_contexts em)) with (r_e em).
    set (e4 := if reset then r_e em else em) in *.
    rewrite (enc_syms_o_raw ss2 _ Hs2). cbn [obind]. unfold enc_terminate at 1. cbv iota. cbn [obind].
    set (e3 := enc_bypass_flush (fold_left enc_bypass_encode (bits_of ss2) e4) pterm) in *.
    change (set3_e (enc_reset_contexts e3)) with (r_e e3).
    assert (HTI2 : TI (if reset then r_e e3 else e3)) by (apply TI_after; assumption).
    assert (Hpre3 : e_pre (if reset then r_e e3 else e3) = rev (data0 ++ seg1) ++ [0]).
    { destruct reset; [rewrite r_e_cxset; cbn [cxset e_pre]|]; exact Hpre1. }
    assert (Hcx3 : e_cx (if reset then r_e e3 else e3) = e_cx e).
    { destruct reset eqn:Er.
      - rewrite r_e_cxset. cbn [cxset e_cx]. rewrite (reset_cx_19 _ (proj2 Hcxs1)). symmetry. apply Hrc. reflexivity.
      - apply Hcx1. reflexivity. }
    set (f := if reset then r_e e3 else e3) in *.
    (* the cleanup pass *)
    pose proof (restart_inv f HTI2) as Hinv1.
    rewrite (enc_syms_o_mq ss3 _ Hs3 Hinv1 ltac:(rewrite restart_cx, Hcx3; apply Hcx0)). cbn [obind].
    rewrite (enc_terminate_fl pterm _ (enc_encode_list_inv _ _ Hinv1)). cbn [obind].
    destruct (restart_segment pterm f (data0 ++ seg1) (decs ss3) HTI2 Hpre3 (last_app_ne _ _ Hl0 Hlast1)
                (sym_mq_decision ss3 Hs3)) as (Hpre2 & Hlast2 & Hcx2 & Hhd2).
    rewrite Hcx3 in Hpre2, Hlast2, Hcx2.
    set (er := fl pterm (enc_encode_list (enc_restart_init f) (decs ss3))) in *.
    remember (seg_fn pterm (e_cx e) (decs ss3)) as seg2 eqn:Eseg2.
    change (set3_e (enc_reset_contexts er)) with (r_e er).
    assert (Hcxer : cxs_ok (e_cx er)).
    { rewrite Hcx2. apply (next_cx_ok false (e_cx e) (decs ss3)). exact Hcx0. }
    assert (HTI4 : TI (if reset then r_e er else er)) by (apply TI_after; assumption).
    assert (Hpre4 : e_pre (if reset then r_e er else er) = rev ((data0 ++ seg1) ++ seg2) ++ [0]).
    { destruct reset; [rewrite r_e_cxset; cbn [cxset e_pre]|]; exact Hpre2. }
    assert (Hcx4 : e_cx (if reset then r_e er else er) = next_cx reset (e_cx e) (decs ss3)).
    { unfold next_cx. destruct reset.
      - rewrite r_e_cxset. cbn [cxset e_cx]. apply reset_cx_19. apply Hcxer.
      - exact Hcx2. }
    assert (Hrc4 : reset = true -> e_cx (if reset then r_e er else er) = cx0).
    { intros Er. rewrite Hcx4. unfold next_cx. rewrite Er. reflexivity. }
    destruct (IH syms' (if reset then r_e er else er) ((data0 ++ seg1) ++ seg2) Hbs' Hok' HTI4 Hpre4
                 (last_app_ne _ _ (last_app_ne _ _ Hl0 Hlast1) Hlast2) Hrc4)
      as (e' & gs' & E & Hpre' & Hsy' & Hpl' & Hrel' & Hgs' & _).
    rewrite E. cbn [obind fst snd].
    rewrite (num_bytes_pre _ _ Hpre3), (num_bytes_pre _ _ Hpre4).
    assert (Hz1 : zlen (data0 ++ seg1) = zlen data0 + zlen seg1) by (unfold zlen; rewrite app_length; lia).
    assert (Hz2 : zlen ((data0 ++ seg1) ++ seg2) = zlen data0 + zlen seg1 + zlen seg2)
      by (unfold zlen; rewrite !app_length; lia).
    set (g1 := mkGrp true [(b, 0)] (b, 1) [ss1; ss2] seg1
                 [mkPass b 0 (enc_num_bytes e4 + enc_bypass_extra_bytes e4 pterm) (enc_num_bytes e4) false]
                 (mkPass b 1 (zlen (data0 ++ seg1)) (zlen (data0 ++ seg1)) true)).
    set (g2 := mkGrp false [] (b, 2) [ss3] seg2 []
                 (mkPass b 2 (zlen ((data0 ++ seg1) ++ seg2)) (zlen ((data0 ++ seg1) ++ seg2)) true)).
    exists e', (g1 :: g2 :: gs').
    split; [reflexivity|].
    split; [cbn [map concat g_seg g1 g2]; rewrite Hpre'; rewrite <- !app_assoc; reflexivity|].
    split; [cbn [map concat g_syms g1 g2 app]; rewrite Hsy'; reflexivity|].
    split; [cbn [map concat g_pl g_body g_ql g1 g2 app]; rewrite Hpl'; reflexivity|].
    split.
    { (* decoding facts *)
      cbn [grel]. exists (e_cx e). split.
      { unfold grp_dec_ok. cbn [g_raw g_syms g_seg g1 concat]. rewrite app_nil_r. split; [exact Hdec1|reflexivity]. }
      split; [exact Hcx0|]. split; [exact Hrc|].
      exists (next_cx reset (e_cx e) (decs ss3)). split.
      { unfold grp_dec_ok. cbn [g_raw g_syms g_seg g2 map].
        destruct (fresh_segment pterm (e_cx e) (decs ss3) (proj1 Hcx0)
                    ltac:(rewrite (proj2 Hcx0); apply sym_mq_decision; exact Hs3)) as (_ & _ & dd & d' & Edd & Edec & Ecxd).
        cbv zeta in Edec, Ecxd. rewrite <- Eseg2 in Edd.
        exists dd, (e_cx (enc_encode_list (enc_new_cx (e_cx e)) (decs ss3))).
        split; [exact Edd|]. split; [|unfold next_cx; reflexivity].
        cbn [dec_future_cx]. exists d'. split; [exact Edec|exact Ecxd]. }
      split; [apply next_cx_ok; exact Hcx0|].
      split; [intros Er; unfold next_cx; rewrite Er; reflexivity|].
      rewrite <- Hcx4. exact Hrel'. }
    split; [|discriminate].
    cbn [gs_ok]. split.
    { unfold g_ok. cbn [g_brecs g_body g_syms g_pl g_ql g_raw g_seg g_rl g1 length app p_rate].
      split; [reflexivity|]. split; [reflexivity|].
      split; [repeat constructor; unfold rawq; cbn [fst snd]; assumption|].
      split; [repeat constructor; unfold termq; cbn [fst snd]; assumption|].
      split; [repeat constructor; cbn [p_rate]; pose proof (bypass_extra_nonneg e4 pterm); lia|].
      split; [exact Hlast1|].
      split; [repeat constructor; cbn [sym_okr]; assumption|]. lia. }
    split.
    { left. unfold g_closed. cbn [g_ql g_rl g_seg g1 p_rate]. split; [unfold termq; cbn [fst snd]; exact Et1|exact Hz1]. }
    cbn [g_seg g1]. split.
    { unfold g_ok. cbn [g_brecs g_body g_syms g_pl g_ql g_raw g_seg g_rl g2 length app p_rate].
      split; [reflexivity|]. split; [reflexivity|].
      split; [repeat constructor; unfold rawq; cbn [fst snd]; assumption|].
      split; [constructor|]. split; [constructor|].
      split; [exact Hlast2|].
      split; [repeat constructor; cbn [sym_okr]; assumption|]. lia. }
    split.
    { left. unfold g_closed. cbn [g_ql g_rl g_seg g2 p_rate]. split; [unfold termq; cbn [fst snd]; exact Et2|lia]. }
    cbn [g_seg g2]. rewrite <- Hz1, <- Hz2 in *. replace (zlen (data0 ++ seg1) + zlen seg2) with (zlen ((data0 ++ seg1) ++ seg2)) by lia.
    exact Hgs'.
Qed.
End Enc.
