(* Tier-1 lockstep, part (iii): pass sequencing, and the theorem t1_lockstep. *)
From V Require Import Common.Base T1.T1Store T1.T1Ctx T1.T1Model T1.T1ProofsBase T1.T1ProofsSample T1.T1ProofsPass.

(* =====================================================================================
   The padded coefficient store
   ===================================================================================== *)
Lemma nth_firstn_lt : forall (l : list Z) n i, (i < n)%nat -> nth i (firstn n l) 0 = nth i l 0.
Proof.
  induction l as [|a l IH]; intros n i Hi.
  - rewrite firstn_nil. reflexivity.
  - destruct n; [lia|]. destruct i; cbn [firstn nth]; [reflexivity|]. apply IH. lia.
Qed.

Lemma nth_skipn_add : forall (l : list Z) n i, nth i (skipn n l) 0 = nth (n + i) l 0.
Proof.
  induction l as [|a l IH]; intros n i.
  - rewrite skipn_nil. destruct i, n; reflexivity.
  - destruct n; cbn [skipn plus nth]; [reflexivity|]. apply IH.
Qed.

Lemma idx_of_row : forall w x y, idx_of w x y = idx_of w 0 y + x.
Proof. intros. unfold idx_of. ring. Qed.

Lemma pad_rows_frame : forall w wn rows data y1 T j, 0 <= w -> 0 <= y1 -> 0 <= j < idx_of w 0 y1 ->
  fget (pad_rows w wn data rows y1 T) j = fget T j.
Proof.
  intros w wn rows. induction rows as [|r IH]; intros data y1 T j Hw Hy Hj.
  - reflexivity.
  - cbn [pad_rows]. rewrite IH; [|lia|lia|unfold idx_of in *; nia].
    rewrite fget_tree_of_list_from; [|unfold idx_of; nia|lia].
    destruct (Z.leb_spec (idx_of w 0 y1) j); [lia|]. reflexivity.
Qed.

Lemma pad_rows_get : forall wn rows data y0 T x y, let w := Z.of_nat wn in
  0 <= y0 -> 0 <= x < w -> y0 <= y < y0 + Z.of_nat rows -> (rows * wn <= length data)%nat ->
  fget (pad_rows w wn data rows y0 T) (idx_of w x y) = nth (Z.to_nat ((y - y0) * w + x)) data 0.
Proof.
  intros wn rows. induction rows as [|r IH]; intros data y0 T x y w Hy0 Hx Hy Hlen.
  - lia.
  - cbn [pad_rows]. fold w.
    destruct (Z.eq_dec y y0) as [E|E].
    + subst y. rewrite pad_rows_frame; [|lia|lia|unfold idx_of; nia].
      rewrite fget_tree_of_list_from; [|unfold idx_of; nia|unfold idx_of; nia].
      assert (Hl : zlen (firstn wn data) = w).
      { unfold zlen, w. rewrite firstn_length. cbn [mult] in Hlen. lia. }
      rewrite Hl. rewrite (idx_of_row w x y0).
      destruct (Z.leb_spec (idx_of w 0 y0) (idx_of w 0 y0 + x)); [|lia].
      destruct (Z.ltb_spec (idx_of w 0 y0 + x) (idx_of w 0 y0 + w)); [|lia]. cbn [andb].
      replace (idx_of w 0 y0 + x - idx_of w 0 y0) with x by lia.
      replace ((y0 - y0) * w + x) with x by lia.
      apply nth_firstn_lt. unfold w in Hx. lia.
    + rewrite (IH (skipn wn data) (y0 + 1) _ x y); try lia.
      * rewrite nth_skipn_add. f_equal. unfold w. nia.
      * rewrite skipn_length. cbn [mult] in Hlen. lia.
Qed.

Lemma pad_data_get : forall wn hn data x y, length data = (wn * hn)%nat ->
  0 <= x < Z.of_nat wn -> 0 <= y < Z.of_nat hn ->
  fget (pad_data wn hn data) (idx_of (Z.of_nat wn) x y) = nth (Z.to_nat (y * Z.of_nat wn + x)) data 0.
Proof.
  intros wn hn data x y Hlen Hx Hy. unfold pad_data.
  rewrite pad_rows_get; try lia.
  all: try (f_equal; f_equal; lia).
  all: try (rewrite Hlen; lia).
Qed.

(* =====================================================================================
   findMaxBitplane
   ===================================================================================== *)
Lemma max_abs_ge_acc : forall data m, m <= fold_left (fun m v => Z.max m (abs32 v)) data m.
Proof.
  induction data as [|a data IH]; intros m; cbn [fold_left]; [lia|].
  specialize (IH (Z.max m (abs32 a))). lia.
Qed.

Lemma max_abs_ge : forall data m v, In v data -> abs32 v <= fold_left (fun m v => Z.max m (abs32 v)) data m.
Proof.
  induction data as [|a data IH]; intros m v Hin; [destruct Hin|].
  cbn [fold_left]. destruct Hin as [->|Hin].
  - pose proof (max_abs_ge_acc data (Z.max m (abs32 v))). lia.
  - apply IH. exact Hin.
Qed.

Lemma max_abs_le : forall data m B, m <= B -> (forall v, In v data -> abs32 v <= B) ->
  fold_left (fun m v => Z.max m (abs32 v)) data m <= B.
Proof.
  induction data as [|a data IH]; intros m B Hm HB; cbn [fold_left]; [exact Hm|].
  apply IH.
  - pose proof (HB a (or_introl eq_refl)). lia.
  - intros v Hv. apply HB. right. exact Hv.
Qed.

Definition data_ok (data : list Z) : Prop := forall v, In v data -> - 2 ^ 31 < v < 2 ^ 31.

Lemma find_max_bitplane_spec : forall data, data_ok data ->
  let mb := find_max_bitplane data in
  (mb = -1 /\ forall v, In v data -> v = 0) \/
  (0 <= mb <= 30 /\ forall v, In v data -> Z.shiftr (Z.abs v) (mb + 1) = 0).
Proof.
  intros data Hok mb. unfold mb, find_max_bitplane, max_abs.
  set (m := fold_left (fun m v => Z.max m (abs32 v)) data 0).
  assert (Hge : forall v, In v data -> Z.abs v <= m).
  { intros v Hv. rewrite <- abs32_abs by (apply Hok; exact Hv). apply max_abs_ge. exact Hv. }
  assert (Hm0 : 0 <= m) by apply max_abs_ge_acc.
  assert (Hle : m <= 2 ^ 31 - 1).
  { apply max_abs_le; [lia|]. intros v Hv. rewrite abs32_abs by (apply Hok; exact Hv).
    pose proof (Hok v Hv). lia. }
  destruct (Z.eqb_spec m 0) as [E|E].
  - left. split; [reflexivity|]. intros v Hv. pose proof (Hge v Hv). lia.
  - right. assert (Hpos : 0 < m) by lia.
    destruct (Z.log2_spec m Hpos) as [Hlo Hhi].
    assert (Hl0 : 0 <= Z.log2 m) by apply Z.log2_nonneg.
    assert (Hl30 : Z.log2 m <= 30).
    { destruct (Z_le_gt_dec (Z.log2 m) 30); [assumption|].
      assert (2 ^ 31 <= 2 ^ Z.log2 m) by (apply Z.pow_le_mono_r; lia). lia. }
    split; [lia|]. intros v Hv. rewrite Z.shiftr_div_pow2 by lia.
    apply Z.div_small. pose proof (Hge v Hv). replace (Z.log2 m + 1) with (Z.succ (Z.log2 m)) by lia. lia.
Qed.

(* =====================================================================================
   The pass list
   ===================================================================================== *)
Definition next_bp (bp pt : Z) : Z := if pt =? 2 then bp - 1 else bp.
Definition next_pt (pt : Z) : Z := if pt =? 2 then 0 else pt + 1.

(* pl is a run of consecutive passes starting with (bp, pt), all planes within 0..30 *)
Fixpoint chain (bp pt : Z) (pl : list (Z * Z)) : Prop :=
  match pl with
  | [] => True
  | (b, p) :: r => b = bp /\ p = pt /\ 0 <= bp <= 30 /\ (pt = 0 \/ pt = 1 \/ pt = 2) /\
                   chain (next_bp bp pt) (next_pt pt) r
  end.

Lemma chain_firstn : forall n pl bp pt, chain bp pt pl -> chain bp pt (firstn n pl).
Proof.
  induction n as [|n IH]; intros pl bp pt H; [exact I|].
  destruct pl as [|[b p] r]; [exact I|]. cbn [firstn chain] in *.
  destruct H as (H1 & H2 & H3 & H4 & H5).
  split; [exact H1|split; [exact H2|split; [exact H3|split; [exact H4|apply IH; exact H5]]]].
Qed.

Ltac chain_head := split; [reflexivity|split; [reflexivity|split; [lia|split; [auto|]]]].

Lemma chain_planes : forall n k top, 0 <= top - Z.of_nat k - Z.of_nat n + 1 -> top - Z.of_nat k <= 30 ->
  chain (top - Z.of_nat k) 0
        (flat_map (fun i => let b := top - Z.of_nat i in [(b, 0); (b, 1); (b, 2)]) (seq k n)).
Proof.
  induction n as [|n IH]; intros k top Hlo Hhi; [exact I|].
  cbn [seq flat_map app]. cbv zeta. cbn [chain].
  chain_head.
  change (next_bp (top - Z.of_nat k) 0) with (top - Z.of_nat k). change (next_pt 0) with 1.
  chain_head.
  change (next_bp (top - Z.of_nat k) 1) with (top - Z.of_nat k). change (next_pt 1) with 2.
  chain_head.
  change (next_pt 2) with 0. unfold next_bp. change (2 =? 2) with true. cbv iota.
  replace (top - Z.of_nat k - 1) with (top - Z.of_nat (S k)) by lia.
  apply IH; lia.
Qed.

Lemma chain_all_passes : forall maxbp low, 0 <= low <= maxbp -> maxbp <= 30 ->
  chain maxbp 2 (all_passes maxbp low).
Proof.
  intros maxbp low Hl Hm. unfold all_passes. cbn [chain].
  chain_head.
  change (next_pt 2) with 0. unfold next_bp. change (2 =? 2) with true. cbv iota.
  pose proof (chain_planes (Z.to_nat (maxbp - low)) 0 (maxbp - 1)) as H.
  replace (maxbp - 1 - Z.of_nat 0) with (maxbp - 1) in H by lia.
  apply H; lia.
Qed.

(* the decoder's pass list (planes down to 0, as many passes as the encoder reported) is the
   encoder's pass list (planes down to fb, np passes) *)
Lemma all_passes_split : forall maxbp low, 0 <= low <= maxbp ->
  exists extra, all_passes maxbp 0 = all_passes maxbp low ++ extra.
Proof.
  intros maxbp low Hl. unfold all_passes.
  replace (Z.to_nat (maxbp - 0)) with (Z.to_nat (maxbp - low) + Z.to_nat low)%nat by lia.
  rewrite seq_app, flat_map_app. eexists. cbn [app]. rewrite app_comm_cons. reflexivity.
Qed.

Lemma pass_list_dec : forall maxbp fb np, 0 <= fb ->
  pass_list maxbp 0 (zlen (pass_list maxbp fb np)) = pass_list maxbp fb np.
Proof.
  intros maxbp fb np Hfb. unfold pass_list at 2 3.
  destruct (Z.ltb_spec maxbp fb) as [Hlt|Hge].
  - unfold pass_list. change (zlen (@nil (Z * Z))) with 0. destruct (maxbp <? 0); reflexivity.
  - unfold pass_list. destruct (Z.ltb_spec maxbp 0); [lia|].
    destruct (all_passes_split maxbp fb ltac:(lia)) as [extra ->].
    unfold zlen. rewrite Nat2Z.id.
    rewrite firstn_app.
    assert (Hl : (length (firstn (Z.to_nat np) (all_passes maxbp fb)) <= length (all_passes maxbp fb))%nat)
      by (rewrite firstn_length; lia).
    replace (length (firstn (Z.to_nat np) (all_passes maxbp fb)) - length (all_passes maxbp fb))%nat with 0%nat by lia.
    cbn [firstn]. rewrite app_nil_r.
    rewrite firstn_length.
    destruct (Nat.le_gt_cases (Z.to_nat np) (length (all_passes maxbp fb))) as [Hc|Hc].
    + rewrite Nat.min_l by exact Hc. reflexivity.
    + rewrite Nat.min_r by lia. rewrite firstn_all. rewrite firstn_all2 by lia. reflexivity.
Qed.

Lemma enc_passes_length : forall wn hn orient style maxbp V pl first F,
  length (enc_passes wn hn orient style maxbp V pl first F) = length pl.
Proof.
  intros wn hn orient style maxbp V pl. induction pl as [|[bp pt] r IH]; intros first F; [reflexivity|].
  cbn [enc_passes].
  destruct (enc_pass wn hn orient style bp pt (is_lazy_raw bp maxbp pt style) V
              (if start_bitplane pt first then clear_visit F else F)) as [F1 o].
  cbn [length]. rewrite IH. reflexivity.
Qed.

(* =====================================================================================
   Sequencing
   ===================================================================================== *)
Section Block.
Variables (wn hn : nat) (V : tree) (orient style maxbp : Z).
Let w := Z.of_nat wn.
Let h := Z.of_nat hn.
Hypothesis HV : Vbound w h V.

(* plane map before pass (bp, pt) (not the very first pass) and after it *)
Definition Pbefore (bp pt : Z) : tree -> Z -> Z -> Z :=
  if pt =? 0 then (fun _ _ _ => bp + 1) else if pt =? 1 then Pspp w bp else Pmid wn bp.
Definition Pafter (bp pt : Z) : tree -> Z -> Z -> Z :=
  if pt =? 0 then Pspp w bp else if pt =? 1 then Pmid wn bp else (fun _ _ _ => bp).

Fixpoint final_P (bp pt : Z) (pl : list (Z * Z)) : tree -> Z -> Z -> Z :=
  match pl with
  | [] => Pbefore bp pt
  | _ :: r => final_P (next_bp bp pt) (next_pt pt) r
  end.

Lemma Pafter_next : forall bp pt F x y, pt = 0 \/ pt = 1 \/ pt = 2 ->
  Pbefore (next_bp bp pt) (next_pt pt) F x y = Pafter bp pt F x y.
Proof.
  intros bp pt F x y [->|[->| ->]]; unfold Pbefore, Pafter, next_bp, next_pt; cbn; try reflexivity. lia.
Qed.

(* one pass (not the very first one), with the clearing of the Visit flags when it starts a plane *)
Lemma pass_lockstep_gen : forall bp pt raw F0 D Ppre Ppost tl ps,
  lockstep (enc_pass wn hn orient style bp pt raw V) (dec_pass ideal_ask wn hn orient style bp pt raw false)
           (Rfd w h V Ppre) (Rfd w h V Ppost) ->
  Rfd w h V Ppre F0 (F0, D) ->
  exists D1, dec_pass ideal_ask wn hn orient style bp pt raw false
               ((F0, D), (snd (enc_pass wn hn orient style bp pt raw V F0) ++ tl, ps))
             = Ok ((fst (enc_pass wn hn orient style bp pt raw V F0), D1), (tl, ps)) /\
             Rfd w h V Ppost (fst (enc_pass wn hn orient style bp pt raw V F0))
                 (fst (enc_pass wn hn orient style bp pt raw V F0), D1).
Proof.
  intros bp pt raw F0 D Ppre Ppost tl ps L Hpre.
  destruct (L F0 (F0, D) Hpre tl ps) as ([F1 D1] & Ed & Hpost).
  assert (E1 : fst (enc_pass wn hn orient style bp pt raw V F0) = F1) by apply Hpost.
  exists D1. rewrite E1 in *. split; [exact Ed|exact Hpost].
Qed.

Lemma pass_lockstep_rest : forall bp pt, 0 <= bp <= 30 -> pt = 0 \/ pt = 1 \/ pt = 2 ->
  forall Fe D, Rfd w h V (Pbefore bp pt) Fe (Fe, D) ->
  forall raw tl ps, exists D1,
    dec_pass ideal_ask wn hn orient style bp pt raw false
      (((if start_bitplane pt false then clear_visit Fe else Fe), D),
       (snd (enc_pass wn hn orient style bp pt raw V (if start_bitplane pt false then clear_visit Fe else Fe)) ++ tl, ps))
    = Ok ((fst (enc_pass wn hn orient style bp pt raw V (if start_bitplane pt false then clear_visit Fe else Fe)), D1), (tl, ps)) /\
    Rfd w h V (Pafter bp pt)
        (fst (enc_pass wn hn orient style bp pt raw V (if start_bitplane pt false then clear_visit Fe else Fe)))
        (fst (enc_pass wn hn orient style bp pt raw V (if start_bitplane pt false then clear_visit Fe else Fe)), D1).
Proof.
  intros bp pt Hbp Hpt Fe D Hr raw tl ps.
  destruct Hpt as [->|[->| ->]]; unfold Pafter, Pbefore in *.
  - change (0 =? 0) with true in *. cbv iota in *.
    change (start_bitplane 0 false) with true. cbv iota.
    apply (pass_lockstep_gen bp 0 raw (clear_visit Fe) D (Pspp w bp) (Pspp w bp));
      [apply spp_pass_lockstep; assumption|].
    destruct Hr as [_ HI]. split; [reflexivity|]. cbn [snd] in *. intros x y Hin.
    specialize (HI x y Hin). unfold Pspp.
    destruct (clear_visit_self Fe (idx_of w x y)) as (Hs & Hv & Hn). rewrite Hs, Hn, Hv. exact HI.
  - change (1 =? 0) with false in *. change (1 =? 1) with true in *. cbv iota in *.
    change (start_bitplane 1 false) with false. cbv iota.
    apply (pass_lockstep_gen bp 1 raw Fe D (Pspp w bp) (Pmid wn bp)); [apply mrp_pass_lockstep; assumption|exact Hr].
  - change (2 =? 0) with false in *. change (2 =? 1) with false in *. cbv iota in *.
    change (start_bitplane 2 false) with false. cbv iota.
    apply (pass_lockstep_gen bp 2 raw Fe D (Pmid wn bp) (Pdone bp)); [apply cup_pass_lockstep; assumption|exact Hr].
Qed.

Lemma rest_lockstep : forall pl bp pt i Fe D, chain bp pt pl -> 1 <= i ->
  Rfd w h V (Pbefore bp pt) Fe (Fe, D) ->
  exists D',
    dec_passes ideal_ask ideal_pre ideal_post wn hn orient style maxbp false pl i
               ((Fe, D), ([], enc_passes wn hn orient style maxbp V pl false Fe))
    = Ok ((enc_final_flags wn hn orient style maxbp V pl false Fe, D'), ([], [])) /\
    Rfd w h V (final_P bp pt pl) (enc_final_flags wn hn orient style maxbp V pl false Fe)
        (enc_final_flags wn hn orient style maxbp V pl false Fe, D').
Proof.
  induction pl as [|[b p] r IH]; intros bp pt i Fe D Hc Hi Hr.
  - exists D. cbn [dec_passes enc_passes enc_final_flags final_P]. split; [reflexivity|exact Hr].
  - cbn [chain] in Hc. destruct Hc as (-> & -> & Hbp & Hpt & Hc).
    cbn [dec_passes enc_passes enc_final_flags final_P].
    replace (i =? 0) with false by (symmetry; apply Z.eqb_neq; lia).
    set (raw := is_lazy_raw bp maxbp pt style).
    set (F0 := if start_bitplane pt false then clear_visit Fe else Fe).
    destruct (enc_pass wn hn orient style bp pt raw V F0) as [F1 o] eqn:Ee. cbn [fst].
    set (RS := enc_passes wn hn orient style maxbp V r false F1).
    destruct (pass_lockstep_rest bp pt Hbp Hpt Fe D Hr raw [] RS) as (D1 & Ed & Hpost).
    fold F0 in Ed, Hpost. rewrite Ee in Ed, Hpost. cbn [fst snd] in Ed, Hpost. rewrite app_nil_r in Ed.
    assert (Hnext : Rfd w h V (Pbefore (next_bp bp pt) (next_pt pt)) F1 (F1, D1)).
    { apply (Rfd_ext wn hn V _ _ _ _ Hpost). intros x y Hin. apply Pafter_next. exact Hpt. }
    destruct (IH (next_bp bp pt) (next_pt pt) (i + 1) F1 D1 Hc ltac:(lia) Hnext) as (D' & Edr & Hfin).
    exists D'. split; [|exact Hfin].
    unfold ideal_pre. cbn [fst snd obind].
    obind_step Ed. cbn [obind fst snd]. unfold ideal_post. cbn [fst obind].
    exact Edr.
Qed.

Lemma final_P_last : forall pl bp pt, chain bp pt pl -> pl <> [] -> forall F x y,
  final_P bp pt pl F x y = Pafter (fst (last pl (0, 0))) (snd (last pl (0, 0))) F x y.
Proof.
  induction pl as [|[b p] r IH]; intros bp pt Hc Hne F x y; [congruence|].
  cbn [chain] in Hc. destruct Hc as (-> & -> & Hbp & Hpt & Hc).
  destruct r as [|a2 r'].
  - cbn [final_P last fst snd]. apply Pafter_next. exact Hpt.
  - change (final_P bp pt ((bp, pt) :: a2 :: r') F x y)
      with (final_P (next_bp bp pt) (next_pt pt) (a2 :: r') F x y).
    rewrite (IH _ _ Hc ltac:(discriminate)). reflexivity.
Qed.

End Block.

(* =====================================================================================
   The theorem
   ===================================================================================== *)
(* lowest bit-plane coded so far for the sample at (x, y), given the last coded pass (bp, ptype)
   and the final flags F: after a significance propagation pass the samples that pass visited
   (Visit flag) are down to bp, the others still at bp+1; after a refinement pass also every
   significant sample is at bp; after a cleanup pass all samples are at bp *)
Definition plane_after (w : Z) (lp : Z * Z) (F : tree) (x y : Z) : Z :=
  let '(bp, pt) := lp in
  if pt =? 0 then (if visb F (idx_of w x y) then bp else bp + 1)
  else if pt =? 1 then (if visb F (idx_of w x y) || sigb F (idx_of w x y) then bp else bp + 1)
  else bp.

Lemma chain_last : forall pl bp pt, chain bp pt pl -> pl <> [] ->
  0 <= fst (last pl (0, 0)) /\ (snd (last pl (0, 0)) = 0 \/ snd (last pl (0, 0)) = 1 \/ snd (last pl (0, 0)) = 2).
Proof.
  induction pl as [|[b p] l IH]; intros bp pt Hc Hne; [congruence|].
  cbn [chain] in Hc. destruct Hc as (-> & -> & Hb & Hp & Hc). destruct l as [|a l'].
  - cbn [last fst snd]. split; [lia|exact Hp].
  - change (last ((bp, pt) :: a :: l') (0, 0)) with (last (a :: l') (0, 0)).
    apply (IH _ _ Hc). discriminate.
Qed.

Lemma samp_ok_trunc : forall v sg sn d P, 0 <= P -> samp_ok v sg sn d P -> d = trunc v P.
Proof.
  intros v sg sn d P HP H. unfold samp_ok in H. destruct sg.
  - apply H.
  - destruct H as (-> & _ & Hz). unfold trunc, tmag. rewrite Hz, Z.shiftl_0_l. lia.
Qed.

Lemma trunc_0 : forall v, trunc v 0 = v.
Proof. intros. unfold trunc. rewrite tmag_0 by lia. rewrite Z.mul_comm. apply Z.abs_sgn. Qed.

Theorem t1_lockstep : forall (wn hn : nat) (orient style fb np : Z) (data : list Z),
  length data = (wn * hn)%nat -> data_ok data -> 0 <= fb ->
  let maxbp := find_max_bitplane data in
  let V := pad_data wn hn data in
  let pl := pass_list maxbp fb np in
  let syms := snd (enc_syms wn hn orient style fb np data) in
  let F' := enc_final_flags wn hn orient style maxbp V pl true Leaf in
  exists D',
    dec_ideal wn hn orient style maxbp false syms = Ok ((F', D'), ([], [])) /\
    forall x y, 0 <= x < Z.of_nat wn -> 0 <= y < Z.of_nat hn ->
      fget D' (idx_of (Z.of_nat wn) x y) =
      match pl with
      | [] => 0
      | _ => trunc (nth (Z.to_nat (y * Z.of_nat wn + x)) data 0)
                   (plane_after (Z.of_nat wn) (last pl (0, 0)) F' x y)
      end.
Proof.
  intros wn hn orient style fb np data Hlen Hok Hfb maxbp V pl syms F'.
  unfold syms, enc_syms. cbn [snd]. fold maxbp. fold V. fold pl.
  unfold dec_ideal. unfold zlen. rewrite enc_passes_length. fold (zlen pl).
  unfold pl at 1. rewrite pass_list_dec by exact Hfb. fold pl.
  assert (HVget : forall x y, 0 <= x < Z.of_nat wn -> 0 <= y < Z.of_nat hn ->
            fget V (idx_of (Z.of_nat wn) x y) = nth (Z.to_nat (y * Z.of_nat wn + x)) data 0).
  { intros. apply pad_data_get; assumption. }
  assert (HVin : forall x y, 0 <= x < Z.of_nat wn -> 0 <= y < Z.of_nat hn ->
            In (fget V (idx_of (Z.of_nat wn) x y)) data).
  { intros x y Hx Hy. rewrite HVget by assumption. apply nth_In. rewrite Hlen. nia. }
  assert (HV : Vbound (Z.of_nat wn) (Z.of_nat hn) V).
  { intros x y [Hx Hy]. apply Hok. apply HVin; assumption. }
  destruct pl as [|[b p] r] eqn:Epl.
  - exists Leaf. cbn [enc_passes dec_passes]. split; [reflexivity|]. intros. apply fget_leaf.
  - (* at least one pass: maxbp >= fb >= 0 *)
    assert (Hge : fb <= maxbp).
    { unfold pl, pass_list in Epl. destruct (Z.ltb_spec maxbp fb); [discriminate|assumption]. }
    pose proof (find_max_bitplane_spec data Hok) as Hspec. cbv zeta in Hspec. fold maxbp in Hspec.
    destruct Hspec as [[Hm1 _]|[Hmb Hhigh]]; [lia|].
    assert (Hchain : chain maxbp 2 pl).
    { unfold pl, pass_list. destruct (Z.ltb_spec maxbp fb); [exact I|].
      apply chain_firstn. apply chain_all_passes; lia. }
    rewrite Epl in Hchain. cbn [chain] in Hchain. destruct Hchain as (Eb & Ep & _ & _ & Hc). subst b p.
    change (next_pt 2) with 0 in Hc. unfold next_bp in Hc. change (2 =? 2) with true in Hc. cbv iota in Hc.
    cbn [dec_passes enc_passes].
    change (0 =? 0) with true. change (start_bitplane 2 true) with true. cbv iota.
    change (clear_visit Leaf) with Leaf.
    set (raw := is_lazy_raw maxbp maxbp 2 style).
    assert (Hinit : Rfd (Z.of_nat wn) (Z.of_nat hn) V (Pmid wn maxbp) Leaf (Leaf, Leaf)).
    { split; [reflexivity|]. cbn [snd]. intros x y [Hx Hy]. unfold Pmid, sigb, sgnb, visb.
      rewrite !fget_leaf. change (has 0 T1Sig) with false. change (has 0 T1Sign) with false.
      change (has 0 T1Visit) with false. cbn [orb]. unfold samp_ok.
      repeat split. apply Hhigh. apply HVin; assumption. }
    destruct (enc_pass wn hn orient style maxbp 2 raw V Leaf) as [F1 o] eqn:Ee.
    set (RS := enc_passes wn hn orient style maxbp V r false F1).
    destruct (pass_lockstep_gen wn hn V orient style maxbp 2 raw Leaf Leaf (Pmid wn maxbp) (Pdone maxbp) [] RS
                (cup_pass_lockstep wn hn V orient style HV maxbp raw ltac:(lia)) Hinit) as (D1 & Ed & Hpost).
    rewrite Ee in Ed, Hpost. cbn [fst snd] in Ed, Hpost. rewrite app_nil_r in Ed.
    assert (Hnext : Rfd (Z.of_nat wn) (Z.of_nat hn) V (Pbefore wn (maxbp - 1) 0) F1 (F1, D1)).
    { apply (Rfd_ext wn hn V _ _ _ _ Hpost). intros x y Hin. unfold Pbefore, Pdone. cbn. lia. }
    destruct (rest_lockstep wn hn V orient style maxbp HV r (maxbp - 1) 0 1 F1 D1 Hc ltac:(lia) Hnext) as (D' & Edr & Hfin).
    exists D'.
    assert (EF : F' = enc_final_flags wn hn orient style maxbp V r false F1).
    { unfold F'. cbn [enc_final_flags]. change (start_bitplane 2 true) with true. cbv iota.
      change (clear_visit Leaf) with Leaf. fold raw. rewrite Ee. reflexivity. }
    split.
    + unfold ideal_pre. cbn [fst snd obind].
      obind_step Ed. cbn [obind fst snd]. unfold ideal_post. cbn [fst obind].
      change (0 + 1) with 1. rewrite EF. exact Edr.
    + intros x y Hx Hy. destruct Hfin as [_ HI]. cbn [snd] in HI.
      specialize (HI x y (conj Hx Hy)).
      assert (Hchain2 : chain maxbp 2 ((maxbp, 2) :: r)).
      { cbn [chain]. repeat split; auto; try lia. }
      pose proof (final_P_last wn hn ((maxbp, 2) :: r) maxbp 2 Hchain2 ltac:(discriminate)
                    (enc_final_flags wn hn orient style maxbp V r false F1) x y) as HP.
      cbn [final_P] in HP. change (next_pt 2) with 0 in HP. unfold next_bp in HP at 1.
      change (2 =? 2) with true in HP. cbv iota in HP. rewrite HP in HI.
      rewrite <- HVget by assumption. rewrite EF.
      set (lp := last ((maxbp, 2) :: r) (0, 0)) in *.
      assert (Hlp : 0 <= fst lp /\ (snd lp = 0 \/ snd lp = 1 \/ snd lp = 2)).
      { subst lp. apply (chain_last _ _ _ Hchain2). discriminate. }
      destruct Hlp as [Hlp0 Hlpt].
      replace (plane_after (Z.of_nat wn) lp (enc_final_flags wn hn orient style maxbp V r false F1) x y)
        with (Pafter wn (fst lp) (snd lp) (enc_final_flags wn hn orient style maxbp V r false F1) x y).
      * assert (HP0 : 0 <= Pafter wn (fst lp) (snd lp) (enc_final_flags wn hn orient style maxbp V r false F1) x y).
        { unfold Pafter, Pspp, Pmid. destruct Hlpt as [E|[E|E]]; rewrite E.
          - change (0 =? 0) with true. cbv beta iota.
            match goal with |- context [if ?c then _ else _] => destruct c end; lia.
          - change (1 =? 0) with false. change (1 =? 1) with true. cbv beta iota.
            match goal with |- context [if ?c then _ else _] => destruct c end; lia.
          - change (2 =? 0) with false. change (2 =? 1) with false. cbv beta iota. lia. }
        apply (samp_ok_trunc _ _ _ _ _ HP0 HI).
      * destruct lp as [lb lt]. cbn [fst snd] in *. unfold plane_after, Pafter, Pspp, Pmid.
        destruct Hlpt as [->|[->| ->]]; reflexivity.
Qed.
