(* EXTRACT *)
(* Byte layer of the tier-1 model: the symbol lists of T1Model.v connected to bytes through the
   real coders (MQ.MqModel: MQ encoder / decoder, bypass writer, raw decoder), following
     encoder_layered.go  EncodeLayered  (and encoder.go Encode): BypassInitEnc / RestartInitEnc
       after a terminated pass, BypassFlushEnc / ErtermEnc / FlushToOutput at the terminating
       passes, context reset, per-pass Rate / ActualBytes, normalizePassRates, Len;
     decoder.go  DecodeLayeredWithMode as of /repo b319f17 (the repair of finding F18: per
       codeword segment - segment look-ahead with isTerminatingPass, slices of data by the pass
       lengths, fresh MQ / raw decoder per segment, contexts preserved or reset; before the
       repair a LAZY style without TERMALL went to DecodeWithOptions and the 1x1 block [16] with
       style 0x01 decoded as 18) and DecodeWithOptions / DecodeWithBitplane (one MQ decoder over
       the whole data; raw passes there still call RawDecode on the live MQ decoder, modelled
       by raw_on_dec).
   Known and reproduced by this model (outside C20, which codes all passes): when numPasses
   stops on a non-terminated bypass pass the encoder ends the stream with the MQ Flush(), which
   garbles the tail of that pass (1x2 block [16,0], style 0x01, 11 of 13 passes -> [16,-1]).
   Used for the byte-exact correspondence run only; no theorem of the t1 area depends on the
   MQ proofs. *)
From V Require Import Common.Base T1.T1Store T1.T1Ctx T1.T1Model.
Require V.MQ.MqModel.

Definition nctx : nat := 19.   (* NUMCONTEXTS *)

(* SetContextState(CTXUNI, 46); SetContextState(CTXRL, 3); SetContextState(CTXZCSTART, 4) *)
Definition set3_e (e : MqModel.enc) : MqModel.enc :=
  MqModel.enc_set_context_state (MqModel.enc_set_context_state (MqModel.enc_set_context_state e CTXUNI 46) CTXRL 3) 0 4.
Definition set3_d (d : MqModel.dec) : MqModel.dec :=
  MqModel.dec_set_context_state (MqModel.dec_set_context_state (MqModel.dec_set_context_state d CTXUNI 46) CTXRL 3) 0 4.

(* =====================================================================================
   Encoder
   ===================================================================================== *)
Definition enc_sym_o (e : MqModel.enc) (s : sym) : outcome MqModel.enc :=
  let '(k, cx, b) := s in
  if k =? 0 then MqModel.enc_encode_o e b cx else Ok (MqModel.enc_bypass_encode e b).

Fixpoint enc_syms_o (e : MqModel.enc) (l : list sym) : outcome MqModel.enc :=
  match l with
  | [] => Ok e
  | s :: r => obind (enc_sym_o e s) (fun e1 => enc_syms_o e1 r)
  end.

Definition enc_terminate (e : MqModel.enc) (raw pterm : bool) : outcome MqModel.enc :=
  if raw then Ok (MqModel.enc_bypass_flush e pterm)
  else if pterm then
    if 0 <? fst (MqModel.enc_erterm_loop 4 (11 - MqModel.e_ct e + 1) e) then OutOfFuel
    else if MqModel.enc_erterm_panics e then Panic else Ok (MqModel.enc_erterm e)
  else Ok (MqModel.enc_flush_state e).

(* PassData: Bitplane, PassType, Rate, ActualBytes, Terminated (Len is derived at the end) *)
Record passrec : Type := mkPass { p_bp : Z; p_type : Z; p_rate : Z; p_actual : Z; p_term : bool }.

Fixpoint enc_bytes_passes (style maxbp : Z) (pl : list (Z * Z)) (syms : list (list sym)) (prevTerm : bool)
                          (e : MqModel.enc) : outcome ((MqModel.enc * bool) * list passrec) :=
  match pl, syms with
  | (bp, ptype) :: pl', ss :: syms' =>
    let raw := is_lazy_raw bp maxbp ptype style in
    let pterm := negb (Z.land style CblkStylePterm =? 0) in
    let e1 := if prevTerm then (if raw then MqModel.enc_bypass_init e else MqModel.enc_restart_init e) else e in
    obind (enc_syms_o e1 ss) (fun e2 =>
      let term := is_terminating bp maxbp ptype style in
      obind (if term then enc_terminate e2 raw pterm else Ok e2) (fun e3 =>
        let e4 := if negb (Z.land style CblkStyleReset =? 0) then set3_e (MqModel.enc_reset_contexts e3) else e3 in
        let actual := MqModel.enc_num_bytes e4 in
        let rate := if term then actual
                    else if raw then actual + MqModel.enc_bypass_extra_bytes e4 pterm else actual + 3 in
        obind (enc_bytes_passes style maxbp pl' syms' term e4) (fun r =>
          Ok (fst r, mkPass bp ptype rate actual term :: snd r))))
  | _, _ => Ok ((e, prevTerm), [])
  end.

(* normalizePassRates, run from the last pass to the first; `ps` is given REVERSED (last pass
   first) and the result is in the same reversed order *)
Fixpoint normalize_rev (data : list Z) (ps : list passrec) (lastRate : Z) : list passrec :=
  match ps with
  | [] => []
  | p :: r =>
    let rate1 := if lastRate <? p_rate p then lastRate else p_rate p in
    let last1 := if lastRate <? p_rate p then lastRate else p_rate p in
    let ff := (0 <? rate1) && (rate1 <=? zlen data) && (znth data (rate1 - 1) 0 =? 0xFF) in
    let rate2 := if ff then rate1 - 1 else rate1 in
    let last2 := if ff then rate1 - 1 else last1 in
    let act := if rate2 <? p_actual p then rate2 else p_actual p in
    mkPass (p_bp p) (p_type p) rate2 act (p_term p) :: normalize_rev data r last2
  end.

(* EncodeLayered(data, numPasses, 0, _, style) on NewT1Encoder(w, h, style) with
   SetOrientation(orient), SetNMSEDecFractionalBits(fb): (maxBitplane, passes, bytes).
   maxBitplane < fb (in particular the all-zero block): no passes, no bytes. *)
Definition enc_layered (wn hn : nat) (orient style fb np : Z) (data : list Z)
  : outcome (Z * list passrec * list Z) :=
  let '(maxbp, syms) := enc_syms wn hn orient style fb np data in
  if maxbp <? fb then Ok (maxbp, [], [])
  else
    obind (enc_bytes_passes style maxbp (pass_list maxbp fb np) syms false (set3_e (MqModel.enc_new nctx))) (fun r =>
      let '((e, prevTerm), ps) := r in
      let bytes := if prevTerm then MqModel.enc_get_buffer e else MqModel.enc_flush e in
      Ok (maxbp, rev (normalize_rev bytes (rev ps) (zlen bytes)), bytes)).

(* Encode(data, numPasses, 0): same stream; the all-zero block gives the flush of a fresh coder *)
Definition enc_plain (wn hn : nat) (orient style fb np : Z) (data : list Z) : outcome (list Z) :=
  if find_max_bitplane data <? 0 then Ok (MqModel.enc_flush (MqModel.enc_new nctx))
  else obind (enc_layered wn hn orient style fb np data) (fun r => Ok (snd r)).

(* Len[i] = Rate[i] - Rate[i-1] *)
Fixpoint pass_lens (prev : Z) (ps : list passrec) : list Z :=
  match ps with [] => [] | p :: r => (p_rate p - prev) :: pass_lens (p_rate p) r end.

(* =====================================================================================
   Decoder
   ===================================================================================== *)
(* t1.mqc: an MQ decoder, a raw decoder (NewRawDecoder: no contexts), or not yet created *)
Inductive coder : Type := CoMQ (d : MqModel.dec) | CoRaw (r : MqModel.rawdec) | CoNone.

(* RawDecode() called on an MQ decoder object: it shares c, ct, bp and data with Decode
   (MqModel.dec_raw_decode, which follows /repo 0df49a6: at bp >= dataLen the reader feeds
   1-bits without advancing) *)
Definition raw_on_dec (d : MqModel.dec) : outcome (MqModel.dec * Z) := MqModel.dec_raw_decode d.

Definition coder_ask : ask_t coder := fun co kind ctx =>
  match co with
  | CoMQ d =>
    if kind =? 0 then obind (MqModel.dec_decode d ctx) (fun r => Ok (CoMQ (fst r), snd r))
    else obind (raw_on_dec d) (fun r => Ok (CoMQ (fst r), snd r))
  | CoRaw r =>
    if kind =? 0 then Panic   (* Decode on a raw decoder: contexts is nil *)
    else obind (MqModel.raw_decode r) (fun p => Ok (CoRaw (fst p), snd p))
  | CoNone => Panic
  end.

Definition slice (data : list Z) (a b : Z) : list Z :=
  firstn (Z.to_nat (b - a)) (skipn (Z.to_nat a) data).

(* ---------- DecodeLayeredWithMode, segment path ---------- *)
Record segst : Type := mkSeg {
  sg_co : coder; sg_prevctx : list Z; sg_prevEnd : Z; sg_segEnd : Z; sg_segLast : Z;
  sg_need : bool; sg_mqStarted : bool }.

Definition seg_ask : ask_t segst := fun s kind ctx =>
  obind (coder_ask (sg_co s) kind ctx) (fun r =>
    Ok (mkSeg (fst r) (sg_prevctx s) (sg_prevEnd s) (sg_segEnd s) (sg_segLast s) (sg_need s) (sg_mqStarted s), snd r)).

(* look-ahead: index of the pass that ends the segment starting at pass `last` = (bp, pt) *)
Fixpoint seg_last (fuel : nat) (style maxbp np : Z) (useT : bool) (last bp pt : Z) : Z :=
  match fuel with
  | O => last
  | S f =>
    if (last <? np - 1) && negb useT && negb (is_terminating bp maxbp pt style) then
      if pt =? 2 then seg_last f style maxbp np useT (last + 1) (bp - 1) 0
      else seg_last f style maxbp np useT (last + 1) bp (pt + 1)
    else last
  end.

Definition seg_pre (style maxbp : Z) (useT resetc : bool) (data plens : list Z) : hook_t segst :=
  fun i bp pt raw s =>
  if sg_need s then
    let np := zlen plens in
    let last := seg_last (length plens) style maxbp np useT i bp pt in
    let segEnd := znth plens last 0 in
    if (segEnd <? sg_prevEnd s) || (zlen data <? segEnd) then Err
    else
      let sd := slice data (sg_prevEnd s) segEnd in
      if raw then
        Ok (mkSeg (CoRaw (MqModel.raw_new sd)) (sg_prevctx s) (sg_prevEnd s) segEnd last false (sg_mqStarted s))
      else if negb (sg_mqStarted s) || resetc then
        obind (MqModel.dec_new sd nctx) (fun d =>
          Ok (mkSeg (CoMQ (set3_d d)) (sg_prevctx s) (sg_prevEnd s) segEnd last false true))
      else
        obind (MqModel.dec_new_cx sd (sg_prevctx s)) (fun d =>
          Ok (mkSeg (CoMQ d) (sg_prevctx s) (sg_prevEnd s) segEnd last false (sg_mqStarted s)))
  else Ok s.

Definition seg_post (resetc : bool) : hook_t segst := fun i bp pt raw s =>
  obind (if raw then Ok s
         else match sg_co s with
              | CoMQ d =>
                if resetc then
                  Ok (mkSeg (CoMQ (set3_d (MqModel.dec_reset_contexts d))) (sg_prevctx s) (sg_prevEnd s)
                            (sg_segEnd s) (sg_segLast s) (sg_need s) (sg_mqStarted s))
                else
                  Ok (mkSeg (sg_co s) (MqModel.d_cx d) (sg_prevEnd s) (sg_segEnd s) (sg_segLast s)
                            (sg_need s) (sg_mqStarted s))
              | CoRaw _ =>
                if resetc then Panic    (* SetContextState on nil contexts *)
                else Ok (mkSeg (sg_co s) [] (sg_prevEnd s) (sg_segEnd s) (sg_segLast s) (sg_need s) (sg_mqStarted s))
              | CoNone => Panic
              end) (fun s1 =>
    if i =? sg_segLast s1 then
      Ok (mkSeg (sg_co s1) (sg_prevctx s1) (sg_segEnd s1) (sg_segEnd s1) (sg_segLast s1) true (sg_mqStarted s1))
    else Ok s1).

(* ---------- DecodeWithOptions ---------- *)
Definition dec_reinit (d : MqModel.dec) : MqModel.dec :=   (* ReinitAfterTermination *)
  MqModel.mkDec 0x8000 0 0 (MqModel.d_eos d) (MqModel.d_bp d) (MqModel.d_dlen d) (MqModel.d_cur d)
                (MqModel.d_rest d) (MqModel.d_cx d).

Definition co_map (f : MqModel.dec -> MqModel.dec) (c : coder) : coder :=
  match c with CoMQ d => CoMQ (f d) | _ => c end.

Definition opt_post (style np : Z) (useT : bool) : hook_t coder := fun i bp pt raw c =>
  let more := i + 1 <? np in
  let c1 := if useT && more then co_map (fun d => set3_d (MqModel.dec_reset_contexts (dec_reinit d))) c else c in
  let c2 := if negb (Z.land style CblkStyleReset =? 0) && more && negb raw
            then co_map (fun d => set3_d (MqModel.dec_reset_contexts d)) c1 else c1 in
  Ok c2.

Definition dec_with_options (wn hn : nat) (orient style maxbp : Z) (oj useT0 : bool) (data : list Z) (np : Z)
  : outcome (list Z) :=
  let useT := useT0 || negb (Z.land style CblkStyleTermAll =? 0) in
  match data with
  | [] => Err
  | _ =>
    obind (MqModel.dec_new data nctx) (fun d =>
    obind (dec_passes coder_ask (fun _ _ _ _ c => Ok c) (opt_post style np useT) wn hn orient style maxbp oj
                      (pass_list maxbp 0 np) 0 ((Leaf, Leaf), CoMQ (set3_d d))) (fun r =>
      Ok (get_data wn hn (snd (fst r)))))
  end.

(* DecodeLayeredWithMode(data, passLengths, maxBitplane, 0, useTERMALL, lossless) on
   NewT1Decoder(w, h, style) with SetOrientation(orient), SetOpenJPEGReconstruction(oj);
   result = GetData() *)
Definition dec_layered (wn hn : nat) (orient style maxbp : Z) (oj useT lossless : bool) (data plens : list Z)
  : outcome (list Z) :=
  match data, plens with
  | [], _ => Err
  | _, [] => Err
  | _, _ =>
    let lazy := negb (Z.land style CblkStyleLazy =? 0) in
    if negb useT && negb lazy then dec_with_options wn hn orient style maxbp oj false data (zlen plens)
    else
      let resetc := lossless || negb (Z.land style CblkStyleReset =? 0) in
      obind (dec_passes seg_ask (seg_pre style maxbp useT resetc data plens) (seg_post resetc)
                        wn hn orient style maxbp oj (pass_list maxbp 0 (zlen plens)) 0
                        ((Leaf, Leaf), mkSeg CoNone [] 0 0 0 true false)) (fun r =>
        Ok (get_data wn hn (snd (fst r))))
  end.

(* the encoder's stream through the decoder, pass lengths = the Rate values (the driver of the
   property's T1 clause) *)
Definition t1_roundtrip (wn hn : nat) (orient style fb : Z) (data : list Z) : outcome (list Z) :=
  let maxbp := find_max_bitplane data in
  obind (enc_layered wn hn orient style fb (3 * (maxbp - fb + 1) - 2) data) (fun r =>
    let '((mb, ps), bytes) := r in
    match ps with
    | [] => Ok (map (fun _ => 0) data)
    | _ => dec_layered wn hn orient style mb false
                       (negb (Z.land style CblkStyleTermAll =? 0)) (negb (Z.land style CblkStyleReset =? 0))
                       bytes (map p_rate ps)
    end).
