(* Byte-level round trip for TERMALL with LAZY (and any of RESET, VSC, PTERM, SEGSYM): every pass
   is decoded from its own slice of the data by a fresh MQ decoder or a raw-bit decoder. *)
From V Require Import Common.Base MQ.MqModel MQ.MqProofs MQ.MqProofsDec MQ.MqProofsRt MQ.MqProofsRt2 MQ.MqProofsTerm MQ.MqProofsSeg.
From V Require Import T1.T1Store T1.T1Ctx T1.T1CtxProofs T1.T1Model T1.T1Bytes T1.T1ProofsBase
  T1.T1ProofsSeq T1.T1ProofsFinal T1.T1ProofsSim T1.T1ProofsMqRt T1.T1ProofsComp T1.T1ProofsCompThm
  T1.T1ProofsRestart T1.T1ProofsTermEnc T1.T1ProofsTermall T1.T1ProofsPterm T1.T1ProofsLazyEnc.

Lemma raw_decode_n_cons_inv : forall n r r' b bs,
  raw_decode_n (S n) r = Ok (r', b :: bs) ->
  exists r1, raw_decode r = Ok (r1, b) /\ raw_decode_n n r1 = Ok (r', bs).
Proof.
  intros n r r' b bs H. cbn [raw_decode_n] in H.
  destruct (raw_decode r) as [[r1 b1]| | |] eqn:E1; cbn [obind fst snd] in H; try discriminate.
  destruct (raw_decode_n n r1) as [[r2 bs2]| | |] eqn:E2; cbn [obind fst snd] in H; try discriminate.
  injection H as Ea Eb Ec. subst. exists r1. split; [reflexivity|exact E2].
Qed.

Lemma skipn_nth_error : forall {A} (l : list A) k x, nth_error l k = Some x -> skipn k l = x :: skipn (S k) l.
Proof.
  intros A l. induction l as [|a l IH]; intros [|k] x H; cbn in H; try discriminate.
  - inversion H; subst. reflexivity.
  - cbn [skipn]. rewrite (IH k x H). reflexivity.
Qed.

Section Rel.
Variables (style maxbp : Z) (pl : list (Z * Z)) (data plens : list Z).
Let reset := negb (Z.land style CblkStyleReset =? 0).
Let pterm := negb (Z.land style CblkStylePterm =? 0).
Hypothesis Hfirst : forall bp pt, nth_error pl 0 = Some (bp, pt) -> is_lazy_raw bp maxbp pt style = false.

Definition LA (i : Z) (c1 : ichan) (c2 : segst) : Prop :=
  fst c1 = [] /\ 0 <= i /\
  exists done done_pl cx segs,
    cxs_ok cx /\
    all_syms_ok style maxbp (skipn (Z.to_nat i) pl) (snd c1) /\
    seg_rel style maxbp cx (skipn (Z.to_nat i) pl) (snd c1) segs /\
    data = done ++ concat segs /\
    plens = done_pl ++ cumul (zlen done) segs /\
    zlen done_pl = i /\
    sg_prevEnd c2 = zlen done /\ sg_need c2 = true /\
    sg_mqStarted c2 = (0 <? i) /\
    (i = 0 -> cx = cx0) /\ (reset = true -> cx = cx0) /\
    (0 < i -> reset = false -> sg_prevctx c2 = cx).

Definition LB (i : Z) (c1 : ichan) (c2 : segst) : Prop :=
  0 <= i /\
  exists bp pt done seg done_pl cxn segs,
    nth_error pl (Z.to_nat i) = Some (bp, pt) /\
    Forall (sym_okr (is_lazy_raw bp maxbp pt style)) (fst c1) /\
    cxs_ok cxn /\
    all_syms_ok style maxbp (skipn (S (Z.to_nat i)) pl) (snd c1) /\
    seg_rel style maxbp cxn (skipn (S (Z.to_nat i)) pl) (snd c1) segs /\
    data = done ++ seg ++ concat segs /\
    plens = done_pl ++ cumul (zlen done + zlen seg) segs /\
    zlen done_pl = i + 1 /\
    sg_segEnd c2 = zlen done + zlen seg /\ sg_segLast c2 = i /\ sg_need c2 = false /\
    (reset = true -> cxn = cx0) /\
    (if is_lazy_raw bp maxbp pt style
     then (exists r r', sg_co c2 = CoRaw r /\ raw_decode_n (length (fst c1)) r = Ok (r', bits_of (fst c1))) /\
          sg_mqStarted c2 = true /\ (reset = false -> sg_prevctx c2 = cxn)
     else exists d d', sg_co c2 = CoMQ d /\
            dec_decode_list d (map snd (decs (fst c1))) = Ok (d', map fst (decs (fst c1))) /\
            (reset = false -> d_cx d' = cxn) /\ sg_mqStarted c2 = true).

Lemma LB_ask : forall i, ask_sim ideal_ask seg_ask (LB i).
Proof.
  intros i [cur rest] c2 k ctx (Hi & bp & pt & done & seg & dpl & cxn & segs & Hnth & Hcur & Hcxn & Hok & Hrel & Hdata & Hpl & Hdl & Hse & Hsl & Hn & Hrc & Hkind) [c1' b] E.
  unfold ideal_ask in E. cbn [fst snd] in *.
  destruct cur as [|[[k' cx'] b'] cur']; [discriminate|].
  destruct ((k' =? k) && (cx' =? ctx)) eqn:Ek; [|discriminate].
  apply andb_true_iff in Ek. destruct Ek as [Ek Ec]. apply Z.eqb_eq in Ek, Ec. subst k' cx'.
  inversion E; subst c1' b'. clear E.
  pose proof (Forall_inv Hcur) as Hs0. pose proof (Forall_inv_tail Hcur) as Hcur'.
  destruct (is_lazy_raw bp maxbp pt style) eqn:Eraw; cbn [sym_okr] in Hs0.
  - destruct Hs0 as (Hk & Hc0 & Hb). cbn [fst snd] in Hk, Hc0. subst k ctx.
    destruct Hkind as ((r & r' & Eco & Edec) & Hm & Hpc).
    cbn [length bits_of map snd] in Edec.
    destruct (raw_decode_n_cons_inv _ _ _ _ _ Edec) as (r1 & E1 & E2).
    unfold seg_ask, coder_ask. rewrite Eco. change (1 =? 0) with false. cbv iota. rewrite E1. cbn [obind fst snd].
    eexists. split; [reflexivity|]. split; [reflexivity|]. cbn [fst snd].
    split; [exact Hi|]. exists bp, pt, done, seg, dpl, cxn, segs.
    cbn [sg_co sg_segEnd sg_segLast sg_need sg_mqStarted sg_prevctx]. rewrite Eraw.
    repeat split; auto; try apply Hcxn. exists r1, r'. auto.
  - destruct Hs0 as (Hk & Hc0 & Hb). cbn [fst snd] in Hk. subst k.
    destruct Hkind as (d & d' & Eco & Edec & Hcx' & Hm).
    cbn [decs map dec_of fst snd] in Edec.
    destruct (dec_decode_list_cons_inv _ _ _ _ _ _ Edec) as (d2 & E2 & E3).
    unfold seg_ask, coder_ask. rewrite Eco. change (0 =? 0) with true. cbv iota. rewrite E2. cbn [obind fst snd].
    eexists. split; [reflexivity|]. split; [reflexivity|]. cbn [fst snd].
    split; [exact Hi|]. exists bp, pt, done, seg, dpl, cxn, segs.
    cbn [sg_co sg_segEnd sg_segLast sg_need sg_mqStarted sg_prevctx]. rewrite Eraw.
    repeat split; auto; try apply Hcxn. exists d2, d'. auto.
Qed.

Opaque enc_flush enc_encode_list enc_new_cx dec_new_cx dec_decode_list dec_new mq_segment_rt enc_flush_state
       enc_get_buffer enc_erterm seg_fn fresh_segment raw_decode_n raw_new.

Lemma LA_pre : forall k bp pt c1 c2, nth_error pl k = Some (bp, pt) -> LA (Z.of_nat k) c1 c2 ->
  fsim (LB (Z.of_nat k)) (ideal_pre (Z.of_nat k) bp pt (is_lazy_raw bp maxbp pt style) c1)
       (seg_pre style maxbp true reset data plens (Z.of_nat k) bp pt (is_lazy_raw bp maxbp pt style) c2).
Proof.
  intros k bp pt [cur rest] c2 Hnth (Hcur & Hi & done & dpl & cx & segs & Hcx & Hok & Hrel & Hdata & Hpl & Hdl & Hpe & Hn & Hm & Hi0 & Hr & Hpc) c1' E.
  cbn [fst snd] in *. subst cur. unfold ideal_pre in E. cbn [fst snd] in E.
  destruct rest as [|p r]; [discriminate|]. inversion E; subst c1'. clear E.
  rewrite Nat2Z.id in Hok, Hrel. rewrite (skipn_nth_error pl k (bp, pt) Hnth) in Hok, Hrel.
  cbn [all_syms_ok] in Hok. destruct Hok as [Hp Hok']. unfold pass_syms_ok in Hp. cbn [fst snd] in Hp.
  destruct segs as [|seg segs']; [cbn [seg_rel] in Hrel; contradiction|].
  cbn [seg_rel] in Hrel. cbn [concat cumul] in Hdata, Hpl.
  remember (concat segs') as tailb eqn:Etb.
  unfold seg_pre. rewrite Hn. cbv zeta. rewrite seg_last_termall.
  assert (Ese : znth plens (Z.of_nat k) 0 = zlen done + zlen seg).
  { rewrite Hpl, <- Hdl. apply znth_app_mid. }
  rewrite Ese, Hpe.
  assert (Hdl2 : zlen data = zlen done + (zlen seg + zlen tailb)).
  { rewrite Hdata. unfold zlen. rewrite !app_length. lia. }
  replace ((zlen done + zlen seg <? zlen done) || (zlen data <? zlen done + zlen seg)) with false.
  2:{ symmetry. apply orb_false_iff. unfold zlen in *. split; apply Z.ltb_ge; lia. }
  rewrite Hdata, slice_mid.
  assert (Hdl3 : zlen (dpl ++ [zlen done + zlen seg]) = Z.of_nat k + 1).
  { unfold zlen in *. rewrite app_length. cbn [length]. lia. }
  assert (Hpl' : plens = (dpl ++ [zlen done + zlen seg]) ++ cumul (zlen done + zlen seg) segs')
    by (rewrite <- app_assoc; exact Hpl).
  destruct (is_lazy_raw bp maxbp pt style) eqn:Eraw.
  - (* raw segment *)
    destruct Hrel as [(r' & Edec) Hrel'].
    assert (Hk0 : 0 < Z.of_nat k).
    { destruct k; [|lia]. rewrite (Hfirst bp pt Hnth) in Eraw. discriminate. }
    eexists. split; [reflexivity|]. cbn [fst snd].
    split; [exact Hi|]. exists bp, pt, done, seg, (dpl ++ [zlen done + zlen seg]), cx, segs'.
    cbn [sg_co sg_segEnd sg_segLast sg_need sg_mqStarted sg_prevctx]. rewrite Nat2Z.id, Eraw, <- Etb.
    split; [exact Hnth|]. split; [exact Hp|]. split; [exact Hcx|]. split; [exact Hok'|]. split; [exact Hrel'|].
    split; [exact Hdata|]. split; [exact Hpl'|]. split; [exact Hdl3|].
    split; [reflexivity|]. split; [reflexivity|]. split; [reflexivity|]. split; [exact Hr|].
    split; [exists (raw_new seg), r'; split; [reflexivity|exact Edec]|].
    split; [rewrite Hm; apply Z.ltb_lt; exact Hk0|]. intros Hrf. apply Hpc; assumption.
  - (* MQ segment *)
    destruct Hrel as [Eseg Hrel']. cbn [sym_okr] in Hp.
    destruct (fresh_segment pterm cx (decs p) (proj1 Hcx) ltac:(rewrite (proj2 Hcx); apply sym_mq_decision; exact Hp))
      as (_ & _ & dd & d' & Edd & Edec & Ecxd).
    cbv zeta in Edd, Edec, Ecxd.
    assert (Edd' : dec_new_cx seg cx = Ok dd) by (rewrite Eseg; exact Edd). clear Edd. rename Edd' into Edd.
    set (cxn := next_cx reset cx (decs p)) in *.
    assert (Hcxn : cxs_ok cxn) by (apply next_cx_ok; exact Hcx).
    assert (Hcxd : reset = false -> d_cx d' = cxn).
    { intros Hrf. unfold cxn, next_cx. rewrite Hrf. exact Ecxd. }
    assert (Hrcn : reset = true -> cxn = cx0).
    { intros Hrt. unfold cxn, next_cx. rewrite Hrt. reflexivity. }
    clear Ecxd Eseg.
    destruct (negb (sg_mqStarted c2) || reset) eqn:Efresh.
    + assert (Ecx0 : cx = cx0).
      { apply orb_true_iff in Efresh. destruct Efresh as [Ef|Ef]; [|apply Hr; exact Ef].
        apply negb_true_iff in Ef. rewrite Hm in Ef. apply Z.ltb_ge in Ef. apply Hi0. lia. }
      rewrite Ecx0 in Edd. destruct (dec_new_set3 _ dd Edd) as (dn & En & Es).
      rewrite En. cbn [obind]. rewrite Es.
      eexists. split; [reflexivity|]. cbn [fst snd].
      split; [exact Hi|]. exists bp, pt, done, seg, (dpl ++ [zlen done + zlen seg]), cxn, segs'.
      cbn [sg_co sg_segEnd sg_segLast sg_need sg_mqStarted sg_prevctx]. rewrite Nat2Z.id, Eraw, <- Etb.
      split; [exact Hnth|]. split; [exact Hp|]. split; [exact Hcxn|]. split; [exact Hok'|]. split; [exact Hrel'|].
      split; [exact Hdata|]. split; [exact Hpl'|]. split; [exact Hdl3|].
      split; [reflexivity|]. split; [reflexivity|]. split; [reflexivity|]. split; [exact Hrcn|].
      exists dd, d'. auto.
    + apply orb_false_iff in Efresh. destruct Efresh as [Ef Er]. apply negb_false_iff in Ef.
      pose proof Ef as Ef'. rewrite Hm in Ef'. apply Z.ltb_lt in Ef'. rewrite (Hpc Ef' Er). rewrite Edd. cbn [obind].
      eexists. split; [reflexivity|]. cbn [fst snd].
      split; [exact Hi|]. exists bp, pt, done, seg, (dpl ++ [zlen done + zlen seg]), cxn, segs'.
      cbn [sg_co sg_segEnd sg_segLast sg_need sg_mqStarted sg_prevctx]. rewrite Nat2Z.id, Eraw, <- Etb.
      split; [exact Hnth|]. split; [exact Hp|]. split; [exact Hcxn|]. split; [exact Hok'|]. split; [exact Hrel'|].
      split; [exact Hdata|]. split; [exact Hpl'|]. split; [exact Hdl3|].
      split; [reflexivity|]. split; [reflexivity|]. split; [reflexivity|]. split; [exact Hrcn|].
      exists dd, d'. auto.
Qed.

Lemma LB_post : forall k bp pt c1 c2, nth_error pl k = Some (bp, pt) -> LB (Z.of_nat k) c1 c2 ->
  fsim (LA (Z.of_nat k + 1)) (ideal_post (Z.of_nat k) bp pt (is_lazy_raw bp maxbp pt style) c1)
       (seg_post reset (Z.of_nat k) bp pt (is_lazy_raw bp maxbp pt style) c2).
Proof.
  intros k bp pt [cur rest] c2 Hnth (Hi & bp' & pt' & done & seg & dpl & cxn & segs & Hnth' & Hcur & Hcxn & Hok & Hrel & Hdata & Hpl & Hdl & Hse & Hsl & Hn & Hrc & Hkind) c1' E.
  cbn [fst snd] in *. unfold ideal_post in E. cbn [fst] in E.
  destruct cur; [|discriminate]. inversion E; subst c1'. clear E.
  rewrite Nat2Z.id in Hnth', Hok, Hrel. rewrite Hnth in Hnth'. inversion Hnth'; subst bp' pt'. clear Hnth'.
  assert (Hz : zlen (done ++ seg) = zlen done + zlen seg) by (unfold zlen; rewrite app_length; lia).
  assert (Esk : skipn (Z.to_nat (Z.of_nat k + 1)) pl = skipn (S k) pl) by (f_equal; lia).
  unfold seg_post.
  destruct (is_lazy_raw bp maxbp pt style) eqn:Eraw.
  - destruct Hkind as ((r & r' & Eco & _) & Hm & Hpc).
    cbn [obind]. rewrite Hsl, Z.eqb_refl.
    eexists. split; [reflexivity|]. cbn [fst snd].
    split; [reflexivity|]. split; [lia|].
    exists (done ++ seg), dpl, cxn, segs. cbn [sg_prevEnd sg_need sg_mqStarted sg_prevctx sg_segEnd].
    rewrite Esk, Hz, Hse.
    split; [exact Hcxn|]. split; [exact Hok|]. split; [exact Hrel|].
    split; [rewrite <- app_assoc; exact Hdata|]. split; [exact Hpl|]. split; [exact Hdl|].
    split; [reflexivity|]. split; [reflexivity|]. split; [rewrite Hm; symmetry; apply Z.ltb_lt; lia|].
    split; [intros H0; lia|]. split; [exact Hrc|]. intros _ Hrf. apply Hpc. exact Hrf.
  - destruct Hkind as (d & d' & Eco & Edec & Hcx' & Hm).
    cbn [decs map] in Edec. change (dec_decode_list d []) with (Ok (d, @nil Z)) in Edec.
    inversion Edec; subst d'. clear Edec.
    rewrite Eco.
    destruct reset eqn:Ereset; cbn [obind sg_segLast]; rewrite Hsl, Z.eqb_refl.
    + eexists. split; [reflexivity|]. cbn [fst snd].
      split; [reflexivity|]. split; [lia|].
      exists (done ++ seg), dpl, cxn, segs. cbn [sg_prevEnd sg_need sg_mqStarted sg_prevctx sg_segEnd].
      rewrite Esk, Hz, Hse. rewrite ?Ereset.
      split; [exact Hcxn|]. split; [exact Hok|]. split; [exact Hrel|].
      split; [rewrite <- app_assoc; exact Hdata|]. split; [exact Hpl|]. split; [exact Hdl|].
      split; [reflexivity|]. split; [reflexivity|]. split; [rewrite Hm; symmetry; apply Z.ltb_lt; lia|].
      split; [intros H0; lia|]. split; [exact Hrc|]. intros _ Hf. discriminate.
    + eexists. split; [reflexivity|]. cbn [fst snd].
      split; [reflexivity|]. split; [lia|].
      exists (done ++ seg), dpl, cxn, segs. cbn [sg_prevEnd sg_need sg_mqStarted sg_prevctx sg_segEnd].
      rewrite Esk, Hz, Hse. rewrite ?Ereset.
      split; [exact Hcxn|]. split; [exact Hok|]. split; [exact Hrel|].
      split; [rewrite <- app_assoc; exact Hdata|]. split; [exact Hpl|]. split; [exact Hdl|].
      split; [reflexivity|]. split; [reflexivity|]. split; [rewrite Hm; symmetry; apply Z.ltb_lt; lia|].
      split; [intros H0; lia|]. split; [intros Hf; discriminate|]. intros _ _. apply Hcx'. reflexivity.
Qed.

End Rel.

(* ---------- the encoder ---------- *)
Lemma cleanup_not_raw : forall bp maxbp style, is_lazy_raw bp maxbp 2 style = false.
Proof. intros. unfold is_lazy_raw. destruct (Z.land style CblkStyleLazy =? 0); reflexivity. Qed.

Lemma raw_pt01 : forall bp maxbp pt style, pt = 0 \/ pt = 1 \/ pt = 2 -> is_lazy_raw bp maxbp pt style = true ->
  (pt =? 0) || (pt =? 1) = true.
Proof.
  intros bp maxbp pt style [->|[->| ->]] H; try reflexivity. rewrite cleanup_not_raw in H. discriminate.
Qed.

Lemma enc_passes_all_syms_ok : forall wn hn orient style maxbp V pl bp pt first F, chain bp pt pl ->
  all_syms_ok style maxbp pl (enc_passes wn hn orient style maxbp V pl first F).
Proof.
  intros wn hn orient style maxbp V pl. induction pl as [|[b p] r IH]; intros bp pt first F Hc; cbn [enc_passes all_syms_ok]; [exact I|].
  cbn [chain] in Hc. destruct Hc as (-> & -> & _ & Hpt & Hc).
  pose proof (enc_pass_syms wn hn orient style bp pt (is_lazy_raw bp maxbp pt style) V
                (if start_bitplane pt first then clear_visit F else F)) as H1.
  destruct (enc_pass _ _ _ _ _ _ _ _ _) as [F1 o]. cbn [snd] in H1. cbn [all_syms_ok].
  split; [|apply (IH _ _ _ _ Hc)].
  unfold pass_syms_ok. cbn [fst snd].
  destruct (is_lazy_raw bp maxbp pt style) eqn:Eraw.
  - rewrite (raw_pt01 bp maxbp pt style Hpt Eraw) in H1. exact H1.
  - exact H1.
Qed.

Lemma enc_layered_lazyterm : forall (wn hn : nat) (orient style fb np : Z) (data : list Z),
  lazyterm_style style -> data_ok data ->
  let maxbp := find_max_bitplane data in
  let pl := pass_list maxbp fb np in
  let syms := enc_passes wn hn orient style maxbp (pad_data wn hn data) pl true Leaf in
  fb <= maxbp -> 0 <= fb -> pl <> [] ->
  exists segs,
    enc_layered wn hn orient style fb np data = Ok (maxbp, term_ps pl 0 segs, concat segs) /\
    Forall (fun s => last s 0 <> 255) segs /\ length segs = length pl /\
    seg_rel style maxbp cx0 pl syms segs /\ all_syms_ok style maxbp pl syms /\
    (Z.land style CblkStylePterm = 0 -> concat segs <> []).
Proof.
  intros wn hn orient style fb np data Hs Hok maxbp pl syms Hge Hfb Hpl1.
  pose proof (find_max_bitplane_spec data Hok) as Hspec. cbv zeta in Hspec. fold maxbp in Hspec.
  destruct Hspec as [[Hm1 _]|[Hmb _]]; [lia|].
  assert (Hchain : chain maxbp 2 pl).
  { unfold pl, pass_list. destruct (Z.ltb_spec maxbp fb); [exact I|]. apply chain_firstn. apply chain_all_passes; lia. }
  assert (Hall : all_syms_ok style maxbp pl syms) by (apply (enc_passes_all_syms_ok _ _ _ _ _ _ _ maxbp 2); exact Hchain).
  unfold enc_layered, enc_syms. fold maxbp. fold pl. fold syms.
  destruct (Z.ltb_spec maxbp fb); [lia|].
  set (reset := negb (Z.land style CblkStyleReset =? 0)) in *.
  set (pterm := negb (Z.land style CblkStylePterm =? 0)) in *.
  rewrite enc_init.
  remember pl as pl_ eqn:Epl_. remember syms as syms_ eqn:Esyms_. clear Epl_ Esyms_.
  destruct pl_ as [|[b p] pl']; [congruence|].
  destruct syms_ as [|s0 syms']; [destruct Hall|].
  cbn [chain] in Hchain. destruct Hchain as (Eb & Ep & _ & _ & _). subst b p.
  destruct Hall as [Hs0 Hall']. unfold pass_syms_ok in Hs0. cbn [fst snd] in Hs0.
  rewrite cleanup_not_raw in Hs0. cbn [sym_okr] in Hs0.
  cbn [enc_bytes_passes].
  rewrite cleanup_not_raw, (lazyterm_term style maxbp maxbp 2 Hs).
  fold pterm. cbv iota.
  rewrite (enc_syms_o_mq s0 _ Hs0 (enc_new_inv cx0 cx0_ok) cx0_len). cbn [obind].
  assert (Hinv2 : enc_inv (enc_encode_list (enc_new_cx cx0) (decs s0)))
    by (apply enc_encode_list_inv; apply enc_new_inv; exact cx0_ok).
  rewrite (enc_terminate_fl pterm _ Hinv2). cbn [obind].
  destruct (fresh_segment pterm cx0 (decs s0) cx0_ok ltac:(rewrite cx0_len; apply sym_mq_decision; exact Hs0))
    as (Hfr & Hlast1 & _).
  cbv zeta in Hfr.
  assert (Hne1 : Z.land style CblkStylePterm = 0 -> seg_fn pterm cx0 (decs s0) <> []).
  { intros Hp0. unfold pterm. rewrite Hp0. change (negb (0 =? 0)) with false. rewrite seg_fn_false.
    destruct (mq_segment_rt cx0 (decs s0) cx0_ok ltac:(rewrite cx0_len; apply sym_mq_decision; exact Hs0)) as (_ & Hne & _).
    exact Hne. }
  set (er := fl pterm (enc_encode_list (enc_new_cx cx0) (decs s0))) in *.
  remember (seg_fn pterm cx0 (decs s0)) as seg1 eqn:Eseg1.
  assert (E1 : e_pre er = rev seg1 ++ [0]).
  { apply (f_equal (@rev Z)) in Hfr. rewrite rev_involutive in Hfr. rewrite Hfr. cbn [rev]. reflexivity. }
  change (set3_e (enc_reset_contexts er)) with (r_e er). fold reset.
  assert (Hcxer : cxs_ok (e_cx er)).
  { unfold er. rewrite fl_cx. apply (next_cx_ok false cx0 (decs s0)). exact cx0_cxs_ok. }
  assert (HTI : TI (if reset then r_e er else er)).
  { apply TI_after; [|exact Hcxer].
    pose proof (fl_buf_ok pterm _ Hinv2) as Hbo. fold er in Hbo.
    pose proof (hd_rev_last seg1) as Hhd. rewrite <- E1 in Hhd.
    destruct (e_pre er) as [|h P'] eqn:Eer.
    { apply (f_equal (@length Z)) in E1. rewrite app_length in E1. cbn [length] in E1. lia. }
    exists h, P'. split; [reflexivity|]. split; [|exact Hbo]. cbn [hd] in Hhd. rewrite Hhd. exact Hlast1. }
  assert (Hpre : e_pre (if reset then r_e er else er) = rev seg1 ++ [0]).
  { destruct reset; [rewrite r_e_cxset; cbn [cxset e_pre]|]; exact E1. }
  assert (Hcx3 : e_cx (if reset then r_e er else er) = next_cx reset cx0 (decs s0)).
  { unfold next_cx. destruct reset.
    - rewrite r_e_cxset. cbn [cxset e_cx]. apply reset_cx_19. apply Hcxer.
    - unfold er. apply fl_cx. }
  assert (Hrc : reset = true -> e_cx (if reset then r_e er else er) = cx0).
  { intros Er. rewrite Hcx3. unfold next_cx. rewrite Er. reflexivity. }
  destruct (enc_bytes_lazyterm_tail style maxbp pl' syms' _ seg1 Hs Hall' HTI Hpre Hlast1 Hrc)
    as (e' & segs' & E & Hpre' & Hsegs & Hlen' & Hrel).
  rewrite Hcx3 in Hrel.
  rewrite E. cbn [obind fst snd]. rewrite (num_bytes_pre _ _ Hpre).
  rewrite (get_buffer_pre e' (seg1 ++ concat segs') Hpre').
  set (D := seg1 ++ concat segs').
  set (ps := mkPass maxbp 2 (zlen seg1) (zlen seg1) true :: term_ps pl' (zlen seg1) segs').
  assert (Hsegs1 : Forall (fun s => last s 0 <> 255) (seg1 :: segs')) by (constructor; assumption).
  assert (Hnorm : rev (normalize_rev D (rev ps) (zlen D)) = ps).
  { rewrite normalize_rev_id; [apply rev_involutive|].
    pose proof (term_ps_desc ((maxbp, 2) :: pl') (seg1 :: segs') [] (zlen D) Hsegs1) as Hd.
    cbn [concat app] in Hd. fold D in Hd. change (zlen (@nil Z)) with 0 in Hd.
    specialize (Hd ltac:(cbn; lia) ltac:(lia) []). rewrite app_nil_r in Hd. exact Hd. }
  rewrite Hnorm. exists (seg1 :: segs').
  split; [reflexivity|]. split; [exact Hsegs1|]. split; [cbn [length]; rewrite Hlen'; reflexivity|].
  split.
  { cbn [seg_rel]. rewrite cleanup_not_raw. fold pterm reset. split; [exact Eseg1|exact Hrel]. }
  split.
  { cbn [all_syms_ok]. split; [|exact Hall']. unfold pass_syms_ok. cbn [fst snd]. rewrite cleanup_not_raw. exact Hs0. }
  intros Hp0 Habs. cbn [concat] in Habs. apply app_eq_nil in Habs. destruct Habs as [Habs _].
  exact (Hne1 Hp0 Habs).
Qed.

(* ---------- the theorem ---------- *)
Theorem t1_bytes_roundtrip_lazyterm_gen :
  forall (wn hn : nat) (orient style fb : Z) (data : list Z),
  lazyterm_style style ->
  length data = (wn * hn)%nat -> data_ok data -> 0 <= fb ->
  (forall v, In v data -> exists c, v = c * 2 ^ fb) ->
  (forall mb ps bytes,
     enc_layered wn hn orient style fb (3 * (find_max_bitplane data - fb + 1) - 2) data = Ok (mb, ps, bytes) ->
     ps <> [] -> bytes <> []) ->
  t1_roundtrip wn hn orient style fb data = Ok data.
Proof.
  intros wn hn orient style fb data Hs Hlen Hok Hfb Hmul Hout.
  unfold t1_roundtrip.
  set (maxbp := find_max_bitplane data) in *.
  set (NP := 3 * (maxbp - fb + 1) - 2) in *.
  destruct (Z.ltb_spec maxbp fb) as [Hlt|Hge].
  - unfold enc_layered, enc_syms. fold maxbp. destruct (Z.ltb_spec maxbp fb); [|lia].
    cbn [obind]. f_equal.
    pose proof (all_zero_below data fb Hok Hfb Hmul Hlt) as Hz.
    clear - Hz. induction data as [|a l IH]; [reflexivity|]. cbn [map].
    rewrite (Hz a (or_introl eq_refl)). f_equal. apply IH. intros v Hv. apply Hz. right. exact Hv.
  - set (V := pad_data wn hn data).
    set (pl := pass_list maxbp fb NP).
    set (syms := enc_passes wn hn orient style maxbp V pl true Leaf).
    set (reset := negb (Z.land style CblkStyleReset =? 0)).
    assert (Hpl1 : pl <> []).
    { unfold pl, pass_list. destruct (Z.ltb_spec maxbp fb); [lia|]. unfold all_passes.
      replace (Z.to_nat NP) with (S (Z.to_nat (NP - 1))) by (unfold NP; lia). cbn [firstn]. discriminate. }
    destruct (enc_layered_lazyterm wn hn orient style fb NP data Hs Hok Hge Hfb Hpl1)
      as (segs & Eenc & Hsegs & Hlsegs & Hrel & Hall & _).
    fold maxbp V pl syms in Eenc, Hsegs, Hlsegs, Hrel, Hall.
    assert (Hsl : length syms = length pl) by apply enc_passes_length.
    assert (Hps1 : term_ps pl 0 segs <> []).
    { destruct pl as [|[b p] pl']; [congruence|]. destruct segs; [discriminate|]. discriminate. }
    pose proof (Hout _ _ _ Eenc Hps1) as HDne.
    rewrite Eenc. cbn [obind].
    set (D := concat segs) in *. set (ps := term_ps pl 0 segs) in *.
    assert (Hplens : map p_rate ps = cumul 0 segs).
    { unfold ps. apply term_ps_rates. symmetry. exact Hlsegs. }
    assert (Hpslen : length ps = length pl).
    { unfold ps. clear - Hlsegs. revert Hlsegs. generalize 0. generalize segs.
      induction pl as [|[b' p'] pl IH]; intros [|s sg] z H; try discriminate; [reflexivity|].
      cbn [term_ps length]. f_equal. apply IH. cbn [length] in H. lia. }
    clearbody ps.
    destruct ps as [|p0 psr]; [congruence|].
    destruct (t1_ideal_roundtrip wn hn orient style fb NP data Hlen Hok Hfb Hmul ltac:(fold maxbp; unfold NP; lia))
      as (st & Eid & Hdata).
    change (snd (enc_syms wn hn orient style fb NP data)) with syms in Eid.
    change (find_max_bitplane data) with maxbp in Eid.
    unfold dec_ideal in Eid.
    assert (El : zlen syms = zlen pl) by (unfold zlen; rewrite Hsl; reflexivity).
    assert (Epl0 : pass_list maxbp 0 (zlen pl) = pl) by (unfold pl; apply pass_list_dec; exact Hfb).
    rewrite El, Epl0 in Eid.
    unfold dec_layered.
    destruct D as [|by0 byr] eqn:ED; [congruence|].
    rewrite Hplens.
    destruct (cumul 0 segs) as [|c0 cr] eqn:Ecum.
    { destruct segs; [|discriminate]. cbn [length] in Hlsegs. destruct pl; [congruence|discriminate]. }
    cbv iota. rewrite <- ED, <- Ecum.
    replace (negb (Z.land style CblkStyleTermAll =? 0)) with true
      by (symmetry; apply negb_true_iff; apply Z.eqb_neq; exact Hs).
    cbn [negb andb]. cbv iota. fold reset. rewrite orb_diag.
    set (plens := cumul 0 segs) in *.
    assert (Enp : zlen plens = zlen pl).
    { rewrite Ecum, <- Hplens. unfold zlen. rewrite map_length, Hpslen. reflexivity. }
    rewrite Enp. rewrite Epl0.
    assert (Hfirst : forall bp pt, nth_error pl 0 = Some (bp, pt) -> is_lazy_raw bp maxbp pt style = false).
    { intros bp pt Hn.
      assert (Hchain : chain maxbp 2 pl).
      { pose proof (find_max_bitplane_spec data Hok) as Hspec. cbv zeta in Hspec. fold maxbp in Hspec.
        destruct Hspec as [[Hm1 _]|[Hmb _]]; [lia|].
        unfold pl, pass_list. destruct (Z.ltb_spec maxbp fb); [exact I|]. apply chain_firstn. apply chain_all_passes; lia. }
      destruct pl as [|[b p] pl']; [discriminate|]. cbn in Hn. inversion Hn; subst.
      cbn [chain] in Hchain. destruct Hchain as (_ & -> & _). apply cleanup_not_raw. }
    pose proof (dec_passes_fsim ideal_ask seg_ask
                  (LA style maxbp pl D plens) (LB style maxbp pl D plens)
                  ideal_pre ideal_post (seg_pre style maxbp true reset D plens) (seg_post reset)
                  wn hn orient style maxbp false (LB_ask style maxbp pl D plens) pl 0 (Leaf, Leaf)
                  ([], syms) (mkSeg CoNone [] 0 0 0 true false)) as Hsim.
    destruct (Hsim) with (a := (st, (@nil sym, @nil (list sym)))) as (bb & Eb & Hbb).
    + intros k bp pt Hn c1 c2 Hr. apply (LA_pre style maxbp pl D plens Hfirst k bp pt c1 c2 Hn). exact Hr.
    + intros k bp pt Hn c1 c2 Hr. apply (LB_post style maxbp pl D plens k bp pt c1 c2 Hn). exact Hr.
    + split; [reflexivity|]. split; [lia|].
      exists [], [], cx0, segs. cbn [fst snd sg_prevEnd sg_need sg_mqStarted sg_prevctx app skipn Z.to_nat].
      split; [exact cx0_cxs_ok|]. split; [exact Hall|]. split; [exact Hrel|].
      split; [reflexivity|]. split; [reflexivity|].
      split; [reflexivity|]. split; [reflexivity|]. split; [reflexivity|]. split; [reflexivity|].
      split; [auto|]. split; [auto|]. intros H0. lia.
    + exact Eid.
    + destruct bb as [st2 c2]. destruct Hbb as [Hst _]. cbn [fst] in Hst. subst st2.
      match goal with |- obind ?X _ = _ => replace X with (Ok (st, c2)) by (symmetry; exact Eb) end.
      cbn [obind fst snd]. f_equal. exact Hdata.
Qed.

(* without PTERM the first segment, hence the stream, is never empty *)
Theorem t1_bytes_roundtrip_lazyterm :
  forall (wn hn : nat) (orient style fb : Z) (data : list Z),
  lazyterm_style style -> Z.land style CblkStylePterm = 0 ->
  length data = (wn * hn)%nat -> data_ok data -> 0 <= fb ->
  (forall v, In v data -> exists c, v = c * 2 ^ fb) ->
  t1_roundtrip wn hn orient style fb data = Ok data.
Proof.
  intros wn hn orient style fb data Hs Hp Hlen Hok Hfb Hmul.
  apply t1_bytes_roundtrip_lazyterm_gen; auto.
  intros mb ps bytes Eenc Hps.
  set (maxbp := find_max_bitplane data) in *.
  destruct (Z.ltb_spec maxbp fb) as [Hlt|Hge].
  { unfold enc_layered, enc_syms in Eenc. fold maxbp in Eenc.
    destruct (Z.ltb_spec maxbp fb); [|lia]. inversion Eenc; subst. congruence. }
  set (NP := 3 * (maxbp - fb + 1) - 2) in *.
  assert (Hpl1 : pass_list maxbp fb NP <> []).
  { unfold pass_list. destruct (Z.ltb_spec maxbp fb); [lia|]. unfold all_passes.
    replace (Z.to_nat NP) with (S (Z.to_nat (NP - 1))) by (unfold NP; lia). cbn [firstn]. discriminate. }
  destruct (enc_layered_lazyterm wn hn orient style fb NP data Hs Hok Hge Hfb Hpl1) as (segs & E2 & _ & _ & _ & _ & Hne).
  fold maxbp in E2. rewrite E2 in Eenc. inversion Eenc; subst. exact (Hne Hp).
Qed.

(* ---------- summary of the byte-level results ---------- *)
(* 48 of the 64 style combinations: everything except LAZY without TERMALL *)
Definition style_covered (style : Z) : Prop := Z.land style 4 <> 0 \/ Z.land style 1 = 0.

Theorem t1_bytes_roundtrip_covered :
  forall (wn hn : nat) (orient style fb : Z) (data : list Z),
  style_covered style ->
  length data = (wn * hn)%nat -> data_ok data -> 0 <= fb ->
  (forall v, In v data -> exists c, v = c * 2 ^ fb) ->
  (forall mb ps bytes,
     enc_layered wn hn orient style fb (3 * (find_max_bitplane data - fb + 1) - 2) data = Ok (mb, ps, bytes) ->
     ps <> [] -> bytes <> []) ->
  t1_roundtrip wn hn orient style fb data = Ok data.
Proof.
  intros wn hn orient style fb data Hc Hlen Hok Hfb Hmul Hout.
  destruct (Z.eq_dec (Z.land style 4) 0) as [E4|E4].
  - destruct Hc as [Hc|E1]; [contradiction|].
    apply t1_bytes_roundtrip_single_gen; auto.
    change 5 with (Z.lor 4 1). rewrite Z.land_lor_distr_r, E4, E1. reflexivity.
  - apply t1_bytes_roundtrip_lazyterm_gen; auto.
Qed.

(* the classes where the non-emptiness of the stream is proved as well *)
Definition style_unconditional (style fb : Z) : Prop :=
  Z.land style 21 = 0 \/ (Z.land style 4 <> 0 /\ Z.land style 16 = 0) \/ (Z.land style 5 = 0 /\ 1 <= fb).

Theorem t1_bytes_roundtrip_unconditional :
  forall (wn hn : nat) (orient style fb : Z) (data : list Z),
  style_unconditional style fb ->
  length data = (wn * hn)%nat -> data_ok data -> 0 <= fb ->
  (forall v, In v data -> exists c, v = c * 2 ^ fb) ->
  t1_roundtrip wn hn orient style fb data = Ok data.
Proof.
  intros wn hn orient style fb data [H|[[H4 H16]|[H5 Hf]]] Hlen Hok Hfb Hmul.
  - apply t1_bytes_roundtrip_single_codeword; assumption.
  - apply t1_bytes_roundtrip_lazyterm; assumption.
  - apply t1_bytes_roundtrip_single_codeword_fb; assumption.
Qed.
