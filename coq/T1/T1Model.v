(* EXTRACT *)
(* Model of the EBCOT tier-1 bit-plane coder of /repo/jpeg2000/t1 (encoder.go,
   encoder_layered.go, decoder.go), symbol level: everything above the arithmetic coder.

   CHANNEL.  The encoder model emits, per coding pass, the list of symbols it hands to the
   coder, each a triple (kind, ctx, bit): kind 0 = MQ decision `mqe.Encode(bit, ctx)`, kind 1 =
   raw bit `mqe.BypassEncode(bit)` (ctx = 0; the segmentation symbol is the four MQ decisions
   1,0,1,0 in context 18 that SegmarkEnc makes).  The decoder model is written over an abstract
   channel `C` with `ask : C -> kind -> ctx -> outcome (C * bit)` (= `mqc.Decode(ctx)` /
   `mqc.RawDecode()`).  Two instances:
     - the ideal channel (`ideal_ask`, this file): the recorded symbol list; a request whose
       kind or context differs from the next recorded symbol fails (Err).  T1Proofs*.v prove the
       lockstep theorem over it, with no reference to the arithmetic coder;
     - the real coders (T1Bytes.v: MQ.MqModel + raw bits), compared byte for byte with Go.

   STATE.  Go keeps `flags []uint32` and `data []int32` of size (w+2)*(h+2) (one sample of
   padding on each side; index (y+1)*(w+2)+(x+1)); the model keeps both as T1Store tries.
   Flag word: context.go constants (T1Sig, T1Refine, T1Visit, 8 neighbour significance bits,
   T1Sign, 4 neighbour sign bits), regenerated into Gen/T1Tables_gen.v.

   WHAT IS MODELLED AS CODED.
   * scan: stripes of 4 rows, columns left to right, rows top to bottom inside the stripe;
   * significance propagation (no test of T1Visit: relies on the scan visiting a sample once),
     magnitude refinement, cleanup with run-length mode (only for full 4-row stripes; context
     17 then two context-18 decisions), sign coding with the XOR bit;
   * styles: LAZY (isLazyRawPass: SPP/MRP of bit-planes below maxBitplane-3 are raw), SEGSYM,
     and - in the byte layer - RESET, TERMALL, PTERM (isTerminatingPass).  VSC (0x08): there is
     NO vertically-causal code in jpeg2000/t1; the bit is ignored by encoder and decoder alike,
     so the model ignores it too (round trip unaffected; not Annex D.7 conformant);
   * ROI shift: the model fixes roishift = 0 (the property does not vary it);
   * NMSEDEC fractional bits (SetNMSEDecFractionalBits(fb)): the encoder codes bit-planes
     maxBitplane .. fb only; the decoder loop runs down to bit-plane 0 or until the given
     number of passes is used up;
   * reconstruction: default (`1<<bp` at significance, `+- 1<<bp` at refinement with bit 1) and
     SetOpenJPEGReconstruction(true) (one-plus-half / poshalf);
   * the distortion estimate (nmsedec, float64) is not modelled: it does not influence bytes,
     pass lengths or decoded coefficients.
   int32: coefficients are int32 in Go; |v| is `abs32` (wraps for -2^31), `1<<bp` is narrowed
   with wrapS 32.  The theorems assume |v| < 2^31, i.e. maxBitplane <= 30. *)
From V Require Import Common.Base T1.T1Store T1.T1Ctx.
Require V.Gen.T1Tables_gen.

Definition sym : Type := (Z * Z * Z)%type.     (* kind, ctx, bit *)

Definition CblkStyleLazy := T1Tables_gen.t1c_CblkStyleLazy.
Definition CblkStyleReset := T1Tables_gen.t1c_CblkStyleReset.
Definition CblkStyleTermAll := T1Tables_gen.t1c_CblkStyleTermAll.
Definition CblkStylePterm := T1Tables_gen.t1c_CblkStylePterm.
Definition CblkStyleSegsym := T1Tables_gen.t1c_CblkStyleSegsym.

(* ---------- encoder.go: isLazyRawPass / isTerminatingPass ---------- *)
Definition is_lazy_raw (bp maxbp ptype style : Z) : bool :=
  if Z.land style CblkStyleLazy =? 0 then false
  else if 2 <=? ptype then false
  else bp <? maxbp - 3.

Definition is_terminating (bp maxbp ptype style : Z) : bool :=
  if (ptype =? 2) && (bp =? 0) then true
  else if negb (Z.land style CblkStyleTermAll =? 0) then true
  else if negb (Z.land style CblkStyleLazy =? 0) then
    if (bp =? maxbp - 3) && (ptype =? 2) then true
    else if (bp <? maxbp - 3) && (0 <? ptype) then true
    else false
  else false.

(* ---------- geometry ---------- *)
Definition idx_of (w x y : Z) : Z := (y + 1) * (w + 2) + (x + 1).

(* int32 |v| as the Go code computes it: `if v < 0 { v = -v }` *)
Definition abs32 (v : Z) : Z := if v <? 0 then wrapS 32 (- v) else v.
(* (absVal >> uint(bitplane)) & 1 *)
Definition bit_at (v bp : Z) : Z := Z.land (Z.shiftr (abs32 v) bp) 1.

(* updateNeighborFlags(x, y, idx): N S W E NW NE SW SE; the sign is read from flags[idx] *)
Definition update_nb (F : tree) (w x y idx : Z) : tree :=
  let neg := has (fget F idx) T1Sign in
  let pw := w + 2 in
  let F := orf F (y * pw + (x + 1)) (if neg then Z.lor T1SigS T1SignS else T1SigS) in
  let F := orf F ((y + 2) * pw + (x + 1)) (if neg then Z.lor T1SigN T1SignN else T1SigN) in
  let F := orf F ((y + 1) * pw + x) (if neg then Z.lor T1SigE T1SignE else T1SigE) in
  let F := orf F ((y + 1) * pw + (x + 2)) (if neg then Z.lor T1SigW T1SignW else T1SigW) in
  let F := orf F (y * pw + x) T1SigSE in
  let F := orf F (y * pw + (x + 2)) T1SigSW in
  let F := orf F ((y + 2) * pw + x) T1SigNE in
  orf F ((y + 2) * pw + (x + 2)) T1SigNW.

(* the flag updates shared by every "becomes significant" site of encoder and decoder:
   `if negative { flags[idx] |= T1Sign }; flags[idx] |= T1Sig; updateNeighborFlags(x,y,idx)` *)
Definition set_sig (F : tree) (w x y idx : Z) (neg : bool) : tree :=
  let F1 := if neg then orf F idx T1Sign else F in
  update_nb (orf F1 idx T1Sig) w x y idx.

(* "clear VISIT flags at start of each bitplane" (whole padded array) *)
Definition clear_visit (F : tree) : tree := tmap (fun f => Z.ldiff f T1Visit) F.

Definition mk_sym (raw : bool) (ctx b : Z) : sym := if raw then (1, 0, b) else (0, ctx, b).

(* ---------- loops ---------- *)
(* for i := i0; count n: encoder side, collecting the emitted symbols *)
Fixpoint loop_e {S : Type} (n : nat) (i : Z) (f : Z -> S -> S * list sym) (s : S) : S * list sym :=
  match n with
  | O => (s, [])
  | S n' => let '(s1, o1) := f i s in
            let '(s2, o2) := loop_e n' (i + 1) f s1 in (s2, o1 ++ o2)
  end.
(* decoder side *)
Fixpoint loop_d {S : Type} (n : nat) (i : Z) (f : Z -> S -> outcome S) (s : S) : outcome S :=
  match n with
  | O => Ok s
  | S n' => obind (f i s) (loop_d n' (i + 1) f)
  end.

(* number of stripes and number of rows of stripe s *)
Definition nstripes (h : Z) : nat := Z.to_nat ((h + 3) / 4).
Definition stripe_rows (h s : Z) : nat := Z.to_nat (Z.min 4 (h - 4 * s)).

(* =====================================================================================
   Encoder passes: state = flags; V = the (padded) coefficient array, never written
   ===================================================================================== *)
Definition sign_bit (v : Z) : Z := if v <? 0 then 1 else 0.

(* one sample of encodeSigPropPass *)
Definition enc_spp_sample (w orient bp : Z) (raw : bool) (V : tree) (x y : Z) (F : tree) : tree * list sym :=
  let idx := idx_of w x y in
  let f := fget F idx in
  if has f T1Sig then (F, [])
  else if negb (has f T1SigNeighbors) then (F, [])
  else
    let v := fget V idx in
    let b := bit_at v bp in
    let s1 := mk_sym raw (zc_ctx_t f orient) b in
    let F1 := orf F idx T1Visit in
    if b =? 0 then (F1, [s1])
    else
      let s2 := if raw then (1, 0, sign_bit v) else (0, sc_ctx_t f, Z.lxor (sign_bit v) (spb_t f)) in
      (set_sig F1 w x y idx (v <? 0), [s1; s2]).

(* one sample of encodeMagRefPass *)
Definition enc_mrp_sample (w bp : Z) (raw : bool) (V : tree) (x y : Z) (F : tree) : tree * list sym :=
  let idx := idx_of w x y in
  let f := fget F idx in
  if negb (has f T1Sig) || has f T1Visit then (F, [])
  else
    let b := bit_at (fget V idx) bp in
    (orf F idx T1Refine, [mk_sym raw (mr_ctx f) b]).

(* one sample of encodeCleanupPass (the loop body of the normal path, and of the tail of the
   run-length path where `partial` marks the sample whose significance is implied) *)
Definition enc_cup_sample (w orient bp : Z) (V : tree) (x y : Z) (st : tree * bool) : (tree * bool) * list sym :=
  let '(F, partial) := st in
  let idx := idx_of w x y in
  let f := fget F idx in
  if has f T1Visit || has f T1Sig then ((clrf F idx T1Visit, partial), [])
  else
    let v := fget V idx in
    let b := if partial then 1 else bit_at v bp in
    let o1 := if partial then [] else [(0, zc_ctx_t f orient, b)] in
    if b =? 0 then ((clrf F idx T1Visit, false), o1)
    else
      let s2 := (0, sc_ctx_t f, Z.lxor (sign_bit v) (spb_t f)) in
      ((clrf (set_sig F w x y idx (v <? 0)) idx T1Visit, false), o1 ++ [s2]).

(* run-length eligibility of the 4 samples of a column: none visited, none significant, none
   with a significant neighbour (the Go loop breaks at the first failing sample) *)
Definition rl_sample_ok (F : tree) (w x y : Z) : bool :=
  let f := fget F (idx_of w x y) in
  negb (has f T1Visit) && negb (has f T1Sig || has f T1SigNeighbors).
Definition rl_ok (F : tree) (w x k : Z) : bool :=
  rl_sample_ok F w x k && rl_sample_ok F w x (k + 1) && rl_sample_ok F w x (k + 2) && rl_sample_ok F w x (k + 3).
(* rlSigPos: first row of the column whose bit is set, -1 if none *)
Definition rl_pos (V : tree) (w bp x k : Z) : Z :=
  if negb (bit_at (fget V (idx_of w x k)) bp =? 0) then 0
  else if negb (bit_at (fget V (idx_of w x (k + 1))) bp =? 0) then 1
  else if negb (bit_at (fget V (idx_of w x (k + 2))) bp =? 0) then 2
  else if negb (bit_at (fget V (idx_of w x (k + 3))) bp =? 0) then 3
  else -1.

(* one column (x, rows k .. k+n-1) of the cleanup pass *)
Definition enc_cup_col (w h orient bp : Z) (V : tree) (k : Z) (n : nat) (x : Z) (F : tree) : tree * list sym :=
  if (k + 3 <? h) && rl_ok F w x k then
    let pos := rl_pos V w bp x k in
    if pos <? 0 then (F, [(0, CTXRL, 0)])
    else
      let '(st, o) := loop_e (Z.to_nat (4 - pos)) pos
                        (fun dy => enc_cup_sample w orient bp V x (k + dy)) (F, true) in
      (fst st, (0, CTXRL, 1) :: (0, CTXUNI, Z.land (Z.shiftr pos 1) 1) :: (0, CTXUNI, Z.land pos 1) :: o)
  else
    let '(st, o) := loop_e n 0 (fun dy => enc_cup_sample w orient bp V x (k + dy)) (F, false) in
    (fst st, o).

Definition segsym_syms : list sym := [(0, 18, 1); (0, 18, 0); (0, 18, 1); (0, 18, 0)].

(* a whole pass: ptype 0 = SPP, 1 = MRP, 2 = cleanup (+ SegmarkEnc when the style asks) *)
Definition enc_pass (wn hn : nat) (orient style bp ptype : Z) (raw : bool) (V : tree) (F : tree) : tree * list sym :=
  let w := Z.of_nat wn in let h := Z.of_nat hn in
  if ptype =? 0 then
    loop_e (nstripes h) 0 (fun s => loop_e wn 0 (fun x =>
      loop_e (stripe_rows h s) 0 (fun dy => enc_spp_sample w orient bp raw V x (4 * s + dy)))) F
  else if ptype =? 1 then
    loop_e (nstripes h) 0 (fun s => loop_e wn 0 (fun x =>
      loop_e (stripe_rows h s) 0 (fun dy => enc_mrp_sample w bp raw V x (4 * s + dy)))) F
  else
    let '(F1, o) := loop_e (nstripes h) 0 (fun s => loop_e wn 0 (fun x =>
                      enc_cup_col w h orient bp V (4 * s) (stripe_rows h s) x)) F in
    (F1, if negb (Z.land style CblkStyleSegsym =? 0) then o ++ segsym_syms else o).

(* ---------- pass sequencing ---------- *)
(* The passes the loop `for bitplane = maxbp; bitplane >= low && passIdx < numPasses` runs:
   cleanup on the top plane, then SPP, MRP, cleanup on each lower plane. (bitplane, passType) *)
Definition all_passes (maxbp low : Z) : list (Z * Z) :=
  (maxbp, 2) :: flat_map (fun i => let b := maxbp - 1 - Z.of_nat i in [(b, 0); (b, 1); (b, 2)])
                         (seq 0 (Z.to_nat (maxbp - low))).
Definition pass_list (maxbp low : Z) (np : Z) : list (Z * Z) :=
  if maxbp <? low then [] else firstn (Z.to_nat np) (all_passes maxbp low).

(* startBitplane := passType == 0 || (passType == 2 && passIdx == 0) *)
Definition start_bitplane (ptype : Z) (first : bool) : bool := (ptype =? 0) || ((ptype =? 2) && first).

Fixpoint enc_passes (wn hn : nat) (orient style maxbp : Z) (V : tree) (pl : list (Z * Z)) (first : bool)
                    (F : tree) : list (list sym) :=
  match pl with
  | [] => []
  | (bp, ptype) :: rest =>
    let F0 := if start_bitplane ptype first then clear_visit F else F in
    let '(F1, o) := enc_pass wn hn orient style bp ptype (is_lazy_raw bp maxbp ptype style) V F0 in
    o :: enc_passes wn hn orient style maxbp V rest false F1
  end.

(* final encoder flags (used to state the partial-reconstruction rule) *)
Fixpoint enc_final_flags (wn hn : nat) (orient style maxbp : Z) (V : tree) (pl : list (Z * Z)) (first : bool)
                         (F : tree) : tree :=
  match pl with
  | [] => F
  | (bp, ptype) :: rest =>
    let F0 := if start_bitplane ptype first then clear_visit F else F in
    enc_final_flags wn hn orient style maxbp V rest false
      (fst (enc_pass wn hn orient style bp ptype (is_lazy_raw bp maxbp ptype style) V F0))
  end.

(* findMaxBitplane: -1 for an all-zero block, else the index of the highest set bit of the
   largest |v| (the Go loop `for maxAbs > 0 { maxAbs >>= 1; bitplane++ }` - 1 = Z.log2) *)
Definition max_abs (data : list Z) : Z := fold_left (fun m v => Z.max m (abs32 v)) data 0.
Definition find_max_bitplane (data : list Z) : Z :=
  let m := max_abs data in if m =? 0 then -1 else Z.log2 m.

(* "copy data with padding": data[y*w+x] at (y+1)*(w+2)+(x+1) *)
Fixpoint pad_rows (w : Z) (wn : nat) (data : list Z) (rows : nat) (y : Z) (V : tree) : tree :=
  match rows with
  | O => V
  | S r => pad_rows w wn (skipn wn data) r (y + 1) (tree_of_list_from (firstn wn data) (idx_of w 0 y) V)
  end.
Definition pad_data (wn hn : nat) (data : list Z) : tree := pad_rows (Z.of_nat wn) wn data hn 0 Leaf.

(* The encoder at symbol level (Encode / EncodeLayered share it): maxBitplane and, per coded
   pass, the symbols handed to the arithmetic coder.  fb = nmseDecFracBits, np = numPasses. *)
Definition enc_syms (wn hn : nat) (orient style fb np : Z) (data : list Z) : Z * list (list sym) :=
  let maxbp := find_max_bitplane data in
  (maxbp, enc_passes wn hn orient style maxbp (pad_data wn hn data) (pass_list maxbp fb np) true Leaf).

(* =====================================================================================
   Decoder passes over an abstract channel; state = (flags, data)
   ===================================================================================== *)
Definition ask_t (C : Type) : Type := C -> Z -> Z -> outcome (C * Z).   (* channel, kind, ctx *)

Definition i32 (x : Z) : Z := wrapS 32 x.
Definition one_shl (bp : Z) : Z := i32 (Z.shiftl 1 bp).                 (* int32(1) << uint(bp) *)

(* (t1 *Decoder) reconstructSignificantValue(bitplane, sign) *)
Definition recon_sig (oj : bool) (bp sign : Z) : Z :=
  let one := one_shl bp in
  let val := if oj then Z.lor one (Z.shiftr one 1) else one in
  if negb (sign =? 0) then i32 (- val) else val.

(* (t1 *Decoder) refineReconstructedValue(current, bitplane, bit) *)
Definition recon_ref (oj : bool) (cur bp b : Z) : Z :=
  if oj then
    let poshalf := Z.shiftr (one_shl bp) 1 in
    if xorb (negb (b =? 0)) (cur <? 0) then i32 (cur + poshalf) else i32 (cur - poshalf)
  else if b =? 0 then cur
  else if 0 <=? cur then i32 (cur + one_shl bp) else i32 (cur - one_shl bp).

Definition dstate : Type := (tree * tree)%type.    (* flags, data *)

(* one sample of decodeSigPropPass *)
Definition dec_spp_sample {C : Type} (ask : ask_t C) (w orient bp : Z) (raw oj : bool) (x y : Z)
                          (st : dstate * C) : outcome (dstate * C) :=
  let '((F, D), c) := st in
  let idx := idx_of w x y in
  let f := fget F idx in
  if has f T1Sig then Ok st
  else if negb (has f T1SigNeighbors) then Ok st
  else
    obind (if raw then ask c 1 0 else ask c 0 (zc_ctx_t f orient)) (fun r1 =>
      let '(c1, b) := r1 in
      let F1 := orf F idx T1Visit in
      if b =? 0 then Ok ((F1, D), c1)
      else
        obind (if raw then ask c1 1 0 else ask c1 0 (sc_ctx_t f)) (fun r2 =>
          let '(c2, sb) := r2 in
          let sign := if raw then sb else Z.lxor sb (spb_t f) in
          Ok ((set_sig F1 w x y idx (negb (sign =? 0)), fset D idx (recon_sig oj bp sign)), c2))).

(* one sample of decodeMagRefPass *)
Definition dec_mrp_sample {C : Type} (ask : ask_t C) (w bp : Z) (raw oj : bool) (x y : Z)
                          (st : dstate * C) : outcome (dstate * C) :=
  let '((F, D), c) := st in
  let idx := idx_of w x y in
  let f := fget F idx in
  if negb (has f T1Sig) || has f T1Visit then Ok st
  else
    obind (if raw then ask c 1 0 else ask c 0 (mr_ctx f)) (fun r1 =>
      let '(c1, b) := r1 in
      Ok ((orf F idx T1Refine, fset D idx (recon_ref oj (fget D idx) bp b)), c1)).

(* one sample of decodeCleanupPass *)
Definition dec_cup_sample {C : Type} (ask : ask_t C) (w orient bp : Z) (oj : bool) (x y : Z)
                          (st : (dstate * bool) * C) : outcome ((dstate * bool) * C) :=
  let '(((F, D), partial), c) := st in
  let idx := idx_of w x y in
  let f := fget F idx in
  if has f T1Visit || has f T1Sig then Ok (((clrf F idx T1Visit, D), partial), c)
  else
    obind (if partial then Ok (c, 1) else ask c 0 (zc_ctx_t f orient)) (fun r1 =>
      let '(c1, b) := r1 in
      if b =? 0 then Ok (((clrf F idx T1Visit, D), false), c1)
      else
        obind (ask c1 0 (sc_ctx_t f)) (fun r2 =>
          let '(c2, sb) := r2 in
          let sign := Z.lxor sb (spb_t f) in
          Ok (((clrf (set_sig F w x y idx (negb (sign =? 0))) idx T1Visit,
                fset D idx (recon_sig oj bp sign)), false), c2))).

Definition drop_partial {C : Type} (r : (dstate * bool) * C) : dstate * C := (fst (fst r), snd r).

Definition dec_cup_col {C : Type} (ask : ask_t C) (w h orient bp : Z) (oj : bool) (k : Z) (n : nat) (x : Z)
                       (st : dstate * C) : outcome (dstate * C) :=
  let '((F, D), c) := st in
  if (k + 3 <? h) && rl_ok F w x k then
    obind (ask c 0 CTXRL) (fun r0 =>
      let '(c0, rlbit) := r0 in
      if rlbit =? 0 then Ok ((F, D), c0)
      else
        obind (ask c0 0 CTXUNI) (fun r1 => let '(c1, b1) := r1 in
        obind (ask c1 0 CTXUNI) (fun r2 => let '(c2, b2) := r2 in
          let runlen := Z.lor (Z.shiftl b1 1) b2 in
          obind (loop_d (Z.to_nat (4 - runlen)) runlen
                   (fun dy => dec_cup_sample ask w orient bp oj x (k + dy)) (((F, D), true), c2))
                (fun r => Ok (drop_partial r)))))
  else
    obind (loop_d n 0 (fun dy => dec_cup_sample ask w orient bp oj x (k + dy)) (((F, D), false), c))
          (fun r => Ok (drop_partial r)).

(* the four `t1.mqc.Decode(CTXUNI)` after a cleanup pass when t1.segmentation; results unused *)
Definition dec_segsym {C : Type} (ask : ask_t C) (c : C) : outcome C :=
  obind (ask c 0 18) (fun r1 => obind (ask (fst r1) 0 18) (fun r2 =>
  obind (ask (fst r2) 0 18) (fun r3 => obind (ask (fst r3) 0 18) (fun r4 => Ok (fst r4))))).

Definition dec_pass {C : Type} (ask : ask_t C) (wn hn : nat) (orient style bp ptype : Z) (raw oj : bool)
                    (st : dstate * C) : outcome (dstate * C) :=
  let w := Z.of_nat wn in let h := Z.of_nat hn in
  if ptype =? 0 then
    loop_d (nstripes h) 0 (fun s => loop_d wn 0 (fun x =>
      loop_d (stripe_rows h s) 0 (fun dy => dec_spp_sample ask w orient bp raw oj x (4 * s + dy)))) st
  else if ptype =? 1 then
    loop_d (nstripes h) 0 (fun s => loop_d wn 0 (fun x =>
      loop_d (stripe_rows h s) 0 (fun dy => dec_mrp_sample ask w bp raw oj x (4 * s + dy)))) st
  else
    obind (loop_d (nstripes h) 0 (fun s => loop_d wn 0 (fun x =>
             dec_cup_col ask w h orient bp oj (4 * s) (stripe_rows h s) x)) st) (fun r =>
      if negb (Z.land style CblkStyleSegsym =? 0)
      then obind (dec_segsym ask (snd r)) (fun c => Ok (fst r, c))
      else Ok r).

(* The pass loop shared by DecodeLayeredWithMode / DecodeWithOptions.  `pre i bp ptype raw` runs
   before the pass (set up the coder for a new codeword segment), `post` after it (context
   reset / save, segment bookkeeping); i = passIdx. *)
Definition hook_t (C : Type) : Type := Z -> Z -> Z -> bool -> C -> outcome C.

Fixpoint dec_passes {C : Type} (ask : ask_t C) (pre post : hook_t C) (wn hn : nat) (orient style maxbp : Z)
                    (oj : bool) (pl : list (Z * Z)) (i : Z) (st : dstate * C) : outcome (dstate * C) :=
  match pl with
  | [] => Ok st
  | (bp, ptype) :: rest =>
    let '((F, D), c) := st in
    let F0 := if start_bitplane ptype (i =? 0) then clear_visit F else F in
    let raw := is_lazy_raw bp maxbp ptype style in
    obind (pre i bp ptype raw c) (fun c1 =>
    obind (dec_pass ask wn hn orient style bp ptype raw oj ((F0, D), c1)) (fun r =>
    obind (post i bp ptype raw (snd r)) (fun c3 =>
      dec_passes ask pre post wn hn orient style maxbp oj rest (i + 1) (fst r, c3))))
  end.

(* GetData(): the w*h coefficients without padding, row-major *)
Definition get_data (wn hn : nat) (D : tree) : list Z :=
  flat_map (fun y => map (fun x => fget D (idx_of (Z.of_nat wn) (Z.of_nat x) (Z.of_nat y))) (seq 0 wn)) (seq 0 hn).

(* ---------- the ideal channel ---------- *)
(* current pass's remaining symbols, then the symbol lists of the following passes *)
Definition ichan : Type := (list sym * list (list sym))%type.

Definition ideal_ask : ask_t ichan := fun c kind ctx =>
  match fst c with
  | [] => Err
  | (k, cx, b) :: r => if (k =? kind) && (cx =? ctx) then Ok ((r, snd c), b) else Err
  end.
(* a pass starts on the next recorded list and must have used up the previous one *)
Definition ideal_pre : hook_t ichan := fun _ _ _ _ c =>
  match fst c, snd c with
  | [], p :: r => Ok (p, r)
  | _, _ => Err
  end.
Definition ideal_post : hook_t ichan := fun _ _ _ _ c =>
  match fst c with [] => Ok c | _ => Err end.

(* The decoder driven by the symbol lists of np = length passes coding passes, starting at
   maxbp (the decoder loop runs down to bit-plane 0: low = 0). *)
Definition dec_ideal (wn hn : nat) (orient style maxbp : Z) (oj : bool) (passes : list (list sym))
  : outcome (dstate * ichan) :=
  dec_passes ideal_ask ideal_pre ideal_post wn hn orient style maxbp oj
             (pass_list maxbp 0 (zlen passes)) 0 ((Leaf, Leaf), ([], passes)).
