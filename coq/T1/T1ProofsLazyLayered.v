(* LAZY without TERMALL, part 3: the shape of the pass list and what EncodeLayered returns *)
From V Require Import Common.Base MQ.MqModel MQ.MqProofs MQ.MqProofsDec MQ.MqProofsRt MQ.MqProofsRt2 MQ.MqProofsTerm MQ.MqProofsSeg.
From V Require Import T1.T1Store T1.T1Ctx T1.T1CtxProofs T1.T1Model T1.T1Bytes T1.T1ProofsBase
  T1.T1ProofsSeq T1.T1ProofsFinal T1.T1ProofsSim T1.T1ProofsMqRt T1.T1ProofsComp T1.T1ProofsCompThm T1.T1ProofsRestart
  T1.T1ProofsTermEnc T1.T1ProofsTermall T1.T1ProofsPterm T1.T1ProofsLazyEnc T1.T1ProofsLazyTerm.
From V Require Import T1.T1ProofsLazyMq T1.T1ProofsLazyEnc2.

Lemma flat_map_triples : forall (f : nat -> Z) l,
  flat_map (fun i => let b := f i in [(b, 0); (b, 1); (b, 2)]) l = triples (map f l).
Proof. intros f l. induction l as [|a l IH]; [reflexivity|]. cbn [flat_map map triples]. cbv zeta. f_equal. f_equal. f_equal. exact IH. Qed.

Ltac kinds Hlazy Hnt :=
  unfold rawq, termq; cbn [fst snd];
  rewrite ?(lazy_raw_eq _ _ Hlazy), ?(lazy_term_eq _ _ Hlazy Hnt);
  repeat match goal with
         | |- context [?a =? ?b] => destruct (Z.eqb_spec a b)
         | |- context [?a <? ?b] => destruct (Z.ltb_spec a b)
         | |- context [?a <=? ?b] => destruct (Z.leb_spec a b)
         end; cbn [andb]; try reflexivity; try lia.

Lemma lazy_shape : forall style maxbp fb, Z.land style CblkStyleLazy <> 0 -> Z.land style CblkStyleTermAll = 0 ->
  0 <= fb <= maxbp ->
  exists body ql bs, all_passes maxbp fb = (body ++ [ql]) ++ triples bs /\
    Forall (fun q => rawq style maxbp q = false) (body ++ [ql]) /\
    Forall (fun q => termq style maxbp q = false) body /\
    Forall (fun b => b < maxbp - 3) bs /\ (bs <> [] -> termq style maxbp ql = true).
Proof.
  intros style maxbp fb Hlazy Hnt Hfb. unfold all_passes.
  remember (Z.to_nat (maxbp - fb)) as n eqn:En.
  destruct n as [|[|[|m]]].
  - exists [], (maxbp, 2), []. split; [reflexivity|].
    split; [repeat constructor; kinds Hlazy Hnt|]. split; [constructor|]. split; [constructor|congruence].
  - eexists [_; _; _], _, []. split; [cbn; reflexivity|].
    split; [repeat constructor; kinds Hlazy Hnt|]. split; [repeat constructor; kinds Hlazy Hnt|].
    split; [constructor|congruence].
  - eexists [_; _; _; _; _; _], _, []. split; [cbn; reflexivity|].
    split; [repeat constructor; kinds Hlazy Hnt|]. split; [repeat constructor; kinds Hlazy Hnt|].
    split; [constructor|congruence].
  - change (S (S (S m))) with (3 + m)%nat. rewrite seq_app, flat_map_app. rewrite (flat_map_triples _ (seq (0 + 3) m)).
    eexists [_; _; _; _; _; _; _; _; _], _, _. split; [cbn; reflexivity|].
    split; [repeat constructor; kinds Hlazy Hnt|]. split; [repeat constructor; kinds Hlazy Hnt|].
    split; [|intros _; kinds Hlazy Hnt].
    apply Forall_forall. intros b Hb. apply in_map_iff in Hb. destruct Hb as (i & <- & Hi). apply in_seq in Hi. lia.
Qed.

Lemma all_syms_ok_app : forall style maxbp A B syms, all_syms_ok style maxbp (A ++ B) syms ->
  exists sA sB, syms = sA ++ sB /\ length sA = length A /\ all_syms_ok style maxbp A sA /\ all_syms_ok style maxbp B sB.
Proof.
  intros style maxbp A. induction A as [|q A IH]; intros B syms H.
  - exists [], syms. cbn. auto.
  - destruct syms as [|ss syms]; [destruct H|]. cbn [app all_syms_ok] in H. destruct H as [H1 H2].
    destruct (IH B syms H2) as (sA & sB & -> & Hl & HA & HB).
    exists (ss :: sA), sB. cbn [app length all_syms_ok]. auto.
Qed.

Lemma all_syms_ok_mq : forall style maxbp A sA, Forall (fun q => rawq style maxbp q = false) A ->
  all_syms_ok style maxbp A sA -> Forall (Forall sym_mq) sA.
Proof.
  intros style maxbp A. induction A as [|q A IH]; intros sA HA H; destruct sA as [|ss sA]; try destruct H; [constructor|].
  constructor; [|apply IH; [exact (Forall_inv_tail HA)|assumption]].
  unfold pass_syms_ok in H. pose proof (Forall_inv HA) as Hq. unfold rawq in Hq. rewrite Hq in H. exact H.
Qed.

Lemma fl_cxset : forall pterm e cx, fl pterm (cxset e cx) = cxset (fl pterm e) cx.
Proof. intros [|] e cx; cbn [fl]; [apply enc_erterm_cxset|apply enc_flush_state_cxset]. Qed.

Lemma fl_reset_pre : forall pterm (reset : bool) e, e_pre (fl pterm (if reset then r_e e else e)) = e_pre (fl pterm e).
Proof. intros pterm [|] e; [|reflexivity]. rewrite r_e_cxset, fl_cxset. reflexivity. Qed.

Transparent enc_flush_state.
Lemma flush_state_pre_len : forall e, (length (e_pre (enc_flush_state e)) <= length (e_pre e) + 3)%nat.
Proof.
  intros e. unfold enc_flush_state. cbv zeta.
  set (e0 := enc_shift_ct (enc_setbits e)).
  destruct (byteout_pushes e0) as (y1 & E1).
  set (e1 := enc_byteout e0) in *.
  destruct (byteout_pushes (enc_shift_ct e1)) as (y2 & E2).
  set (e2 := enc_byteout (enc_shift_ct e1)) in *.
  assert (L2 : length (e_pre e2) = (length (e_pre e) + 2)%nat).
  { rewrite E2. change (e_pre (enc_shift_ct e1)) with (e_pre e1). rewrite E1. cbn [length]. change (e_pre e0) with (e_pre e). lia. }
  destruct (e_post e2) as [|l r]; [lia|]. destruct (l =? 255); cbn [e_pre length]; lia.
Qed.
Opaque enc_flush_state.

Lemma flush_len_bound : forall e, zlen (enc_flush e) <= enc_num_bytes e + 3.
Proof.
  intros e. pose proof (flush_state_pre_len e) as H.
  Transparent enc_flush. unfold enc_flush. Opaque enc_flush.
  unfold enc_get_buffer, enc_num_bytes, enc_bp, zlen.
  destruct (Z.ltb_spec (Z.of_nat (length (e_pre (enc_flush_state e)))) 1); [cbn [length]; destruct (_ <? _); lia|].
  assert (L : length (tl (rev (e_pre (enc_flush_state e)))) = (length (e_pre (enc_flush_state e)) - 1)%nat).
  { rewrite <- (rev_length (e_pre (enc_flush_state e))). destruct (rev (e_pre (enc_flush_state e))); cbn [tl length]; lia. }
  rewrite L. destruct (Z.ltb_spec (Z.of_nat (length (e_pre e))) 1); lia.
Qed.

Lemma enc_mq_last_cxs_ok : forall reset rest cur cx, cxs_ok cx -> cxs_ok (e_cx (enc_mq_last reset (enc_new_cx cx) cur rest)).
Proof.
  intros reset rest cur cx [Hok Hlen].
  pose proof (enc_mq_last_inv reset rest cur _ (enc_new_inv cx Hok)) as [[_ _ _ _ _ Hcx] _].
  split; [exact Hcx|]. rewrite enc_mq_last_cx_len. exact Hlen.
Qed.

Transparent enc_flush.
Lemma grp_fn_false : forall reset cx ps, grp_fn false reset cx ps = enc_flush (enc_mq_passes reset (enc_new_cx cx) ps).
Proof. reflexivity. Qed.
Opaque enc_flush.

Lemma encA' : forall style maxbp body ql s0 symr e,
  Forall (fun q => rawq style maxbp q = false) (body ++ [ql]) -> Forall (fun q => termq style maxbp q = false) body ->
  length symr = length body -> Forall (Forall sym_mq) (s0 :: symr) -> enc_inv e -> zlen (e_cx e) = 19 ->
  let reset := negb (Z.land style CblkStyleReset =? 0) in
  let pterm := negb (Z.land style CblkStylePterm =? 0) in
  exists e' rl brecs,
    enc_bytes_passes style maxbp (body ++ [ql]) (s0 :: symr) false e = Ok ((e', termq style maxbp ql), brecs ++ [rl]) /\
    (let X := enc_mq_last reset e (decs s0) (map decs symr) in
     let X2 := if termq style maxbp ql then fl pterm X else X in
     e' = if reset then r_e X2 else X2) /\
    p_rate rl = (if termq style maxbp ql then enc_num_bytes e' else enc_num_bytes e' + 3) /\
    length brecs = length body /\ Forall (fun r => 0 <= p_rate r) brecs.
Proof.
  intros style maxbp body ql s0 symr e H1 H2 H3 H4 H5 H6 reset pterm.
  destruct (encA style maxbp body ql s0 symr e H1 H2 H3 H4 H5 H6) as (brecs & E & Hl & Hr).
  cbv zeta in E. fold reset pterm in E.
  eexists _, _, brecs. split; [exact E|]. split; [reflexivity|]. split; [reflexivity|]. split; assumption.
Qed.

Lemma enc_layered_lazy : forall (wn hn : nat) (orient style fb : Z) (data : list Z),
  Z.land style CblkStyleLazy <> 0 -> Z.land style CblkStyleTermAll = 0 -> data_ok data ->
  let maxbp := find_max_bitplane data in
  let NP := 3 * (maxbp - fb + 1) - 2 in
  let pl := pass_list maxbp fb NP in
  let syms := enc_passes wn hn orient style maxbp (pad_data wn hn data) pl true Leaf in
  fb <= maxbp -> 0 <= fb ->
  exists gs bytes,
    enc_layered wn hn orient style fb NP data =
      Ok (maxbp, rev (normalize_rev bytes (rev (concat (map g_recs gs))) (zlen bytes)), bytes) /\
    bytes = concat (map g_seg gs) /\ syms = concat (map g_syms gs) /\ pl = concat (map g_pl gs) /\
    grel style cx0 gs /\ gs_ok style maxbp 0 gs /\ (exists g0 gr, gs = g0 :: gr /\ g_raw g0 = false) /\
    (Z.land style CblkStylePterm = 0 -> bytes <> []).
Proof.
  intros wn hn orient style fb data Hlazy Hnt Hok maxbp NP pl syms Hge Hfb.
  pose proof (find_max_bitplane_spec data Hok) as Hspec. cbv zeta in Hspec. fold maxbp in Hspec.
  destruct Hspec as [[Hm1 _]|[Hmb _]]; [lia|].
  assert (Epl : pl = all_passes maxbp fb) by (apply pass_list_complete; unfold NP; lia).
  assert (Hchain : chain maxbp 2 pl) by (rewrite Epl; apply chain_all_passes; lia).
  assert (Hall : all_syms_ok style maxbp pl syms) by (apply (enc_passes_all_syms_ok _ _ _ _ _ _ _ maxbp 2); exact Hchain).
  destruct (lazy_shape style maxbp fb Hlazy Hnt ltac:(lia)) as (body & ql & bs & Eshape & HrawA & HntA & Hbs & HtermA).
  unfold enc_layered, enc_syms. fold maxbp. fold pl. fold syms.
  destruct (Z.ltb_spec maxbp fb); [lia|].
  set (reset := negb (Z.land style CblkStyleReset =? 0)) in *.
  set (pterm := negb (Z.land style CblkStylePterm =? 0)) in *.
  rewrite enc_init.
  clearbody syms. rewrite Epl, Eshape in *. clear Epl Eshape pl.
  destruct (all_syms_ok_app _ _ _ _ _ Hall) as (sA & sB & -> & HlA & HallA & HallB).
  pose proof (all_syms_ok_mq _ _ _ _ HrawA HallA) as HmqA.
  destruct sA as [|s0 symr]; [rewrite app_length in HlA; cbn [length] in HlA; lia|].
  assert (Hlr : length symr = length body) by (rewrite app_length in HlA; cbn [length] in HlA; lia).
  destruct (encA' style maxbp body ql s0 symr (enc_new_cx cx0) HrawA HntA Hlr HmqA (enc_new_inv cx0 cx0_ok) cx0_len)
    as (e' & rl & brecs & EA & Ee' & Hrl & Hlb & Hbr0).
  cbv zeta in Ee'. fold reset pterm in Ee'.
  rewrite enc_bytes_passes_app by exact HlA.
  match goal with |- context [enc_bytes_passes ?a ?b ?c ?d ?e ?f] =>
    replace (enc_bytes_passes a b c d e f) with (Ok ((e', termq style maxbp ql), brecs ++ [rl])) by (symmetry; exact EA) end.
  cbn [obind fst snd].
  set (X := enc_mq_last reset (enc_new_cx cx0) (decs s0) (map decs symr)) in *.
  assert (HinvX : enc_inv X) by (apply enc_mq_last_inv; apply enc_new_inv; exact cx0_ok).
  assert (HcxX : cxs_ok (e_cx X)) by (apply enc_mq_last_cxs_ok; exact cx0_cxs_ok).
  assert (Hd0 : Forall (decision_ok (zlen cx0)) (decs s0)) by (rewrite cx0_len; apply sym_mq_decision; exact (Forall_inv HmqA)).
  assert (Hdr : Forall (Forall (decision_ok (zlen cx0))) (map decs symr)).
  { rewrite cx0_len. apply Forall_map. eapply Forall_impl; [|exact (Forall_inv_tail HmqA)]. intros l0 Hl0. apply sym_mq_decision. exact Hl0. }
  set (cxn := if reset then cx0 else e_cx X).
  assert (Hcxn : cxs_ok cxn) by (unfold cxn; destruct reset; [exact cx0_cxs_ok|exact HcxX]).
  assert (HsymsA : Forall (Forall (sym_okr false)) (s0 :: symr)) by exact HmqA.
  destruct (termq style maxbp ql) eqn:Etq.
  - (* the first group is terminated *)
    destruct (fresh_group pterm reset cx0 (decs s0) (map decs symr) cx0_ok Hd0 Hdr) as (Hfr & Hlast & dd & Edd & Hfut).
    cbv zeta in Hfr. rewrite enc_mq_passes_last in Hfr. fold X in Hfr, Hfut. rewrite fl_reset_pre in Hfr.
    remember (grp_fn pterm reset cx0 (decs s0 :: map decs symr)) as segA eqn:EsegA.
    assert (E1 : e_pre (fl pterm X) = rev segA ++ [0]).
    { apply (f_equal (@rev Z)) in Hfr. rewrite rev_involutive in Hfr. rewrite Hfr. cbn [rev]. reflexivity. }
    assert (Hcxfl : cxs_ok (e_cx (fl pterm X))) by (rewrite fl_cx; exact HcxX).
    assert (HTI : TI e').
    { rewrite Ee'. apply TI_after; [|exact Hcxfl].
      pose proof (fl_buf_ok pterm _ HinvX) as Hbo.
      pose proof (hd_rev_last segA) as Hhd. rewrite <- E1 in Hhd.
      destruct (e_pre (fl pterm X)) as [|h P'] eqn:Eer.
      { apply (f_equal (@length Z)) in E1. rewrite app_length in E1. cbn [length] in E1. lia. }
      exists h, P'. split; [reflexivity|]. split; [|exact Hbo]. cbn [hd] in Hhd. rewrite Hhd. exact Hlast. }
    assert (Hpre : e_pre e' = rev ([] ++ segA) ++ [0]).
    { rewrite Ee'. destruct reset; [rewrite r_e_cxset; cbn [cxset e_pre]|]; exact E1. }
    assert (Hcx' : e_cx e' = cxn).
    { rewrite Ee'. unfold cxn. destruct reset.
      - rewrite r_e_cxset. cbn [cxset e_cx]. apply reset_cx_19. apply Hcxfl.
      - apply fl_cx. }
    assert (Hrc : reset = true -> e_cx e' = cx0) by (intros Er; rewrite Hcx'; unfold cxn; rewrite Er; reflexivity).
    destruct (encB style maxbp Hlazy Hnt bs sB e' ([] ++ segA) Hbs HallB HTI Hpre Hlast Hrc)
      as (e'' & gsB & EB & Hpre'' & HsyB & HplB & HrelB & HgsB & HneB).
    fold reset pterm in EB. rewrite EB. cbn [obind fst snd].
    rewrite (get_buffer_pre e'' _ Hpre'').
    set (gA := mkGrp false body ql (s0 :: symr) segA brecs rl).
    exists (gA :: gsB), (([] ++ segA) ++ concat (map g_seg gsB)).
    split; [reflexivity|]. split; [reflexivity|].
    split; [cbn [map concat g_syms gA]; rewrite HsyB; reflexivity|].
    split; [cbn [map concat g_pl g_body g_ql gA]; rewrite HplB; reflexivity|].
    split.
    { cbn [grel]. exists cxn. split.
      { unfold grp_dec_ok. cbn [g_raw g_syms g_seg gA map]. fold reset. exists dd, (e_cx X). auto. }
      split; [exact Hcxn|]. split; [intros Er; fold reset in Er; unfold cxn; rewrite Er; reflexivity|].
      rewrite <- Hcx'. exact HrelB. }
    assert (HneA : Z.land style CblkStylePterm = 0 -> ([] ++ segA) ++ concat (map g_seg gsB) <> []).
    { intros Hp0 Habs. apply app_eq_nil in Habs. destruct Habs as [Habs _]. cbn [app] in Habs.
      revert Habs. rewrite EsegA. unfold pterm. rewrite Hp0. change (negb (0 =? 0)) with false.
      rewrite grp_fn_false. exact (proj1 (mq_passes_future reset cx0 (decs s0) (map decs symr) cx0_ok Hd0 Hdr)). }
    split; [|split; [exists gA, gsB; auto|exact HneA]].
    cbn [gs_ok]. rewrite (num_bytes_pre _ _ Hpre) in Hrl. cbn [app] in Hrl, HgsB.
    split.
    { unfold g_ok. cbn [g_brecs g_body g_syms g_pl g_ql g_raw g_seg g_rl gA length].
      split; [exact Hlb|]. split; [rewrite Hlr; reflexivity|]. split; [exact HrawA|]. split; [exact HntA|].
      split; [exact Hbr0|]. split; [exact Hlast|]. split; [exact HsymsA|]. lia. }
    split; [left; unfold g_closed; cbn [g_ql g_rl g_seg gA]; split; [exact Etq|lia]|].
    cbn [g_seg gA]. exact HgsB.
  - (* at most three bit-planes coded, fb > 0: one codeword closed by the final Flush *)
    assert (Ebs : bs = []) by (destruct bs; [reflexivity|]; specialize (HtermA ltac:(discriminate)); discriminate).
    subst bs. destruct sB; [|destruct HallB].
    cbn [triples flat_map enc_bytes_passes obind fst snd]. rewrite app_nil_r.
    destruct (fresh_group false reset cx0 (decs s0) (map decs symr) cx0_ok Hd0 Hdr) as (Hfr & Hlast & dd & Edd & Hfut).
    cbv zeta in Hfr. fold X in Hfut.
    assert (Ebytes : enc_flush e' = grp_fn false reset cx0 (decs s0 :: map decs symr)).
    { rewrite Ee'. unfold grp_fn. rewrite enc_mq_passes_last. fold X. cbn [fl].
      Transparent enc_flush. unfold enc_flush. Opaque enc_flush.
      destruct reset; [rewrite r_e_cxset, !enc_flush_state_cxset|]; reflexivity. }
    remember (grp_fn false reset cx0 (decs s0 :: map decs symr)) as segA eqn:EsegA.
    rewrite Ebytes.
    set (gA := mkGrp false body ql (s0 :: symr) segA brecs rl).
    exists [gA], segA.
    split; [cbn [map concat g_recs g_brecs g_rl gA]; rewrite app_nil_r; reflexivity|].
    split; [cbn [map concat g_seg gA]; rewrite app_nil_r; reflexivity|].
    split; [cbn [map concat g_syms gA]; rewrite !app_nil_r; reflexivity|].
    split; [cbn [map concat g_pl g_body g_ql gA]; rewrite !app_nil_r; reflexivity|].
    split.
    { cbn [grel]. exists cxn. split.
      { unfold grp_dec_ok. cbn [g_raw g_syms g_seg gA map]. fold reset. exists dd, (e_cx X). auto. }
      split; [exact Hcxn|]. split; [intros Er; fold reset in Er; unfold cxn; rewrite Er; reflexivity|exact I]. }
    assert (HneA : Z.land style CblkStylePterm = 0 -> segA <> []).
    { intros _. rewrite EsegA, grp_fn_false.
      exact (proj1 (mq_passes_future reset cx0 (decs s0) (map decs symr) cx0_ok Hd0 Hdr)). }
    split; [|split; [exists gA, []; auto|exact HneA]].
    cbn [gs_ok]. split; [|split; [right; reflexivity|exact I]].
    unfold g_ok. cbn [g_brecs g_body g_syms g_pl g_ql g_raw g_seg g_rl gA length].
    split; [exact Hlb|]. split; [rewrite Hlr; reflexivity|]. split; [exact HrawA|]. split; [exact HntA|].
    split; [exact Hbr0|]. split; [exact Hlast|]. split; [exact HsymsA|].
    rewrite Hrl. rewrite <- Ebytes. pose proof (flush_len_bound e'). lia.
Qed.
