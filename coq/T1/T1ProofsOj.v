(* The reconstruction mode (SetOpenJPEGReconstruction) influences the decoded coefficient values
   only: for ANY channel, two decoder runs that differ in the mode and in the data array make
   the same requests, end in the same outcome class, with the same flags and the same channel
   state.  Hence part (a) of t1_lockstep (same (kind, ctx) sequence, same flags) also holds for
   the OpenJPEG reconstruction mode. *)
From V Require Import Common.Base T1.T1Store T1.T1Ctx T1.T1Model T1.T1ProofsBase T1.T1ProofsSample
  T1.T1ProofsPass T1.T1ProofsSeq.

Definition sim {A : Type} (R : A -> A -> Prop) (o1 o2 : outcome A) : Prop :=
  match o1, o2 with
  | Ok a, Ok b => R a b
  | Err, Err => True
  | Panic, Panic => True
  | OutOfFuel, OutOfFuel => True
  | _, _ => False
  end.

Lemma sim_refl_eq : forall {A} (R : A -> A -> Prop) (o : outcome A), (forall a, R a a) -> sim R o o.
Proof. intros A R o H. destruct o; cbn; auto. Qed.

Lemma obind_sim : forall {A B} (R : A -> A -> Prop) (R' : B -> B -> Prop) o1 o2 (f g : A -> outcome B),
  sim R o1 o2 -> (forall a b, R a b -> sim R' (f a) (g b)) -> sim R' (obind o1 f) (obind o2 g).
Proof. intros A B R R' o1 o2 f g H Hf. destruct o1, o2; cbn in *; try contradiction; auto. Qed.

Lemma loop_d_sim : forall {SD} (R : SD -> SD -> Prop) n i (f g : Z -> SD -> outcome SD) a b,
  (forall j a b, R a b -> sim R (f j a) (g j b)) -> R a b -> sim R (loop_d n i f a) (loop_d n i g b).
Proof.
  intros SD R n. induction n as [|n IH]; intros i f g a b Hfg Hab; cbn [loop_d]; [exact Hab|].
  apply (obind_sim R R); [apply Hfg; exact Hab|]. intros a' b' Hab'. apply IH; assumption.
Qed.

Section Chan.
Context {C : Type} (ask : ask_t C).

(* same flags, same channel *)
Definition Rfc (s1 s2 : dstate * C) : Prop := fst (fst s1) = fst (fst s2) /\ snd s1 = snd s2.
Definition Rfcp (s1 s2 : (dstate * bool) * C) : Prop :=
  fst (fst (fst s1)) = fst (fst (fst s2)) /\ snd (fst s1) = snd (fst s2) /\ snd s1 = snd s2.

Lemma spp_sample_sim : forall w orient bp raw oj1 oj2 x y s1 s2, Rfc s1 s2 ->
  sim Rfc (dec_spp_sample ask w orient bp raw oj1 x y s1) (dec_spp_sample ask w orient bp raw oj2 x y s2).
Proof.
  intros w orient bp raw oj1 oj2 x y [[F1 D1] c1] [[F2 D2] c2] [HF Hc]. cbn [fst snd] in HF, Hc. subst F2 c2.
  unfold dec_spp_sample.
  destruct (has (fget F1 (idx_of w x y)) T1Sig); [split; reflexivity|].
  destruct (negb (has (fget F1 (idx_of w x y)) T1SigNeighbors)); [split; reflexivity|].
  apply (obind_sim eq Rfc); [apply sim_refl_eq; reflexivity|]. intros [ca b] ? <-.
  destruct (b =? 0); [split; reflexivity|].
  apply (obind_sim eq Rfc); [apply sim_refl_eq; reflexivity|]. intros [cb sb] ? <-.
  split; reflexivity.
Qed.

Lemma mrp_sample_sim : forall w bp raw oj1 oj2 x y s1 s2, Rfc s1 s2 ->
  sim Rfc (dec_mrp_sample ask w bp raw oj1 x y s1) (dec_mrp_sample ask w bp raw oj2 x y s2).
Proof.
  intros w bp raw oj1 oj2 x y [[F1 D1] c1] [[F2 D2] c2] [HF Hc]. cbn [fst snd] in HF, Hc. subst F2 c2.
  unfold dec_mrp_sample.
  destruct (negb (has (fget F1 (idx_of w x y)) T1Sig) || has (fget F1 (idx_of w x y)) T1Visit); [split; reflexivity|].
  apply (obind_sim eq Rfc); [apply sim_refl_eq; reflexivity|]. intros [ca b] ? <-.
  split; reflexivity.
Qed.

Lemma cup_sample_sim : forall w orient bp oj1 oj2 x y s1 s2, Rfcp s1 s2 ->
  sim Rfcp (dec_cup_sample ask w orient bp oj1 x y s1) (dec_cup_sample ask w orient bp oj2 x y s2).
Proof.
  intros w orient bp oj1 oj2 x y [[[F1 D1] p1] c1] [[[F2 D2] p2] c2] (HF & Hp & Hc).
  cbn [fst snd] in HF, Hp, Hc. subst F2 p2 c2.
  unfold dec_cup_sample.
  destruct (has (fget F1 (idx_of w x y)) T1Visit || has (fget F1 (idx_of w x y)) T1Sig); [repeat split|].
  apply (obind_sim eq Rfcp); [apply sim_refl_eq; reflexivity|]. intros [ca b] ? <-.
  destruct (b =? 0); [repeat split|].
  apply (obind_sim eq Rfcp); [apply sim_refl_eq; reflexivity|]. intros [cb sb] ? <-.
  repeat split.
Qed.

Lemma drop_partial_sim : forall r1 r2 : (dstate * bool) * C, Rfcp r1 r2 ->
  sim Rfc (Ok (drop_partial r1)) (Ok (drop_partial r2)).
Proof. intros [[[F1 D1] p1] c1] [[[F2 D2] p2] c2] (HF & _ & Hc). cbn in *. split; assumption. Qed.

Lemma cup_col_sim : forall w h orient bp oj1 oj2 k n x s1 s2, Rfc s1 s2 ->
  sim Rfc (dec_cup_col ask w h orient bp oj1 k n x s1) (dec_cup_col ask w h orient bp oj2 k n x s2).
Proof.
  intros w h orient bp oj1 oj2 k n x [[F1 D1] c1] [[F2 D2] c2] [HF Hc]. cbn [fst snd] in HF, Hc. subst F2 c2.
  unfold dec_cup_col.
  destruct ((k + 3 <? h) && rl_ok F1 w x k).
  - apply (obind_sim eq Rfc); [apply sim_refl_eq; reflexivity|]. intros [c0 rlbit] ? <-.
    destruct (rlbit =? 0); [split; reflexivity|].
    apply (obind_sim eq Rfc); [apply sim_refl_eq; reflexivity|]. intros [ca b1] ? <-.
    apply (obind_sim eq Rfc); [apply sim_refl_eq; reflexivity|]. intros [cb b2] ? <-.
    apply (obind_sim Rfcp Rfc).
    + apply loop_d_sim; [intros; apply cup_sample_sim; assumption|repeat split].
    + intros r1 r2 Hr. apply drop_partial_sim. exact Hr.
  - apply (obind_sim Rfcp Rfc).
    + apply loop_d_sim; [intros; apply cup_sample_sim; assumption|repeat split].
    + intros r1 r2 Hr. apply drop_partial_sim. exact Hr.
Qed.

Lemma dec_pass_sim : forall wn hn orient style bp ptype raw oj1 oj2 s1 s2, Rfc s1 s2 ->
  sim Rfc (dec_pass ask wn hn orient style bp ptype raw oj1 s1) (dec_pass ask wn hn orient style bp ptype raw oj2 s2).
Proof.
  intros wn hn orient style bp ptype raw oj1 oj2 s1 s2 Hs. unfold dec_pass.
  destruct (ptype =? 0).
  { apply loop_d_sim; [|exact Hs]. intros s a b Hab. apply loop_d_sim; [|exact Hab].
    intros x a' b' Hab'. apply loop_d_sim; [|exact Hab']. intros dy a'' b'' H''. apply spp_sample_sim. exact H''. }
  destruct (ptype =? 1).
  { apply loop_d_sim; [|exact Hs]. intros s a b Hab. apply loop_d_sim; [|exact Hab].
    intros x a' b' Hab'. apply loop_d_sim; [|exact Hab']. intros dy a'' b'' H''. apply mrp_sample_sim. exact H''. }
  apply (obind_sim Rfc Rfc).
  - apply loop_d_sim; [|exact Hs]. intros s a b Hab. apply loop_d_sim; [|exact Hab].
    intros x a' b' Hab'. apply cup_col_sim. exact Hab'.
  - intros [[F1 D1] c1] [[F2 D2] c2] [HF Hc]. cbn [fst snd] in HF, Hc. subst F2 c2.
    destruct (negb (Z.land style CblkStyleSegsym =? 0)); [|split; reflexivity].
    cbn [snd fst]. apply (obind_sim eq Rfc); [apply sim_refl_eq; reflexivity|]. intros c ? <-. split; reflexivity.
Qed.

Lemma dec_passes_sim : forall pre post wn hn orient style maxbp oj1 oj2 pl i s1 s2, Rfc s1 s2 ->
  sim Rfc (dec_passes ask pre post wn hn orient style maxbp oj1 pl i s1)
          (dec_passes ask pre post wn hn orient style maxbp oj2 pl i s2).
Proof.
  intros pre post wn hn orient style maxbp oj1 oj2 pl. induction pl as [|[bp pt] r IH]; intros i s1 s2 Hs.
  - exact Hs.
  - destruct s1 as [[F1 D1] c1], s2 as [[F2 D2] c2]. destruct Hs as [HF Hc]. cbn [fst snd] in HF, Hc. subst F2 c2.
    cbn [dec_passes].
    apply (obind_sim eq Rfc); [apply sim_refl_eq; reflexivity|]. intros ca ? <-.
    apply (obind_sim Rfc Rfc); [apply dec_pass_sim; split; reflexivity|].
    intros [[Fa Da] cx] [[Fb Db] cy] [HF Hc]. cbn [fst snd] in HF, Hc. subst Fb cy. cbn [snd fst].
    apply (obind_sim eq Rfc); [apply sim_refl_eq; reflexivity|]. intros cz ? <-.
    apply IH. split; reflexivity.
Qed.

End Chan.

(* t1_lockstep part (a) for the OpenJPEG reconstruction mode: same requests (success with the
   channel used up) and the encoder's final flags *)
Theorem t1_lockstep_flags_oj : forall (wn hn : nat) (orient style fb np : Z) (data : list Z) (oj : bool),
  length data = (wn * hn)%nat -> data_ok data -> 0 <= fb ->
  let maxbp := find_max_bitplane data in
  let syms := snd (enc_syms wn hn orient style fb np data) in
  exists D',
    dec_ideal wn hn orient style maxbp oj syms =
    Ok ((enc_final_flags wn hn orient style maxbp (pad_data wn hn data) (pass_list maxbp fb np) true Leaf, D'), ([], [])).
Proof.
  intros wn hn orient style fb np data oj Hlen Hok Hfb maxbp syms.
  destruct (t1_lockstep wn hn orient style fb np data Hlen Hok Hfb) as (D0 & Ed & _).
  fold maxbp in Ed. fold syms in Ed.
  unfold dec_ideal in *.
  pose proof (dec_passes_sim ideal_ask ideal_pre ideal_post wn hn orient style maxbp oj false
                (pass_list maxbp 0 (zlen syms)) 0 ((Leaf, Leaf), ([], syms)) ((Leaf, Leaf), ([], syms))
                (conj eq_refl eq_refl)) as Hsim.
  rewrite Ed in Hsim.
  destruct (dec_passes ideal_ask ideal_pre ideal_post wn hn orient style maxbp oj
              (pass_list maxbp 0 (zlen syms)) 0 ((Leaf, Leaf), ([], syms))) as [[[F D] c]| | |]; cbn in Hsim; try contradiction.
  destruct Hsim as [HF Hc]. cbn [fst snd] in HF, Hc. subst F c. exists D. reflexivity.
Qed.
