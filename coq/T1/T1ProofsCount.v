(* Tier-1 encoder model: the NUMBER of symbols handed to the arithmetic coder.

   Accounting (per sample of the w x h block, flags F):
     - every bit-plane gives each sample ONE token, spent by the one zero-coding decision (SPP or
       cleanup) or the one refinement decision (MRP) the sample can get in that plane:
         after the SPP a sample holds the token iff it is not VISITed        (t1v),
         after the MRP iff it is neither VISITed nor significant             (t2v),
         after the cleanup pass no sample holds a token;
     - a sample that is not yet significant holds a reserve of 3 (gs): 1 for its sign decision and 2
       for the run-length overhead (the run-length symbol and the two UNIFORM symbols replace the
       zero-coding decision of the sample that ends the run, which thereby becomes significant).
   Each pass is a potential step:  #symbols + potential after <= potential before  (enc_pass_count),
   proved by a generic rule for loop_e over distinct indices (loop_e_pot_aux: a step changes the
   potential of its own index only) applied at the sample, column and stripe level.  Summed over the
   complete pass list (cleanup on the top plane, then three passes per lower plane):
       #symbols <= w * h * (planes + 3)                                         (enc_syms_count).
   Styles: any style without SEGSYM (the segmentation symbol adds 4 symbols per cleanup pass). *)
From V Require Import Common.Base T1.T1Store T1.T1Ctx T1.T1Model T1.T1ProofsBase T1.T1ProofsSeq T1.T1ProofsFinal.

(* ---------- lengths and sums ---------- *)
Lemma zlen_app_c : forall {A} (a b : list A), zlen (a ++ b) = zlen a + zlen b.
Proof. intros. unfold zlen. rewrite app_length. lia. Qed.

Lemma zlen_nonneg_c : forall {A} (a : list A), 0 <= zlen a.
Proof. intros. unfold zlen. lia. Qed.

Fixpoint zsum (n : nat) (i : Z) (g : Z -> Z) : Z :=
  match n with O => 0 | S n' => g i + zsum n' (i + 1) g end.

Lemma zsum_ext : forall n i f g, (forall j, i <= j < i + Z.of_nat n -> f j = g j) -> zsum n i f = zsum n i g.
Proof.
  induction n as [|n IH]; intros i f g H; cbn [zsum]; [reflexivity|].
  rewrite (H i) by lia. rewrite (IH (i + 1) f g); [reflexivity|]. intros j Hj. apply H. lia.
Qed.

Lemma zsum_le : forall n i f g, (forall j, i <= j < i + Z.of_nat n -> f j <= g j) -> zsum n i f <= zsum n i g.
Proof.
  induction n as [|n IH]; intros i f g H; cbn [zsum]; [lia|].
  pose proof (H i ltac:(lia)). pose proof (IH (i + 1) f g ltac:(intros j Hj; apply H; lia)). lia.
Qed.

Lemma zsum_add : forall n i f g, zsum n i (fun j => f j + g j) = zsum n i f + zsum n i g.
Proof. induction n as [|n IH]; intros i f g; cbn [zsum]; [reflexivity|]. rewrite IH. lia. Qed.

Lemma zsum_const : forall n i c, zsum n i (fun _ => c) = c * Z.of_nat n.
Proof. induction n as [|n IH]; intros i c; cbn [zsum]; [lia|]. rewrite IH. lia. Qed.

Lemma zsum_scale : forall n i c g, zsum n i (fun j => c * g j) = c * zsum n i g.
Proof. induction n as [|n IH]; intros i c g; cbn [zsum]; [lia|]. rewrite IH. lia. Qed.

Lemma zsum_app : forall a b i g, zsum (a + b) i g = zsum a i g + zsum b (i + Z.of_nat a) g.
Proof.
  induction a as [|a IH]; intros b i g.
  - cbn [zsum Nat.add]. replace (i + Z.of_nat 0) with i by lia. lia.
  - cbn [zsum Nat.add]. rewrite IH. replace (i + 1 + Z.of_nat a) with (i + Z.of_nat (S a)) by lia. lia.
Qed.

Lemma zsum_nonneg : forall n i g, (forall j, 0 <= g j) -> 0 <= zsum n i g.
Proof. induction n as [|n IH]; intros i g H; cbn [zsum]; [lia|]. pose proof (H i). pose proof (IH (i + 1) g H). lia. Qed.

(* ---------- loop_e: observations and potentials ---------- *)
Lemma loop_e_obs : forall {S T : Type} (obs : S -> T) (f : Z -> S -> S * list sym) n i s,
  (forall j s', i <= j < i + Z.of_nat n -> obs (fst (f j s')) = obs s') -> obs (fst (loop_e n i f s)) = obs s.
Proof.
  intros S T obs f n. induction n as [|n IH]; intros i s H; cbn [loop_e]; [reflexivity|].
  pose proof (H i s ltac:(lia)) as H1. destruct (f i s) as [s1 o1]. cbn [fst] in H1.
  assert (H2 : obs (fst (loop_e n (i + 1) f s1)) = obs s1) by (apply IH; intros j s' Hj; apply H; lia).
  destruct (loop_e n (i + 1) f s1) as [s2 o2]. cbn [fst] in *. congruence.
Qed.

Section LoopPot.
Context {S : Type}.
Variables (Inv : S -> Prop) (mb ma : S -> Z -> Z) (f : Z -> S -> S * list sym) (lo hi : Z).
Hypothesis Hstep : forall j s, lo <= j < hi -> Inv s ->
  Inv (fst (f j s)) /\ zlen (snd (f j s)) + ma (fst (f j s)) j <= mb s j /\
  (forall j', lo <= j' < hi -> j' <> j -> mb (fst (f j s)) j' = mb s j' /\ ma (fst (f j s)) j' = ma s j').

Lemma loop_e_pot_aux : forall n i s, lo <= i -> i + Z.of_nat n <= hi -> Inv s ->
  Inv (fst (loop_e n i f s)) /\
  (forall j', lo <= j' < hi -> j' < i \/ i + Z.of_nat n <= j' ->
     mb (fst (loop_e n i f s)) j' = mb s j' /\ ma (fst (loop_e n i f s)) j' = ma s j') /\
  zlen (snd (loop_e n i f s)) + zsum n i (ma (fst (loop_e n i f s))) <= zsum n i (mb s).
Proof.
  induction n as [|n IH]; intros i s Hlo Hhi Hinv; cbn [loop_e zsum fst snd].
  - split; [exact Hinv|]. split; [auto|]. change (zlen (@nil sym)) with 0. lia.
  - destruct (Hstep i s ltac:(lia) Hinv) as (Hi1 & Hl1 & Hf1).
    destruct (f i s) as [s1 o1]. cbn [fst snd] in *.
    destruct (IH (i + 1) s1 ltac:(lia) ltac:(lia) Hi1) as (Hi2 & Hf2 & Hl2).
    destruct (loop_e n (i + 1) f s1) as [s2 o2]. cbn [fst snd] in *.
    split; [exact Hi2|]. split.
    + intros j' Hj' Hout. destruct (Hf2 j' Hj' ltac:(lia)) as [E1 E2]. destruct (Hf1 j' Hj' ltac:(lia)) as [E3 E4].
      split; congruence.
    + rewrite zlen_app_c.
      destruct (Hf2 i ltac:(lia) ltac:(lia)) as [_ E2]. rewrite E2.
      assert (E3 : zsum n (i + 1) (mb s1) = zsum n (i + 1) (mb s)).
      { apply zsum_ext. intros j Hj. apply (Hf1 j); lia. }
      lia.
Qed.
End LoopPot.

(* ---------- the per-sample potentials ---------- *)
Definition bits (F : tree) (j : Z) : bool * bool := (sigb F j, visb F j).
Definition gs (F : tree) (j : Z) : Z := if sigb F j then 0 else 3.
Definition t1v (F : tree) (j : Z) : Z := if visb F j then 0 else 1.
Definition t2v (F : tree) (j : Z) : Z := if visb F j || sigb F j then 0 else 1.

Lemma bits_pots : forall F F' j, bits F' j = bits F j ->
  gs F' j = gs F j /\ t1v F' j = t1v F j /\ t2v F' j = t2v F j.
Proof. unfold bits, gs, t1v, t2v. intros F F' j E. injection E as -> ->. auto. Qed.

Lemma gs_nonneg : forall F j, 0 <= gs F j. Proof. intros. unfold gs. destruct (sigb F j); lia. Qed.

Lemma bits_other_orf : forall F i m j, Pos.eqb (key j) (key i) = false -> bits (orf F i m) j = bits F j.
Proof. intros. unfold bits, sigb, visb. rewrite orf_other by assumption. reflexivity. Qed.

Lemma bits_other_clrf : forall F i m j, Pos.eqb (key j) (key i) = false -> bits (clrf F i m) j = bits F j.
Proof. intros. unfold bits, sigb, visb. rewrite clrf_other by assumption. reflexivity. Qed.

Lemma bits_other_set_sig : forall F w x y idx neg j, Pos.eqb (key j) (key idx) = false ->
  bits (set_sig F w x y idx neg) j = bits F j.
Proof. intros. unfold bits. destruct (set_sig_other F w x y idx neg j H) as (-> & -> & _). reflexivity. Qed.

Ltac pair_neq :=
  let E := fresh "E" in let E1 := fresh "E" in let E2 := fresh "E" in
  intro E; pose proof (f_equal fst E) as E1; pose proof (f_equal snd E) as E2; cbn [fst snd] in E1, E2; lia.

(* ---------- significance propagation ---------- *)
Lemma spp_frame : forall w orient bp raw V x y F j, Pos.eqb (key j) (key (idx_of w x y)) = false ->
  bits (fst (enc_spp_sample w orient bp raw V x y F)) j = bits F j.
Proof.
  intros w orient bp raw V x y F j H. unfold enc_spp_sample. cbv zeta.
  set (idx := idx_of w x y) in *. set (f := fget F idx).
  destruct (has f T1Sig); [reflexivity|]. destruct (negb (has f T1SigNeighbors)); [reflexivity|].
  destruct (bit_at (fget V idx) bp =? 0); cbn [fst].
  - apply bits_other_orf. exact H.
  - rewrite bits_other_set_sig by exact H. apply bits_other_orf. exact H.
Qed.

Lemma spp_local : forall w orient bp raw V x y F,
  zlen (snd (enc_spp_sample w orient bp raw V x y F)) +
  (t1v (fst (enc_spp_sample w orient bp raw V x y F)) (idx_of w x y) +
   gs (fst (enc_spp_sample w orient bp raw V x y F)) (idx_of w x y)) <= 1 + gs F (idx_of w x y).
Proof.
  intros w orient bp raw V x y F. unfold enc_spp_sample. cbv zeta.
  set (idx := idx_of w x y) in *. set (f := fget F idx).
  assert (Ht : t1v F idx <= 1) by (unfold t1v; destruct (visb F idx); lia).
  destruct (has f T1Sig) eqn:Es; [cbn [fst snd]; change (zlen (@nil sym)) with 0; lia|].
  destruct (negb (has f T1SigNeighbors)); [cbn [fst snd]; change (zlen (@nil sym)) with 0; lia|].
  assert (Eg : gs F idx = 3) by (unfold gs, sigb; fold f; rewrite Es; reflexivity).
  destruct (orf_visit_at F idx idx eq_refl) as (Ev1 & Ev2 & _).
  destruct (bit_at (fget V idx) bp =? 0); cbn [fst snd].
  - unfold t1v. rewrite Ev2. unfold gs at 1. rewrite Ev1. fold (gs F idx). rewrite Eg.
    unfold zlen. cbn [length]. lia.
  - destruct (set_sig_at (orf F idx T1Visit) w x y idx (fget V idx <? 0) idx eq_refl) as (Ea & Eb & _).
    unfold t1v. rewrite Eb, Ev2. unfold gs at 1. rewrite Ea. rewrite Eg. unfold zlen. cbn [length]. lia.
Qed.

(* ---------- magnitude refinement ---------- *)
Lemma mrp_frame : forall w bp raw V x y F j, Pos.eqb (key j) (key (idx_of w x y)) = false ->
  bits (fst (enc_mrp_sample w bp raw V x y F)) j = bits F j.
Proof.
  intros w bp raw V x y F j H. unfold enc_mrp_sample. cbv zeta.
  destruct (negb (has (fget F (idx_of w x y)) T1Sig) || has (fget F (idx_of w x y)) T1Visit); [reflexivity|].
  cbn [fst]. apply bits_other_orf. exact H.
Qed.

Lemma mrp_local : forall w bp raw V x y F,
  zlen (snd (enc_mrp_sample w bp raw V x y F)) +
  (t2v (fst (enc_mrp_sample w bp raw V x y F)) (idx_of w x y) +
   gs (fst (enc_mrp_sample w bp raw V x y F)) (idx_of w x y)) <= t1v F (idx_of w x y) + gs F (idx_of w x y).
Proof.
  intros w bp raw V x y F. unfold enc_mrp_sample. cbv zeta.
  set (idx := idx_of w x y) in *.
  destruct (has (fget F idx) T1Sig) eqn:Es; destruct (has (fget F idx) T1Visit) eqn:Ev; cbn [negb orb fst snd];
    try (change (zlen (@nil sym)) with 0; unfold t2v, t1v, gs, visb, sigb; rewrite Es, Ev; cbn [orb]; lia).
  destruct (orf_refine_self F idx idx) as (E1 & E2 & _).
  unfold t2v, t1v, gs. rewrite E1, E2. unfold visb, sigb. rewrite Es, Ev. cbn [orb].
  unfold zlen. cbn [length]. lia.
Qed.

(* ---------- cleanup: one sample ---------- *)
Lemma cup_frame : forall w orient bp V x y st j, Pos.eqb (key j) (key (idx_of w x y)) = false ->
  bits (fst (fst (enc_cup_sample w orient bp V x y st))) j = bits (fst st) j.
Proof.
  intros w orient bp V x y [F p] j H. unfold enc_cup_sample. cbv zeta.
  set (idx := idx_of w x y) in *. set (f := fget F idx).
  destruct (has f T1Visit || has f T1Sig); cbn [fst]; [apply bits_other_clrf; exact H|].
  destruct ((if p then 1 else bit_at (fget V idx) bp) =? 0); cbn [fst].
  - apply bits_other_clrf. exact H.
  - rewrite bits_other_clrf by exact H. apply bits_other_set_sig. exact H.
Qed.

(* not in a run: the ordinary step *)
Lemma cup_local : forall w orient bp V x y F,
  snd (fst (enc_cup_sample w orient bp V x y (F, false))) = false /\
  zlen (snd (enc_cup_sample w orient bp V x y (F, false))) +
  gs (fst (fst (enc_cup_sample w orient bp V x y (F, false)))) (idx_of w x y)
    <= t2v F (idx_of w x y) + gs F (idx_of w x y).
Proof.
  intros w orient bp V x y F. unfold enc_cup_sample. cbv zeta.
  set (idx := idx_of w x y) in *. set (f := fget F idx).
  destruct (clrf_visit_at F idx idx eq_refl) as (Ec1 & _ & _).
  destruct (has f T1Visit) eqn:Ev; destruct (has f T1Sig) eqn:Es; cbn [orb fst snd];
    try (split; [reflexivity|]; change (zlen (@nil sym)) with 0; unfold t2v, gs; rewrite Ec1;
         unfold visb, sigb; fold f; rewrite Ev, Es; cbn [orb]; lia).
  assert (E0 : t2v F idx + gs F idx = 4) by (unfold t2v, gs, visb, sigb; fold f; rewrite Ev, Es; reflexivity).
  destruct (bit_at (fget V idx) bp =? 0); cbn [fst snd]; (split; [reflexivity|]).
  - unfold gs at 1. rewrite Ec1. unfold sigb. fold f. rewrite Es. unfold zlen. cbn [length]. lia.
  - destruct (clrf_visit_at (set_sig F w x y idx (fget V idx <? 0)) idx idx eq_refl) as (Ed1 & _ & _).
    destruct (set_sig_at F w x y idx (fget V idx <? 0) idx eq_refl) as (Ea & _ & _).
    unfold gs at 1. rewrite Ed1, Ea. unfold zlen. cbn [length app]. lia.
Qed.

(* the sample that ends a run: no zero-coding decision, it becomes significant *)
Lemma cup_local_partial : forall w orient bp V x y F,
  visb F (idx_of w x y) = false -> sigb F (idx_of w x y) = false ->
  snd (fst (enc_cup_sample w orient bp V x y (F, true))) = false /\
  zlen (snd (enc_cup_sample w orient bp V x y (F, true))) + 3 +
  gs (fst (fst (enc_cup_sample w orient bp V x y (F, true)))) (idx_of w x y)
    <= t2v F (idx_of w x y) + gs F (idx_of w x y).
Proof.
  intros w orient bp V x y F Hv Hs. unfold enc_cup_sample. cbv zeta.
  set (idx := idx_of w x y) in *. set (f := fget F idx).
  assert (Ev : has f T1Visit = false) by exact Hv. assert (Es : has f T1Sig = false) by exact Hs.
  rewrite Ev, Es. cbn [orb]. change (1 =? 0) with false. cbv iota. cbn [fst snd app].
  split; [reflexivity|].
  destruct (clrf_visit_at (set_sig F w x y idx (fget V idx <? 0)) idx idx eq_refl) as (Ed1 & _ & _).
  destruct (set_sig_at F w x y idx (fget V idx <? 0) idx eq_refl) as (Ea & _ & _).
  unfold gs at 1. rewrite Ed1, Ea. unfold t2v, gs. rewrite Hv, Hs. cbn [orb]. unfold zlen. cbn [length]. lia.
Qed.

(* ---------- cleanup: one column ---------- *)
Lemma rl_ok_bits : forall F w x k, rl_ok F w x k = true -> forall dy, 0 <= dy < 4 ->
  visb F (idx_of w x (k + dy)) = false /\ sigb F (idx_of w x (k + dy)) = false.
Proof.
  intros F w x k H dy Hdy. unfold rl_ok in H.
  assert (G : forall y, rl_sample_ok F w x y = true -> visb F (idx_of w x y) = false /\ sigb F (idx_of w x y) = false).
  { intros y Hy. unfold rl_sample_ok in Hy. cbv zeta in Hy. apply andb_true_iff in Hy. destruct Hy as [H1 H2].
    apply negb_true_iff in H1, H2. apply orb_false_iff in H2. destruct H2 as [H2 _]. split; assumption. }
  apply andb_true_iff in H. destruct H as [H H3]. apply andb_true_iff in H. destruct H as [H H2].
  apply andb_true_iff in H. destruct H as [H0 H1].
  assert (C : dy = 0 \/ dy = 1 \/ dy = 2 \/ dy = 3) by lia.
  destruct C as [->|[->|[->| ->]]]; [replace (k + 0) with k by lia|..]; apply G; assumption.
Qed.

Lemma rl_pos_range : forall V w bp x k, rl_pos V w bp x k <? 0 = false -> 0 <= rl_pos V w bp x k <= 3.
Proof.
  intros V w bp x k. unfold rl_pos.
  destruct (negb _); [lia|]. destruct (negb _); [lia|]. destruct (negb _); [lia|]. destruct (negb _); [lia|].
  intro H. discriminate H.
Qed.

Lemma cup_col_frame : forall w h orient bp V k n x F x' y',
  0 <= x < w -> 0 <= x' < w -> 0 <= k -> 0 <= y' -> Z.of_nat n <= 4 -> (x' <> x \/ y' < k \/ k + 4 <= y') ->
  bits (fst (enc_cup_col w h orient bp V k n x F)) (idx_of w x' y') = bits F (idx_of w x' y').
Proof.
  intros w h orient bp V k n x F x' y' Hx Hx' Hk Hy' Hn Hout. unfold enc_cup_col.
  assert (Hs : forall dy st, 0 <= dy < 4 ->
            bits (fst (fst (enc_cup_sample w orient bp V x (k + dy) st))) (idx_of w x' y') = bits (fst st) (idx_of w x' y')).
  { intros dy st Hdy. apply cup_frame. apply key_idx_neq; try lia. pair_neq. }
  destruct ((k + 3 <? h) && rl_ok F w x k).
  - destruct (rl_pos V w bp x k <? 0) eqn:Epos; [reflexivity|]. apply rl_pos_range in Epos.
    pose proof (loop_e_obs (fun st : tree * bool => bits (fst st) (idx_of w x' y'))
                  (fun dy => enc_cup_sample w orient bp V x (k + dy)) (Z.to_nat (4 - rl_pos V w bp x k))
                  (rl_pos V w bp x k) (F, true)) as Ho.
    cbv beta in Ho. destruct (loop_e _ _ _ _) as [st o]. cbn [fst] in *. apply Ho.
    intros j s' Hj. apply Hs. lia.
  - pose proof (loop_e_obs (fun st : tree * bool => bits (fst st) (idx_of w x' y'))
                  (fun dy => enc_cup_sample w orient bp V x (k + dy)) n 0 (F, false)) as Ho.
    cbv beta in Ho. destruct (loop_e _ _ _ _) as [st o]. cbn [fst] in *. apply Ho.
    intros j s' Hj. apply Hs. lia.
Qed.

Section CupCol.
Variables (w orient bp : Z) (V : tree) (x k : Z).
Hypothesis Hx : 0 <= x < w.
Hypothesis Hk : 0 <= k.

Let fs := fun dy => enc_cup_sample w orient bp V x (k + dy).
Let cmb := fun (st : tree * bool) dy => t2v (fst st) (idx_of w x (k + dy)) + gs (fst st) (idx_of w x (k + dy)).
Let cma := fun (st : tree * bool) dy => gs (fst st) (idx_of w x (k + dy)).

Lemma cup_step : forall j st, 0 <= j < 4 -> snd st = false ->
  snd (fst (fs j st)) = false /\ zlen (snd (fs j st)) + cma (fst (fs j st)) j <= cmb st j /\
  (forall j', 0 <= j' < 4 -> j' <> j -> cmb (fst (fs j st)) j' = cmb st j' /\ cma (fst (fs j st)) j' = cma st j').
Proof.
  intros j [F p] Hj Hp. cbn [snd] in Hp. subst p. unfold fs, cmb, cma.
  destruct (cup_local w orient bp V x (k + j) F) as [E1 E2].
  split; [exact E1|]. split; [cbn [fst]; exact E2|].
  intros j' Hj' Hne.
  assert (Eb : bits (fst (fst (enc_cup_sample w orient bp V x (k + j) (F, false)))) (idx_of w x (k + j')) = bits F (idx_of w x (k + j'))).
  { apply (cup_frame w orient bp V x (k + j) (F, false)). apply key_idx_neq; try lia. pair_neq. }
  destruct (bits_pots _ _ _ Eb) as (-> & _ & ->). cbn [fst]. auto.
Qed.

Lemma cup_col_local : forall h n F, Z.of_nat n <= 4 -> (k + 3 < h -> n = 4%nat) ->
  zlen (snd (enc_cup_col w h orient bp V k n x F)) +
  zsum n 0 (fun dy => gs (fst (enc_cup_col w h orient bp V k n x F)) (idx_of w x (k + dy)))
    <= zsum n 0 (fun dy => t2v F (idx_of w x (k + dy)) + gs F (idx_of w x (k + dy))).
Proof.
  intros h n F Hn Hfull. unfold enc_cup_col.
  destruct (Z.ltb_spec (k + 3) h) as [Hlt|Hge]; cbn [andb].
  2:{ (* no run-length mode in a short stripe *)
    destruct (loop_e_pot_aux (fun st : tree * bool => snd st = false) cmb cma fs 0 4 cup_step n 0 (F, false)
                ltac:(lia) ltac:(lia) eq_refl) as (_ & _ & Hl).
    fold fs. destruct (loop_e n 0 fs (F, false)) as [st o]. cbn [fst snd] in *. exact Hl. }
  destruct (rl_ok F w x k) eqn:Erl.
  2:{ destruct (loop_e_pot_aux (fun st : tree * bool => snd st = false) cmb cma fs 0 4 cup_step n 0 (F, false)
                ltac:(lia) ltac:(lia) eq_refl) as (_ & _ & Hl).
    fold fs. destruct (loop_e n 0 fs (F, false)) as [st o]. cbn [fst snd] in *. exact Hl. }
  (* run-length mode: the four samples are fresh *)
  rewrite (Hfull Hlt).
  pose proof (rl_ok_bits F w x k Erl) as Hfresh.
  assert (Erhs : zsum 4 0 (fun dy => t2v F (idx_of w x (k + dy)) + gs F (idx_of w x (k + dy))) = 16).
  { rewrite (zsum_ext 4 0 _ (fun _ => 4)); [reflexivity|]. intros j Hj. destruct (Hfresh j ltac:(lia)) as [Ev Es].
    unfold t2v, gs. rewrite Ev, Es. reflexivity. }
  rewrite Erhs.
  destruct (rl_pos V w bp x k <? 0) eqn:Epos; cbn [fst snd].
  - rewrite (zsum_ext 4 0 _ (fun _ => 3)); [cbn; lia|]. intros j Hj. destruct (Hfresh j ltac:(lia)) as [_ Es].
    unfold gs. rewrite Es. reflexivity.
  - apply rl_pos_range in Epos. set (pos := rl_pos V w bp x k) in *.
    replace (Z.to_nat (4 - pos)) with (S (Z.to_nat (3 - pos))) by lia.
    fold fs. cbn [loop_e].
    destruct (Hfresh pos ltac:(lia)) as [Evp Esp].
    destruct (cup_local_partial w orient bp V x (k + pos) F Evp Esp) as [Ep1 Ep2].
    assert (E0 : t2v F (idx_of w x (k + pos)) + gs F (idx_of w x (k + pos)) = 4)
      by (unfold t2v, gs; rewrite Evp, Esp; reflexivity).
    rewrite E0 in Ep2.
    assert (Efr1 : forall j, 0 <= j < 4 -> j <> pos ->
              bits (fst (fst (fs pos (F, true)))) (idx_of w x (k + j)) = bits F (idx_of w x (k + j))).
    { intros j Hj Hne. apply (cup_frame w orient bp V x (k + pos) (F, true)). apply key_idx_neq; try lia.
      pair_neq. }
    change (enc_cup_sample w orient bp V x (k + pos) (F, true)) with (fs pos (F, true)) in Ep1, Ep2.
    destruct (fs pos (F, true)) as [st1 o1]. cbn [fst snd] in *.
    destruct (loop_e_pot_aux (fun st : tree * bool => snd st = false) cmb cma fs 0 4 cup_step (Z.to_nat (3 - pos)) (pos + 1) st1
                ltac:(lia) ltac:(lia) Ep1) as (_ & Hf2 & Hl2).
    destruct (loop_e (Z.to_nat (3 - pos)) (pos + 1) fs st1) as [st2 o2]. cbn [fst snd] in *.
    replace 4%nat with (Z.to_nat pos + S (Z.to_nat (3 - pos)))%nat by lia.
    rewrite zsum_app. cbn [zsum]. replace (0 + Z.of_nat (Z.to_nat pos)) with pos by lia.
    (* rows above the run end: untouched, still 3 each *)
    assert (E1 : zsum (Z.to_nat pos) 0 (fun dy => gs (fst st2) (idx_of w x (k + dy))) = 3 * pos).
    { rewrite (zsum_ext _ 0 _ (fun _ => 3)); [rewrite zsum_const; lia|]. intros j Hj.
      destruct (Hf2 j ltac:(lia) ltac:(lia)) as [_ E]. unfold cma in E. rewrite E.
      destruct (bits_pots _ _ _ (Efr1 j ltac:(lia) ltac:(lia))) as (-> & _ & _).
      destruct (Hfresh j ltac:(lia)) as [_ Es]. unfold gs. rewrite Es. reflexivity. }
    (* the run end itself *)
    destruct (Hf2 pos ltac:(lia) ltac:(lia)) as [_ E2]. unfold cma in E2.
    (* rows below: fresh when the loop reaches them *)
    assert (E3 : zsum (Z.to_nat (3 - pos)) (pos + 1) (cmb st1) = 4 * (3 - pos)).
    { rewrite (zsum_ext _ (pos + 1) _ (fun _ => 4)); [rewrite zsum_const; lia|]. intros j Hj. unfold cmb.
      destruct (bits_pots _ _ _ (Efr1 j ltac:(lia) ltac:(lia))) as (-> & _ & ->).
      destruct (Hfresh j ltac:(lia)) as [Ev Es]. unfold t2v, gs. rewrite Ev, Es. reflexivity. }
    unfold cma in Hl2. rewrite E1, E2. rewrite E3 in Hl2.
    rewrite !zlen_cons, zlen_app_c. pose proof (zlen_nonneg_c o1). pose proof (zlen_nonneg_c o2).
    pose proof (gs_nonneg (fst st1) (idx_of w x (k + pos))).
    lia.
Qed.
End CupCol.

(* ---------- a whole pass: stripes x columns ---------- *)
Definition SA (wn : nat) (h : Z) (g : Z -> Z) : Z :=
  zsum (nstripes h) 0 (fun s => zsum wn 0 (fun x =>
    zsum (stripe_rows h s) 0 (fun dy => g (idx_of (Z.of_nat wn) x (4 * s + dy))))).

Lemma stripe_rows_le4 : forall h s, Z.of_nat (stripe_rows h s) <= 4.
Proof. intros. unfold stripe_rows. lia. Qed.

Lemma stripe_rows_full : forall h s, 4 * s + 3 < h -> stripe_rows h s = 4%nat.
Proof. intros. unfold stripe_rows. lia. Qed.

Section Outer.
Variables (wn : nat) (h : Z) (col : Z -> Z -> tree -> tree * list sym) (pb pa : tree -> Z -> Z).
Let w := Z.of_nat wn.
Hypothesis Hpots : forall F F' j, bits F' j = bits F j -> pb F' j = pb F j /\ pa F' j = pa F j.
Hypothesis Hloc : forall s x F, 0 <= s -> 0 <= x < w ->
  zlen (snd (col s x F)) + zsum (stripe_rows h s) 0 (fun dy => pa (fst (col s x F)) (idx_of w x (4 * s + dy)))
    <= zsum (stripe_rows h s) 0 (fun dy => pb F (idx_of w x (4 * s + dy))).
Hypothesis Hfr : forall s x F x' y', 0 <= s -> 0 <= x < w -> 0 <= x' < w -> 0 <= y' ->
  (x' <> x \/ y' < 4 * s \/ 4 * s + 4 <= y') ->
  bits (fst (col s x F)) (idx_of w x' y') = bits F (idx_of w x' y').

Let colb := fun s (F : tree) x => zsum (stripe_rows h s) 0 (fun dy => pb F (idx_of w x (4 * s + dy))).
Let cola := fun s (F : tree) x => zsum (stripe_rows h s) 0 (fun dy => pa F (idx_of w x (4 * s + dy))).

Lemma mid_frame : forall s F x' y', 0 <= s -> 0 <= x' < w -> 0 <= y' -> (y' < 4 * s \/ 4 * s + 4 <= y') ->
  bits (fst (loop_e wn 0 (fun x => col s x) F)) (idx_of w x' y') = bits F (idx_of w x' y').
Proof.
  intros s F x' y' Hs Hx' Hy' Hout.
  apply (loop_e_obs (fun F0 : tree => bits F0 (idx_of w x' y'))).
  intros j F0 Hj. apply Hfr; lia.
Qed.

Lemma mid_pot : forall s F, 0 <= s ->
  zlen (snd (loop_e wn 0 (fun x => col s x) F)) + zsum wn 0 (cola s (fst (loop_e wn 0 (fun x => col s x) F)))
    <= zsum wn 0 (colb s F).
Proof.
  intros s F Hs.
  assert (Hstep : forall j F0, 0 <= j < w -> True ->
    True /\ zlen (snd (col s j F0)) + cola s (fst (col s j F0)) j <= colb s F0 j /\
    (forall j', 0 <= j' < w -> j' <> j ->
       colb s (fst (col s j F0)) j' = colb s F0 j' /\ cola s (fst (col s j F0)) j' = cola s F0 j')).
  { intros j F0 Hj _. split; [exact I|]. split; [apply Hloc; lia|].
    intros j' Hj' Hne. pose proof (stripe_rows_le4 h s).
    unfold colb, cola. split; apply zsum_ext; intros dy Hdy; apply Hpots; apply Hfr; lia. }
  destruct (loop_e_pot_aux (fun _ : tree => True) (colb s) (cola s) (fun x => col s x) 0 w Hstep wn 0 F
              ltac:(lia) ltac:(unfold w; lia) I) as (_ & _ & Hl).
  exact Hl.
Qed.

Lemma outer_pot : forall F,
  zlen (snd (loop_e (nstripes h) 0 (fun s => loop_e wn 0 (fun x => col s x)) F)) +
  SA wn h (pa (fst (loop_e (nstripes h) 0 (fun s => loop_e wn 0 (fun x => col s x)) F)))
    <= SA wn h (pb F).
Proof.
  intros F. unfold SA. fold w.
  set (ob := fun (F0 : tree) s => zsum wn 0 (colb s F0)). set (oa := fun (F0 : tree) s => zsum wn 0 (cola s F0)).
  set (fo := fun s => loop_e wn 0 (fun x => col s x)).
  assert (Hstep : forall s F0, 0 <= s < Z.of_nat (nstripes h) -> True ->
    True /\ zlen (snd (fo s F0)) + oa (fst (fo s F0)) s <= ob F0 s /\
    (forall s', 0 <= s' < Z.of_nat (nstripes h) -> s' <> s ->
       ob (fst (fo s F0)) s' = ob F0 s' /\ oa (fst (fo s F0)) s' = oa F0 s')).
  { intros s F0 Hs _. split; [exact I|]. split; [apply mid_pot; lia|].
    intros s' Hs' Hne. pose proof (stripe_rows_le4 h s').
    unfold ob, oa, colb, cola, fo. split; apply zsum_ext; intros x Hx; apply zsum_ext; intros dy Hdy;
      apply Hpots; apply mid_frame; lia. }
  destruct (loop_e_pot_aux (fun _ : tree => True) ob oa fo 0 (Z.of_nat (nstripes h)) Hstep (nstripes h) 0 F
              ltac:(lia) ltac:(lia) I) as (_ & _ & Hl).
  exact Hl.
Qed.
End Outer.

(* passes whose column step is a loop over the rows of the stripe *)
Section Samp.
Variables (wn : nat) (h : Z) (samp : Z -> Z -> tree -> tree * list sym) (pb pa : tree -> Z -> Z).
Let w := Z.of_nat wn.
Hypothesis Hpots : forall F F' j, bits F' j = bits F j -> pb F' j = pb F j /\ pa F' j = pa F j.
Hypothesis Hsloc : forall x y F,
  zlen (snd (samp x y F)) + pa (fst (samp x y F)) (idx_of w x y) <= pb F (idx_of w x y).
Hypothesis Hsfr : forall x y F j, Pos.eqb (key j) (key (idx_of w x y)) = false -> bits (fst (samp x y F)) j = bits F j.

Let col := fun s x => loop_e (stripe_rows h s) 0 (fun dy => samp x (4 * s + dy)).

Lemma samp_col_fr : forall s x F x' y', 0 <= s -> 0 <= x < w -> 0 <= x' < w -> 0 <= y' ->
  (x' <> x \/ y' < 4 * s \/ 4 * s + 4 <= y') ->
  bits (fst (col s x F)) (idx_of w x' y') = bits F (idx_of w x' y').
Proof.
  intros s x F x' y' Hs Hx Hx' Hy' Hout. unfold col.
  apply (loop_e_obs (fun F0 : tree => bits F0 (idx_of w x' y'))).
  intros j F0 Hj. apply Hsfr. pose proof (stripe_rows_le4 h s). apply key_idx_neq; try lia.
  pair_neq.
Qed.

Lemma samp_col_loc : forall s x F, 0 <= s -> 0 <= x < w ->
  zlen (snd (col s x F)) + zsum (stripe_rows h s) 0 (fun dy => pa (fst (col s x F)) (idx_of w x (4 * s + dy)))
    <= zsum (stripe_rows h s) 0 (fun dy => pb F (idx_of w x (4 * s + dy))).
Proof.
  intros s x F Hs Hx. unfold col.
  set (sb := fun (F0 : tree) dy => pb F0 (idx_of w x (4 * s + dy))).
  set (sa := fun (F0 : tree) dy => pa F0 (idx_of w x (4 * s + dy))).
  set (fsm := fun dy => samp x (4 * s + dy)).
  assert (Hstep : forall j F0, 0 <= j < 4 -> True ->
    True /\ zlen (snd (fsm j F0)) + sa (fst (fsm j F0)) j <= sb F0 j /\
    (forall j', 0 <= j' < 4 -> j' <> j -> sb (fst (fsm j F0)) j' = sb F0 j' /\ sa (fst (fsm j F0)) j' = sa F0 j')).
  { intros j F0 Hj _. split; [exact I|]. split; [apply Hsloc|].
    intros j' Hj' Hne. unfold sb, sa, fsm. apply Hpots. apply Hsfr. apply key_idx_neq; try lia.
    pair_neq. }
  pose proof (stripe_rows_le4 h s) as H4.
  destruct (loop_e_pot_aux (fun _ : tree => True) sb sa fsm 0 4 Hstep (stripe_rows h s) 0 F
              ltac:(lia) ltac:(lia) I) as (_ & _ & Hl).
  exact Hl.
Qed.

Lemma samp_pass : forall F,
  zlen (snd (loop_e (nstripes h) 0 (fun s => loop_e wn 0 (fun x =>
          loop_e (stripe_rows h s) 0 (fun dy => samp x (4 * s + dy)))) F)) +
  SA wn h (pa (fst (loop_e (nstripes h) 0 (fun s => loop_e wn 0 (fun x =>
          loop_e (stripe_rows h s) 0 (fun dy => samp x (4 * s + dy)))) F)))
    <= SA wn h (pb F).
Proof. intros F. exact (outer_pot wn h col pb pa Hpots samp_col_loc samp_col_fr F). Qed.
End Samp.

(* potential before / after a pass of type pt *)
Definition pb_of (pt : Z) (F : tree) (j : Z) : Z :=
  if pt =? 0 then 1 + gs F j else if pt =? 1 then t1v F j + gs F j else t2v F j + gs F j.
Definition pa_of (pt : Z) (F : tree) (j : Z) : Z :=
  if pt =? 0 then t1v F j + gs F j else if pt =? 1 then t2v F j + gs F j else gs F j.

Theorem enc_pass_count : forall wn hn orient style bp pt raw V F, Z.land style CblkStyleSegsym = 0 ->
  zlen (snd (enc_pass wn hn orient style bp pt raw V F)) +
  SA wn (Z.of_nat hn) (pa_of pt (fst (enc_pass wn hn orient style bp pt raw V F)))
    <= SA wn (Z.of_nat hn) (pb_of pt F).
Proof.
  intros wn hn orient style bp pt raw V F Hseg. unfold enc_pass, pb_of, pa_of. cbv zeta.
  destruct (pt =? 0).
  { apply (samp_pass wn (Z.of_nat hn) (enc_spp_sample (Z.of_nat wn) orient bp raw V)
             (fun F j => 1 + gs F j) (fun F j => t1v F j + gs F j)).
    - intros F0 F' j E. destruct (bits_pots _ _ _ E) as (-> & -> & _). auto.
    - intros x y F0. apply spp_local.
    - intros x y F0 j E. apply spp_frame. exact E. }
  destruct (pt =? 1).
  { apply (samp_pass wn (Z.of_nat hn) (enc_mrp_sample (Z.of_nat wn) bp raw V)
             (fun F j => t1v F j + gs F j) (fun F j => t2v F j + gs F j)).
    - intros F0 F' j E. destruct (bits_pots _ _ _ E) as (-> & -> & ->). auto.
    - intros x y F0. apply mrp_local.
    - intros x y F0 j E. apply mrp_frame. exact E. }
  rewrite Hseg. change (negb (0 =? 0)) with false. cbv iota.
  pose proof (outer_pot wn (Z.of_nat hn)
                (fun s x => enc_cup_col (Z.of_nat wn) (Z.of_nat hn) orient bp V (4 * s) (stripe_rows (Z.of_nat hn) s) x)
                (fun F j => t2v F j + gs F j) (fun F j => gs F j)) as Ho.
  cbv beta in Ho.
  match type of Ho with ?A -> ?B -> ?C -> _ => assert (H1 : A); [|assert (H2 : B); [|assert (H3 : C)]] end.
  - intros F0 F' j E. destruct (bits_pots _ _ _ E) as (-> & _ & ->). auto.
  - intros s x F0 Hs Hx. apply cup_col_local; try lia; [apply stripe_rows_le4|].
    intro Hlt. apply stripe_rows_full. lia.
  - intros s x F0 x' y' Hs Hx Hx' Hy' Hout. apply cup_col_frame; try lia. apply stripe_rows_le4.
  - specialize (Ho H1 H2 H3 F).
    destruct (loop_e _ _ _ _) as [F1 o]. cbn [fst snd] in *. exact Ho.
Qed.

(* ---------- closed forms ---------- *)
Lemma sum_rows_aux : forall h n i, 0 <= i -> 4 * (i + Z.of_nat n) <= h + 3 ->
  zsum n i (fun s => Z.of_nat (stripe_rows h s)) = Z.min h (4 * (i + Z.of_nat n)) - Z.min h (4 * i).
Proof.
  intros h n. induction n as [|n IH]; intros i Hi Hb; cbn [zsum].
  - replace (i + Z.of_nat 0) with i by lia. lia.
  - rewrite IH by lia. unfold stripe_rows. lia.
Qed.

Lemma sum_rows : forall h, 0 <= h -> zsum (nstripes h) 0 (fun s => Z.of_nat (stripe_rows h s)) = h.
Proof.
  intros h Hh. unfold nstripes.
  pose proof (Z.div_mod (h + 3) 4 ltac:(lia)) as Hd. pose proof (Z.mod_pos_bound (h + 3) 4 ltac:(lia)) as Hm.
  assert (Hq : 0 <= (h + 3) / 4) by (apply Z.div_pos; lia).
  rewrite sum_rows_aux by lia. lia.
Qed.

Lemma SA_const : forall wn h c, 0 <= h -> SA wn h (fun _ => c) = c * (Z.of_nat wn * h).
Proof.
  intros wn h c Hh. unfold SA.
  rewrite (zsum_ext _ 0 _ (fun s => (c * Z.of_nat wn) * Z.of_nat (stripe_rows h s))).
  - rewrite zsum_scale, sum_rows by exact Hh. ring.
  - intros s _. rewrite (zsum_ext wn 0 _ (fun _ => c * Z.of_nat (stripe_rows h s))) by (intros; apply zsum_const).
    rewrite zsum_const. ring.
Qed.

Lemma SA_ext : forall wn h f g, (forall j, f j = g j) -> SA wn h f = SA wn h g.
Proof. intros wn h f g H. unfold SA. apply zsum_ext. intros s _. apply zsum_ext. intros x _. apply zsum_ext. intros dy _. apply H. Qed.

Lemma SA_add : forall wn h f g, SA wn h (fun j => f j + g j) = SA wn h f + SA wn h g.
Proof.
  intros wn h f g. unfold SA. rewrite <- zsum_add. apply zsum_ext. intros s _.
  rewrite <- zsum_add. apply zsum_ext. intros x _. rewrite <- zsum_add. reflexivity.
Qed.

Lemma SA_nonneg : forall wn h g, (forall j, 0 <= g j) -> 0 <= SA wn h g.
Proof. intros wn h g H. unfold SA. apply zsum_nonneg. intros s. apply zsum_nonneg. intros x. apply zsum_nonneg. intros dy. apply H. Qed.

Lemma t1v_nonneg : forall F j, 0 <= t1v F j. Proof. intros. unfold t1v. destruct (visb F j); lia. Qed.
Lemma t2v_nonneg : forall F j, 0 <= t2v F j. Proof. intros. unfold t2v. destruct (visb F j || sigb F j); lia. Qed.

Lemma pa_of_nonneg : forall pt F j, 0 <= pa_of pt F j.
Proof.
  intros. unfold pa_of. pose proof (gs_nonneg F j). pose proof (t1v_nonneg F j). pose proof (t2v_nonneg F j).
  destruct (pt =? 0); [lia|]. destruct (pt =? 1); lia.
Qed.

(* ---------- the pass sequence ---------- *)
Fixpoint total (l : list (list sym)) : Z := match l with [] => 0 | o :: r => zlen o + total r end.
Fixpoint nspp (pl : list (Z * Z)) : Z :=
  match pl with [] => 0 | q :: r => (if snd q =? 0 then 1 else 0) + nspp r end.

Lemma total_concat : forall l, total l = zlen (concat l).
Proof. induction l as [|o r IH]; cbn [total concat]; [reflexivity|]. rewrite zlen_app_c, IH. reflexivity. Qed.

Lemma enc_passes_count : forall wn hn orient style maxbp V r bp pt first F,
  Z.land style CblkStyleSegsym = 0 -> chain bp pt ((bp, pt) :: r) ->
  total (enc_passes wn hn orient style maxbp V ((bp, pt) :: r) first F)
    <= SA wn (Z.of_nat hn) (pb_of pt (if start_bitplane pt first then clear_visit F else F)) +
       Z.of_nat wn * Z.of_nat hn * nspp r.
Proof.
  intros wn hn orient style maxbp V r. induction r as [|[b' p'] r' IH]; intros bp pt first F Hseg Hc.
  - cbn [enc_passes].
    pose proof (enc_pass_count wn hn orient style bp pt (is_lazy_raw bp maxbp pt style) V
                  (if start_bitplane pt first then clear_visit F else F) Hseg) as Hp.
    destruct (enc_pass _ _ _ _ _ _ _ _ _) as [F1 o]. cbn [fst snd total nspp] in *.
    pose proof (SA_nonneg wn (Z.of_nat hn) (pa_of pt F1) (pa_of_nonneg pt F1)). lia.
  - cbn [chain] in Hc. destruct Hc as (_ & _ & Hbp & Hpt & Hc).
    pose proof Hc as Hc2. cbn [chain] in Hc2. destruct Hc2 as (Eb & Ep & _).
    change (enc_passes wn hn orient style maxbp V ((bp, pt) :: (b', p') :: r') first F)
      with (let F0 := if start_bitplane pt first then clear_visit F else F in
            let '(F1, o) := enc_pass wn hn orient style bp pt (is_lazy_raw bp maxbp pt style) V F0 in
            o :: enc_passes wn hn orient style maxbp V ((b', p') :: r') false F1).
    cbv zeta.
    pose proof (enc_pass_count wn hn orient style bp pt (is_lazy_raw bp maxbp pt style) V
                  (if start_bitplane pt first then clear_visit F else F) Hseg) as Hp.
    destruct (enc_pass _ _ _ _ _ _ _ _ _) as [F1 o]. cbn [fst snd] in Hp.
    cbn [total]. subst b' p'.
    pose proof (IH (next_bp bp pt) (next_pt pt) false F1 Hseg Hc) as Hr.
    cbn [nspp snd].
    assert (Hlink : SA wn (Z.of_nat hn) (pb_of (next_pt pt) (if start_bitplane (next_pt pt) false then clear_visit F1 else F1))
                    <= SA wn (Z.of_nat hn) (pa_of pt F1) +
                       Z.of_nat wn * Z.of_nat hn * (if next_pt pt =? 0 then 1 else 0)).
    { destruct Hpt as [->|[->| ->]].
      - change (next_pt 0) with 1. change (start_bitplane 1 false) with false. cbv iota.
        change (1 =? 0) with false. cbv iota.
        rewrite (SA_ext _ _ (pb_of 1 F1) (pa_of 0 F1)) by (intros; reflexivity). lia.
      - change (next_pt 1) with 2. change (start_bitplane 2 false) with false. cbv iota.
        change (2 =? 0) with false. cbv iota.
        rewrite (SA_ext _ _ (pb_of 2 F1) (pa_of 1 F1)) by (intros; reflexivity). lia.
      - change (next_pt 2) with 0. change (start_bitplane 0 false) with true. cbv iota.
        change (0 =? 0) with true. cbv iota.
        rewrite (SA_ext _ _ (pb_of 0 (clear_visit F1)) (fun j => 1 + pa_of 2 F1 j)).
        + rewrite (SA_add _ _ (fun _ => 1) (pa_of 2 F1)). rewrite SA_const by lia. lia.
        + intros j. unfold pb_of, pa_of. change (0 =? 0) with true. change (2 =? 0) with false. change (2 =? 1) with false.
          cbv iota. unfold gs. destruct (clear_visit_self F1 j) as (-> & _ & _). reflexivity. }
    nia.
Qed.

Lemma nspp_planes : forall n k top,
  nspp (flat_map (fun i => let b := top - Z.of_nat i in [(b, 0); (b, 1); (b, 2)]) (seq k n)) = Z.of_nat n.
Proof.
  induction n as [|n IH]; intros k top; [reflexivity|].
  cbn [seq flat_map app nspp snd]. cbv zeta. cbn [app nspp snd].
  change (0 =? 0) with true. change (1 =? 0) with false. change (2 =? 0) with false. cbv iota.
  rewrite IH. lia.
Qed.

(* The complete pass list of a block whose top plane is maxbp and lowest coded plane is low:
   at most w*h*(planes + 3) symbols, planes = maxbp - low + 1. *)
Theorem enc_syms_count : forall wn hn orient style maxbp low V,
  Z.land style CblkStyleSegsym = 0 -> 0 <= low <= maxbp -> maxbp <= 30 ->
  zlen (concat (enc_passes wn hn orient style maxbp V (all_passes maxbp low) true Leaf))
    <= Z.of_nat wn * Z.of_nat hn * (maxbp - low + 1 + 3).
Proof.
  intros wn hn orient style maxbp low V Hseg Hl H30.
  rewrite <- total_concat.
  pose proof (chain_all_passes maxbp low Hl H30) as Hc.
  unfold all_passes in *.
  pose proof (enc_passes_count wn hn orient style maxbp V _ maxbp 2 true Leaf Hseg Hc) as H.
  change (start_bitplane 2 true) with true in H. cbv iota in H.
  assert (E4 : SA wn (Z.of_nat hn) (pb_of 2 (clear_visit Leaf)) = 4 * (Z.of_nat wn * Z.of_nat hn)).
  { rewrite (SA_ext _ _ _ (fun _ => 4)); [apply SA_const; lia|].
    intros j. unfold pb_of. change (2 =? 0) with false. change (2 =? 1) with false. cbv iota.
    unfold t2v, gs. destruct (clear_visit_self Leaf j) as (-> & -> & _).
    unfold sigb. rewrite fget_leaf. reflexivity. }
  rewrite E4 in H.
  pose proof (nspp_planes (Z.to_nat (maxbp - low)) 0 (maxbp - 1)) as En.
  cbv zeta in En, H |- *. rewrite En in H. nia.
Qed.
