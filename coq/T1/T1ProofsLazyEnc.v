(* LAZY (selective arithmetic bypass) together with TERMALL: every coding pass is its own
   segment, an MQ codeword or a run of raw bits.  What the encoder model writes. *)
From V Require Import Common.Base MQ.MqModel MQ.MqProofs MQ.MqProofsDec MQ.MqProofsRt MQ.MqProofsRt2 MQ.MqProofsTerm MQ.MqProofsSeg.
From V Require Import T1.T1Store T1.T1Ctx T1.T1CtxProofs T1.T1Model T1.T1Bytes T1.T1ProofsBase
  T1.T1ProofsSeq T1.T1ProofsSim T1.T1ProofsMqRt T1.T1ProofsComp T1.T1ProofsCompThm T1.T1ProofsRestart T1.T1ProofsTermEnc.

Definition lazyterm_style (style : Z) : Prop := Z.land style CblkStyleTermAll <> 0.

Lemma lazyterm_term : forall style bp maxbp pt, lazyterm_style style -> is_terminating bp maxbp pt style = true.
Proof.
  intros style bp maxbp pt H. unfold is_terminating.
  replace (negb (Z.land style CblkStyleTermAll =? 0)) with true by (symmetry; apply negb_true_iff; apply Z.eqb_neq; exact H).
  destruct ((pt =? 2) && (bp =? 0)); reflexivity.
Qed.

(* ---------- raw passes ---------- *)
Definition bits_of (l : list sym) : list Z := map snd l.

Lemma enc_syms_o_raw : forall l e, Forall sym_raw l ->
  enc_syms_o e l = Ok (fold_left enc_bypass_encode (bits_of l) e).
Proof.
  induction l as [|[[k c] b] t IH]; intros e Hl; cbn [enc_syms_o bits_of map fold_left]; [reflexivity|].
  pose proof (Forall_inv Hl) as (Hk & _ & _). cbn [fst snd] in Hk. subst k.
  unfold enc_sym_o. change (1 =? 0) with false. cbv iota. cbn [obind snd].
  apply IH. exact (Forall_inv_tail Hl).
Qed.

Lemma bits_of_01 : forall l, Forall sym_raw l -> Forall (fun b => b = 0 \/ b = 1) (bits_of l).
Proof.
  intros l H. unfold bits_of. apply Forall_map. eapply Forall_impl; [|exact H].
  intros [[k c] b] (_ & _ & Hb). exact Hb.
Qed.

Lemma bypass_encode_cx : forall e b, e_cx (enc_bypass_encode e b) = e_cx e.
Proof. intros. unfold enc_bypass_encode. cbv zeta. destruct (_ =? 0); reflexivity. Qed.

Lemma bypass_fold_cx : forall bits e, e_cx (fold_left enc_bypass_encode bits e) = e_cx e.
Proof.
  induction bits as [|b t IH]; intros e; cbn [fold_left]; [reflexivity|]. rewrite IH. apply bypass_encode_cx.
Qed.

Lemma bypass_flush_cx : forall e erterm, e_cx (enc_bypass_flush e erterm) = e_cx e.
Proof.
  intros e erterm. unfold enc_bypass_flush.
  destruct (_ || _).
  - destruct (bypass_pad 8 (e_ct e) (e_c e) 0). reflexivity.
  - destruct (_ && _).
    + destruct erterm; [reflexivity|]. destruct (e_pre e); reflexivity.
    + destruct (e_pre e) as [|x1 [|x2 p]]; try reflexivity. destruct (_ && _); reflexivity.
Qed.

Lemma no_trailing_ff_last : forall (seg : list Z), (forall l1, seg <> l1 ++ [255]) -> last seg 0 <> 255.
Proof.
  intros seg H. destruct seg as [|x s] using rev_ind; [cbn; lia|].
  rewrite last_last. intro E. subst x. apply (H s). reflexivity.
Qed.

Lemma buf_ok_raw_app : forall seg base, buf_ok base -> hd 0 base <> 255 ->
  Forall is_byteP seg -> (forall l1 y l2, seg = l1 ++ 255 :: y :: l2 -> y < 0x80) ->
  buf_ok (rev seg ++ base).
Proof.
  intros seg. induction seg as [|x s IH] using rev_ind; intros base Hb Hh Hbytes Hnm; [exact Hb|].
  rewrite rev_app_distr. cbn [rev app].
  apply Forall_app in Hbytes. destruct Hbytes as [Hbs Hbx].
  apply buf_ok_cons.
  - exact (Forall_inv Hbx).
  - intros H255. destruct s as [|z s'] using rev_ind.
    + cbn in H255. contradiction.
    + rewrite rev_app_distr in H255. cbn [rev app hd] in H255. subst z.
      specialize (Hnm s' x [] ltac:(rewrite <- app_assoc; reflexivity)). change 0x80 with 128 in Hnm. lia.
  - apply IH; auto. intros l1 y l2 E. apply (Hnm l1 y (l2 ++ [x])). rewrite E. rewrite <- !app_assoc. reflexivity.
Qed.

Lemma raw_pass_step : forall (pterm : bool) e data0 ss, TI e -> e_pre e = rev data0 ++ [0] -> last data0 0 <> 255 ->
  Forall sym_raw ss ->
  let e3 := enc_bypass_flush (fold_left enc_bypass_encode (bits_of ss) (enc_bypass_init e)) pterm in
  exists seg, e_pre e3 = rev (data0 ++ seg) ++ [0] /\ last seg 0 <> 255 /\
    (exists r', raw_decode_n (length ss) (raw_new seg) = Ok (r', bits_of ss)) /\
    e_cx e3 = e_cx e /\ (exists h P, e_pre e3 = h :: P /\ h <> 255 /\ buf_ok (h :: P)).
Proof.
  intros pterm e data0 ss HTI Hpre Hl0 Hss e3.
  pose proof HTI as (h & P & E & Hh & Hb & Hcx).
  destruct (raw_segment e (bits_of ss) pterm (bits_of_01 ss Hss) ltac:(rewrite E; discriminate) ltac:(rewrite E; exact Hh))
    as (seg & r' & Epre3 & Edec & Hbytes & Hnm & Hnt).
  cbv zeta in Epre3. fold e3 in Epre3.
  exists seg.
  assert (Hls : last seg 0 <> 255) by (apply no_trailing_ff_last; exact Hnt).
  assert (Hpre3 : e_pre e3 = rev (data0 ++ seg) ++ [0]).
  { rewrite Epre3, Hpre, rev_app_distr, app_assoc. reflexivity. }
  split; [exact Hpre3|]. split; [exact Hls|].
  split; [exists r'; unfold bits_of in *; rewrite map_length in Edec; exact Edec|].
  split; [unfold e3; rewrite bypass_flush_cx, bypass_fold_cx; reflexivity|].
  assert (Hbo : buf_ok (e_pre e3)).
  { rewrite Epre3, E. apply buf_ok_raw_app; auto. }
  pose proof (hd_rev_last (data0 ++ seg)) as Hhd. rewrite <- Hpre3 in Hhd.
  destruct (e_pre e3) as [|h' P'] eqn:Ee3.
  { apply (f_equal (@length Z)) in Hpre3. rewrite app_length in Hpre3. cbn [length] in Hpre3. lia. }
  exists h', P'. split; [reflexivity|]. split; [|exact Hbo].
  cbn [hd] in Hhd. rewrite Hhd. apply last_app_ne; assumption.
Qed.

(* ---------- segments of all passes ---------- *)
Section Segs.
Variables (style maxbp : Z).
Let reset := negb (Z.land style CblkStyleReset =? 0).
Let pterm := negb (Z.land style CblkStylePterm =? 0).

Fixpoint seg_rel (cx : list Z) (pl : list (Z * Z)) (syms : list (list sym)) (segs : list (list Z)) : Prop :=
  match pl, syms, segs with
  | [], [], [] => True
  | (bp, pt) :: pl', ss :: syms', s :: segs' =>
    if is_lazy_raw bp maxbp pt style
    then (exists r', raw_decode_n (length ss) (raw_new s) = Ok (r', bits_of ss)) /\ seg_rel cx pl' syms' segs'
    else s = seg_fn pterm cx (decs ss) /\ seg_rel (next_cx reset cx (decs ss)) pl' syms' segs'
  | _, _, _ => False
  end.

Definition pass_syms_ok (q : Z * Z) (ss : list sym) : Prop :=
  Forall (sym_okr (is_lazy_raw (fst q) maxbp (snd q) style)) ss.

Fixpoint all_syms_ok (pl : list (Z * Z)) (syms : list (list sym)) : Prop :=
  match pl, syms with
  | [], [] => True
  | q :: pl', ss :: syms' => pass_syms_ok q ss /\ all_syms_ok pl' syms'
  | _, _ => False
  end.

Lemma enc_bytes_lazyterm_tail : forall pl syms e data0, lazyterm_style style ->
  all_syms_ok pl syms -> TI e -> e_pre e = rev data0 ++ [0] -> last data0 0 <> 255 ->
  (reset = true -> e_cx e = cx0) ->
  exists e' segs,
    enc_bytes_passes style maxbp pl syms true e = Ok ((e', true), term_ps pl (zlen data0) segs) /\
    e_pre e' = rev (data0 ++ concat segs) ++ [0] /\
    Forall (fun s => last s 0 <> 255) segs /\ length segs = length pl /\
    seg_rel (e_cx e) pl syms segs.
Proof.
  intros pl. induction pl as [|[bp pt] r IH]; intros syms e data0 Hs Hok HTI Hpre Hl0 Hrc.
  - destruct syms; [|destruct Hok]. exists e, []. cbn. rewrite app_nil_r. auto.
  - destruct syms as [|ss syms']; [destruct Hok|]. destruct Hok as [Hss Hok'].
    unfold pass_syms_ok in Hss. cbn [fst snd] in Hss.
    pose proof HTI as (h0 & P0 & _ & _ & _ & Hcx0).
    cbn [enc_bytes_passes].
    rewrite (lazyterm_term style bp maxbp pt Hs). fold pterm. cbv iota.
    destruct (is_lazy_raw bp maxbp pt style) eqn:Eraw; cbn [sym_okr] in Hss.
    + (* a raw pass *)
      rewrite (enc_syms_o_raw ss _ Hss). cbn [obind]. unfold enc_terminate. cbn [obind].
      destruct (raw_pass_step pterm e data0 ss HTI Hpre Hl0 Hss) as (seg & Hpre2 & Hlast & Hdec & Hcx2 & Hhd).
      set (er := enc_bypass_flush (fold_left enc_bypass_encode (bits_of ss) (enc_bypass_init e)) pterm) in *.
      change (set3_e (enc_reset_contexts er)) with (r_e er). fold reset.
      assert (Hcxer : cxs_ok (e_cx er)) by (rewrite Hcx2; exact Hcx0).
      assert (HTI2 : TI (if reset then r_e er else er)) by (apply TI_after; assumption).
      assert (Hpre3 : e_pre (if reset then r_e er else er) = rev (data0 ++ seg) ++ [0]).
      { destruct reset; [rewrite r_e_cxset; cbn [cxset e_pre]|]; exact Hpre2. }
      assert (Hrc2 : reset = true -> e_cx (if reset then r_e er else er) = cx0).
      { intros Er. rewrite Er. rewrite r_e_cxset. cbn [cxset e_cx]. apply reset_cx_19. apply Hcxer. }
      destruct (IH syms' (if reset then r_e er else er) (data0 ++ seg) Hs Hok' HTI2 Hpre3 (last_app_ne _ _ Hl0 Hlast) Hrc2)
        as (e' & segs' & E & Hpre' & Hsegs & Hlen' & Hrel).
      rewrite E. cbn [obind fst snd].
      exists e', (seg :: segs'). cbn [concat term_ps length seg_rel]. rewrite Eraw.
      rewrite (num_bytes_pre _ _ Hpre3).
      replace (zlen (data0 ++ seg)) with (zlen data0 + zlen seg) in * by (unfold zlen; rewrite app_length; lia).
      split; [reflexivity|]. split; [rewrite app_assoc; exact Hpre'|].
      split; [constructor; assumption|]. split; [rewrite Hlen'; reflexivity|].
      split; [exact Hdec|].
      (* the contexts seen by the following passes *)
      assert (Ecx : e_cx (if reset then r_e er else er) = e_cx e \/ reset = true) by (destruct reset; [right; reflexivity|left; exact Hcx2]).
      destruct Ecx as [Ecx|Er]; [rewrite Ecx in Hrel; exact Hrel|].
      (* with RESET every MQ pass starts from cx0, and so does e *)
      rewrite Er in *. rewrite r_e_cxset in Hrel. cbn [cxset e_cx] in Hrel.
      rewrite (reset_cx_19 _ (proj2 Hcxer)) in Hrel. rewrite (Hrc eq_refl).
      exact Hrel.
    + (* an MQ pass *)
      pose proof (restart_inv e HTI) as Hinv1.
      rewrite (enc_syms_o_mq ss _ Hss Hinv1 ltac:(rewrite restart_cx; apply Hcx0)). cbn [obind].
      rewrite (enc_terminate_fl pterm _ (enc_encode_list_inv _ _ Hinv1)). cbn [obind].
      destruct (restart_segment pterm e data0 (decs ss) HTI Hpre Hl0 (sym_mq_decision ss Hss)) as (Hpre2 & Hlast & Hcx2 & Hhd).
      set (er := fl pterm (enc_encode_list (enc_restart_init e) (decs ss))) in *.
      set (seg := seg_fn pterm (e_cx e) (decs ss)) in *.
      change (set3_e (enc_reset_contexts er)) with (r_e er). fold reset.
      assert (Hcxer : cxs_ok (e_cx er)).
      { rewrite Hcx2. apply (next_cx_ok false (e_cx e) (decs ss)). exact Hcx0. }
      assert (HTI2 : TI (if reset then r_e er else er)) by (apply TI_after; assumption).
      assert (Hpre3 : e_pre (if reset then r_e er else er) = rev (data0 ++ seg) ++ [0]).
      { destruct reset; [rewrite r_e_cxset; cbn [cxset e_pre]|]; exact Hpre2. }
      assert (Hcx3 : e_cx (if reset then r_e er else er) = next_cx reset (e_cx e) (decs ss)).
      { unfold next_cx. destruct reset.
        - rewrite r_e_cxset. cbn [cxset e_cx]. apply reset_cx_19. apply Hcxer.
        - exact Hcx2. }
      assert (Hrc2 : reset = true -> e_cx (if reset then r_e er else er) = cx0).
      { intros Er. rewrite Er. rewrite r_e_cxset. cbn [cxset e_cx]. apply reset_cx_19. apply Hcxer. }
      destruct (IH syms' (if reset then r_e er else er) (data0 ++ seg) Hs Hok' HTI2 Hpre3 (last_app_ne _ _ Hl0 Hlast) Hrc2)
        as (e' & segs' & E & Hpre' & Hsegs & Hlen' & Hrel).
      rewrite Hcx3 in Hrel.
      rewrite E. cbn [obind fst snd].
      exists e', (seg :: segs'). cbn [concat term_ps length seg_rel]. rewrite Eraw.
      rewrite (num_bytes_pre _ _ Hpre3).
      replace (zlen (data0 ++ seg)) with (zlen data0 + zlen seg) in * by (unfold zlen; rewrite app_length; lia).
      split; [reflexivity|]. split; [rewrite app_assoc; exact Hpre'|].
      split; [constructor; assumption|]. split; [rewrite Hlen'; reflexivity|].
      split; [reflexivity|exact Hrel].
Qed.

End Segs.
