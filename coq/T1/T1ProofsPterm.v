(* PTERM (predictable termination) without LAZY and TERMALL: one MQ codeword, closed by
   ErtermEnc when the last coded pass is the cleanup pass of bit-plane 0 (fb = 0), by the ordinary
   Flush otherwise. *)
From V Require Import Common.Base MQ.MqModel MQ.MqProofs MQ.MqProofsDec MQ.MqProofsRt MQ.MqProofsRt2 MQ.MqProofsTerm MQ.MqProofsSeg.
From V Require Import T1.T1Store T1.T1Ctx T1.T1CtxProofs T1.T1Model T1.T1Bytes T1.T1ProofsBase
  T1.T1ProofsSeq T1.T1ProofsFinal T1.T1ProofsSim T1.T1ProofsMqRt T1.T1ProofsComp T1.T1ProofsCompThm
  T1.T1ProofsRestart T1.T1ProofsTermEnc.

(* ErtermEnc does not look at the contexts *)
Lemma erterm_loop_cxset : forall f k e cx,
  enc_erterm_loop f k (cxset e cx) = (fst (enc_erterm_loop f k e), cxset (snd (enc_erterm_loop f k e)) cx).
Proof.
  induction f as [|f IH]; intros k e cx; cbn [enc_erterm_loop]; [reflexivity|].
  cbn [cxset e_ct e_a e_c e_pre e_post e_cx].
  destruct (0 <? k); [|reflexivity].
  change (mkEnc (e_a e) (shl32 (e_c e) (e_ct e)) 0 (e_pre e) (e_post e) cx)
    with (cxset (mkEnc (e_a e) (shl32 (e_c e) (e_ct e)) 0 (e_pre e) (e_post e) (e_cx e)) cx).
  rewrite enc_byteout_cxset. rewrite IH. cbn [cxset e_ct]. reflexivity.
Qed.

Lemma enc_erterm_cxset : forall e cx, enc_erterm (cxset e cx) = cxset (enc_erterm e) cx.
Proof.
  intros e cx. unfold enc_erterm. cbn [cxset e_ct]. rewrite erterm_loop_cxset. cbn [snd cxset e_post].
  destruct (e_post (snd (enc_erterm_loop 4 (11 - e_ct e + 1) e))) as [|last rest]; [reflexivity|].
  destruct (last =? 255); [reflexivity|]. rewrite enc_byteout_cxset. reflexivity.
Qed.

Lemma get_buffer_erterm_r_e : forall e, enc_get_buffer (enc_erterm (r_e e)) = enc_get_buffer (enc_erterm e).
Proof. intros. rewrite r_e_cxset, enc_erterm_cxset. reflexivity. Qed.

Lemma noterm_term_eq : forall style bp maxbp pt, Z.land style CblkStyleLazy = 0 -> Z.land style CblkStyleTermAll = 0 ->
  is_terminating bp maxbp pt style = (pt =? 2) && (bp =? 0).
Proof.
  intros style bp maxbp pt E1 E4. unfold is_terminating. rewrite E1, E4.
  destruct ((pt =? 2) && (bp =? 0)); reflexivity.
Qed.

Lemma enc_bytes_single : forall style maxbp pl bp pt syms e,
  Z.land style CblkStyleLazy = 0 -> Z.land style CblkStyleTermAll = 0 ->
  chain bp pt pl -> length syms = length pl -> Forall (Forall sym_mq) syms ->
  enc_inv e -> zlen (e_cx e) = 19 ->
  let reset := negb (Z.land style CblkStyleReset =? 0) in
  let pterm := negb (Z.land style CblkStylePterm =? 0) in
  exists e' term ps,
    enc_bytes_passes style maxbp pl syms false e = Ok ((e', term), ps) /\ length ps = length pl /\
    (if term : bool then enc_get_buffer e' else enc_flush e') =
    (if term && pterm then enc_get_buffer (enc_erterm (enc_mq_passes reset e (map decs syms)))
     else enc_flush (enc_mq_passes reset e (map decs syms))).
Proof.
  intros style maxbp pl. induction pl as [|[b p] r IH]; intros bp pt syms e E1 E4 Hc Hlen Hsy Hinv Hn reset pterm.
  - destruct syms; [|discriminate]. exists e, false, []. cbn. auto.
  - destruct syms as [|ss syms']; [discriminate|]. cbn [length] in Hlen.
    cbn [chain] in Hc. destruct Hc as (-> & -> & Hbp & Hpt & Hc).
    pose proof (Forall_inv Hsy) as Hss. pose proof (Forall_inv_tail Hsy) as Hsy'.
    cbn [enc_bytes_passes map enc_mq_passes].
    rewrite (nolazy_raw style bp maxbp pt E1), (noterm_term_eq style bp maxbp pt E1 E4).
    fold pterm. cbv iota.
    rewrite (enc_syms_o_mq ss e Hss Hinv Hn). cbn [obind].
    set (e2 := enc_encode_list e (decs ss)).
    assert (Hinv2 : enc_inv e2) by (apply enc_encode_list_inv; exact Hinv).
    assert (Hn2 : zlen (e_cx e2) = 19) by (unfold e2; rewrite enc_encode_list_cx_len; exact Hn).
    fold reset.
    destruct ((pt =? 2) && (bp =? 0)) eqn:Eterm.
    + apply andb_true_iff in Eterm. destruct Eterm as [E2 E0]. apply Z.eqb_eq in E2, E0. subst pt bp.
      assert (r = []).
      { destruct r as [|[b' p'] r']; [reflexivity|]. cbn [chain] in Hc. unfold next_bp in Hc. cbn in Hc. lia. }
      subst r. destruct syms'; [|discriminate].
      rewrite (enc_terminate_fl pterm e2 Hinv2). cbn [obind enc_bytes_passes map enc_mq_passes fst snd].
      eexists _, true, _. split; [reflexivity|]. split; [reflexivity|]. cbn [andb]. cbv iota.
      change (set3_e (enc_reset_contexts (fl pterm e2))) with (r_e (fl pterm e2)).
      change (set3_e (enc_reset_contexts e2)) with (r_e e2).
      destruct pterm; cbn [fl].
      * destruct reset; [rewrite get_buffer_r_e, get_buffer_erterm_r_e|]; reflexivity.
      * destruct reset; [rewrite get_buffer_r_e, enc_flush_r_e|]; unfold enc_flush; reflexivity.
    + cbn [obind].
      change (set3_e (enc_reset_contexts e2)) with (r_e e2).
      destruct (IH (next_bp bp pt) (next_pt pt) syms' (if reset then r_e e2 else e2) E1 E4 Hc ltac:(lia) Hsy'
                   (enc_reset_step_inv reset e2 Hinv2) ltac:(rewrite enc_reset_step_len; exact Hn2))
        as (e' & term & ps & E & Hl & Hb).
      fold reset pterm in E, Hb. rewrite E. cbn [obind fst snd].
      eexists e', term, _. split; [reflexivity|]. split; [cbn [length]; rewrite Hl; reflexivity|]. exact Hb.
Qed.

(* The round trip for every style without LAZY and TERMALL (PTERM allowed, any fb).  As for
   TERMALL+PTERM the stream must not be empty (see t1_bytes_roundtrip_termall_gen). *)
Theorem t1_bytes_roundtrip_single_gen :
  forall (wn hn : nat) (orient style fb : Z) (data : list Z),
  Z.land style 5 = 0 ->
  length data = (wn * hn)%nat -> data_ok data -> 0 <= fb ->
  (forall v, In v data -> exists c, v = c * 2 ^ fb) ->
  (forall mb ps bytes,
     enc_layered wn hn orient style fb (3 * (find_max_bitplane data - fb + 1) - 2) data = Ok (mb, ps, bytes) ->
     ps <> [] -> bytes <> []) ->
  t1_roundtrip wn hn orient style fb data = Ok data.
Proof.
  intros wn hn orient style fb data Hs Hlen Hok Hfb Hmul Hout.
  assert (E1 : Z.land style CblkStyleLazy = 0) by (apply (land_sub style 5); [reflexivity|exact Hs]).
  assert (E4 : Z.land style CblkStyleTermAll = 0) by (apply (land_sub style 5); [reflexivity|exact Hs]).
  apply single_codeword_core2; auto.
  intros maxbp pl syms Hge Hchain Hsy.
  assert (Hsl : length syms = length pl) by apply enc_passes_length.
  destruct (enc_bytes_single style maxbp pl maxbp 2 syms (enc_new_cx cx0) E1 E4 Hchain Hsl Hsy
              (enc_new_inv cx0 cx0_ok) cx0_len) as (e' & term & ps & Eenc & Hpl & Hbytes).
  exists e', term, ps. split; [exact Eenc|]. split; [exact Hpl|].
  (* the output is not empty: from the hypothesis on EncodeLayered *)
  assert (Hne : (if term then enc_get_buffer e' else enc_flush e') <> []).
  { assert (Hpl1 : pl <> []).
    { unfold pl, pass_list. fold maxbp. destruct (Z.ltb_spec maxbp fb); [lia|]. unfold all_passes.
      replace (Z.to_nat (3 * (maxbp - fb + 1) - 2)) with (S (Z.to_nat (3 * (maxbp - fb + 1) - 2 - 1))) by lia.
      cbn [firstn]. discriminate. }
    eapply (Hout maxbp (rev (normalize_rev (if term then enc_get_buffer e' else enc_flush e') (rev ps)
                                           (zlen (if term then enc_get_buffer e' else enc_flush e'))))).
    - unfold enc_layered, enc_syms. fold maxbp. fold pl. fold syms.
      destruct (Z.ltb_spec maxbp fb); [lia|]. rewrite enc_init. rewrite Eenc. reflexivity.
    - intro Habs. apply (f_equal (@length passrec)) in Habs.
      rewrite rev_length, normalize_rev_length, rev_length, Hpl in Habs. cbn [length] in Habs.
      destruct pl; [congruence|discriminate]. }
  split; [exact Hne|].
  set (reset := negb (Z.land style CblkStyleReset =? 0)) in *.
  destruct syms as [|s0 symr] eqn:Esyms.
  { cbn [length] in Hsl. destruct pl; [|discriminate].
    cbn [enc_bytes_passes] in Eenc. inversion Eenc; subst. cbn [map enc_mq_passes] in *.
    destruct (mq_passes_future false cx0 [] [] cx0_ok ltac:(constructor) ltac:(constructor)) as (_ & dd & Edd & _).
    cbn [enc_mq_passes enc_encode_list] in Edd. exists dd. auto. }
  pose proof (Forall_inv Hsy) as Hs0. pose proof (Forall_inv_tail Hsy) as Hsr.
  assert (Hd0 : Forall (decision_ok (zlen cx0)) (decs s0)) by (rewrite cx0_len; apply sym_mq_decision; exact Hs0).
  assert (Hdr : Forall (Forall (decision_ok (zlen cx0))) (map decs symr)).
  { rewrite cx0_len. apply Forall_map. eapply Forall_impl; [|exact Hsr]. intros l0 Hl0. apply sym_mq_decision. exact Hl0. }
  cbn [map] in Hbytes. rewrite Hbytes.
  destruct (term && negb (Z.land style CblkStylePterm =? 0)).
  - destruct (mq_passes_future_erterm reset cx0 (decs s0) (map decs symr) cx0_ok Hd0 Hdr) as (dd & Edd & Hfut).
    exists dd. auto.
  - destruct (mq_passes_future reset cx0 (decs s0) (map decs symr) cx0_ok Hd0 Hdr) as (_ & dd & Edd & Hfut).
    exists dd. auto.
Qed.
