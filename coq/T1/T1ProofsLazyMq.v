(* LAZY without TERMALL, part 1: one fresh MQ codeword carrying several passes, with the final
   contexts and the shape of the encoder buffer (for either termination) *)
From V Require Import Common.Base MQ.MqModel MQ.MqProofs MQ.MqProofsDec MQ.MqProofsRt MQ.MqProofsRt2 MQ.MqProofsTerm MQ.MqProofsSeg.
From V Require Import T1.T1Store T1.T1Ctx T1.T1CtxProofs T1.T1Model T1.T1Bytes T1.T1ProofsBase
  T1.T1ProofsSeq T1.T1ProofsSim T1.T1ProofsMqRt T1.T1ProofsComp T1.T1ProofsRestart T1.T1ProofsTermEnc.

(* like dec_future, and the contexts after the last pass (before any reset) are cxf *)
Fixpoint dec_future_cx (reset : bool) (d : dec) (cur : list (Z * Z)) (rest : list (list (Z * Z))) (cxf : list Z) : Prop :=
  exists d1, dec_decode_list d (map snd cur) = Ok (d1, map fst cur) /\
    match rest with
    | [] => d_cx d1 = cxf
    | p :: r => dec_future_cx reset (if reset then r_d d1 else d1) p r cxf
    end.

(* the encoder after the decisions of the last pass (before that pass's reset) *)
Fixpoint enc_mq_last (reset : bool) (e : enc) (cur : list (Z * Z)) (rest : list (list (Z * Z))) : enc :=
  match rest with
  | [] => enc_encode_list e cur
  | p :: r => enc_mq_last reset (if reset then r_e (enc_encode_list e cur) else enc_encode_list e cur) p r
  end.

Lemma enc_mq_passes_last : forall reset rest cur e,
  enc_mq_passes reset e (cur :: rest) =
  (if reset then r_e (enc_mq_last reset e cur rest) else enc_mq_last reset e cur rest).
Proof.
  intros reset rest. induction rest as [|p r IH]; intros cur e.
  - reflexivity.
  - change (enc_mq_passes reset e (cur :: p :: r))
      with (enc_mq_passes reset (if reset then r_e (enc_encode_list e cur) else enc_encode_list e cur) (p :: r)).
    rewrite IH. reflexivity.
Qed.

Section Stream.
Variable d0 : Z.
Variable SS : list Z.
Hypothesis Bbytes : forall i, 0 <= nth i (d0 :: SS) 255 <= 255.
Hypothesis Bnm1 : forall i, (S i < length (d0 :: SS))%nat ->
  nth i (d0 :: SS) 255 = 255 -> nth (S i) (d0 :: SS) 255 <= 143.
Hypothesis Bnm2 : forall i, S i = length (d0 :: SS) -> nth i (d0 :: SS) 255 <> 255.

Lemma joint_passes_cx : forall reset rest cur e d k n,
  enc_inv e -> zlen (e_cx e) = n -> DS d0 SS e d k ->
  ECa d0 SS (enc_mq_passes reset e (cur :: rest)) ->
  Forall (decision_ok n) cur -> Forall (Forall (decision_ok n)) rest ->
  dec_future_cx reset d cur rest (e_cx (enc_mq_last reset e cur rest)).
Proof.
  intros reset rest. induction rest as [|p r IH]; intros cur e d k n Hinv Hn HDS HE Hcur Hrest.
  - cbn [enc_mq_passes] in HE. apply ECa_reset_step in HE.
    destruct (joint_decode_list d0 SS Bbytes Bnm1 Bnm2 cur e d k Hinv HDS HE ltac:(rewrite Hn; exact Hcur))
      as (d1 & k1 & E1 & HDS1).
    cbn [dec_future_cx enc_mq_last]. exists d1. split; [exact E1|]. apply HDS1.
  - change (enc_mq_passes reset e (cur :: p :: r))
      with (enc_mq_passes reset (if reset then r_e (enc_encode_list e cur) else enc_encode_list e cur) (p :: r)) in HE.
    pose proof (enc_encode_list_inv cur e Hinv) as Hinv1.
    pose proof (enc_reset_step_inv reset _ Hinv1) as Hinv2.
    pose proof (ECa_reset_step d0 SS reset _ (ECa_passes_back d0 SS Bbytes Bnm1 Bnm2 reset (p :: r) _ Hinv2 HE)) as HE1.
    destruct (joint_decode_list d0 SS Bbytes Bnm1 Bnm2 cur e d k Hinv HDS HE1 ltac:(rewrite Hn; exact Hcur))
      as (d1 & k1 & E1 & HDS1).
    cbn [dec_future_cx enc_mq_last]. exists d1. split; [exact E1|].
    inversion Hrest as [|? ? Hp Hr]; subst.
    apply (IH p (if reset then r_e (enc_encode_list e cur) else enc_encode_list e cur)
              (if reset then r_d d1 else d1) k1 (zlen (e_cx e))); auto.
    + rewrite enc_reset_step_len, enc_encode_list_cx_len. reflexivity.
    + apply DS_reset_step. exact HDS1.
Qed.
End Stream.

Lemma dec_future_cx_weaken : forall reset rest cur d cxf, dec_future_cx reset d cur rest cxf -> dec_future reset d cur rest.
Proof.
  intros reset rest. induction rest as [|p r IH]; intros cur d cxf (d1 & E & H); cbn [dec_future]; exists d1; split; auto.
  eapply IH. exact H.
Qed.

(* the codeword of a group of passes *)
Definition grp_fn (pterm reset : bool) (cx : list Z) (ps : list (list (Z * Z))) : list Z :=
  enc_get_buffer (fl pterm (enc_mq_passes reset (enc_new_cx cx) ps)).

Lemma group_core : forall reset cx p r E,
  Forall cx_ok cx -> Forall (decision_ok (zlen cx)) p -> Forall (Forall (decision_ok (zlen cx))) r ->
  (exists h P', e_pre E = h :: P' /\ h <> 255 /\ buf_ok (h :: P')) ->
  (forall d0 SS (H1 : forall i, 0 <= nth i (d0 :: SS) 255 <= 255)
     (H2 : forall i, (S i < length (d0 :: SS))%nat -> nth i (d0 :: SS) 255 = 255 -> nth (S i) (d0 :: SS) 255 <= 143)
     (H3 : forall i, S i = length (d0 :: SS) -> nth i (d0 :: SS) 255 <> 255),
     D d0 SS = rev (e_pre E) ++ [255] -> ECa d0 SS (enc_mq_passes reset (enc_new_cx cx) (p :: r))) ->
  rev (e_pre E) = 0 :: enc_get_buffer E /\ last (enc_get_buffer E) 0 <> 255 /\
  exists dd, dec_new_cx (enc_get_buffer E) cx = Ok dd /\
    dec_future_cx reset dd p r (e_cx (enc_mq_last reset (enc_new_cx cx) p r)).
Proof.
  intros reset cx p r E Hcx Hp Hr (h & P' & EP & Hh & [Hb Hn]) Hprov.
  assert (Hinv0 : enc_inv (enc_new_cx cx)) by (apply enc_new_inv; exact Hcx).
  remember (rev (h :: P')) as B eqn:EB.
  assert (HlenB : length B = S (length P')) by (rewrite EB, rev_length; reflexivity).
  destruct B as [|d0 SS]; [simpl in HlenB; lia|].
  assert (Hbuf : enc_get_buffer E = SS).
  { unfold enc_get_buffer, enc_bp, zlen. rewrite EP.
    destruct (Z.ltb_spec (Z.of_nat (length (h :: P'))) 1) as [Hx|_]; [simpl length in Hx; lia|].
    rewrite <- EB. reflexivity. }
  assert (H1 : forall i, 0 <= nth i (d0 :: SS) 255 <= 255).
  { intros i. destruct (lt_dec i (length (d0 :: SS))) as [Hi|Hi].
    - assert (HF : Forall is_byteP (d0 :: SS)) by (rewrite EB; apply Forall_rev; exact Hb).
      rewrite Forall_forall in HF. specialize (HF (nth i (d0 :: SS) 255) (nth_In _ _ Hi)).
      unfold is_byteP in HF. lia.
    - rewrite nth_overflow by lia. lia. }
  assert (H2 : forall i, (S i < length (d0 :: SS))%nat ->
                 nth i (d0 :: SS) 255 = 255 -> nth (S i) (d0 :: SS) 255 <= 143).
  { intros i Hi Hx. rewrite EB in *. apply nomark_rev_index; [exact Hn | rewrite rev_length in Hi; exact Hi | exact Hx]. }
  assert (H3 : forall i, S i = length (d0 :: SS) -> nth i (d0 :: SS) 255 <> 255).
  { intros i Hi Hx. rewrite EB in Hx, Hi. rewrite rev_length in Hi.
    rewrite rev_nth in Hx by lia. replace (length (h :: P') - S i)%nat with O in Hx by lia.
    simpl in Hx. contradiction. }
  assert (HE : ECa d0 SS (enc_mq_passes reset (enc_new_cx cx) (p :: r))).
  { apply (Hprov d0 SS H1 H2 H3). unfold D. rewrite EP, <- EB. reflexivity. }
  pose proof (ECa_passes_back d0 SS H1 H2 H3 reset (p :: r) _ Hinv0 HE) as HE0.
  pose proof (ECa_new_d0 d0 SS H1 cx HE0) as Hd0. subst d0.
  rewrite Hbuf. split; [rewrite EP, <- EB; reflexivity|].
  split.
  { assert (E1 : rev P' ++ [h] = 0 :: SS) by (rewrite EB; reflexivity).
    destruct (last_rev_cons h P' 0 SS E1) as [E2|E2]; [rewrite E2; cbn; lia|rewrite E2; exact Hh]. }
  destruct (DS_init 0 SS H1 H2 H3 cx HE0) as (dd & Edd & HDS0).
  exists dd. split; [exact Edd|].
  apply (joint_passes_cx 0 SS H1 H2 H3 reset r p (enc_new_cx cx) dd 3%nat (zlen cx)); auto.
Qed.

Lemma fresh_group : forall pterm reset cx p r,
  Forall cx_ok cx -> Forall (decision_ok (zlen cx)) p -> Forall (Forall (decision_ok (zlen cx))) r ->
  let en := enc_mq_passes reset (enc_new_cx cx) (p :: r) in
  rev (e_pre (fl pterm en)) = 0 :: grp_fn pterm reset cx (p :: r) /\
  last (grp_fn pterm reset cx (p :: r)) 0 <> 255 /\
  exists dd, dec_new_cx (grp_fn pterm reset cx (p :: r)) cx = Ok dd /\
    dec_future_cx reset dd p r (e_cx (enc_mq_last reset (enc_new_cx cx) p r)).
Proof.
  intros pterm reset cx p r Hcx Hp Hr en. unfold grp_fn. fold en.
  assert (Hinv0 : enc_inv (enc_new_cx cx)) by (apply enc_new_inv; exact Hcx).
  assert (Hinv : enc_inv en) by (apply enc_mq_passes_inv; exact Hinv0).
  apply group_core; auto.
  - destruct pterm; cbn [fl].
    + destruct (erterm_state_spec en Hinv) as (e1 & last1 & stale & Ee1 & Ht1 & Hpost1 & Hbuf1 & Epre & _).
      destruct (buf_ok_head _ _ Hbuf1) as [Hlb Hlm].
      rewrite Epre. destruct (Z.eqb_spec last1 255) as [E|E].
      * destruct (e_pre e1) as [|x t] eqn:Ex.
        -- exfalso.
           assert (E1 : e1 = en).
           { rewrite Ee1. apply erterm_loop_pre_nil. rewrite <- Ee1. exact Ex. }
           assert (Hf : fresh_buf en).
           { apply enc_mq_passes_fresh. unfold fresh_buf, enc_new_cx. reflexivity. }
           rewrite E1 in Ex, Hpost1. rewrite (Hf Ex) in Hpost1. inversion Hpost1. lia.
        -- exists x, t. split; [reflexivity|]. split; [|eapply buf_ok_tail; exact Hbuf1].
           intros Hx. cbn [hd] in Hlm. specialize (Hlm Hx). lia.
      * exists last1, (e_pre e1). auto.
    + destruct (flush_state_spec en Hinv) as (h & P' & EP & HP' & Hh & Hb). exists h, P'. auto.
  - intros d0 SS H1 H2 H3 HD. destruct pterm; cbn [fl] in HD.
    + apply (EC_erterm d0 SS H1 H2 H3 en Hinv HD).
    + apply (EC_flush d0 SS H1 H2 H3 en Hinv HD).
Qed.
