(* Tier-1 lockstep, part (i): per-sample step lemmas.  For each of the three coding passes the
   encoder step and the decoder step on one sample, started with equal flags and a decoder
   magnitude equal to the encoder's on the planes coded so far, emit / request the same
   (kind, ctx) symbols, end with equal flags, and extend the magnitude invariant by the plane
   being coded. *)
From V Require Import Common.Base T1.T1Store T1.T1Ctx T1.T1Model T1.T1ProofsBase.

(* value of a coefficient truncated to the bit-planes >= P *)
Definition trunc (v P : Z) : Z := Z.sgn v * tmag (Z.abs v) P.

(* decoder sample d against encoder sample v, given the sample's Sig / Sign flags and the lowest
   plane P coded for it so far *)
Definition samp_ok (v : Z) (sg sn : bool) (d P : Z) : Prop :=
  if sg then d = trunc v P /\ sn = (v <? 0) /\ 0 < Z.shiftr (Z.abs v) P
  else d = 0 /\ sn = false /\ Z.shiftr (Z.abs v) P = 0.

Lemma sign_bit_neg : forall v, negb (sign_bit v =? 0) = (v <? 0).
Proof. intros. unfold sign_bit. destruct (v <? 0); reflexivity. Qed.

Lemma recon_sig_trunc : forall v bp, 0 <= bp <= 30 -> Z.shiftr (Z.abs v) bp = 1 ->
  recon_sig false bp (sign_bit v) = trunc v bp.
Proof.
  intros v bp Hbp H1. unfold recon_sig, trunc, tmag. rewrite H1, sign_bit_neg.
  rewrite Z.shiftl_mul_pow2, Z.mul_1_l by lia. rewrite one_shl_pow by lia.
  assert (Hp : 0 < 2 ^ bp) by (apply Z.pow_pos_nonneg; lia).
  assert (Hp2 : 2 ^ bp < 2 ^ 31) by (apply Z.pow_lt_mono_r; lia).
  assert (Hv : v <> 0). { intro; subst. cbn in H1. rewrite Z.shiftr_0_l in H1. discriminate. }
  destruct (Z.ltb_spec v 0).
  - rewrite i32_id by lia. rewrite Z.sgn_neg by lia. ring.
  - rewrite Z.sgn_pos by lia. ring.
Qed.

Lemma recon_ref_trunc : forall v bp, 0 <= bp <= 30 -> - 2 ^ 31 < v < 2 ^ 31 ->
  0 < Z.shiftr (Z.abs v) (bp + 1) ->
  recon_ref false (trunc v (bp + 1)) bp (Z.land (Z.shiftr (Z.abs v) bp) 1) = trunc v bp.
Proof.
  intros v bp Hbp Hv Hpos. unfold recon_ref, trunc.
  pose proof (tmag_refine (Z.abs v) bp ltac:(lia)) as Hr.
  pose proof (tmag_pos (Z.abs v) (bp + 1) ltac:(lia) Hpos) as Hm.
  pose proof (tmag_le (Z.abs v) bp ltac:(lia) ltac:(lia)) as Hle.
  assert (Hp : 0 < 2 ^ bp) by (apply Z.pow_pos_nonneg; lia).
  destruct (land1_01 (Z.shiftr (Z.abs v) bp)) as [E|E]; rewrite E in *.
  - cbn [Z.eqb]. f_equal. lia.
  - change (1 =? 0) with false. cbv iota. rewrite one_shl_pow by lia.
    assert (Hv0 : v <> 0). { intro; subst. cbn in Hpos. rewrite Z.shiftr_0_l in Hpos. lia. }
    destruct (Z_lt_le_dec v 0).
    + rewrite Z.sgn_neg by lia. destruct (Z.leb_spec 0 (-1 * tmag (Z.abs v) (bp + 1))); [lia|].
      rewrite i32_id by lia. lia.
    + rewrite Z.sgn_pos by lia. destruct (Z.leb_spec 0 (1 * tmag (Z.abs v) (bp + 1))); [|lia].
      rewrite i32_id by lia. lia.
Qed.

Section Block.
Variables (w h : Z) (V : tree) (orient : Z).
Hypothesis Hw : 0 <= w.

Definition inblock (x y : Z) : Prop := 0 <= x < w /\ 0 <= y < h.

Definition Vbound : Prop := forall x y, inblock x y -> - 2 ^ 31 < fget V (idx_of w x y) < 2 ^ 31.
Hypothesis HV : Vbound.

Definition DInv (F D : tree) (P : Z -> Z -> Z) : Prop :=
  forall x y, inblock x y ->
    samp_ok (fget V (idx_of w x y)) (sigb F (idx_of w x y)) (sgnb F (idx_of w x y)) (fget D (idx_of w x y)) (P x y).

(* encoder flags = decoder flags, and the magnitude invariant with the plane map P (which may
   depend on the flags) *)
Definition Rfd (P : tree -> Z -> Z -> Z) (Fe : tree) (t : dstate) : Prop :=
  Fe = fst t /\ DInv Fe (snd t) (P Fe).

(* self bits of all other samples unchanged *)
Definition self_off (F F' : tree) (i0 : Z) : Prop :=
  forall j, Pos.eqb (key j) (key i0) = false ->
    sigb F' j = sigb F j /\ visb F' j = visb F j /\ sgnb F' j = sgnb F j.

Lemma self_off_refl : forall F i0, self_off F F i0.
Proof. intros F i0 j _. auto. Qed.

Lemma self_off_trans : forall F1 F2 F3 i0, self_off F1 F2 i0 -> self_off F2 F3 i0 -> self_off F1 F3 i0.
Proof.
  intros F1 F2 F3 i0 H12 H23 j Hj. destruct (H12 j Hj) as (a & b & c). destruct (H23 j Hj) as (a' & b' & c').
  rewrite a', b', c'. auto.
Qed.

Lemma self_off_orf : forall F i0 m, self_off F (orf F i0 m) i0.
Proof. intros F i0 m j Hj. unfold sigb, visb, sgnb. rewrite orf_other by exact Hj. auto. Qed.

Lemma self_off_clrf : forall F i0 m, self_off F (clrf F i0 m) i0.
Proof. intros F i0 m j Hj. unfold sigb, visb, sgnb. rewrite clrf_other by exact Hj. auto. Qed.

Lemma self_off_set_sig : forall F x y neg, self_off F (set_sig F w x y (idx_of w x y) neg) (idx_of w x y).
Proof. intros F x y neg j Hj. apply set_sig_other. exact Hj. Qed.

(* the generic way the invariant moves across a step that touches sample (x0, y0) only *)
Lemma dinv_step : forall F D P F' D' P' x0 y0, inblock x0 y0 -> DInv F D P ->
  self_off F F' (idx_of w x0 y0) ->
  (forall j, Pos.eqb (key j) (key (idx_of w x0 y0)) = false -> fget D' j = fget D j) ->
  (forall x y, inblock x y -> (x, y) <> (x0, y0) -> P' x y = P x y) ->
  samp_ok (fget V (idx_of w x0 y0)) (sigb F' (idx_of w x0 y0)) (sgnb F' (idx_of w x0 y0))
          (fget D' (idx_of w x0 y0)) (P' x0 y0) ->
  DInv F' D' P'.
Proof.
  intros F D P F' D' P' x0 y0 Hin0 HI Hoff HD HP H0 x y Hin.
  destruct (Z.eq_dec x x0) as [Ex|Ex]; [destruct (Z.eq_dec y y0) as [Ey|Ey]|].
  - subst. exact H0.
  - assert (Hk : Pos.eqb (key (idx_of w x y)) (key (idx_of w x0 y0)) = false).
    { unfold inblock in *. apply key_idx_neq; try lia. congruence. }
    destruct (Hoff _ Hk) as (-> & _ & ->). rewrite (HD _ Hk), HP; [apply HI; exact Hin|exact Hin|congruence].
  - assert (Hk : Pos.eqb (key (idx_of w x y)) (key (idx_of w x0 y0)) = false).
    { unfold inblock in *. apply key_idx_neq; try lia. congruence. }
    destruct (Hoff _ Hk) as (-> & _ & ->). rewrite (HD _ Hk), HP; [apply HI; exact Hin|exact Hin|congruence].
Qed.

Lemma fset_D_other : forall D i0 x j, Pos.eqb (key j) (key i0) = false -> fget (fset D i0 x) j = fget D j.
Proof. intros. rewrite fget_fset, H. reflexivity. Qed.

Lemma bit_at_abs : forall x y bp, inblock x y ->
  bit_at (fget V (idx_of w x y)) bp = Z.land (Z.shiftr (Z.abs (fget V (idx_of w x y))) bp) 1.
Proof. intros. unfold bit_at. rewrite abs32_abs by (apply HV; assumption). reflexivity. Qed.

(* ---------------------------------------------------------------------------------
   Significance propagation
   --------------------------------------------------------------------------------- *)
(* lowest coded plane during / after the SPP of plane bp: bp for the samples this pass has
   visited (Visit flag), bp+1 for the others *)
Definition Pspp (bp : Z) (F : tree) (x y : Z) : Z := if visb F (idx_of w x y) then bp else bp + 1.

(* the common "a not yet significant sample is coded at plane bp" step on the invariant *)
Lemma samp_code_insig : forall v sn d P bp b, 0 <= bp -> (P = bp \/ P = bp + 1) ->
  samp_ok v false sn d P -> b = Z.land (Z.shiftr (Z.abs v) bp) 1 ->
  (b = 0 -> samp_ok v false sn d bp) /\
  (b <> 0 -> sn = false /\ Z.shiftr (Z.abs v) bp = 1).
Proof.
  intros v sn d P bp b Hbp HP (Hd & Hsn & Hz) Hb.
  assert (Hz1 : Z.shiftr (Z.abs v) (bp + 1) = 0).
  { destruct HP; subst P; [apply shiftr_mono0; [lia|lia|exact Hz]|exact Hz]. }
  split; intros Hb0.
  - repeat split; auto. apply bit0_shiftr0; [lia|exact Hz1|congruence].
  - split; [exact Hsn|]. apply bit1_shiftr1; [lia|exact Hz1|congruence].
Qed.

Lemma spp_sample_lockstep : forall bp raw x0 y0, 0 <= bp <= 30 -> inblock x0 y0 ->
  lockstep (enc_spp_sample w orient bp raw V x0 y0)
           (dec_spp_sample ideal_ask w orient bp raw false x0 y0)
           (Rfd (Pspp bp)) (Rfd (Pspp bp)).
Proof.
  intros bp raw x0 y0 Hbp Hin0 Fe [Fd D] [HF HI] tl ps. cbn [fst snd] in HF, HI. subst Fd.
  unfold enc_spp_sample, dec_spp_sample.
  set (i0 := idx_of w x0 y0). set (f := fget Fe i0). set (v := fget V i0).
  destruct (has f T1Sig) eqn:Esig.
  { exists (Fe, D). cbn [fst snd app]. split; [reflexivity|split; auto]. }
  destruct (has f T1SigNeighbors) eqn:Enb; cbn [negb].
  2:{ exists (Fe, D). cbn [fst snd app]. split; [reflexivity|split; auto]. }
  (* the sample is coded *)
  pose proof (HI x0 y0 Hin0) as H0. fold i0 in H0. fold v in H0.
  unfold sigb in H0. fold f in H0. rewrite Esig in H0.
  assert (HP0 : Pspp bp Fe x0 y0 = bp \/ Pspp bp Fe x0 y0 = bp + 1).
  { unfold Pspp. destruct (visb Fe (idx_of w x0 y0)); auto. }
  destruct (samp_code_insig v _ _ _ bp (bit_at v bp) ltac:(lia) HP0 H0 (bit_at_abs x0 y0 bp Hin0)) as [Hb0 Hb1].
  set (F1 := orf Fe i0 T1Visit).
  assert (Hoff1 : self_off Fe F1 i0) by apply self_off_orf.
  destruct (orf_visit_at Fe i0 i0 eq_refl) as (Hs1 & Hv1 & Hn1). fold F1 in Hs1, Hv1, Hn1.
  destruct (bit_at v bp =? 0) eqn:Eb.
  - (* insignificant at this plane *)
    apply Z.eqb_eq in Eb.
    exists (F1, D). split.
    + cbn [fst snd app]. unfold mk_sym. destruct raw; rewrite ideal_ask_hit; cbn [obind]; rewrite Eb; reflexivity.
    + cbn [fst]. split; [reflexivity|]. cbn [snd].
      apply (dinv_step Fe D (Pspp bp Fe) F1 D (Pspp bp F1) x0 y0 Hin0 HI Hoff1).
      * intros; reflexivity.
      * intros x y Hin Hne. unfold Pspp.
        assert (Hk : Pos.eqb (key (idx_of w x y)) (key i0) = false).
        { unfold inblock in *. apply key_idx_neq; try lia. exact Hne. }
        destruct (Hoff1 _ Hk) as (_ & -> & _). reflexivity.
      * fold i0. fold v. rewrite Hs1, Hn1. unfold Pspp. fold i0. rewrite Hv1.
        unfold sigb. fold f. rewrite Esig. apply Hb0. exact Eb.
  - (* becomes significant *)
    apply Z.eqb_neq in Eb. destruct (Hb1 Eb) as [Hsn0 Hone].
    set (F2 := set_sig F1 w x0 y0 i0 (v <? 0)).
    exists (F2, fset D i0 (recon_sig false bp (sign_bit v))). split.
    + cbn [fst snd app]. unfold mk_sym.
      destruct raw; rewrite ideal_ask_hit; cbn [obind];
        (destruct (bit_at v bp =? 0) eqn:Eb'; [apply Z.eqb_eq in Eb'; congruence|]);
        rewrite ideal_ask_hit; cbn [obind]; rewrite ?lxor_cancel, sign_bit_neg; reflexivity.
    + cbn [fst]. split; [reflexivity|]. cbn [snd].
      assert (Hoff2 : self_off Fe F2 i0).
      { eapply self_off_trans; [exact Hoff1|]. apply self_off_set_sig. }
      destruct (set_sig_at F1 w x0 y0 i0 (v <? 0) i0 eq_refl) as (Hs2 & Hv2 & Hn2). fold F2 in Hs2, Hv2, Hn2.
      apply (dinv_step Fe D (Pspp bp Fe) F2 _ (Pspp bp F2) x0 y0 Hin0 HI Hoff2).
      * intros j Hj. apply fset_D_other. exact Hj.
      * intros x y Hin Hne. unfold Pspp.
        assert (Hk : Pos.eqb (key (idx_of w x y)) (key i0) = false).
        { unfold inblock in *. apply key_idx_neq; try lia. exact Hne. }
        destruct (Hoff2 _ Hk) as (_ & -> & _). reflexivity.
      * fold i0. fold v. rewrite Hs2, Hn2, Hn1. unfold Pspp. fold i0. rewrite Hv2, Hv1.
        rewrite fget_fset_same. unfold samp_ok.
        split; [apply recon_sig_trunc; [lia|exact Hone]|].
        split; [rewrite Hsn0; reflexivity|lia].
Qed.

(* ---------------------------------------------------------------------------------
   Scan position: (s, x0, dy) = stripe, column, row inside the stripe.  A sample is "done"
   when the scan has passed it.
   --------------------------------------------------------------------------------- *)
Definition doneb (s x0 dy x y : Z) : bool :=
  (y <? 4 * s) || ((4 * s <=? y) && (y <? 4 * s + 4) && ((x <? x0) || ((x =? x0) && (y <? 4 * s + dy)))).

Lemma doneb_true : forall s x0 dy x y,
  doneb s x0 dy x y = true <-> (y < 4 * s \/ (4 * s <= y < 4 * s + 4 /\ (x < x0 \/ (x = x0 /\ y < 4 * s + dy)))).
Proof.
  intros. unfold doneb.
  destruct (Z.ltb_spec y (4 * s)); destruct (Z.leb_spec (4 * s) y); destruct (Z.ltb_spec y (4 * s + 4));
    destruct (Z.ltb_spec x x0); destruct (Z.eqb_spec x x0); destruct (Z.ltb_spec y (4 * s + dy));
    cbn [orb andb]; split; intros; try reflexivity; try discriminate; try lia.
Qed.

Lemma doneb_false : forall s x0 dy x y,
  doneb s x0 dy x y = false <-> ~ (y < 4 * s \/ (4 * s <= y < 4 * s + 4 /\ (x < x0 \/ (x = x0 /\ y < 4 * s + dy)))).
Proof.
  intros. rewrite <- doneb_true. destruct (doneb s x0 dy x y); split; intros; try congruence; try reflexivity.
  all: try (exfalso; apply H; reflexivity).
Qed.

(* moving the cursor over sample (x0, 4s+dy) changes doneness of that sample only *)
Lemma doneb_step_other : forall s x0 dy x y, 0 <= dy < 4 -> (x, y) <> (x0, 4 * s + dy) ->
  doneb s x0 (dy + 1) x y = doneb s x0 dy x y.
Proof.
  intros s x0 dy x y Hdy Hne.
  destruct (doneb s x0 dy x y) eqn:E.
  - apply doneb_true in E. apply doneb_true. lia.
  - apply doneb_false in E. apply doneb_false. intro H. apply E.
    assert (x <> x0 \/ y <> 4 * s + dy). { destruct (Z.eq_dec x x0); [right|left; assumption]. congruence. }
    lia.
Qed.

Lemma doneb_at_cursor : forall s x0 dy, 0 <= dy < 4 -> doneb s x0 dy x0 (4 * s + dy) = false.
Proof. intros. apply doneb_false. lia. Qed.

Lemma doneb_after_cursor : forall s x0 dy, 0 <= dy < 4 -> doneb s x0 (dy + 1) x0 (4 * s + dy) = true.
Proof. intros. apply doneb_true. lia. Qed.

(* ---------------------------------------------------------------------------------
   Magnitude refinement
   --------------------------------------------------------------------------------- *)
Definition Pmrp (bp s x0 dy : Z) (F : tree) (x y : Z) : Z :=
  if visb F (idx_of w x y) || (sigb F (idx_of w x y) && doneb s x0 dy x y) then bp else bp + 1.

Lemma mrp_sample_lockstep : forall bp raw s x0 dy, 0 <= bp <= 30 -> 0 <= dy < 4 -> inblock x0 (4 * s + dy) ->
  lockstep (enc_mrp_sample w bp raw V x0 (4 * s + dy))
           (dec_mrp_sample ideal_ask w bp raw false x0 (4 * s + dy))
           (Rfd (Pmrp bp s x0 dy)) (Rfd (Pmrp bp s x0 (dy + 1))).
Proof.
  intros bp raw s x0 dy Hbp Hdy Hin0 Fe [Fd D] [HF HI] tl ps. cbn [fst snd] in HF, HI. subst Fd.
  unfold enc_mrp_sample, dec_mrp_sample.
  set (y0 := 4 * s + dy) in *. set (i0 := idx_of w x0 y0). set (f := fget Fe i0). set (v := fget V i0).
  pose proof (HI x0 y0 Hin0) as H0. fold i0 in H0. fold v in H0.
  destruct (negb (has f T1Sig) || has f T1Visit) eqn:Eskip.
  - (* skipped: the plane map of this sample does not depend on doneness *)
    exists (Fe, D). cbn [fst snd app]. split; [reflexivity|]. split; [reflexivity|]. cbn [snd].
    intros x y Hin. specialize (HI x y Hin). unfold Pmrp in *.
    destruct (Z.eq_dec x x0) as [Ex|Ex]; [destruct (Z.eq_dec y y0) as [Ey|Ey]|].
    + subst x y. fold i0 in HI |- *. unfold sigb, visb in *. fold f in HI |- *.
      destruct (has f T1Sig); cbn [negb orb andb] in *; [|exact HI].
      rewrite Eskip in *. exact HI.
    + rewrite doneb_step_other; [exact HI|exact Hdy|]. fold y0. congruence.
    + rewrite doneb_step_other; [exact HI|exact Hdy|]. fold y0. congruence.
  - apply orb_false_iff in Eskip. destruct Eskip as [Es Ev]. apply negb_false_iff in Es.
    unfold sigb in H0. fold f in H0. rewrite Es in H0.
    unfold Pmrp in H0. fold i0 in H0. unfold visb, sigb in H0. fold f in H0. rewrite Es, Ev in H0.
    unfold y0 in H0 at 1. rewrite doneb_at_cursor in H0 by exact Hdy. cbn [orb andb] in H0.
    destruct H0 as (Hd & Hsn & Hpos).
    set (F1 := orf Fe i0 T1Refine). set (b := bit_at v bp).
    exists (F1, fset D i0 (recon_ref false (fget D i0) bp b)). split.
    + cbn [fst snd app]. unfold mk_sym. destruct raw; rewrite ideal_ask_hit; cbn [obind]; reflexivity.
    + cbn [fst]. split; [reflexivity|]. cbn [snd].
      assert (Hself : forall j, sigb F1 j = sigb Fe j /\ visb F1 j = visb Fe j /\ sgnb F1 j = sgnb Fe j)
        by (intro j; apply orf_refine_self).
      assert (Hoff1 : self_off Fe F1 i0) by (intros j _; apply Hself).
      apply (dinv_step Fe D (Pmrp bp s x0 dy Fe) F1 _ (Pmrp bp s x0 (dy + 1) F1) x0 y0 Hin0 HI Hoff1).
      * intros j Hj. apply fset_D_other. exact Hj.
      * intros x y Hin Hne. unfold Pmrp.
        destruct (Hself (idx_of w x y)) as (-> & -> & _).
        rewrite doneb_step_other; [reflexivity|exact Hdy|exact Hne].
      * fold i0. fold v. destruct (Hself i0) as (Hs1 & Hv1 & Hn1). rewrite Hs1, Hn1.
        unfold Pmrp. fold i0. rewrite Hs1, Hv1. unfold sigb, visb. fold f. rewrite Es, Ev.
        unfold y0. rewrite doneb_after_cursor by exact Hdy. cbn [orb andb].
        rewrite fget_fset_same. unfold samp_ok. rewrite Hd. unfold b.
        replace (bit_at v bp) with (Z.land (Z.shiftr (Z.abs v) bp) 1) by (symmetry; apply (bit_at_abs x0 y0 bp Hin0)).
        split; [apply recon_ref_trunc; [lia|apply (HV x0 y0 Hin0)|exact Hpos]|].
        split; [exact Hsn|]. apply shiftr_pos_down; [lia|lia|exact Hpos].
Qed.

(* ---------------------------------------------------------------------------------
   Cleanup
   --------------------------------------------------------------------------------- *)
Definition Pcup (bp s x0 dy : Z) (F : tree) (x y : Z) : Z :=
  if doneb s x0 dy x y then bp
  else if visb F (idx_of w x y) || sigb F (idx_of w x y) then bp else bp + 1.

(* encoder state (flags, partial) against decoder state ((flags, data), partial).  While
   `partial` is set (only at the first sample of a run-length tail) the sample under the cursor
   is unvisited, insignificant, and its bit in plane bp is 1. *)
Definition Rcup (bp s x0 dy : Z) (se : tree * bool) (t : dstate * bool) : Prop :=
  fst se = fst (fst t) /\ snd se = snd t /\ DInv (fst se) (snd (fst t)) (Pcup bp s x0 dy (fst se)) /\
  (snd se = true ->
     visb (fst se) (idx_of w x0 (4 * s + dy)) = false /\ sigb (fst se) (idx_of w x0 (4 * s + dy)) = false /\
     bit_at (fget V (idx_of w x0 (4 * s + dy))) bp <> 0).

Lemma cup_sample_lockstep : forall bp s x0 dy, 0 <= bp <= 30 -> 0 <= dy < 4 -> inblock x0 (4 * s + dy) ->
  lockstep (enc_cup_sample w orient bp V x0 (4 * s + dy))
           (dec_cup_sample ideal_ask w orient bp false x0 (4 * s + dy))
           (Rcup bp s x0 dy) (Rcup bp s x0 (dy + 1)).
Proof.
  intros bp s x0 dy Hbp Hdy Hin0 [Fe pe] [[Fd D] pd] (HF & Hp & HI & Hpart) tl ps.
  cbn [fst snd] in HF, Hp, HI, Hpart. subst Fd pd.
  unfold enc_cup_sample, dec_cup_sample.
  set (y0 := 4 * s + dy) in *. set (i0 := idx_of w x0 y0) in *. set (f := fget Fe i0). set (v := fget V i0) in *.
  pose proof (HI x0 y0 Hin0) as H0. fold i0 in H0. fold v in H0.
  destruct (has f T1Visit || has f T1Sig) eqn:Eskip.
  - (* already coded in this plane: only the Visit flag is cleared *)
    assert (Hpe : pe = false).
    { destruct pe; [|reflexivity]. destruct (Hpart eq_refl) as (Hv & Hs & _).
      unfold visb, sigb in Hv, Hs. fold f in Hv, Hs. rewrite Hv, Hs in Eskip. discriminate. }
    subst pe. set (F1 := clrf Fe i0 T1Visit).
    exists ((F1, D), false). cbn [fst snd app]. split; [reflexivity|].
    split; [reflexivity|]. split; [reflexivity|]. split; [|discriminate].
    assert (Hoff1 : self_off Fe F1 i0) by apply self_off_clrf.
    destruct (clrf_visit_at Fe i0 i0 eq_refl) as (Hs1 & Hv1 & Hn1). fold F1 in Hs1, Hv1, Hn1.
    apply (dinv_step Fe D (Pcup bp s x0 dy Fe) F1 D (Pcup bp s x0 (dy + 1) F1) x0 y0 Hin0 HI Hoff1).
    + intros; reflexivity.
    + intros x y Hin Hne. unfold Pcup.
      assert (Hk : Pos.eqb (key (idx_of w x y)) (key i0) = false).
      { unfold inblock in *. apply key_idx_neq; try lia. exact Hne. }
      destruct (Hoff1 _ Hk) as (-> & -> & _).
      rewrite doneb_step_other; [reflexivity|exact Hdy|exact Hne].
    + fold i0. fold v. rewrite Hs1, Hn1. unfold Pcup. unfold y0. rewrite doneb_after_cursor by exact Hdy.
      assert (HP : Pcup bp s x0 dy Fe x0 y0 = bp).
      { unfold Pcup. unfold y0. rewrite doneb_at_cursor by exact Hdy. fold y0. fold i0.
        unfold visb, sigb. fold f. rewrite Eskip. reflexivity. }
      rewrite HP in H0. exact H0.
  - apply orb_false_iff in Eskip. destruct Eskip as [Ev Es].
    assert (HP : Pcup bp s x0 dy Fe x0 y0 = bp + 1).
    { unfold Pcup. unfold y0. rewrite doneb_at_cursor by exact Hdy. fold y0. fold i0.
      unfold visb, sigb. fold f. rewrite Ev, Es. reflexivity. }
    rewrite HP in H0. unfold sigb in H0. fold f in H0. rewrite Es in H0.
    destruct (samp_code_insig v _ _ _ bp (bit_at v bp) ltac:(lia) (or_intror eq_refl) H0 (bit_at_abs x0 y0 bp Hin0)) as [Hb0 Hb1].
    (* the value of the coded bit: 1 when partial (and then the data bit is 1 too) *)
    set (b := if pe then 1 else bit_at v bp).
    assert (Hbz : b = 0 -> bit_at v bp = 0).
    { unfold b. destruct pe; [discriminate|auto]. }
    assert (Hbnz : b <> 0 -> bit_at v bp <> 0).
    { unfold b. destruct pe; [intros _; apply (Hpart eq_refl)|auto]. }
    destruct (b =? 0) eqn:Eb.
    + apply Z.eqb_eq in Eb. set (F1 := clrf Fe i0 T1Visit).
      exists ((F1, D), false). split.
      * cbn [fst snd]. unfold b in Eb. destruct pe; [discriminate|].
        subst b. cbn [app]. rewrite ideal_ask_hit. cbn [obind]. fold v. rewrite Eb. reflexivity.
      * cbn [fst snd]. split; [reflexivity|]. split; [reflexivity|]. split; [|discriminate].
        assert (Hoff1 : self_off Fe F1 i0) by apply self_off_clrf.
        destruct (clrf_visit_at Fe i0 i0 eq_refl) as (Hs1 & Hv1 & Hn1). fold F1 in Hs1, Hv1, Hn1.
        apply (dinv_step Fe D (Pcup bp s x0 dy Fe) F1 D (Pcup bp s x0 (dy + 1) F1) x0 y0 Hin0 HI Hoff1).
        -- intros; reflexivity.
        -- intros x y Hin Hne. unfold Pcup.
           assert (Hk : Pos.eqb (key (idx_of w x y)) (key i0) = false).
           { unfold inblock in *. apply key_idx_neq; try lia. exact Hne. }
           destruct (Hoff1 _ Hk) as (-> & -> & _).
           rewrite doneb_step_other; [reflexivity|exact Hdy|exact Hne].
        -- fold i0. fold v. rewrite Hs1, Hn1. unfold Pcup. unfold y0. rewrite doneb_after_cursor by exact Hdy.
           unfold sigb. fold f. rewrite Es. apply Hb0. apply Hbz. exact Eb.
    + apply Z.eqb_neq in Eb. destruct (Hb1 (Hbnz Eb)) as [Hsn0 Hone].
      set (F2 := set_sig Fe w x0 y0 i0 (v <? 0)). set (F3 := clrf F2 i0 T1Visit).
      exists ((F3, fset D i0 (recon_sig false bp (sign_bit v))), false). split.
      * cbn [fst snd]. unfold b in Eb. destruct pe; subst b.
        -- cbn [app obind]. change (1 =? 0) with false. cbv iota.
           rewrite ideal_ask_hit. cbn [obind]. rewrite lxor_cancel, sign_bit_neg. reflexivity.
        -- cbn [app]. rewrite ideal_ask_hit. cbn [obind]. fold v.
           destruct (bit_at v bp =? 0) eqn:Eb'; [apply Z.eqb_eq in Eb'; congruence|].
           rewrite ideal_ask_hit. cbn [obind]. rewrite lxor_cancel, sign_bit_neg. reflexivity.
      * cbn [fst snd]. split; [reflexivity|]. split; [reflexivity|]. split; [|discriminate].
        assert (Hoff3 : self_off Fe F3 i0).
        { eapply self_off_trans; [apply self_off_set_sig|apply self_off_clrf]. }
        destruct (set_sig_at Fe w x0 y0 i0 (v <? 0) i0 eq_refl) as (Hs2 & Hv2 & Hn2). fold F2 in Hs2, Hv2, Hn2.
        destruct (clrf_visit_at F2 i0 i0 eq_refl) as (Hs3 & Hv3 & Hn3). fold F3 in Hs3, Hv3, Hn3.
        apply (dinv_step Fe D (Pcup bp s x0 dy Fe) F3 _ (Pcup bp s x0 (dy + 1) F3) x0 y0 Hin0 HI Hoff3).
        -- intros j Hj. apply fset_D_other. exact Hj.
        -- intros x y Hin Hne. unfold Pcup.
           assert (Hk : Pos.eqb (key (idx_of w x y)) (key i0) = false).
           { unfold inblock in *. apply key_idx_neq; try lia. exact Hne. }
           destruct (Hoff3 _ Hk) as (-> & -> & _).
           rewrite doneb_step_other; [reflexivity|exact Hdy|exact Hne].
        -- fold i0. fold v. rewrite Hs3, Hn3, Hs2, Hn2. unfold Pcup. unfold y0. rewrite doneb_after_cursor by exact Hdy.
           cbn [fst snd]. rewrite fget_fset_same. unfold samp_ok.
           split; [apply recon_sig_trunc; [lia|exact Hone]|].
           split; [rewrite Hsn0; reflexivity|lia].
Qed.

End Block.
