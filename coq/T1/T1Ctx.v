(* EXTRACT *)
(* EBCOT tier-1 context formation.

   Part 1 (specification): ISO/IEC 15444-1 Annex D written from the standard, as functions of
   the significance / sign state of the 8 neighbours:
     Table D.1  zero-coding contexts 0..8 per sub-band orientation (sum of horizontal, vertical,
                diagonal significant neighbours),
     Table D.2  horizontal / vertical sign contributions,
     Table D.3  sign-coding context 9..13 and XOR bit,
     Table D.4  magnitude-refinement contexts 14..16.
   Part 2 (model of /repo/jpeg2000/t1/context.go): getZeroCodingContext, getSignCodingContext,
   getSignPrediction, getMagRefinementContext on the Go flag word, reading the regenerated
   tables Gen/T1Tables_gen.v.
   T1CtxProofs.v proves, over every table index / every flag word, that Part 2 = Part 1. *)
From V Require Import Common.Base T1.T1Store.
Require V.Gen.T1Tables_gen.

(* ------------------------------------------------------------------------------------
   Part 1: Annex D
   ------------------------------------------------------------------------------------ *)

(* significance of the 8 neighbours and sign (true = negative) of the 4 direct ones *)
Record nbhd : Type := mkNb {
  nb_n : bool; nb_s : bool; nb_w : bool; nb_e : bool;
  nb_nw : bool; nb_ne : bool; nb_sw : bool; nb_se : bool;
  ng_n : bool; ng_s : bool; ng_w : bool; ng_e : bool }.

Definition b2z (b : bool) : Z := if b then 1 else 0.

Definition sum_h (n : nbhd) : Z := b2z (nb_w n) + b2z (nb_e n).
Definition sum_v (n : nbhd) : Z := b2z (nb_n n) + b2z (nb_s n).
Definition sum_d (n : nbhd) : Z := b2z (nb_nw n) + b2z (nb_ne n) + b2z (nb_sw n) + b2z (nb_se n).

(* Table D.1, columns "LL and LH sub-bands" (vertical high-pass): rows top to bottom *)
Definition annexD_zc_lllh (h v d : Z) : Z :=
  if h =? 2 then 8
  else if h =? 1 then (if 1 <=? v then 7 else if 1 <=? d then 6 else 5)
  else (* h = 0 *)
    if v =? 2 then 4
    else if v =? 1 then 3
    else if 2 <=? d then 2 else if d =? 1 then 1 else 0.

(* Table D.1, columns "HL sub-band" (horizontal high-pass): the roles of H and V exchanged *)
Definition annexD_zc_hl (h v d : Z) : Z := annexD_zc_lllh v h d.

(* Table D.1, columns "HH sub-band": sum(H+V) and sum D *)
Definition annexD_zc_hh (hv d : Z) : Z :=
  if 3 <=? d then 8
  else if d =? 2 then (if 1 <=? hv then 7 else 6)
  else if d =? 1 then (if 2 <=? hv then 5 else if hv =? 1 then 4 else 3)
  else (if 2 <=? hv then 2 else if hv =? 1 then 1 else 0).

(* orientation as in the Go code / OpenJPEG: 0 = LL, 1 = HL, 2 = LH, 3 = HH *)
Definition annexD_zc (orient : Z) (n : nbhd) : Z :=
  if orient =? 1 then annexD_zc_hl (sum_h n) (sum_v n) (sum_d n)
  else if orient =? 3 then annexD_zc_hh (sum_h n + sum_v n) (sum_d n)
  else annexD_zc_lllh (sum_h n) (sum_v n) (sum_d n).

(* Table D.2: contribution of a pair of neighbours: each significant positive neighbour counts
   +1, each significant negative one -1, insignificant 0; the sum is clipped to -1..1 *)
Definition contrib1 (sig neg : bool) : Z := if sig then (if neg then -1 else 1) else 0.
Definition clip1 (x : Z) : Z := if 1 <=? x then 1 else if x <=? -1 then -1 else 0.
Definition annexD_hc (n : nbhd) : Z := clip1 (contrib1 (nb_w n) (ng_w n) + contrib1 (nb_e n) (ng_e n)).
Definition annexD_vc (n : nbhd) : Z := clip1 (contrib1 (nb_n n) (ng_n n) + contrib1 (nb_s n) (ng_s n)).

(* Table D.3: (H, V) -> (context label, XOR bit) *)
Definition annexD_sc_tab (h v : Z) : Z * Z :=
  if h =? 1 then (if v =? 1 then (13, 0) else if v =? 0 then (12, 0) else (11, 0))
  else if h =? 0 then (if v =? 1 then (10, 0) else if v =? 0 then (9, 0) else (10, 1))
  else (if v =? 1 then (11, 1) else if v =? 0 then (12, 1) else (13, 1)).
Definition annexD_sc (n : nbhd) : Z := fst (annexD_sc_tab (annexD_hc n) (annexD_vc n)).
Definition annexD_xor (n : nbhd) : Z := snd (annexD_sc_tab (annexD_hc n) (annexD_vc n)).

(* Table D.4: first refinement of this coefficient? / sum(H+V+D) *)
Definition annexD_mr (first_refinement : bool) (n : nbhd) : Z :=
  if negb first_refinement then 16
  else if 1 <=? sum_h n + sum_v n + sum_d n then 15 else 14.

(* ------------------------------------------------------------------------------------
   Part 2: context.go
   ------------------------------------------------------------------------------------ *)
Definition T1Sig := T1Tables_gen.t1c_T1Sig.
Definition T1Refine := T1Tables_gen.t1c_T1Refine.
Definition T1Visit := T1Tables_gen.t1c_T1Visit.
Definition T1SigN := T1Tables_gen.t1c_T1SigN.
Definition T1SigS := T1Tables_gen.t1c_T1SigS.
Definition T1SigW := T1Tables_gen.t1c_T1SigW.
Definition T1SigE := T1Tables_gen.t1c_T1SigE.
Definition T1SigNW := T1Tables_gen.t1c_T1SigNW.
Definition T1SigNE := T1Tables_gen.t1c_T1SigNE.
Definition T1SigSW := T1Tables_gen.t1c_T1SigSW.
Definition T1SigSE := T1Tables_gen.t1c_T1SigSE.
Definition T1SigNeighbors := T1Tables_gen.t1c_T1SigNeighbors.
Definition T1Sign := T1Tables_gen.t1c_T1Sign.
Definition T1SignN := T1Tables_gen.t1c_T1SignN.
Definition T1SignS := T1Tables_gen.t1c_T1SignS.
Definition T1SignW := T1Tables_gen.t1c_T1SignW.
Definition T1SignE := T1Tables_gen.t1c_T1SignE.
Definition CTXMRSTART := T1Tables_gen.t1c_CTXMRSTART.
Definition CTXRL := T1Tables_gen.t1c_CTXRL.
Definition CTXUNI := T1Tables_gen.t1c_CTXUNI.
Definition NUMCONTEXTS := T1Tables_gen.t1c_NUMCONTEXTS.

(* flags & m != 0 *)
Definition has (flags m : Z) : bool := negb (Z.land flags m =? 0).

(* getZeroCodingContext: 9-bit index NW N NE W (self) E SW S SE; orient outside 0..3 -> 0 *)
Definition zc_index (flags : Z) : Z :=
  (if has flags T1SigNW then 1 else 0) + (if has flags T1SigN then 2 else 0) +
  (if has flags T1SigNE then 4 else 0) + (if has flags T1SigW then 8 else 0) +
  (if has flags T1SigE then 32 else 0) + (if has flags T1SigSW then 64 else 0) +
  (if has flags T1SigS then 128 else 0) + (if has flags T1SigSE then 256 else 0).
Definition zc_ctx (flags orient : Z) : Z :=
  let o := if (orient <? 0) || (3 <? orient) then 0 else orient in
  znth T1Tables_gen.t1_lut_zc (o * 512 + zc_index flags) 0.

(* index shared by getSignCodingContext and getSignPrediction: a neighbour's sign bit enters
   the index only when the neighbour is significant *)
Definition sc_index (flags : Z) : Z :=
  (if has flags T1SigW then 8 + (if has flags T1SignW then 1 else 0) else 0) +
  (if has flags T1SigN then 2 + (if has flags T1SignN then 16 else 0) else 0) +
  (if has flags T1SigE then 32 + (if has flags T1SignE then 4 else 0) else 0) +
  (if has flags T1SigS then 128 + (if has flags T1SignS then 64 else 0) else 0).
Definition sc_ctx (flags : Z) : Z := znth T1Tables_gen.t1_lut_sc (sc_index flags) 0.
Definition spb (flags : Z) : Z := znth T1Tables_gen.t1_lut_spb (sc_index flags) 0.

(* The same three lookups through tries built once from the regenerated lists (the extracted
   model evaluates the tries at start-up; `znth` on a 2048-element list costs thousands of
   steps per lookup).  T1CtxProofs.zc_ctx_t_eq / sc_ctx_t_eq / spb_t_eq: equal to the list
   lookups for every flag word. *)
Definition lut_zc_tree : tree := tree_of_list T1Tables_gen.t1_lut_zc.
Definition lut_sc_tree : tree := tree_of_list T1Tables_gen.t1_lut_sc.
Definition lut_spb_tree : tree := tree_of_list T1Tables_gen.t1_lut_spb.
Definition zc_ctx_t (flags orient : Z) : Z :=
  let o := if (orient <? 0) || (3 <? orient) then 0 else orient in
  fget lut_zc_tree (o * 512 + zc_index flags).
Definition sc_ctx_t (flags : Z) : Z := fget lut_sc_tree (sc_index flags).
Definition spb_t (flags : Z) : Z := fget lut_spb_tree (sc_index flags).

(* getMagRefinementContext *)
Definition mr_ctx (flags : Z) : Z :=
  if has flags T1Refine then CTXMRSTART + 2
  else if has flags T1SigNeighbors then CTXMRSTART + 1 else CTXMRSTART.

(* ------------------------------------------------------------------------------------
   The neighbourhood a table index / a flag word encodes (bit layouts documented in
   context.go next to the tables)
   ------------------------------------------------------------------------------------ *)
Definition bit (x i : Z) : bool := Z.testbit x i.

(* lutCtxnoZc index: bit0 NW, 1 N, 2 NE, 3 W, 4 (self), 5 E, 6 SW, 7 S, 8 SE; signs unused *)
Definition nbhd_of_zc_index (i : Z) : nbhd :=
  mkNb (bit i 1) (bit i 7) (bit i 3) (bit i 5) (bit i 0) (bit i 2) (bit i 6) (bit i 8)
       false false false false.

(* lutCtxnoSc / lutSpb index: bit0 sign W, 1 sig N, 2 sign E, 3 sig W, 4 sign N, 5 sig E,
   6 sign S, 7 sig S; diagonals unused *)
Definition nbhd_of_sc_index (i : Z) : nbhd :=
  mkNb (bit i 1) (bit i 7) (bit i 3) (bit i 5) false false false false
       (bit i 4) (bit i 6) (bit i 0) (bit i 2).

(* the flag word of a sample *)
Definition nbhd_of_flags (f : Z) : nbhd :=
  mkNb (has f T1SigN) (has f T1SigS) (has f T1SigW) (has f T1SigE)
       (has f T1SigNW) (has f T1SigNE) (has f T1SigSW) (has f T1SigSE)
       (has f T1SignN) (has f T1SignS) (has f T1SignW) (has f T1SignE).
