(* C08 for JPEG-LS: no decoder panics.
   Part 1: the GolombReader as coded never indexes outside its buffer and never shifts by a
           negative count, for any buffer and any sequence of ReadBit / ReadBits calls.
   Part 2: the decoders with every Go index made explicit (JlsSafe) never hit a check, for any
           byte string; they compute the functions of JlsModel (jls_decode / jlsn_decode), which
           therefore return Ok or Err — never Panic, and OutOfFuel only through the explicit
           sample budget `lim` (declared width*height*components > lim). *)
From V Require Import Common.Base JpegLS.JlsParams JpegLS.JlsGolomb JpegLS.JlsRun JpegLS.JlsModel JpegLS.JlsSafe.
From V Require Import JpegLS.JlsProofsGolomb JpegLS.JlsProofsRun JpegLS.JlsProofsNear0.

(* ---------- Part 1: GolombReader ---------- *)

Definition gr_inv (data : list Z) (g : grst) : Prop :=
  0 <= gr_pos g <= zlen data /\ 0 <= gr_ff g <= zlen data /\ 0 <= gr_valid g <= 64.

Lemma idx_byte_ok : forall data i, 0 <= i < zlen data -> exists b, idx_byte data i = Ok b.
Proof.
  intros data i H. unfold idx_byte. destruct (Z.ltb_spec i 0); [lia|]. destruct (Z.geb_spec i (zlen data)); [lia|].
  cbn. eexists. reflexivity.
Qed.

Lemma gr_find_loop_ok : forall fuel data i,
  0 <= i <= zlen data -> (Z.to_nat (zlen data - i) < fuel)%nat ->
  exists r, gr_find_loop fuel data i = Ok r /\ i <= r <= zlen data.
Proof.
  induction fuel as [|f IH]; intros data i Hi Hf; [lia|]. cbn [gr_find_loop].
  destruct (Z.ltb_spec i (zlen data)) as [Hlt|Hge].
  - destruct (idx_byte_ok data i ltac:(lia)) as [b Hb]. rewrite Hb.
    destruct (b =? 255).
    + exists i. split; [reflexivity | lia].
    + destruct (IH data (i + 1) ltac:(lia) ltac:(lia)) as (r & Hr & Hrr). exists r. split; [exact Hr | lia].
  - exists (zlen data). split; [reflexivity | lia].
Qed.

Lemma gr_find_ok : forall data pos, 0 <= pos <= zlen data ->
  exists r, gr_find data pos = Ok r /\ pos <= r <= zlen data.
Proof.
  intros data pos H. unfold gr_find. apply gr_find_loop_ok; [exact H|]. unfold zlen in *. lia.
Qed.

Lemma gr_new_ok : forall data, exists g, gr_new data = Ok g /\ gr_inv data g /\ gr_valid g = 0.
Proof.
  intros data. unfold gr_new. assert (H0 : 0 <= 0 <= zlen data) by (unfold zlen; lia).
  destruct (gr_find_ok data 0 H0) as (r & Hr & Hrr). rewrite Hr.
  eexists. split; [reflexivity|]. split; [|reflexivity]. unfold gr_inv. cbn. unfold zlen in *. lia.
Qed.

Lemma gr_opt_loop_ok : forall n data g,
  0 <= gr_pos g -> gr_pos g + Z.of_nat n <= zlen data -> 0 <= gr_valid g -> gr_valid g + 8 * Z.of_nat n <= 64 ->
  exists g', gr_opt_loop n data g = Ok g' /\ gr_pos g' = gr_pos g + Z.of_nat n /\
             gr_valid g' = gr_valid g + 8 * Z.of_nat n /\ gr_ff g' = gr_ff g.
Proof.
  induction n as [|n IH]; intros data g Hp Hpn Hv Hvn.
  - exists g. cbn. repeat split; lia.
  - cbn [gr_opt_loop]. destruct (idx_byte_ok data (gr_pos g) ltac:(lia)) as [b Hb]. rewrite Hb.
    unfold shl64. destruct (Z.ltb_spec (64 - 8 - gr_valid g) 0); [lia|].
    match goal with |- context [gr_opt_loop n data ?g1] => destruct (IH data g1) as (g' & Hg' & H1 & H2 & H3) end;
      cbn [gr_pos gr_valid gr_ff]; try lia.
    exists g'. split; [exact Hg'|]. cbn [gr_pos gr_valid gr_ff] in *. repeat split; lia.
Qed.

Lemma gr_fill_opt_ok : forall data g, gr_inv data g ->
  exists b g', gr_fill_opt data g = Ok (b, g') /\ gr_inv data g' /\ gr_valid g <= gr_valid g' /\
               (b = true -> 56 <= gr_valid g').
Proof.
  intros data g (Hp & Hf & Hv). unfold gr_fill_opt.
  destruct (Z.ltb_spec (gr_pos g) (gr_ff g - 7)) as [Hlt|Hge].
  - set (b0 := Z.quot (64 - gr_valid g) 8).
    assert (Hb0 : 0 <= b0 /\ 8 * b0 <= 64 - gr_valid g).
    { unfold b0. rewrite Z.quot_div_nonneg by lia. Z.div_mod_to_equations. lia. }
    set (b1 := if b0 >? gr_ff g - gr_pos g then gr_ff g - gr_pos g else b0).
    set (b2 := if b1 >? 8 then 8 else b1).
    assert (Hb2 : 0 <= b2 /\ b2 <= b0 /\ b2 <= gr_ff g - gr_pos g).
    { unfold b2, b1. destruct (Z.gtb_spec b0 (gr_ff g - gr_pos g));
        match goal with |- context [?a >? 8] => destruct (Z.gtb_spec a 8) end; lia. }
    destruct (gr_opt_loop_ok (Z.to_nat b2) data g ltac:(lia) ltac:(lia) ltac:(lia) ltac:(lia)) as (g' & Hg' & H1 & H2 & H3).
    rewrite Hg'. eexists. exists g'. split; [reflexivity|].
    rewrite Z2Nat.id in * by lia. split; [unfold gr_inv; lia|]. split; [lia|].
    intro Hb. apply Z.geb_le in Hb. lia.
  - exists false, g. split; [reflexivity|]. split; [unfold gr_inv; lia|]. split; [lia | discriminate].
Qed.

Lemma gr_slow_loop_ok : forall fuel data g, gr_inv data g -> (0 < fuel)%nat -> 56 - gr_valid g <= 7 * (Z.of_nat fuel - 1) ->
  gr_slow_loop fuel data g = Err \/
  exists b g', gr_slow_loop fuel data g = Ok (b, g') /\ gr_inv data g' /\ 1 <= gr_valid g' /\
               gr_valid g <= gr_valid g' /\ gr_ff g' = gr_ff g.
Proof.
  induction fuel as [|f IH]; intros data g (Hp & Hf & Hv) Hpos Hfuel.
  - lia.
  - cbn [gr_slow_loop].
    destruct (Z.ltb_spec (gr_valid g) 56) as [Hlt|Hge].
    + destruct (Z.geb_spec (gr_pos g) (zlen data)) as [Hend|Hin].
      * destruct (Z.eqb_spec (gr_valid g) 0); [left; reflexivity|].
        right. exists false, g. split; [reflexivity|]. unfold gr_inv. repeat split; lia.
      * destruct (idx_byte_ok data (gr_pos g) ltac:(lia)) as [b Hb]. rewrite Hb.
        assert (Hmk : exists mk, (if b =? 255
                                  then if gr_pos g =? zlen data - 1 then Ok true
                                       else match idx_byte data (gr_pos g + 1) with
                                            | Ok b2 => Ok (negb (Z.land b2 128 =? 0))
                                            | Err => Err | Panic => Panic | OutOfFuel => OutOfFuel end
                                  else Ok false) = Ok mk).
        { destruct (b =? 255); [|eexists; reflexivity].
          destruct (Z.eqb_spec (gr_pos g) (zlen data - 1)); [eexists; reflexivity|].
          destruct (idx_byte_ok data (gr_pos g + 1) ltac:(lia)) as [b2 Hb2]. rewrite Hb2. eexists; reflexivity. }
        destruct Hmk as [mk Hmk]. rewrite Hmk.
        destruct mk.
        -- destruct (Z.leb_spec (gr_valid g) 0); [left; reflexivity|].
           right. exists false, g. split; [reflexivity|]. unfold gr_inv. repeat split; lia.
        -- unfold shl64. destruct (Z.ltb_spec (56 - gr_valid g) 0); [lia|].
           match goal with |- context [gr_slow_loop f data ?g1] =>
             destruct (IH data g1) as [He | (b' & g' & Hg' & Hi & H1 & H2 & H3)] end.
           ++ unfold gr_inv. cbn [gr_pos gr_valid gr_ff]. destruct (b =? 255); lia.
           ++ lia.
           ++ cbn [gr_valid]. destruct (b =? 255); lia.
           ++ left. exact He.
           ++ right. exists b', g'. split; [exact Hg'|]. split; [exact Hi|].
              cbn [gr_valid gr_ff] in *. split; [lia|]. split; [destruct (b =? 255); lia | exact H3].
    + right. exists true, g. split; [reflexivity|]. unfold gr_inv. repeat split; lia.
Qed.

Lemma gr_fill_ok : forall data g, gr_inv data g -> gr_valid g < 56 ->
  gr_fill data g = Err \/
  exists g', gr_fill data g = Ok g' /\ gr_inv data g' /\ 1 <= gr_valid g' /\ gr_valid g <= gr_valid g'.
Proof.
  intros data g Hinv Hv. unfold gr_fill.
  destruct (gr_fill_opt_ok data g Hinv) as (b & g1 & Ho & Hi1 & Hle1 & Hb1). rewrite Ho.
  destruct b.
  - right. exists g1. split; [reflexivity|]. split; [exact Hi1|]. specialize (Hb1 eq_refl). lia.
  - pose proof Hi1 as (_ & _ & Hv1).
    assert (Hf9 : 56 - gr_valid g1 <= 7 * (Z.of_nat 9 - 1)) by (change (Z.of_nat 9) with 9; lia).
    destruct (gr_slow_loop_ok 9 data g1 Hi1 ltac:(lia) Hf9) as [He | (b' & g2 & Hs & Hi2 & H1 & H2 & H3)].
    + left. rewrite He. reflexivity.
    + rewrite Hs. destruct b'.
      * pose proof Hi2 as (Hp2 & _ & Hv2).
        destruct (gr_find_ok data (gr_pos g2) Hp2) as (r & Hr & Hrr). rewrite Hr.
        right. eexists. split; [reflexivity|]. unfold gr_inv. cbn [gr_pos gr_ff gr_valid]. repeat split; lia.
      * right. exists g2. split; [reflexivity|]. split; [exact Hi2|]. lia.
Qed.

Lemma gr_read_bit_ok : forall data g, gr_inv data g ->
  gr_read_bit data g = Err \/ exists v g', gr_read_bit data g = Ok (v, g') /\ gr_inv data g'.
Proof.
  intros data g Hinv. unfold gr_read_bit. pose proof Hinv as (Hp & Hf & Hv).
  destruct (Z.eqb_spec (gr_valid g) 0) as [E|NE].
  - destruct (gr_fill_ok data g Hinv ltac:(lia)) as [He | (g' & Hg' & (Hp' & Hf' & Hv') & H1 & H2)].
    + left. rewrite He. reflexivity.
    + right. rewrite Hg'. eexists. eexists. split; [reflexivity|]. unfold gr_inv. cbn [gr_pos gr_ff gr_valid]. lia.
  - right. eexists. eexists. split; [reflexivity|]. unfold gr_inv. cbn [gr_pos gr_ff gr_valid]. lia.
Qed.

Lemma gr_read_bits_ok : forall data n g, gr_inv data g -> 0 <= n ->
  gr_read_bits data n g = Err \/ exists v g', gr_read_bits data n g = Ok (v, g') /\ gr_inv data g'.
Proof.
  intros data n g Hinv Hn. unfold gr_read_bits. pose proof Hinv as (Hp & Hf & Hv).
  destruct (Z.eqb_spec n 0); [right; eexists; eexists; split; [reflexivity | exact Hinv]|].
  destruct (Z.gtb_spec n 32); [left; reflexivity|].
  assert (Hsh : shl64 1 (64 - n) = Ok (wrapU 64 (Z.shiftl 1 (64 - n)))).
  { unfold shl64. destruct (Z.ltb_spec (64 - n) 0); [lia | reflexivity]. }
  destruct (Z.ltb_spec (gr_valid g) n) as [Hlt|Hge].
  - destruct (gr_fill_ok data g Hinv ltac:(lia)) as [He | (g' & Hg' & (Hp' & Hf' & Hv') & H1 & H2)].
    + left. rewrite He. reflexivity.
    + rewrite Hg'. destruct (Z.ltb_spec (gr_valid g') n); [left; reflexivity|].
      rewrite Hsh. right. eexists. eexists. split; [reflexivity|]. unfold gr_inv. cbn [gr_pos gr_ff gr_valid]. lia.
  - destruct (Z.ltb_spec (gr_valid g) n); [lia|]. rewrite Hsh.
    right. eexists. eexists. split; [reflexivity|]. unfold gr_inv. cbn [gr_pos gr_ff gr_valid]. lia.
Qed.

(* gr_no_panic: for every buffer and every sequence of ReadBit (0) / ReadBits(n), n >= 0, the
   reader as coded neither indexes out of range nor shifts by a negative count; every call
   returns a value or an error *)
Lemma gr_run_ok : forall data script g acc, gr_inv data g -> Forall (fun n => 0 <= n) script ->
  exists r, gr_run data script g acc = Ok r.
Proof.
  intros data. induction script as [|n r IH]; intros g acc Hinv Hs; cbn [gr_run]; [eexists; reflexivity|].
  inversion Hs as [|? ? Hn Hr]; subst.
  destruct (Z.eqb_spec n 0).
  - destruct (gr_read_bit_ok data g Hinv) as [He | (v & g' & Hg' & Hi')].
    + rewrite He. eexists; reflexivity.
    + rewrite Hg'. apply IH; assumption.
  - destruct (gr_read_bits_ok data n g Hinv Hn) as [He | (v & g' & Hg' & Hi')].
    + rewrite He. eexists; reflexivity.
    + rewrite Hg'. apply IH; assumption.
Qed.

Theorem gr_no_panic : forall data script, Forall (fun n => 0 <= n) script ->
  exists r, gr_script data script = Ok r.
Proof.
  intros data script Hs. unfold gr_script. destruct (gr_new_ok data) as (g & Hg & Hi & _). rewrite Hg.
  apply gr_run_ok; assumption.
Qed.

(* ---------- Part 2: the decoders ---------- *)

Definition stinv (st : jstate) : Prop := length (js_ctxs st) = 365%nat /\ 0 <= js_ri st <= 31.

Lemma upd_nth_length : forall n l v, length (upd_nth n l v) = length l.
Proof. induction n; intros [|a l] v; cbn [upd_nth length]; try reflexivity; rewrite IHn; reflexivity. Qed.

Lemma stinv_set_ctx : forall st i c, stinv st -> stinv (set_ctx st i c).
Proof. intros st i c [H1 H2]. unfold stinv, set_ctx. cbn. rewrite upd_nth_length. auto. Qed.
Lemma stinv_set_ri : forall st ri, stinv st -> 0 <= ri <= 31 -> stinv (set_ri st ri).
Proof. intros st ri [H1 H2] H. unfold stinv, set_ri. cbn. auto. Qed.

Lemma dec_runlen_loop_facts : forall bits remaining rl ri eol rl' ri' r,
  dec_runlen_loop bits remaining rl ri = Some (eol, rl', ri', r) ->
  0 <= ri <= 31 -> 0 <= rl < remaining ->
  0 <= ri' <= 31 /\ (eol = true -> rl' = remaining) /\ (eol = false -> 0 <= rl' < remaining).
Proof.
  induction bits as [|b t IH]; intros remaining rl ri eol rl' ri' r H Hri Hrl; cbn [dec_runlen_loop] in H; [discriminate|].
  destruct b.
  - pose proof (pow_J_pos ri Hri) as Hp.
    set (count := Z.min (Z.shiftl 1 (Jof ri)) (remaining - rl)) in *.
    assert (Hc : 1 <= count <= remaining - rl) by (unfold count; lia).
    assert (Hri2 : 0 <= (if count =? Z.shiftl 1 (Jof ri) then inc_run_index ri else ri) <= 31).
    { destruct (count =? Z.shiftl 1 (Jof ri)); [apply inc_run_index_range; exact Hri | exact Hri]. }
    destruct (Z.geb_spec (rl + count) remaining).
    + inversion H; subst. split; [exact Hri2|]. split; [reflexivity | discriminate].
    + eapply IH; [exact H | exact Hri2 | lia].
  - inversion H; subst. split; [exact Hri|]. split; [discriminate | intros _; lia].
Qed.

Lemma read_bits_nat_nonneg : forall k bits acc v r, 0 <= acc -> read_bits_nat k bits acc = Some (v, r) -> 0 <= v.
Proof.
  induction k; intros bits acc v r Ha Hr; cbn [read_bits_nat] in Hr.
  - inversion Hr; subst. exact Ha.
  - destruct bits as [|b t]; [discriminate|]. eapply IHk; [|exact Hr]. pose proof (b2z_range b). lia.
Qed.

Lemma read_bits_nonneg : forall n bits v r, read_bits n bits = Some (v, r) -> 0 <= v.
Proof.
  intros n bits v r H. unfold read_bits in H. destruct (n =? 0); [inversion H; lia|].
  destruct (n >? 32); [discriminate|]. eapply read_bits_nat_nonneg; [|exact H]. lia.
Qed.

Lemma DecodeRunLength_facts : forall bits remaining ri n ri' r,
  DecodeRunLength bits remaining ri = Some (n, ri', r) -> 0 <= ri <= 31 -> 1 <= remaining ->
  0 <= n <= remaining /\ 0 <= ri' <= 31.
Proof.
  intros bits remaining ri n ri' r H Hri Hrem. unfold DecodeRunLength in H.
  destruct (dec_runlen_loop bits remaining 0 ri) as [[[[eol rl] ri1] r1]|] eqn:E; [|discriminate].
  destruct (dec_runlen_loop_facts _ _ _ _ _ _ _ _ E Hri ltac:(lia)) as (Hri1 & Ht & Hf).
  destruct eol.
  - inversion H; subst. specialize (Ht eq_refl). split; [lia | exact Hri1].
  - specialize (Hf eq_refl).
    destruct (Jof ri1 >? 0).
    + destruct (read_bits (Jof ri1) r1) as [[v r2]|] eqn:Er; [|discriminate].
      destruct (Z.gtb_spec (rl + v) remaining); [discriminate|]. inversion H; subst.
      pose proof (read_bits_nonneg _ _ _ _ Er).
      split; [lia | exact Hri1].
    + destruct (Z.gtb_spec rl remaining); [discriminate|]. inversion H; subst. split; [lia | exact Hri1].
Qed.

Lemma interrupt_dec_st : forall pk p st ra rb bits v st2 r,
  interrupt_dec pk p st ra rb bits = Some (v, st2, r) -> js_ctxs st2 = js_ctxs st /\ js_ri st2 = js_ri st.
Proof.
  intros pk p st ra rb bits v st2 r H. unfold interrupt_dec in H.
  destruct (Z.abs (ra - rb) <=? jp_near p);
    match type of H with context [DecodeRunInterruption ?a ?b ?c ?d] =>
      destruct (DecodeRunInterruption a b c d) as [[[e c1] r1]|]; [|discriminate] end;
    destruct pk; inversion H; subst; cbn; auto.
Qed.

Lemma interrupt_dec_i_st : forall p st left above bits v st2 r,
  interrupt_dec_i p st left above bits = Some (v, st2, r) -> js_ctxs st2 = js_ctxs st /\ js_ri st2 = js_ri st.
Proof.
  intros p st left above bits v st2 r H. unfold interrupt_dec_i in H.
  destruct (DecodeRunInterruption p (js_ri st) (js_rc0 st) bits) as [[[e c1] r1]|]; [|discriminate].
  inversion H; subst; cbn; auto.
Qed.

Lemma wopt0_some : forall (A : Type) (d : A) l, (1 <= length l)%nat -> wopt0 l = Some (hd d l).
Proof. intros A d [|a l] H; cbn in *; [lia | reflexivity]. Qed.
Lemma wopt0_win : forall l, (1 <= length l)%nat -> wopt0 l = Some (win0 l).
Proof. intros [|a l] H; cbn in *; [lia | reflexivity]. Qed.
Lemma wopt1_win : forall l, (2 <= length l)%nat -> wopt1 l = Some (win1 l).
Proof. intros [|a [|b l]] H; cbn in *; try lia; reflexivity. Qed.
Lemma wopt2_win : forall l, (3 <= length l)%nat -> wopt2 l = Some (win2 l).
Proof. intros [|a [|b [|c l]]] H; cbn in *; try lia; reflexivity. Qed.

Lemma fetch_ok : forall len idx v, 0 <= idx < len -> fetch len idx (Some v) = Ok v.
Proof.
  intros len idx v H. unfold fetch, chk_idx. destruct (Z.leb_spec 0 idx); [|lia]. destruct (Z.ltb_spec idx len); [|lia].
  reflexivity.
Qed.

Lemma tl_skipn : forall (A : Type) n (l : list A), tl (skipn n l) = skipn (S n) l.
Proof. induction n; intros [|a l]; cbn [skipn tl]; try reflexivity. apply IHn. Qed.

Lemma skipn_skipn_add : forall (A : Type) a b (l : list A), skipn a (skipn b l) = skipn (b + a) l.
Proof.
  intros A a b. revert a. induction b as [|b IH]; intros a l; [reflexivity|].
  destruct l as [|x l]; cbn [Nat.add skipn]; [destruct a; reflexivity | apply IH].
Qed.

Lemma ctx_safe_eq : forall pk st qs, stinv st ->
    ctx_safe pk st qs = match ctx_index pk qs with
                        | None => Err
                        | Some i => Ok (i, nth i (js_ctxs st) (mkCtx 0 0 0 0))
                        end.
  Proof.
    intros pk st qs [Hl _]. unfold ctx_safe. destruct (ctx_index pk qs) as [i|] eqn:E; [|reflexivity].
    assert (Hi : (i < 365)%nat).
    { unfold ctx_index in E. destruct ((ApplySign qs (BitwiseSign qs) <? 0) || (ApplySign qs (BitwiseSign qs) >=? 365)) eqn:Eb.
      - destruct pk; [discriminate | inversion E; lia].
      - inversion E. apply orb_false_iff in Eb. destruct Eb as [E1 E2].
        apply Z.ltb_ge in E1. destruct (Z.geb_spec (ApplySign qs (BitwiseSign qs)) 365); [discriminate | lia]. }
    destruct (nth_error (js_ctxs st) i) as [c|] eqn:En.
    - rewrite (nth_error_nth _ _ _ En). reflexivity.
    - apply nth_error_None in En. lia.
  Qed.


Section Line1Safe.
  Variables (pk : pkg) (p : jparams) (w h y pfp pn1 : Z) (prev : list Z).
  Hypothesis Hw : 1 <= w.
  Hypothesis Hy : 0 <= y < h.
  Hypothesis Hprev : y > 0 -> length prev = Z.to_nat w.

  Lemma pw_length : forall x, 0 <= x <= w -> y > 0 ->
    length (skipn (Z.to_nat x) (0 :: prev)) = (S (Z.to_nat w) - Z.to_nat x)%nat.
  Proof. intros x Hx Hy0. rewrite skipn_length. cbn [length]. rewrite (Hprev Hy0). reflexivity. Qed.

  Lemma neighbors1_safe_eq : forall x cur, 0 <= x < w -> length cur = Z.to_nat x ->
    neighbors1_safe w h y x pfp pn1 cur (skipn (Z.to_nat x) (0 :: prev)) =
    Ok (neighbors1 w y x pfp pn1 (match cur with l :: _ => l | [] => 0 end) (skipn (Z.to_nat x) (0 :: prev))).
  Proof.
    intros x cur Hx Hcur. unfold neighbors1_safe, neighbors1.
    destruct (Z.eqb_spec x 0) as [E|NE].
    - subst x. cbn [Z.to_nat skipn].
      destruct (Z.gtb_spec y 0) as [Hy0|Hy0]; cbn [andb]; [|reflexivity].
      destruct (Z.gtb_spec w 1) as [Hw1|Hw1]; [|reflexivity].
      destruct (Z.ltb_spec ((y - 1) * w + (0 + 1)) (w * h)); [|nia].
      rewrite wopt2_win by (cbn [length]; rewrite (Hprev ltac:(lia)); lia).
      rewrite fetch_ok by nia. reflexivity.
    - assert (Hc : (1 <= length cur)%nat) by lia.
      destruct cur as [|l0 cur']; [cbn in Hc; lia|]. cbn [wopt0].
      rewrite fetch_ok by nia. cbn [obind2].
      destruct (Z.gtb_spec y 0) as [Hy0|Hy0]; [|reflexivity].
      pose proof (pw_length x ltac:(lia) ltac:(lia)) as Hl.
      rewrite wopt1_win by lia. rewrite fetch_ok by nia. cbn [obind2].
      rewrite wopt0_win by lia. rewrite fetch_ok by nia. cbn [obind2].
      destruct (Z.ltb_spec x (w - 1)); [|reflexivity].
      rewrite wopt2_win by lia. rewrite fetch_ok by nia. reflexivity.
  Qed.

  Lemma line1_safe : forall fuel st x cur bits,
    stinv st -> 0 <= x <= w -> length cur = Z.to_nat x -> (Z.to_nat (w - x) <= fuel)%nat ->
    dec_line1_safe fuel pk p w h y pfp pn1 st x (skipn (Z.to_nat x) (0 :: prev)) cur bits =
    dec_line1 fuel pk p w y pfp pn1 st x (skipn (Z.to_nat x) (0 :: prev)) cur bits /\
    match dec_line1 fuel pk p w y pfp pn1 st x (skipn (Z.to_nat x) (0 :: prev)) cur bits with
    | Ok (st', cur', _) => stinv st' /\ length cur' = Z.to_nat w
    | Err => True
    | _ => False
    end.
  Proof.
    induction fuel as [|f IH]; intros st x cur bits Hst Hx Hcur Hfuel.
    - cbn [dec_line1_safe dec_line1]. destruct (Z.geb_spec x w); [|lia].
      split; [reflexivity|]. split; [exact Hst | rewrite Hcur; f_equal; lia].
    - cbn [dec_line1_safe dec_line1]. destruct (Z.geb_spec x w) as [Hge|Hlt].
      { split; [reflexivity|]. split; [exact Hst | rewrite Hcur; f_equal; lia]. }
      rewrite (neighbors1_safe_eq x cur ltac:(lia) Hcur). cbn [obind2].
      set (left := match cur with l :: _ => l | [] => 0 end).
      set (pw := skipn (Z.to_nat x) (0 :: prev)).
      destruct (neighbors1 w y x pfp pn1 left pw) as [[[ra rb] rc] rd].
      destruct (negb (context_qs p ra rb rc rd =? 0)).
      + (* regular *)
        rewrite (ctx_safe_eq pk st _ Hst).
        destruct (ctx_index pk (context_qs p ra rb rc rd)) as [i|]; [|split; [reflexivity | exact I]].
        cbn [obind2].
        destruct (regular_dec p (nth i (js_ctxs st) (mkCtx 0 0 0 0)) (context_qs p ra rb rc rd) ra rb rc bits)
          as [[[v c'] r]|]; cbn [lift obind2]; [|split; [reflexivity | exact I]].
        assert (Hchk : chk_idx (w * h) (y * w + x) = true).
        { unfold chk_idx. destruct (Z.leb_spec 0 (y * w + x)); [|nia]. destruct (Z.ltb_spec (y * w + x) (w * h)); [reflexivity | nia]. }
        rewrite Hchk.
        unfold pw. rewrite tl_skipn. replace (S (Z.to_nat x)) with (Z.to_nat (x + 1)) by lia.
        apply IH; [apply stinv_set_ctx; exact Hst | lia | cbn [length]; lia | lia].
      + (* run mode *)
        pose proof Hst as [Hl Hri].
        assert (HJ : J_ok (js_ri st) = true).
        { unfold J_ok. destruct (Z.leb_spec 0 (js_ri st)); [|lia]. destruct (Z.ltb_spec (js_ri st) 32); [reflexivity | lia]. }
        rewrite HJ. cbn [negb].
        destruct (DecodeRunLength bits (w - x) (js_ri st)) as [[[n ri'] r]|] eqn:Erl; cbn [lift obind2];
          [|split; [reflexivity | exact I]].
        destruct (DecodeRunLength_facts _ _ _ _ _ _ Erl Hri ltac:(lia)) as [Hn Hri'].
        assert (Hst1 : stinv (set_ri st ri')) by (apply stinv_set_ri; assumption).
        assert (Hcur1 : length (push_n (Z.to_nat n) ra cur) = Z.to_nat (x + n)).
        { clear - Hcur Hn Hx. assert (G : forall m v l, length (push_n m v l) = (m + length l)%nat).
          { induction m; intros; cbn [push_n]; [reflexivity|]. rewrite IHm. cbn [length]. lia. }
          rewrite G, Hcur. lia. }
        destruct (Z.geb_spec n (w - x)) as [Hall|Hless].
        * split; [reflexivity|]. split; [exact Hst1 | rewrite Hcur1; f_equal; lia].
        * set (pw1 := skipn (Z.to_nat n) pw).
          assert (Hpw1 : pw1 = skipn (Z.to_nat (x + n)) (0 :: prev)).
          { unfold pw1, pw. rewrite skipn_skipn_add. f_equal. lia. }
          (* rb *)
          assert (Hrb : (if ((y - 1) * w + (x + n) >=? 0) && ((y - 1) * w + (x + n) <? w * h)
                         then fetch (w * h) ((y - 1) * w + (x + n)) (wopt1 pw1) else Ok 0) =
                        Ok (if y >? 0 then win1 pw1 else 0)).
          { destruct (Z.gtb_spec y 0) as [Hy0|Hy0].
            - destruct (Z.geb_spec ((y - 1) * w + (x + n)) 0); [|nia].
              destruct (Z.ltb_spec ((y - 1) * w + (x + n)) (w * h)); [|nia]. cbn [andb].
              rewrite Hpw1. rewrite wopt1_win by (rewrite (pw_length (x + n) ltac:(lia) ltac:(lia)); lia).
              apply fetch_ok. nia.
            - destruct (Z.geb_spec ((y - 1) * w + (x + n)) 0); [nia | reflexivity]. }
          rewrite Hrb. cbn [obind2].
          assert (HJ' : J_ok ri' = true).
          { unfold J_ok. destruct (Z.leb_spec 0 ri'); [|lia]. destruct (Z.ltb_spec ri' 32); [reflexivity | lia]. }
          rewrite HJ'. cbn [negb].
          destruct (interrupt_dec pk p (set_ri st ri') ra (if y >? 0 then win1 pw1 else 0) r) as [[[recon st2] r']|] eqn:Ei;
            cbn [lift obind2]; [|split; [reflexivity | exact I]].
          destruct (interrupt_dec_st _ _ _ _ _ _ _ _ _ Ei) as [Hc2 Hr2].
          assert (Hst3 : stinv (set_ri st2 (dec_run_index (js_ri st2)))).
          { apply stinv_set_ri.
            - unfold stinv. rewrite Hc2, Hr2. exact Hst1.
            - apply dec_run_index_range. rewrite Hr2. cbn. exact Hri'. }
          rewrite Hpw1, tl_skipn. replace (S (Z.to_nat (x + n))) with (Z.to_nat (x + n + 1)) by lia.
          apply IH; [exact Hst3 | lia | cbn [length]; rewrite Hcur1; lia | lia].
  Qed.
End Line1Safe.

Lemma lines1_safe : forall pk p w h, 1 <= w ->
  forall hfuel y pfp pn1 st prev bits,
  stinv st -> 0 <= y -> y + Z.of_nat hfuel = h -> (y > 0 -> length prev = Z.to_nat w) ->
  dec_lines1_safe hfuel pk p w h (Z.to_nat w) y pfp pn1 st prev bits =
  dec_lines1 hfuel pk p w (Z.to_nat w) y pfp pn1 st prev bits /\
  match dec_lines1 hfuel pk p w (Z.to_nat w) y pfp pn1 st prev bits with
  | Ok _ | Err => True
  | _ => False
  end.
Proof.
  intros pk p w h Hw. induction hfuel as [|hf IH]; intros y pfp pn1 st prev bits Hst Hy Hh Hprev.
  - cbn. split; [reflexivity | exact I].
  - cbn [dec_lines1_safe dec_lines1].
    destruct (line1_safe pk p w h y pfp pn1 prev Hw ltac:(lia) Hprev (S (Z.to_nat w)) st 0 [] bits Hst ltac:(lia)
                ltac:(reflexivity) ltac:(lia)) as [Heq Hres].
    cbn [Z.to_nat skipn] in Heq, Hres. rewrite Heq.
    destruct (dec_line1 (S (Z.to_nat w)) pk p w y pfp pn1 st 0 (0 :: prev) [] bits) as [[[st' cur_rev] r]| | |];
      cbn [obind2]; try (split; [reflexivity | first [exact I | contradiction]]).
    destruct Hres as [Hst' Hlen].
    assert (Hl : length (frev cur_rev) = Z.to_nat w) by (rewrite frev_rev, rev_length; exact Hlen).
    destruct (IH (y + 1) (line_first (frev cur_rev)) pfp st' (frev cur_rev) r Hst' ltac:(lia) ltac:(lia) (fun _ => Hl))
      as [Heq2 Hres2].
    rewrite Heq2.
    destruct (dec_lines1 hf pk p w (Z.to_nat w) (y + 1) (line_first (frev cur_rev)) pfp st' (frev cur_rev) r);
      cbn [obind2]; split; try reflexivity; try exact I; try contradiction.
Qed.

(* ---------- three components ---------- *)

Lemma nb3_above_indep : forall w y x plf pplf l1 l2 pw sel,
  snd (fst (fst (nb3 w y x plf pplf l1 pw sel))) = snd (fst (fst (nb3 w y x plf pplf l2 pw sel))).
Proof. intros. unfold nb3, sampleNeighbors. destruct (x =? 0); reflexivity. Qed.

Section Line3Safe.
  Variables (pk : pkg) (p : jparams) (w h y : Z) (plf pplf : px3) (prev : list px3).
  Hypothesis Hw : 1 <= w.
  Hypothesis Hy : 0 <= y < h.
  Hypothesis Hprev : y > 0 -> length prev = Z.to_nat w.

  Lemma pw3_length : forall x, 0 <= x <= w -> y > 0 ->
    length (skipn (Z.to_nat x) (z3 :: prev)) = (S (Z.to_nat w) - Z.to_nat x)%nat.
  Proof. intros x Hx Hy0. rewrite skipn_length. cbn [length]. rewrite (Hprev Hy0). reflexivity. Qed.

  Lemma wopt0_w3 : forall l : list px3, (1 <= length l)%nat -> wopt0 l = Some (w3_0 l).
  Proof. intros [|a l] H; cbn in *; [lia | reflexivity]. Qed.
  Lemma wopt1_w3 : forall l : list px3, (2 <= length l)%nat -> wopt1 l = Some (w3_1 l).
  Proof. intros [|a [|b l]] H; cbn in *; try lia; reflexivity. Qed.
  Lemma wopt2m_w3 : forall l : list px3, (2 <= length l)%nat -> wopt2m l = Some (w3_2 l).
  Proof. intros [|a [|b [|c l]]] H; cbn in *; try lia; reflexivity. Qed.

  Lemma nb3_safe_eq : forall x cur comp sel, 0 <= x < w -> length cur = Z.to_nat x -> 0 <= comp <= 2 ->
    nb3_safe w h y x comp plf pplf cur (skipn (Z.to_nat x) (z3 :: prev)) sel =
    Ok (nb3 w y x plf pplf (match cur with l :: _ => l | [] => z3 end) (skipn (Z.to_nat x) (z3 :: prev)) sel).
  Proof.
    intros x cur comp sel Hx Hcur Hcomp. unfold nb3_safe, nb3, sampleNeighbors.
    destruct (Z.eqb_spec x 0) as [E|NE].
    - subst x. cbn [Z.to_nat skipn].
      destruct (Z.gtb_spec y 0) as [Hy0|Hy0]; cbn [andb]; [|reflexivity].
      destruct (Z.gtb_spec w 1) as [Hw1|Hw1]; [|reflexivity].
      rewrite wopt2m_w3 by (cbn [length]; rewrite (Hprev ltac:(lia)); lia).
      cbn [optsel]. rewrite fetch_ok by nia. reflexivity.
    - assert (Hc : (1 <= length cur)%nat) by lia.
      destruct (Z.gtb_spec y 0) as [Hy0|Hy0].
      + pose proof (pw3_length x ltac:(lia) ltac:(lia)) as Hl.
        rewrite wopt1_w3 by lia. cbn [optsel]. rewrite fetch_ok by nia. cbn [obind2].
        rewrite wopt0_w3 by lia. cbn [optsel]. rewrite fetch_ok by nia. cbn [obind2].
        rewrite wopt2m_w3 by lia. cbn [optsel].
        rewrite fetch_ok by (destruct (Z.min_spec (x + 1) (w - 1)) as [[_ ->]|[_ ->]]; nia). cbn [obind2].
        destruct cur as [|l0 cur']; [cbn in Hc; lia|]. cbn [wopt0 optsel].
        rewrite fetch_ok by nia. reflexivity.
      + cbn [obind2]. destruct cur as [|l0 cur']; [cbn in Hc; lia|]. cbn [wopt0 optsel].
        rewrite fetch_ok by nia. reflexivity.
  Qed.

  Lemma regular_dec_i_safe_eq : forall st qs ra rb rc bits, stinv st ->
    regular_dec_i_safe pk p st qs ra rb rc bits = lift (regular_dec_i pk p st qs ra rb rc bits).
  Proof.
    intros st qs ra rb rc bits Hst. unfold regular_dec_i_safe, regular_dec_i.
    rewrite (ctx_safe_eq pk st qs Hst). destruct (ctx_index pk qs) as [i|]; [|reflexivity]. cbn [obind2].
    destruct (regular_dec p (nth i (js_ctxs st) (mkCtx 0 0 0 0)) qs ra rb rc bits) as [[[v c'] r]|]; reflexivity.
  Qed.

  Lemma regular_dec_i_st : forall st qs ra rb rc bits v st' r, stinv st ->
    regular_dec_i pk p st qs ra rb rc bits = Some (v, st', r) -> stinv st'.
  Proof.
    intros st qs ra rb rc bits v st' r Hst H. unfold regular_dec_i in H.
    destruct (ctx_index pk qs) as [i|]; [|discriminate].
    destruct (regular_dec p (nth i (js_ctxs st) (mkCtx 0 0 0 0)) qs ra rb rc bits) as [[[v0 c'] r0]|]; [|discriminate].
    inversion H; subst. apply stinv_set_ctx. exact Hst.
  Qed.

  Lemma chk2 : forall a, 0 <= a -> a * 3 + 2 < w * h * 3 -> chk_idx (w * h * 3) (a * 3) && chk_idx (w * h * 3) (a * 3 + 2) = true.
  Proof.
    intros a Ha Hb. unfold chk_idx.
    destruct (Z.leb_spec 0 (a * 3)); [|lia]. destruct (Z.ltb_spec (a * 3) (w * h * 3)); [|lia].
    destruct (Z.leb_spec 0 (a * 3 + 2)); [|lia]. destruct (Z.ltb_spec (a * 3 + 2) (w * h * 3)); [reflexivity | lia].
  Qed.

  Lemma line3_safe : forall fuel st x cur bits,
    stinv st -> 0 <= x <= w -> length cur = Z.to_nat x -> (Z.to_nat (w - x) <= fuel)%nat ->
    dec_line3_safe fuel pk p w h y plf pplf st x (skipn (Z.to_nat x) (z3 :: prev)) cur bits =
    dec_line3 fuel pk p w y plf pplf st x (skipn (Z.to_nat x) (z3 :: prev)) cur bits /\
    match dec_line3 fuel pk p w y plf pplf st x (skipn (Z.to_nat x) (z3 :: prev)) cur bits with
    | Ok (st', cur', _) => stinv st' /\ length cur' = Z.to_nat w
    | Err => True
    | _ => False
    end.
  Proof.
    induction fuel as [|f IH]; intros st x cur bits Hst Hx Hcur Hfuel.
    - cbn [dec_line3_safe dec_line3]. destruct (Z.geb_spec x w); [|lia].
      split; [reflexivity|]. split; [exact Hst | rewrite Hcur; f_equal; lia].
    - cbn [dec_line3_safe dec_line3]. destruct (Z.geb_spec x w) as [Hge|Hlt].
      { split; [reflexivity|]. split; [exact Hst | rewrite Hcur; f_equal; lia]. }
      rewrite !(nb3_safe_eq x cur) by (try lia; exact Hcur). cbn [obind2].
      set (left := match cur with l :: _ => l | [] => z3 end).
      set (pw := skipn (Z.to_nat x) (z3 :: prev)).
      set (n0 := nb3 w y x plf pplf left pw p3_0). set (n1 := nb3 w y x plf pplf left pw p3_1).
      set (n2 := nb3 w y x plf pplf left pw p3_2).
      destruct ((qs_of p n0 =? 0) && (qs_of p n1 =? 0) && (qs_of p n2 =? 0)).
      + pose proof Hst as [Hl Hri].
        assert (HJ : J_ok (js_ri st) = true).
        { unfold J_ok. destruct (Z.leb_spec 0 (js_ri st)); [|lia]. destruct (Z.ltb_spec (js_ri st) 32); [reflexivity | lia]. }
        rewrite HJ. cbn [negb].
        destruct (DecodeRunLength bits (w - x) (js_ri st)) as [[[n ri'] r]|] eqn:Erl; cbn [lift obind2];
          [|split; [reflexivity | exact I]].
        destruct (DecodeRunLength_facts _ _ _ _ _ _ Erl Hri ltac:(lia)) as [Hn Hri'].
        assert (Hst1 : stinv (set_ri st ri')) by (apply stinv_set_ri; assumption).
        set (lv := (fst (fst (fst n0)), fst (fst (fst n1)), fst (fst (fst n2))) : px3).
        assert (Hcur1 : length (push_n3 (Z.to_nat n) lv cur) = Z.to_nat (x + n)).
        { assert (G : forall m v l, length (push_n3 m v l) = (m + length l)%nat).
          { clear. induction m; intros; cbn [push_n3]; [reflexivity|]. rewrite IHm. cbn [length]. lia. }
          rewrite G, Hcur. lia. }
        assert (Hfill : (n <=? 0) || (chk_idx (w * h * 3) ((y * w + x) * 3) && chk_idx (w * h * 3) ((y * w + (x + n - 1)) * 3 + 2)) = true).
        { destruct (Z.leb_spec n 0); [reflexivity|]. cbn [orb]. unfold chk_idx.
          destruct (Z.leb_spec 0 ((y * w + x) * 3)); [|nia]. destruct (Z.ltb_spec ((y * w + x) * 3) (w * h * 3)); [|nia].
          destruct (Z.leb_spec 0 ((y * w + (x + n - 1)) * 3 + 2)); [|nia].
          destruct (Z.ltb_spec ((y * w + (x + n - 1)) * 3 + 2) (w * h * 3)); [reflexivity | nia]. }
        rewrite Hfill. cbn [negb].
        destruct (Z.eqb_spec n (w - x)) as [Hall|Hless].
        * split; [reflexivity|]. split; [exact Hst1 | rewrite Hcur1; f_equal; lia].
        * assert (HJ' : J_ok ri' = true).
          { unfold J_ok. destruct (Z.leb_spec 0 ri'); [|lia]. destruct (Z.ltb_spec ri' 32); [reflexivity | lia]. }
          rewrite HJ'. cbn [negb].
          set (pw1 := skipn (Z.to_nat n) pw).
          assert (Hpw1 : pw1 = skipn (Z.to_nat (x + n)) (z3 :: prev)).
          { unfold pw1, pw. rewrite skipn_skipn_add. f_equal. lia. }
          rewrite Hpw1.
          rewrite !(nb3_safe_eq (x + n) (push_n3 (Z.to_nat n) lv cur)) by (try lia; exact Hcur1). cbn [obind2].
          set (lf := match push_n3 (Z.to_nat n) lv cur with l :: _ => l | [] => z3 end).
          rewrite (nb3_above_indep w y (x + n) plf pplf lf lv _ p3_0).
          rewrite (nb3_above_indep w y (x + n) plf pplf lf lv _ p3_1).
          rewrite (nb3_above_indep w y (x + n) plf pplf lf lv _ p3_2).
          set (pwx := skipn (Z.to_nat (x + n)) (z3 :: prev)).
          destruct (interrupt_dec_i p (set_ri st ri') (p3_0 lv) (snd (fst (fst (nb3 w y (x + n) plf pplf lv pwx p3_0)))) r)
            as [[[r0 s0] b0]|] eqn:E0; cbn [lift obind2]; [|split; [reflexivity | exact I]].
          destruct (interrupt_dec_i p s0 (p3_1 lv) (snd (fst (fst (nb3 w y (x + n) plf pplf lv pwx p3_1)))) b0)
            as [[[r1 s1] b1]|] eqn:E1; cbn [lift obind2]; [|split; [reflexivity | exact I]].
          destruct (interrupt_dec_i p s1 (p3_2 lv) (snd (fst (fst (nb3 w y (x + n) plf pplf lv pwx p3_2)))) b1)
            as [[[r2 s2] b2]|] eqn:E2; cbn [lift obind2]; [|split; [reflexivity | exact I]].
          destruct (interrupt_dec_i_st _ _ _ _ _ _ _ _ E0) as [C0 R0].
          destruct (interrupt_dec_i_st _ _ _ _ _ _ _ _ E1) as [C1 R1].
          destruct (interrupt_dec_i_st _ _ _ _ _ _ _ _ E2) as [C2 R2].
          rewrite (chk2 (y * w + (x + n)) ltac:(nia) ltac:(nia)).
          assert (Hst3 : stinv (set_ri s2 (dec_run_index (js_ri s2)))).
          { apply stinv_set_ri.
            - unfold stinv. rewrite C2, C1, C0, R2, R1, R0. exact Hst1.
            - apply dec_run_index_range. rewrite R2, R1, R0. cbn. exact Hri'. }
          unfold pwx. rewrite tl_skipn. replace (S (Z.to_nat (x + n))) with (Z.to_nat (x + n + 1)) by lia.
          apply IH; [exact Hst3 | lia | cbn [length]; rewrite Hcur1; lia | lia].
      + destruct n0 as [[[ra0 rb0] rc0] rd0]. destruct n1 as [[[ra1 rb1] rc1] rd1]. destruct n2 as [[[ra2 rb2] rc2] rd2].
        rewrite (regular_dec_i_safe_eq st _ _ _ _ _ Hst).
        destruct (regular_dec_i pk p st (qs_of p (ra0, rb0, rc0, rd0)) ra0 rb0 rc0 bits) as [[[v0 s0] b0]|] eqn:E0;
          cbn [lift obind2]; [|split; [reflexivity | exact I]].
        pose proof (regular_dec_i_st _ _ _ _ _ _ _ _ _ Hst E0) as Hs0.
        rewrite (regular_dec_i_safe_eq s0 _ _ _ _ _ Hs0).
        destruct (regular_dec_i pk p s0 (qs_of p (ra1, rb1, rc1, rd1)) ra1 rb1 rc1 b0) as [[[v1 s1] b1]|] eqn:E1;
          cbn [lift obind2]; [|split; [reflexivity | exact I]].
        pose proof (regular_dec_i_st _ _ _ _ _ _ _ _ _ Hs0 E1) as Hs1.
        rewrite (regular_dec_i_safe_eq s1 _ _ _ _ _ Hs1).
        destruct (regular_dec_i pk p s1 (qs_of p (ra2, rb2, rc2, rd2)) ra2 rb2 rc2 b1) as [[[v2 s2] b2]|] eqn:E2;
          cbn [lift obind2]; [|split; [reflexivity | exact I]].
        pose proof (regular_dec_i_st _ _ _ _ _ _ _ _ _ Hs1 E2) as Hs2.
        rewrite (chk2 (y * w + x) ltac:(nia) ltac:(nia)).
        unfold pw. rewrite tl_skipn. replace (S (Z.to_nat x)) with (Z.to_nat (x + 1)) by lia.
        apply IH; [exact Hs2 | lia | cbn [length]; lia | lia].
  Qed.
End Line3Safe.

Lemma lines3_safe : forall pk p w h, 1 <= w ->
  forall hfuel y plf pplf st prev bits,
  stinv st -> 0 <= y -> y + Z.of_nat hfuel = h -> (y > 0 -> length prev = Z.to_nat w) ->
  dec_lines3_safe hfuel pk p w h (Z.to_nat w) y plf pplf st prev bits =
  dec_lines3 hfuel pk p w (Z.to_nat w) y plf pplf st prev bits /\
  match dec_lines3 hfuel pk p w (Z.to_nat w) y plf pplf st prev bits with
  | Ok _ | Err => True
  | _ => False
  end.
Proof.
  intros pk p w h Hw. induction hfuel as [|hf IH]; intros y plf pplf st prev bits Hst Hy Hh Hprev.
  - cbn. split; [reflexivity | exact I].
  - cbn [dec_lines3_safe dec_lines3].
    destruct (line3_safe pk p w h y plf pplf prev Hw ltac:(lia) Hprev (S (Z.to_nat w)) st 0 [] bits Hst ltac:(lia)
                ltac:(reflexivity) ltac:(lia)) as [Heq Hres].
    cbn [Z.to_nat skipn] in Heq, Hres. rewrite Heq.
    destruct (dec_line3 (S (Z.to_nat w)) pk p w y plf pplf st 0 (z3 :: prev) [] bits) as [[[st' cur_rev] r]| | |];
      cbn [obind2]; try (split; [reflexivity | first [exact I | contradiction]]).
    destruct Hres as [Hst' Hlen].
    assert (Hl : length (frev cur_rev) = Z.to_nat w) by (rewrite frev_rev, rev_length; exact Hlen).
    assert (Hchk : chk_idx (w * h * 3) (y * w * 3) && chk_idx (w * h * 3) (y * w * 3 + 2) = true).
    { unfold chk_idx. destruct (Z.leb_spec 0 (y * w * 3)); [|nia]. destruct (Z.ltb_spec (y * w * 3) (w * h * 3)); [|nia].
      destruct (Z.leb_spec 0 (y * w * 3 + 2)); [|nia]. destruct (Z.ltb_spec (y * w * 3 + 2) (w * h * 3)); [reflexivity | nia]. }
    rewrite Hchk. cbn [negb].
    destruct (frev cur_rev) as [|first rest] eqn:Ef; [cbn [length] in Hl; lia|].
    cbn [line_first3].
    destruct (IH (y + 1) first plf st' (first :: rest) r Hst' ltac:(lia) ltac:(lia) (fun _ => Hl))
      as [Heq2 Hres2].
    rewrite Heq2.
    destruct (dec_lines3 hf pk p w (Z.to_nat w) (y + 1) first plf st' (first :: rest) r);
      cbn [obind2]; split; try reflexivity; try exact I; try contradiction.
Qed.

(* ---------- frame state ---------- *)

Definition dinv (d : dstate) : Prop :=
  0 <= d_maxval d /\ ((d_w d = 0 /\ d_h d = 0 /\ d_comps d = 0) \/
                      (1 <= d_w d /\ 1 <= d_h d /\ (d_comps d = 1 \/ d_comps d = 3))).

Lemma ccp_safe_ok : forall maxVal near reset, 0 <= maxVal ->
  ccp_safe maxVal near reset = Ok (ComputeCodingParameters maxVal near reset).
Proof.
  intros maxVal near reset Hm. unfold ccp_safe.
  destruct (Z.eqb_spec (2 * near + 1) 0); [lia|].
  destruct (Z.ltb_spec maxVal 128); cbn [andb]; [|reflexivity].
  destruct (Z.eqb_spec (maxVal + 1) 0); [lia|]. cbn [orb].
  assert (2 <= Z.quot 256 (maxVal + 1)).
  { rewrite Z.quot_div_nonneg by lia. apply Z.div_le_lower_bound; lia. }
  destruct (Z.eqb_spec (Z.quot 256 (maxVal + 1)) 0); [lia | reflexivity].
Qed.

Lemma zn_chk_ok : forall l i, 0 <= i < zlen l -> zn_chk l i = Ok (zn l i).
Proof.
  intros l i H. unfold zn_chk, chk_idx. destruct (Z.leb_spec 0 i); [|lia]. destruct (Z.ltb_spec i (zlen l)); [reflexivity | lia].
Qed.

Lemma go_maxval_nonneg : forall bd, 2 <= bd <= 16 -> 0 <= go_maxval bd.
Proof.
  intros bd H. unfold go_maxval. rewrite Z.shiftl_1_l.
  assert (0 < 2 ^ bd) by (apply Z.pow_pos_nonneg; lia).
  assert (2 ^ bd <= 2 ^ 16) by (apply Z.pow_le_mono_r; lia). change (2 ^ 16) with 65536 in *.
  assert (W : forall x, 0 <= x < 2 ^ 63 -> wrapS 64 x = x).
  { intros x Hx. unfold wrapS. change (64 - 1) with 63. change (2 ^ 63) with 9223372036854775808 in *.
    change (2 ^ 64) with 18446744073709551616. rewrite Z.mod_small by lia.
    destruct (Z.ltb_spec x 9223372036854775808); lia. }
  rewrite (W (2 ^ bd)) by (change (2 ^ 63) with 9223372036854775808; lia).
  rewrite W by (change (2 ^ 63) with 9223372036854775808; lia). lia.
Qed.

Lemma parse_sof_safe_eq : forall pk d data, dinv d ->
  parse_sof_safe pk d data = parse_sof pk d data /\
  match parse_sof pk d data with Ok d' => dinv d' | Err => True | _ => False end.
Proof.
  intros pk d data [Hm Hd]. unfold parse_sof_safe, parse_sof.
  destruct (Z.ltb_spec (zlen data) 6); [split; [reflexivity | exact I]|].
  rewrite !zn_chk_ok by lia. cbn [obind2].
  destruct (negb (d_w d =? 0) || negb (d_h d =? 0)); [split; [reflexivity | exact I]|].
  set (bd := zn data 0).
  set (hh := Z.lor (Z.shiftl (zn data 1) 8) (zn data 2)). set (ww := Z.lor (Z.shiftl (zn data 3) 8) (zn data 4)).
  destruct (Z.leb_spec ww 0); [split; [reflexivity | exact I]|].
  destruct (Z.leb_spec hh 0); [split; [reflexivity | exact I]|]. cbn [orb].
  destruct (Z.eqb_spec (zn data 5) 1) as [E1|N1]; destruct (Z.eqb_spec (zn data 5) 3) as [E3|N3]; cbn [negb andb];
    try (split; [reflexivity | exact I]);
    (destruct (Z.ltb_spec bd 2); [split; [reflexivity | exact I]|];
     destruct (Z.gtb_spec bd 16); [split; [reflexivity | exact I]|]; cbn [orb];
     pose proof (go_maxval_nonneg bd ltac:(lia)) as Hmv;
     destruct pk;
     [ unfold ll_init_params; cbn [d_maxval];
       rewrite (ccp_safe_ok _ 0 64 Hmv); cbn [obind2]; split; [reflexivity|];
       unfold dinv; cbn [d_maxval d_w d_h d_comps]; split; [exact Hmv | right; lia]
     | split; [reflexivity|]; unfold dinv; cbn [d_maxval d_w d_h d_comps]; split; [exact Hmv | right; lia] ]).
Qed.

Lemma ll_init_params_dinv : forall d maxVal reset t1 t2 t3 d', dinv d -> 0 <= maxVal ->
  ll_init_params d maxVal reset t1 t2 t3 = Ok d' -> dinv d'.
Proof.
  intros d maxVal reset t1 t2 t3 d' [Hm Hd] Hmv H. unfold ll_init_params in H. inversion H; subst.
  unfold dinv. cbn [d_maxval d_w d_h d_comps]. split; assumption.
Qed.

Lemma parse_lse_safe_eq : forall pk d data, dinv d ->
  parse_lse_safe pk d data = parse_lse pk d data /\
  match parse_lse pk d data with Ok d' => dinv d' | Err => True | _ => False end.
Proof.
  intros pk d data Hd. pose proof Hd as [Hm Hdd]. unfold parse_lse_safe, parse_lse.
  destruct (Z.ltb_spec (zlen data) 1); [split; [reflexivity | exact I]|].
  rewrite zn_chk_ok by lia. cbn [obind2].
  destruct pk.
  - destruct (zn data 0 =? 1); [|split; [reflexivity | exact Hd]].
    destruct (Z.ltb_spec (zlen data) 11); [split; [reflexivity | exact I]|].
    rewrite zn_chk_ok by lia. cbn [obind2].
    set (mv := Z.lor (Z.shiftl (zn data 1) 8) (zn data 2)).
    assert (Hmv : 0 <= (if mv <=? 0 then d_maxval d else mv)) by (destruct (Z.leb_spec mv 0); lia).
    rewrite (ccp_safe_ok _ 0 _ Hmv). cbn [obind2].
    split; [reflexivity|].
    unfold ll_init_params. unfold dinv. cbn [d_maxval d_w d_h d_comps]. split; [exact Hmv | exact Hdd].
  - destruct ((zn data 0 =? 1) && (zlen data >=? 11)) eqn:E; [|split; [reflexivity | exact Hd]].
    apply andb_true_iff in E. destruct E as [_ E]. apply Z.geb_le in E.
    rewrite zn_chk_ok by lia. cbn [obind2]. split; [reflexivity|].
    unfold dinv. cbn [d_maxval d_w d_h d_comps]. split; [|exact Hdd].
    destruct (Z.gtb_spec (Z.lor (Z.shiftl (zn data 1) 8) (zn data 2)) 0); lia.
Qed.

Lemma parse_sos_safe_eq : forall pk d data, dinv d ->
  parse_sos_safe pk d data = parse_sos pk d data /\
  match parse_sos pk d data with Ok _ | Err => True | _ => False end.
Proof.
  intros pk d data [Hm Hd]. unfold parse_sos_safe.
  assert (Hcls : match parse_sos pk d data with Ok _ | Err => True | _ => False end).
  { unfold parse_sos. destruct (zlen data <? 4); [exact I|]. destruct (negb (zn data 0 =? d_comps d)); [exact I|].
    destruct ((d_comps d =? 1) && negb (zn data (zlen data - 2) =? 0)); [exact I|].
    destruct ((d_comps d >? 1) && negb (zn data (zlen data - 2) =? 2)); [exact I|]. destruct pk; exact I. }
  destruct (Z.ltb_spec (zlen data) 4) as [Hs|Hl].
  - split; [|exact Hcls]. unfold parse_sos. destruct (Z.ltb_spec (zlen data) 4); [reflexivity | lia].
  - rewrite !zn_chk_ok by lia. cbn [obind2]. split; [|exact Hcls].
    destruct pk; [reflexivity|].
    destruct (parse_sos PkNear d data) as [r| | |]; try reflexivity.
    rewrite ccp_safe_ok by exact Hm. reflexivity.
Qed.

(* ---------- scan, segments, whole decoder ---------- *)

Lemma jst_init_stinv : forall p, stinv (jst_init p).
Proof. intros p. unfold stinv, jst_init. cbn [js_ctxs js_ri]. rewrite repeat_length. split; [reflexivity | lia]. Qed.

(* result classes: never Panic; OutOfFuel only through the sample budget *)
Definition res_ok (budget_hit : Prop) {A} (o : outcome A) : Prop :=
  match o with Ok _ | Err => True | Panic => False | OutOfFuel => budget_hit end.

Lemma decode_scan_safe_eq : forall pk lim d p near rest, dinv d ->
  decode_scan_safe pk lim d p near rest = decode_scan pk lim d p near rest /\
  res_ok (d_w d * d_h d * d_comps d > lim) (decode_scan pk lim d p near rest).
Proof.
  intros pk lim d p near rest [Hm Hd]. unfold decode_scan_safe, decode_scan.
  destruct (Z.gtb_spec (d_w d * d_h d * d_comps d) lim) as [Hb|Hb]; [split; [reflexivity | cbn [res_ok]; lia]|].
  set (bits := jls_bits_of_bytes (scan_bytes pk rest)).
  destruct Hd as [(Hw0 & Hh0 & Hc0) | (Hw1 & Hh1 & Hc)].
  - rewrite Hw0, Hh0, Hc0. cbn. split; [reflexivity | exact I].
  - destruct (Z.gtb_spec (d_comps d) 1) as [H3|H1].
    + destruct (lines3_safe pk p (d_w d) (d_h d) Hw1 (Z.to_nat (d_h d)) 0 z3 z3 (jst_init p) [] bits
                  (jst_init_stinv p) ltac:(lia) ltac:(lia) ltac:(lia)) as [Heq Hres].
      rewrite Heq.
      destruct (dec_lines3 (Z.to_nat (d_h d)) pk p (d_w d) (Z.to_nat (d_w d)) 0 z3 z3 (jst_init p) [] bits);
        cbn [obind2]; split; try reflexivity; try exact I; try contradiction.
    + destruct (lines1_safe pk p (d_w d) (d_h d) Hw1 (Z.to_nat (d_h d)) 0 0 0 (jst_init p) [] bits
                  (jst_init_stinv p) ltac:(lia) ltac:(lia) ltac:(lia)) as [Heq Hres].
      rewrite Heq.
      destruct (dec_lines1 (Z.to_nat (d_h d)) pk p (d_w d) (Z.to_nat (d_w d)) 0 0 0 (jst_init p) [] bits);
        cbn [obind2]; split; try reflexivity; try exact I; try contradiction.
Qed.

Lemma skip_ff_shorter : forall bs m r, skip_ff bs = Some (m, r) -> (length r < length bs)%nat.
Proof.
  induction bs as [|b t IH]; intros m r H; cbn [skip_ff] in H; [discriminate|].
  destruct (b =? 255); [apply IH in H; cbn [length]; lia|].
  destruct (b =? 0); [discriminate|]. inversion H; subst. cbn [length]. lia.
Qed.

Lemma read_marker_shorter : forall bs m r, read_marker bs = Some (m, r) -> (length r < length bs)%nat.
Proof.
  intros [|b t] m r H; cbn [read_marker] in H; [discriminate|].
  destruct (b =? 255); [|discriminate]. apply skip_ff_shorter in H. cbn [length]. lia.
Qed.

Lemma read_segment_shorter : forall bs data r, read_segment bs = Some (data, r) -> (length r <= length bs)%nat.
Proof.
  intros [|hi [|lo t]] data r H; cbn [read_segment] in H; try discriminate.
  destruct (Z.lor (Z.shiftl hi 8) lo <? 2); [discriminate|].
  destruct (length t <? Z.to_nat (Z.lor (Z.shiftl hi 8) lo - 2))%nat; [discriminate|].
  inversion H; subst. rewrite skipn_length. cbn [length]. lia.
Qed.

(* the sample budget is the only way to run out of fuel; the declared size is what the decoder
   multiplies out of the frame header it accepted *)
Inductive budget_hit (lim : Z) : Prop :=
  | BudgetHit : forall w h c, 0 <= w -> 0 <= h -> 0 <= c <= 3 -> w * h * c > lim -> budget_hit lim.

Lemma decode_segments_safe_eq : forall pk lim fuel d bs, dinv d -> (length bs < fuel)%nat ->
  decode_segments_safe fuel pk lim d bs = decode_segments fuel pk lim d bs /\
  res_ok (budget_hit lim) (decode_segments fuel pk lim d bs).
Proof.
  intros pk lim. induction fuel as [|f IH]; intros d bs Hd Hf; [lia|].
  cbn [decode_segments_safe decode_segments].
  destruct (read_marker bs) as [[m r]|] eqn:Em; [|split; [reflexivity | exact I]].
  pose proof (read_marker_shorter _ _ _ Em) as Hr.
  destruct (m =? 247).
  { destruct (read_segment r) as [[data r']|] eqn:Es; [|split; [reflexivity | exact I]].
    pose proof (read_segment_shorter _ _ _ Es).
    destruct (parse_sof_safe_eq pk d data Hd) as [Heq Hc]. rewrite Heq.
    destruct (parse_sof pk d data) as [d'| | |]; cbn [obind2]; try (split; [reflexivity | first [exact I | contradiction]]).
    apply IH; [exact Hc | lia]. }
  destruct (m =? 248).
  { destruct (read_segment r) as [[data r']|] eqn:Es; [|split; [reflexivity | exact I]].
    pose proof (read_segment_shorter _ _ _ Es).
    destruct (parse_lse_safe_eq pk d data Hd) as [Heq Hc]. rewrite Heq.
    destruct (parse_lse pk d data) as [d'| | |]; cbn [obind2]; try (split; [reflexivity | first [exact I | contradiction]]).
    apply IH; [exact Hc | lia]. }
  destruct (m =? 218).
  { destruct (read_segment r) as [[data r']|] eqn:Es; [|split; [reflexivity | exact I]].
    destruct (parse_sos_safe_eq pk d data Hd) as [Heq Hc]. rewrite Heq.
    destruct (parse_sos pk d data) as [[p near]| | |]; cbn [obind2]; try (split; [reflexivity | first [exact I | contradiction]]).
    destruct (decode_scan_safe_eq pk lim d p near r' Hd) as [Heq2 Hc2]. rewrite Heq2. split; [reflexivity|].
    destruct (decode_scan pk lim d p near r'); try exact I; try contradiction.
    cbn [res_ok] in *. destruct Hd as [Hm [(E1 & E2 & E3) | (H1 & H2 & H3)]].
    - rewrite E1, E2, E3 in Hc2. apply (BudgetHit lim 0 0 0); lia.
    - apply (BudgetHit lim (d_w d) (d_h d) (d_comps d)); lia. }
  destruct (m =? 217); [split; [reflexivity | exact I]|].
  destruct (is_sof m); [split; [reflexivity | exact I]|].
  destruct ((m =? 216) || is_rst m); [apply IH; [exact Hd | lia]|].
  destruct (read_segment r) as [[data r']|] eqn:Es; [|split; [reflexivity | exact I]].
  pose proof (read_segment_shorter _ _ _ Es). apply IH; [exact Hd | lia].
Qed.

Lemma dst_init_dinv : dinv dst_init.
Proof. unfold dinv, dst_init. cbn. split; [lia | left; auto]. Qed.

(* jls_decode_safe_eq: the index-explicit decoders are the decoder models *)
Theorem decode_image_safe_eq : forall pk lim bs, decode_image_safe pk lim bs = decode_image pk lim bs.
Proof.
  intros pk lim bs. unfold decode_image_safe, decode_image.
  destruct (read_marker bs) as [[m r]|]; [|reflexivity]. destruct (m =? 216); [|reflexivity].
  apply decode_segments_safe_eq; [exact dst_init_dinv | lia].
Qed.

(* jls_decode_total: for ANY byte list the decoder models (both packages) return Ok or Err; they
   never panic (no index of the Go code can be out of range, no division by zero), and the only
   OutOfFuel is the explicit sample budget: a frame header declaring more than lim samples *)
Theorem decode_image_total : forall pk lim bs, res_ok (budget_hit lim) (decode_image pk lim bs).
Proof.
  intros pk lim bs. unfold decode_image.
  destruct (read_marker bs) as [[m r]|]; [|exact I]. destruct (m =? 216); [|exact I].
  apply decode_segments_safe_eq; [exact dst_init_dinv | lia].
Qed.

Corollary jls_decode_total : forall lim bs,
  res_ok (budget_hit lim) (jls_decode lim bs) /\ jls_decode_safe lim bs = jls_decode lim bs.
Proof. intros. split; [apply decode_image_total | apply decode_image_safe_eq]. Qed.

Corollary jlsn_decode_total : forall lim bs,
  res_ok (budget_hit lim) (jlsn_decode lim bs) /\ jlsn_decode_safe lim bs = jlsn_decode lim bs.
Proof. intros. split; [apply decode_image_total | apply decode_image_safe_eq]. Qed.
