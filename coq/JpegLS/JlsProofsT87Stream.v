(* C14: the independent T.87 decoder (JlsT87Dec) on the streams of the library encoder model:
   scan level and stream level, built on the line lockstep of JlsProofsT87Line. *)
From V Require Import Common.Base JpegLS.JlsParams JpegLS.JlsGolomb JpegLS.JlsRun JpegLS.JlsModel JpegLS.JlsT87Dec.
From V Require Import JpegLS.JlsProofsParams JpegLS.JlsProofsGolomb JpegLS.JlsProofsWriter JpegLS.JlsProofsSample
                      JpegLS.JlsProofsRun JpegLS.JlsProofsNear0 JpegLS.JlsProofsInterrupt JpegLS.JlsProofsLine
                      JpegLS.JlsProofsLine3 JpegLS.JlsProofsScan JpegLS.JlsProofsStream JpegLS.JlsProofsT87
                      JpegLS.JlsProofsT87Line JpegLS.JlsProofsT87Line3.

(* ---------- initial states ---------- *)

Lemma Forall_repeat' : forall (A : Type) (Q : A -> Prop) a n, Q a -> Forall Q (repeat a n).
Proof. intros A Q a n H. induction n; cbn; constructor; assumption. Qed.

Lemma Forall2_repeat : forall (A B : Type) (R : A -> B -> Prop) a b n, R a b -> Forall2 R (repeat a n) (repeat b n).
Proof. intros A B R a b n H. induction n; cbn; constructor; assumption. Qed.

Lemma init_rel : forall P near, 2 <= P <= 16 -> 0 <= near <= near_max P ->
  sinv (jst_init (jls_params P near)) /\ st_rel (t87_init (jls_params P near)) (jst_init (jls_params P near)).
Proof.
  intros P near HP Hn.
  destruct (params_match_T87 P near HP Hn) as [Hpar Ha]. rewrite <- Hpar in Ha.
  destruct (jls_params_facts P near HP Hn).
  set (p := jls_params P near) in *.
  assert (HR : jp_range p <= 65536).
  { assert (2 ^ jp_qbpp p <= 2 ^ 16) by (apply Z.pow_le_mono_r; lia). change (2 ^ 16) with 65536 in *. lia. }
  assert (Hai : a_init (jp_range p) <= 65536).
  { unfold a_init. assert (Z.quot (jp_range p + 32) 64 <= 1025).
    { rewrite Z.quot_div_nonneg by lia. apply Z.div_le_upper_bound; lia. }
    lia. }
  split.
  - split; [apply jst_init_ok; assumption|]. unfold jst_init. cbn [js_ctxs]. split; [|apply repeat_length].
    apply Forall_repeat'. unfold ctx_bounds, new_ctx. cbn. lia.
  - unfold st_rel, t87_init, jst_init. cbn [ts_ctx ts_r365 ts_r366 ts_runindex js_ctxs js_rc0 js_rc1 js_ri].
    rewrite <- Ha.
    split; [apply Forall2_repeat; unfold ctx_rel, new_ctx; cbn; auto|].
    unfold run_rel, new_runctx. cbn. auto.
Qed.

(* ---------- the entropy-coded segment as bits ---------- *)

Lemma t87_byte_bits8 : forall b, t87_byte_bits 8 b = byte_bits8 b.
Proof. intros b. unfold byte_bits8. cbn [t87_byte_bits Z.of_nat Pos.of_succ_nat Pos.succ]. rewrite <- !Z.testbit_odd. reflexivity. Qed.
Lemma t87_byte_bits7 : forall b, t87_byte_bits 7 b = byte_bits7 b.
Proof. intros b. unfold byte_bits7. cbn [t87_byte_bits Z.of_nat Pos.of_succ_nat Pos.succ]. rewrite <- !Z.testbit_odd. reflexivity. Qed.

Lemma land128_small : forall b, 0 <= b < 128 -> Z.land b 128 = 0.
Proof.
  intros b Hb. apply Z.bits_inj'. intros n Hn. rewrite Z.land_spec, Z.bits_0.
  destruct (Z.eq_dec n 7) as [->|Hne].
  - destruct (Z.eq_dec b 0) as [->|Hb0]; [reflexivity|].
    rewrite (Z.bits_above_log2 b 7); [reflexivity | lia |].
    apply Z.log2_lt_pow2; [lia|]. change (2 ^ 7) with 128. lia.
  - change 128 with (2 ^ 7). rewrite Z.pow2_bits_false by lia. apply andb_false_r.
Qed.

Lemma ecs_bits_eq : forall bs ff, jls_marker_free bs = true ->
  t87_ecs_bits (bs ++ [255; 217]) ff = jls_bits_go bs ff.
Proof.
  induction bs as [|b r IH]; intros ff Hmf.
  - reflexivity.
  - cbn [jls_marker_free] in Hmf. apply andb_true_iff in Hmf. destruct Hmf as [Hb Hr].
    cbn [app t87_ecs_bits jls_bits_go].
    destruct (Z.eqb_spec b 255) as [E|NE].
    + destruct r as [|b2 r2]; [discriminate|]. cbn [app].
      apply andb_true_iff in Hb. destruct Hb as [Hb0 Hb1]. apply Z.ltb_lt in Hb1. apply Z.leb_le in Hb0.
      destruct (Z.geb_spec b2 128); [lia|].
      rewrite land128_small by lia. cbn [Z.eqb].
      change (b2 :: r2 ++ [255; 217]) with ((b2 :: r2) ++ [255; 217]). rewrite (IH true Hr).
      destruct ff; [rewrite t87_byte_bits7 | rewrite t87_byte_bits8]; reflexivity.
    + rewrite (IH false Hr).
      destruct ff; [rewrite t87_byte_bits7 | rewrite t87_byte_bits8]; reflexivity.
Qed.

(* ---------- output container ---------- *)

Lemma sample_bytes_eq : forall P l, 2 <= P <= 16 -> Forall (in_range P) l ->
  flat_map (t87_sample_bytes P) l = integersToPixels P (2 ^ P - 1) l.
Proof.
  intros P l HP Hl. pose proof (pow2_bounds P HP) as Hpb.
  unfold integersToPixels, t87_sample_bytes.
  destruct (Z.leb_spec P 8) as [H8|H8].
  - assert (2 ^ P <= 2 ^ 8) by (apply Z.pow_le_mono_r; lia). change (2 ^ 8) with 256 in *.
    induction Hl as [|v t Hv Ht IH]; [reflexivity|]. cbn [flat_map integersToPixels8 app].
    unfold in_range in Hv. unfold clamp_sample.
    destruct (Z.ltb_spec v 0); [lia|]. destruct (Z.gtb_spec v (2 ^ P - 1)); [lia|].
    rewrite wrapU8_small by lia. rewrite IH. reflexivity.
  - assert (2 ^ P <= 2 ^ 16) by (apply Z.pow_le_mono_r; lia). change (2 ^ 16) with 65536 in *.
    induction Hl as [|v t Hv Ht IH]; [reflexivity|]. cbn [flat_map integersToPixels16 app].
    unfold in_range in Hv. cbv zeta. unfold clamp_sample.
    destruct (Z.ltb_spec v 0); [lia|]. destruct (Z.gtb_spec v (2 ^ P - 1)); [lia|].
    change 255 with (Z.ones 8). rewrite !Z.land_ones by lia. rewrite Z.shiftr_div_pow2 by lia.
    change (2 ^ 8) with 256.
    assert (0 <= v / 256 < 256) by (Z.div_mod_to_equations; lia).
    assert (0 <= v mod 256 < 256) by (Z.div_mod_to_equations; lia).
    rewrite (Z.mod_small (v / 256) 256) by lia.
    rewrite !wrapU8_small by lia. rewrite IH. reflexivity.
Qed.

Lemma t87_zip_1 : forall f l, (length l < f)%nat -> t87_zip f [l] = l.
Proof.
  induction f as [|f IH]; intros l Hl; [lia|].
  destruct l as [|a t]; [reflexivity|]. cbn [t87_zip forallb andb map hd tl app]. rewrite IH by (cbn in Hl; lia). reflexivity.
Qed.

Lemma zip_lines_1 : forall wn lines, Forall (fun l => length l = wn) lines ->
  flat_map (t87_zip (S wn)) (map (fun l => [l]) lines) = concat lines.
Proof.
  intros wn lines H. induction H as [|l t Hl Ht IH]; [reflexivity|].
  cbn [map flat_map concat]. rewrite t87_zip_1 by lia. rewrite IH. reflexivity.
Qed.

(* ---------- headers ---------- *)

Lemma be_split_arith : forall v, 0 <= v < 65536 ->
  t87_u16 (wrapU 8 (Z.shiftr v 8)) (wrapU 8 (Z.land v 255)) = v.
Proof.
  intros v Hv. unfold t87_u16. rewrite Z.shiftr_div_pow2 by lia.
  change 255 with (Z.ones 8). rewrite Z.land_ones by lia. change (2 ^ 8) with 256.
  assert (0 <= v / 256 < 256) by (Z.div_mod_to_equations; lia).
  assert (0 <= v mod 256 < 256) by (Z.div_mod_to_equations; lia).
  rewrite !wrapU8_small by lia. Z.div_mod_to_equations; lia.
Qed.

Definition t87_scan (P near w h comps : Z) (bits : list bool) : outcome t87_image :=
  let p := t87_params P near in
  let wn := Z.to_nat w in
  match t87_lines (Z.to_nat h) p (comps =? 1) w wn (t87_init p) (repeat ([], 0) (Z.to_nat comps)) bits with
  | None => Err
  | Some ls => Ok (mkT87Img (flat_map (t87_sample_bytes P) (flat_map (t87_zip (S wn)) ls)) w h comps P near)
  end.

Lemma t87_seg_sof1 : forall f lim a1 a2 a3 a4 a5 a6 a7 a8 a9 r,
  t87_segments (S f) lim None (255 :: 247 :: 0 :: 11 :: a1 :: a2 :: a3 :: a4 :: a5 :: a6 :: a7 :: a8 :: a9 :: r) =
  if Z.of_nat (length (a1 :: a2 :: a3 :: a4 :: a5 :: a6 :: a7 :: a8 :: a9 :: r)) <? 9 then Err else
  if (a1 <? 2) || (a1 >? 16) || (t87_u16 a2 a3 =? 0) || (t87_u16 a4 a5 =? 0) || (a6 =? 0) || negb (11 =? 8 + 3 * a6)
  then Err else t87_segments f lim (Some (a1, t87_u16 a2 a3, t87_u16 a4 a5, a6)) r.
Proof. reflexivity. Qed.

Lemma t87_seg_sos1 : forall f lim P Y X c1 c2 near r,
  t87_segments (S f) lim (Some (P, Y, X, 1)) (255 :: 218 :: 0 :: 8 :: 1 :: c1 :: c2 :: near :: 0 :: 0 :: r) =
  if Z.of_nat (length (1 :: c1 :: c2 :: near :: 0 :: 0 :: r)) <? 6 then Err else
  if near >? Z.min 255 ((2 ^ P - 1) / 2) then Err else
  if X * Y * 1 >? lim then OutOfFuel else t87_scan P near X Y 1 (t87_ecs_bits r false).
Proof. reflexivity. Qed.

Lemma t87_header_1 : forall P near w h rest lim,
  2 <= P <= 16 -> 0 <= near <= near_max P -> 1 <= w <= 65535 -> 1 <= h <= 65535 -> w * h * 1 <= lim ->
  t87_decode lim ([255; 216] ++ write_sof55 w h 1 P ++ write_sos 1 near ++ rest) =
  t87_scan P near w h 1 (t87_ecs_bits rest false).
Proof.
  intros P near w h rest lim HP Hn Hw Hh Hlim.
  pose proof (pow2_bounds P HP) as Hpb.
  assert (Hn255 : 0 <= near <= 255) by (unfold near_max in Hn; lia).
  assert (Hbd8 : wrapU 8 P = P) by (apply wrapU8_small; lia).
  assert (Hn8 : wrapU 8 near = near) by (apply wrapU8_small; lia).
  pose proof (be_split_arith w ltac:(lia)) as Hwsplit. pose proof (be_split_arith h ltac:(lia)) as Hhsplit.
  rewrite sof55_1, sos_1. cbn [app t87_decode].
  match goal with |- t87_segments (S (length ?l)) _ _ _ = _ =>
    assert (Hfuel : exists f, length l = S f) by (cbn [length]; eexists; reflexivity) end.
  destruct Hfuel as (f & Hf). rewrite Hf. clear Hf.
  rewrite t87_seg_sof1.
  match goal with |- (if Z.of_nat (length ?l) <? 9 then _ else _) = _ =>
    destruct (Z.ltb_spec (Z.of_nat (length l)) 9) as [Hl|Hl]; [cbn [length] in Hl; lia|] end.
  rewrite Hbd8, Hwsplit, Hhsplit.
  destruct (Z.ltb_spec P 2); [lia|]. destruct (Z.gtb_spec P 16); [lia|].
  destruct (Z.eqb_spec h 0); [lia|]. destruct (Z.eqb_spec w 0); [lia|].
  cbn [orb Z.eqb Z.mul Z.add Pos.mul Pos.add Pos.eqb negb].
  rewrite t87_seg_sos1.
  match goal with |- (if Z.of_nat (length ?l) <? 6 then _ else _) = _ =>
    destruct (Z.ltb_spec (Z.of_nat (length l)) 6) as [Hl2|Hl2]; [cbn [length] in Hl2; lia|] end.
  rewrite Hn8.
  fold (near_max P). destruct (Z.gtb_spec near (near_max P)); [lia|].
  destruct (Z.gtb_spec (w * h * 1) lim); [lia|]. reflexivity.
Qed.

(* ---------- one component: scan and stream ---------- *)

Lemma t87_scan_lockstep_1 : forall P near w h pixels ops,
  2 <= P <= 16 -> 0 <= near <= near_max P -> 1 <= w -> 0 <= h ->
  Forall (in_range P) pixels -> zlen pixels = w * h * 1 ->
  encode_scan_ops PkNear (jls_params P near) w h 1 pixels = Ok ops ->
  exists recon,
    Forall (in_range P) recon /\
    (forall rest, decode_scan_samples PkNear (jls_params P near) w h 1 (ops_bits ops ++ rest) = Ok recon) /\
    (forall rest, t87_scan P near w h 1 (ops_bits ops ++ rest) =
                  Ok (mkT87Img (integersToPixels P (2 ^ P - 1) recon) w h 1 P near)).
Proof.
  intros P near w h pixels ops HP Hn Hw Hh Hrng Hlen Henc.
  destruct (init_rel P near HP Hn) as [Hsi Hsr].
  destruct (params_match_T87 P near HP Hn) as [Hpar _].
  destruct (scan_lockstep P near PkNear w h 1 pixels ops HP Hn I ltac:(lia) Hh ltac:(auto) Hrng Hlen Henc)
    as (recon0 & _ & Hrr & _ & Hdec0).
  unfold encode_scan_ops in Henc. unfold zlen in Hlen.
  change (1 >? 1) with false in Henc. cbv iota in Henc.
  destruct (enc_lines1 (Z.to_nat h) PkNear (jls_params P near) w (Z.to_nat w) 0 0 0 (jst_init (jls_params P near)) [] pixels [])
    as [ops_rev| | |] eqn:E; try discriminate.
  inversion Henc; subst ops.
  assert (Hwn : w = Z.of_nat (Z.to_nat w)) by lia.
  assert (Hrel : line_rel w 0 0 0 [] 0) by (right; auto).
  destruct (t87_lines1_lockstep P near HP Hn w (Z.to_nat w) Hwn Hw (Z.to_nat h) 0 0 0 _ _ [] 0 pixels [] ops_rev
              Hsi Hsr Hrel ltac:(unfold in_range; pose proof (pow2_bounds P HP); lia) ltac:(constructor) Hrng ltac:(nia) E)
    as (ops & lines & Hops & Hlw & Hdec & Hdec').
  rewrite app_nil_r in Hops.
  exists (concat lines).
  assert (Hgo : forall rest, decode_scan_samples PkNear (jls_params P near) w h 1 (ops_bits (frev ops_rev) ++ rest) = Ok (concat lines)).
  { intros rest. unfold decode_scan_samples. change (1 >? 1) with false. cbv iota.
    rewrite Hops, frev_rev, rev_involutive. rewrite Hdec. reflexivity. }
  assert (Hr : Forall (in_range P) (concat lines)).
  { specialize (Hdec0 []). specialize (Hgo []). rewrite Hgo in Hdec0. injection Hdec0 as Heq. rewrite Heq. exact Hrr. }
  split; [exact Hr|]. split; [exact Hgo|].
  intros rest. unfold t87_scan. rewrite <- Hpar. change (1 =? 1) with true. change (Z.to_nat 1) with 1%nat. cbn [repeat].
  rewrite Hops, frev_rev, rev_involutive. rewrite Hdec'.
  rewrite (zip_lines_1 _ _ Hlw). rewrite (sample_bytes_eq P _ HP Hr). reflexivity.
Qed.

(* ---------- three components, sample interleaved ---------- *)

Lemma t87_zip_3 : forall f l, (length l < f)%nat -> t87_zip f (split3 l) = untriples l.
Proof.
  induction f as [|f IH]; intros l Hl; [lia|].
  destruct l as [|[[a b] c] t]; [reflexivity|].
  unfold split3. cbn [t87_zip forallb andb map hd tl app p3_0 p3_1 p3_2 fst snd untriples].
  fold (split3 t). rewrite IH by (cbn in Hl; lia). reflexivity.
Qed.

Lemma untriples_app : forall a b, untriples (a ++ b) = untriples a ++ untriples b.
Proof. induction a as [|[[x y] z] a IH]; intros b; cbn [app untriples]; [reflexivity | rewrite IH; reflexivity]. Qed.

Lemma zip_lines_3 : forall wn lines, Forall (fun l => length l = wn) lines ->
  flat_map (t87_zip (S wn)) (map split3 lines) = untriples (concat lines).
Proof.
  intros wn lines H. induction H as [|l t Hl Ht IH]; [reflexivity|].
  cbn [map flat_map concat]. rewrite t87_zip_3 by lia. rewrite IH, untriples_app. reflexivity.
Qed.

Lemma t87_seg_sof3 : forall f lim a1 a2 a3 a4 a5 a6 a7 a8 a9 a10 a11 a12 a13 a14 a15 r,
  t87_segments (S f) lim None
    (255 :: 247 :: 0 :: 17 :: a1 :: a2 :: a3 :: a4 :: a5 :: a6 :: a7 :: a8 :: a9 :: a10 :: a11 :: a12 :: a13 :: a14 :: a15 :: r) =
  if Z.of_nat (length (a1 :: a2 :: a3 :: a4 :: a5 :: a6 :: a7 :: a8 :: a9 :: a10 :: a11 :: a12 :: a13 :: a14 :: a15 :: r)) <? 15 then Err else
  if (a1 <? 2) || (a1 >? 16) || (t87_u16 a2 a3 =? 0) || (t87_u16 a4 a5 =? 0) || (a6 =? 0) || negb (17 =? 8 + 3 * a6)
  then Err else t87_segments f lim (Some (a1, t87_u16 a2 a3, t87_u16 a4 a5, a6)) r.
Proof. reflexivity. Qed.

Lemma t87_seg_sos3 : forall f lim P Y X c1 c2 c3 c4 c5 c6 near r,
  t87_segments (S f) lim (Some (P, Y, X, 3)) (255 :: 218 :: 0 :: 12 :: 3 :: c1 :: c2 :: c3 :: c4 :: c5 :: c6 :: near :: 2 :: 0 :: r) =
  if Z.of_nat (length (3 :: c1 :: c2 :: c3 :: c4 :: c5 :: c6 :: near :: 2 :: 0 :: r)) <? 10 then Err else
  if near >? Z.min 255 ((2 ^ P - 1) / 2) then Err else
  if X * Y * 3 >? lim then OutOfFuel else t87_scan P near X Y 3 (t87_ecs_bits r false).
Proof. reflexivity. Qed.

Lemma t87_header_3 : forall P near w h rest lim,
  2 <= P <= 16 -> 0 <= near <= near_max P -> 1 <= w <= 65535 -> 1 <= h <= 65535 -> w * h * 3 <= lim ->
  t87_decode lim ([255; 216] ++ write_sof55 w h 3 P ++ write_sos 3 near ++ rest) =
  t87_scan P near w h 3 (t87_ecs_bits rest false).
Proof.
  intros P near w h rest lim HP Hn Hw Hh Hlim.
  pose proof (pow2_bounds P HP) as Hpb.
  assert (Hn255 : 0 <= near <= 255) by (unfold near_max in Hn; lia).
  assert (Hbd8 : wrapU 8 P = P) by (apply wrapU8_small; lia).
  assert (Hn8 : wrapU 8 near = near) by (apply wrapU8_small; lia).
  pose proof (be_split_arith w ltac:(lia)) as Hwsplit. pose proof (be_split_arith h ltac:(lia)) as Hhsplit.
  rewrite sof55_3, sos_3. cbn [app t87_decode].
  match goal with |- t87_segments (S (length ?l)) _ _ _ = _ =>
    assert (Hfuel : exists f, length l = S f) by (cbn [length]; eexists; reflexivity) end.
  destruct Hfuel as (f & Hf). rewrite Hf. clear Hf.
  rewrite t87_seg_sof3.
  match goal with |- (if Z.of_nat (length ?l) <? 15 then _ else _) = _ =>
    destruct (Z.ltb_spec (Z.of_nat (length l)) 15) as [Hl|Hl]; [cbn [length] in Hl; lia|] end.
  rewrite Hbd8, Hwsplit, Hhsplit.
  destruct (Z.ltb_spec P 2); [lia|]. destruct (Z.gtb_spec P 16); [lia|].
  destruct (Z.eqb_spec h 0); [lia|]. destruct (Z.eqb_spec w 0); [lia|].
  cbn [orb Z.eqb Z.mul Z.add Pos.mul Pos.add Pos.succ Pos.eqb negb].
  rewrite t87_seg_sos3.
  match goal with |- (if Z.of_nat (length ?l) <? 10 then _ else _) = _ =>
    destruct (Z.ltb_spec (Z.of_nat (length l)) 10) as [Hl2|Hl2]; [cbn [length] in Hl2; lia|] end.
  rewrite Hn8.
  fold (near_max P). destruct (Z.gtb_spec near (near_max P)); [lia|].
  destruct (Z.gtb_spec (w * h * 3) lim); [lia|]. reflexivity.
Qed.

Lemma t87_scan_lockstep_3 : forall P near w h pixels ops,
  2 <= P <= 16 -> 0 <= near <= near_max P -> 1 <= w -> 0 <= h ->
  Forall (in_range P) pixels -> zlen pixels = w * h * 3 ->
  encode_scan_ops PkNear (jls_params P near) w h 3 pixels = Ok ops ->
  exists recon,
    Forall (in_range P) recon /\
    (forall rest, decode_scan_samples PkNear (jls_params P near) w h 3 (ops_bits ops ++ rest) = Ok recon) /\
    (forall rest, t87_scan P near w h 3 (ops_bits ops ++ rest) =
                  Ok (mkT87Img (integersToPixels P (2 ^ P - 1) recon) w h 3 P near)).
Proof.
  intros P near w h pixels ops HP Hn Hw Hh Hrng Hlen Henc.
  destruct (init_rel P near HP Hn) as [Hsi Hsr].
  destruct (params_match_T87 P near HP Hn) as [Hpar _].
  pose proof (z3_in_range P HP) as Hz3.
  destruct (scan_lockstep P near PkNear w h 3 pixels ops HP Hn I ltac:(lia) Hh ltac:(auto) Hrng Hlen Henc)
    as (recon0 & _ & Hrr & _ & Hdec0).
  unfold encode_scan_ops in Henc. unfold zlen in Hlen.
  change (3 >? 1) with true in Henc. cbv iota in Henc.
  destruct (enc_lines3 (Z.to_nat h) PkNear (jls_params P near) w (Z.to_nat w) 0 z3 z3 (jst_init (jls_params P near)) []
              (triples pixels) []) as [ops_rev| | |] eqn:E; try discriminate.
  inversion Henc; subst ops.
  assert (Hwn : w = Z.of_nat (Z.to_nat w)) by lia.
  assert (Hl3 : length pixels = (3 * (Z.to_nat h * Z.to_nat w))%nat) by nia.
  destruct (triples_spec _ _ Hl3) as [Hun Htl].
  assert (Hrel : forall sel, is_sel sel -> line_rel w 0 (sel z3) (sel z3) (map sel []) 0).
  { intros sel Hs. right. rewrite (sel_z3 sel Hs). auto. }
  destruct (t87_lines3_lockstep P near HP Hn w (Z.to_nat w) Hwn Hw (Z.to_nat h) 0 z3 z3 _ _ [] 0 0 0 (triples pixels) [] ops_rev
              Hsi Hsr (Hrel _ s0) (Hrel _ s1) (Hrel _ s2) Hz3 ltac:(constructor) (triples_range P _ _ Hl3 Hrng) Htl E)
    as (ops & lines & Hops & Hlw & Hdec & Hdec').
  rewrite app_nil_r in Hops.
  exists (untriples (concat lines)).
  assert (Hgo : forall rest, decode_scan_samples PkNear (jls_params P near) w h 3 (ops_bits (frev ops_rev) ++ rest) =
                             Ok (untriples (concat lines))).
  { intros rest. unfold decode_scan_samples. change (3 >? 1) with true. cbv iota.
    rewrite Hops, frev_rev, rev_involutive. rewrite Hdec. reflexivity. }
  assert (Hr : Forall (in_range P) (untriples (concat lines))).
  { specialize (Hdec0 []). specialize (Hgo []). rewrite Hgo in Hdec0. injection Hdec0 as Heq. rewrite Heq. exact Hrr. }
  split; [exact Hr|]. split; [exact Hgo|].
  intros rest. unfold t87_scan. rewrite <- Hpar. change (3 =? 1) with false. change (Z.to_nat 3) with 3%nat. cbn [repeat].
  rewrite Hops, frev_rev, rev_involutive.
  change [([], 0); ([], 0); ([], 0)] with [(map p3_0 [], 0); (map p3_1 [], 0); (map p3_2 [], 0)].
  rewrite Hdec'.
  rewrite (zip_lines_3 _ _ Hlw). rewrite (sample_bytes_eq P _ HP Hr). reflexivity.
Qed.

(* ---------- one or three components: scan and stream ---------- *)

Lemma t87_header : forall P near w h comps rest lim,
  2 <= P <= 16 -> 0 <= near <= near_max P -> 1 <= w <= 65535 -> 1 <= h <= 65535 -> comps = 1 \/ comps = 3 ->
  w * h * comps <= lim ->
  t87_decode lim ([255; 216] ++ write_sof55 w h comps P ++ write_sos comps near ++ rest) =
  t87_scan P near w h comps (t87_ecs_bits rest false).
Proof. intros P near w h comps rest lim HP Hn Hw Hh [-> | ->] Hlim; [apply t87_header_1 | apply t87_header_3]; assumption. Qed.

Lemma t87_scan_lockstep : forall P near w h comps pixels ops,
  2 <= P <= 16 -> 0 <= near <= near_max P -> 1 <= w -> 0 <= h -> comps = 1 \/ comps = 3 ->
  Forall (in_range P) pixels -> zlen pixels = w * h * comps ->
  encode_scan_ops PkNear (jls_params P near) w h comps pixels = Ok ops ->
  exists recon,
    Forall (in_range P) recon /\
    (forall rest, decode_scan_samples PkNear (jls_params P near) w h comps (ops_bits ops ++ rest) = Ok recon) /\
    (forall rest, t87_scan P near w h comps (ops_bits ops ++ rest) =
                  Ok (mkT87Img (integersToPixels P (2 ^ P - 1) recon) w h comps P near)).
Proof.
  intros P near w h comps pixels ops HP Hn Hw Hh [-> | ->] Hr Hl He;
    [apply (t87_scan_lockstep_1 P near w h pixels) | apply (t87_scan_lockstep_3 P near w h pixels)]; assumption.
Qed.

(* both decoders on the stream the encoder model assembles around the scan ops *)
Theorem t87_stream_decode : forall w h comps bd near pixels ops lim,
  2 <= bd <= 16 -> 1 <= w <= 65535 -> 1 <= h <= 65535 -> comps = 1 \/ comps = 3 -> 0 <= near <= near_max bd ->
  Forall (in_range bd) pixels -> zlen pixels = w * h * comps -> w * h * comps <= lim ->
  encode_scan_ops PkNear (jls_params bd near) w h comps pixels = Ok ops ->
  exists recon,
    decode_image PkNear lim ([255; 216] ++ write_sof55 w h comps bd ++ write_sos comps near ++ gw_run ops ++ [255; 217]) =
      Ok (mkDecoded (integersToPixels bd (2 ^ bd - 1) recon) w h comps bd near) /\
    t87_decode lim ([255; 216] ++ write_sof55 w h comps bd ++ write_sos comps near ++ gw_run ops ++ [255; 217]) =
      Ok (mkT87Img (integersToPixels bd (2 ^ bd - 1) recon) w h comps bd near).
Proof.
  intros w h comps bd near pixels ops lim Hbd Hw Hh Hc Hn Hrng Hlen Hlim Henc.
  assert (Hn255 : 0 <= near <= 255) by (unfold near_max in Hn; lia).
  destruct (scan_lockstep bd near PkNear w h comps pixels ops Hbd Hn I ltac:(lia) ltac:(lia) Hc Hrng Hlen Henc)
    as (_ & _ & _ & Hwf & _).
  destruct (t87_scan_lockstep bd near w h comps pixels ops Hbd Hn ltac:(lia) ltac:(lia) Hc Hrng Hlen Henc)
    as (recon & Hrr & Hgo & Ht).
  pose proof (gw_run_pack ops Hwf) as Hgw.
  destruct (jls_no_marker (ops_bits ops)) as [Hmf _].
  destruct (jls_stuff_unstuff (ops_bits ops)) as (pad & Hbits & _).
  exists recon. split.
  - destruct (decode_header PkNear PkNear w h comps bd near (gw_run ops ++ [255; 217]) lim
                (mkHeaderOk PkNear w h comps bd near Hbd Hw Hh Hc Hn255 I) ltac:(discriminate))
      as (d & (Fbd & Fw & Fh & Fc & Fmv) & Hhdr).
    rewrite Hhdr, decode_scan_unfold. rewrite Fbd, Fw, Fh, Fc, Fmv.
    destruct (Z.gtb_spec (w * h * comps) lim); [lia|].
    rewrite Hgw. rewrite (scan_bytes_packed PkNear _ _ (le_n _) Hmf).
    rewrite Hbits, Hgo. reflexivity.
  - rewrite (t87_header bd near w h comps _ lim Hbd Hn Hw Hh Hc Hlim).
    rewrite Hgw. rewrite (ecs_bits_eq _ false Hmf). fold (jls_bits_of_bytes (jls_pack (ops_bits ops))).
    rewrite Hbits, Ht. reflexivity.
Qed.

(* t87_decoder_agrees (C14): on every stream the near-lossless encoder model emits (one component,
   or three components sample-interleaved; any P in 2..16; NEAR in 0..min(255, MAXVAL/2); any
   samples in range; dimensions up to 65535), the independent T.87 decoder and the library
   decoder model return the same container bytes, geometry, precision and NEAR. *)
Theorem t87_decoder_agrees : forall w h comps P near pixelData stream lim,
  w * h * comps <= lim -> near <= near_max P ->
  zlen (pixelsToIntegers P pixelData) = w * h * comps ->
  Forall (in_range P) (pixelsToIntegers P pixelData) ->
  jlsn_encode w h comps P near pixelData = Ok stream ->
  exists recon,
    jlsn_decode lim stream = Ok (mkDecoded (integersToPixels P (2 ^ P - 1) recon) w h comps P near) /\
    t87_decode lim stream = Ok (mkT87Img (integersToPixels P (2 ^ P - 1) recon) w h comps P near).
Proof.
  intros w h comps P near px stream lim Hlim Hnm Hlen Hr Henc.
  destruct (encode_image_ok _ _ _ _ _ _ _ _ Henc) as (Hw1 & Hh1 & Hc & HP & Hnr & ops & Hops & Hs).
  subst stream. specialize (Hnr eq_refl).
  apply (t87_stream_decode w h comps P near _ ops lim HP Hw1 Hh1 Hc ltac:(lia) Hr Hlen Hlim Hops).
Qed.

(* in the form of t87_agrees_statement *)
Corollary t87_decoder_agrees_result_eq : forall w h comps P near pixelData stream lim,
  w * h * comps <= lim -> near <= near_max P ->
  zlen (pixelsToIntegers P pixelData) = w * h * comps ->
  Forall (in_range P) (pixelsToIntegers P pixelData) ->
  jlsn_encode w h comps P near pixelData = Ok stream ->
  t87_result_eq (t87_decode lim stream) (jlsn_decode lim stream).
Proof.
  intros w h comps P near px stream lim Hlim Hnm Hlen Hr Henc.
  destruct (t87_decoder_agrees w h comps P near px stream lim Hlim Hnm Hlen Hr Henc) as (recon & Hd & Ht).
  rewrite Hd, Ht. unfold t87_result_eq. cbn [ti_pixels ti_w ti_h ti_comps ti_P ti_near dc_pixels dc_w dc_h dc_comps dc_bd dc_near].
  split; [reflexivity|]. split; [reflexivity|]. split; [reflexivity|]. split; [reflexivity|]. split; reflexivity.
Qed.

Theorem t87_agrees : t87_agrees_statement.
Proof.
  intros w h comps P near px stream lim _ _ _ _ Hn Hlim Hlen Hr Henc.
  apply (t87_decoder_agrees_result_eq w h comps P near px stream lim); try assumption. lia.
Qed.

(* the same for the lossless encoder (its streams are the NEAR = 0 streams) and the lossless
   decoder: both return the source *)
Theorem t87_decoder_agrees_lossless : forall w h comps P pixelData stream lim,
  w * h * comps <= lim ->
  zlen (pixelsToIntegers P pixelData) = w * h * comps ->
  Forall (in_range P) (pixelsToIntegers P pixelData) ->
  jls_encode w h comps P pixelData = Ok stream ->
  jls_decode lim stream =
    Ok (mkDecoded (integersToPixels P (2 ^ P - 1) (pixelsToIntegers P pixelData)) w h comps P 0) /\
  t87_decode lim stream =
    Ok (mkT87Img (integersToPixels P (2 ^ P - 1) (pixelsToIntegers P pixelData)) w h comps P 0).
Proof.
  intros w h comps P px stream lim Hlim Hlen Hr Henc.
  pose proof (jls_roundtrip w h comps P px stream lim Hlim Hlen Hr Henc) as Hll.
  split; [exact Hll|].
  pose proof (cross_decode_near_of_lossless w h comps P px stream lim Hlim Hlen Hr Henc) as Hx.
  rewrite (near0_same_function w h comps P px Hr) in Henc.
  destruct (encode_image_ok _ _ _ _ _ _ _ _ Henc) as (_ & _ & _ & HP & _).
  assert (Hn : 0 <= near_max P).
  { unfold near_max. pose proof (pow2_bounds P HP). assert (0 <= (2 ^ P - 1) / 2) by (apply Z.div_pos; lia). lia. }
  destruct (t87_decoder_agrees w h comps P 0 px stream lim Hlim Hn Hlen Hr Henc) as (recon & Hd & Ht).
  rewrite Hd in Hx. injection Hx as Hpix. rewrite Ht, Hpix. reflexivity.
Qed.
