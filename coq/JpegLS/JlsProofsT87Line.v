(* C14: lockstep between the library ENCODER model and the independent T.87 decoder over one line
   of a one-component scan: invariants tying the two state representations, equality of the
   causal templates (neighbors1 on windows of 0 :: prev  vs  t87_template on windows of the
   extended line c_left :: prev ++ [last]), and the induction over enc_line1 / t87_line. *)
From V Require Import Common.Base JpegLS.JlsParams JpegLS.JlsGolomb JpegLS.JlsRun JpegLS.JlsModel JpegLS.JlsT87Dec.
From V Require Import JpegLS.JlsProofsParams JpegLS.JlsProofsGolomb JpegLS.JlsProofsWriter JpegLS.JlsProofsSample
                      JpegLS.JlsProofsRun JpegLS.JlsProofsNear0 JpegLS.JlsProofsInterrupt JpegLS.JlsProofsLine
                      JpegLS.JlsProofsT87.

(* ---------- bounds of the regular contexts on encoder streams ---------- *)

Definition ctx_bounds (c : rctx) : Prop :=
  1 <= cN c <= 64 /\ 0 <= cA c <= cN c * 65536 /\ - cN c < cB c <= 0.

Lemma UpdateContext_bounds : forall c e near,
  ctx_bounds c -> Z.abs e <= 32768 -> Z.abs (e * (2 * near + 1)) <= 66600 ->
  ctx_bounds (UpdateContext c e near 64).
Proof.
  intros c e near ((HN1 & HN2) & (HA1 & HA2) & (HB1 & HB2)) He Hes.
  unfold UpdateContext. cbv zeta.
  destruct (Z.geb_spec (cA c + Z.abs e) 16777216); [lia|].
  destruct (Z.geb_spec (Z.abs (cB c + e * (2 * near + 1))) 16777216); [lia|]. cbn [orb andb].
  set (b0 := cB c + e * (2 * near + 1)).
  rewrite !Z.shiftr_div_pow2 by lia. change (2 ^ 1) with 2.
  destruct (Z.eqb_spec (cN c) 64) as [E|NE].
  - rewrite E in *. change (64 / 2) with 32.
    assert (HA' : 0 <= (cA c + Z.abs e) / 2 <= 33 * 65536) by (Z.div_mod_to_equations; lia).
    destruct (Z.leb_spec (b0 / 2 + (32 + 1)) 0).
    + destruct (Z.leb_spec (b0 / 2 + (32 + 1)) (- (32 + 1))); unfold ctx_bounds; cbn [cA cB cC cN]; lia.
    + destruct (Z.gtb_spec (b0 / 2) 0).
      * destruct (Z.gtb_spec (b0 / 2 - (32 + 1)) 0); unfold ctx_bounds; cbn [cA cB cC cN]; lia.
      * unfold ctx_bounds; cbn [cA cB cC cN]; lia.
  - destruct (Z.leb_spec (b0 + (cN c + 1)) 0).
    + destruct (Z.leb_spec (b0 + (cN c + 1)) (- (cN c + 1))); unfold ctx_bounds; cbn [cA cB cC cN]; lia.
    + destruct (Z.gtb_spec b0 0).
      * destruct (Z.gtb_spec (b0 - (cN c + 1)) 0); unfold ctx_bounds; cbn [cA cB cC cN]; lia.
      * unfold ctx_bounds; cbn [cA cB cC cN]; lia.
Qed.

(* ---------- the two state representations ---------- *)

Definition st_rel (t : t87state) (s : jstate) : Prop :=
  Forall2 ctx_rel (ts_ctx t) (js_ctxs s) /\ run_rel (ts_r365 t) (js_rc0 s) /\
  run_rel (ts_r366 t) (js_rc1 s) /\ ts_runindex t = js_ri s.

Definition sinv (s : jstate) : Prop :=
  jst_ok s /\ Forall ctx_bounds (js_ctxs s) /\ length (js_ctxs s) = 365%nat.

Lemma Forall2_nth_rel : forall l1 l2 i d1 d2, Forall2 ctx_rel l1 l2 -> (i < length l2)%nat ->
  ctx_rel (nth i l1 d1) (nth i l2 d2).
Proof.
  intros l1 l2 i d1 d2 H. revert i. induction H as [|a b ta tb Hab HF IH]; intros i Hi; [cbn in Hi; lia|].
  destruct i; [exact Hab | apply IH; cbn in Hi; lia].
Qed.

Lemma Forall2_set_rel : forall l1 l2 i t c, Forall2 ctx_rel l1 l2 -> ctx_rel t c ->
  Forall2 ctx_rel (t87_set i l1 t) (upd_nth i l2 c).
Proof.
  intros l1 l2 i t c H Htc. revert i. induction H as [|a b ta tb Hab HF IH]; intros i.
  - destruct i; constructor.
  - destruct i; cbn [t87_set upd_nth]; constructor; auto.
Qed.

Lemma Forall_upd_nth : forall (Q : rctx -> Prop) l i c, Forall Q l -> Q c -> Forall Q (upd_nth i l c).
Proof.
  intros Q l. induction l as [|a l IH]; intros i c HF Hc; [destruct i; constructor|].
  inversion HF; subst. destruct i; cbn [upd_nth]; constructor; auto.
Qed.

Lemma Forall_nth_in : forall (Q : rctx -> Prop) l i d, Forall Q l -> (i < length l)%nat -> Q (nth i l d).
Proof. intros Q l i d HF Hi. rewrite Forall_forall in HF. apply HF. apply nth_In. exact Hi. Qed.

(* ---------- run mode is entered on the same samples ---------- *)

Lemma quantize_zero_iff : forall p d, jp_near p + 1 <= jp_t1 p -> jp_t1 p <= jp_t2 p -> jp_t2 p <= jp_t3 p -> 0 <= jp_near p ->
  (quantizeGradient p d = 0 <-> Z.abs d <= jp_near p).
Proof.
  intros p d H1 H2 H3 Hn. unfold quantizeGradient.
  repeat match goal with |- context [?a <=? ?b] => destruct (Z.leb_spec a b) | |- context [?a <? ?b] => destruct (Z.ltb_spec a b) end;
    split; intro Hq; try lia; try discriminate.
Qed.

Lemma qs_zero_iff : forall q1 q2 q3, -4 <= q1 <= 4 -> -4 <= q2 <= 4 -> -4 <= q3 <= 4 ->
  ((q1 * 9 + q2) * 9 + q3 = 0 <-> q1 = 0 /\ q2 = 0 /\ q3 = 0).
Proof. intros. lia. Qed.

(* ---------- templates ---------- *)

Lemma nth_skipn_add : forall (x k : nat) (L : list Z), nth k (skipn x L) 0 = nth (x + k) L 0.
Proof.
  induction x; intros k L; [reflexivity|]. destruct L as [|a L]; cbn [skipn Nat.add nth]; [destruct k; reflexivity | apply IHx].
Qed.
Lemma e0_nth : forall L, t87_e0 L = nth 0 L 0.  Proof. intros [|a L]; reflexivity. Qed.
Lemma e1_nth : forall L, t87_e1 L = nth 1 L 0.  Proof. intros [|a [|b L]]; reflexivity. Qed.
Lemma e2_nth : forall L, t87_e2 L = nth 2 L 0.  Proof. intros [|a [|b [|c L]]]; reflexivity. Qed.
Lemma e_as_nth0 : forall x (L : list Z), t87_e0 (skipn x L) = nth x L 0.
Proof. intros. rewrite e0_nth, nth_skipn_add. f_equal. lia. Qed.
Lemma e_as_nth1 : forall x (L : list Z), t87_e1 (skipn x L) = nth (S x) L 0.
Proof. intros. rewrite e1_nth, nth_skipn_add. f_equal. lia. Qed.
Lemma e_as_nth2 : forall x (L : list Z), t87_e2 (skipn x L) = nth (S (S x)) L 0.
Proof. intros. rewrite e2_nth, nth_skipn_add. f_equal. lia. Qed.

Lemma nth_ext_prev : forall (prev t : list Z) a b i, (1 <= i <= length prev)%nat ->
  nth i (a :: prev) 0 = nth i (b :: prev ++ t) 0.
Proof.
  intros prev t a b i Hi. destruct i; [lia|]. cbn [nth]. rewrite app_nth1 by lia. reflexivity.
Qed.

(* line relation: the Go-side edge variables against the T.87 extended line *)
Definition line_rel (w y pfp pn1 : Z) (prev : list Z) (cleft : Z) : Prop :=
  (y > 0 /\ length prev = Z.to_nat w /\ pfp = line_first prev /\ pn1 = cleft) \/
  (y = 0 /\ prev = [] /\ pfp = 0 /\ pn1 = 0 /\ cleft = 0).

Lemma template_eq : forall w y pfp pn1 prev cleft x cur,
  1 <= w -> line_rel w y pfp pn1 prev cleft -> 0 <= x < w -> length cur = Z.to_nat x ->
  t87_template (mkT87Comp (skipn (Z.to_nat x) (t87_extend cleft prev)) cur) =
  neighbors1 w y x pfp pn1 (match cur with l :: _ => l | [] => 0 end) (skipn (Z.to_nat x) (0 :: prev)).
Proof.
  intros w y pfp pn1 prev cleft x cur Hw Hrel Hx Hcur.
  unfold t87_template, neighbors1. cbn [tc_win tc_cur].
  change win0 with t87_e0. change win1 with t87_e1. change win2 with t87_e2.
  rewrite !e_as_nth0, !e_as_nth1, !e_as_nth2. unfold t87_extend.
  destruct Hrel as [(Hy & Hl & Hp & Hn) | (Hy & Hprev & Hp & Hn & Hc)].
  - destruct (Z.gtb_spec y 0); [|lia].
    destruct (Z.eqb_spec x 0) as [E|NE].
    + subst x. cbn [Z.to_nat]. assert (cur = []) by (destruct cur; [reflexivity | cbn in Hcur; lia]). subst cur.
      destruct prev as [|p0 prev']; [cbn in Hl; lia|]. cbn [line_first] in Hp. subst pfp pn1. cbn [nth app].
      destruct (Z.gtb_spec w 1); cbn [andb].
      * destruct prev' as [|p1 prev'']; [cbn in Hl; lia|]. reflexivity.
      * assert (prev' = []) by (destruct prev'; [reflexivity | cbn in Hl; lia]). subst prev'. reflexivity.
    + assert (Hc : cur <> []) by (destruct cur; [cbn in Hcur; lia | discriminate]).
      destruct cur as [|l0 cur']; [contradiction|].
      set (xn := Z.to_nat x). assert (Hxn : (1 <= xn < length prev)%nat) by (unfold xn; lia).
      rewrite <- (nth_ext_prev prev [last prev 0] 0 cleft (S xn)) by lia.
      rewrite <- (nth_ext_prev prev [last prev 0] 0 cleft xn) by lia.
      destruct (Z.ltb_spec x (w - 1)).
      * rewrite <- (nth_ext_prev prev [last prev 0] 0 cleft (S (S xn))) by (unfold xn in *; lia). reflexivity.
      * assert (Hxw : S xn = length prev) by (unfold xn; lia).
        f_equal. cbn [nth]. rewrite app_nth2 by lia. replace (S xn - length prev)%nat with O by lia. cbn [nth].
        destruct prev as [|p0 prev'] using rev_ind; [cbn in Hxw; lia|].
        rewrite last_last. rewrite app_length in Hxw. cbn [length] in Hxw.
        rewrite app_nth2 by lia. replace (xn - length prev')%nat with O by lia. reflexivity.
  - subst y prev pfp pn1 cleft. destruct (Z.gtb_spec 0 0); [lia|]. cbn [andb app last].
    destruct (Z.eqb_spec x 0) as [E|NE].
    + subst x. assert (cur = []) by (destruct cur; [reflexivity | cbn in Hcur; lia]). subst cur. reflexivity.
    + destruct cur as [|l0 cur']; [cbn in Hcur; lia|].
      assert (Hz : forall k, (1 <= k)%nat -> nth k [0; 0] 0 = 0) by (intros [|[|[|k]]] Hk; reflexivity).
      rewrite !Hz by lia. reflexivity.
Qed.

(* ---------- helpers for the T.87 line loop ---------- *)

Lemma skipn_S_tl : forall (A : Type) n (l : list A), skipn (S n) l = skipn n (tl l).
Proof. intros A n [|a l]; [destruct n; reflexivity | reflexivity]. Qed.

Lemma tl_skipn' : forall (A : Type) n (l : list A), tl (skipn n l) = skipn (S n) l.
Proof. induction n; intros [|a l]; cbn [skipn tl]; try reflexivity. apply IHn. Qed.

Lemma skipn_skipn_add' : forall (A : Type) a b (l : list A), skipn a (skipn b l) = skipn (b + a) l.
Proof.
  intros A a b. revert a. induction b as [|b IH]; intros a l; [reflexivity|].
  destruct l as [|x l]; cbn [Nat.add skipn]; [destruct a; reflexivity | apply IH].
Qed.

Lemma t87_push_run_spec : forall n win cur v,
  t87_push_run n (mkT87Comp win cur) v = mkT87Comp (skipn n win) (push_n n v cur).
Proof.
  induction n as [|n IH]; intros win cur v; [reflexivity|].
  cbn [t87_push_run push_n]. unfold t87_push. cbn [tc_win tc_cur]. rewrite IH, skipn_S_tl. reflexivity.
Qed.

Lemma ctx_rel_inj : forall a b c, ctx_rel a c -> ctx_rel b c -> a = b.
Proof. intros [a1 a2 a3 a4] [b1 b2 b3 b4] c (A1 & A2 & A3 & A4) (B1 & B2 & B3 & B4). cbn in *. congruence. Qed.

Lemma run_rel_inj : forall a b c, run_rel a c -> run_rel b c -> a = b.
Proof. intros [a1 a2 a3] [b1 b2 b3] c (A1 & A2 & A3) (B1 & B2 & B3). cbn in *. congruence. Qed.

Lemma st_rel_inj : forall t1 t2 s, st_rel t1 s -> st_rel t2 s -> t1 = t2.
Proof.
  intros [c1 a1 b1 r1] [c2 a2 b2 r2] s (A1 & A2 & A3 & A4) (B1 & B2 & B3 & B4). cbn in *.
  assert (c1 = c2).
  { clear - A1 B1. revert c2 B1. induction A1; intros c2 B1; inversion B1; subst; [reflexivity|].
    f_equal; [eapply ctx_rel_inj; eassumption | apply IHA1; assumption]. }
  f_equal; [assumption | eapply run_rel_inj; eassumption | eapply run_rel_inj; eassumption | congruence].
Qed.

Section T87Line1.
  Variables (P near : Z).
  Hypothesis HP : 2 <= P <= 16.
  Hypothesis Hnear : 0 <= near <= near_max P.
  Let p := jls_params P near.

  Lemma pfacts :
    jp_maxval p = 2 ^ P - 1 /\ jp_near p = near /\ 0 <= jp_near p /\ 2 * jp_near p <= jp_maxval p /\
    jp_range p = (jp_maxval p + 2 * jp_near p) / (2 * jp_near p + 1) + 1 /\
    2 <= jp_range p <= 65536 /\ jp_near p + 1 <= jp_t1 p /\ jp_t1 p <= jp_t2 p /\ jp_t2 p <= jp_t3 p /\ jp_reset p = 64.
  Proof.
    destruct (facts_unpack P near HP Hnear) as (Fmv & Fnear & Fn0 & Fn2 & FR & FR2 & FRq & Fq & Fll & Flh & Freset).
    destruct (jls_params_facts P near HP Hnear) as [_ _ _ _ _ _ _ _ _ _ Ft1 Ft12 Ft23 _].
    fold p in Fmv, Fnear, Fn0, Fn2, FR, FR2, Freset, Ft1, Ft12, Ft23.
    repeat split; try assumption; try lia.
  Qed.

  (* run mode is chosen on the same samples *)
  Lemma flat_iff_qs : forall ra rb rc rd,
    (Z.abs (rd - rb) <=? jp_near p) && (Z.abs (rb - rc) <=? jp_near p) && (Z.abs (rc - ra) <=? jp_near p) =
    (context_qs p ra rb rc rd =? 0).
  Proof.
    intros ra rb rc rd. destruct pfacts as (_ & _ & Hn0 & _ & _ & _ & H1 & H2 & H3 & _).
    unfold context_qs.
    pose proof (quantizeGradient_range p (rd - rb)) as Q1. pose proof (quantizeGradient_range p (rb - rc)) as Q2.
    pose proof (quantizeGradient_range p (rc - ra)) as Q3.
    pose proof (quantize_zero_iff p (rd - rb) H1 H2 H3 Hn0) as Z1.
    pose proof (quantize_zero_iff p (rb - rc) H1 H2 H3 Hn0) as Z2.
    pose proof (quantize_zero_iff p (rc - ra) H1 H2 H3 Hn0) as Z3.
    destruct (Z.eqb_spec ((quantizeGradient p (rd - rb) * 9 + quantizeGradient p (rb - rc)) * 9 + quantizeGradient p (rc - ra)) 0) as [E|NE].
    - apply qs_zero_iff in E; try assumption. destruct E as (E1 & E2 & E3).
      apply Z1 in E1. apply Z2 in E2. apply Z3 in E3.
      destruct (Z.leb_spec (Z.abs (rd - rb)) (jp_near p)); [|lia]. destruct (Z.leb_spec (Z.abs (rb - rc)) (jp_near p)); [|lia].
      destruct (Z.leb_spec (Z.abs (rc - ra)) (jp_near p)); [reflexivity | lia].
    - destruct (Z.leb_spec (Z.abs (rd - rb)) (jp_near p)) as [L1|L1]; [|reflexivity].
      destruct (Z.leb_spec (Z.abs (rb - rc)) (jp_near p)) as [L2|L2]; [|reflexivity].
      destruct (Z.leb_spec (Z.abs (rc - ra)) (jp_near p)) as [L3|L3]; [|reflexivity].
      exfalso. apply NE. apply qs_zero_iff; try assumption.
      split; [apply Z1; exact L1 | split; [apply Z2; exact L2 | apply Z3; exact L3]].
  Qed.

  Variables (w y pfp pn1 : Z) (prev : list Z) (cleft : Z).
  Hypothesis Hw : 1 <= w.
  Hypothesis Hrel : line_rel w y pfp pn1 prev cleft.
  Hypothesis Hpfp : in_range P pfp.
  Hypothesis Hprev : Forall (in_range P) prev.

  Let E := t87_extend cleft prev.
  Let G := 0 :: prev.

  Lemma G_range : Forall (in_range P) G.
  Proof. pose proof (pow2_bounds P HP). unfold G. constructor; [unfold in_range; lia | exact Hprev]. Qed.

  (* one regular sample *)
  Lemma t87_regular_step : forall st t xs ra rb rc rd ops c' stored rest,
    sinv st -> st_rel t st -> in_range P xs ->
    regular_enc PkNear true p (nth (Z.to_nat (Z.abs (context_qs p ra rb rc rd))) (js_ctxs st) (mkCtx 0 0 0 0))
                (context_qs p ra rb rc rd) ra rb rc xs = (ops, c', stored) ->
    exists t',
      t87_regular p t ra rb rc rd (ops_bits ops ++ rest) = Some (stored, t', rest) /\
      sinv (set_ctx st (Z.to_nat (Z.abs (context_qs p ra rb rc rd))) c') /\
      st_rel t' (set_ctx st (Z.to_nat (Z.abs (context_qs p ra rb rc rd))) c').
  Proof.
    intros st t xs ra rb rc rd ops c' stored rest (Hok & Hb & Hlen) (Hc & Hr0 & Hr1 & Hri) Hxs Henc.
    set (qs := context_qs p ra rb rc rd) in *.
    set (i := Z.to_nat (Z.abs qs)) in *.
    pose proof (context_qs_range p ra rb rc rd) as Hq. fold qs in Hq.
    assert (Hi : (i < 365)%nat) by (unfold i; lia).
    set (c := nth i (js_ctxs st) (mkCtx 0 0 0 0)) in *.
    assert (Hcb : ctx_bounds c) by (apply Forall_nth_in; [exact Hb | lia]).
    destruct Hcb as ((HN1 & HN2) & (HA1 & HA2) & (HB1 & HB2)).
    assert (Hrel_c : ctx_rel (nth i (ts_ctx t) (mkT87Ctx 0 0 0 0)) c) by (apply Forall2_nth_rel; [exact Hc | lia]).
    destruct (t87_regular_roundtrip_all P near c _ t ra rb rc rd xs rest ops c' stored HP Hnear Hxs eq_refl Hrel_c
                ltac:(lia) ltac:(lia) ltac:(lia) ltac:(lia) Henc) as (t' & Hdec & Hrel').
    fold p qs i in Hdec.
    eexists. split; [exact Hdec|].
    (* the new context keeps the bounds *)
    destruct (regular_enc_shape P near true c qs ra rb rc xs HP Hnear Hxs) as (Hshape & _ & _ & Her & Heabs & _ & _).
    fold p in Hshape, Her, Heabs. rewrite Hshape in Henc. inversion Henc as [[Ho Hc' Hs]].
    destruct pfacts as (Fmv & Fnear & Fn0 & Fn2 & FR & FR2 & _).
    assert (HRs : jp_range p * (2 * near + 1) <= 2 ^ P - 1 + 2 * near + (2 * near + 1)).
    { rewrite FR, Fmv, Fnear. pose proof (Z.mul_div_le (2 ^ P - 1 + 2 * near) (2 * near + 1) ltac:(lia)). lia. }
    pose proof (pow2_bounds P HP) as Hpb.
    assert (Hcb' : ctx_bounds c').
    { rewrite <- Hc'. apply UpdateContext_bounds.
      - unfold ctx_bounds. lia.
      - lia.
      - rewrite Z.abs_mul, (Z.abs_eq (2 * near + 1)) by lia. unfold near_max in Hnear. nia. }
    rewrite ?Hc'.
    split.
    - split; [apply jst_ok_set_ctx; exact Hok|]. split.
      + unfold set_ctx. cbn [js_ctxs]. apply (Forall_upd_nth ctx_bounds); [exact Hb | exact Hcb'].
      + unfold set_ctx. cbn [js_ctxs]. clear - Hlen.
        assert (G : forall n l v, length (upd_nth n l v) = length l).
        { induction n; intros [|a l] v; cbn [upd_nth length]; try reflexivity; rewrite IHn; reflexivity. }
        rewrite G. exact Hlen.
    - unfold st_rel, set_ctx. cbn [ts_ctx ts_r365 ts_r366 ts_runindex js_ctxs js_rc0 js_rc1 js_ri].
      split; [apply Forall2_set_rel; assumption | auto].
  Qed.

  (* the run interruption sample *)
  Lemma t87_interrupt_step : forall st t xi ra rb iops st2 recon rest,
    sinv st -> st_rel t st -> in_range P ra -> in_range P rb -> in_range P xi -> near < Z.abs (xi - ra) ->
    interrupt_enc PkNear p st xi ra rb = (iops, st2, recon) ->
    exists t2,
      t87_interruption p t (if Z.abs (ra - rb) <=? near then 1 else 0) ra rb (ops_bits iops ++ rest) = Some (recon, t2, rest) /\
      sinv st2 /\ st_rel t2 st2 /\ in_range P recon /\ js_ri st2 = js_ri st.
  Proof.
    intros st t xi ra rb iops st2 recon rest (Hok & Hb & Hlen) (Hc & Hr0 & Hr1 & Hri) Hra Hrb Hxi Hfar Henc.
    pose proof Hok as (Hrir & Hok0 & Hty0 & Hok1 & Hty1).
    destruct pfacts as (Fmv & Fnear & Fn0 & Fn2 & FR & FR2 & _).
    unfold in_range in *.
    unfold interrupt_enc in Henc. rewrite Fnear in Henc.
    destruct (Z.leb_spec (Z.abs (ra - rb)) near) as [Hclose|Hfarb].
    - (* context 1 *)
      pose proof (interruption_core P near PkNear HP Hnear I (js_ri st) (js_rc1 st) xi ra 1 rest Hrir (or_intror Hty1) Hok1
                    (or_introl eq_refl) Hra Hxi (fun _ => Hfar)) as Hcore.
      cbv zeta in Hcore. fold p in Hcore. rewrite !Z.mul_1_l in Hcore.
      set (e := pk_error PkNear p (xi - ra)) in *.
      destruct (EncodeRunInterruption p (js_ri st) (js_rc1 st) e) as [ops c1] eqn:Eenc.
      cbn [fst snd] in Hcore. destruct Hcore as (_ & _ & Hok' & Hty' & He & Her & Hb1 & Hb2).
      inversion Henc; subst iops st2 recon. clear Henc.
      assert (Hd : - jp_maxval p <= 1 * (xi - ra) <= jp_maxval p) by lia.
      destruct (quantize_spec p P HP Fmv Fn0 Fn2 FR _ Hd) as [_ Hq2].
      rewrite Z.mul_1_l in Hq2, Hd.
      assert (Heabs : 2 * Z.abs e <= jp_range p) by (rewrite He; apply (ModuloRange_abs p P HP Fmv Fn0 Fn2 FR); exact Hq2).
      assert (Hne : e <> 0).
      { rewrite He. apply (ModuloRange_nonzero p P HP Fmv Fn0 Fn2 FR); [exact Hq2|].
        apply (quantize_nonzero p P HP Fmv Fn0 Fn2 FR); [exact Hd | rewrite Fnear; lia]. }
      pose proof (t87_interruption_roundtrip P near t (js_rc1 st) e ra rb rest HP Hnear) as Ht.
      cbv zeta in Ht. fold p in Ht. rewrite Hty1 in Ht. cbn [Z.eqb Pos.eqb andb] in Ht.
      rewrite Hri in Ht. rewrite Eenc in Ht. cbn [fst snd] in Ht.
      destruct (Ht (or_intror eq_refl) Hr1 Hok1 Hrir (fun _ => Hne) Heabs ltac:(lia)) as (u' & Hdec & Hrel').
      eexists. split; [rewrite Z.mul_1_l in Hdec; exact Hdec|].
      split.
      { split; [|split; [exact Hb | exact Hlen]]. unfold jst_ok. cbn [js_ri js_rc0 js_rc1]. rewrite Hty', Hty1. auto. }
      split.
      { unfold st_rel. cbn [ts_ctx ts_r365 ts_r366 ts_runindex js_ctxs js_rc0 js_rc1 js_ri]. auto. }
      split; [lia | reflexivity].
    - (* context 0 *)
      set (sg := signInt (rb - ra)) in *.
      pose proof (interruption_core P near PkNear HP Hnear I (js_ri st) (js_rc0 st) xi rb sg rest Hrir (or_introl Hty0) Hok0
                    (signInt_cases _) Hrb Hxi ltac:(intro T; rewrite Hty0 in T; discriminate)) as Hcore.
      cbv zeta in Hcore. fold p in Hcore. replace (sg * (xi - rb)) with ((xi - rb) * sg) in Hcore by ring.
      set (e := pk_error PkNear p ((xi - rb) * sg)) in *.
      destruct (EncodeRunInterruption p (js_ri st) (js_rc0 st) e) as [ops c0] eqn:Eenc.
      cbn [fst snd] in Hcore. destruct Hcore as (_ & _ & Hok' & Hty' & He & Her & Hb1 & Hb2).
      inversion Henc; subst iops st2 recon. clear Henc.
      assert (Hd : - jp_maxval p <= sg * (xi - rb) <= jp_maxval p).
      { destruct (signInt_cases (rb - ra)) as [S|S]; fold sg in S; rewrite S; lia. }
      destruct (quantize_spec p P HP Fmv Fn0 Fn2 FR _ Hd) as [_ Hq2].
      assert (Heabs : 2 * Z.abs e <= jp_range p).
      { rewrite He. replace ((xi - rb) * sg) with (sg * (xi - rb)) by ring.
        apply (ModuloRange_abs p P HP Fmv Fn0 Fn2 FR); exact Hq2. }
      pose proof (t87_interruption_roundtrip P near t (js_rc0 st) e ra rb rest HP Hnear) as Ht.
      cbv zeta in Ht. fold p in Ht. rewrite Hty0 in Ht. cbn [Z.eqb Pos.eqb andb] in Ht.
      rewrite Hri in Ht. rewrite Eenc in Ht. cbn [fst snd] in Ht.
      destruct (Ht (or_introl eq_refl) Hr0 Hok0 Hrir ltac:(intro T; discriminate) Heabs ltac:(lia)) as (u' & Hdec & Hrel').
      assert (Hsg : (if ra >? rb then -1 else 1) = sg).
      { unfold sg, signInt. destruct (Z.gtb_spec ra rb); destruct (Z.ltb_spec (rb - ra) 0); lia. }
      rewrite Hsg in Hdec. replace (sg * e) with (e * sg) in Hdec by ring.
      eexists. split; [exact Hdec|].
      split.
      { split; [|split; [exact Hb | exact Hlen]]. unfold jst_ok. cbn [js_ri js_rc0 js_rc1]. rewrite Hty', Hty0. auto. }
      split.
      { unfold st_rel. cbn [ts_ctx ts_r365 ts_r366 ts_runindex js_ctxs js_rc0 js_rc1 js_ri]. auto. }
      split; [replace (e * sg) with (sg * e) by ring; lia | reflexivity].
  Qed.

  Lemma t87_regular_step' : forall st t xs ra rb rc rd ops c' stored,
    sinv st -> st_rel t st -> in_range P xs ->
    regular_enc PkNear true p (nth (Z.to_nat (Z.abs (context_qs p ra rb rc rd))) (js_ctxs st) (mkCtx 0 0 0 0))
                (context_qs p ra rb rc rd) ra rb rc xs = (ops, c', stored) ->
    exists t',
      (forall rest, t87_regular p t ra rb rc rd (ops_bits ops ++ rest) = Some (stored, t', rest)) /\
      sinv (set_ctx st (Z.to_nat (Z.abs (context_qs p ra rb rc rd))) c') /\
      st_rel t' (set_ctx st (Z.to_nat (Z.abs (context_qs p ra rb rc rd))) c').
  Proof.
    intros st t xs ra rb rc rd ops c' stored Hsi Hsr Hxs Henc.
    destruct (t87_regular_step st t xs ra rb rc rd ops c' stored [] Hsi Hsr Hxs Henc) as (t' & _ & Hsi' & Hsr').
    exists t'. split; [|split; assumption].
    intros rest.
    destruct (t87_regular_step st t xs ra rb rc rd ops c' stored rest Hsi Hsr Hxs Henc) as (t'' & Hd & _ & Hsr'').
    rewrite Hd. rewrite (st_rel_inj _ _ _ Hsr'' Hsr'). reflexivity.
  Qed.

  Lemma t87_interrupt_step' : forall st t xi ra rb iops st2 recon,
    sinv st -> st_rel t st -> in_range P ra -> in_range P rb -> in_range P xi -> near < Z.abs (xi - ra) ->
    interrupt_enc PkNear p st xi ra rb = (iops, st2, recon) ->
    exists t2,
      (forall rest, t87_interruption p t (if Z.abs (ra - rb) <=? near then 1 else 0) ra rb (ops_bits iops ++ rest) = Some (recon, t2, rest)) /\
      sinv st2 /\ st_rel t2 st2 /\ in_range P recon /\ js_ri st2 = js_ri st.
  Proof.
    intros st t xi ra rb iops st2 recon Hsi Hsr Hra Hrb Hxi Hfar Henc.
    destruct (t87_interrupt_step st t xi ra rb iops st2 recon [] Hsi Hsr Hra Hrb Hxi Hfar Henc) as (t2 & _ & Hsi2 & Hsr2 & Hrec & Hri).
    exists t2. split; [|split; [exact Hsi2|split; [exact Hsr2|split; [exact Hrec|exact Hri]]]].
    intros rest.
    destruct (t87_interrupt_step st t xi ra rb iops st2 recon rest Hsi Hsr Hra Hrb Hxi Hfar Henc) as (t2' & Hd & _ & Hsr2' & _).
    rewrite Hd. rewrite (st_rel_inj _ _ _ Hsr2' Hsr2). reflexivity.
  Qed.

  Lemma t87_flat_eq : forall x cur, 0 <= x < w -> length cur = Z.to_nat x ->
    t87_flat p (mkT87Comp (skipn (Z.to_nat x) E) cur) =
    (let '(ra, rb, rc, rd) := neighbors1 w y x pfp pn1 (match cur with l :: _ => l | [] => 0 end) (skipn (Z.to_nat x) G) in
     context_qs p ra rb rc rd =? 0).
  Proof.
    intros x cur Hx Hcur. unfold t87_flat. unfold E, G. rewrite (template_eq w y pfp pn1 prev cleft x cur Hw Hrel Hx Hcur).
    destruct (neighbors1 w y x pfp pn1 (match cur with l :: _ => l | [] => 0 end) (skipn (Z.to_nat x) (0 :: prev))) as [[[ra rb] rc] rd].
    apply flat_iff_qs.
  Qed.

  Lemma t87_line1_lockstep : forall fuel st t x cur inp ops_rev st' cur' ops_rev',
    sinv st -> st_rel t st -> 0 <= x -> x + Z.of_nat (length inp) = w -> length cur = Z.to_nat x ->
    Forall (in_range P) inp -> Forall (in_range P) cur ->
    enc_line1 fuel PkNear p w y pfp pn1 st x (skipn (Z.to_nat x) G) cur inp ops_rev = Ok (st', cur', ops_rev') ->
    exists ops t' win',
      ops_rev' = rev ops ++ ops_rev /\ sinv st' /\ st_rel t' st' /\ Forall (in_range P) cur' /\
      length cur' = Z.to_nat w /\
      forall rest, t87_line fuel p true w t x [mkT87Comp (skipn (Z.to_nat x) E) cur] (ops_bits ops ++ rest) =
                   Some ([mkT87Comp win' cur'], t', rest).
  Proof.
    pose proof (pow2_bounds P HP) as Hpb.
    induction fuel as [|f IH]; intros st t x cur inp ops_rev st' cur' ops_rev' Hsi Hsr Hx0 Hxw Hlc Hinp Hcur Henc.
    - destruct inp as [|xs inp']; cbn [enc_line1] in Henc; [|discriminate].
      inversion Henc; subst st' cur' ops_rev'. exists [], t, (skipn (Z.to_nat x) E). cbn [rev app ops_bits length] in *.
      split; [reflexivity|]. split; [exact Hsi|]. split; [exact Hsr|]. split; [exact Hcur|]. split; [rewrite Hlc; f_equal; lia|].
      intros rest. cbn [t87_line]. destruct (Z.geb_spec x w); [reflexivity | lia].
    - destruct inp as [|xs inp']; cbn [enc_line1] in Henc.
      + inversion Henc; subst st' cur' ops_rev'. exists [], t, (skipn (Z.to_nat x) E). cbn [rev app ops_bits length] in *.
        split; [reflexivity|]. split; [exact Hsi|]. split; [exact Hsr|]. split; [exact Hcur|]. split; [rewrite Hlc; f_equal; lia|].
        intros rest. cbn [t87_line]. destruct (Z.geb_spec x w); [reflexivity | lia].
      + cbn [length] in Hxw. apply Forall_cons_iff in Hinp. destruct Hinp as [Hxs Hinp'].
        set (left := match cur with l :: _ => l | [] => 0 end) in *.
        assert (Hleft : in_range P left).
        { unfold left. destruct cur; [unfold in_range; lia|]. inversion Hcur; assumption. }
        pose proof (t87_flat_eq x cur ltac:(lia) Hlc) as Hflat. fold left in Hflat.
        pose proof (template_eq w y pfp pn1 prev cleft x cur Hw Hrel ltac:(lia) Hlc) as Htpl. fold left E G in Htpl.
        destruct (neighbors1 w y x pfp pn1 left (skipn (Z.to_nat x) G)) as [[[ra rb] rc] rd] eqn:Enb.
        cbv beta iota in Hflat.
        pose proof (neighbors1_ra P w y pfp pn1 Hpfp _ _ _ _ _ _ _ Hleft Enb) as Hra.
        set (qs := context_qs p ra rb rc rd) in *.
        pose proof (context_qs_range p ra rb rc rd) as Hqs. fold qs in Hqs.
        destruct (ctx_index_in_range PkNear qs Hqs) as [Hci _].
        pose proof Hsi as (Hok & Hb & Hlen). pose proof Hok as (Hrir & Hok0 & Hty0 & Hok1 & Hty1).
        pose proof Hsr as (Hc & Hr0 & Hr1 & Hri).
        destruct (qs =? 0) eqn:Eqs; cbn [negb] in Henc.
        * (* run mode *)
          destruct (run_count PkNear p ra (xs :: inp') 0 0) as [[n m] rest0] eqn:Erc.
          destruct (run_count_spec P near PkNear HP Hnear I _ _ _ _ _ _ _ Erc) as (run & Hsplit & Hm & Hn & Hrun & Hstop).
          cbn [Nat.add] in Hm. rewrite Z.add_0_l in Hn. subst m n.
          assert (Hlen2 : Z.of_nat (length (xs :: inp')) = Z.of_nat (length run) + Z.of_nat (length rest0)).
          { rewrite Hsplit, app_length. lia. }
          cbn [length] in Hlen2.
          set (remaining := w - x) in *.
          assert (Hrem : 1 <= remaining) by (unfold remaining; lia).
          assert (Heol : (Z.of_nat (length run) =? remaining) = match rest0 with [] => true | _ :: _ => false end).
          { unfold remaining. destruct rest0; cbn [length] in Hlen2; [apply Z.eqb_eq | apply Z.eqb_neq]; lia. }
          destruct (run_roundtrip (S (length run)) (Z.of_nat (length run)) remaining (js_ri st) [] Hrir
                      ltac:(unfold remaining; lia) Hrem ltac:(lia)) as (rops & ri' & Hrl & Hri' & _ & _).
          pose proof Hrl as Hrl0. rewrite Heol in Hrl. rewrite Hrl in Henc.
          assert (Ht87rl : forall R, t87_run_length (ops_bits rops ++ R) remaining 0 (ts_runindex t) =
                                     Some (Z.of_nat (length run), (Z.of_nat (length run) =? remaining), ri', R)).
          { intros R. rewrite Hri. apply (t87_run_length_roundtrip (S (length run))); try assumption; unfold remaining; lia. }
          assert (Hsi1 : sinv (set_ri st ri')).
          { split; [apply jst_ok_set_ri; assumption | split; assumption]. }
          set (t1 := mkT87St (ts_ctx t) (ts_r365 t) (ts_r366 t) ri').
          assert (Hsr1 : st_rel t1 (set_ri st ri')).
          { unfold st_rel, t1, set_ri. cbn. split; [exact Hc|]. split; [exact Hr0|]. split; [exact Hr1|reflexivity]. }
          assert (HrunR : Forall (in_range P) (push_n (length run) ra cur)).
          { rewrite push_n_repeat. apply Forall_app. split; [apply Forall_repeat; exact Hra | exact Hcur]. }
          assert (Hlc1 : length (push_n (length run) ra cur) = Z.to_nat (x + Z.of_nat (length run))).
          { rewrite push_n_repeat, app_length, repeat_length, Hlc. lia. }
          assert (Hrv : t87_run_value (mkT87Comp (skipn (Z.to_nat x) E) cur) = ra).
          { unfold t87_run_value. rewrite Htpl. reflexivity. }
          destruct rest0 as [|xi rest'].
          -- inversion Henc; subst st' cur' ops_rev'.
             exists rops, t1, (skipn (length run) (skipn (Z.to_nat x) E)).
             split; [rewrite rev_append_rev'; reflexivity|]. split; [exact Hsi1|]. split; [exact Hsr1|].
             split; [exact HrunR|]. split; [rewrite Hlc1; f_equal; cbn [length] in Hlen2; lia|].
             intros rest. cbn [t87_line]. destruct (Z.geb_spec x w); [lia|].
             cbn [forallb]. rewrite Hflat. cbn [andb].
             fold remaining. rewrite Ht87rl. cbv zeta.
             assert (Hall : (Z.of_nat (length run) =? remaining) = true) by (rewrite Heol; reflexivity).
             rewrite Hall. cbn [map]. rewrite Hrv, Nat2Z.id, t87_push_run_spec. reflexivity.
          -- assert (Hrest_rng : Forall (in_range P) (xi :: rest')).
             { assert (HF : Forall (in_range P) (xs :: inp')) by (constructor; assumption).
               rewrite Hsplit in HF. apply Forall_app in HF. destruct HF; assumption. }
             apply Forall_cons_iff in Hrest_rng. destruct Hrest_rng as [Hxi Hrest'].
             cbn [length] in Hlen2.
             set (nr := length run) in *.
             set (pw1 := skipn nr (skipn (Z.to_nat x) G)) in *.
             assert (Hpw1 : pw1 = skipn (Z.to_nat (x + Z.of_nat nr)) G).
             { unfold pw1. rewrite skipn_skipn_add'. f_equal. lia. }
             set (rb' := if y >? 0 then win1 pw1 else 0) in *.
             assert (Hrb' : in_range P rb').
             { unfold rb'. destruct (y >? 0); [|unfold in_range; lia].
               apply win1_in_range; [assumption|]. rewrite Hpw1. apply Forall_skipn. exact G_range. }
             destruct (interrupt_enc PkNear p (set_ri st ri') xi ra rb') as [[iops st2] recon] eqn:Eint.
             destruct (t87_interrupt_step' (set_ri st ri') t1 xi ra rb' iops st2 recon Hsi1 Hsr1 Hra Hrb' Hxi Hstop Eint)
               as (t2 & Hd2 & Hsi2 & Hsr2 & Hrecon & Hri2).
             set (cur1 := push_n nr ra cur) in *.
             pose proof (template_eq w y pfp pn1 prev cleft (x + Z.of_nat nr) cur1 Hw Hrel ltac:(lia) Hlc1) as Htpl1.
             fold E G in Htpl1. rewrite <- Hpw1 in Htpl1.
             assert (Htpl1' : exists c3 d3, t87_template (mkT87Comp (skipn (Z.to_nat (x + Z.of_nat nr)) E) cur1) = (ra, rb', c3, d3)).
             { rewrite Htpl1. unfold neighbors1.
               destruct (Z.eqb_spec (x + Z.of_nat nr) 0) as [E0|NE0].
               - assert (Hx00 : x = 0) by lia. assert (Hnr0 : nr = O) by lia.
                 assert (Hra0 : ra = pfp).
                 { unfold neighbors1 in Enb. rewrite Hx00 in Enb. cbn [Z.eqb] in Enb. inversion Enb. reflexivity. }
                 eexists. eexists. f_equal. f_equal. f_equal; [symmetry; exact Hra0|].
                 unfold rb'. destruct (Z.gtb_spec y 0) as [Hy0|Hy0]; [|reflexivity].
                 destruct Hrel as [(_ & Hl & Hp & _) | (Hy & _)]; [|lia].
                 unfold pw1. rewrite Hnr0, Hx00. cbn [skipn Z.to_nat]. unfold G. cbn [win1]. rewrite Hp.
                 destruct prev; reflexivity.
               - eexists. eexists. f_equal. f_equal. f_equal.
                 unfold cur1. destruct nr as [|nr'] eqn:Enr.
                 + cbn [push_n]. unfold neighbors1 in Enb.
                   destruct (Z.eqb_spec x 0); [lia|]. inversion Enb. reflexivity.
                 + rewrite push_n_repeat. cbn [repeat app]. reflexivity. }
             destruct Htpl1' as (c3 & d3 & Htpl1').
             assert (Hsi3 : sinv (set_ri st2 (dec_run_index (js_ri st2)))).
             { destruct Hsi2 as (Hok2 & Hb2 & Hl2). split; [|split; assumption].
               apply jst_ok_set_ri; [exact Hok2|]. apply dec_run_index_range. destruct Hok2; assumption. }
             assert (Hcur2 : Forall (in_range P) (recon :: cur1)) by (constructor; [exact Hrecon | exact HrunR]).
             assert (Hlc2 : length (recon :: cur1) = Z.to_nat (x + Z.of_nat nr + 1)) by (cbn [length]; rewrite Hlc1; lia).
             assert (Hx2 : 0 <= x + Z.of_nat nr + 1) by lia.
             assert (Hxw2 : x + Z.of_nat nr + 1 + Z.of_nat (length rest') = w) by lia.
             set (t3 := mkT87St (ts_ctx t2) (ts_r365 t2) (ts_r366 t2)
                                (if ts_runindex t2 >? 0 then ts_runindex t2 - 1 else 0)).
             assert (Hsr3 : st_rel t3 (set_ri st2 (dec_run_index (js_ri st2)))).
             { destruct Hsr2 as (A1 & A2 & A3 & A4). unfold st_rel, t3, set_ri. cbn.
               split; [exact A1|]. split; [exact A2|]. split; [exact A3|].
               rewrite A4. unfold dec_run_index. destruct Hsi2 as ((Hr & _) & _).
               destruct (Z.gtb_spec (js_ri st2) 0); lia. }
             replace (tl pw1) with (skipn (Z.to_nat (x + Z.of_nat nr + 1)) G) in Henc
               by (rewrite Hpw1, tl_skipn'; f_equal; lia).
             destruct (IH _ t3 _ _ _ _ _ _ _ Hsi3 Hsr3 Hx2 Hxw2 Hlc2 Hrest' Hcur2 Henc)
               as (ops2 & t' & win' & Hops & Hsi' & Hsr' & Hcr' & Hlc' & Hdec).
             exists (rops ++ iops ++ ops2), t', win'.
             split; [rewrite Hops, !rev_append_rev', !rev_app_distr, <- !app_assoc; reflexivity|].
             split; [exact Hsi'|]. split; [exact Hsr'|]. split; [exact Hcr'|]. split; [exact Hlc'|].
             intros rest. cbn [t87_line]. destruct (Z.geb_spec x w); [lia|].
             cbn [forallb]. rewrite Hflat. cbn [andb].
             fold remaining. rewrite !ops_bits_app, <- !app_assoc. rewrite Ht87rl. cbv zeta.
             assert (Hnall : (Z.of_nat nr =? remaining) = false) by (rewrite Heol; reflexivity).
             rewrite Hnall. cbn [map]. rewrite Hrv, Nat2Z.id, t87_push_run_spec.
             rewrite skipn_skipn_add'. replace (Z.to_nat x + nr)%nat with (Z.to_nat (x + Z.of_nat nr)) by lia.
             fold cur1. fold t1.
             cbn [t87_interrupt_all]. rewrite Htpl1'. cbn [andb].
             destruct pfacts as (_ & Fnear & _). rewrite Fnear. rewrite Hd2.
             fold t3.
             replace (tl (skipn (Z.to_nat (x + Z.of_nat nr)) E)) with (skipn (Z.to_nat (x + Z.of_nat nr + 1)) E)
               by (rewrite tl_skipn'; f_equal; lia).
             unfold t87_push. cbn [tc_win tc_cur].
             replace (tl (skipn (Z.to_nat (x + Z.of_nat nr)) E)) with (skipn (Z.to_nat (x + Z.of_nat nr + 1)) E)
               by (rewrite tl_skipn'; f_equal; lia).
             apply Hdec.
        * (* regular mode *)
          assert (Nq : qs <> 0) by (apply Z.eqb_neq; exact Eqs).
          rewrite Hci in Henc.
          destruct (regular_enc PkNear true p (nth (Z.to_nat (Z.abs qs)) (js_ctxs st) (mkCtx 0 0 0 0)) qs ra rb rc xs)
            as [[ops c'] stored] eqn:Ereg.
          destruct (regular_lockstep P near PkNear HP Hnear I true _ qs ra rb rc xs [] ops c' stored (fun _ => eq_refl) Hxs Ereg)
            as (_ & _ & Hstored & _).
          destruct (t87_regular_step' st t xs ra rb rc rd ops c' stored Hsi Hsr Hxs Ereg) as (t1 & Hd1 & Hsi1 & Hsr1).
          fold qs in Hsi1, Hsr1.
          assert (Hcur2 : Forall (in_range P) (stored :: cur)) by (constructor; assumption).
          assert (Hlc2 : length (stored :: cur) = Z.to_nat (x + 1)) by (cbn [length]; rewrite Hlc; lia).
          replace (tl (skipn (Z.to_nat x) G)) with (skipn (Z.to_nat (x + 1)) G) in Henc
            by (rewrite tl_skipn'; f_equal; lia).
          assert (Hx2 : 0 <= x + 1) by lia.
          assert (Hxw2 : x + 1 + Z.of_nat (length inp') = w) by lia.
          destruct (IH _ t1 _ _ _ _ _ _ _ Hsi1 Hsr1 Hx2 Hxw2 Hlc2 Hinp' Hcur2 Henc)
            as (ops2 & t' & win' & Hops & Hsi' & Hsr' & Hcr' & Hlc' & Hdec).
          exists (ops ++ ops2), t', win'.
          split; [rewrite Hops, rev_append_rev', rev_app_distr, app_assoc; reflexivity|].
          split; [exact Hsi'|]. split; [exact Hsr'|]. split; [exact Hcr'|]. split; [exact Hlc'|].
          intros rest. cbn [t87_line]. destruct (Z.geb_spec x w); [lia|].
          cbn [forallb]. rewrite Hflat. cbn [andb].
          cbn [t87_regular_all]. rewrite Htpl. rewrite ops_bits_app, <- app_assoc. fold qs in Hd1. rewrite Hd1.
          unfold t87_push. cbn [tc_win tc_cur].
          replace (tl (skipn (Z.to_nat x) E)) with (skipn (Z.to_nat (x + 1)) E) by (rewrite tl_skipn'; f_equal; lia).
          apply Hdec.
  Qed.
End T87Line1.

(* ---------- all lines of a one-component scan ---------- *)

Lemma t87_rev_frev : forall l, t87_rev l = frev l.
Proof. reflexivity. Qed.

Section T87Lines1.
  Variables (P near : Z).
  Hypothesis HP : 2 <= P <= 16.
  Hypothesis Hnear : 0 <= near <= near_max P.
  Let p := jls_params P near.
  Variables (w : Z) (wn : nat).
  Hypothesis Hw : w = Z.of_nat wn.
  Hypothesis Hw1 : 1 <= w.

  Lemma t87_lines1_lockstep : forall hfuel y pfp pn1 st t prev cleft pix ops_rev ops_rev',
    sinv st -> st_rel t st -> line_rel w y pfp pn1 prev cleft ->
    in_range P pfp -> Forall (in_range P) prev -> Forall (in_range P) pix ->
    length pix = (hfuel * wn)%nat ->
    enc_lines1 hfuel PkNear p w wn y pfp pn1 st prev pix ops_rev = Ok ops_rev' ->
    exists ops lines,
      ops_rev' = rev ops ++ ops_rev /\
      Forall (fun l => length l = wn) lines /\
      (forall rest, dec_lines1 hfuel PkNear p w wn y pfp pn1 st prev (ops_bits ops ++ rest) = Ok lines) /\
      (forall rest, t87_lines hfuel p true w wn t [(prev, cleft)] (ops_bits ops ++ rest) =
                    Some (map (fun l => [l]) lines)).
  Proof.
    pose proof (pow2_bounds P HP) as Hpb.
    induction hfuel as [|hf IH]; intros y pfp pn1 st t prev cleft pix ops_rev ops_rev' Hsi Hsr Hrel Hpfp Hprev Hpix Hlen Henc;
      cbn [enc_lines1] in Henc.
    - inversion Henc; subst ops_rev'. exists [], []. split; [reflexivity|]. split; [constructor|].
      split; intros rest; reflexivity.
    - destruct (enc_line1 (S wn) PkNear p w y pfp pn1 st 0 (0 :: prev) [] (firstn wn pix) ops_rev)
        as [[[st1 cur_rev] ops1]| | |] eqn:Eline; try discriminate.
      assert (Hge : (wn <= length pix)%nat) by (rewrite Hlen; cbn; lia).
      destruct (firstn_skipn_length _ wn pix Hge) as [Hf Hs].
      assert (Hpw : Forall (in_range P) (0 :: prev)) by (constructor; [unfold in_range; lia | assumption]).
      pose proof Hsi as (Hok & _).
      assert (Hx0 : 0 <= 0) by lia.
      assert (Hxw : 0 + Z.of_nat (length (firstn wn pix)) = w) by (rewrite Hf; lia).
      destruct (line1_lockstep P near PkNear HP Hnear I w y pfp pn1 Hpfp (S wn) st 0 (0 :: prev) []
                  (firstn wn pix) ops_rev st1 cur_rev ops1 Hok Hx0 Hxw
                  (Forall_firstn _ _ wn pix Hpix) ltac:(constructor) Hpw Eline)
        as (ops_a & recs & Hops1 & Hcur & Hrelc & Hrng & Hst1 & Hwfa & Hdec).
      destruct (t87_line1_lockstep P near HP Hnear w y pfp pn1 prev cleft Hw1 Hrel Hpfp Hprev (S wn) st t 0 []
                  (firstn wn pix) ops_rev st1 cur_rev ops1 Hsi Hsr Hx0 Hxw eq_refl
                  (Forall_firstn _ _ wn pix Hpix) ltac:(constructor) Eline)
        as (ops_a' & t1 & win' & Hops1' & Hsi1 & Hsr1 & Hcr & Hlcr & Hdec').
      assert (ops_a' = ops_a).
      { rewrite Hops1 in Hops1'. apply app_inv_tail in Hops1'. apply (f_equal (@rev wop)) in Hops1'.
        rewrite !rev_involutive in Hops1'. symmetry. exact Hops1'. }
      subst ops_a'.
      rewrite app_nil_r in Hcur.
      assert (Hcurl : frev cur_rev = recs) by (rewrite frev_rev, Hcur, rev_involutive; reflexivity).
      rewrite Hcurl in Henc.
      assert (Hreclen : length recs = wn).
      { apply Forall2_len in Hrelc. rewrite <- Hrelc. exact Hf. }
      assert (Hfirst : in_range P (line_first recs)).
      { unfold line_first. destruct recs; [unfold in_range; lia | inversion Hrng; assumption]. }
      assert (Hrel' : line_rel w (y + 1) (line_first recs) pfp recs (t87_e0 prev)).
      { left. split; [destruct Hrel as [(Hy & _) | (Hy & _)]; lia|]. split; [rewrite Hreclen; lia|]. split; [reflexivity|].
        destruct Hrel as [(_ & _ & Hp & _) | (_ & Hpv & Hp & _)].
        - rewrite Hp. destruct prev; reflexivity.
        - subst prev pfp. reflexivity. }
      destruct (IH (y + 1) (line_first recs) pfp st1 t1 recs (t87_e0 prev) (skipn wn pix) ops1 ops_rev' Hsi1 Hsr1 Hrel' Hfirst Hrng
                  (Forall_skipn _ _ wn pix Hpix) ltac:(rewrite Hs, Hlen; cbn; lia) Henc)
        as (ops_b & lines & Hops & Hlw & Hdec2 & Hdec2').
      exists (ops_a ++ ops_b), (recs :: lines).
      split; [rewrite Hops, Hops1, rev_app_distr, app_assoc; reflexivity|].
      split; [constructor; assumption|].
      split.
      + intros rest. cbn [dec_lines1]. rewrite ops_bits_app, <- app_assoc.
        fold p in Hdec. rewrite (Hdec (ops_bits ops_b ++ rest)). rewrite Hcurl. rewrite Hdec2. reflexivity.
      + intros rest. cbn [t87_lines map fst snd]. rewrite ops_bits_app, <- app_assoc.
        change (t87_extend cleft prev) with (skipn (Z.to_nat 0) (t87_extend cleft prev)).
        fold p in Hdec'. rewrite (Hdec' (ops_bits ops_b ++ rest)).
        cbn [map combine fst snd tc_cur]. rewrite t87_rev_frev, Hcurl. rewrite Hdec2'. reflexivity.
  Qed.
End T87Lines1.
