(* Run interruption sample at codec level (one-component and interleaved paths), with the
   invariants of the run contexts that keep the Golomb parameter readable (k <= 32). *)
From V Require Import Common.Base JpegLS.JlsParams JpegLS.JlsGolomb JpegLS.JlsRun JpegLS.JlsModel.
From V Require Import JpegLS.JlsProofsParams JpegLS.JlsProofsGolomb JpegLS.JlsProofsSample
                      JpegLS.JlsProofsRun JpegLS.JlsProofsNear0 JpegLS.JlsProofsWriter.

(* ---------- run context invariant ---------- *)

Definition runctx_ok (c : runctx) : Prop :=
  1 <= rc_N c <= 64 /\ 0 <= rc_A c <= rc_N c * 131072.

Lemma ggc_loop_le32 : forall fuel nTest temp k,
  1 <= nTest -> 0 <= k <= 32 -> temp <= nTest * 2 ^ (32 - k) -> ggc_loop fuel nTest temp k <= 32.
Proof.
  induction fuel as [|f IH]; intros nTest temp k Hn Hk Ht; cbn [ggc_loop]; [lia|].
  destruct (Z.ltb_spec nTest temp) as [Hlt|]; [|lia].
  destruct (Z.gtb_spec (k + 1) 32) as [Hgt|Hle].
  - assert (k = 32) by lia. subst k. change (2 ^ (32 - 32)) with 1 in Ht. lia.
  - assert (Hs : Z.shiftl nTest 1 = nTest * 2) by (rewrite Z.shiftl_mul_pow2 by lia; reflexivity).
    rewrite Hs.
    replace (32 - k) with (Z.succ (32 - (k + 1))) in Ht by lia. rewrite Z.pow_succ_r in Ht by lia.
    apply IH; lia.
Qed.

Lemma GetGolombCode_le32 : forall c, (rc_type c = 0 \/ rc_type c = 1) -> runctx_ok c -> GetGolombCode c <= 32.
Proof.
  intros c Hty [[HN1 HN2] [HA1 HA2]]. unfold GetGolombCode. apply ggc_loop_le32; try lia.
  change (2 ^ (32 - 0)) with 4294967296.
  assert (0 <= Z.shiftr (rc_N c) 1 <= rc_N c).
  { rewrite Z.shiftr_div_pow2 by lia. change (2 ^ 1) with 2. Z.div_mod_to_equations. lia. }
  destruct Hty as [T|T]; rewrite T; nia.
Qed.

Lemma UpdateVariables_ok : forall c e em,
  (rc_type c = 0 \/ rc_type c = 1) -> runctx_ok c -> 0 <= em <= 131072 -> (rc_type c = 1 -> 0 <= em) ->
  runctx_ok (UpdateVariables c e em 64) /\ rc_type (UpdateVariables c e em 64) = rc_type c.
Proof.
  intros c e em Hty [[HN1 HN2] [HA1 HA2]] Hem _. unfold UpdateVariables. cbv zeta.
  assert (Hinc : 0 <= Z.shiftr (em + 1 - rc_type c) 1 <= 65536).
  { rewrite Z.shiftr_div_pow2 by lia. change (2 ^ 1) with 2. destruct Hty as [T|T]; rewrite T; Z.div_mod_to_equations; lia. }
  destruct (Z.eqb_spec (rc_N c) 64) as [E|NE]; cbn [rc_type rc_N rc_A]; (split; [|reflexivity]); unfold runctx_ok; cbn [rc_N rc_A].
  - rewrite !Z.shiftr_div_pow2 by lia. change (2 ^ 1) with 2. rewrite E in *.
    change (64 / 2) with 32. split; [lia|]. Z.div_mod_to_equations. lia.
  - lia.
Qed.

Lemma a_init_bounds : forall R, 2 <= R <= 65536 -> 2 <= a_init R <= 1025.
Proof.
  intros R HR. unfold a_init. rewrite Z.quot_div_nonneg by lia.
  assert (0 <= (R + 32) / 64 <= 1024) by (Z.div_mod_to_equations; lia). lia.
Qed.

Lemma new_runctx_ok : forall rit R, 2 <= R <= 65536 -> runctx_ok (new_runctx rit R) /\ rc_type (new_runctx rit R) = rit.
Proof.
  intros rit R HR. pose proof (a_init_bounds R HR). unfold new_runctx, runctx_ok. cbn. split; [lia|reflexivity].
Qed.

(* coder state invariant *)
Definition jst_ok (st : jstate) : Prop :=
  0 <= js_ri st <= 31 /\
  runctx_ok (js_rc0 st) /\ rc_type (js_rc0 st) = 0 /\
  runctx_ok (js_rc1 st) /\ rc_type (js_rc1 st) = 1.

Lemma jst_ok_set_ri : forall st ri, jst_ok st -> 0 <= ri <= 31 -> jst_ok (set_ri st ri).
Proof. intros st ri (H1 & H2 & H3 & H4 & H5) Hri. unfold jst_ok, set_ri. cbn. auto. Qed.

Lemma jst_ok_set_ctx : forall st i c, jst_ok st -> jst_ok (set_ctx st i c).
Proof. intros st i c H. unfold jst_ok, set_ctx in *. cbn. exact H. Qed.

(* ---------- arithmetic facts about the coded error ---------- *)

Section IntArith.
  Local Set Default Proof Using "All".
  Variables (p : jparams) (P : Z).
  Let mv := jp_maxval p.
  Let n := jp_near p.
  Let R := jp_range p.
  Hypothesis HP : 2 <= P <= 16.
  Hypothesis Hmv : mv = 2 ^ P - 1.
  Hypothesis Hn : 0 <= n.
  Hypothesis Hn2 : 2 * n <= mv.
  Hypothesis HR : R = (mv + 2 * n) / (2 * n + 1) + 1.

  Lemma quantize_nonzero : forall d, - mv <= d <= mv -> n < Z.abs d -> quantize p d <> 0.
  Proof.
    intros d Hd Hbig. unfold quantize. fold n.
    destruct (Z.eqb_spec n 0) as [E|NE]; [lia|].
    destruct (Z.gtb_spec d 0).
    - rewrite Z.quot_div_nonneg by lia.
      assert (1 <= (d + n) / (2 * n + 1)) by (apply Z.div_le_lower_bound; lia). lia.
    - rewrite Z.quot_opp_l by lia. rewrite Z.quot_div_nonneg by lia.
      assert (1 <= (n - d) / (2 * n + 1)) by (apply Z.div_le_lower_bound; lia). lia.
  Qed.

  Lemma ModuloRange_nonzero : forall q, - (R - 1) <= q <= R - 1 -> q <> 0 -> ModuloRange p q <> 0.
  Proof.
    intros q Hq Hq0. destruct (ModuloRange_spec p P HP Hmv Hn Hn2 HR q Hq) as [[H|[H|H]] _]; fold R in H; lia.
  Qed.

  Lemma ModuloRange_abs : forall q, - (R - 1) <= q <= R - 1 -> 2 * Z.abs (ModuloRange p q) <= R.
  Proof.
    intros q Hq. destruct (ModuloRange_spec p P HP Hmv Hn Hn2 HR q Hq) as [_ H]. fold R in H.
    assert (2 * (R / 2) <= R /\ 2 * ((R + 1) / 2) <= R + 1) by (Z.div_mod_to_equations; lia). lia.
  Qed.

  (* reducing an already reduced error again changes it at most by a multiple of RANGE *)
  Lemma ModuloRange_again : forall v, - (R - 1) <= v <= R - 1 ->
    exists j, ModuloRange p v = v + j * R.
  Proof.
    intros v Hv. destruct (ModuloRange_spec p P HP Hmv Hn Hn2 HR v Hv) as [[H|[H|H]] _]; fold R in H;
      [exists 0 | exists 1 | exists (-1)]; lia.
  Qed.

  (* lossless reconstruction only depends on the error modulo RANGE = 2^P *)
  Lemma reconstruct_congr : n = 0 -> forall pv a j,
    ComputeReconstructedSample p pv (a + j * R) = ComputeReconstructedSample p pv a.
  Proof.
    intros E0 pv a j.
    pose proof (pow2_test p P HP Hmv Hn Hn2 HR) as Hp2.
    pose proof (land_mv p P HP Hmv Hn Hn2 HR) as Hland.
    unfold R, mv, n in *.
    unfold ComputeReconstructedSample, fixReconstructedValue.
    rewrite Hp2, E0. cbn [Z.eqb andb]. rewrite !Hland.
    assert (HR0 : jp_range p = 2 ^ P).
    { rewrite HR, E0. change (2 * 0 + 1) with 1. rewrite Z.div_1_r. lia. }
    rewrite HR0. change (2 * 0 + 1) with 1.
    replace (pv + (a + j * 2 ^ P) * 1) with (pv + a * 1 + j * 2 ^ P) by ring.
    pose proof (pow2_bounds P HP). apply Z.mod_add. lia.
  Qed.
End IntArith.

(* ---------- the interruption sample, one-component paths ---------- *)

Definition pk_ok (pk : pkg) (near : Z) : Prop := match pk with PkLossless => near = 0 | PkNear => True end.

Lemma signInt_cases : forall v, signInt v = 1 \/ signInt v = -1.
Proof. intros. unfold signInt. destruct (v <? 0); auto. Qed.

Lemma pk_error_eq : forall pk p d, pk_ok pk (jp_near p) ->
  pk_error pk p d = ModuloRange p (quantize p d).
Proof.
  intros pk p d Hpk. destruct pk; [|reflexivity].
  simpl in Hpk. unfold pk_error, ll_computeErrorValue, quantize. rewrite Hpk. reflexivity.
Qed.

Section Interrupt.
  Variables (P near : Z) (pk : pkg).
  Hypothesis HP : 2 <= P <= 16.
  Hypothesis Hnear : 0 <= near <= near_max P.
  Hypothesis Hpk : pk_ok pk near.
  Let p := jls_params P near.

  Lemma facts_unpack :
    jp_maxval p = 2 ^ P - 1 /\ jp_near p = near /\ 0 <= jp_near p /\ 2 * jp_near p <= jp_maxval p /\
    jp_range p = (jp_maxval p + 2 * jp_near p) / (2 * jp_near p + 1) + 1 /\
    2 <= jp_range p <= 65536 /\ jp_range p <= 2 ^ jp_qbpp p /\ 1 <= jp_qbpp p <= 16 /\
    jp_qbpp p + 1 < jp_limit p - 16 /\ jp_limit p <= 64 /\ jp_reset p = 64.
  Proof.
    destruct (jls_params_facts P near HP Hnear) as [Fmv Fnear Frange Fr2 Frq Fq1 Fq16 Fll Flh Freset Ft1 Ft12 Ft23 Fa].
    fold p in Fmv, Fnear, Frange, Fr2, Frq, Fq1, Fq16, Fll, Flh, Freset.
    pose proof (near_max_half P near HP Hnear). pose proof (pow2_bounds P HP).
    assert (HR : jp_range p = (jp_maxval p + 2 * jp_near p) / (2 * jp_near p + 1) + 1) by (rewrite Fnear; exact Frange).
    assert (Hle : jp_range p <= jp_maxval p + 1).
    { apply (R_le p P HP Fmv); try lia; try exact HR. }
    repeat split; try lia; try exact HR.
  Qed.

  (* one coded interruption error: context c (type rit), prediction px, sign sg.
     e is what the encoder codes; the decoder gets it back; the reconstruction is within NEAR. *)
  Lemma interruption_core : forall ri c x px sg rest,
    0 <= ri <= 31 -> (rc_type c = 0 \/ rc_type c = 1) -> runctx_ok c ->
    (sg = 1 \/ sg = -1) -> 0 <= px <= 2 ^ P - 1 -> 0 <= x <= 2 ^ P - 1 ->
    (rc_type c = 1 -> near < Z.abs (x - px)) ->
    let e := pk_error pk p (sg * (x - px)) in
    let r := EncodeRunInterruption p ri c e in
    DecodeRunInterruption p ri c (ops_bits (fst r) ++ rest) = Some (e, snd r, rest) /\
    Forall wop_ok (fst r) /\
    runctx_ok (snd r) /\ rc_type (snd r) = rc_type c /\
    e = ModuloRange p (quantize p (sg * (x - px))) /\
    - (jp_range p - 1) <= e <= jp_range p - 1 /\
    Z.abs (ComputeReconstructedSample p px (sg * e) - x) <= near /\
    0 <= ComputeReconstructedSample p px (sg * e) <= 2 ^ P - 1.
  Proof.
    intros ri c x px sg rest Hri Hty Hok Hsg Hpx Hx Hnz e r.
    destruct facts_unpack as (Fmv & Fnear & Fn0 & Fn2 & FR & FR2 & FRq & Fq & Fll & Flh & Freset).
    assert (Hpkp : pk_ok pk (jp_near p)) by (rewrite Fnear; exact Hpk).
    assert (He : e = ModuloRange p (quantize p (sg * (x - px)))) by (apply pk_error_eq; exact Hpkp).
    assert (Hd : - jp_maxval p <= sg * (x - px) <= jp_maxval p) by (destruct Hsg; subst sg; lia).
    destruct (quantize_spec p P HP Fmv Fn0 Fn2 FR _ Hd) as [_ Hq2].
    pose proof (ModuloRange_abs p P HP Fmv Fn0 Fn2 FR _ Hq2) as Habs. rewrite <- He in Habs.
    pose proof (Jof_range ri Hri) as HJ.
    assert (Hnz' : rc_type c = 1 -> e <> 0).
    { intro T. rewrite He. apply (ModuloRange_nonzero p P HP Fmv Fn0 Fn2 FR); [exact Hq2|].
      apply (quantize_nonzero p P HP Fmv Fn0 Fn2 FR); [exact Hd|].
      specialize (Hnz T). rewrite Fnear. destruct Hsg; subst sg; lia. }
    destruct (run_interruption_roundtrip p ri c e rest Hty Hnz' Hri (GetGolombCode_le32 c Hty Hok)
                ltac:(lia) ltac:(lia) ltac:(lia) ltac:(lia)) as [Hrt Hwok].
    split; [exact Hrt|]. split; [apply Hwok; lia|].
    (* the update *)
    unfold r, EncodeRunInterruption. cbv zeta. cbn [snd]. rewrite Freset.
    set (k := GetGolombCode c).
    set (mp := ComputeMap c e k).
    assert (Hmp : mp = true -> e <> 0).
    { unfold mp, ComputeMap. intros H E. rewrite E in H. cbn in H. rewrite !andb_false_r in H. cbn in H. discriminate. }
    assert (Hem : 0 <= (if mp then 2 * Z.abs e - rc_type c - 1 else 2 * Z.abs e - rc_type c) <= 131072).
    { destruct mp eqn:Em.
      - specialize (Hmp eq_refl). destruct Hty as [T|T]; rewrite T; lia.
      - destruct Hty as [T|T]; rewrite T; [lia|]. specialize (Hnz' T). lia. }
    destruct (UpdateVariables_ok c e _ Hty Hok Hem ltac:(lia)) as [Hok' Hty'].
    split; [exact Hok'|]. split; [exact Hty'|]. split; [exact He|].
    split.
    { assert (2 * (jp_range p / 2) <= jp_range p) by (Z.div_mod_to_equations; lia). lia. }
    rewrite He.
    pose proof (reconstruct_near p P HP Fmv Fn0 Fn2 FR px x sg Hsg ltac:(lia) ltac:(lia)) as [Hb1 Hb2].
    cbv zeta in Hb1, Hb2. rewrite Fnear in Hb1. split; [exact Hb1 | lia].
  Qed.

  (* encodeRunInterruptionPixel / decodeRunInterruptionPixel *)
  Lemma interrupt_roundtrip : forall st x ra rb rest iops st2 recon,
    jst_ok st -> 0 <= ra <= 2 ^ P - 1 -> 0 <= rb <= 2 ^ P - 1 -> 0 <= x <= 2 ^ P - 1 ->
    near < Z.abs (x - ra) ->
    interrupt_enc pk p st x ra rb = (iops, st2, recon) ->
    interrupt_dec pk p st ra rb (ops_bits iops ++ rest) = Some (recon, st2, rest) /\
    jst_ok st2 /\ js_ri st2 = js_ri st /\ js_ctxs st2 = js_ctxs st /\
    Z.abs (recon - x) <= near /\ 0 <= recon <= 2 ^ P - 1 /\ Forall wop_ok iops.
  Proof.
    intros st x ra rb rest iops st2 recon (Hri & Hok0 & Hty0 & Hok1 & Hty1) Hra Hrb Hx Hfar Henc.
    destruct facts_unpack as (Fmv & Fnear & Fn0 & Fn2 & FR & FR2 & FRq & Fq & Fll & Flh & Freset).
    unfold interrupt_enc in Henc. unfold interrupt_dec. rewrite Fnear in Henc |- *.
    destruct (Z.leb_spec (Z.abs (ra - rb)) near) as [Hclose|Hfarb].
    - (* run context 1, prediction Ra, sign +1 *)
      pose proof (interruption_core (js_ri st) (js_rc1 st) x ra 1 rest Hri (or_intror Hty1) Hok1
                    (or_introl eq_refl) Hra Hx (fun _ => Hfar)) as Hc.
      cbv zeta in Hc. rewrite !Z.mul_1_l in Hc.
      destruct (EncodeRunInterruption p (js_ri st) (js_rc1 st) (pk_error pk p (x - ra))) as [ops c1] eqn:E.
      cbn [fst snd] in Hc. destruct Hc as (Hdec & Hwok & Hok' & Hty' & He & Her & Hb1 & Hb2).
      inversion Henc; subst iops st2 recon. rewrite Hdec.
      assert (Hst : jst_ok (mkJst (js_ctxs st) (js_rc0 st) c1 (js_ri st))).
      { unfold jst_ok. cbn. rewrite Hty', Hty1. auto. }
      split; [|split; [exact Hst | split; [reflexivity | split; [reflexivity | split; [assumption | split; assumption]]]]].
      destruct pk; [|reflexivity].
      (* lossless: the decoder reduces the decoded error once more; same reconstruction *)
      simpl in Hpk. unfold ll_computeErrorValue.
      destruct (ModuloRange_again p P HP Fmv Fn0 Fn2 FR _ Her) as [j Hj]. rewrite Hj.
      rewrite (reconstruct_congr p P HP Fmv Fn0 Fn2 FR ltac:(lia)). reflexivity.
    - (* run context 0, prediction Rb, sign signInt(rb - ra) *)
      set (sg := signInt (rb - ra)) in *.
      pose proof (interruption_core (js_ri st) (js_rc0 st) x rb sg rest Hri (or_introl Hty0) Hok0
                    (signInt_cases _) Hrb Hx ltac:(intro T; rewrite Hty0 in T; discriminate)) as Hc.
      cbv zeta in Hc. replace (sg * (x - rb)) with ((x - rb) * sg) in Hc by ring.
      destruct (EncodeRunInterruption p (js_ri st) (js_rc0 st) (pk_error pk p ((x - rb) * sg))) as [ops c0] eqn:E.
      cbn [fst snd] in Hc. destruct Hc as (Hdec & Hwok & Hok' & Hty' & He & Her & Hb1 & Hb2).
      inversion Henc; subst iops st2 recon. rewrite Hdec.
      assert (Hst : jst_ok (mkJst (js_ctxs st) c0 (js_rc1 st) (js_ri st))).
      { unfold jst_ok. cbn. rewrite Hty', Hty0. auto. }
      replace (pk_error pk p ((x - rb) * sg) * sg) with (sg * pk_error pk p ((x - rb) * sg)) by ring.
      split; [|split; [exact Hst | split; [reflexivity | split; [reflexivity | split; [assumption | split; assumption]]]]].
      destruct pk; [|f_equal; f_equal; f_equal; f_equal; ring].
      simpl in Hpk. unfold ll_computeErrorValue.
      assert (Hrange : - (jp_range p - 1) <= sg * pk_error PkLossless p ((x - rb) * sg) <= jp_range p - 1).
      { set (E0 := pk_error PkLossless p ((x - rb) * sg)) in *.
        destruct (signInt_cases (rb - ra)) as [S|S]; fold sg in S; rewrite S; lia. }
      destruct (ModuloRange_again p P HP Fmv Fn0 Fn2 FR _ Hrange) as [j Hj]. rewrite Hj.
      rewrite (reconstruct_congr p P HP Fmv Fn0 Fn2 FR ltac:(lia)).
      reflexivity.
  Qed.

  (* interleaved paths: always run context 0, sign signInt(above - left) *)
  Lemma interrupt_i_roundtrip : forall st xs left above rest iops st2 recon,
    jst_ok st -> 0 <= above <= 2 ^ P - 1 -> 0 <= xs <= 2 ^ P - 1 ->
    interrupt_enc_i pk p st xs left above = (iops, st2, recon) ->
    interrupt_dec_i p st left above (ops_bits iops ++ rest) = Some (recon, st2, rest) /\
    jst_ok st2 /\ js_ri st2 = js_ri st /\ js_ctxs st2 = js_ctxs st /\
    Z.abs (recon - xs) <= near /\ 0 <= recon <= 2 ^ P - 1 /\ Forall wop_ok iops.
  Proof.
    intros st xs left above rest iops st2 recon (Hri & Hok0 & Hty0 & Hok1 & Hty1) Hab Hx Henc.
    unfold interrupt_enc_i in Henc. unfold interrupt_dec_i. cbv zeta in Henc.
    set (sg := signInt (above - left)) in *.
    pose proof (interruption_core (js_ri st) (js_rc0 st) xs above sg rest Hri (or_introl Hty0) Hok0
                  (signInt_cases _) Hab Hx ltac:(intro T; rewrite Hty0 in T; discriminate)) as Hc.
    cbv zeta in Hc.
    destruct (EncodeRunInterruption p (js_ri st) (js_rc0 st) (pk_error pk p (sg * (xs - above)))) as [ops c0] eqn:E.
    cbn [fst snd] in Hc. destruct Hc as (Hdec & Hwok & Hok' & Hty' & He & Her & Hb1 & Hb2).
    inversion Henc; subst iops st2 recon. rewrite Hdec.
    assert (Hst : jst_ok (mkJst (js_ctxs st) c0 (js_rc1 st) (js_ri st))).
    { unfold jst_ok. cbn. rewrite Hty', Hty0. auto. }
    replace (pk_error pk p (sg * (xs - above)) * sg) with (sg * pk_error pk p (sg * (xs - above))) by ring.
    split; [reflexivity | split; [exact Hst | split; [reflexivity | split; [reflexivity | split; [assumption | split; assumption]]]]].
  Qed.
End Interrupt.
