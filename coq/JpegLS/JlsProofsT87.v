(* C14: the independent from-the-standard decoder (JlsT87Dec) against the Go-shaped models.
   Full statement (t87_agrees_statement): on every encoder stream t87_decode returns what the
   library decoder model returns. Proved here:
   (a) the building blocks of the two decoders compute the same functions (gradient
       quantisation, MED, context numbering with sign, the context update, the reconstruction);
   (b) the full statement on finite domains by computation: all one-component images up to 2x2
       (and 3x1) and all three-component 1x1 images at P = 2 for NEAR 0 and 1, and the H.3 image;
   (c) symbol level, all parameters: the T.87 decoder's Golomb decoding (t87_golomb_roundtrip),
       regular-mode sample (t87_regular_roundtrip), run-length (t87_run_length_roundtrip) and
       run-interruption sample (t87_interruption_roundtrip) applied to the bits the coded
       encoder wrote recover exactly what the encoder coded, stored and updated.
   The full statement is proved on top of (c) in JlsProofsT87Line (one component: state
   invariant, template equality, line and lines lockstep), JlsProofsT87Line3 (sample-interleaved
   three components) and JlsProofsT87Stream (headers, bit unstuffing, output container:
   t87_agrees : t87_agrees_statement). The harness also runs the extracted t87_decode against Go
   on every generated stream (C14 oracle). *)
From V Require Import Common.Base JpegLS.JlsParams JpegLS.JlsGolomb JpegLS.JlsRun JpegLS.JlsModel JpegLS.JlsT87Dec.
From V Require Import JpegLS.JlsProofsParams JpegLS.JlsProofsGolomb JpegLS.JlsProofsWriter JpegLS.JlsProofsSample
                      JpegLS.JlsProofsRun JpegLS.JlsProofsNear0 JpegLS.JlsProofsInterrupt.

Definition t87_result_eq (a : outcome t87_image) (b : outcome decoded) : Prop :=
  match a, b with
  | Ok x, Ok y => ti_pixels x = dc_pixels y /\ ti_w x = dc_w y /\ ti_h x = dc_h y /\
                  ti_comps x = dc_comps y /\ ti_P x = dc_bd y /\ ti_near x = dc_near y
  | Err, Err => True
  | _, _ => False
  end.

Definition t87_agrees_statement : Prop :=
  forall w h comps P near pixelData stream lim,
    1 <= w <= 65535 -> 1 <= h <= 65535 -> comps = 1 \/ comps = 3 -> 2 <= P <= 16 ->
    0 <= near <= near_max P -> w * h * comps <= lim ->
    zlen (pixelsToIntegers P pixelData) = w * h * comps ->
    Forall (in_range P) (pixelsToIntegers P pixelData) ->
    jlsn_encode w h comps P near pixelData = Ok stream ->
    t87_result_eq (t87_decode lim stream) (jlsn_decode lim stream).

(* ---------- (a) the building blocks coincide ---------- *)

Lemma t87_quant_eq : forall p d, t87_quant p d = quantizeGradient p d.
Proof. reflexivity. Qed.

Lemma t87_med_eq : forall a b c, t87_med a b c = Predict a b c.
Proof. reflexivity. Qed.

(* context number and sign: 81 Q1 + 9 Q2 + Q3 after sign normalisation = |qs|, SIGN = sign of qs *)
Lemma t87_context_eq_all : forall q1 q2 q3,
  -4 <= q1 <= 4 -> -4 <= q2 <= 4 -> -4 <= q3 <= 4 ->
  let qs := (q1 * 9 + q2) * 9 + q3 in
  t87_context q1 q2 q3 = (sgn_of qs, Z.abs qs).
Proof.
  intros q1 q2 q3 H1 H2 H3 qs. subst qs. unfold t87_context, sgn_of.
  destruct (Z.eqb_spec q1 0) as [E1|N1]; cbn [negb].
  - subst q1. destruct (Z.eqb_spec q2 0) as [E2|N2]; cbn [negb].
    + subst q2. destruct (Z.ltb_spec q3 0); destruct (Z.ltb_spec ((0 * 9 + 0) * 9 + q3) 0); try lia; f_equal; lia.
    + destruct (Z.ltb_spec q2 0); destruct (Z.ltb_spec ((0 * 9 + q2) * 9 + q3) 0); try lia; f_equal; lia.
  - destruct (Z.ltb_spec q1 0); destruct (Z.ltb_spec ((q1 * 9 + q2) * 9 + q3) 0); try lia; f_equal; lia.
Qed.

Lemma t87_context_eq : forall q1 q2 q3,
  -4 <= q1 <= 4 -> -4 <= q2 <= 4 -> -4 <= q3 <= 4 ->
  let qs := (q1 * 9 + q2) * 9 + q3 in
  qs <> 0 ->
  t87_context q1 q2 q3 = (sgn_of qs, Z.abs qs).
Proof. intros q1 q2 q3 H1 H2 H3 qs _. apply t87_context_eq_all; assumption. Qed.

Lemma t87_clip_eq : forall p v, t87_clip p v = CorrectPrediction p v.
Proof. reflexivity. Qed.

(* A.6 update = UpdateContext below the overflow guard of the Go code (A, |B| < 2^24) *)
Lemma t87_update_eq : forall p c e,
  let c' := mkCtx (tA c) (tB c) (tC c) (tN c) in
  0 <= tA c + Z.abs e < 16777216 -> Z.abs (tB c + e * (2 * jp_near p + 1)) < 16777216 ->
  let u := t87_update p c e in
  UpdateContext c' e (jp_near p) (jp_reset p) = mkCtx (tA u) (tB u) (tC u) (tN u).
Proof.
  intros p c e c' HA HB u. subst c' u. unfold UpdateContext, t87_update. cbn [cA cB cC cN].
  destruct (Z.geb_spec (tA c + Z.abs e) 16777216); [lia|].
  destruct (Z.geb_spec (Z.abs (tB c + e * (2 * jp_near p + 1))) 16777216); [lia|]. cbn [orb andb].
  rewrite !Z.shiftr_div_pow2 by lia. change (2 ^ 1) with 2.
  set (b := tB c + e * (2 * jp_near p + 1)).
  assert (Hhalf : (if b >=? 0 then b / 2 else - ((1 - b) / 2)) = b / 2).
  { destruct (Z.geb_spec b 0); [reflexivity|]. Z.div_mod_to_equations. lia. }
  destruct (Z.eqb_spec (tN c) (jp_reset p)).
  - rewrite Hhalf.
    destruct (Z.leb_spec (b / 2 + (tN c / 2 + 1)) 0); destruct (Z.leb_spec (b / 2) (- (tN c / 2 + 1))); try lia.
    + reflexivity.
    + destruct (Z.gtb_spec (b / 2) 0); reflexivity.
  - destruct (Z.leb_spec (b + (tN c + 1)) 0); destruct (Z.leb_spec b (- (tN c + 1))); try lia.
    + reflexivity.
    + destruct (Z.gtb_spec b 0); reflexivity.
Qed.

(* F.1 reconstruction = ComputeReconstructedSample (for MAXVAL = 2^P - 1) *)
Lemma t87_reconstruct_eq : forall P near px sign e,
  2 <= P <= 16 -> 0 <= near <= near_max P ->
  let p := jls_params P near in
  sign = 1 \/ sign = -1 -> 0 <= px <= 2 ^ P - 1 ->
  - (jp_range p - 1) <= e <= jp_range p - 1 ->
  t87_reconstruct p px sign e = ComputeReconstructedSample p px (sign * e).
Proof.
  intros P near px sign e HP Hn p Hs Hpx He.
  destruct (jls_params_facts P near HP Hn) as [Fmv Fnear Frange Fr2 Frq Fq1 Fq16 Fll Flh Freset Ft1 Ft12 Ft23 Fa].
  fold p in Fmv, Fnear, Frange, Fr2.
  pose proof (near_max_half P near HP Hn) as Hhalf. pose proof (pow2_bounds P HP) as Hpb.
  assert (Hn0 : 0 <= jp_near p) by lia. assert (Hn2 : 2 * jp_near p <= jp_maxval p) by lia.
  assert (HR : jp_range p = (jp_maxval p + 2 * jp_near p) / (2 * jp_near p + 1) + 1) by (rewrite Fnear; exact Frange).
  unfold t87_reconstruct, ComputeReconstructedSample, fixReconstructedValue.
  rewrite (pow2_test p P HP Fmv Hn0 Hn2 HR).
  replace (px + sign * e * (2 * jp_near p + 1)) with (px + sign * e * (2 * jp_near p + 1)) by ring.
  destruct (Z.eqb_spec (jp_near p) 0) as [E0|NE0]; cbn [andb].
  - (* NEAR = 0: the standard's one-step reduction and clamp equals reduction modulo 2^P *)
    rewrite (land_mv p P HP Fmv Hn0 Hn2 HR). rewrite E0 in *.
    assert (HR0 : jp_range p = 2 ^ P) by (rewrite HR, Fmv; change (2 * 0 + 1) with 1; rewrite Z.div_1_r; lia).
    change (2 * 0 + 1) with 1. rewrite !Z.mul_1_r. unfold t87_clip. rewrite Fmv, HR0 in *.
    assert (Hv : - 2 ^ P < px + sign * e < 2 * 2 ^ P) by (destruct Hs; subst sign; lia).
    destruct (Z.ltb_spec (px + sign * e) (- 0)).
    + replace (px + sign * e) with ((px + sign * e + 2 ^ P) + (-1) * 2 ^ P) at 4 by ring.
      rewrite Z.mod_add by lia. rewrite Z.mod_small by lia.
      destruct (Z.ltb_spec (px + sign * e + 2 ^ P) 0); [lia|].
      destruct (Z.gtb_spec (px + sign * e + 2 ^ P) (2 ^ P - 1)); lia.
    + destruct (Z.gtb_spec (px + sign * e) (2 ^ P - 1 + 0)).
      * replace (px + sign * e) with ((px + sign * e - 2 ^ P) + 1 * 2 ^ P) at 4 by ring.
        rewrite Z.mod_add by lia. rewrite Z.mod_small by lia.
        destruct (Z.ltb_spec (px + sign * e - 2 ^ P) 0); [lia|].
        destruct (Z.gtb_spec (px + sign * e - 2 ^ P) (2 ^ P - 1)); lia.
      * rewrite Z.mod_small by lia.
        destruct (Z.ltb_spec (px + sign * e) 0); [lia|].
        destruct (Z.gtb_spec (px + sign * e) (2 ^ P - 1)); lia.
  - rewrite (correctPrediction_lc_clamp p P HP Fmv Hn0 Hn2 HR). unfold t87_clip. reflexivity.
Qed.

(* ---------- (b) the full statement on finite domains ---------- *)

Definition t87_same (w h comps P near : Z) (px : list Z) : bool :=
  match jlsn_encode w h comps P near px with
  | Ok s =>
    match t87_decode 1000 s, jlsn_decode 1000 s with
    | Ok a, Ok b =>
      (if list_eq_dec Z.eq_dec (ti_pixels a) (dc_pixels b) then true else false) &&
      (ti_w a =? dc_w b) && (ti_h a =? dc_h b) && (ti_comps a =? dc_comps b) && (ti_P a =? dc_bd b) &&
      (ti_near a =? dc_near b)
    | _, _ => false
    end
  | _ => false
  end.

(* all lists of length n over 0..3 *)
Fixpoint all_lists (n : nat) : list (list Z) :=
  match n with
  | O => [[]]
  | S k => flat_map (fun t => map (fun v => v :: t) [0; 1; 2; 3]) (all_lists k)
  end.

Theorem t87_agrees_small_images :
  forallb (fun near =>
    forallb (t87_same 1 1 1 2 near) (all_lists 1) &&
    forallb (t87_same 2 1 1 2 near) (all_lists 2) &&
    forallb (t87_same 1 2 1 2 near) (all_lists 2) &&
    forallb (t87_same 2 2 1 2 near) (all_lists 4) &&
    forallb (t87_same 3 1 1 2 near) (all_lists 3) &&
    forallb (t87_same 1 1 3 2 near) (all_lists 3)) [0; 1] = true.
Proof. vm_compute. reflexivity. Qed.

Theorem t87_agrees_H3 :
  t87_same 4 4 1 8 0 h3_image = true /\ t87_same 4 4 1 8 1 h3_image = true /\ t87_same 4 4 1 8 3 h3_image = true /\
  match jls_encode 4 4 1 8 h3_image with
  | Ok s => match t87_decode 1000 s with Ok a => ti_pixels a = h3_image | _ => False end
  | _ => False
  end.
Proof. split; [|split; [|split]]; vm_compute; reflexivity. Qed.

(* ---------- (c) symbol level: the T.87 decoder on the encoder's bits ---------- *)

Lemma t87_take_bits_eq : forall n bits acc, t87_take_bits n bits acc = read_bits_nat n bits acc.
Proof.
  induction n as [|n IH]; intros bits acc; cbn [t87_take_bits read_bits_nat]; [reflexivity|].
  destruct bits as [|b r]; [reflexivity|]. rewrite IH. f_equal. unfold b2z. destruct b; lia.
Qed.

Lemma t87_count_zeros_spec : forall n r c,
  t87_count_zeros (repeat false n ++ true :: r) c = Some (c + Z.of_nat n, r).
Proof.
  induction n as [|n IH]; intros r c; cbn [repeat app t87_count_zeros].
  - f_equal. f_equal. lia.
  - rewrite IH. f_equal. f_equal. lia.
Qed.

Lemma t87_take_bits_of : forall v n r, 0 <= n -> 0 <= v < 2 ^ n ->
  t87_take_bits (Z.to_nat n) (bits_of v n ++ r) 0 = Some (v, r).
Proof.
  intros v n r Hn Hv. rewrite t87_take_bits_eq. unfold bits_of. rewrite read_bits_nat_bits_of.
  rewrite Z2Nat.id by lia. rewrite Z.mod_small by lia. reflexivity.
Qed.

(* t87_golomb_roundtrip: the limited-length Golomb decoder written from T.87 A.5.3 inverts the
   coded EncodeMappedValue (same side conditions as golomb_roundtrip) *)
Theorem t87_golomb_roundtrip : forall k m limit qbpp rest,
  0 <= k <= 32 -> 0 <= qbpp <= 32 -> qbpp + 1 < limit <= 64 -> 0 <= m ->
  (limit - (qbpp + 1) <= Z.shiftr m k -> m - 1 < 2 ^ qbpp) ->
  t87_golomb k limit qbpp (ops_bits (encode_mapped_ops k m limit qbpp) ++ rest) = Some (m, rest).
Proof.
  intros k m limit qbpp rest Hk Hq Hl Hm Hesc.
  unfold encode_mapped_ops, t87_golomb. cbv zeta.
  rewrite Z.shiftr_div_pow2 in * by lia.
  assert (Hpk : 0 < 2 ^ k) by (apply Z.pow_pos_nonneg; lia).
  assert (Hhigh : 0 <= m / 2 ^ k) by (apply Z.div_pos; lia).
  destruct (Z.ltb_spec (m / 2 ^ k) (limit - (qbpp + 1))) as [Hlt|Hge].
  - rewrite !ops_bits_app. rewrite (app_assoc (ops_bits _) (ops_bits (write_unary_ops _))).
    rewrite unary_split_bits by lia.
    rewrite <- !app_assoc. cbn [app].
    rewrite t87_count_zeros_spec. rewrite Z2Nat.id by lia. rewrite Z.add_0_l.
    destruct (Z.ltb_spec (m / 2 ^ k) (limit - qbpp - 1)); [|lia].
    destruct (Z.gtb_spec k 0) as [Hk0|Hk0].
    + cbn [ops_bits]. rewrite app_nil_r.
      rewrite Z.shiftl_1_l. replace (2 ^ k - 1) with (Z.ones k) by (rewrite Z.ones_equiv; lia).
      rewrite Z.land_ones by lia.
      assert (Hmod : 0 <= m mod 2 ^ k < 2 ^ k) by (apply Z.mod_pos_bound; lia).
      assert (H32 : 2 ^ k <= 2 ^ 32) by (apply Z.pow_le_mono_r; lia).
      unfold wrapU. rewrite (Z.mod_small (m mod 2 ^ k)) by lia.
      rewrite t87_take_bits_of by lia. f_equal. f_equal.
      rewrite (Z.div_mod m (2 ^ k)) at 3 by lia. ring.
    + assert (k = 0) by lia. subst k. cbn [ops_bits app Z.to_nat t87_take_bits].
      f_equal. f_equal. change (2 ^ 0) with 1. rewrite Z.div_1_r. lia.
  - specialize (Hesc Hge).
    rewrite ops_bits_app, escape_prefix_bits by lia.
    rewrite <- !app_assoc. cbn [app].
    rewrite t87_count_zeros_spec. rewrite Z2Nat.id by lia. rewrite Z.add_0_l.
    destruct (Z.ltb_spec (limit - qbpp - 1) (limit - qbpp - 1)); [lia|].
    rewrite Z.eqb_refl.
    cbn [ops_bits]. rewrite app_nil_r.
    assert (Hm1 : 1 <= m).
    { destruct (Z.eq_dec m 0) as [->|]; [|lia]. rewrite Z.div_0_l in Hge by lia. lia. }
    rewrite Z.shiftl_1_l. replace (2 ^ qbpp - 1) with (Z.ones qbpp) by (rewrite Z.ones_equiv; lia).
    rewrite Z.land_ones by lia. rewrite (Z.mod_small (m - 1)) by lia.
    assert (H32 : 2 ^ qbpp <= 2 ^ 32) by (apply Z.pow_le_mono_r; lia).
    unfold wrapU. rewrite (Z.mod_small (m - 1)) by lia.
    rewrite t87_take_bits_of by lia. f_equal. f_equal. lia.
Qed.

(* the Golomb parameter: T.87's unbounded loop = the coded loop (capped at 16) when A <= N * 2^16,
   which holds on every stream of the encoders (|Errval| <= RANGE/2 <= 2^15 per sample) *)
Lemma t87_k_eq : forall f1 f2 n a k,
  1 <= n -> a <= n * 65536 -> 0 <= k <= 16 -> (Z.to_nat (16 - k) < f1)%nat -> (Z.to_nat (16 - k) < f2)%nat ->
  cgp_loop f1 n a k = t87_k f2 n a k.
Proof.
  induction f1 as [|f1 IH]; intros f2 n a k Hn Ha Hk H1 H2; [lia|].
  destruct f2 as [|f2]; [lia|]. cbn [cgp_loop t87_k].
  rewrite Z.shiftl_mul_pow2 by lia.
  destruct (Z.ltb_spec (n * 2 ^ k) a) as [Hlt|Hge]; cbn [andb]; [|reflexivity].
  assert (k < 16).
  { destruct (Z.eq_dec k 16) as [->|]; [change (2 ^ 16) with 65536 in Hlt; lia | lia]. }
  destruct (Z.ltb_spec k 16); [|lia]. apply IH; lia.
Qed.

(* the shape of one coded regular-mode sample (nearlossless error computation) *)
Lemma regular_enc_shape : forall P near store c qs ra rb rc x,
  2 <= P <= 16 -> 0 <= near <= near_max P -> 0 <= x <= 2 ^ P - 1 ->
  let p := jls_params P near in
  let sg := sgn_of qs in
  let k := ComputeGolombParameter c in
  let pv := CorrectPrediction p (Predict ra rb rc + sg * cC c) in
  let e := ModuloRange p (quantize p (sg * (x - pv))) in
  let ec := GetErrorCorrection c k near in
  let m := MapErrorValue (Z.lxor ec e) in
  regular_enc PkNear store p c qs ra rb rc x =
    (encode_mapped_ops k m (jp_limit p) (jp_qbpp p), UpdateContext c e near 64,
     if store then ComputeReconstructedSample p pv (sg * e) else x) /\
  0 <= m /\ m - 1 < 2 ^ jp_qbpp p /\ - (jp_range p - 1) <= e <= jp_range p - 1 /\
  2 * Z.abs e <= jp_range p /\ 0 <= pv <= 2 ^ P - 1 /\ 0 <= k <= 16.
Proof.
  intros P near store c qs ra rb rc x HP Hn Hx p sg k pv e ec m.
  pose proof (jls_params_facts P near HP Hn) as F. fold p in F.
  destruct F as [Fmv Fnear Frange Fr2 Frq Fq1 Fq16 Fll Flh Freset Ft1 Ft12 Ft23 Fa].
  pose proof (near_max_half P near HP Hn) as Hhalf. pose proof (pow2_bounds P HP) as Hpb.
  assert (Hn0 : 0 <= jp_near p) by lia. assert (Hn2 : 2 * jp_near p <= jp_maxval p) by lia.
  assert (HR : jp_range p = (jp_maxval p + 2 * jp_near p) / (2 * jp_near p + 1) + 1) by (rewrite Fnear; exact Frange).
  assert (Hk : 0 <= k <= 16) by apply ComputeGolombParameter_bound.
  assert (Hpv : 0 <= pv <= jp_maxval p).
  { unfold pv, CorrectPrediction.
    destruct (Z.ltb_spec (Predict ra rb rc + sg * cC c) 0); [lia|].
    destruct (Z.gtb_spec (Predict ra rb rc + sg * cC c) (jp_maxval p)); lia. }
  assert (Hd : - jp_maxval p <= sg * (x - pv) <= jp_maxval p).
  { destruct (sgn_of_cases qs) as [E|E]; unfold sg; rewrite E; lia. }
  destruct (quantize_spec p P HP Fmv Hn0 Hn2 HR _ Hd) as [_ Hq2].
  assert (Hec : ec = 0 \/ ec = -1) by apply GetErrorCorrection_cases.
  destruct (mapped_range p P HP Fmv Hn0 Hn2 HR _ ec Hq2 Hec) as [Hm0 Hm1].
  destruct (ModuloRange_spec p P HP Fmv Hn0 Hn2 HR _ Hq2) as [_ Her].
  fold e in Hm0, Hm1, Her. fold m in Hm0, Hm1.
  assert (Hh : 2 * (jp_range p / 2) <= jp_range p /\ 2 * ((jp_range p + 1) / 2) <= jp_range p + 1)
    by (Z.div_mod_to_equations; lia).
  split.
  - unfold regular_enc. cbv zeta. unfold pk_error, Traits_ComputeErrorValue.
    rewrite !ApplySign_sgn. fold sg. rewrite (Z.mul_comm sg (cC c)) || idtac.
    replace (cC c * sg) with (sg * cC c) by ring. fold pv. fold k.
    rewrite GetErrorCorrection_lor by lia. rewrite Fnear, Freset. fold e. reflexivity.
  - repeat split; try lia.
Qed.

(* relation between a T.87 context and a context of the library model *)
Definition ctx_rel (t : t87ctx) (c : rctx) : Prop := tA t = cA c /\ tB t = cB c /\ tC t = cC c /\ tN t = cN c.

(* t87_regular_roundtrip: the from-the-standard regular-mode decoding of the bits the encoder
   wrote for a sample reconstructs what the encoder stored and makes the corresponding context
   update. Context bounds: N >= 1, 0 <= A <= N * 2^16 and A, |B| below 2^23 (they hold on every
   encoder stream; they make the coded cap k < 16 and the overflow guard of UpdateContext inert). *)
Theorem t87_regular_roundtrip_all : forall P near c t st ra rb rc rd x rest ops c' stored,
  2 <= P <= 16 -> 0 <= near <= near_max P -> 0 <= x <= 2 ^ P - 1 ->
  let p := jls_params P near in
  let qs := context_qs p ra rb rc rd in
  nth (Z.to_nat (Z.abs qs)) (ts_ctx st) (mkT87Ctx 0 0 0 0) = t -> ctx_rel t c ->
  1 <= cN c -> 0 <= cA c <= cN c * 65536 -> cA c < 8388608 -> Z.abs (cB c) < 8388608 ->
  regular_enc PkNear true p c qs ra rb rc x = (ops, c', stored) ->
  exists t',
    t87_regular p st ra rb rc rd (ops_bits ops ++ rest) =
      Some (stored, mkT87St (t87_set (Z.to_nat (Z.abs qs)) (ts_ctx st) t') (ts_r365 st) (ts_r366 st) (ts_runindex st), rest) /\
    ctx_rel t' c'.
Proof.
  intros P near c t st ra rb rc rd x rest ops c' stored HP Hn Hx p qs Hnth (RA & RB & RC & RN) HN HA HA2 HB Henc.
  destruct (regular_enc_shape P near true c qs ra rb rc x HP Hn Hx) as (Hshape & Hm0 & Hm1 & Her & Heabs & Hpv & Hk).
  fold p in Hshape, Hm0, Hm1, Her, Heabs, Hpv.
  rewrite Hshape in Henc. inversion Henc as [[Hops Hc' Hst]]. clear Henc.
  pose proof (jls_params_facts P near HP Hn) as F. fold p in F.
  destruct F as [Fmv Fnear Frange Fr2 Frq Fq1 Fq16 Fll Flh Freset Ft1 Ft12 Ft23 Fa].
  pose proof (pow2_bounds P HP) as Hpb.
  set (sg := sgn_of qs) in *. set (k := ComputeGolombParameter c) in *.
  set (pv := CorrectPrediction p (Predict ra rb rc + sg * cC c)) in *.
  set (e := ModuloRange p (quantize p (sg * (x - pv)))) in *.
  set (ec := GetErrorCorrection c k near) in *.
  set (m := MapErrorValue (Z.lxor ec e)) in *.
  assert (HR16 : jp_range p <= 65536).
  { assert (2 ^ jp_qbpp p <= 2 ^ 16) by (apply Z.pow_le_mono_r; lia). change (2 ^ 16) with 65536 in *. lia. }
  unfold t87_regular.
  (* context number and sign *)
  pose proof (quantizeGradient_range p (rd - rb)) as Q1. pose proof (quantizeGradient_range p (rb - rc)) as Q2.
  pose proof (quantizeGradient_range p (rc - ra)) as Q3.
  rewrite (t87_context_eq_all (t87_quant p (rd - rb)) (t87_quant p (rb - rc)) (t87_quant p (rc - ra)) Q1 Q2 Q3).
  change ((t87_quant p (rd - rb) * 9 + t87_quant p (rb - rc)) * 9 + t87_quant p (rc - ra)) with qs. fold sg.
  rewrite Hnth.
  (* prediction *)
  rewrite t87_med_eq, t87_clip_eq, RC. fold pv.
  (* Golomb parameter *)
  assert (Hkeq : t87_k 40 (tN t) (tA t) 0 = k).
  { rewrite RN, RA. unfold k, ComputeGolombParameter. symmetry. apply t87_k_eq; simpl; lia. }
  rewrite Hkeq.
  rewrite t87_golomb_roundtrip by lia.
  (* error value *)
  assert (Hec : ec = 0 \/ ec = -1) by apply GetErrorCorrection_cases.
  assert (Herr : (if (jp_near p =? 0) && (k =? 0) && (2 * tB t <=? - tN t)
                  then (if Z.odd m then (m - 1) / 2 else - (m / 2) - 1)
                  else (if Z.odd m then - ((m + 1) / 2) else m / 2)) = e).
  { assert (Hcond : (jp_near p =? 0) && (k =? 0) && (2 * tB t <=? - tN t) = (ec =? -1)).
    { unfold ec, GetErrorCorrection. rewrite Fnear, RB, RN.
      destruct (Z.eqb_spec near 0); destruct (Z.eqb_spec k 0); cbn [negb orb andb]; try reflexivity.
      destruct (Z.leb_spec (2 * cB c) (- cN c)); destruct (Z.ltb_spec (2 * cB c + cN c - 1) 0); try lia; reflexivity. }
    rewrite Hcond. unfold m.
    assert (He31 : - 2 ^ 31 <= e < 2 ^ 31 /\ - 2 ^ 31 <= - e - 1 < 2 ^ 31) by (change (2 ^ 31) with 2147483648; lia).
    destruct Hec as [E|E]; rewrite E.
    - rewrite Z.lxor_0_l. cbn [Z.eqb]. rewrite MapErrorValue_spec by lia.
      destruct (Z.ltb_spec e 0).
      + replace (-2 * e - 1) with (1 + 2 * (- e - 1)) by ring. rewrite Z.odd_add_mul_2. cbn [Z.odd].
        replace (1 + 2 * (- e - 1) + 1) with ((- e) * 2) by ring. rewrite Z.div_mul by lia. lia.
      + replace (2 * e) with (0 + 2 * e) by ring. rewrite Z.odd_add_mul_2. cbn [Z.odd].
        rewrite Z.add_0_l, Z.mul_comm, Z.div_mul by lia. reflexivity.
    - rewrite Z.lxor_m1_l. unfold Z.lnot. replace (Z.pred (- e)) with (- e - 1) by lia. cbn [Z.eqb Pos.eqb].
      rewrite MapErrorValue_spec by lia.
      destruct (Z.ltb_spec (- e - 1) 0).
      + replace (-2 * (- e - 1) - 1) with (1 + 2 * e) by ring. rewrite Z.odd_add_mul_2. cbn [Z.odd].
        replace (1 + 2 * e - 1) with (e * 2) by ring. rewrite Z.div_mul by lia. reflexivity.
      + replace (2 * (- e - 1)) with (0 + 2 * (- e - 1)) by ring. rewrite Z.odd_add_mul_2. cbn [Z.odd].
        rewrite Z.add_0_l, Z.mul_comm, Z.div_mul by lia. lia. }
  rewrite Herr.
  (* update and reconstruction *)
  assert (Hs : 2 * jp_near p + 1 <= 511) by (unfold near_max in Hn; lia).
  assert (HRs : jp_range p * (2 * jp_near p + 1) <= 2 ^ P - 1 + 2 * near + (2 * near + 1)).
  { rewrite Frange, Fmv, Fnear. pose proof (Z.mul_div_le (2 ^ P - 1 + 2 * near) (2 * near + 1) ltac:(lia)). lia. }
  assert (Hes : Z.abs (e * (2 * jp_near p + 1)) <= 66600).
  { rewrite Z.abs_mul, (Z.abs_eq (2 * jp_near p + 1)) by lia. rewrite Fnear in *. nia. }
  pose proof (t87_update_eq p t e ltac:(rewrite RA; lia) ltac:(rewrite RB; lia)) as Hupd.
  cbv zeta in Hupd. rewrite RA, RB, RC, RN in Hupd.
  replace (mkCtx (cA c) (cB c) (cC c) (cN c)) with c in Hupd by (destruct c; reflexivity).
  rewrite Fnear, Freset in Hupd.
  exists (t87_update p t e). split.
  - pose proof (t87_reconstruct_eq P near pv sg e HP Hn (sgn_of_cases qs) Hpv Her) as Hrec.
    cbv zeta in Hrec. unfold p. rewrite Hrec. reflexivity.
  - unfold ctx_rel. try rewrite <- Hc'. rewrite Hupd. cbn. auto.
Qed.

Theorem t87_regular_roundtrip : forall P near c t st ra rb rc rd x rest ops c' stored,
  2 <= P <= 16 -> 0 <= near <= near_max P -> 0 <= x <= 2 ^ P - 1 ->
  let p := jls_params P near in
  let qs := context_qs p ra rb rc rd in
  qs <> 0 ->
  nth (Z.to_nat (Z.abs qs)) (ts_ctx st) (mkT87Ctx 0 0 0 0) = t -> ctx_rel t c ->
  1 <= cN c -> 0 <= cA c <= cN c * 65536 -> cA c < 8388608 -> Z.abs (cB c) < 8388608 ->
  regular_enc PkNear true p c qs ra rb rc x = (ops, c', stored) ->
  exists t',
    t87_regular p st ra rb rc rd (ops_bits ops ++ rest) =
      Some (stored, mkT87St (t87_set (Z.to_nat (Z.abs qs)) (ts_ctx st) t') (ts_r365 st) (ts_r366 st) (ts_runindex st), rest) /\
    ctx_rel t' c'.
Proof. intros P near c t st ra rb rc rd x rest ops c' stored HP Hn Hx p qs _. apply t87_regular_roundtrip_all; assumption. Qed.

(* ---------- run length ---------- *)

Lemma t87_Jof_eq : forall ri, t87_Jof ri = Jof ri.
Proof. reflexivity. Qed.

Lemma t87_runlen_sync : forall fuel rl ri acc rl' ri' acc',
  enc_runlen_loop fuel rl ri acc = Some (rl', ri', acc') ->
  0 <= ri <= 31 -> 0 <= rl ->
  exists ones,
    acc' = repeat (1, 1) ones ++ acc /\ 0 <= rl' < 2 ^ Jof ri' /\ 0 <= ri' <= 31 /\ rl' <= rl /\
    (forall remaining done tail, 0 <= done -> done + (rl - rl') < remaining ->
       t87_run_length (repeat true ones ++ tail) remaining done ri =
       t87_run_length tail remaining (done + rl - rl') ri') /\
    (rl' = 0 -> 0 < rl -> forall remaining done tail, 0 <= done -> done + rl = remaining ->
       t87_run_length (repeat true ones ++ tail) remaining done ri = Some (remaining, true, ri', tail)).
Proof.
  induction fuel as [|f IH]; intros rl ri acc rl' ri' acc' H Hri Hrl; cbn [enc_runlen_loop] in H; [discriminate|].
  pose proof (pow_J_pos ri Hri) as Hfull. rewrite Z.shiftl_1_l in *.
  destruct (Z.geb_spec rl (2 ^ Jof ri)) as [Hge|Hlt].
  - pose proof (inc_run_index_range ri Hri) as Hri1.
    destruct (IH _ _ _ _ _ _ H Hri1 ltac:(lia)) as (ones & Hacc & Hrl' & Hri' & Hle & Hcont & Hend).
    exists (S ones). split; [rewrite Hacc; cbn [repeat app]; apply repeat_snoc|].
    split; [exact Hrl'|]. split; [exact Hri'|]. split; [lia|]. split.
    + intros remaining done tail Hd Hl. cbn [repeat app t87_run_length]. rewrite t87_Jof_eq.
      destruct (Z.ltb_spec (done + 2 ^ Jof ri) remaining); [|lia].
      change (if ri <? 31 then ri + 1 else ri) with (inc_run_index ri).
      rewrite Hcont by lia. f_equal. lia.
    + intros Hz Hpos remaining done tail Hd Heq. cbn [repeat app t87_run_length]. rewrite t87_Jof_eq.
      change (if ri <? 31 then ri + 1 else ri) with (inc_run_index ri).
      destruct (Z.ltb_spec (done + 2 ^ Jof ri) remaining) as [Hless|Hnl].
      * apply Hend; lia.
      * destruct (Z.eqb_spec (done + 2 ^ Jof ri) remaining); [|lia].
        assert (Hrl0 : rl - 2 ^ Jof ri = 0) by lia.
        destruct f as [|f']; cbn [enc_runlen_loop] in H; [discriminate|].
        pose proof (pow_J_pos _ Hri1) as Hp1.
        destruct (Z.geb_spec (rl - 2 ^ Jof ri) (Z.shiftl 1 (Jof (inc_run_index ri)))) as [Hx|Hx].
        { lia. }
        injection H as E1 E2 E3.
        assert (ones = O).
        { rewrite <- E3 in Hacc. apply (f_equal (@length wop)) in Hacc.
          rewrite app_length, repeat_length in Hacc. cbn [length] in Hacc. unfold wop in Hacc. clear - Hacc. lia. }
        subst ri'.
        subst ones. reflexivity.
  - inversion H; subst. exists O. split; [reflexivity|]. split; [lia|].
    split; [exact Hri|]. split; [lia|]. split.
    + intros remaining done tail Hd Hl. cbn [repeat app]. f_equal. lia.
    + intros Hz Hpos. lia.
Qed.

(* t87_run_length_roundtrip: the A.7.1 run-length decoding of the bits EncodeRunLength wrote *)
Theorem t87_run_length_roundtrip : forall fuel n remaining ri rest ops ri',
  0 <= ri <= 31 -> 0 <= n <= remaining -> 1 <= remaining ->
  EncodeRunLength fuel n (n =? remaining) ri = Some (ops, ri') ->
  t87_run_length (ops_bits ops ++ rest) remaining 0 ri = Some (n, (n =? remaining), ri', rest).
Proof.
  intros fuel n remaining ri rest ops ri' Hri Hn Hrem Henc.
  unfold EncodeRunLength in Henc.
  destruct (enc_runlen_loop fuel n ri []) as [[[rl' r1] acc']|] eqn:Hloop; [|discriminate].
  destruct (t87_runlen_sync _ _ _ _ _ _ _ Hloop Hri ltac:(lia)) as (ones & Hacc & Hrl' & Hri' & Hle & Hcont & Hend).
  rewrite app_nil_r in Hacc. subst acc'.
  pose proof (Jof_range r1 Hri') as HJ.
  destruct (Z.eqb_spec n remaining) as [Heol|Hneol].
  - inversion Henc; subst ops ri'. clear Henc. rewrite frev_rev.
    destruct (Z.eqb_spec rl' 0) as [Hz|Hnz]; cbn [negb].
    + rewrite rev_repeat, ops_bits_ones. rewrite (Hend Hz ltac:(lia) remaining 0 rest ltac:(lia) ltac:(lia)).
      subst n. reflexivity.
    + cbn [rev]. rewrite rev_repeat, ops_bits_app, ops_bits_ones. cbn [ops_bits]. rewrite app_nil_r.
      change (bits_of 1 1) with [true]. rewrite <- app_assoc. rewrite Hcont by lia.
      cbn [app t87_run_length]. rewrite t87_Jof_eq.
      destruct (Z.ltb_spec (0 + n - rl' + 2 ^ Jof r1) remaining); [lia|].
      destruct (Z.eqb_spec (0 + n - rl' + 2 ^ Jof r1) remaining); [lia|]. subst n. reflexivity.
  - inversion Henc; subst ops ri'. clear Henc. rewrite frev_rev. cbn [rev].
    rewrite rev_repeat, ops_bits_app, ops_bits_ones. cbn [ops_bits]. rewrite app_nil_r.
    rewrite <- app_assoc. rewrite Hcont by lia.
    assert (H32 : 2 ^ Jof r1 <= 2 ^ 32) by (apply Z.pow_le_mono_r; lia).
    unfold wrapU. rewrite (Z.mod_small rl') by lia.
    unfold bits_of. replace (Z.to_nat (Jof r1 + 1)) with (S (Z.to_nat (Jof r1))) by lia.
    cbn [bits_of_nat app]. rewrite Z2Nat.id by lia.
    assert (Htb : Z.testbit rl' (Jof r1) = false).
    { destruct (Z.eq_dec rl' 0) as [->|]; [apply Z.testbit_0_l|].
      apply Z.bits_above_log2; [lia|]. apply Z.log2_lt_pow2; lia. }
    rewrite Htb. cbn [t87_run_length]. rewrite t87_Jof_eq.
    fold (bits_of rl' (Jof r1)). rewrite t87_take_bits_of by lia.
    destruct (Z.geb_spec (0 + n - rl' + rl') remaining); [lia|].
    f_equal. f_equal. f_equal. f_equal. lia.
Qed.

(* ---------- run interruption ---------- *)

Lemma ggc_t87_k : forall f1 f2 n nT temp k,
  nT = n * 2 ^ k -> 1 <= n -> temp <= n * 2 ^ 32 -> 0 <= k <= 32 ->
  (Z.to_nat (32 - k) < f1)%nat -> (Z.to_nat (32 - k) < f2)%nat ->
  ggc_loop f1 nT temp k = t87_k f2 n temp k.
Proof.
  induction f1 as [|f1 IH]; intros f2 n nT temp k HnT Hn Ht Hk H1 H2; [lia|].
  destruct f2 as [|f2]; [lia|]. cbn [ggc_loop t87_k]. rewrite <- HnT.
  destruct (Z.ltb_spec nT temp) as [Hlt|Hge]; [|reflexivity].
  assert (k < 32).
  { destruct (Z.eq_dec k 32) as [->|]; [lia | lia]. }
  destruct (Z.gtb_spec (k + 1) 32); [lia|].
  apply IH; try lia.
  rewrite Z.shiftl_mul_pow2 by lia. rewrite HnT, Z.pow_add_r by lia. ring.
Qed.

Definition run_rel (u : t87run) (c : runctx) : Prop := uA u = rc_A c /\ uN u = rc_N c /\ uNn u = rc_NN c.

(* t87_interruption_roundtrip: A.7.2 decoding of the bits EncodeRunInterruption wrote: the error
   value, the reconstruction and the update of A, N, Nn agree with the coded ones *)
Theorem t87_interruption_roundtrip : forall P near st c e ra rb rest,
  2 <= P <= 16 -> 0 <= near <= near_max P ->
  let p := jls_params P near in
  let ritype := rc_type c in
  let u := if ritype =? 0 then ts_r365 st else ts_r366 st in
  let px := if ritype =? 1 then ra else rb in
  let sign := if (ritype =? 0) && (ra >? rb) then -1 else 1 in
  ritype = 0 \/ ritype = 1 -> run_rel u c -> runctx_ok c -> 0 <= ts_runindex st <= 31 ->
  (ritype = 1 -> e <> 0) -> 2 * Z.abs e <= jp_range p -> 0 <= px <= 2 ^ P - 1 ->
  exists u',
    t87_interruption p st ritype ra rb
      (ops_bits (fst (EncodeRunInterruption p (ts_runindex st) c e)) ++ rest) =
    Some (ComputeReconstructedSample p px (sign * e),
          (if ritype =? 0 then mkT87St (ts_ctx st) u' (ts_r366 st) (ts_runindex st)
           else mkT87St (ts_ctx st) (ts_r365 st) u' (ts_runindex st)), rest) /\
    run_rel u' (snd (EncodeRunInterruption p (ts_runindex st) c e)).
Proof.
  intros P near st c e ra rb rest HP Hn p ritype u px sign Hty (RA & RN & RNn) Hok Hri He1 Heabs Hpx.
  pose proof (jls_params_facts P near HP Hn) as F. fold p in F.
  destruct F as [Fmv Fnear Frange Fr2 Frq Fq1 Fq16 Fll Flh Freset Ft1 Ft12 Ft23 Fa].
  pose proof (pow2_bounds P HP) as Hpb.
  pose proof Hok as [[HN1 HN2] [HA1 HA2]].
  pose proof (Jof_range _ Hri) as HJ.
  assert (HR16 : jp_range p <= 65536).
  { assert (2 ^ jp_qbpp p <= 2 ^ 16) by (apply Z.pow_le_mono_r; lia). change (2 ^ 16) with 65536 in *. lia. }
  unfold EncodeRunInterruption. cbv zeta. cbn [fst snd]. rewrite Freset.
  set (k := GetGolombCode c).
  pose proof (GetGolombCode_nonneg c) as Hk0. fold k in Hk0.
  pose proof (GetGolombCode_le32 c Hty Hok) as Hk32. fold k in Hk32.
  set (mp := ComputeMap c e k).
  set (em := if mp then 2 * Z.abs e - rc_type c - 1 else 2 * Z.abs e - rc_type c).
  assert (Hmp : mp = true -> e <> 0).
  { unfold mp, ComputeMap. intros H E. rewrite E in H. cbn in H. rewrite !andb_false_r in H. cbn in H. discriminate. }
  fold ritype in em.
  assert (Hem0 : 0 <= em).
  { unfold em. destruct mp eqn:Em.
    - specialize (Hmp eq_refl). destruct Hty as [T|T]; rewrite T; lia.
    - destruct Hty as [T|T]; rewrite T; [lia|]. specialize (He1 T). lia. }
  assert (Hem1 : em - 1 < 2 ^ jp_qbpp p).
  { unfold em. destruct mp; destruct Hty as [T|T]; rewrite T; lia. }
  unfold t87_interruption. fold u.
  (* Golomb parameter *)
  assert (Hkeq : t87_k 40 (uN u) (if ritype =? 0 then uA u else uA u + uN u / 2) 0 = k).
  { unfold k, GetGolombCode. rewrite RA, RN. fold ritype. symmetry.
    assert (Hhalf : Z.shiftr (rc_N c) 1 = rc_N c / 2) by (rewrite Z.shiftr_div_pow2 by lia; reflexivity).
    assert (0 <= rc_N c / 2 <= rc_N c) by (Z.div_mod_to_equations; lia).
    change (2 ^ 32) with 4294967296 in *.
    destruct Hty as [T|T]; rewrite T; cbn [Z.eqb]; rewrite Hhalf.
    - rewrite Z.mul_0_r, Z.add_0_r. apply ggc_t87_k; simpl; try lia; try (change (2 ^ 32) with 4294967296; lia).
    - rewrite Z.mul_1_r. apply ggc_t87_k; simpl; try lia; try (change (2 ^ 32) with 4294967296; lia). }
  rewrite Hkeq. rewrite t87_Jof_eq.
  rewrite t87_golomb_roundtrip by lia.
  (* recovering the error value *)
  assert (Ht : em + ritype = 2 * Z.abs e - (if mp then 1 else 0)) by (unfold em; destruct mp; lia).
  assert (Hodd : Z.odd (em + ritype) = mp).
  { rewrite Ht. destruct mp.
    - replace (2 * Z.abs e - 1) with (1 + 2 * (Z.abs e - 1)) by ring. rewrite Z.odd_add_mul_2. reflexivity.
    - replace (2 * Z.abs e - 0) with (0 + 2 * Z.abs e) by ring. rewrite Z.odd_add_mul_2. reflexivity. }
  rewrite Hodd.
  assert (Hmag : (em + ritype + (if mp then 1 else 0)) / 2 = Z.abs e).
  { rewrite Ht. replace (2 * Z.abs e - (if mp then 1 else 0) + (if mp then 1 else 0)) with (Z.abs e * 2) by (destruct mp; lia).
    apply Z.div_mul. lia. }
  rewrite Hmag.
  assert (Herr : (if (if negb (k =? 0) || (2 * uNn u >=? uN u) then mp else negb mp) then - Z.abs e else Z.abs e) = e).
  { rewrite RNn, RN. unfold mp, ComputeMap.
    destruct (Z.eqb_spec k 0) as [Ek|Nk]; cbn [negb andb orb];
      destruct (Z.gtb_spec e 0); destruct (Z.ltb_spec e 0); try lia;
      destruct (Z.ltb_spec (2 * rc_NN c) (rc_N c)); destruct (Z.geb_spec (2 * rc_NN c) (rc_N c)); try lia;
      cbn [negb andb orb]; lia. }
  rewrite Herr.
  (* reconstruction *)
  assert (Hsign : sign = 1 \/ sign = -1) by (unfold sign; destruct ((ritype =? 0) && (ra >? rb)); auto).
  assert (Her : - (jp_range p - 1) <= e <= jp_range p - 1) by lia.
  pose proof (t87_reconstruct_eq P near px sign e HP Hn Hsign Hpx Her) as Hrec. cbv zeta in Hrec. fold p in Hrec.
  fold px sign. unfold p in *. rewrite Hrec.
  (* update *)
  set (u' := if uN u =? 64
             then mkT87Run ((uA u + (em + 1 - ritype) / 2) / 2) (uN u / 2 + 1) ((if e <? 0 then uNn u + 1 else uNn u) / 2)
             else mkT87Run (uA u + (em + 1 - ritype) / 2) (uN u + 1) (if e <? 0 then uNn u + 1 else uNn u)).
  exists u'. split.
  - rewrite Freset. reflexivity.
  - unfold run_rel, u', UpdateVariables. fold ritype. rewrite RA, RN, RNn.
    assert (Hinc : 0 <= em + 1 - ritype) by (destruct Hty as [T|T]; rewrite T; lia).
    rewrite !Z.shiftr_div_pow2 by lia. change (2 ^ 1) with 2.
    destruct (Z.eqb_spec (rc_N c) 64); cbn [uA uN uNn rc_A rc_N rc_NN]; repeat split; try lia;
      destruct (e <? 0); reflexivity.
Qed.
