(* C14: the independent from-the-standard decoder (JlsT87Dec) against the Go-shaped models.
   Full statement (t87_agrees_statement): on every encoder stream t87_decode returns what the
   library decoder model returns. Proved here: (a) the building blocks of the two decoders
   compute the same functions (gradient quantisation, MED, context numbering with sign, the
   context update, the reconstruction), (b) the full statement on finite domains by computation:
   all one-component images up to 2x2 and all three-component 1x1 images at P = 2 for NEAR 0 and 1,
   and the T.87 H.3 image. What is missing for the full statement is the lockstep between the
   two line formulations (extended-line windows of JlsT87Dec vs prevFirstPrev/prevNeg1 of the Go
   code) — the per-sample blocks are shown equal below; the harness runs the extracted
   t87_decode against Go on every generated stream (C14 oracle). *)
From V Require Import Common.Base JpegLS.JlsParams JpegLS.JlsGolomb JpegLS.JlsRun JpegLS.JlsModel JpegLS.JlsT87Dec.
From V Require Import JpegLS.JlsProofsParams JpegLS.JlsProofsGolomb JpegLS.JlsProofsSample JpegLS.JlsProofsNear0.

Definition t87_result_eq (a : outcome t87_image) (b : outcome decoded) : Prop :=
  match a, b with
  | Ok x, Ok y => ti_pixels x = dc_pixels y /\ ti_w x = dc_w y /\ ti_h x = dc_h y /\
                  ti_comps x = dc_comps y /\ ti_P x = dc_bd y /\ ti_near x = dc_near y
  | Err, Err => True
  | _, _ => False
  end.

Definition t87_agrees_statement : Prop :=
  forall w h comps P near pixelData stream lim,
    1 <= w <= 65535 -> 1 <= h <= 65535 -> comps = 1 \/ comps = 3 -> 2 <= P <= 16 ->
    0 <= near <= near_max P -> w * h * comps <= lim ->
    Forall (in_range P) (pixelsToIntegers P pixelData) ->
    jlsn_encode w h comps P near pixelData = Ok stream ->
    t87_result_eq (t87_decode lim stream) (jlsn_decode lim stream).

(* ---------- (a) the building blocks coincide ---------- *)

Lemma t87_quant_eq : forall p d, t87_quant p d = quantizeGradient p d.
Proof. reflexivity. Qed.

Lemma t87_med_eq : forall a b c, t87_med a b c = Predict a b c.
Proof. reflexivity. Qed.

(* context number and sign: 81 Q1 + 9 Q2 + Q3 after sign normalisation = |qs|, SIGN = sign of qs *)
Lemma t87_context_eq : forall q1 q2 q3,
  -4 <= q1 <= 4 -> -4 <= q2 <= 4 -> -4 <= q3 <= 4 ->
  let qs := (q1 * 9 + q2) * 9 + q3 in
  qs <> 0 ->
  t87_context q1 q2 q3 = (sgn_of qs, Z.abs qs).
Proof.
  intros q1 q2 q3 H1 H2 H3 qs Hq. subst qs. unfold t87_context, sgn_of.
  destruct (Z.eqb_spec q1 0) as [E1|N1]; cbn [negb].
  - subst q1. destruct (Z.eqb_spec q2 0) as [E2|N2]; cbn [negb].
    + subst q2. destruct (Z.ltb_spec q3 0); destruct (Z.ltb_spec ((0 * 9 + 0) * 9 + q3) 0); try lia; f_equal; lia.
    + destruct (Z.ltb_spec q2 0); destruct (Z.ltb_spec ((0 * 9 + q2) * 9 + q3) 0); try lia; f_equal; lia.
  - destruct (Z.ltb_spec q1 0); destruct (Z.ltb_spec ((q1 * 9 + q2) * 9 + q3) 0); try lia; f_equal; lia.
Qed.

Lemma t87_clip_eq : forall p v, t87_clip p v = CorrectPrediction p v.
Proof. reflexivity. Qed.

(* A.6 update = UpdateContext below the overflow guard of the Go code (A, |B| < 2^24) *)
Lemma t87_update_eq : forall p c e,
  let c' := mkCtx (tA c) (tB c) (tC c) (tN c) in
  0 <= tA c + Z.abs e < 16777216 -> Z.abs (tB c + e * (2 * jp_near p + 1)) < 16777216 ->
  let u := t87_update p c e in
  UpdateContext c' e (jp_near p) (jp_reset p) = mkCtx (tA u) (tB u) (tC u) (tN u).
Proof.
  intros p c e c' HA HB u. subst c' u. unfold UpdateContext, t87_update. cbn [cA cB cC cN].
  destruct (Z.geb_spec (tA c + Z.abs e) 16777216); [lia|].
  destruct (Z.geb_spec (Z.abs (tB c + e * (2 * jp_near p + 1))) 16777216); [lia|]. cbn [orb andb].
  rewrite !Z.shiftr_div_pow2 by lia. change (2 ^ 1) with 2.
  set (b := tB c + e * (2 * jp_near p + 1)).
  assert (Hhalf : (if b >=? 0 then b / 2 else - ((1 - b) / 2)) = b / 2).
  { destruct (Z.geb_spec b 0); [reflexivity|]. Z.div_mod_to_equations. lia. }
  destruct (Z.eqb_spec (tN c) (jp_reset p)).
  - rewrite Hhalf.
    destruct (Z.leb_spec (b / 2 + (tN c / 2 + 1)) 0); destruct (Z.leb_spec (b / 2) (- (tN c / 2 + 1))); try lia.
    + reflexivity.
    + destruct (Z.gtb_spec (b / 2) 0); reflexivity.
  - destruct (Z.leb_spec (b + (tN c + 1)) 0); destruct (Z.leb_spec b (- (tN c + 1))); try lia.
    + reflexivity.
    + destruct (Z.gtb_spec b 0); reflexivity.
Qed.

(* F.1 reconstruction = ComputeReconstructedSample (for MAXVAL = 2^P - 1) *)
Lemma t87_reconstruct_eq : forall P near px sign e,
  2 <= P <= 16 -> 0 <= near <= near_max P ->
  let p := jls_params P near in
  sign = 1 \/ sign = -1 -> 0 <= px <= 2 ^ P - 1 ->
  - (jp_range p - 1) <= e <= jp_range p - 1 ->
  t87_reconstruct p px sign e = ComputeReconstructedSample p px (sign * e).
Proof.
  intros P near px sign e HP Hn p Hs Hpx He.
  destruct (jls_params_facts P near HP Hn) as [Fmv Fnear Frange Fr2 Frq Fq1 Fq16 Fll Flh Freset Ft1 Ft12 Ft23 Fa].
  fold p in Fmv, Fnear, Frange, Fr2.
  pose proof (near_max_half P near HP Hn) as Hhalf. pose proof (pow2_bounds P HP) as Hpb.
  assert (Hn0 : 0 <= jp_near p) by lia. assert (Hn2 : 2 * jp_near p <= jp_maxval p) by lia.
  assert (HR : jp_range p = (jp_maxval p + 2 * jp_near p) / (2 * jp_near p + 1) + 1) by (rewrite Fnear; exact Frange).
  unfold t87_reconstruct, ComputeReconstructedSample, fixReconstructedValue.
  rewrite (pow2_test p P HP Fmv Hn0 Hn2 HR).
  replace (px + sign * e * (2 * jp_near p + 1)) with (px + sign * e * (2 * jp_near p + 1)) by ring.
  destruct (Z.eqb_spec (jp_near p) 0) as [E0|NE0]; cbn [andb].
  - (* NEAR = 0: the standard's one-step reduction and clamp equals reduction modulo 2^P *)
    rewrite (land_mv p P HP Fmv Hn0 Hn2 HR). rewrite E0 in *.
    assert (HR0 : jp_range p = 2 ^ P) by (rewrite HR, Fmv; change (2 * 0 + 1) with 1; rewrite Z.div_1_r; lia).
    change (2 * 0 + 1) with 1. rewrite !Z.mul_1_r. unfold t87_clip. rewrite Fmv, HR0 in *.
    assert (Hv : - 2 ^ P < px + sign * e < 2 * 2 ^ P) by (destruct Hs; subst sign; lia).
    destruct (Z.ltb_spec (px + sign * e) (- 0)).
    + replace (px + sign * e) with ((px + sign * e + 2 ^ P) + (-1) * 2 ^ P) at 4 by ring.
      rewrite Z.mod_add by lia. rewrite Z.mod_small by lia.
      destruct (Z.ltb_spec (px + sign * e + 2 ^ P) 0); [lia|].
      destruct (Z.gtb_spec (px + sign * e + 2 ^ P) (2 ^ P - 1)); lia.
    + destruct (Z.gtb_spec (px + sign * e) (2 ^ P - 1 + 0)).
      * replace (px + sign * e) with ((px + sign * e - 2 ^ P) + 1 * 2 ^ P) at 4 by ring.
        rewrite Z.mod_add by lia. rewrite Z.mod_small by lia.
        destruct (Z.ltb_spec (px + sign * e - 2 ^ P) 0); [lia|].
        destruct (Z.gtb_spec (px + sign * e - 2 ^ P) (2 ^ P - 1)); lia.
      * rewrite Z.mod_small by lia.
        destruct (Z.ltb_spec (px + sign * e) 0); [lia|].
        destruct (Z.gtb_spec (px + sign * e) (2 ^ P - 1)); lia.
  - rewrite (correctPrediction_lc_clamp p P HP Fmv Hn0 Hn2 HR). unfold t87_clip. reflexivity.
Qed.

(* ---------- (b) the full statement on finite domains ---------- *)

Definition t87_same (w h comps P near : Z) (px : list Z) : bool :=
  match jlsn_encode w h comps P near px with
  | Ok s =>
    match t87_decode 1000 s, jlsn_decode 1000 s with
    | Ok a, Ok b =>
      (if list_eq_dec Z.eq_dec (ti_pixels a) (dc_pixels b) then true else false) &&
      (ti_w a =? dc_w b) && (ti_h a =? dc_h b) && (ti_comps a =? dc_comps b) && (ti_P a =? dc_bd b) &&
      (ti_near a =? dc_near b)
    | _, _ => false
    end
  | _ => false
  end.

(* all lists of length n over 0..3 *)
Fixpoint all_lists (n : nat) : list (list Z) :=
  match n with
  | O => [[]]
  | S k => flat_map (fun t => map (fun v => v :: t) [0; 1; 2; 3]) (all_lists k)
  end.

Theorem t87_agrees_small_images :
  forallb (fun near =>
    forallb (t87_same 1 1 1 2 near) (all_lists 1) &&
    forallb (t87_same 2 1 1 2 near) (all_lists 2) &&
    forallb (t87_same 1 2 1 2 near) (all_lists 2) &&
    forallb (t87_same 2 2 1 2 near) (all_lists 4) &&
    forallb (t87_same 3 1 1 2 near) (all_lists 3) &&
    forallb (t87_same 1 1 3 2 near) (all_lists 3)) [0; 1] = true.
Proof. vm_compute. reflexivity. Qed.

Theorem t87_agrees_H3 :
  t87_same 4 4 1 8 0 h3_image = true /\ t87_same 4 4 1 8 1 h3_image = true /\ t87_same 4 4 1 8 3 h3_image = true /\
  match jls_encode 4 4 1 8 h3_image with
  | Ok s => match t87_decode 1000 s with Ok a => ti_pixels a = h3_image | _ => False end
  | _ => False
  end.
Proof. split; [|split; [|split]]; vm_compute; reflexivity. Qed.
