(* EXTRACT *)
(* Panic-explicit twins for C08 (no decoder panics), jpegls/lossless and jpegls/nearlossless:
   - the GolombReader as coded (64-bit cache, validBits, position, positionFF; optimistic and
     slow refill) with every slice index and every signed shift count an explicit check
     (Panic), so that reader panic-freedom is a theorem about this state machine;
   - the decoders of JlsModel with every index of the Go code an explicit check: J[RunIndex],
     contexts[i], the flat pixel-array index arithmetic of getNeighbors / sampleNeighbors /
     doRunMode / decodeSampleRunMode (checked against len(pixels) = w*h*comps as in Go, and
     fetched from the line windows), segment payload bytes, divisions in the parameter code.
   JlsProofsSafe.v proves that none of the checks can fire and that the twins compute the
   functions of JlsModel. *)
From V Require Import Common.Base JpegLS.JlsParams JpegLS.JlsGolomb JpegLS.JlsRun JpegLS.JlsModel.

(* ---------- GolombReader as coded ---------- *)

Record grst : Type := mkGr { gr_cache : Z; gr_valid : Z; gr_pos : Z; gr_ff : Z }.

(* data[i] *)
Definition idx_byte (data : list Z) (i : Z) : outcome Z :=
  if (i <? 0) || (i >=? zlen data) then Panic else Ok (nth (Z.to_nat i) data 0).

(* findJPEGMarkerStartByte: for i := position; i < endPosition; i++ { if data[i] == 0xFF ... } *)
Fixpoint gr_find_loop (fuel : nat) (data : list Z) (i : Z) : outcome Z :=
  match fuel with
  | O => OutOfFuel
  | S f =>
    if i <? zlen data then
      match idx_byte data i with
      | Ok b => if b =? 255 then Ok i else gr_find_loop f data (i + 1)
      | Err => Err | Panic => Panic | OutOfFuel => OutOfFuel
      end
    else Ok (zlen data)
  end.
Definition gr_find (data : list Z) (pos : Z) : outcome Z := gr_find_loop (S (length data)) data pos.

(* x << s with a signed shift count: Go panics for s < 0; uint64 result *)
Definition shl64 (x s : Z) : outcome Z := if s <? 0 then Panic else Ok (wrapU 64 (Z.shiftl x s)).

(* NewGolombReader *)
Definition gr_new (data : list Z) : outcome grst :=
  match gr_find data 0 with
  | Ok ff => Ok (mkGr 0 0 0 ff)
  | Err => Err | Panic => Panic | OutOfFuel => OutOfFuel
  end.

(* the copy loop of fillReadCacheOptimistic *)
Fixpoint gr_opt_loop (n : nat) (data : list Z) (g : grst) : outcome grst :=
  match n with
  | O => Ok g
  | S n' =>
    match idx_byte data (gr_pos g) with
    | Ok b =>
      match shl64 b (64 - 8 - gr_valid g) with
      | Ok v => gr_opt_loop n' data (mkGr (Z.lor (gr_cache g) v) (gr_valid g + 8) (gr_pos g + 1) (gr_ff g))
      | Err => Err | Panic => Panic | OutOfFuel => OutOfFuel
      end
    | Err => Err | Panic => Panic | OutOfFuel => OutOfFuel
    end
  end.

(* fillReadCacheOptimistic: (filled enough, state) *)
Definition gr_fill_opt (data : list Z) (g : grst) : outcome (bool * grst) :=
  if gr_pos g <? gr_ff g - 7 then
    let b0 := Z.quot (64 - gr_valid g) 8 in
    let b1 := if b0 >? gr_ff g - gr_pos g then gr_ff g - gr_pos g else b0 in
    let b2 := if b1 >? 8 then 8 else b1 in
    match gr_opt_loop (Z.to_nat b2) data g with
    | Ok g' => Ok (gr_valid g' >=? 56, g')
    | Err => Err | Panic => Panic | OutOfFuel => OutOfFuel
    end
  else Ok (false, g).

(* the slow loop of fillReadCache: Err = "unexpected end of data" / "marker with no bits";
   the boolean says whether the loop ran to completion (then positionFF is recomputed) *)
Fixpoint gr_slow_loop (fuel : nat) (data : list Z) (g : grst) : outcome (bool * grst) :=
  match fuel with
  | O => OutOfFuel
  | S f =>
    if gr_valid g <? 56 then
      if gr_pos g >=? zlen data then (if gr_valid g =? 0 then Err else Ok (false, g))
      else
        match idx_byte data (gr_pos g) with
        | Ok b =>
          let marker :=
            if b =? 255 then
              if gr_pos g =? zlen data - 1 then Ok true
              else match idx_byte data (gr_pos g + 1) with
                   | Ok b2 => Ok (negb (Z.land b2 128 =? 0))
                   | Err => Err | Panic => Panic | OutOfFuel => OutOfFuel
                   end
            else Ok false in
          match marker with
          | Ok true => if gr_valid g <=? 0 then Err else Ok (false, g)
          | Ok false =>
            match shl64 b (56 - gr_valid g) with
            | Ok v =>
              let valid' := gr_valid g + 8 - (if b =? 255 then 1 else 0) in
              gr_slow_loop f data (mkGr (Z.lor (gr_cache g) v) valid' (gr_pos g + 1) (gr_ff g))
            | Err => Err | Panic => Panic | OutOfFuel => OutOfFuel
            end
          | Err => Err | Panic => Panic | OutOfFuel => OutOfFuel
          end
        | Err => Err | Panic => Panic | OutOfFuel => OutOfFuel
        end
    else Ok (true, g)
  end.

(* fillReadCache *)
Definition gr_fill (data : list Z) (g : grst) : outcome grst :=
  match gr_fill_opt data g with
  | Ok (true, g') => Ok g'
  | Ok (false, g') =>
    match gr_slow_loop 9 data g' with
    | Ok (true, g'') =>
      match gr_find data (gr_pos g'') with
      | Ok ff => Ok (mkGr (gr_cache g'') (gr_valid g'') (gr_pos g'') ff)
      | Err => Err | Panic => Panic | OutOfFuel => OutOfFuel
      end
    | Ok (false, g'') => Ok g''
    | Err => Err | Panic => Panic | OutOfFuel => OutOfFuel
    end
  | Err => Err | Panic => Panic | OutOfFuel => OutOfFuel
  end.

(* ReadBit *)
Definition gr_read_bit (data : list Z) (g : grst) : outcome (Z * grst) :=
  match (if gr_valid g =? 0 then gr_fill data g else Ok g) with
  | Ok g1 =>
    Ok (Z.land (Z.shiftr (gr_cache g1) 63) 1,
        mkGr (wrapU 64 (Z.shiftl (gr_cache g1) 1)) (gr_valid g1 - 1) (gr_pos g1) (gr_ff g1))
  | Err => Err | Panic => Panic | OutOfFuel => OutOfFuel
  end.

(* ReadBits(n) *)
Definition gr_read_bits (data : list Z) (n : Z) (g : grst) : outcome (Z * grst) :=
  if n =? 0 then Ok (0, g)
  else if n >? 32 then Err
  else
    match (if gr_valid g <? n then gr_fill data g else Ok g) with
    | Ok g1 =>
      if gr_valid g1 <? n then Err
      else
        match shl64 1 (64 - n) with       (* the shift count of readCache >> uint(64 - n) *)
        | Ok _ =>
          Ok (wrapU 32 (Z.shiftr (gr_cache g1) (64 - n)),
              mkGr (wrapU 64 (Z.shiftl (gr_cache g1) n)) (gr_valid g1 - n) (gr_pos g1) (gr_ff g1))
        | Err => Err | Panic => Panic | OutOfFuel => OutOfFuel
        end
    | Err => Err | Panic => Panic | OutOfFuel => OutOfFuel
    end.

(* a reader script for the component-level correspondence: n = 0 -> ReadBit, n > 0 -> ReadBits(n);
   the values read, in order; stops at the first error *)
Fixpoint gr_run (data : list Z) (script : list Z) (g : grst) (acc : list Z) : outcome (list Z * bool) :=
  match script with
  | [] => Ok (frev acc, true)
  | n :: r =>
    match (if n =? 0 then gr_read_bit data g else gr_read_bits data n g) with
    | Ok (v, g') => gr_run data r g' (v :: acc)
    | Err => Ok (frev acc, false)
    | Panic => Panic | OutOfFuel => OutOfFuel
    end
  end.
Definition gr_script (data script : list Z) : outcome (list Z * bool) :=
  match gr_new data with
  | Ok g => gr_run data script g []
  | Err => Err | Panic => Panic | OutOfFuel => OutOfFuel
  end.

(* the same script on the bit-list semantics used by the decoder models *)
Fixpoint bl_run (script : list Z) (bits : list bool) (acc : list Z) : list Z * bool :=
  match script with
  | [] => (frev acc, true)
  | n :: r =>
    if n =? 0 then
      match bits with
      | [] => (frev acc, false)
      | b :: t => bl_run r t (b2z b :: acc)
      end
    else
      match read_bits n bits with
      | None => (frev acc, false)
      | Some (v, t) => bl_run r t (v :: acc)
      end
  end.
Definition bl_script (data script : list Z) : list Z * bool := bl_run script (jls_bits_of_bytes data) [].

(* ---------- decoders with explicit index checks ---------- *)

Definition chk_idx (len idx : Z) : bool := (0 <=? idx) && (idx <? len).

(* pixels[idx]: the flat index must be inside the array (as in Go); the value comes from the
   line windows of the model (a missing element is a panic of the model as well) *)
Definition fetch (len idx : Z) (o : option Z) : outcome Z :=
  if chk_idx len idx then match o with Some v => Ok v | None => Panic end else Panic.

Definition wopt0 {A} (pw : list A) : option A := match pw with a :: _ => Some a | _ => None end.
Definition wopt1 {A} (pw : list A) : option A := match pw with _ :: a :: _ => Some a | _ => None end.
Definition wopt2 {A} (pw : list A) : option A := match pw with _ :: _ :: a :: _ => Some a | _ => None end.

Definition obind2 {A B} (o : outcome A) (f : A -> outcome B) : outcome B :=
  match o with Ok a => f a | Err => Err | Panic => Panic | OutOfFuel => OutOfFuel end.

(* decodeComponent: the x == 0 block and getNeighbors (decoder version: unguarded indexing) *)
Definition neighbors1_safe (w h y x pfp pn1 : Z) (cur_rev pw : list Z) : outcome (Z * Z * Z * Z) :=
  let len := w * h in
  if x =? 0 then
    let rb := if y >? 0 then pfp else 0 in
    if (y >? 0) && (w >? 1) then
      let rdIdx := (y - 1) * w + (x + 1) in
      if rdIdx <? len then obind2 (fetch len rdIdx (wopt2 pw)) (fun rd => Ok (pfp, rb, pn1, rd))
      else Ok (pfp, rb, pn1, rb)
    else Ok (pfp, rb, pn1, rb)
  else
    obind2 (fetch len (y * w + (x - 1)) (wopt0 cur_rev)) (fun a =>
    obind2 (if y >? 0 then fetch len ((y - 1) * w + x) (wopt1 pw) else Ok 0) (fun b =>
    obind2 (if y >? 0 then fetch len ((y - 1) * w + (x - 1)) (wopt0 pw) else Ok 0) (fun c =>
    obind2 (if y >? 0 then (if x <? w - 1 then fetch len ((y - 1) * w + (x + 1)) (wopt2 pw) else Ok b) else Ok 0)
           (fun d => Ok (a, b, c, d))))).

Definition ctx_safe (pk : pkg) (st : jstate) (qs : Z) : outcome (nat * rctx) :=
  match ctx_index pk qs with
  | None => Err
  | Some i => match nth_error (js_ctxs st) i with Some c => Ok (i, c) | None => Panic end
  end.

Definition J_ok (ri : Z) : bool := (0 <=? ri) && (ri <? 32).

Definition lift {A} (o : option A) : outcome A := match o with Some a => Ok a | None => Err end.

Fixpoint dec_line1_safe (fuel : nat) (pk : pkg) (p : jparams) (w h y pfp pn1 : Z)
         (st : jstate) (x : Z) (pw : list Z) (cur_rev : list Z) (bits : list bool)
  : outcome (jstate * list Z * list bool) :=
  if x >=? w then Ok (st, cur_rev, bits) else
  match fuel with
  | O => OutOfFuel
  | S f =>
    let len := w * h in
    obind2 (neighbors1_safe w h y x pfp pn1 cur_rev pw) (fun nb =>
    let '(ra, rb, rc, rd) := nb in
    let qs := context_qs p ra rb rc rd in
    if negb (qs =? 0) then
      obind2 (ctx_safe pk st qs) (fun ic =>
      let '(i, c) := ic in
      obind2 (lift (regular_dec p c qs ra rb rc bits)) (fun r3 =>
      let '(v, c', r) := r3 in
      if chk_idx len (y * w + x)                              (* pixels[idx] = reconstructed *)
      then dec_line1_safe f pk p w h y pfp pn1 (set_ctx st i c') (x + 1) (tl pw) (v :: cur_rev) r
      else Panic))
    else
      if negb (J_ok (js_ri st)) then Panic else                 (* J[r.RunIndex] in DecodeRunLength *)
      obind2 (lift (DecodeRunLength bits (w - x) (js_ri st))) (fun r3 =>
      let '(n, ri', r) := r3 in
      let m := Z.to_nat n in
      let st1 := set_ri st ri' in
      let cur1 := push_n m ra cur_rev in
      if n >=? w - x then Ok (st1, cur1, r)
      else
        let pw1 := skipn m pw in
        let rbIdx := (y - 1) * w + (x + n) in
        obind2 (if (rbIdx >=? 0) && (rbIdx <? len) then fetch len rbIdx (wopt1 pw1) else Ok 0) (fun rb' =>
        if negb (J_ok ri') then Panic else                      (* J[r.RunIndex] in DecodeRunInterruption *)
        obind2 (lift (interrupt_dec pk p st1 ra rb' r)) (fun r3' =>
        let '(recon, st2, r') := r3' in
        dec_line1_safe f pk p w h y pfp pn1 (set_ri st2 (dec_run_index (js_ri st2))) (x + n + 1)
                       (tl pw1) (recon :: cur1) r'))))
  end.

Fixpoint dec_lines1_safe (hfuel : nat) (pk : pkg) (p : jparams) (w h : Z) (wn : nat) (y pfp pn1 : Z)
         (st : jstate) (prev : list Z) (bits : list bool) : outcome (list (list Z)) :=
  match hfuel with
  | O => Ok []
  | S hf =>
    obind2 (dec_line1_safe (S wn) pk p w h y pfp pn1 st 0 (0 :: prev) [] bits) (fun r3 =>
    let '(st', cur_rev, r) := r3 in
    let cur := frev cur_rev in
    obind2 (dec_lines1_safe hf pk p w h wn (y + 1) (line_first cur) pfp st' cur r) (fun ls => Ok (cur :: ls)))
  end.

(* sampleNeighbors: unguarded indexing of the interleaved array (len = w*h*3) *)
Definition optsel (sel : px3 -> Z) (o : option px3) : option Z :=
  match o with Some v => Some (sel v) | None => None end.
(* prev[min(x+1, w-1)] *)
Definition wopt2m (pw : list px3) : option px3 :=
  match pw with _ :: _ :: a :: _ => Some a | [_; a] => Some a | _ => None end.

Definition nb3_safe (w h y x : Z) (comp : Z) (plf pplf : px3) (cur_rev pw : list px3) (sel : px3 -> Z)
  : outcome (Z * Z * Z * Z) :=
  let len := w * h * 3 in
  if x =? 0 then
    let above := if y >? 0 then sel plf else 0 in
    if (y >? 0) && (w >? 1) then
      obind2 (fetch len (((y - 1) * w + 1) * 3 + comp) (optsel sel (wopt2m pw)))
             (fun ar => Ok (sel plf, above, sel pplf, ar))
    else Ok (sel plf, above, sel pplf, above)
  else
    obind2 (if y >? 0 then fetch len (((y - 1) * w + x) * 3 + comp) (optsel sel (wopt1 pw)) else Ok 0) (fun above =>
    obind2 (if y >? 0 then fetch len (((y - 1) * w + x - 1) * 3 + comp) (optsel sel (wopt0 pw)) else Ok 0) (fun al =>
    obind2 (if y >? 0 then fetch len (((y - 1) * w + Z.min (x + 1) (w - 1)) * 3 + comp) (optsel sel (wopt2m pw)) else Ok above)
           (fun ar =>
    obind2 (fetch len ((y * w + x - 1) * 3 + comp) (optsel sel (wopt0 cur_rev))) (fun left =>
           Ok (left, above, al, ar))))).

Definition regular_dec_i_safe (pk : pkg) (p : jparams) (st : jstate) (qs ra rb rc : Z) (bits : list bool)
  : outcome (Z * jstate * list bool) :=
  obind2 (ctx_safe pk st qs) (fun ic =>
  let '(i, c) := ic in
  obind2 (lift (regular_dec p c qs ra rb rc bits)) (fun r3 =>
  let '(v, c', r) := r3 in Ok (v, set_ctx st i c', r))).

Fixpoint dec_line3_safe (fuel : nat) (pk : pkg) (p : jparams) (w h y : Z) (plf pplf : px3)
         (st : jstate) (x : Z) (pw : list px3) (cur_rev : list px3) (bits : list bool)
  : outcome (jstate * list px3 * list bool) :=
  if x >=? w then Ok (st, cur_rev, bits) else
  match fuel with
  | O => OutOfFuel
  | S f =>
    let len := w * h * 3 in
    obind2 (nb3_safe w h y x 0 plf pplf cur_rev pw p3_0) (fun n0 =>
    obind2 (nb3_safe w h y x 1 plf pplf cur_rev pw p3_1) (fun n1 =>
    obind2 (nb3_safe w h y x 2 plf pplf cur_rev pw p3_2) (fun n2 =>
    let q0 := qs_of p n0 in let q1 := qs_of p n1 in let q2 := qs_of p n2 in
    if (q0 =? 0) && (q1 =? 0) && (q2 =? 0) then
      let lv : px3 := (fst (fst (fst n0)), fst (fst (fst n1)), fst (fst (fst n2))) in
      if negb (J_ok (js_ri st)) then Panic else
      obind2 (lift (DecodeRunLength bits (w - x) (js_ri st))) (fun r3 =>
      let '(n, ri', r) := r3 in
      let m := Z.to_nat n in
      let st1 := set_ri st ri' in
      let cur1 := push_n3 m lv cur_rev in
      (* the fill loop writes pixels[((y*w)+(x+i))*3+comp] for i < n *)
      if negb ((n <=? 0) || (chk_idx len ((y * w + x) * 3) && chk_idx len ((y * w + (x + n - 1)) * 3 + 2))) then Panic else
      if n =? w - x then Ok (st1, cur1, r)
      else
        let pw1 := skipn m pw in
        let xi := x + n in
        if negb (J_ok ri') then Panic else
        (* sampleNeighbors(pixels, x+runLength, ...) for each component, then the write *)
        obind2 (nb3_safe w h y xi 0 plf pplf cur1 pw1 p3_0) (fun i0 =>
        obind2 (lift (interrupt_dec_i p st1 (p3_0 lv) (snd (fst (fst i0))) r)) (fun a0 =>
        let '(r0, s0, b0) := a0 in
        obind2 (nb3_safe w h y xi 1 plf pplf cur1 pw1 p3_1) (fun i1 =>
        obind2 (lift (interrupt_dec_i p s0 (p3_1 lv) (snd (fst (fst i1))) b0)) (fun a1 =>
        let '(r1, s1, b1) := a1 in
        obind2 (nb3_safe w h y xi 2 plf pplf cur1 pw1 p3_2) (fun i2 =>
        obind2 (lift (interrupt_dec_i p s1 (p3_2 lv) (snd (fst (fst i2))) b1)) (fun a2 =>
        let '(r2, s2, b2) := a2 in
        if chk_idx len ((y * w + xi) * 3) && chk_idx len ((y * w + xi) * 3 + 2)
        then dec_line3_safe f pk p w h y plf pplf (set_ri s2 (dec_run_index (js_ri s2))) (x + n + 1)
                            (tl pw1) ((r0, r1, r2) :: cur1) b2
        else Panic)))))))
    else
      let '(ra0, rb0, rc0, _) := n0 in
      let '(ra1, rb1, rc1, _) := n1 in
      let '(ra2, rb2, rc2, _) := n2 in
      obind2 (regular_dec_i_safe pk p st q0 ra0 rb0 rc0 bits) (fun a0 =>
      let '(v0, s0, b0) := a0 in
      obind2 (regular_dec_i_safe pk p s0 q1 ra1 rb1 rc1 b0) (fun a1 =>
      let '(v1, s1, b1) := a1 in
      obind2 (regular_dec_i_safe pk p s1 q2 ra2 rb2 rc2 b1) (fun a2 =>
      let '(v2, s2, b2) := a2 in
      if chk_idx len ((y * w + x) * 3) && chk_idx len ((y * w + x) * 3 + 2)
      then dec_line3_safe f pk p w h y plf pplf s2 (x + 1) (tl pw) ((v0, v1, v2) :: cur_rev) b2
      else Panic))))))
  end.

Fixpoint dec_lines3_safe (hfuel : nat) (pk : pkg) (p : jparams) (w h : Z) (wn : nat) (y : Z) (plf pplf : px3)
         (st : jstate) (prev : list px3) (bits : list bool) : outcome (list (list px3)) :=
  match hfuel with
  | O => Ok []
  | S hf =>
    obind2 (dec_line3_safe (S wn) pk p w h y plf pplf st 0 (z3 :: prev) [] bits) (fun r3 =>
    let '(st', cur_rev, r) := r3 in
    let cur := frev cur_rev in
    (* previousLineFirst[comp] = pixels[(y*w)*3+comp] *)
    if negb (chk_idx (w * h * 3) (y * w * 3) && chk_idx (w * h * 3) (y * w * 3 + 2)) then Panic else
    match cur with
    | [] => Panic
    | first :: _ =>
      obind2 (dec_lines3_safe hf pk p w h wn (y + 1) first plf st' cur r) (fun ls => Ok (cur :: ls))
    end)
  end.

(* ---------- segments with checked payload access ---------- *)

Definition zn_chk (l : list Z) (i : Z) : outcome Z :=
  if chk_idx (zlen l) i then Ok (zn l i) else Panic.

(* the divisions of ComputeCodingParameters / computeThresholds *)
Definition ccp_safe (maxVal near reset : Z) : outcome jparams :=
  if 2 * near + 1 =? 0 then Panic
  else if (maxVal <? 128) && ((maxVal + 1 =? 0) || (Z.quot 256 (maxVal + 1) =? 0)) then Panic
  else Ok (ComputeCodingParameters maxVal near reset).

Definition ll_init_params_safe (d : dstate) (maxVal reset t1 t2 t3 : Z) : outcome dstate :=
  obind2 (ccp_safe maxVal 0 reset) (fun _ => ll_init_params d maxVal reset t1 t2 t3).

Definition parse_sof_safe (pk : pkg) (d : dstate) (data : list Z) : outcome dstate :=
  if zlen data <? 6 then Err else
  obind2 (zn_chk data 0) (fun _ => obind2 (zn_chk data 5) (fun _ =>
  match parse_sof pk d data with
  | Ok d' =>
    match pk with
    | PkLossless => obind2 (ccp_safe (d_maxval d') 0 64) (fun _ => Ok d')
    | PkNear => Ok d'
    end
  | Err => Err | Panic => Panic | OutOfFuel => OutOfFuel
  end)).

Definition parse_lse_safe (pk : pkg) (d : dstate) (data : list Z) : outcome dstate :=
  if zlen data <? 1 then Err else
  obind2 (zn_chk data 0) (fun id =>
  match pk with
  | PkLossless =>
    if id =? 1 then
      if zlen data <? 11 then Err
      else obind2 (zn_chk data 10) (fun _ =>
           let mv := Z.lor (Z.shiftl (zn data 1) 8) (zn data 2) in
           obind2 (ccp_safe (if mv <=? 0 then d_maxval d else mv) 0
                            (let rs0 := Z.lor (Z.shiftl (zn data 9) 8) (zn data 10) in if rs0 =? 0 then 64 else rs0))
                  (fun _ => parse_lse pk d data))
    else Ok d
  | PkNear =>
    if (id =? 1) && (zlen data >=? 11) then obind2 (zn_chk data 10) (fun _ => parse_lse pk d data) else Ok d
  end).

Definition parse_sos_safe (pk : pkg) (d : dstate) (data : list Z) : outcome (jparams * Z) :=
  if zlen data <? 4 then Err else
  obind2 (zn_chk data 0) (fun _ =>
  obind2 (zn_chk data (zlen data - 3)) (fun near =>
  obind2 (zn_chk data (zlen data - 2)) (fun _ =>
  match pk with
  | PkLossless => parse_sos pk d data
  | PkNear =>
    match parse_sos pk d data with
    | Ok r => obind2 (ccp_safe (d_maxval d) near (if d_reset d >? 0 then d_reset d else 64)) (fun _ => Ok r)
    | Err => Err | Panic => Panic | OutOfFuel => OutOfFuel
    end
  end))).

Definition decode_scan_safe (pk : pkg) (lim : Z) (d : dstate) (p : jparams) (near : Z) (rest : list Z)
  : outcome decoded :=
  if d_w d * d_h d * d_comps d >? lim then OutOfFuel else
  let bits := jls_bits_of_bytes (scan_bytes pk rest) in
  let wn := Z.to_nat (d_w d) in
  let hn := Z.to_nat (d_h d) in
  let st := jst_init p in
  let res :=
    if d_comps d >? 1 then
      obind2 (dec_lines3_safe hn pk p (d_w d) (d_h d) wn 0 z3 z3 st [] bits) (fun ls => Ok (untriples (concat ls)))
    else
      obind2 (dec_lines1_safe hn pk p (d_w d) (d_h d) wn 0 0 0 st [] bits) (fun ls => Ok (concat ls)) in
  obind2 res (fun pixels =>
    Ok (mkDecoded (integersToPixels (d_bd d) (d_maxval d) pixels) (d_w d) (d_h d) (d_comps d) (d_bd d) near)).

Fixpoint decode_segments_safe (fuel : nat) (pk : pkg) (lim : Z) (d : dstate) (bs : list Z) : outcome decoded :=
  match fuel with
  | O => OutOfFuel
  | S f =>
    match read_marker bs with
    | None => Err
    | Some (m, r) =>
      if m =? 247 then
        match read_segment r with
        | None => Err
        | Some (data, r') => obind2 (parse_sof_safe pk d data) (fun d' => decode_segments_safe f pk lim d' r')
        end
      else if m =? 248 then
        match read_segment r with
        | None => Err
        | Some (data, r') => obind2 (parse_lse_safe pk d data) (fun d' => decode_segments_safe f pk lim d' r')
        end
      else if m =? 218 then
        match read_segment r with
        | None => Err
        | Some (data, r') =>
          obind2 (parse_sos_safe pk d data) (fun pn => let '(p, near) := pn in decode_scan_safe pk lim d p near r')
        end
      else if m =? 217 then Err
      else if is_sof m then Err
      else if (m =? 216) || is_rst m then decode_segments_safe f pk lim d r
      else
        match read_segment r with
        | None => Err
        | Some (_, r') => decode_segments_safe f pk lim d r'
        end
    end
  end.

Definition decode_image_safe (pk : pkg) (lim : Z) (bs : list Z) : outcome decoded :=
  match read_marker bs with
  | None => Err
  | Some (m, r) => if m =? 216 then decode_segments_safe (S (length r)) pk lim dst_init r else Err
  end.

Definition jls_decode_safe (lim : Z) (bs : list Z) : outcome decoded := decode_image_safe PkLossless lim bs.
Definition jlsn_decode_safe (lim : Z) (bs : list Z) : outcome decoded := decode_image_safe PkNear lim bs.
