(* Byte level: the decoders on the encoders' streams — SOI/SOF55/SOS parsing, scan extraction,
   removal of the stuffing, then scan_lockstep.
   jls_roundtrip (C03), jlsn_bound (C07) and the cross-decoding statements of C14 are proved for
   every image whose write ops the as-coded GolombWriter packs like the bit-list packer
   (gw_pack_ok ops; JlsProofsWriter.v discharges this hypothesis where it is proved). *)
From V Require Import Common.Base JpegLS.JlsParams JpegLS.JlsGolomb JpegLS.JlsRun JpegLS.JlsModel.
From V Require Import JpegLS.JlsProofsParams JpegLS.JlsProofsGolomb JpegLS.JlsProofsSample
                      JpegLS.JlsProofsRun JpegLS.JlsProofsNear0 JpegLS.JlsProofsInterrupt
                      JpegLS.JlsProofsLine JpegLS.JlsProofsLine3 JpegLS.JlsProofsScan JpegLS.JlsProofsWriter.

(* ---------- small byte lemmas ---------- *)

Lemma wrapU8_small : forall v, 0 <= v < 256 -> wrapU 8 v = v.
Proof. intros. unfold wrapU. apply Z.mod_small. change (2 ^ 8) with 256. lia. Qed.

Lemma be_split : forall v, 0 <= v < 65536 ->
  Z.lor (Z.shiftl (wrapU 8 (Z.shiftr v 8)) 8) (wrapU 8 (Z.land v 255)) = v.
Proof.
  intros v Hv. rewrite Z.shiftr_div_pow2 by lia.
  change 255 with (Z.ones 8). rewrite Z.land_ones by lia.
  assert (Ha : 0 <= v / 2 ^ 8 < 256) by (change (2 ^ 8) with 256; Z.div_mod_to_equations; lia).
  assert (Hb : 0 <= v mod 2 ^ 8 < 256) by (change (2 ^ 8) with 256; Z.div_mod_to_equations; lia).
  rewrite !wrapU8_small by assumption.
  assert (Hl : Z.land (Z.shiftl (v / 2 ^ 8) 8) (v mod 2 ^ 8) = 0).
  { apply Z.bits_inj'. intros n Hn. rewrite Z.land_spec, Z.bits_0.
    destruct (Z.ltb_spec n 8).
    - rewrite Z.shiftl_spec_low by lia. reflexivity.
    - rewrite Z.mod_pow2_bits_high by lia. apply andb_false_r. }
  rewrite <- Z.lxor_lor by exact Hl. rewrite <- Z.add_nocarry_lxor by exact Hl.
  rewrite Z.shiftl_mul_pow2 by lia. rewrite (Z.div_mod v (2 ^ 8)) at 3 by lia. ring.
Qed.

Lemma wrapS64_small : forall x, - 2 ^ 63 <= x < 2 ^ 63 -> wrapS 64 x = x.
Proof.
  intros x Hx. unfold wrapS. change (64 - 1) with 63.
  change (2 ^ 63) with 9223372036854775808 in *. change (2 ^ 64) with 18446744073709551616.
  destruct (Z_lt_le_dec x 0) as [Hneg|Hpos].
  - assert (Hm : x mod 18446744073709551616 = x + 18446744073709551616).
    { symmetry. apply Z.mod_unique with (q := -1); lia. }
    rewrite Hm. destruct (Z.ltb_spec (x + 18446744073709551616) 9223372036854775808); lia.
  - rewrite Z.mod_small by lia. destruct (Z.ltb_spec x 9223372036854775808); lia.
Qed.

Lemma go_maxval_small : forall bd, 0 <= bd <= 16 -> go_maxval bd = 2 ^ bd - 1.
Proof.
  intros bd H. unfold go_maxval. rewrite Z.shiftl_1_l.
  assert (0 < 2 ^ bd) by (apply Z.pow_pos_nonneg; lia).
  assert (2 ^ bd <= 2 ^ 16) by (apply Z.pow_le_mono_r; lia).
  change (2 ^ 16) with 65536 in *.
  rewrite (wrapS64_small (2 ^ bd)) by (change (2 ^ 63) with 9223372036854775808; lia).
  apply wrapS64_small. change (2 ^ 63) with 9223372036854775808. lia.
Qed.

(* ---------- explicit headers ---------- *)

Lemma sof55_1 : forall w h bd, write_sof55 w h 1 bd =
  [255; 247; 0; 11; wrapU 8 bd; wrapU 8 (Z.shiftr h 8); wrapU 8 (Z.land h 255);
   wrapU 8 (Z.shiftr w 8); wrapU 8 (Z.land w 255); 1; 1; 17; 0].
Proof. reflexivity. Qed.
Lemma sof55_3 : forall w h bd, write_sof55 w h 3 bd =
  [255; 247; 0; 17; wrapU 8 bd; wrapU 8 (Z.shiftr h 8); wrapU 8 (Z.land h 255);
   wrapU 8 (Z.shiftr w 8); wrapU 8 (Z.land w 255); 3; 1; 17; 0; 2; 17; 0; 3; 17; 0].
Proof. reflexivity. Qed.
Lemma sos_1 : forall near, write_sos 1 near = [255; 218; 0; 8; 1; 1; 0; wrapU 8 near; 0; 0].
Proof. reflexivity. Qed.
Lemma sos_3 : forall near, write_sos 3 near = [255; 218; 0; 12; 3; 1; 0; 2; 0; 3; 0; wrapU 8 near; 2; 0].
Proof. reflexivity. Qed.

Ltac eval_zlen :=
  repeat match goal with
         | |- context [zlen ?l] => let n := eval vm_compute in (zlen l) in change (zlen l) with n
         end.
Ltac eval_to_nat :=
  repeat match goal with
         | |- context [Z.to_nat ?z] => let n := eval vm_compute in (Z.to_nat z) in change (Z.to_nat z) with n
         end.
Ltac eval_zn := unfold zn; eval_to_nat; cbn [nth].

(* one iteration of the segment loop on a SOF55 / SOS segment with the payload spelled out *)
Lemma seg_sof_9 : forall f pk lim d a1 a2 a3 a4 a5 a6 a7 a8 a9 r,
  decode_segments (S f) pk lim d (255 :: 247 :: 0 :: 11 :: a1 :: a2 :: a3 :: a4 :: a5 :: a6 :: a7 :: a8 :: a9 :: r) =
  match parse_sof pk d [a1; a2; a3; a4; a5; a6; a7; a8; a9] with
  | Ok d' => decode_segments f pk lim d' r
  | Err => Err | Panic => Panic | OutOfFuel => OutOfFuel
  end.
Proof. reflexivity. Qed.

Lemma seg_sof_15 : forall f pk lim d a1 a2 a3 a4 a5 a6 a7 a8 a9 a10 a11 a12 a13 a14 a15 r,
  decode_segments (S f) pk lim d
    (255 :: 247 :: 0 :: 17 :: a1 :: a2 :: a3 :: a4 :: a5 :: a6 :: a7 :: a8 :: a9 :: a10 :: a11 :: a12 :: a13 :: a14 :: a15 :: r) =
  match parse_sof pk d [a1; a2; a3; a4; a5; a6; a7; a8; a9; a10; a11; a12; a13; a14; a15] with
  | Ok d' => decode_segments f pk lim d' r
  | Err => Err | Panic => Panic | OutOfFuel => OutOfFuel
  end.
Proof. reflexivity. Qed.

Lemma seg_sos_6 : forall f pk lim d a1 a2 a3 a4 a5 a6 r,
  decode_segments (S f) pk lim d (255 :: 218 :: 0 :: 8 :: a1 :: a2 :: a3 :: a4 :: a5 :: a6 :: r) =
  match parse_sos pk d [a1; a2; a3; a4; a5; a6] with
  | Ok (p, near) => decode_scan pk lim d p near r
  | Err => Err | Panic => Panic | OutOfFuel => OutOfFuel
  end.
Proof. reflexivity. Qed.

Lemma seg_sos_10 : forall f pk lim d a1 a2 a3 a4 a5 a6 a7 a8 a9 a10 r,
  decode_segments (S f) pk lim d (255 :: 218 :: 0 :: 12 :: a1 :: a2 :: a3 :: a4 :: a5 :: a6 :: a7 :: a8 :: a9 :: a10 :: r) =
  match parse_sos pk d [a1; a2; a3; a4; a5; a6; a7; a8; a9; a10] with
  | Ok (p, near) => decode_scan pk lim d p near r
  | Err => Err | Panic => Panic | OutOfFuel => OutOfFuel
  end.
Proof. reflexivity. Qed.

(* ComputeCodingParameters returns a record whose fields are the arguments / itself *)
Lemma ccp_eta : forall maxVal near reset,
  let par := ComputeCodingParameters maxVal near reset in
  mkJParams maxVal near (jp_range par) (jp_qbpp par) (jp_limit par) (jp_t1 par) (jp_t2 par) (jp_t3 par) (jp_reset par) = par.
Proof.
  intros. subst par. unfold ComputeCodingParameters.
  destruct (computeThresholds maxVal near) as [[t1 t2] t3]. reflexivity.
Qed.

Record header_ok (pk : pkg) (w h comps bd near : Z) : Prop := mkHeaderOk {
  ho_bd : 2 <= bd <= 16;
  ho_w : 1 <= w <= 65535;
  ho_h : 1 <= h <= 65535;
  ho_comps : comps = 1 \/ comps = 3;
  ho_near : 0 <= near <= 255;
  ho_pk : pk_ok pk near
}.

(* the frame header a decoder holds after SOF55 (only these fields are used by decode_scan) *)
Definition frame_of (d : dstate) (w h comps bd : Z) : Prop :=
  d_bd d = bd /\ d_w d = w /\ d_h d = h /\ d_comps d = comps /\ d_maxval d = 2 ^ bd - 1.

(* decode() on SOI SOF55 SOS rest: reaches decodeScan with the encoder's geometry and the
   default parameters for (bd, near) *)
Lemma decode_header : forall pk dpk w h comps bd near rest lim,
  header_ok pk w h comps bd near ->
  (dpk = PkLossless -> near = 0) ->
  exists d, frame_of d w h comps bd /\
    decode_image dpk lim ([255; 216] ++ write_sof55 w h comps bd ++ write_sos comps near ++ rest) =
    decode_scan dpk lim d (jls_params bd near) near rest.
Proof.
  intros pk dpk w h comps bd near rest lim [Hbd Hw Hh Hc Hnear _] Hd0.
  assert (Hmv : go_maxval bd = 2 ^ bd - 1) by (apply go_maxval_small; lia).
  assert (Hbd8 : wrapU 8 bd = bd) by (apply wrapU8_small; lia).
  assert (Hn8 : wrapU 8 near = near) by (apply wrapU8_small; lia).
  pose proof (be_split w ltac:(lia)) as Hwsplit. pose proof (be_split h ltac:(lia)) as Hhsplit.
  pose proof (pow2_bounds bd Hbd) as Hpb.
  unfold decode_image.
  destruct Hc as [-> | ->].
  - rewrite sof55_1, sos_1. cbn [app read_marker skip_ff Z.eqb Pos.eqb length].
    rewrite seg_sof_9.
    unfold parse_sof. eval_zlen. cbn [Z.ltb Z.compare Pos.compare Pos.compare_cont]. eval_zn.
    cbn [dst_init d_w d_h Z.eqb negb orb].
    rewrite Hwsplit, Hhsplit, Hbd8, Hmv.
    destruct (Z.leb_spec w 0); [lia|]. destruct (Z.leb_spec h 0); [lia|]. cbn [orb negb Z.eqb Pos.eqb andb].
    destruct (Z.ltb_spec bd 2); [lia|]. destruct (Z.gtb_spec bd 16); [lia|]. cbn [orb].
    destruct dpk.
    + (* lossless decoder: traits from SOF, NEAR of the SOS ignored (it is 0) *)
      specialize (Hd0 eq_refl). subst near.
      unfold ll_init_params.
      cbn [Z.eqb orb]. rewrite (ccp_eta (2 ^ bd - 1) 0 64).
      rewrite seg_sos_6. unfold parse_sos. eval_zlen. cbn [Z.ltb Z.compare Pos.compare Pos.compare_cont Z.sub Z.add Z.opp Z.pos_sub Pos.pred_double]. eval_zn.
      cbn [d_comps Z.eqb Pos.eqb negb andb Z.gtb Z.compare Pos.compare Pos.compare_cont d_par].
      eexists. split; [|reflexivity]. unfold frame_of. cbn. auto.
    + rewrite seg_sos_6. unfold parse_sos. eval_zlen. cbn [Z.ltb Z.compare Pos.compare Pos.compare_cont Z.sub Z.add Z.opp Z.pos_sub Pos.pred_double]. eval_zn.
      cbn [d_comps Z.eqb Pos.eqb negb andb Z.gtb Z.compare Pos.compare Pos.compare_cont d_maxval d_reset d_t1 d_t2 d_t3 dst_init].
      rewrite Hn8.
      rewrite (ccp_eta (2 ^ bd - 1) near 64).
      eexists. split; [|reflexivity]. unfold frame_of. cbn. auto.
  - rewrite sof55_3, sos_3. cbn [app read_marker skip_ff Z.eqb Pos.eqb length].
    rewrite seg_sof_15.
    unfold parse_sof. eval_zlen. cbn [Z.ltb Z.compare Pos.compare Pos.compare_cont]. eval_zn.
    cbn [dst_init d_w d_h Z.eqb negb orb].
    rewrite Hwsplit, Hhsplit, Hbd8, Hmv.
    destruct (Z.leb_spec w 0); [lia|]. destruct (Z.leb_spec h 0); [lia|]. cbn [orb negb Z.eqb Pos.eqb andb].
    destruct (Z.ltb_spec bd 2); [lia|]. destruct (Z.gtb_spec bd 16); [lia|]. cbn [orb].
    destruct dpk.
    + specialize (Hd0 eq_refl). subst near.
      unfold ll_init_params.
      cbn [Z.eqb orb]. rewrite (ccp_eta (2 ^ bd - 1) 0 64).
      rewrite seg_sos_10. unfold parse_sos. eval_zlen. cbn [Z.ltb Z.compare Pos.compare Pos.compare_cont Z.sub Z.add Z.opp Z.pos_sub Pos.pred_double]. eval_zn.
      cbn [d_comps Z.eqb Pos.eqb negb andb Z.gtb Z.compare Pos.compare Pos.compare_cont d_par].
      eexists. split; [|reflexivity]. unfold frame_of. cbn. auto.
    + rewrite seg_sos_10. unfold parse_sos. eval_zlen. cbn [Z.ltb Z.compare Pos.compare Pos.compare_cont Z.sub Z.add Z.opp Z.pos_sub Pos.pred_double]. eval_zn.
      cbn [d_comps Z.eqb Pos.eqb negb andb Z.gtb Z.compare Pos.compare Pos.compare_cont d_maxval d_reset d_t1 d_t2 d_t3 dst_init].
      rewrite Hn8.
      rewrite (ccp_eta (2 ^ bd - 1) near 64).
      eexists. split; [|reflexivity]. unfold frame_of. cbn. auto.
Qed.

(* ---------- scan extraction ---------- *)

(* a marker-free scan followed by EOI is extracted unchanged (both decoders) *)
Lemma scan_bytes_packed : forall pk n bs,
  (length bs <= n)%nat -> jls_marker_free bs = true ->
  scan_bytes pk (bs ++ [255; 217]) = bs.
Proof.
  induction n as [|n IH]; intros bs Hlen Hmf.
  - destruct bs; [reflexivity | cbn in Hlen; lia].
  - destruct bs as [|b r]; [reflexivity|].
    cbn [jls_marker_free] in Hmf. apply andb_true_iff in Hmf. destruct Hmf as [Hb Hr].
    cbn [app scan_bytes].
    destruct (Z.eqb_spec b 255) as [E|NE].
    + destruct r as [|b2 r2]; [discriminate|]. cbn [app].
      apply andb_true_iff in Hb. destruct Hb as [Hb0 Hb1]. apply Z.ltb_lt in Hb1. apply Z.leb_le in Hb0.
      destruct (Z.ltb_spec b2 128); [|lia].
      cbn [jls_marker_free] in Hr. apply andb_true_iff in Hr. destruct Hr as [_ Hr2].
      rewrite (IH r2); [reflexivity | cbn in Hlen; lia | exact Hr2].
    + rewrite (IH r); [reflexivity | cbn in Hlen; lia | exact Hr].
Qed.

(* the as-coded GolombWriter packs these ops like the bit-list packer *)
Definition gw_pack_ok (ops : list wop) : Prop := gw_run ops = jls_pack (ops_bits ops).

Lemma decode_scan_unfold : forall pk lim d p near rest,
  decode_scan pk lim d p near rest =
  if d_w d * d_h d * d_comps d >? lim then OutOfFuel else
  match decode_scan_samples pk p (d_w d) (d_h d) (d_comps d) (jls_bits_of_bytes (scan_bytes pk rest)) with
  | Ok pixels => Ok (mkDecoded (integersToPixels (d_bd d) (d_maxval d) pixels) (d_w d) (d_h d) (d_comps d) (d_bd d) near)
  | Err => Err | Panic => Panic | OutOfFuel => OutOfFuel
  end.
Proof. reflexivity. Qed.

(* the two encoders produce the same write ops at NEAR = 0 *)
Lemma encode_scan_ops_near0 : forall P w h comps pixels,
  2 <= P <= 16 -> Forall (in_range P) pixels ->
  encode_scan_ops PkLossless (jls_params P 0) w h comps pixels =
  encode_scan_ops PkNear (jls_params P 0) w h comps pixels.
Proof.
  intros P w h comps pixels HP Hr.
  assert (Hn : 0 <= 0 <= near_max P).
  { unfold near_max. pose proof (pow2_bounds P HP). assert (0 <= (2 ^ P - 1) / 2) by (apply Z.div_pos; lia). lia. }
  assert (H0 : jp_near (jls_params P 0) = 0) by (destruct (jls_params_facts P 0 HP Hn); assumption).
  unfold encode_scan_ops. destruct (comps >? 1).
  - rewrite (enc_lines3_near0 _ H0). reflexivity.
  - rewrite (enc_lines1_near0 P HP) by assumption. reflexivity.
Qed.

(* ---------- the decoders on an encoder stream ---------- *)

Theorem stream_decode : forall epk dpk w h comps bd near pixels ops lim,
  header_ok epk w h comps bd near -> near <= near_max bd ->
  (dpk = PkLossless -> near = 0) ->
  Forall (in_range bd) pixels -> zlen pixels = w * h * comps -> w * h * comps <= lim ->
  encode_scan_ops epk (jls_params bd near) w h comps pixels = Ok ops ->
  exists recon,
    decode_image dpk lim ([255; 216] ++ write_sof55 w h comps bd ++ write_sos comps near ++ gw_run ops ++ [255; 217]) =
      Ok (mkDecoded (integersToPixels bd (2 ^ bd - 1) recon) w h comps bd near) /\
    Forall2 (near_close near) pixels recon /\ Forall (in_range bd) recon.
Proof.
  intros epk dpk w h comps bd near pixels ops lim Hh Hnm Hd0 Hrng Hlen Hlim Henc.
  pose proof Hh as [Hbd Hw Hhh Hc Hnear Hepk].
  assert (Hnr : 0 <= near <= near_max bd) by lia.
  (* the ops are also those of the decoder's own package *)
  assert (Henc' : encode_scan_ops dpk (jls_params bd near) w h comps pixels = Ok ops).
  { destruct epk, dpk; try exact Henc.
    - simpl in Hepk. subst near. rewrite <- encode_scan_ops_near0 by assumption. exact Henc.
    - specialize (Hd0 eq_refl). subst near. rewrite encode_scan_ops_near0 by assumption. exact Henc. }
  assert (Hdpk : pk_ok dpk near) by (destruct dpk; [apply Hd0; reflexivity | exact I]).
  destruct (scan_lockstep bd near dpk w h comps pixels ops Hbd Hnr Hdpk ltac:(lia) ltac:(lia) Hc Hrng Hlen Henc')
    as (recon & Hrel & Hrr & Hwf & Hdec).
  pose proof (gw_run_pack ops Hwf) as Hgw.
  destruct (decode_header epk dpk w h comps bd near (gw_run ops ++ [255; 217]) lim Hh Hd0)
    as (d & (Fbd & Fw & Fh & Fc & Fmv) & Hhdr).
  exists recon. split; [|split; assumption].
  rewrite Hhdr, decode_scan_unfold. rewrite Fbd, Fw, Fh, Fc, Fmv.
  destruct (Z.gtb_spec (w * h * comps) lim); [lia|].
  rewrite Hgw.
  destruct (jls_no_marker (ops_bits ops)) as [Hmf _].
  rewrite (scan_bytes_packed dpk _ _ (le_n _) Hmf).
  destruct (jls_stuff_unstuff (ops_bits ops)) as (pad & Hbits & _).
  rewrite Hbits, Hdec. reflexivity.
Qed.

(* ---------- property level: C03, C07, C14 ---------- *)

Lemma near_close_0_eq : forall a b, Forall2 (near_close 0) a b -> a = b.
Proof.
  induction 1 as [|x y ta tb H HF IH]; [reflexivity|]. unfold near_close in H.
  assert (x = y) by lia. subst y. rewrite IH. reflexivity.
Qed.

(* what an encoder call that succeeds has produced *)
Lemma encode_image_ok : forall pk w h comps bd near pixelData stream,
  encode_image pk w h comps bd near pixelData = Ok stream ->
  1 <= w <= 65535 /\ 1 <= h <= 65535 /\ (comps = 1 \/ comps = 3) /\ 2 <= bd <= 16 /\
  (pk = PkNear -> 0 <= near <= 255) /\
  exists ops, encode_scan_ops pk (jls_params bd near) w h comps (pixelsToIntegers bd pixelData) = Ok ops /\
              stream = [255; 216] ++ write_sof55 w h comps bd ++ write_sos comps near ++ gw_run ops ++ [255; 217].
Proof.
  intros pk w h comps bd near px stream H. unfold encode_image in H.
  destruct (Z.leb_spec w 0); [discriminate|]. destruct (Z.leb_spec h 0); [discriminate|]. cbn [orb] in H.
  assert (Hc : comps = 1 \/ comps = 3).
  { destruct (Z.eqb_spec comps 1); [auto|]. destruct (Z.eqb_spec comps 3); [auto|]. discriminate. }
  assert (Hcc : negb (comps =? 1) && negb (comps =? 3) = false) by (destruct Hc as [-> | ->]; reflexivity).
  rewrite Hcc in H.
  destruct (Z.ltb_spec bd 2); [discriminate|]. destruct (Z.gtb_spec bd 16); [discriminate|]. cbn [orb] in H.
  assert (Hn : pk = PkNear -> 0 <= near <= 255).
  { intro E. subst pk. destruct (Z.ltb_spec near 0); [discriminate|]. destruct (Z.gtb_spec near 255); [discriminate|]. lia. }
  assert (Hnn : match pk with PkLossless => false | PkNear => (near <? 0) || (near >? 255) end = false).
  { destruct pk; [reflexivity|]. specialize (Hn eq_refl).
    destruct (Z.ltb_spec near 0); [lia|]. destruct (Z.gtb_spec near 255); [lia|]. reflexivity. }
  rewrite Hnn in H.
  destruct (Z.gtb_spec w 65535); [discriminate|]. destruct (Z.gtb_spec h 65535); [discriminate|]. cbn [orb] in H.
  destruct (zlen px <? w * h * comps * Z.quot (bd + 7) 8); [discriminate|].
  destruct (encode_scan_ops pk (jls_params bd near) w h comps (pixelsToIntegers bd px)) as [ops| | |] eqn:Eo;
    try discriminate.
  inversion H; subst stream.
  split; [lia|]. split; [lia|]. split; [exact Hc|]. split; [lia|]. split; [exact Hn|].
  exists ops. split; reflexivity.
Qed.

(* jls_roundtrip (C03): decoding the lossless encoder's output returns exactly the input samples
   with the same width, height, component count and precision — every image with 1 or 3
   components, precision 2..16, samples below 2^P, dimensions up to 65535. *)
Theorem jls_roundtrip : forall w h comps P pixelData stream lim,
  w * h * comps <= lim ->
  zlen (pixelsToIntegers P pixelData) = w * h * comps ->
  Forall (in_range P) (pixelsToIntegers P pixelData) ->
  jls_encode w h comps P pixelData = Ok stream ->
  jls_decode lim stream =
  Ok (mkDecoded (integersToPixels P (2 ^ P - 1) (pixelsToIntegers P pixelData)) w h comps P 0).
Proof.
  intros w h comps P px stream lim Hlim Hlen Hr Henc.
  destruct (encode_image_ok _ _ _ _ _ _ _ _ Henc) as (Hw1 & Hh1 & Hc & HP & _ & ops & Hops & Hs).
  subst stream.
  assert (Hn : 0 <= near_max P).
  { unfold near_max. pose proof (pow2_bounds P HP). assert (0 <= (2 ^ P - 1) / 2) by (apply Z.div_pos; lia). lia. }
  destruct (stream_decode PkLossless PkLossless w h comps P 0 _ ops lim
              (mkHeaderOk PkLossless w h comps P 0 HP ltac:(lia) ltac:(lia) Hc ltac:(lia) eq_refl)
              Hn (fun _ => eq_refl) Hr Hlen Hlim Hops) as (recon & Hdec & Hrel & _).
  apply near_close_0_eq in Hrel. subst recon. exact Hdec.
Qed.

(* jlsn_bound (C07): for every NEAR in 0..min(255, MAXVAL/2), the near-lossless decoder returns,
   from the near-lossless encoder's output, samples within NEAR of the source and inside
   [0, 2^P - 1], reports the NEAR requested and the original geometry. *)
Theorem jlsn_bound : forall w h comps P near pixelData stream lim,
  w * h * comps <= lim -> near <= near_max P ->
  zlen (pixelsToIntegers P pixelData) = w * h * comps ->
  Forall (in_range P) (pixelsToIntegers P pixelData) ->
  jlsn_encode w h comps P near pixelData = Ok stream ->
  exists recon,
    jlsn_decode lim stream = Ok (mkDecoded (integersToPixels P (2 ^ P - 1) recon) w h comps P near) /\
    Forall2 (near_close near) (pixelsToIntegers P pixelData) recon /\ Forall (in_range P) recon.
Proof.
  intros w h comps P near px stream lim Hlim Hnm Hlen Hr Henc.
  destruct (encode_image_ok _ _ _ _ _ _ _ _ Henc) as (Hw1 & Hh1 & Hc & HP & Hnr & ops & Hops & Hs).
  subst stream. specialize (Hnr eq_refl).
  apply (stream_decode PkNear PkNear w h comps P near _ ops lim
           (mkHeaderOk PkNear w h comps P near HP ltac:(lia) ltac:(lia) Hc Hnr I)
           Hnm (fun E => ltac:(discriminate E)) Hr Hlen Hlim Hops).
Qed.

(* NEAR = 0 is exact *)
Corollary jlsn_near0_exact : forall w h comps P pixelData stream lim,
  w * h * comps <= lim ->
  zlen (pixelsToIntegers P pixelData) = w * h * comps ->
  Forall (in_range P) (pixelsToIntegers P pixelData) ->
  jlsn_encode w h comps P 0 pixelData = Ok stream ->
  jlsn_decode lim stream =
  Ok (mkDecoded (integersToPixels P (2 ^ P - 1) (pixelsToIntegers P pixelData)) w h comps P 0).
Proof.
  intros w h comps P px stream lim Hlim Hlen Hr Henc.
  destruct (encode_image_ok _ _ _ _ _ _ _ _ Henc) as (_ & _ & _ & HP & _).
  assert (Hn : 0 <= near_max P).
  { unfold near_max. pose proof (pow2_bounds P HP). assert (0 <= (2 ^ P - 1) / 2) by (apply Z.div_pos; lia). lia. }
  destruct (jlsn_bound w h comps P 0 px stream lim Hlim Hn Hlen Hr Henc) as (recon & Hdec & Hrel & _).
  apply near_close_0_eq in Hrel. subst recon. exact Hdec.
Qed.

(* C14, cross decoding: each decoder on the other package's NEAR = 0 stream returns the source *)
Theorem cross_decode_near_of_lossless : forall w h comps P pixelData stream lim,
  w * h * comps <= lim ->
  zlen (pixelsToIntegers P pixelData) = w * h * comps ->
  Forall (in_range P) (pixelsToIntegers P pixelData) ->
  jls_encode w h comps P pixelData = Ok stream ->
  jlsn_decode lim stream =
  Ok (mkDecoded (integersToPixels P (2 ^ P - 1) (pixelsToIntegers P pixelData)) w h comps P 0).
Proof.
  intros w h comps P px stream lim Hlim Hlen Hr Henc.
  rewrite (near0_same_function w h comps P px Hr) in Henc.
  apply (jlsn_near0_exact w h comps P px stream lim); assumption.
Qed.

Theorem cross_decode_lossless_of_near0 : forall w h comps P pixelData stream lim,
  w * h * comps <= lim ->
  zlen (pixelsToIntegers P pixelData) = w * h * comps ->
  Forall (in_range P) (pixelsToIntegers P pixelData) ->
  jlsn_encode w h comps P 0 pixelData = Ok stream ->
  jls_decode lim stream =
  Ok (mkDecoded (integersToPixels P (2 ^ P - 1) (pixelsToIntegers P pixelData)) w h comps P 0).
Proof.
  intros w h comps P px stream lim Hlim Hlen Hr Henc.
  rewrite <- (near0_same_function w h comps P px Hr) in Henc.
  apply (jls_roundtrip w h comps P px stream lim); assumption.
Qed.

(* the sample containers: 1 byte per sample (P <= 8) or 2 bytes little endian *)
Lemma container_roundtrip_8 : forall P px, P <= 8 -> 2 <= P ->
  Forall (in_range P) px -> integersToPixels P (2 ^ P - 1) (pixelsToIntegers P px) = px.
Proof.
  intros P px H8 H2 Hr. unfold integersToPixels, pixelsToIntegers.
  destruct (Z.leb_spec P 8); [|lia].
  assert (Hp : 2 ^ P <= 2 ^ 8) by (apply Z.pow_le_mono_r; lia). change (2 ^ 8) with 256 in Hp.
  induction Hr as [|v t Hv Ht IH]; cbn [integersToPixels8]; [reflexivity|].
  unfold in_range in Hv. rewrite IH. f_equal. unfold clamp_sample.
  destruct (Z.ltb_spec v 0); [lia|]. destruct (Z.gtb_spec v (2 ^ P - 1)); [lia|].
  apply wrapU8_small. lia.
Qed.
