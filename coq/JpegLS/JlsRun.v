(* EXTRACT *)
(* jpegls/runmode/runmode.go (J) and jpegls/lossless/runmode.go: run-length coding, RunIndex,
   run-interruption contexts and coding, as coded. *)
From V Require Import Common.Base JpegLS.JlsParams JpegLS.JlsGolomb.

(* var J = [32]int{...} *)
Definition J_table : list Z :=
  [0; 0; 0; 0; 1; 1; 1; 1; 2; 2; 2; 2; 3; 3; 3; 3;
   4; 4; 5; 5; 6; 6; 7; 7; 8; 9; 10; 11; 12; 13; 14; 15].
(* J[r.RunIndex]; RunIndex stays within 0..31 (incRunIndex / DecRunIndex) *)
Definition Jof (ri : Z) : Z := nth (Z.to_nat ri) J_table 0.

Definition inc_run_index (ri : Z) : Z := if ri <? 31 then ri + 1 else ri.
Definition dec_run_index (ri : Z) : Z := if ri >? 0 then ri - 1 else ri.

(* type RunModeContext *)
Record runctx : Type := mkRunCtx { rc_type : Z; rc_A : Z; rc_N : Z; rc_NN : Z }.
Definition new_runctx (rit rangeVal : Z) : runctx := mkRunCtx rit (a_init rangeVal) 1 0.

(* func (ctx *RunModeContext) GetGolombCode() : loop leaves when k > 32 (k = 33) *)
Fixpoint ggc_loop (fuel : nat) (nTest temp k : Z) : Z :=
  match fuel with
  | O => k
  | S f => if nTest <? temp
           then (if k + 1 >? 32 then k + 1 else ggc_loop f (Z.shiftl nTest 1) temp (k + 1))
           else k
  end.
Definition GetGolombCode (c : runctx) : Z :=
  ggc_loop 34 (rc_N c) (rc_A c + Z.shiftr (rc_N c) 1 * rc_type c) 0.

(* func (ctx *RunModeContext) UpdateVariables(errorValue, eMappedErrorValue, resetThreshold) *)
Definition UpdateVariables (c : runctx) (errorValue eMapped reset : Z) : runctx :=
  let nn := if errorValue <? 0 then rc_NN c + 1 else rc_NN c in
  let a := rc_A c + Z.shiftr (eMapped + 1 - rc_type c) 1 in
  if rc_N c =? reset
  then mkRunCtx (rc_type c) (Z.shiftr a 1) (Z.shiftr (rc_N c) 1 + 1) (Z.shiftr nn 1)
  else mkRunCtx (rc_type c) a (rc_N c + 1) nn.

(* func (ctx *RunModeContext) ComputeMap(errorValue, k) bool *)
Definition ComputeMap (c : runctx) (errorValue k : Z) : bool :=
  if (k =? 0) && (errorValue >? 0) && (2 * rc_NN c <? rc_N c) then true
  else if (errorValue <? 0) && (2 * rc_NN c >=? rc_N c) then true
  else if (errorValue <? 0) && negb (k =? 0) then true
  else false.

(* func (ctx *RunModeContext) ComputeErrorValue(temp, k) *)
Definition ComputeErrorValue (c : runctx) (temp k : Z) : Z :=
  let mapBit := Z.land temp 1 in
  let errAbs := Z.quot (temp + mapBit) 2 in
  let mapCondition := negb (k =? 0) || (2 * rc_NN c >=? rc_N c) in
  if Bool.eqb mapCondition (negb (mapBit =? 0)) then - errAbs else errAbs.

(* func signInt(n) / runmode.Sign(n): -1 if n < 0 else 1 *)
Definition signInt (n : Z) : Z := if n <? 0 then -1 else 1.

(* func (r *RunModeScanner) EncodeRunLength(gw, runLength, endOfLine).
   fuel: every iteration removes at least one pixel from runLength; callers pass the number of
   pixels of the run (a list length) + 1. Returns the write ops and the new RunIndex;
   None = out of fuel. *)
Fixpoint enc_runlen_loop (fuel : nat) (runLength ri : Z) (acc : list wop) : option (Z * Z * list wop) :=
  match fuel with
  | O => None
  | S f =>
    if runLength >=? Z.shiftl 1 (Jof ri)
    then enc_runlen_loop f (runLength - Z.shiftl 1 (Jof ri)) (inc_run_index ri) ((1, 1) :: acc)
    else Some (runLength, ri, acc)
  end.
Definition EncodeRunLength (fuel : nat) (runLength : Z) (endOfLine : bool) (ri : Z)
  : option (list wop * Z) :=
  match enc_runlen_loop fuel runLength ri [] with
  | None => None
  | Some (rl, ri', acc) =>
    if endOfLine then Some (frev (if negb (rl =? 0) then (1, 1) :: acc else acc), ri')
    else Some (frev ((wrapU 32 rl, Jof ri' + 1) :: acc), ri')
  end.

(* func (r *RunModeScanner) DecodeRunLength(gr, remainingInLine) : (runLength, RunIndex', rest) *)
Fixpoint dec_runlen_loop (bits : list bool) (remaining runLength ri : Z)
  : option (bool * Z * Z * list bool) :=        (* (reached end of line, runLength, ri, rest) *)
  match bits with
  | [] => None
  | true :: r =>
    let count := Z.min (Z.shiftl 1 (Jof ri)) (remaining - runLength) in
    let runLength' := runLength + count in
    let ri' := if count =? Z.shiftl 1 (Jof ri) then inc_run_index ri else ri in
    if runLength' >=? remaining then Some (true, remaining, ri', r)
    else dec_runlen_loop r remaining runLength' ri'
  | false :: r => Some (false, runLength, ri, r)
  end.
Definition DecodeRunLength (bits : list bool) (remaining ri : Z) : option (Z * Z * list bool) :=
  match dec_runlen_loop bits remaining 0 ri with
  | None => None
  | Some (true, rl, ri', r) => Some (rl, ri', r)
  | Some (false, rl, ri', r) =>
    if Jof ri' >? 0 then
      match read_bits (Jof ri') r with
      | None => None
      | Some (v, r') =>
        if rl + v >? remaining then None else Some (rl + v, ri', r')
      end
    else if rl >? remaining then None else Some (rl, ri', r)
  end.

(* func (r *RunModeScanner) EncodeRunInterruption(gw, ctx, errorValue) *)
Definition EncodeRunInterruption (p : jparams) (ri : Z) (c : runctx) (errorValue : Z)
  : list wop * runctx :=
  let k := GetGolombCode c in
  let mapBit := ComputeMap c errorValue k in
  let eMapped0 := 2 * Z.abs errorValue - rc_type c in
  let eMapped := if mapBit then eMapped0 - 1 else eMapped0 in
  let limitMinusJ := jp_limit p - Jof ri - 1 in
  (encode_mapped_ops k eMapped limitMinusJ (jp_qbpp p),
   UpdateVariables c errorValue eMapped (jp_reset p)).

(* func (r *RunModeScanner) DecodeRunInterruption(gr, ctx) *)
Definition DecodeRunInterruption (p : jparams) (ri : Z) (c : runctx) (bits : list bool)
  : option (Z * runctx * list bool) :=
  let k := GetGolombCode c in
  let limitMinusJ := jp_limit p - Jof ri - 1 in
  match decode_value k limitMinusJ (jp_qbpp p) bits with
  | None => None
  | Some (mapped, r) =>
    let errVal := ComputeErrorValue c (mapped + rc_type c) k in
    Some (errVal, UpdateVariables c errVal mapped (jp_reset p), r)
  end.
