(* The as-coded GolombWriter (32-bit buffer, freeBitCount, flush of up to 4 bytes, the double
   flush and the partial ORs of WriteBits, Flush with its padding rule) realises the bit-list
   packing: gw_run ops = jls_pack (ops_bits ops) for every sequence of well-formed write ops
   (0 <= bitCount <= 32, 0 <= value < 2^bitCount). *)
From V Require Import Common.Base JpegLS.JlsGolomb.
From V Require Import JpegLS.JlsProofsGolomb.

(* ---------- value of a bit list (MSB first) ---------- *)

Fixpoint bval_acc (l : list bool) (acc : Z) : Z :=
  match l with [] => acc | b :: r => bval_acc r (2 * acc + b2z b) end.
Definition bval (l : list bool) : Z := bval_acc l 0.

Lemma bval_acc_spec : forall l acc, bval_acc l acc = acc * 2 ^ Z.of_nat (length l) + bval_acc l 0.
Proof.
  induction l as [|b r IH]; intros acc; cbn [bval_acc length].
  - change (2 ^ Z.of_nat 0) with 1. lia.
  - rewrite IH. rewrite (IH (2 * 0 + b2z b)). rewrite Nat2Z.inj_succ, Z.pow_succ_r by lia. ring.
Qed.

Lemma bval_cons : forall b r, bval (b :: r) = b2z b * 2 ^ Z.of_nat (length r) + bval r.
Proof. intros. unfold bval. cbn [bval_acc]. rewrite bval_acc_spec. ring. Qed.

Lemma bval_nil : bval [] = 0.
Proof. reflexivity. Qed.

Lemma bval_app : forall a b, bval (a ++ b) = bval a * 2 ^ Z.of_nat (length b) + bval b.
Proof.
  induction a as [|x a IH]; intros b.
  - cbn [app]. rewrite bval_nil. lia.
  - cbn [app]. rewrite !bval_cons, IH, app_length, Nat2Z.inj_add, Z.pow_add_r by lia. ring.
Qed.

Lemma bval_range : forall l, 0 <= bval l < 2 ^ Z.of_nat (length l).
Proof.
  induction l as [|b r IH].
  - rewrite bval_nil. simpl. lia.
  - rewrite bval_cons. cbn [length]. rewrite Nat2Z.inj_succ, Z.pow_succ_r by lia.
    pose proof (b2z_range b). nia.
Qed.

Lemma bval_bits_of_nat : forall n v, bval (bits_of_nat n v) = v mod 2 ^ Z.of_nat n.
Proof.
  intros n v. pose proof (read_bits_nat_bits_of n v [] 0) as H. rewrite app_nil_r in H.
  (* read_bits_nat computes bval *)
  assert (G : forall l acc, read_bits_nat (length l) l acc = Some (bval_acc l acc, [])).
  { induction l as [|b r IH]; intros acc; cbn [length read_bits_nat bval_acc]; [reflexivity | apply IH]. }
  assert (Hl : length (bits_of_nat n v) = n) by (clear; induction n; simpl; congruence).
  specialize (G (bits_of_nat n v) 0). rewrite Hl in G. rewrite G in H. inversion H as [E]. unfold bval. rewrite E. lia.
Qed.

Lemma bval_bits_of : forall v n, 0 <= n -> 0 <= v < 2 ^ n -> bval (bits_of v n) = v.
Proof.
  intros v n Hn Hv. unfold bits_of. rewrite bval_bits_of_nat, Z2Nat.id by lia. apply Z.mod_small. assumption.
Qed.

Lemma bval_firstn_div : forall l k, (k <= length l)%nat ->
  bval (firstn k l) = bval l / 2 ^ Z.of_nat (length l - k).
Proof.
  intros l k Hk. rewrite <- (firstn_skipn k l) at 2. rewrite bval_app, skipn_length.
  pose proof (bval_range (skipn k l)) as Hr. rewrite skipn_length in Hr.
  assert (0 < 2 ^ Z.of_nat (length l - k)) by (apply Z.pow_pos_nonneg; lia).
  apply Z.div_unique with (r := bval (skipn k l)); lia.
Qed.

(* ---------- lor on aligned, consistent pieces ---------- *)

Lemma lor_disjoint : forall x y k, 0 <= k -> 0 <= y < 2 ^ k -> x mod 2 ^ k = 0 -> Z.lor x y = x + y.
Proof.
  intros x y k Hk Hy Hx.
  assert (Hl : Z.land x y = 0).
  { apply Z.bits_inj'. intros n Hn. rewrite Z.land_spec, Z.bits_0.
    destruct (Z.ltb_spec n k).
    - assert (Hxm : x = x / 2 ^ k * 2 ^ k).
      { assert (0 < 2 ^ k) by (apply Z.pow_pos_nonneg; lia).
        rewrite (Z.div_mod x (2 ^ k)) at 1 by lia. rewrite Hx. ring. }
      rewrite Hxm. rewrite Z.mul_pow2_bits_low by lia. reflexivity.
    - rewrite <- (Z.mod_small y (2 ^ k)) by lia. rewrite Z.mod_pow2_bits_high by lia. apply andb_false_r. }
  rewrite <- Z.lxor_lor by exact Hl. symmetry. apply Z.add_nocarry_lxor. exact Hl.
Qed.

(* lor (A + M) (M + T) = A + M + T when A is aligned above M, M above T *)
Lemma lor_merge : forall A M T k1 k2,
  0 <= k2 <= k1 -> A mod 2 ^ k1 = 0 -> M mod 2 ^ k2 = 0 -> 0 <= M -> M + T < 2 ^ k1 -> 0 <= T < 2 ^ k2 ->
  Z.lor (A + M) (M + T) = A + M + T.
Proof.
  intros A M T k1 k2 Hk HA HM HM0 HMT HT.
  assert (H1 : A + M = Z.lor A M) by (symmetry; apply (lor_disjoint A M k1); lia).
  assert (H2 : M + T = Z.lor M T) by (symmetry; apply (lor_disjoint M T k2); lia).
  transitivity (Z.lor (Z.lor A M) (Z.lor M T)); [rewrite <- H1, <- H2; reflexivity|].
  rewrite <- Z.lor_assoc. rewrite (Z.lor_assoc M M T). rewrite Z.lor_diag.
  rewrite <- H2. rewrite (lor_disjoint A (M + T) k1) by lia. ring.
Qed.

Lemma mul_pow_mod0 : forall a k j, 0 <= k <= j -> (a * 2 ^ j) mod 2 ^ k = 0.
Proof.
  intros a k j H. replace j with ((j - k) + k) by lia. rewrite Z.pow_add_r by lia.
  rewrite Z.mul_assoc. apply Z.mod_mul. assert (0 < 2 ^ k) by (apply Z.pow_pos_nonneg; lia). lia.
Qed.

(* the window lemma: the known prefix of the window OR a suffix of the window gives the window *)
Lemma or_fill : forall (X S : list bool) (c m : Z),
  m = Z.of_nat (length X + length S) -> m <= 32 ->
  Z.of_nat (length X) <= c <= m ->
  Z.lor (bval (firstn (Z.to_nat c) (X ++ S)) * 2 ^ (32 - c)) (bval S * 2 ^ (32 - m)) =
  bval (X ++ S) * 2 ^ (32 - m).
Proof.
  intros X S c m Hm Hm32 Hc.
  set (a := (Z.to_nat c - length X)%nat).
  assert (Hfn : firstn (Z.to_nat c) (X ++ S) = X ++ firstn a S).
  { rewrite firstn_app. rewrite firstn_all2 by lia. reflexivity. }
  rewrite Hfn.
  rewrite <- (firstn_skipn a S) at 2 3.
  set (S1 := firstn a S). set (S2 := skipn a S).
  assert (Hl1 : Z.of_nat (length S1) = c - Z.of_nat (length X)).
  { unfold S1. rewrite firstn_length_le by lia. unfold a. lia. }
  assert (Hl2 : Z.of_nat (length S2) = m - c).
  { unfold S2. rewrite skipn_length. unfold a. lia. }
  rewrite !bval_app. rewrite Hl2.
  pose proof (bval_range S1) as R1. pose proof (bval_range S2) as R2. pose proof (bval_range X) as RX.
  rewrite Hl1 in R1. rewrite Hl2 in R2.
  assert (Hp1 : 2 ^ (32 - c) = 2 ^ (m - c) * 2 ^ (32 - m)) by (rewrite <- Z.pow_add_r by lia; f_equal; lia).
  assert (P0 : 0 < 2 ^ (32 - m)) by (apply Z.pow_pos_nonneg; lia).
  assert (P1 : 0 < 2 ^ (m - c)) by (apply Z.pow_pos_nonneg; lia).
  assert (P2 : 0 < 2 ^ (c - Z.of_nat (length X))) by (apply Z.pow_pos_nonneg; lia).
  replace ((bval X * 2 ^ Z.of_nat (length S1) + bval S1) * 2 ^ (32 - c))
    with (bval X * 2 ^ (32 - Z.of_nat (length X)) + bval S1 * 2 ^ (32 - c)).
  2:{ rewrite Hl1. replace (32 - Z.of_nat (length X)) with ((c - Z.of_nat (length X)) + (32 - c)) by lia.
      rewrite Z.pow_add_r by lia. ring. }
  replace ((bval S1 * 2 ^ (m - c) + bval S2) * 2 ^ (32 - m))
    with (bval S1 * 2 ^ (32 - c) + bval S2 * 2 ^ (32 - m)) by (rewrite Hp1; ring).
  rewrite (lor_merge _ _ _ (32 - Z.of_nat (length X)) (32 - c)).
  - rewrite app_length, Nat2Z.inj_add, Hl1, Hl2.
    replace (32 - Z.of_nat (length X)) with ((c - Z.of_nat (length X)) + (m - c) + (32 - m)) by lia.
    rewrite !Z.pow_add_r by lia. rewrite Hp1. ring.
  - lia.
  - apply mul_pow_mod0. lia.
  - apply mul_pow_mod0. lia.
  - nia.
  - replace (32 - Z.of_nat (length X)) with ((c - Z.of_nat (length X)) + (32 - c)) by lia.
    rewrite Z.pow_add_r by lia. rewrite Hp1 in *. nia.
  - rewrite Hp1. nia.
Qed.

(* ---------- list helpers ---------- *)

Lemma firstn_plus : forall (A : Type) (a b : nat) (l : list A),
  firstn (a + b) l = firstn a l ++ firstn b (skipn a l).
Proof.
  induction a as [|a IH]; intros b l; [reflexivity|].
  destruct l as [|x l]; cbn [Nat.add firstn skipn app].
  - destruct b; reflexivity.
  - rewrite IH. reflexivity.
Qed.

Lemma skipn_skipn' : forall (A : Type) (a b : nat) (l : list A), skipn a (skipn b l) = skipn (b + a) l.
Proof.
  intros A a b. revert a. induction b as [|b IH]; intros a l; [reflexivity|].
  destruct l as [|x l]; cbn [Nat.add skipn]; [destruct a; reflexivity | apply IH].
Qed.

(* ---------- pack_go consumes whole bytes ---------- *)

Lemma pack_go_take_gen : forall A tail acc have ff,
  0 <= have -> have + Z.of_nat (length A) = Wd ff -> (0 < length A)%nat ->
  jls_pack_go (A ++ tail) acc have ff =
  (acc * 2 ^ Z.of_nat (length A) + bval A) :: jls_pack_go tail 0 0 (acc * 2 ^ Z.of_nat (length A) + bval A =? 255).
Proof.
  induction A as [|b r IH]; intros tail acc have ff Hh Hlen Hpos; [cbn in Hpos; lia|].
  cbn [app jls_pack_go]. fold (Wd ff). cbn [length] in Hlen.
  destruct r as [|b2 r2].
  - cbn [length] in *. destruct (Z.eqb_spec (have + 1) (Wd ff)); [|lia].
    rewrite bval_cons. cbn [length app]. change (2 ^ Z.of_nat 0) with 1. change (2 ^ Z.of_nat 1) with 2.
    rewrite bval_nil. replace (acc * 2 + (b2z b * 1 + 0)) with (2 * acc + b2z b) by ring. reflexivity.
  - destruct (Z.eqb_spec (have + 1) (Wd ff)); [cbn [length] in Hlen; lia|].
    rewrite (IH tail (2 * acc + b2z b) (have + 1) ff) by (cbn [length] in *; lia).
    rewrite (bval_cons b (b2 :: r2)).
    replace ((2 * acc + b2z b) * 2 ^ Z.of_nat (length (b2 :: r2)) + bval (b2 :: r2))
      with (acc * 2 ^ Z.of_nat (length (b :: b2 :: r2)) + (b2z b * 2 ^ Z.of_nat (length (b2 :: r2)) + bval (b2 :: r2))).
    + reflexivity.
    + change (length (b :: b2 :: r2)) with (S (length (b2 :: r2))). rewrite Nat2Z.inj_succ, Z.pow_succ_r by lia. ring.
Qed.

Lemma pack_go_take : forall A tail ff,
  Z.of_nat (length A) = Wd ff ->
  jls_pack_go (A ++ tail) 0 0 ff = bval A :: jls_pack_go tail 0 0 (bval A =? 255).
Proof.
  intros A tail ff H. rewrite (pack_go_take_gen A tail 0 0 ff) by (destruct ff; simpl Wd in *; lia).
  rewrite Z.mul_0_l, Z.add_0_l. reflexivity.
Qed.

(* the last, partial byte *)
Lemma pack_go_partial_gen : forall A acc have ff,
  0 <= have -> have + Z.of_nat (length A) < Wd ff -> (0 < length A)%nat ->
  jls_pack_go A acc have ff =
  [(acc * 2 ^ Z.of_nat (length A) + bval A) * 2 ^ (Wd ff - have - Z.of_nat (length A))].
Proof.
  induction A as [|b r IH]; intros acc have ff Hh Hlen Hpos; [cbn in Hpos; lia|].
  cbn [jls_pack_go]. fold (Wd ff). cbn [length] in Hlen.
  destruct (Z.eqb_spec (have + 1) (Wd ff)); [lia|].
  destruct r as [|b2 r2].
  - cbn [jls_pack_go length]. fold (Wd ff). destruct (Z.gtb_spec (have + 1) 0); [|lia].
    rewrite Z.shiftl_mul_pow2 by lia. rewrite bval_cons, bval_nil. cbn [length].
    change (2 ^ Z.of_nat 0) with 1. change (2 ^ Z.of_nat 1) with 2.
    f_equal. f_equal; [ring | f_equal; lia].
  - rewrite (IH (2 * acc + b2z b) (have + 1) ff) by (cbn [length] in *; lia).
    rewrite (bval_cons b (b2 :: r2)).
    change (length (b :: b2 :: r2)) with (S (length (b2 :: r2))). rewrite Nat2Z.inj_succ, Z.pow_succ_r by lia.
    f_equal. f_equal; [ring | f_equal; lia].
Qed.

(* ---------- representation of the writer state ---------- *)

(* L = the bits written but not yet emitted (possibly more than 32 in the middle of WriteBits);
   the buffer holds the first c of them, left aligned *)
Definition repr (g : gwst) (L : list bool) (c : Z) : Prop :=
  gw_free g = 32 - Z.of_nat (length L) /\ 0 <= c <= 32 /\ c <= Z.of_nat (length L) /\
  gw_buf g = bval (firstn (Z.to_nat c) L) * 2 ^ (32 - c).

(* S = every bit written so far (complete ops); the bytes already out plus the packing of what
   is pending is the packing of S *)
Definition sim (g : gwst) (L : list bool) (c : Z) (S : list bool) : Prop :=
  repr g L c /\
  forall tail, jls_pack_go (S ++ tail) 0 0 false = rev (gw_out g) ++ jls_pack_go (L ++ tail) 0 0 (gw_ff g).

Lemma Wd_cases : forall ff, (Wd ff = 7 /\ ff = true) \/ (Wd ff = 8 /\ ff = false).
Proof. destruct ff; simpl; auto. Qed.

(* one iteration of flush() that emits a whole byte *)
Lemma sim_flush_byte : forall g L c S,
  sim g L c S -> Wd (gw_ff g) <= c ->
  sim (gw_flush_byte g) (skipn (Z.to_nat (Wd (gw_ff g))) L) (c - Wd (gw_ff g)) S /\
  gw_free (gw_flush_byte g) = gw_free g + Wd (gw_ff g).
Proof.
  intros g L c S [(Hfree & Hc & HcL & Hbuf) Hpack] HW.
  set (W := Wd (gw_ff g)) in *.
  assert (HWv : W = 7 \/ W = 8) by (unfold W; destruct (gw_ff g); simpl; auto).
  set (A := firstn (Z.to_nat W) L). set (Lr := skipn (Z.to_nat W) L).
  assert (HlenA : Z.of_nat (length A) = W) by (unfold A; rewrite firstn_length_le by lia; lia).
  set (Bk := firstn (Z.to_nat (c - W)) Lr).
  assert (HlenB : Z.of_nat (length Bk) = c - W).
  { unfold Bk, Lr. rewrite firstn_length_le; [lia|]. rewrite skipn_length. lia. }
  assert (Hsplit : firstn (Z.to_nat c) L = A ++ Bk).
  { replace (Z.to_nat c) with (Z.to_nat W + Z.to_nat (c - W))%nat by lia. apply firstn_plus. }
  rewrite Hsplit, bval_app, HlenB in Hbuf.
  pose proof (bval_range A) as RA. pose proof (bval_range Bk) as RB. rewrite HlenA in RA. rewrite HlenB in RB.
  assert (P1 : 0 < 2 ^ (32 - c)) by (apply Z.pow_pos_nonneg; lia).
  assert (P2 : 0 < 2 ^ (c - W)) by (apply Z.pow_pos_nonneg; lia).
  assert (Hp : 2 ^ (32 - W) = 2 ^ (c - W) * 2 ^ (32 - c)) by (rewrite <- Z.pow_add_r by lia; f_equal; lia).
  assert (Hbuf' : gw_buf g = bval A * 2 ^ (32 - W) + bval Bk * 2 ^ (32 - c)) by (rewrite Hbuf, Hp; ring).
  assert (Hlow : 0 <= bval Bk * 2 ^ (32 - c) < 2 ^ (32 - W)) by (rewrite Hp; nia).
  assert (Hdiv : gw_buf g / 2 ^ (32 - W) = bval A).
  { symmetry. apply Z.div_unique with (r := bval Bk * 2 ^ (32 - c)); [lia | rewrite Hbuf'; ring]. }
  assert (HbA : wrapU 8 (bval A) = bval A).
  { unfold wrapU. apply Z.mod_small. change (2 ^ 8) with 256.
    destruct HWv as [E|E]; rewrite E in RA; [change (2 ^ 7) with 128 in RA | change (2 ^ 8) with 256 in RA]; lia. }
  assert (Hshift : wrapU 32 (Z.shiftl (gw_buf g) W) = bval Bk * 2 ^ (32 - (c - W))).
  { unfold wrapU. rewrite Z.shiftl_mul_pow2 by lia. rewrite Hbuf'.
    replace ((bval A * 2 ^ (32 - W) + bval Bk * 2 ^ (32 - c)) * 2 ^ W)
      with (bval Bk * 2 ^ (32 - (c - W)) + bval A * 2 ^ 32).
    - rewrite Z.mod_add by (change (2 ^ 32) with 4294967296; lia). apply Z.mod_small.
      assert (2 ^ (c - W) * 2 ^ (32 - (c - W)) = 2 ^ 32) by (rewrite <- Z.pow_add_r by lia; f_equal; lia).
      assert (0 < 2 ^ (32 - (c - W))) by (apply Z.pow_pos_nonneg; lia). nia.
    - assert (E1 : 2 ^ (32 - (c - W)) = 2 ^ (32 - c) * 2 ^ W) by (rewrite <- Z.pow_add_r by lia; f_equal; lia).
      assert (E2 : 2 ^ 32 = 2 ^ (32 - W) * 2 ^ W) by (rewrite <- Z.pow_add_r by lia; f_equal; lia).
      rewrite E1, E2. ring. }
  assert (Hpk : forall tail, jls_pack_go (L ++ tail) 0 0 (gw_ff g) =
                              bval A :: jls_pack_go (Lr ++ tail) 0 0 (bval A =? 255)).
  { intros tail. rewrite <- (firstn_skipn (Z.to_nat W) L) at 1. fold A Lr. rewrite <- app_assoc.
    apply pack_go_take. exact HlenA. }
  assert (HlenLr : Z.of_nat (length Lr) = Z.of_nat (length L) - W) by (unfold Lr; rewrite skipn_length; lia).
  unfold gw_flush_byte. fold W.
  destruct (gw_ff g) eqn:Eff.
  - (* 7 bits *)
    assert (W = 7) by (unfold W; try rewrite Eff; reflexivity).
    change (Z.shiftr (gw_buf g) 25) with (Z.shiftr (gw_buf g) (32 - W)).
    change (Z.shiftl (gw_buf g) 7) with (Z.shiftl (gw_buf g) W).
    rewrite Z.shiftr_div_pow2 by lia. rewrite Hdiv, HbA, Hshift.
    split; [|cbn; lia]. split.
    + unfold repr. cbn [gw_free gw_buf]. fold Bk. repeat split; try lia.
    + intros tail. cbn [gw_out gw_ff rev]. rewrite Hpack, Hpk, <- app_assoc. reflexivity.
  - assert (W = 8) by (unfold W; try rewrite Eff; reflexivity).
    change (Z.shiftr (gw_buf g) 24) with (Z.shiftr (gw_buf g) (32 - W)).
    change (Z.shiftl (gw_buf g) 8) with (Z.shiftl (gw_buf g) W).
    rewrite Z.shiftr_div_pow2 by lia. rewrite Hdiv, HbA, Hshift.
    split; [|cbn; lia]. split.
    + unfold repr. cbn [gw_free gw_buf]. fold Bk. repeat split; try lia.
    + intros tail. cbn [gw_out gw_ff rev]. rewrite Hpack, Hpk, <- app_assoc. reflexivity.
Qed.

(* n iterations of flush() that all emit whole bytes *)
Lemma sim_flush_n_full : forall n g L c S,
  sim g L c S -> 8 * Z.of_nat n <= c -> 8 * Z.of_nat n <= Z.of_nat (length L) ->
  exists E : nat,
    7 * Z.of_nat n <= Z.of_nat E <= 8 * Z.of_nat n /\
    sim (gw_flush_n n g) (skipn E L) (c - Z.of_nat E) S /\
    gw_free (gw_flush_n n g) = gw_free g + Z.of_nat E.
Proof.
  induction n as [|n IH]; intros g L c S Hsim Hc HL.
  - exists O. cbn [gw_flush_n skipn]. change (Z.of_nat 0) with 0. rewrite Z.sub_0_r, Z.add_0_r.
    split; [lia|]. split; [exact Hsim | reflexivity].
  - cbn [gw_flush_n]. pose proof Hsim as [(Hfree & _) _].
    destruct (Z.geb_spec (gw_free g) 32); [lia|].
    destruct (Wd_cases (gw_ff g)) as [[HW _]|[HW _]];
      (destruct (sim_flush_byte g L c S Hsim ltac:(lia)) as [Hs1 Hf1];
       rewrite HW in Hs1, Hf1;
       match type of Hs1 with sim _ (skipn ?k L) _ _ =>
         destruct (IH _ _ _ _ Hs1 ltac:(lia) ltac:(rewrite skipn_length; lia)) as (E & HE & HsE & HfE);
         exists (k + E)%nat; rewrite skipn_skipn' in HsE
       end;
       split; [lia|]; split; [|lia];
       match goal with |- sim _ _ ?cc _ => match type of HsE with sim _ _ ?cc' _ => replace cc with cc' by lia end end;
       exact HsE).
Qed.

Lemma gw_set_out : forall g b f, gw_out (gw_set g b f) = gw_out g /\ gw_ff (gw_set g b f) = gw_ff g /\
                                 gw_buf (gw_set g b f) = b /\ gw_free (gw_set g b f) = f.
Proof. intros. unfold gw_set. cbn. auto. Qed.

Lemma firstn_firstn_le : forall (A : Type) (i j : nat) (l : list A), (i <= j)%nat -> firstn i (firstn j l) = firstn i l.
Proof. intros. rewrite firstn_firstn. f_equal. lia. Qed.

(* OR of the bits that still overflow the buffer: the buffer then holds the first 32 pending bits *)
Lemma repr_or_over : forall g X B c,
  repr g (X ++ B) c -> Z.of_nat (length X) <= c -> 32 < Z.of_nat (length X + length B) ->
  Z.of_nat (length X) <= 32 -> Z.of_nat (length B) <= 32 ->
  repr (gw_set g (Z.lor (gw_buf g) (Z.shiftr (bval B) (- gw_free g))) (gw_free g)) (X ++ B) 32.
Proof.
  intros g X B c (Hfree & Hc & HcL & Hbuf) HXc Hover HX32 HB32.
  rewrite app_length in *.
  set (k := (32 - length X)%nat).
  set (Sx := firstn k B).
  assert (HlenS : length Sx = k) by (unfold Sx; apply firstn_length_le; lia).
  assert (Hwin : firstn 32 (X ++ B) = X ++ Sx).
  { rewrite firstn_app, firstn_all2 by lia. reflexivity. }
  assert (Hshr : Z.shiftr (bval B) (- gw_free g) = bval Sx).
  { rewrite Z.shiftr_div_pow2 by lia. unfold Sx. rewrite bval_firstn_div by lia. f_equal. f_equal. lia. }
  unfold repr. destruct (gw_set_out g (Z.lor (gw_buf g) (Z.shiftr (bval B) (- gw_free g))) (gw_free g)) as (_ & _ & Hb & Hf).
  rewrite Hb, Hf, app_length. repeat split; try lia.
  change (Z.to_nat 32) with 32%nat. rewrite Hwin, Hshr, Hbuf.
  replace (firstn (Z.to_nat c) (X ++ B)) with (firstn (Z.to_nat c) (X ++ Sx)).
  2:{ rewrite <- Hwin. apply firstn_firstn_le. lia. }
  pose proof (or_fill X Sx c 32 ltac:(lia) ltac:(lia) ltac:(lia)) as Hor.
  change (32 - 32) with 0 in *. change (2 ^ 0) with 1 in *. rewrite !Z.mul_1_r in *. exact Hor.
Qed.

(* the last OR of WriteBits: what is left of the value goes in shifted to the free end *)
Lemma repr_or_final : forall g X Bh B' c,
  repr g (X ++ B') c -> Z.of_nat (length X) <= c -> Z.of_nat (length X + length B') <= 32 ->
  (Bh <> [] -> X = []) -> Z.of_nat (length (Bh ++ B')) <= 32 ->
  repr (gw_set g (Z.lor (gw_buf g) (wrapU 32 (Z.shiftl (bval (Bh ++ B')) (gw_free g)))) (gw_free g))
       (X ++ B') (Z.of_nat (length (X ++ B'))).
Proof.
  intros g X Bh B' c (Hfree & Hc & HcL & Hbuf) HXc Hm HBh Hn.
  rewrite app_length in *.
  set (m := Z.of_nat (length X + length B')) in *.
  assert (Hf : gw_free g = 32 - m) by (unfold m; lia).
  assert (Hval : wrapU 32 (Z.shiftl (bval (Bh ++ B')) (gw_free g)) = bval B' * 2 ^ (32 - m)).
  { rewrite Hf. rewrite Z.shiftl_mul_pow2 by lia. unfold wrapU. rewrite bval_app.
    pose proof (bval_range B') as RB. pose proof (bval_range Bh) as RH.
    assert (P0 : 0 < 2 ^ (32 - m)) by (apply Z.pow_pos_nonneg; lia).
    destruct Bh as [|b bh].
    - rewrite bval_nil, Z.mul_0_l, Z.add_0_l. apply Z.mod_small.
      assert (2 ^ Z.of_nat (length B') * 2 ^ (32 - m) <= 2 ^ 32).
      { rewrite <- Z.pow_add_r by lia. apply Z.pow_le_mono_r; lia. }
      nia.
    - assert (HX : X = []) by (apply HBh; discriminate). subst X.
      assert (Hm' : m = Z.of_nat (length B')) by (unfold m; cbn [length Nat.add]; lia).
      replace ((bval (b :: bh) * 2 ^ Z.of_nat (length B') + bval B') * 2 ^ (32 - m))
        with (bval B' * 2 ^ (32 - m) + bval (b :: bh) * 2 ^ 32).
      + rewrite Z.mod_add by (change (2 ^ 32) with 4294967296; lia). apply Z.mod_small.
        assert (2 ^ Z.of_nat (length B') * 2 ^ (32 - m) = 2 ^ 32) by (rewrite <- Z.pow_add_r by lia; f_equal; lia).
        nia.
      + assert (E : 2 ^ 32 = 2 ^ Z.of_nat (length B') * 2 ^ (32 - m)) by (rewrite <- Z.pow_add_r by lia; f_equal; lia).
        rewrite E. ring. }
  unfold repr. destruct (gw_set_out g (Z.lor (gw_buf g) (wrapU 32 (Z.shiftl (bval (Bh ++ B')) (gw_free g)))) (gw_free g))
    as (_ & _ & Hb & Hfr).
  rewrite Hb, Hfr, app_length. fold m. repeat split; try lia.
  rewrite Hval, Hbuf. rewrite (or_fill X B' c m eq_refl ltac:(lia) ltac:(lia)).
  rewrite firstn_all2 by (rewrite app_length; lia). reflexivity.
Qed.

(* ---------- WriteBits ---------- *)

Definition wop_ok (o : wop) : Prop := 0 <= snd o <= 32 /\ 0 <= fst o < 2 ^ snd o.

Lemma sim_gw_set : forall g L c S b f,
  (forall tail, jls_pack_go (S ++ tail) 0 0 false = rev (gw_out g) ++ jls_pack_go (L ++ tail) 0 0 (gw_ff g)) ->
  repr (gw_set g b f) L c -> sim (gw_set g b f) L c S.
Proof. intros g L c S b f Hp Hr. split; [exact Hr | exact Hp]. Qed.

Lemma skipn_app_nat : forall (A : Type) (n : nat) (l1 l2 : list A),
  skipn n (l1 ++ l2) = skipn n l1 ++ skipn (n - length l1) l2.
Proof. intros. apply skipn_app. Qed.

(* the last OR of WriteBits after E bits of (X0 ++ B) have been flushed *)
Lemma sim_final_or : forall g X0 B (E : nat) S,
  sim g (skipn E (X0 ++ B)) (32 - Z.of_nat E) S ->
  Z.of_nat (length X0) <= 32 -> Z.of_nat (length B) <= 32 -> Z.of_nat E <= 32 -> 0 <= gw_free g ->
  let g' := gw_set g (Z.lor (gw_buf g) (wrapU 32 (Z.shiftl (bval B) (gw_free g)))) (gw_free g) in
  let L' := skipn E (X0 ++ B) in
  sim g' L' (Z.of_nat (length L')) S /\ Z.of_nat (length L') <= 32.
Proof.
  intros g X0 B E S [Hrep Hpack] HX0 HB HE Hfree0 g' L'.
  pose proof Hrep as (Hfree & _).
  assert (HL'len : Z.of_nat (length L') <= 32) by (unfold L'; lia).
  split; [|exact HL'len].
  unfold L' in *. rewrite skipn_app_nat in *.
  set (X := skipn E X0) in *. set (B' := skipn (E - length X0) B) in *.
  set (Bh := firstn (E - length X0) B).
  assert (HB_split : B = Bh ++ B') by (unfold Bh, B'; symmetry; apply firstn_skipn).
  assert (HlenX : length X = (length X0 - E)%nat) by (unfold X; apply skipn_length).
  assert (HBh : Bh <> [] -> X = []).
  { intro Hne. unfold X. apply skipn_all2.
    destruct (le_lt_dec (length X0) E) as [Hle|Hlt]; [exact Hle|].
    exfalso. apply Hne. unfold Bh. replace (E - length X0)%nat with O by lia. reflexivity. }
  apply sim_gw_set; [exact Hpack|]. unfold g'. rewrite HB_split at 1.
  apply (repr_or_final g X Bh B' (32 - Z.of_nat E)); try assumption; try lia.
  - rewrite <- app_length. lia.
  - rewrite <- HB_split. exact HB.
Qed.

Lemma bits_of_len : forall v n, 0 <= n -> Z.of_nat (length (bits_of v n)) = n.
Proof. intros. rewrite bits_of_length by assumption. lia. Qed.

Lemma sim_write : forall g L S v n,
  sim g L (Z.of_nat (length L)) S -> Z.of_nat (length L) <= 32 -> 0 <= n <= 32 -> 0 <= v < 2 ^ n ->
  exists L', Z.of_nat (length L') <= 32 /\
             sim (gw_write_bits v n g) L' (Z.of_nat (length L')) (S ++ bits_of v n).
Proof.
  intros g L S v n [Hrep Hpack] HL Hn Hv.
  set (B := bits_of v n).
  assert (HlenB : Z.of_nat (length B) = n) by (apply bits_of_len; lia).
  assert (HvalB : bval B = v) by (apply bval_bits_of; lia).
  assert (Hpack' : forall tail, jls_pack_go ((S ++ B) ++ tail) 0 0 false =
                                rev (gw_out g) ++ jls_pack_go ((L ++ B) ++ tail) 0 0 (gw_ff g)).
  { intros tail. rewrite <- !app_assoc. apply Hpack. }
  destruct Hrep as (Hfree & Hc & HcL & Hbuf).
  (* the state after freeBitCount -= bitCount *)
  set (free' := gw_free g - n).
  assert (Hrep0 : repr (gw_set g (gw_buf g) free') (L ++ B) (Z.of_nat (length L))).
  { unfold repr. destruct (gw_set_out g (gw_buf g) free') as (_ & _ & Hb & Hf). rewrite Hb, Hf, app_length.
    repeat split; try lia. rewrite Hbuf, Nat2Z.id. f_equal. f_equal.
    rewrite firstn_app, Nat.sub_diag. cbn [firstn]. rewrite app_nil_r. reflexivity. }
  unfold gw_write_bits. fold free'.
  destruct (Z.geb_spec free' 0) as [Hfit|Hover].
  - (* the bits fit *)
    exists (L ++ B). split; [rewrite app_length; lia|].
    apply sim_gw_set; [exact Hpack'|].
    pose proof (repr_or_final (gw_set g (gw_buf g) free') L [] B (Z.of_nat (length L)) Hrep0 ltac:(lia)
                  ltac:(lia) ltac:(intro Hcontra; contradiction) ltac:(cbn [app]; lia)) as Hr.
    cbn [app] in Hr. rewrite HvalB in Hr.
    destruct (gw_set_out g (gw_buf g) free') as (_ & _ & Hb & Hf). rewrite Hb, Hf in Hr. exact Hr.
  - (* overflow: OR what fits, flush, maybe once more, OR the rest *)
    assert (Hr1 : repr (gw_set g (Z.lor (gw_buf g) (Z.shiftr v (- free'))) free') (L ++ B) 32).
    { pose proof (repr_or_over (gw_set g (gw_buf g) free') L B (Z.of_nat (length L)) Hrep0 ltac:(lia)
                    ltac:(lia) ltac:(lia) ltac:(lia)) as Hr.
      rewrite HvalB in Hr.
      destruct (gw_set_out g (gw_buf g) free') as (_ & _ & Hb & Hf). rewrite Hb, Hf in Hr. exact Hr. }
    assert (Hs1 : sim (gw_set g (Z.lor (gw_buf g) (Z.shiftr v (- free'))) free') (L ++ B) 32 (S ++ B))
      by (apply sim_gw_set; [exact Hpack' | exact Hr1]).
    destruct (sim_flush_n_full 4 _ _ _ _ Hs1 ltac:(simpl; lia) ltac:(rewrite app_length; simpl; lia))
      as (E1 & HE1 & HsE1 & HfE1).
    fold (gw_flush (gw_set g (Z.lor (gw_buf g) (Z.shiftr v (- free'))) free')) in HsE1, HfE1.
    set (g1 := gw_flush (gw_set g (Z.lor (gw_buf g) (Z.shiftr v (- free'))) free')) in *.
    destruct (gw_set_out g (Z.lor (gw_buf g) (Z.shiftr v (- free'))) free') as (_ & _ & _ & Hf0).
    rewrite Hf0 in HfE1. change (Z.of_nat 4) with 4 in HE1.
    destruct (Z.ltb_spec (gw_free g1) 0) as [Hneg|Hnonneg].
    + (* second flush *)
      assert (HE1L : (E1 < length L)%nat) by lia.
      pose proof HsE1 as [Hrep1 Hpack1].
      rewrite skipn_app_nat in Hrep1, Hpack1. replace (E1 - length L)%nat with O in Hrep1, Hpack1 by lia.
      cbn [skipn] in Hrep1, Hpack1.
      set (X2 := skipn E1 L) in *.
      assert (HlenX2 : length X2 = (length L - E1)%nat) by (unfold X2; apply skipn_length).
      assert (Hr2 : repr (gw_set g1 (Z.lor (gw_buf g1) (Z.shiftr v (- gw_free g1))) (gw_free g1)) (X2 ++ B) 32).
      { pose proof (repr_or_over g1 X2 B (32 - Z.of_nat E1) Hrep1 ltac:(lia) ltac:(lia) ltac:(lia) ltac:(lia)) as Hr.
        rewrite HvalB in Hr. exact Hr. }
      assert (Hs2 : sim (gw_set g1 (Z.lor (gw_buf g1) (Z.shiftr v (- gw_free g1))) (gw_free g1)) (X2 ++ B) 32 (S ++ B))
        by (apply sim_gw_set; [exact Hpack1 | exact Hr2]).
      destruct (sim_flush_n_full 4 _ _ _ _ Hs2 ltac:(simpl; lia) ltac:(rewrite app_length; simpl; lia))
        as (E2 & HE2 & HsE2 & HfE2).
      fold (gw_flush (gw_set g1 (Z.lor (gw_buf g1) (Z.shiftr v (- gw_free g1))) (gw_free g1))) in HsE2, HfE2.
      set (g2 := gw_flush (gw_set g1 (Z.lor (gw_buf g1) (Z.shiftr v (- gw_free g1))) (gw_free g1))) in *.
      destruct (gw_set_out g1 (Z.lor (gw_buf g1) (Z.shiftr v (- gw_free g1))) (gw_free g1)) as (_ & _ & _ & Hf1).
      rewrite Hf1 in HfE2. change (Z.of_nat 4) with 4 in HE2.
      destruct (sim_final_or g2 X2 B E2 (S ++ B) HsE2 ltac:(lia) ltac:(lia) ltac:(lia) ltac:(lia)) as [Hfin Hlen].
      rewrite HvalB in Hfin. eexists. split; [exact Hlen | exact Hfin].
    + destruct (sim_final_or g1 L B E1 (S ++ B) HsE1 ltac:(lia) ltac:(lia) ltac:(lia) ltac:(lia)) as [Hfin Hlen].
      rewrite HvalB in Hfin. eexists. split; [exact Hlen | exact Hfin].
Qed.

(* ---------- Flush ---------- *)

(* everything is out; a zero byte is still owed if the last byte was 0xFF *)
Definition drained (g : gwst) (S : list bool) : Prop :=
  gw_buf g = 0 /\ 32 <= gw_free g /\ (gw_ff g = true -> gw_free g = 32) /\
  jls_pack S = rev (gw_out g) ++ (if gw_ff g then [0] else []).

Lemma sim_nil_drained : forall g S, sim g [] 0 S -> drained g S.
Proof.
  intros g S [(Hfree & _ & _ & Hbuf) Hpack]. cbn [length firstn Z.to_nat] in *.
  unfold drained. repeat split.
  - rewrite Hbuf. cbn [firstn]. rewrite bval_nil. reflexivity.
  - cbn in Hfree. lia.
  - intros _. cbn in Hfree. lia.
  - specialize (Hpack []). rewrite app_nil_r in Hpack. unfold jls_pack. rewrite Hpack. cbn [app jls_pack_go].
    reflexivity.
Qed.

Lemma flush_n_drained : forall n g S, drained g S ->
  drained (gw_flush_n n g) S /\ gw_out (gw_flush_n n g) = gw_out g /\ gw_ff (gw_flush_n n g) = gw_ff g.
Proof.
  intros n g S (Hb & Hf & Hff & Hp). destruct n as [|n]; cbn [gw_flush_n].
  - repeat split; assumption.
  - destruct (Z.geb_spec (gw_free g) 32); [|lia]. unfold drained. cbn. repeat split; try assumption; try lia.
Qed.

(* flush of a last, incomplete byte (at rest, fewer pending bits than the byte takes) *)
Lemma flush_byte_partial : forall g L S,
  sim g L (Z.of_nat (length L)) S -> 0 < Z.of_nat (length L) < Wd (gw_ff g) ->
  drained (gw_flush_byte g) S /\ gw_ff (gw_flush_byte g) = false.
Proof.
  intros g L S [(Hfree & Hc & _ & Hbuf) Hpack] Hl.
  rewrite Nat2Z.id, firstn_all in Hbuf.
  set (l := Z.of_nat (length L)) in *. set (W := Wd (gw_ff g)) in *.
  assert (HWv : W = 7 \/ W = 8) by (unfold W; destruct (gw_ff g); simpl; auto).
  pose proof (bval_range L) as RL. fold l in RL.
  assert (P0 : 0 < 2 ^ (W - l)) by (apply Z.pow_pos_nonneg; lia).
  assert (Hp : 2 ^ (32 - l) = 2 ^ (W - l) * 2 ^ (32 - W)) by (rewrite <- Z.pow_add_r by lia; f_equal; lia).
  assert (P1 : 0 < 2 ^ (32 - W)) by (apply Z.pow_pos_nonneg; lia).
  assert (Hdiv : gw_buf g / 2 ^ (32 - W) = bval L * 2 ^ (W - l)).
  { rewrite Hbuf, Hp, Z.mul_assoc. apply Z.div_mul. lia. }
  assert (Hbyte_lt : 0 <= bval L * 2 ^ (W - l) < 2 ^ W).
  { assert (2 ^ l * 2 ^ (W - l) = 2 ^ W) by (rewrite <- Z.pow_add_r by lia; f_equal; lia). nia. }
  assert (Hwrap : wrapU 8 (bval L * 2 ^ (W - l)) = bval L * 2 ^ (W - l)).
  { unfold wrapU. apply Z.mod_small. change (2 ^ 8) with 256.
    assert (2 ^ W <= 256) by (destruct HWv as [E|E]; rewrite E; [change (2 ^ 7) with 128 | change (2 ^ 8) with 256]; lia).
    lia. }
  assert (Hne : (bval L * 2 ^ (W - l) =? 255) = false).
  { apply Z.eqb_neq. destruct HWv as [E|E].
    - assert (2 ^ W = 128) by (rewrite E; reflexivity). lia.
    - replace (2 ^ (W - l)) with (2 * 2 ^ (W - l - 1)) by (rewrite <- Z.pow_succ_r by lia; f_equal; lia).
      intro Eq. assert (Z.odd 255 = Z.odd (2 * (bval L * 2 ^ (W - l - 1)))) by (f_equal; lia).
      rewrite Z.odd_mul in H. simpl in H. discriminate. }
  assert (Hshift : wrapU 32 (Z.shiftl (gw_buf g) W) = 0).
  { unfold wrapU. rewrite Z.shiftl_mul_pow2 by lia. rewrite Hbuf.
    replace (bval L * 2 ^ (32 - l) * 2 ^ W) with (bval L * 2 ^ (W - l) * 2 ^ 32).
    - apply Z.mod_mul. change (2 ^ 32) with 4294967296. lia.
    - replace (2 ^ 32) with (2 ^ (32 - W) * 2 ^ W) by (rewrite <- Z.pow_add_r by lia; f_equal; lia).
      rewrite Hp. ring. }
  assert (Hpk : jls_pack S = rev (gw_out g) ++ [bval L * 2 ^ (W - l)]).
  { specialize (Hpack []). rewrite !app_nil_r in Hpack. unfold jls_pack. rewrite Hpack. f_equal.
    rewrite (pack_go_partial_gen L 0 0 (gw_ff g)) by (fold W l; lia).
    fold W l. rewrite Z.mul_0_l, Z.add_0_l, Z.sub_0_r. reflexivity. }
  unfold gw_flush_byte. fold W.
  destruct (gw_ff g) eqn:Eff.
  - change (Z.shiftr (gw_buf g) 25) with (Z.shiftr (gw_buf g) (32 - W)).
    change (Z.shiftl (gw_buf g) 7) with (Z.shiftl (gw_buf g) W).
    rewrite Z.shiftr_div_pow2 by lia. rewrite Hdiv, Hwrap, Hshift, Hne.
    split; [|reflexivity]. unfold drained. cbn [gw_buf gw_free gw_ff gw_out rev].
    assert (W = 7) by reflexivity.
    repeat split; try lia; try discriminate. rewrite Hpk, app_nil_r. reflexivity.
  - change (Z.shiftr (gw_buf g) 24) with (Z.shiftr (gw_buf g) (32 - W)).
    change (Z.shiftl (gw_buf g) 8) with (Z.shiftl (gw_buf g) W).
    rewrite Z.shiftr_div_pow2 by lia. rewrite Hdiv, Hwrap, Hshift, Hne.
    split; [|reflexivity]. unfold drained. cbn [gw_buf gw_free gw_ff gw_out rev].
    assert (W = 8) by reflexivity.
    repeat split; try lia; try discriminate. rewrite Hpk, app_nil_r. reflexivity.
Qed.

Lemma gw_flush_n_S : forall n g,
  gw_flush_n (S n) g = if gw_free g >=? 32 then mkGw (gw_buf g) 32 (gw_ff g) (gw_out g)
                       else gw_flush_n n (gw_flush_byte g).
Proof. reflexivity. Qed.

(* flush() on a state at rest: either whole bytes only (still `sim`), or it ended with a padded
   partial byte (drained, last byte not 0xFF) *)
Lemma flush_rest_n : forall n g L S,
  sim g L (Z.of_nat (length L)) S -> Z.of_nat (length L) <= 32 ->
  (exists L', sim (gw_flush_n n g) L' (Z.of_nat (length L')) S /\
              Z.of_nat (length L') <= Z.max 0 (Z.of_nat (length L) - 7 * Z.of_nat n) /\
              (length L' <= length L)%nat) \/
  (drained (gw_flush_n n g) S /\ gw_ff (gw_flush_n n g) = false).
Proof.
  induction n as [|n IH]; intros g L S Hsim HL.
  - left. exists L. cbn [gw_flush_n]. split; [exact Hsim|]. split; lia.
  - cbn [gw_flush_n]. pose proof Hsim as [(Hfree & _) _].
    destruct (Z.geb_spec (gw_free g) 32) as [Hge|Hlt].
    + (* nothing pending: normalise *)
      assert (HLn : L = []) by (destruct L; [reflexivity | cbn [length] in Hfree; lia]).
      subst L. left. exists []. split; [|cbn; lia].
      destruct Hsim as [(Hf & Hc & HcL & Hb) Hp]. split; [|exact Hp].
      unfold repr. cbn. cbn in Hb. repeat split; try lia; try exact Hb.
    + destruct (Z.le_gt_cases (Wd (gw_ff g)) (Z.of_nat (length L))) as [Hfull|Hpart].
      * destruct (sim_flush_byte g L _ S Hsim Hfull) as [Hs1 Hf1].
        assert (Hl1 : Z.of_nat (length (skipn (Z.to_nat (Wd (gw_ff g))) L)) = Z.of_nat (length L) - Wd (gw_ff g)).
        { rewrite skipn_length. destruct (Wd_cases (gw_ff g)) as [[E _]|[E _]]; rewrite E in *; lia. }
        rewrite <- Hl1 in Hs1.
        destruct (IH _ _ _ Hs1 ltac:(destruct (Wd_cases (gw_ff g)) as [[E _]|[E _]]; rewrite E in *; lia))
          as [(L' & HsL' & Hlen' & Hle')|Hdr].
        -- left. exists L'. split; [exact HsL'|]. rewrite skipn_length in Hle'.
           destruct (Wd_cases (gw_ff g)) as [[E _]|[E _]]; rewrite E in *; split; lia.
        -- right. exact Hdr.
      * destruct (flush_byte_partial g L S Hsim ltac:(lia)) as [Hd Hff].
        destruct (flush_n_drained n _ S Hd) as (Hd' & _ & Hff').
        right. split; [exact Hd' | rewrite Hff'; exact Hff].
Qed.

(* WriteBits when the bits fit: the state stays at rest with the bits appended *)
Lemma write_fit : forall g L S v n,
  sim g L (Z.of_nat (length L)) S -> 0 <= n -> 0 <= v < 2 ^ n -> Z.of_nat (length L) + n <= 32 ->
  repr (gw_write_bits v n g) (L ++ bits_of v n) (Z.of_nat (length (L ++ bits_of v n))) /\
  gw_out (gw_write_bits v n g) = gw_out g /\ gw_ff (gw_write_bits v n g) = gw_ff g.
Proof.
  intros g L S v n [Hrep Hpack] Hn Hv Hfit.
  set (B := bits_of v n).
  assert (HlenB : Z.of_nat (length B) = n) by (apply bits_of_len; lia).
  assert (HvalB : bval B = v) by (apply bval_bits_of; lia).
  destruct Hrep as (Hfree & Hc & HcL & Hbuf).
  set (free' := gw_free g - n).
  assert (Hrep0 : repr (gw_set g (gw_buf g) free') (L ++ B) (Z.of_nat (length L))).
  { unfold repr. destruct (gw_set_out g (gw_buf g) free') as (_ & _ & Hb & Hf). rewrite Hb, Hf, app_length.
    repeat split; try lia. rewrite Hbuf, Nat2Z.id. f_equal. f_equal.
    rewrite firstn_app, Nat.sub_diag. cbn [firstn]. rewrite app_nil_r. reflexivity. }
  unfold gw_write_bits. fold free'. destruct (Z.geb_spec free' 0); [|unfold free' in *; lia].
  destruct (gw_set_out g (Z.lor (gw_buf g) (wrapU 32 (Z.shiftl v free'))) free') as (Ho & Hff & _ & _).
  split; [|split; assumption].
  pose proof (repr_or_final (gw_set g (gw_buf g) free') L [] B (Z.of_nat (length L)) Hrep0 ltac:(lia)
                ltac:(lia) ltac:(intro Hcontra; contradiction) ltac:(cbn [app]; lia)) as Hr.
  cbn [app] in Hr. rewrite HvalB in Hr.
  destruct (gw_set_out g (gw_buf g) free') as (_ & _ & Hb & Hf). rewrite Hb, Hf in Hr. exact Hr.
Qed.

Lemma bval_zeros : forall k, bval (repeat false k) = 0.
Proof.
  induction k as [|k IH]; [reflexivity|]. cbn [repeat]. rewrite bval_cons, IH. simpl b2z. lia.
Qed.

(* Flush(): all pending bits go out, padded; a zero byte follows a final 0xFF *)
Lemma gw_Flush_spec : forall g L S,
  sim g L (Z.of_nat (length L)) S -> Z.of_nat (length L) <= 32 ->
  rev (gw_out (gw_Flush g)) = jls_pack S.
Proof.
  intros g L S Hsim HL. unfold gw_Flush.
  destruct (flush_rest_n 4 g L S Hsim HL) as [(L1 & Hs1 & Hlen1 & _)|[Hd1 Hff1]].
  - fold (gw_flush g) in *. set (g1 := gw_flush g) in *. change (Z.of_nat 4) with 4 in Hlen1.
    assert (Hl4 : Z.of_nat (length L1) <= 4) by lia.
    destruct (gw_ff g1) eqn:Eff.
    + (* last byte 0xFF: pad to 7 bits, one more byte *)
      pose proof Hs1 as [(Hfree1 & _) Hpack1].
      assert (Hpad : Z.rem (gw_free g1 - 1) 8 = 7 - Z.of_nat (length L1)).
      { rewrite Hfree1. assert (Hc : Z.of_nat (length L1) = 0 \/ Z.of_nat (length L1) = 1 \/ Z.of_nat (length L1) = 2 \/
                                     Z.of_nat (length L1) = 3 \/ Z.of_nat (length L1) = 4) by lia.
        destruct Hc as [E|[E|[E|[E|E]]]]; rewrite E; reflexivity. }
      rewrite Hpad.
      destruct (write_fit g1 L1 S 0 (7 - Z.of_nat (length L1)) Hs1 ltac:(lia)
                  ltac:(split; [lia | apply Z.pow_pos_nonneg; lia]) ltac:(lia)) as (Hr2 & Ho2 & Hff2).
      set (g2 := gw_write_bits 0 (7 - Z.of_nat (length L1)) g1) in *.
      set (L2 := L1 ++ bits_of 0 (7 - Z.of_nat (length L1))) in *.
      assert (HlenL2 : Z.of_nat (length L2) = 7).
      { unfold L2. rewrite app_length, Nat2Z.inj_add, bits_of_len by lia. lia. }
      (* view g2 as a state at rest for the bit sequence S ++ padding *)
      assert (Hs2 : sim g2 L2 (Z.of_nat (length L2)) (S ++ bits_of 0 (7 - Z.of_nat (length L1)))).
      { split; [exact Hr2|]. intros tail. rewrite Ho2, Hff2. unfold L2. rewrite <- !app_assoc. apply Hpack1. }
      (* first iteration: one whole 7-bit byte *)
      unfold gw_flush. cbn [gw_flush_n].
      pose proof Hr2 as (Hfree2 & _).
      destruct (Z.geb_spec (gw_free g2) 32); [lia|].
      rewrite <- HlenL2 in Hs2 at 1.
      destruct (sim_flush_byte g2 L2 _ _ Hs2 ltac:(rewrite Hff2, Eff; simpl; lia)) as [Hs3 Hf3].
      rewrite Hff2, Eff in Hs3, Hf3. simpl Wd in Hs3, Hf3. change (Z.to_nat 7) with 7%nat in Hs3.
      assert (Hsk : skipn 7 L2 = []) by (apply skipn_all2; lia).
      rewrite Hsk in Hs3. rewrite HlenL2 in Hs3. change (7 - 7) with 0 in Hs3.
      (* second iteration: free = 32 -> stop *)
      pose proof Hs3 as [(Hfree3 & _) _]. cbn [length] in Hfree3.
      destruct (Z.geb_spec (gw_free (gw_flush_byte g2)) 32); [|lia].
      cbn [gw_out].
      (* the bytes *)
      unfold gw_flush_byte. rewrite Hff2, Eff. cbn [gw_out rev].
      rewrite Ho2.
      specialize (Hpack1 []). rewrite !app_nil_r in Hpack1. unfold jls_pack. rewrite Hpack1, Eff. f_equal.
      (* the byte is the padded L1 (or 0 when nothing was pending) *)
      pose proof Hr2 as (_ & _ & _ & Hbuf2). rewrite HlenL2 in Hbuf2. change (Z.to_nat 7) with 7%nat in Hbuf2.
      rewrite firstn_all2 in Hbuf2 by lia.
      assert (Hb7 : wrapU 8 (Z.shiftr (gw_buf g2) 25) = bval L2).
      { rewrite Hbuf2, Z.shiftr_div_pow2 by lia. change (32 - 7) with 25. rewrite Z.div_mul by (change (2 ^ 25) with 33554432; lia).
        unfold wrapU. apply Z.mod_small. pose proof (bval_range L2) as R. rewrite HlenL2 in R.
        change (2 ^ 7) with 128 in R. change (2 ^ 8) with 256. lia. }
      rewrite Hb7. unfold L2. rewrite bval_app, bits_of_zero, repeat_length, bval_zeros.
      rewrite Z2Nat.id by lia. rewrite Z.add_0_r.
      destruct L1 as [|b1 r1].
      * cbn [jls_pack_go length]. rewrite bval_nil. reflexivity.
      * rewrite (pack_go_partial_gen (b1 :: r1) 0 0 true) by (simpl Wd; cbn [length] in *; lia).
        simpl Wd. rewrite Z.mul_0_l, Z.add_0_l, Z.sub_0_r. reflexivity.
    + (* no pending 0xFF: second flush *)
      fold (gw_flush g1).
      destruct (flush_rest_n 4 g1 L1 S Hs1 ltac:(lia)) as [(L2 & Hs2 & Hlen2 & Hle2)|[Hd2 Hff2]].
      * fold (gw_flush g1) in *. change (Z.of_nat 4) with 4 in Hlen2.
        assert (HL2 : L2 = []) by (destruct L2; [reflexivity | cbn [length] in Hlen2; lia]).
        subst L2. destruct (sim_nil_drained _ _ Hs2) as (_ & _ & _ & Hp).
        (* the flag cannot be set: the bytes of this flush come from at most 4 bits *)
        destruct (gw_ff (gw_flush g1)) eqn:Eff2.
        -- exfalso.
           (* L1 has at most 4 bits, so flush emitted at most one padded byte, never 0xFF *)
           unfold gw_flush in Eff2. rewrite gw_flush_n_S in Eff2.
           pose proof Hs1 as [(Hfree1 & _) _].
           destruct (Z.geb_spec (gw_free g1) 32).
           ++ cbn [gw_ff] in Eff2. rewrite Eff in Eff2. discriminate.
           ++ destruct (flush_byte_partial g1 L1 S Hs1 ltac:(rewrite Eff; simpl; lia)) as [Hd Hffb].
              destruct (flush_n_drained 3 _ S Hd) as (_ & _ & Hff3). rewrite Hff3, Hffb in Eff2. discriminate.
        -- rewrite app_nil_r in Hp. symmetry. exact Hp.
      * destruct Hd2 as (_ & _ & _ & Hp). rewrite Hff2, app_nil_r in Hp. symmetry. exact Hp.
  - (* the first flush already ended with a padded byte *)
    fold (gw_flush g) in *. rewrite Hff1.
    destruct (flush_n_drained 4 _ S Hd1) as ((_ & _ & _ & Hp) & Ho & Hff).
    fold (gw_flush (gw_flush g)) in *. rewrite Hff, Hff1, app_nil_r in Hp. symmetry. exact Hp.
Qed.

(* ---------- the theorem ---------- *)

Lemma gw_run_ops_sim : forall ops g L S,
  Forall wop_ok ops -> sim g L (Z.of_nat (length L)) S -> Z.of_nat (length L) <= 32 ->
  exists L', Z.of_nat (length L') <= 32 /\
             sim (gw_run_ops ops g) L' (Z.of_nat (length L')) (S ++ ops_bits ops).
Proof.
  induction ops as [|[v n] ops IH]; intros g L S Hok Hsim HL.
  - exists L. cbn [gw_run_ops ops_bits]. rewrite app_nil_r. split; assumption.
  - inversion Hok as [|? ? [Hn Hv] Hok']; subst. cbn [fst snd] in Hn, Hv.
    destruct (sim_write g L S v n Hsim HL Hn Hv) as (L1 & HL1 & Hs1).
    destruct (IH _ _ _ Hok' Hs1 HL1) as (L2 & HL2 & Hs2).
    exists L2. split; [exact HL2|]. cbn [gw_run_ops ops_bits]. rewrite app_assoc. exact Hs2.
Qed.

(* gw_run_pack: the GolombWriter as coded produces the bit-list packing of what was written *)
Theorem gw_run_pack : forall ops, Forall wop_ok ops -> gw_run ops = jls_pack (ops_bits ops).
Proof.
  intros ops Hok. unfold gw_run.
  assert (Hinit : sim gw_init [] (Z.of_nat (length (@nil bool))) []).
  { split.
    - unfold repr, gw_init. cbn. repeat split; lia.
    - intros tail. reflexivity. }
  destruct (gw_run_ops_sim ops gw_init [] [] Hok Hinit ltac:(cbn; lia)) as (L & HL & Hs).
  cbn [app] in Hs. unfold frev. rewrite <- rev_alt. apply (gw_Flush_spec _ L); assumption.
Qed.

(* ---------- the write ops of EncodeMappedValue are well formed ---------- *)

Lemma wop_ok_zeros : forall n, 0 <= n <= 93 -> Forall wop_ok (write_zeros_ops n).
Proof.
  intros n Hn. unfold write_zeros_ops.
  repeat match goal with |- context [?a <=? ?b] => destruct (Z.leb_spec a b) end;
    repeat constructor; unfold wop_ok; cbn [fst snd]; try lia; apply Z.pow_pos_nonneg; lia.
Qed.

Lemma wop_ok_unary : forall n, 0 <= n <= 31 -> Forall wop_ok (write_unary_ops n).
Proof.
  intros n Hn. unfold write_unary_ops. repeat constructor; unfold wop_ok; cbn [fst snd]; try lia.
  assert (2 ^ 1 <= 2 ^ (n + 1)) by (apply Z.pow_le_mono_r; lia). change (2 ^ 1) with 2 in *. lia.
Qed.

Lemma encode_mapped_ops_ok : forall k m limit qbpp,
  0 <= k <= 32 -> 0 <= m -> 1 <= qbpp <= 32 -> qbpp < limit <= 64 ->
  Forall wop_ok (encode_mapped_ops k m limit qbpp).
Proof.
  intros k m limit qbpp Hk Hm Hq Hl. unfold encode_mapped_ops. cbv zeta.
  rewrite Z.shiftr_div_pow2 by lia.
  assert (Hpk : 0 < 2 ^ k) by (apply Z.pow_pos_nonneg; lia).
  assert (Hhigh : 0 <= m / 2 ^ k) by (apply Z.div_pos; lia).
  destruct (Z.ltb_spec (m / 2 ^ k) (limit - (qbpp + 1))) as [Hlt|Hge].
  - apply Forall_app. split; [|apply Forall_app; split].
    + destruct (Z.gtb_spec (m / 2 ^ k + 1) 31); [|constructor].
      apply wop_ok_zeros. rewrite Z.quot_div_nonneg by lia. Z.div_mod_to_equations. lia.
    + apply wop_ok_unary. destruct (Z.gtb_spec (m / 2 ^ k + 1) 31); [|lia].
      rewrite Z.quot_div_nonneg by lia. Z.div_mod_to_equations. lia.
    + destruct (Z.gtb_spec k 0); [|constructor]. constructor; [|constructor]. unfold wop_ok. cbn [fst snd].
      split; [lia|]. rewrite Z.shiftl_1_l. replace (2 ^ k - 1) with (Z.ones k) by (rewrite Z.ones_equiv; lia).
      rewrite Z.land_ones by lia. pose proof (Z.mod_pos_bound m (2 ^ k) Hpk).
      assert (2 ^ k <= 2 ^ 32) by (apply Z.pow_le_mono_r; lia).
      unfold wrapU. rewrite Z.mod_small by lia. lia.
  - apply Forall_app. split.
    + destruct (Z.gtb_spec (limit - qbpp) 31).
      * apply Forall_app. split; [apply wop_ok_zeros; lia | apply wop_ok_unary; lia].
      * apply wop_ok_unary. lia.
    + constructor; [|constructor]. unfold wop_ok. cbn [fst snd]. split; [lia|].
      assert (Hpq : 0 < 2 ^ qbpp) by (apply Z.pow_pos_nonneg; lia).
      rewrite Z.shiftl_1_l. replace (2 ^ qbpp - 1) with (Z.ones qbpp) by (rewrite Z.ones_equiv; lia).
      rewrite Z.land_ones by lia. pose proof (Z.mod_pos_bound (m - 1) (2 ^ qbpp) Hpq).
      assert (2 ^ qbpp <= 2 ^ 32) by (apply Z.pow_le_mono_r; lia).
      unfold wrapU. rewrite Z.mod_small by lia. lia.
Qed.
