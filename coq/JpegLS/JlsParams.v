(* EXTRACT *)
(* JPEG-LS coding parameters.
   Part 1: jpegls/lossless/context.go  ComputeCodingParameters / computeThresholds / clamp /
           bitsLen and traits.go NewTraits, as coded.
   Part 2: the same quantities written from ITU-T T.87 (A.2.1 RANGE/qbpp/bpp/LIMIT,
           C.2.4.1.1 default thresholds with the standard's CLAMP functions), independently. *)
From V Require Import Common.Base.

(* ---------- Part 1: as coded ---------- *)

(* func bitsLen(n int) int : n <= 1 -> 1 ; else n-- ; count shifts until 0 *)
Fixpoint bitsLen_loop (fuel : nat) (n len : Z) : Z :=
  match fuel with
  | O => len
  | S f => if n >? 0 then bitsLen_loop f (Z.shiftr n 1) (len + 1) else len
  end.
Definition bitsLen (n : Z) : Z := if n <=? 1 then 1 else bitsLen_loop 64 (n - 1) 0.

(* func clamp(v, lo, hi) : if v < lo || v > hi { return lo } ; return v
   (until commit 44f34f1 the v > hi case returned hi: finding F07, P = 8 NEAR = 34 gave T3 = 255
   where T.87 has 177) *)
Definition go_clamp (v lo hi : Z) : Z := if (v <? lo) || (v >? hi) then lo else v.

(* func computeThresholds(maxVal, near). The divisions have non-negative operands for every
   maxVal >= 0; maxVal + 1 = 0 (precision byte >= 64 in the decoders) is a Go division by zero
   that the decoders' models check before calling this. *)
Definition computeThresholds (maxVal near : Z) : Z * Z * Z :=
  if maxVal >=? 128 then
    let factor := Z.quot (Z.min maxVal 4095 + 128) 256 in
    let t1 := go_clamp (factor * (3 - 2) + 2 + 3 * near) (near + 1) maxVal in
    let t2 := go_clamp (factor * (7 - 3) + 3 + 5 * near) t1 maxVal in
    let t3 := go_clamp (factor * (21 - 4) + 4 + 7 * near) t2 maxVal in
    (t1, t2, t3)
  else
    let factor := Z.quot 256 (maxVal + 1) in
    let t1 := go_clamp (Z.max 2 (Z.quot 3 factor + 3 * near)) (near + 1) maxVal in
    let t2 := go_clamp (Z.max 3 (Z.quot 7 factor + 5 * near)) t1 maxVal in
    let t3 := go_clamp (Z.max 4 (Z.quot 21 factor + 7 * near)) t2 maxVal in
    (t1, t2, t3).

(* type Traits / CodingParameters *)
Record jparams : Type := mkJParams {
  jp_maxval : Z; jp_near : Z; jp_range : Z; jp_qbpp : Z; jp_limit : Z;
  jp_t1 : Z; jp_t2 : Z; jp_t3 : Z; jp_reset : Z
}.

(* func ComputeCodingParameters(maxVal, near, reset) ; NewTraits copies the same fields *)
Definition ComputeCodingParameters (maxVal near reset : Z) : jparams :=
  let rangeVal := if near >? 0 then Z.quot (maxVal + 2 * near) (2 * near + 1) + 1 else maxVal + 1 in
  let qbpp := bitsLen rangeVal in
  let bitsPerPixel := bitsLen maxVal in
  let limit := 2 * (bitsPerPixel + Z.max 8 bitsPerPixel) in
  let '(t1, t2, t3) := computeThresholds maxVal near in
  let reset' := if reset =? 0 then 64 else reset in
  mkJParams maxVal near rangeVal qbpp limit t1 t2 t3 reset'.

(* what both encoders use: maxVal = (1 << bitDepth) - 1, NewTraits(maxVal, near, 64) *)
Definition jls_params (P near : Z) : jparams := ComputeCodingParameters (2 ^ P - 1) near 64.

(* NewContext / NewRunModeContext : aInit = max(2, (range+32)/64) *)
Definition a_init (rangeVal : Z) : Z := Z.max 2 (Z.quot (rangeVal + 32) 64).

(* ---------- Part 2: from T.87 ---------- *)

(* smallest n >= 0 with v <= 2^n, i.e. ceil(log2 v) for v >= 1 (search, no use of bitsLen) *)
Fixpoint t87_ceil_log2_from (fuel : nat) (n v : Z) : Z :=
  match fuel with
  | O => n
  | S f => if v <=? 2 ^ n then n else t87_ceil_log2_from f (n + 1) v
  end.
Definition t87_ceil_log2 (v : Z) : Z := t87_ceil_log2_from 64 0 v.

(* A.2.1: RANGE = floor((MAXVAL + 2*NEAR) / (2*NEAR+1)) + 1 ; qbpp = ceil(log2 RANGE) ;
   bpp = max(2, ceil(log2(MAXVAL+1))) ; LIMIT = 2*(bpp + max(8, bpp)) *)
Definition t87_range (maxval near : Z) : Z := (maxval + 2 * near) / (2 * near + 1) + 1.
Definition t87_qbpp (maxval near : Z) : Z := t87_ceil_log2 (t87_range maxval near).
Definition t87_bpp (maxval : Z) : Z := Z.max 2 (t87_ceil_log2 (maxval + 1)).
Definition t87_limit (maxval : Z) : Z := 2 * (t87_bpp maxval + Z.max 8 (t87_bpp maxval)).

(* C.2.4.1.1.1, Figure C.3: CLAMP_n(i) = if (i > MAXVAL || i < j) return j else return i,
   with j = NEAR+1, T1, T2 for n = 1, 2, 3 *)
Definition t87_clamp (i j maxval : Z) : Z := if (i >? maxval) || (i <? j) then j else i.

Definition t87_thresholds (maxval near : Z) : Z * Z * Z :=
  if maxval >=? 128 then
    let factor := (Z.min maxval 4095 + 128) / 256 in
    let t1 := t87_clamp (factor * (3 - 2) + 2 + 3 * near) (near + 1) maxval in
    let t2 := t87_clamp (factor * (7 - 3) + 3 + 5 * near) t1 maxval in
    let t3 := t87_clamp (factor * (21 - 4) + 4 + 7 * near) t2 maxval in
    (t1, t2, t3)
  else
    let factor := 256 / (maxval + 1) in
    let t1 := t87_clamp (Z.max 2 (3 / factor + 3 * near)) (near + 1) maxval in
    let t2 := t87_clamp (Z.max 3 (7 / factor + 5 * near)) t1 maxval in
    let t3 := t87_clamp (Z.max 4 (21 / factor + 7 * near)) t2 maxval in
    (t1, t2, t3).

(* default parameters of a scan with precision P and NEAR, no LSE: RESET = 64 *)
Definition t87_params (P near : Z) : jparams :=
  let maxval := 2 ^ P - 1 in
  let '(t1, t2, t3) := t87_thresholds maxval near in
  mkJParams maxval near (t87_range maxval near) (t87_qbpp maxval near) (t87_limit maxval)
            t1 t2 t3 64.

(* A.2.1 / A.8 initialisation of A *)
Definition t87_a_init (rangeVal : Z) : Z := Z.max 2 ((rangeVal + 32) / 64).

Definition jparams_eqb (a b : jparams) : bool :=
  (jp_maxval a =? jp_maxval b) && (jp_near a =? jp_near b) && (jp_range a =? jp_range b) &&
  (jp_qbpp a =? jp_qbpp b) && (jp_limit a =? jp_limit b) && (jp_t1 a =? jp_t1 b) &&
  (jp_t2 a =? jp_t2 b) && (jp_t3 a =? jp_t3 b) && (jp_reset a =? jp_reset b).

(* the domain of C07/C14: 2 <= P <= 16, 0 <= NEAR <= min(255, MAXVAL/2) *)
Definition near_max (P : Z) : Z := Z.min 255 ((2 ^ P - 1) / 2).
