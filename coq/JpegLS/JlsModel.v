(* EXTRACT *)
(* Model of the JPEG-LS codecs of /repo, as coded:
     jpegls/lossless     {encoder,decoder,traits,context,predictor}.go   (pkg = PkLossless)
     jpegls/nearlossless {encoder,decoder}.go                            (pkg = PkNear)
   The two packages share golomb.go / runmode.go / context.go / traits.go (JlsGolomb, JlsRun);
   they differ in a handful of leaves (error computation, what is stored back, context lookup,
   scan extraction, where NEAR comes from) selected here by the `pkg` argument.
   jls_encode / jlsn_encode give the encoders' output bytes, jls_decode / jlsn_decode the
   decoders' results.

   Representation. The Go code indexes one flat []int; the model walks lines: `prev` is the
   previous (reconstructed) line, `cur_rev` the part of the current line already coded (most
   recent first), `pw` a window into (dummy :: prev) positioned so that pw = [prev[x-1]; prev[x];
   prev[x+1]; ...]. The edge variables prevFirstPrev/prevNeg1 (one component) and
   previousLineFirst/previousPreviousLineFirst (interleaved) are kept as coded.
   Buffers longer than width*height*components samples are accepted (the rest is ignored),
   shorter ones are refused by the encoders' guard, as in the Go code. *)
From V Require Import Common.Base JpegLS.JlsParams JpegLS.JlsGolomb JpegLS.JlsRun.

Inductive pkg : Type := PkLossless | PkNear.

(* ---------- predictor.go ---------- *)

Definition Predict (a b c : Z) : Z :=
  if c >=? Z.max a b then Z.min a b
  else if c <=? Z.min a b then Z.max a b
  else a + b - c.

(* func (g *GradientQuantizer) quantizeGradient(d) *)
Definition quantizeGradient (p : jparams) (d : Z) : Z :=
  if d <=? - jp_t3 p then -4
  else if d <=? - jp_t2 p then -3
  else if d <=? - jp_t1 p then -2
  else if d <? - jp_near p then -1
  else if d <=? jp_near p then 0
  else if d <? jp_t1 p then 1
  else if d <? jp_t2 p then 2
  else if d <? jp_t3 p then 3
  else 4.

(* ComputeContext + ComputeContextID : d1 = d-b, d2 = b-c, d3 = c-a ; (q1*9+q2)*9+q3 *)
Definition context_qs (p : jparams) (a b c d : Z) : Z :=
  (quantizeGradient p (d - b) * 9 + quantizeGradient p (b - c)) * 9 + quantizeGradient p (c - a).

Definition BitwiseSign (i : Z) : Z := if i <? 0 then -1 else 0.
Definition ApplySign (i sign : Z) : Z := Z.lxor sign i - sign.

(* ---------- context.go ---------- *)

Record rctx : Type := mkCtx { cA : Z; cB : Z; cC : Z; cN : Z }.
Definition new_ctx (rangeVal : Z) : rctx := mkCtx (a_init rangeVal) 0 0 1.

(* for (ctx.N << k) < ctx.A && k < 16 { k++ } *)
Fixpoint cgp_loop (fuel : nat) (n a k : Z) : Z :=
  match fuel with
  | O => k
  | S f => if (Z.shiftl n k <? a) && (k <? 16) then cgp_loop f n a (k + 1) else k
  end.
Definition ComputeGolombParameter (c : rctx) : Z := cgp_loop 17 (cN c) (cA c) 0.

(* func (ctx *Context) UpdateContext(errValue, nearLossless, resetThreshold) *)
Definition UpdateContext (c : rctx) (errValue near reset : Z) : rctx :=
  let ovf := 16777216 in
  let a0 := cA c + Z.abs errValue in
  let b0 := cB c + errValue * (2 * near + 1) in
  let clampit := (a0 >=? ovf) || (Z.abs b0 >=? ovf) in
  let a1 := if clampit && (a0 >=? ovf) then ovf - 1 else a0 in
  let b1 := if clampit then (if b0 >=? ovf then ovf - 1 else if b0 <=? - ovf then - ovf + 1 else b0)
            else b0 in
  let rs := cN c =? reset in
  let a2 := if rs then Z.shiftr a1 1 else a1 in
  let b2 := if rs then Z.shiftr b1 1 else b1 in
  let n2 := if rs then Z.shiftr (cN c) 1 else cN c in
  let n3 := n2 + 1 in
  if b2 + n3 <=? 0 then
    let b3 := b2 + n3 in
    mkCtx a2 (if b3 <=? - n3 then - n3 + 1 else b3) (if cC c >? -128 then cC c - 1 else cC c) n3
  else if b2 >? 0 then
    let b3 := b2 - n3 in
    mkCtx a2 (if b3 >? 0 then 0 else b3) (if cC c <? 127 then cC c + 1 else cC c) n3
  else mkCtx a2 b2 (cC c) n3.

(* func (ctx *Context) GetErrorCorrection(k, nearLossless) *)
Definition GetErrorCorrection (c : rctx) (k near : Z) : Z :=
  if negb (k =? 0) || negb (near =? 0) then 0
  else if 2 * cB c + cN c - 1 <? 0 then -1 else 0.

(* func MapErrorValue(err) = (err << 1) ^ (err >> 31) ; UnmapErrorValue(val) = (val >> 1) ^ (-(val & 1)) *)
Definition MapErrorValue (e : Z) : Z := Z.lxor (Z.shiftl e 1) (Z.shiftr e 31).
Definition UnmapErrorValue (v : Z) : Z := Z.lxor (Z.shiftr v 1) (- (Z.land v 1)).

(* ---------- traits.go ---------- *)

Definition CorrectPrediction (p : jparams) (pred : Z) : Z :=
  if pred <? 0 then 0 else if pred >? jp_maxval p then jp_maxval p else pred.

(* func (t Traits) correctPrediction(predicted) *)
Definition correctPrediction_lc (p : jparams) (v : Z) : Z :=
  if Z.land v (jp_maxval p) =? v then v else if v <? 0 then 0 else jp_maxval p.

Definition fixReconstructedValue (p : jparams) (value : Z) : Z :=
  if (jp_near p =? 0) && (Z.land (jp_maxval p + 1) (jp_maxval p) =? 0) then Z.land value (jp_maxval p)
  else
    let v := if value <? - jp_near p then value + jp_range p * (2 * jp_near p + 1)
             else if value >? jp_maxval p + jp_near p then value - jp_range p * (2 * jp_near p + 1)
             else value in
    correctPrediction_lc p v.

Definition ComputeReconstructedSample (p : jparams) (prediction errorValue : Z) : Z :=
  fixReconstructedValue p (prediction + errorValue * (2 * jp_near p + 1)).

Definition ModuloRange (p : jparams) (e : Z) : Z :=
  let e1 := if e <? 0 then e + jp_range p else e in
  if e1 >=? Z.quot (jp_range p + 1) 2 then e1 - jp_range p else e1.

Definition quantize (p : jparams) (e : Z) : Z :=
  if jp_near p =? 0 then e
  else if e >? 0 then Z.quot (e + jp_near p) (2 * jp_near p + 1)
  else Z.quot (- (jp_near p - e)) (2 * jp_near p + 1).

Definition Traits_ComputeErrorValue (p : jparams) (e : Z) : Z := ModuloRange p (quantize p e).

(* jpegls/lossless (en|de)coder.computeErrorValue: traits.ModuloRange(delta)
   (until commit 603ce05 this narrowed with int8/int16: finding F06, the 1x1 image [2049] at
   P = 12 decoded to 1) *)
Definition ll_computeErrorValue (p : jparams) (delta : Z) : Z := ModuloRange p delta.

(* the error computation of each package's encoder *)
Definition pk_error (pk : pkg) (p : jparams) (delta : Z) : Z :=
  match pk with
  | PkLossless => ll_computeErrorValue p delta
  | PkNear => Traits_ComputeErrorValue p delta
  end.

(* ---------- coder state ---------- *)

Record jstate : Type := mkJst {
  js_ctxs : list rctx;      (* 365 regular contexts *)
  js_rc0 : runctx; js_rc1 : runctx;
  js_ri : Z                 (* RunIndex *)
}.
Definition jst_init (p : jparams) : jstate :=
  mkJst (repeat (new_ctx (jp_range p)) 365) (new_runctx 0 (jp_range p)) (new_runctx 1 (jp_range p)) 0.

Fixpoint upd_nth (n : nat) (l : list rctx) (v : rctx) : list rctx :=
  match l with
  | [] => []
  | h :: t => match n with O => v :: t | S n' => h :: upd_nth n' t v end
  end.

(* context lookup. lossless: explicit bounds check that returns an error; nearlossless:
   ContextTable.GetContext falls back to contexts[0] (neither happens: |qs| <= 364). *)
Definition ctx_index (pk : pkg) (qs : Z) : option nat :=
  let idx := ApplySign qs (BitwiseSign qs) in
  if (idx <? 0) || (idx >=? 365) then
    match pk with PkLossless => None | PkNear => Some O end
  else Some (Z.to_nat idx).

(* ---------- regular mode, one sample ---------- *)

(* encoder side. Returns (write ops, updated context, value left in pixels[idx]).
   one-component lossless path: pixels[idx] keeps the source sample;
   all other paths store ComputeReconstructedSample. *)
Definition regular_enc (pk : pkg) (store_rec : bool) (p : jparams) (c : rctx)
           (qs ra rb rc x : Z) : list wop * rctx * Z :=
  let sign := BitwiseSign qs in
  let k := ComputeGolombParameter c in
  let predictedValue := CorrectPrediction p (Predict ra rb rc + ApplySign (cC c) sign) in
  let errorValue := pk_error pk p (ApplySign (x - predictedValue) sign) in
  let ec := match pk with
            | PkLossless => GetErrorCorrection c k 0
            (* encodeComponent passes k|near, encodeRegularSample passes k: the function
               returns 0 whenever near <> 0, so the two calls have the same value *)
            | PkNear => GetErrorCorrection c (Z.lor k (jp_near p)) (jp_near p)
            end in
  let mappedError := MapErrorValue (Z.lxor ec errorValue) in
  let ops := encode_mapped_ops k mappedError (jp_limit p) (jp_qbpp p) in
  let c' := UpdateContext c errorValue (jp_near p) (jp_reset p) in
  let stored := if store_rec
                then ComputeReconstructedSample p predictedValue (ApplySign errorValue sign)
                else x in
  (ops, c', stored).

(* decoder side (both packages, both paths): (sample, updated context, rest of bits) *)
Definition regular_dec (p : jparams) (c : rctx) (qs ra rb rc : Z) (bits : list bool)
  : option (Z * rctx * list bool) :=
  let sign := BitwiseSign qs in
  let k := ComputeGolombParameter c in
  let predictedValue := CorrectPrediction p (Predict ra rb rc + ApplySign (cC c) sign) in
  match decode_value k (jp_limit p) (jp_qbpp p) bits with
  | None => None
  | Some (mappedError, r) =>
    let e0 := UnmapErrorValue mappedError in
    let errorValue := if k =? 0 then Z.lxor e0 (GetErrorCorrection c k (jp_near p)) else e0 in
    let c' := UpdateContext c errorValue (jp_near p) (jp_reset p) in
    Some (ComputeReconstructedSample p predictedValue (ApplySign errorValue sign), c', r)
  end.

(* ---------- run interruption sample, one-component paths ---------- *)

(* encodeRunInterruptionPixel(x, ra, rb): (ops, rc0', rc1', reconstructed) *)
Definition interrupt_enc (pk : pkg) (p : jparams) (st : jstate) (x ra rb : Z)
  : list wop * jstate * Z :=
  if Z.abs (ra - rb) <=? jp_near p then
    let errorValue := pk_error pk p (x - ra) in
    let '(ops, c1) := EncodeRunInterruption p (js_ri st) (js_rc1 st) errorValue in
    (ops, mkJst (js_ctxs st) (js_rc0 st) c1 (js_ri st), ComputeReconstructedSample p ra errorValue)
  else
    let errorValue := pk_error pk p ((x - rb) * signInt (rb - ra)) in
    let '(ops, c0) := EncodeRunInterruption p (js_ri st) (js_rc0 st) errorValue in
    (ops, mkJst (js_ctxs st) c0 (js_rc1 st) (js_ri st),
     ComputeReconstructedSample p rb (errorValue * signInt (rb - ra))).

(* decodeRunInterruptionPixel(ra, rb). lossless passes the decoded error (after applying the
   sign for context 0) through computeErrorValue before reconstruction; nearlossless applies the sign inside. *)
Definition interrupt_dec (pk : pkg) (p : jparams) (st : jstate) (ra rb : Z) (bits : list bool)
  : option (Z * jstate * list bool) :=
  if Z.abs (ra - rb) <=? jp_near p then
    match DecodeRunInterruption p (js_ri st) (js_rc1 st) bits with
    | None => None
    | Some (e, c1, r) =>
      let st' := mkJst (js_ctxs st) (js_rc0 st) c1 (js_ri st) in
      match pk with
      | PkLossless => Some (ComputeReconstructedSample p ra (ll_computeErrorValue p e), st', r)
      | PkNear => Some (ComputeReconstructedSample p ra e, st', r)
      end
    end
  else
    match DecodeRunInterruption p (js_ri st) (js_rc0 st) bits with
    | None => None
    | Some (e, c0, r) =>
      let st' := mkJst (js_ctxs st) c0 (js_rc1 st) (js_ri st) in
      match pk with
      | PkLossless =>
        Some (ComputeReconstructedSample p rb (ll_computeErrorValue p (e * signInt (rb - ra))), st', r)
      | PkNear => Some (ComputeReconstructedSample p rb (e * signInt (rb - ra)), st', r)
      end
    end.

(* ---------- neighbours ---------- *)

Definition win0 (pw : list Z) : Z := match pw with a :: _ => a | _ => 0 end.
Definition win1 (pw : list Z) : Z := match pw with _ :: a :: _ => a | _ => 0 end.
Definition win2 (pw : list Z) : Z := match pw with _ :: _ :: a :: _ => a | _ => 0 end.

(* one-component path: the x == 0 block of encodeComponent/decodeComponent and getNeighbors
   for x > 0. left = pixels[idx-1] (x > 0). Window: win0 = prev[x-1], win1 = prev[x],
   win2 = prev[x+1]. *)
Definition neighbors1 (w y x pfp pn1 left : Z) (pw : list Z) : Z * Z * Z * Z :=
  if x =? 0 then
    let rb := if y >? 0 then pfp else 0 in
    let rd := if (y >? 0) && (w >? 1) then win2 pw else rb in
    (pfp, rb, pn1, rd)
  else
    let b := if y >? 0 then win1 pw else 0 in
    let c := if y >? 0 then win0 pw else 0 in
    let d := if y >? 0 then (if x <? w - 1 then win2 pw else b) else 0 in
    (left, b, c, d).

(* interleaved path: sampleNeighbors(pixels, x, y, comp, previousLineFirst, previousPreviousLineFirst) *)
Definition sampleNeighbors (w y x plf pplf left : Z) (c0 c1 c2 : Z) : Z * Z * Z * Z :=
  (* c0 c1 c2 = prev[x-1], prev[x], prev[min(x+1, w-1)] of this component, meaningful for y > 0 *)
  if x =? 0 then
    let above := if y >? 0 then plf else 0 in
    let aboveRight := if (y >? 0) && (w >? 1) then c2 else above in
    (plf, above, pplf, aboveRight)
  else
    let above := if y >? 0 then c1 else 0 in
    let aboveLeft := if y >? 0 then c0 else 0 in
    let aboveRight := if y >? 0 then c2 else above in
    (left, above, aboveLeft, aboveRight).

(* ---------- one-component scan ---------- *)

Definition is_run_pixel (pk : pkg) (p : jparams) (v ra : Z) : bool :=
  match pk with
  | PkLossless => v =? ra
  | PkNear => Z.abs (v - ra) <=? jp_near p
  end.

(* the run-length counting loop of doRunMode: (count as Z, count as nat, remaining input) *)
Fixpoint run_count (pk : pkg) (p : jparams) (ra : Z) (inp : list Z) (n : Z) (m : nat)
  : Z * nat * list Z :=
  match inp with
  | [] => (n, m, [])
  | v :: r => if is_run_pixel pk p v ra then run_count pk p ra r (n + 1) (S m) else (n, m, inp)
  end.

Fixpoint push_n (m : nat) (v : Z) (l : list Z) : list Z :=
  match m with O => l | S m' => push_n m' v (v :: l) end.

Definition set_ri (st : jstate) (ri : Z) : jstate := mkJst (js_ctxs st) (js_rc0 st) (js_rc1 st) ri.
Definition set_ctx (st : jstate) (i : nat) (c : rctx) : jstate :=
  mkJst (upd_nth i (js_ctxs st) c) (js_rc0 st) (js_rc1 st) (js_ri st).

(* encodeComponent, one line. inp = source samples of the line from x on.
   Result: state, current line (reversed), ops (reversed). *)
Fixpoint enc_line1 (fuel : nat) (pk : pkg) (p : jparams) (w y pfp pn1 : Z)
         (st : jstate) (x : Z) (pw : list Z) (cur_rev : list Z) (inp : list Z) (ops_rev : list wop)
  : outcome (jstate * list Z * list wop) :=
  match inp with
  | [] => Ok (st, cur_rev, ops_rev)
  | xs :: inp' =>
    match fuel with
    | O => OutOfFuel
    | S f =>
      let left := match cur_rev with l :: _ => l | [] => 0 end in
      let '(ra, rb, rc, rd) := neighbors1 w y x pfp pn1 left pw in
      let qs := context_qs p ra rb rc rd in
      if negb (qs =? 0) then
        match ctx_index pk qs with
        | None => Err
        | Some i =>
          let c := nth i (js_ctxs st) (mkCtx 0 0 0 0) in
          let '(ops, c', stored) :=
            regular_enc pk (match pk with PkLossless => false | PkNear => true end) p c qs ra rb rc xs in
          enc_line1 f pk p w y pfp pn1 (set_ctx st i c') (x + 1) (tl pw) (stored :: cur_rev) inp'
                    (rev_append ops ops_rev)
        end
      else
        (* doRunMode *)
        let '(n, m, rest) := run_count pk p ra inp 0 O in
        let endOfLine := match rest with [] => true | _ => false end in
        match EncodeRunLength (S m) n endOfLine (js_ri st) with
        | None => OutOfFuel
        | Some (rops, ri') =>
          let st1 := set_ri st ri' in
          let cur1 := push_n m ra cur_rev in
          let ops1 := rev_append rops ops_rev in
          match rest with
          | [] => Ok (st1, cur1, ops1)
          | xi :: rest' =>
            let pw1 := skipn m pw in
            let rb' := if y >? 0 then win1 pw1 else 0 in
            let '(iops, st2, recon) := interrupt_enc pk p st1 xi ra rb' in
            enc_line1 f pk p w y pfp pn1 (set_ri st2 (dec_run_index (js_ri st2))) (x + n + 1)
                      (tl pw1) (recon :: cur1) rest' (rev_append iops ops1)
          end
        end
    end
  end.

(* decodeComponent, one line *)
Fixpoint dec_line1 (fuel : nat) (pk : pkg) (p : jparams) (w y pfp pn1 : Z)
         (st : jstate) (x : Z) (pw : list Z) (cur_rev : list Z) (bits : list bool)
  : outcome (jstate * list Z * list bool) :=
  if x >=? w then Ok (st, cur_rev, bits) else
  match fuel with
  | O => OutOfFuel
  | S f =>
    let left := match cur_rev with l :: _ => l | [] => 0 end in
    let '(ra, rb, rc, rd) := neighbors1 w y x pfp pn1 left pw in
    let qs := context_qs p ra rb rc rd in
    if negb (qs =? 0) then
      match ctx_index pk qs with
      | None => Err
      | Some i =>
        let c := nth i (js_ctxs st) (mkCtx 0 0 0 0) in
        match regular_dec p c qs ra rb rc bits with
        | None => Err
        | Some (v, c', r) =>
          dec_line1 f pk p w y pfp pn1 (set_ctx st i c') (x + 1) (tl pw) (v :: cur_rev) r
        end
      end
    else
      match DecodeRunLength bits (w - x) (js_ri st) with
      | None => Err
      | Some (n, ri', r) =>
        let m := Z.to_nat n in
        let st1 := set_ri st ri' in
        let cur1 := push_n m ra cur_rev in
        if n >=? w - x then Ok (st1, cur1, r)
        else
          let pw1 := skipn m pw in
          let rb' := if y >? 0 then win1 pw1 else 0 in
          match interrupt_dec pk p st1 ra rb' r with
          | None => Err
          | Some (recon, st2, r') =>
            dec_line1 f pk p w y pfp pn1 (set_ri st2 (dec_run_index (js_ri st2))) (x + n + 1)
                      (tl pw1) (recon :: cur1) r'
          end
      end
  end.

(* first element of a line (pixels[firstIdx]) *)
Definition line_first (l : list Z) : Z := match l with a :: _ => a | [] => 0 end.

(* the y loop of encodeComponent. pix = source samples from line y on. *)
Fixpoint enc_lines1 (hfuel : nat) (pk : pkg) (p : jparams) (w : Z) (wn : nat) (y pfp pn1 : Z)
         (st : jstate) (prev : list Z) (pix : list Z) (ops_rev : list wop)
  : outcome (list wop) :=
  match hfuel with
  | O => Ok ops_rev
  | S hf =>
    match enc_line1 (S wn) pk p w y pfp pn1 st 0 (0 :: prev) [] (firstn wn pix) ops_rev with
    | Ok (st', cur_rev, ops') =>
      let cur := frev cur_rev in
      enc_lines1 hf pk p w wn (y + 1) (line_first cur) pfp st' cur (skipn wn pix) ops'
    | Err => Err | Panic => Panic | OutOfFuel => OutOfFuel
    end
  end.

(* the y loop of decodeComponent: all decoded lines, first line first, each as a list *)
Fixpoint dec_lines1 (hfuel : nat) (pk : pkg) (p : jparams) (w : Z) (wn : nat) (y pfp pn1 : Z)
         (st : jstate) (prev : list Z) (bits : list bool)
  : outcome (list (list Z)) :=
  match hfuel with
  | O => Ok []
  | S hf =>
    match dec_line1 (S wn) pk p w y pfp pn1 st 0 (0 :: prev) [] bits with
    | Ok (st', cur_rev, r) =>
      let cur := frev cur_rev in
      match dec_lines1 hf pk p w wn (y + 1) (line_first cur) pfp st' cur r with
      | Ok ls => Ok (cur :: ls)
      | Err => Err | Panic => Panic | OutOfFuel => OutOfFuel
      end
    | Err => Err | Panic => Panic | OutOfFuel => OutOfFuel
    end
  end.

(* ---------- sample-interleaved scan (3 components) ---------- *)

Definition px3 : Type := (Z * Z * Z)%type.
Definition p3_0 (v : px3) : Z := fst (fst v).
Definition p3_1 (v : px3) : Z := snd (fst v).
Definition p3_2 (v : px3) : Z := snd v.
Definition z3 : px3 := (0, 0, 0).

Definition w3_0 (pw : list px3) : px3 := match pw with a :: _ => a | _ => z3 end.
Definition w3_1 (pw : list px3) : px3 := match pw with _ :: a :: _ => a | _ => z3 end.
(* prev[min(x+1, w-1)]: the window ends with the last sample of the line *)
Definition w3_2 (pw : list px3) : px3 :=
  match pw with _ :: _ :: a :: _ => a | [_; a] => a | _ => z3 end.

(* one regular sample of component `comp` in the interleaved loop (encodeRegularSample) *)
Definition regular_enc_i (pk : pkg) (p : jparams) (st : jstate) (qs ra rb rc x : Z)
  : option (list wop * jstate * Z) :=
  match ctx_index pk qs with
  | None => None
  | Some i =>
    let c := nth i (js_ctxs st) (mkCtx 0 0 0 0) in
    let '(ops, c', stored) := regular_enc pk true p c qs ra rb rc x in
    Some (ops, set_ctx st i c', stored)
  end.

Definition regular_dec_i (pk : pkg) (p : jparams) (st : jstate) (qs ra rb rc : Z) (bits : list bool)
  : option (Z * jstate * list bool) :=
  match ctx_index pk qs with
  | None => None
  | Some i =>
    let c := nth i (js_ctxs st) (mkCtx 0 0 0 0) in
    match regular_dec p c qs ra rb rc bits with
    | None => None
    | Some (v, c', r) => Some (v, set_ctx st i c', r)
    end
  end.

(* run interruption of one component in finishSampleRun / encodeSampleRunMode: always run
   context 0, sign = signInt(above - left) *)
Definition interrupt_enc_i (pk : pkg) (p : jparams) (st : jstate) (xs left above : Z)
  : list wop * jstate * Z :=
  let sign := signInt (above - left) in
  let errorValue := pk_error pk p (sign * (xs - above)) in
  let '(ops, c0) := EncodeRunInterruption p (js_ri st) (js_rc0 st) errorValue in
  (ops, mkJst (js_ctxs st) c0 (js_rc1 st) (js_ri st),
   ComputeReconstructedSample p above (errorValue * sign)).

Definition interrupt_dec_i (p : jparams) (st : jstate) (left above : Z) (bits : list bool)
  : option (Z * jstate * list bool) :=
  match DecodeRunInterruption p (js_ri st) (js_rc0 st) bits with
  | None => None
  | Some (e, c0, r) =>
    Some (ComputeReconstructedSample p above (e * signInt (above - left)),
          mkJst (js_ctxs st) c0 (js_rc1 st) (js_ri st), r)
  end.

Definition is_run_pixel3 (pk : pkg) (p : jparams) (v left : px3) : bool :=
  is_run_pixel pk p (p3_0 v) (p3_0 left) && is_run_pixel pk p (p3_1 v) (p3_1 left) &&
  is_run_pixel pk p (p3_2 v) (p3_2 left).

Fixpoint run_count3 (pk : pkg) (p : jparams) (left : px3) (inp : list px3) (n : Z) (m : nat)
  : Z * nat * list px3 :=
  match inp with
  | [] => (n, m, [])
  | v :: r => if is_run_pixel3 pk p v left then run_count3 pk p left r (n + 1) (S m) else (n, m, inp)
  end.

Fixpoint push_n3 (m : nat) (v : px3) (l : list px3) : list px3 :=
  match m with O => l | S m' => push_n3 m' v (v :: l) end.

Definition nb3 (w y x : Z) (plf pplf left : px3) (pw : list px3) (sel : px3 -> Z) : Z * Z * Z * Z :=
  sampleNeighbors w y x (sel plf) (sel pplf) (sel left) (sel (w3_0 pw)) (sel (w3_1 pw)) (sel (w3_2 pw)).

Definition qs_of (p : jparams) (n : Z * Z * Z * Z) : Z :=
  let '(ra, rb, rc, rd) := n in context_qs p ra rb rc rd.

(* encodeSampleInterleaved, one line *)
Fixpoint enc_line3 (fuel : nat) (pk : pkg) (p : jparams) (w y : Z) (plf pplf : px3)
         (st : jstate) (x : Z) (pw : list px3) (cur_rev : list px3) (inp : list px3) (ops_rev : list wop)
  : outcome (jstate * list px3 * list wop) :=
  match inp with
  | [] => Ok (st, cur_rev, ops_rev)
  | xs :: inp' =>
    match fuel with
    | O => OutOfFuel
    | S f =>
      let left := match cur_rev with l :: _ => l | [] => z3 end in
      let n0 := nb3 w y x plf pplf left pw p3_0 in
      let n1 := nb3 w y x plf pplf left pw p3_1 in
      let n2 := nb3 w y x plf pplf left pw p3_2 in
      let q0 := qs_of p n0 in let q1 := qs_of p n1 in let q2 := qs_of p n2 in
      if (q0 =? 0) && (q1 =? 0) && (q2 =? 0) then
        (* encodeSampleRunMode: the run value of each component is its left neighbour *)
        let lv : px3 := (fst (fst (fst n0)), fst (fst (fst n1)), fst (fst (fst n2))) in
        let '(n, m, rest) := run_count3 pk p lv inp 0 O in
        let endOfLine := match rest with [] => true | _ => false end in
        match EncodeRunLength (S m) n endOfLine (js_ri st) with
        | None => OutOfFuel
        | Some (rops, ri') =>
          let st1 := set_ri st ri' in
          let cur1 := push_n3 m lv cur_rev in
          let ops1 := rev_append rops ops_rev in
          match rest with
          | [] => Ok (st1, cur1, ops1)
          | xi :: rest' =>
            let pw1 := skipn m pw in
            let xi_pos := x + n in
            (* left of the interruption sample: lv (previousLineFirst at column 0, else the pixel
               before it, which the run loop has set to lv); above: sampleNeighbors *)
            let ab (sel : px3 -> Z) :=
              snd (fst (fst (nb3 w y xi_pos plf pplf lv pw1 sel))) in
            let '(o0, s0, r0) := interrupt_enc_i pk p st1 (p3_0 xi) (p3_0 lv) (ab p3_0) in
            let '(o1, s1, r1) := interrupt_enc_i pk p s0 (p3_1 xi) (p3_1 lv) (ab p3_1) in
            let '(o2, s2, r2) := interrupt_enc_i pk p s1 (p3_2 xi) (p3_2 lv) (ab p3_2) in
            enc_line3 f pk p w y plf pplf (set_ri s2 (dec_run_index (js_ri s2))) (x + n + 1)
                      (tl pw1) ((r0, r1, r2) :: cur1) rest'
                      (rev_append o2 (rev_append o1 (rev_append o0 ops1)))
          end
        end
      else
        let '(ra0, rb0, rc0, _) := n0 in
        let '(ra1, rb1, rc1, _) := n1 in
        let '(ra2, rb2, rc2, _) := n2 in
        match regular_enc_i pk p st q0 ra0 rb0 rc0 (p3_0 xs) with
        | None => Err
        | Some (o0, s0, v0) =>
          match regular_enc_i pk p s0 q1 ra1 rb1 rc1 (p3_1 xs) with
          | None => Err
          | Some (o1, s1, v1) =>
            match regular_enc_i pk p s1 q2 ra2 rb2 rc2 (p3_2 xs) with
            | None => Err
            | Some (o2, s2, v2) =>
              enc_line3 f pk p w y plf pplf s2 (x + 1) (tl pw) ((v0, v1, v2) :: cur_rev) inp'
                        (rev_append o2 (rev_append o1 (rev_append o0 ops_rev)))
            end
          end
        end
    end
  end.

(* decodeSampleInterleaved, one line *)
Fixpoint dec_line3 (fuel : nat) (pk : pkg) (p : jparams) (w y : Z) (plf pplf : px3)
         (st : jstate) (x : Z) (pw : list px3) (cur_rev : list px3) (bits : list bool)
  : outcome (jstate * list px3 * list bool) :=
  if x >=? w then Ok (st, cur_rev, bits) else
  match fuel with
  | O => OutOfFuel
  | S f =>
    let left := match cur_rev with l :: _ => l | [] => z3 end in
    let n0 := nb3 w y x plf pplf left pw p3_0 in
    let n1 := nb3 w y x plf pplf left pw p3_1 in
    let n2 := nb3 w y x plf pplf left pw p3_2 in
    let q0 := qs_of p n0 in let q1 := qs_of p n1 in let q2 := qs_of p n2 in
    if (q0 =? 0) && (q1 =? 0) && (q2 =? 0) then
      let lv : px3 := (fst (fst (fst n0)), fst (fst (fst n1)), fst (fst (fst n2))) in
      match DecodeRunLength bits (w - x) (js_ri st) with
      | None => Err
      | Some (n, ri', r) =>
        let m := Z.to_nat n in
        let st1 := set_ri st ri' in
        let cur1 := push_n3 m lv cur_rev in
        if n =? w - x then Ok (st1, cur1, r)
        else
          let pw1 := skipn m pw in
          let xi_pos := x + n in
          let ab (sel : px3 -> Z) :=
            snd (fst (fst (nb3 w y xi_pos plf pplf lv pw1 sel))) in
          match interrupt_dec_i p st1 (p3_0 lv) (ab p3_0) r with
          | None => Err
          | Some (r0, s0, b0) =>
            match interrupt_dec_i p s0 (p3_1 lv) (ab p3_1) b0 with
            | None => Err
            | Some (r1, s1, b1) =>
              match interrupt_dec_i p s1 (p3_2 lv) (ab p3_2) b1 with
              | None => Err
              | Some (r2, s2, b2) =>
                dec_line3 f pk p w y plf pplf (set_ri s2 (dec_run_index (js_ri s2))) (x + n + 1)
                          (tl pw1) ((r0, r1, r2) :: cur1) b2
              end
            end
          end
      end
    else
      let '(ra0, rb0, rc0, _) := n0 in
      let '(ra1, rb1, rc1, _) := n1 in
      let '(ra2, rb2, rc2, _) := n2 in
      match regular_dec_i pk p st q0 ra0 rb0 rc0 bits with
      | None => Err
      | Some (v0, s0, b0) =>
        match regular_dec_i pk p s0 q1 ra1 rb1 rc1 b0 with
        | None => Err
        | Some (v1, s1, b1) =>
          match regular_dec_i pk p s1 q2 ra2 rb2 rc2 b1 with
          | None => Err
          | Some (v2, s2, b2) =>
            dec_line3 f pk p w y plf pplf s2 (x + 1) (tl pw) ((v0, v1, v2) :: cur_rev) b2
          end
        end
      end
  end.

Definition line_first3 (l : list px3) : px3 := match l with a :: _ => a | [] => z3 end.

Fixpoint enc_lines3 (hfuel : nat) (pk : pkg) (p : jparams) (w : Z) (wn : nat) (y : Z) (plf pplf : px3)
         (st : jstate) (prev : list px3) (pix : list px3) (ops_rev : list wop)
  : outcome (list wop) :=
  match hfuel with
  | O => Ok ops_rev
  | S hf =>
    match enc_line3 (S wn) pk p w y plf pplf st 0 (z3 :: prev) [] (firstn wn pix) ops_rev with
    | Ok (st', cur_rev, ops') =>
      let cur := frev cur_rev in
      enc_lines3 hf pk p w wn (y + 1) (line_first3 cur) plf st' cur (skipn wn pix) ops'
    | Err => Err | Panic => Panic | OutOfFuel => OutOfFuel
    end
  end.

Fixpoint dec_lines3 (hfuel : nat) (pk : pkg) (p : jparams) (w : Z) (wn : nat) (y : Z) (plf pplf : px3)
         (st : jstate) (prev : list px3) (bits : list bool)
  : outcome (list (list px3)) :=
  match hfuel with
  | O => Ok []
  | S hf =>
    match dec_line3 (S wn) pk p w y plf pplf st 0 (z3 :: prev) [] bits with
    | Ok (st', cur_rev, r) =>
      let cur := frev cur_rev in
      match dec_lines3 hf pk p w wn (y + 1) (line_first3 cur) plf st' cur r with
      | Ok ls => Ok (cur :: ls)
      | Err => Err | Panic => Panic | OutOfFuel => OutOfFuel
      end
    | Err => Err | Panic => Panic | OutOfFuel => OutOfFuel
    end
  end.

(* ---------- sample containers ---------- *)

(* pixelsToIntegers: one byte per sample for bitDepth <= 8, else little-endian pairs
   (a trailing odd byte is dropped) *)
Fixpoint le16_samples (bs : list Z) : list Z :=
  match bs with
  | lo :: hi :: r => Z.lor lo (Z.shiftl hi 8) :: le16_samples r
  | _ => []
  end.
Definition pixelsToIntegers (bd : Z) (bs : list Z) : list Z :=
  if bd <=? 8 then bs else le16_samples bs.

Fixpoint triples (l : list Z) : list px3 :=
  match l with
  | a :: b :: c :: r => (a, b, c) :: triples r
  | _ => []
  end.
Fixpoint untriples (l : list px3) : list Z :=
  match l with
  | (a, b, c) :: r => a :: b :: c :: untriples r
  | [] => []
  end.

(* integersToPixels *)
Definition clamp_sample (maxVal v : Z) : Z := if v <? 0 then 0 else if v >? maxVal then maxVal else v.
Fixpoint integersToPixels8 (maxVal : Z) (l : list Z) : list Z :=
  match l with
  | [] => []
  | v :: r => wrapU 8 (clamp_sample maxVal v) :: integersToPixels8 maxVal r
  end.
Fixpoint integersToPixels16 (maxVal : Z) (l : list Z) : list Z :=
  match l with
  | [] => []
  | v :: r => let c := clamp_sample maxVal v in
              wrapU 8 (Z.land c 255) :: wrapU 8 (Z.land (Z.shiftr c 8) 255) :: integersToPixels16 maxVal r
  end.
Definition integersToPixels (bd maxVal : Z) (l : list Z) : list Z :=
  if bd <=? 8 then integersToPixels8 maxVal l else integersToPixels16 maxVal l.

(* ---------- markers: writers ---------- *)

Definition be16 (v : Z) : list Z := [Z.shiftr (wrapU 16 v) 8; Z.land (wrapU 16 v) 255].

Fixpoint sof_comps (n : nat) (i : Z) : list Z :=
  match n with O => [] | S n' => wrapU 8 (i + 1) :: 17 :: 0 :: sof_comps n' (i + 1) end.
Fixpoint sos_comps (n : nat) (i : Z) : list Z :=
  match n with O => [] | S n' => wrapU 8 (i + 1) :: 0 :: sos_comps n' (i + 1) end.

(* writeSOF55: FF F7, length (uint16(len(data)+2)), P, Y, X, Nf, components *)
Definition write_sof55 (w h comps bd : Z) : list Z :=
  [255; 247] ++ be16 (6 + comps * 3 + 2) ++
  [wrapU 8 bd; wrapU 8 (Z.shiftr h 8); wrapU 8 (Z.land h 255);
   wrapU 8 (Z.shiftr w 8); wrapU 8 (Z.land w 255); wrapU 8 comps] ++ sof_comps (Z.to_nat comps) 0.

(* writeSOS: FF DA, length, Ns, selectors, NEAR, ILV (2 when components > 1), point transform 0 *)
Definition write_sos (comps near : Z) : list Z :=
  [255; 218] ++ be16 (4 + comps * 2 + 2) ++ [wrapU 8 comps] ++ sos_comps (Z.to_nat comps) 0 ++
  [wrapU 8 near; (if comps >? 1 then 2 else 0); 0].

(* ---------- encoders ---------- *)

(* scan bytes (GolombWriter output incl. Flush) of an image given as integer samples *)
Definition encode_scan_ops (pk : pkg) (p : jparams) (w h comps : Z) (pixels : list Z)
  : outcome (list wop) :=
  let wn := Z.to_nat w in
  let hn := Z.to_nat h in
  let st := jst_init p in
  match (if comps >? 1
         then enc_lines3 hn pk p w wn 0 z3 z3 st [] (triples pixels) []
         else enc_lines1 hn pk p w wn 0 0 0 st [] pixels []) with
  | Ok ops_rev => Ok (frev ops_rev)
  | Err => Err | Panic => Panic | OutOfFuel => OutOfFuel
  end.

Definition encode_image (pk : pkg) (w h comps bd near : Z) (pixelData : list Z) : outcome (list Z) :=
  if (w <=? 0) || (h <=? 0) then Err
  else if negb (comps =? 1) && negb (comps =? 3) then Err
  else if (bd <? 2) || (bd >? 16) then Err
  else if (match pk with PkNear => (near <? 0) || (near >? 255) | PkLossless => false end) then Err
  else if (w >? 65535) || (h >? 65535) then Err                      (* ErrInvalidDimensions *)
  else if zlen pixelData <? w * h * comps * Z.quot (bd + 7) 8 then Err  (* ErrBufferTooSmall *)
  else
    let pixels := pixelsToIntegers bd pixelData in
      let p := jls_params bd near in
      match encode_scan_ops pk p w h comps pixels with
      | Ok ops =>
        Ok ([255; 216] ++ write_sof55 w h comps bd ++ write_sos comps near ++ gw_run ops ++ [255; 217])
      | Err => Err | Panic => Panic | OutOfFuel => OutOfFuel
      end.

(* jpegls/lossless.Encode(pixelData, width, height, components, bitDepth) *)
Definition jls_encode (w h comps bd : Z) (pixelData : list Z) : outcome (list Z) :=
  encode_image PkLossless w h comps bd 0 pixelData.
(* jpegls/nearlossless.Encode(pixelData, width, height, components, bitDepth, near) *)
Definition jlsn_encode (w h comps bd near : Z) (pixelData : list Z) : outcome (list Z) :=
  encode_image PkNear w h comps bd near pixelData.

(* ---------- decoders: marker parsing ---------- *)

(* standard.Reader.ReadMarker: FF, any number of further FF, then a non-zero byte *)
Fixpoint skip_ff (bs : list Z) : option (Z * list Z) :=
  match bs with
  | [] => None
  | b :: r => if b =? 255 then skip_ff r else if b =? 0 then None else Some (b, r)
  end.
Definition read_marker (bs : list Z) : option (Z * list Z) :=
  match bs with
  | [] => None
  | b :: r => if b =? 255 then skip_ff r else None
  end.

(* standard.Reader.ReadSegment: uint16 length >= 2, then length-2 bytes *)
Definition read_segment (bs : list Z) : option (list Z * list Z) :=
  match bs with
  | hi :: lo :: r =>
    let len := Z.lor (Z.shiftl hi 8) lo in
    if len <? 2 then None
    else let n := Z.to_nat (len - 2) in
         if (length r <? n)%nat then None else Some (firstn n r, skipn n r)
  | _ => None
  end.

(* decoder fields *)
Record dstate : Type := mkDst {
  d_bd : Z; d_w : Z; d_h : Z; d_comps : Z; d_maxval : Z;
  d_reset : Z;                 (* traits.Reset *)
  d_t1 : Z; d_t2 : Z; d_t3 : Z;  (* lossless: quantizer thresholds ; near: LSE overrides (0 = none) *)
  d_par : jparams              (* lossless: traits after SOF/LSE *)
}.
Definition dst_init : dstate := mkDst 0 0 0 0 0 0 0 0 0 (mkJParams 0 0 0 0 0 0 0 0 0).

Definition zn (l : list Z) (i : Z) : Z := nth (Z.to_nat i) l 0.
Definition go_maxval (bd : Z) : Z := wrapS 64 (wrapS 64 (Z.shiftl 1 bd) - 1).

(* lossless initCodingParameters(t1,t2,t3). maxVal + 1 = 0 (division by zero in
   computeThresholds) cannot occur any more: parseSOF55 accepts precision 2..16 only and LSE
   sets maxVal only to 1..65535. *)
Definition ll_init_params (d : dstate) (maxVal reset t1 t2 t3 : Z) : outcome dstate :=
  let par := ComputeCodingParameters maxVal 0 reset in
  let use_def := (t1 =? 0) || (t2 =? 0) || (t3 =? 0) in
  let t1' := if use_def then jp_t1 par else t1 in
  let t2' := if use_def then jp_t2 par else t2 in
  let t3' := if use_def then jp_t3 par else t3 in
  let par' := mkJParams maxVal 0 (jp_range par) (jp_qbpp par) (jp_limit par) t1' t2' t3' (jp_reset par) in
  Ok (mkDst (d_bd d) (d_w d) (d_h d) (d_comps d) maxVal (jp_reset par) t1' t2' t3' par').

Definition parse_sof (pk : pkg) (d : dstate) (data : list Z) : outcome dstate :=
  if zlen data <? 6 then Err else
  if negb (d_w d =? 0) || negb (d_h d =? 0) then Err else      (* second frame header *)
  let bd := zn data 0 in
  let h := Z.lor (Z.shiftl (zn data 1) 8) (zn data 2) in
  let w := Z.lor (Z.shiftl (zn data 3) 8) (zn data 4) in
  let comps := zn data 5 in
  if (w <=? 0) || (h <=? 0) then Err
  else if negb (comps =? 1) && negb (comps =? 3) then Err
  else if (bd <? 2) || (bd >? 16) then Err                      (* ErrInvalidPrecision *)
  else
    let maxVal := go_maxval bd in
    let d1 := mkDst bd w h comps maxVal 64 (d_t1 d) (d_t2 d) (d_t3 d) (d_par d) in
    match pk with
    | PkLossless => ll_init_params d1 maxVal 64 0 0 0
    | PkNear => Ok d1
    end.

Definition parse_lse (pk : pkg) (d : dstate) (data : list Z) : outcome dstate :=
  if zlen data <? 1 then Err else
  let id := zn data 0 in
  let mv := Z.lor (Z.shiftl (zn data 1) 8) (zn data 2) in
  let t1 := Z.lor (Z.shiftl (zn data 3) 8) (zn data 4) in
  let t2 := Z.lor (Z.shiftl (zn data 5) 8) (zn data 6) in
  let t3 := Z.lor (Z.shiftl (zn data 7) 8) (zn data 8) in
  let rs0 := Z.lor (Z.shiftl (zn data 9) 8) (zn data 10) in
  let rs := if rs0 =? 0 then 64 else rs0 in
  match pk with
  | PkLossless =>
    if id =? 1 then
      if zlen data <? 11 then Err
      else ll_init_params d (if mv <=? 0 then d_maxval d else mv) rs t1 t2 t3
    else Ok d
  | PkNear =>
    if (id =? 1) && (zlen data >=? 11) then
      Ok (mkDst (d_bd d) (d_w d) (d_h d) (d_comps d) (if mv >? 0 then mv else d_maxval d) rs t1 t2 t3 (d_par d))
    else Ok d
  end.

(* parseSOS: returns the coding parameters of the scan *)
Definition parse_sos (pk : pkg) (d : dstate) (data : list Z) : outcome (jparams * Z) :=
  if zlen data <? 4 then Err else
  if negb (zn data 0 =? d_comps d) then Err else
  let near := zn data (zlen data - 3) in
  let ilv := zn data (zlen data - 2) in
  if (d_comps d =? 1) && negb (ilv =? 0) then Err
  else if (d_comps d >? 1) && negb (ilv =? 2) then Err
  else
    match pk with
    | PkLossless => Ok (d_par d, 0)
    | PkNear =>
      (* applyCodingParameters *)
      let reset := if d_reset d >? 0 then d_reset d else 64 in
      let par := ComputeCodingParameters (d_maxval d) near reset in
      Ok (mkJParams (d_maxval d) near (jp_range par) (jp_qbpp par) (jp_limit par)
                    (if d_t1 d >? 0 then d_t1 d else jp_t1 par)
                    (if d_t2 d >? 0 then d_t2 d else jp_t2 par)
                    (if d_t3 d >? 0 then d_t3 d else jp_t3 par) (jp_reset par), near)
    end.

(* decodeScan: collect the entropy-coded bytes. FF b2 with b2 < 0x80 is kept; FF D9 ends;
   any other FF xx is dropped by lossless (decoding continues after it) and ends the scan in
   nearlossless; a final lone FF is kept. *)
Fixpoint scan_bytes (pk : pkg) (bs : list Z) : list Z :=
  match bs with
  | [] => []
  | b :: r =>
    if b =? 255 then
      match r with
      | [] => [b]
      | b2 :: r2 =>
        if b2 <? 128 then b :: b2 :: scan_bytes pk r2
        else if b2 =? 217 then []
        else match pk with PkLossless => scan_bytes pk r2 | PkNear => [] end
      end
    else b :: scan_bytes pk r
  end.

Record decoded : Type := mkDecoded {
  dc_pixels : list Z; dc_w : Z; dc_h : Z; dc_comps : Z; dc_bd : Z; dc_near : Z
}.

(* decodeScan after the bytes are collected. lim bounds width*height*components (the Go code
   allocates that many ints; the model answers OutOfFuel above lim instead of running). *)
Definition decode_scan (pk : pkg) (lim : Z) (d : dstate) (p : jparams) (near : Z) (rest : list Z)
  : outcome decoded :=
  if d_w d * d_h d * d_comps d >? lim then OutOfFuel else
  let bits := jls_bits_of_bytes (scan_bytes pk rest) in
  let wn := Z.to_nat (d_w d) in
  let hn := Z.to_nat (d_h d) in
  let st := jst_init p in
  let res :=
    if d_comps d >? 1 then
      match dec_lines3 hn pk p (d_w d) wn 0 z3 z3 st [] bits with
      | Ok ls => Ok (untriples (concat ls))
      | Err => Err | Panic => Panic | OutOfFuel => OutOfFuel
      end
    else
      match dec_lines1 hn pk p (d_w d) wn 0 0 0 st [] bits with
      | Ok ls => Ok (concat ls)
      | Err => Err | Panic => Panic | OutOfFuel => OutOfFuel
      end in
  match res with
  | Ok pixels =>
    Ok (mkDecoded (integersToPixels (d_bd d) (d_maxval d) pixels) (d_w d) (d_h d) (d_comps d) (d_bd d) near)
  | Err => Err | Panic => Panic | OutOfFuel => OutOfFuel
  end.

Definition is_rst (m : Z) : bool := (208 <=? m) && (m <=? 215).
(* standard.IsSOF: SOF0-3, SOF5-7, SOF9-11, SOF13-15 *)
Definition is_sof (m : Z) : bool :=
  ((192 <=? m) && (m <=? 195)) || ((197 <=? m) && (m <=? 199)) ||
  ((201 <=? m) && (m <=? 203)) || ((205 <=? m) && (m <=? 207)).

(* the segment loop of decode(); fuel = number of bytes (every iteration consumes some) *)
Fixpoint decode_segments (fuel : nat) (pk : pkg) (lim : Z) (d : dstate) (bs : list Z) : outcome decoded :=
  match fuel with
  | O => OutOfFuel
  | S f =>
    match read_marker bs with
    | None => Err
    | Some (m, r) =>
      if m =? 247 then
        match read_segment r with
        | None => Err
        | Some (data, r') =>
          match parse_sof pk d data with
          | Ok d' => decode_segments f pk lim d' r'
          | Err => Err | Panic => Panic | OutOfFuel => OutOfFuel
          end
        end
      else if m =? 248 then
        match read_segment r with
        | None => Err
        | Some (data, r') =>
          match parse_lse pk d data with
          | Ok d' => decode_segments f pk lim d' r'
          | Err => Err | Panic => Panic | OutOfFuel => OutOfFuel
          end
        end
      else if m =? 218 then
        match read_segment r with
        | None => Err
        | Some (data, r') =>
          match parse_sos pk d data with
          | Ok (p, near) => decode_scan pk lim d p near r'
          | Err => Err | Panic => Panic | OutOfFuel => OutOfFuel
          end
        end
      else if m =? 217 then Err
      else if is_sof m then Err                                 (* ErrUnsupportedFormat *)
      else if (m =? 216) || is_rst m then decode_segments f pk lim d r
      else
        match read_segment r with
        | None => Err
        | Some (_, r') => decode_segments f pk lim d r'
        end
    end
  end.

Definition decode_image (pk : pkg) (lim : Z) (bs : list Z) : outcome decoded :=
  match read_marker bs with
  | None => Err
  | Some (m, r) => if m =? 216 then decode_segments (S (length r)) pk lim dst_init r else Err
  end.

(* jpegls/lossless.Decode ; jpegls/nearlossless.Decode *)
Definition jls_decode (lim : Z) (bs : list Z) : outcome decoded := decode_image PkLossless lim bs.
Definition jlsn_decode (lim : Z) (bs : list Z) : outcome decoded := decode_image PkNear lim bs.
