(* Run mode: run_roundtrip (run-length code incl. end of line and RunIndex) and
   run_interruption_roundtrip (both run contexts, both map conditions). *)
From V Require Import Common.Base JpegLS.JlsParams JpegLS.JlsGolomb JpegLS.JlsRun.
From V Require Import JpegLS.JlsProofsGolomb JpegLS.JlsProofsWriter.

(* ---------- J table / RunIndex ---------- *)

Lemma Jof_range : forall ri, 0 <= ri <= 31 -> 0 <= Jof ri <= 15.
Proof.
  intros ri H. assert (Hc : forallb (fun i => (0 <=? Jof i) && (Jof i <=? 15))
                                    (map Z.of_nat (seq 0 32)) = true) by (vm_compute; reflexivity).
  rewrite forallb_forall in Hc. specialize (Hc ri).
  assert (Hin : In ri (map Z.of_nat (seq 0 32))).
  { apply in_map_iff. exists (Z.to_nat ri). split; [lia|]. apply in_seq. lia. }
  apply Hc in Hin. apply andb_true_iff in Hin. lia.
Qed.

Lemma inc_run_index_range : forall ri, 0 <= ri <= 31 -> 0 <= inc_run_index ri <= 31.
Proof. intros. unfold inc_run_index. destruct (Z.ltb_spec ri 31); lia. Qed.
Lemma dec_run_index_range : forall ri, 0 <= ri <= 31 -> 0 <= dec_run_index ri <= 31.
Proof. intros. unfold dec_run_index. destruct (Z.gtb_spec ri 0); lia. Qed.

Lemma pow_J_pos : forall ri, 0 <= ri <= 31 -> 1 <= Z.shiftl 1 (Jof ri).
Proof.
  intros ri H. pose proof (Jof_range ri H). rewrite Z.shiftl_1_l.
  assert (0 < 2 ^ Jof ri) by (apply Z.pow_pos_nonneg; lia). lia.
Qed.

(* ---------- list helpers ---------- *)

Lemma frev_rev : forall (A : Type) (l : list A), frev l = rev l.
Proof. intros. unfold frev. symmetry. apply rev_alt. Qed.

Lemma repeat_snoc : forall (A : Type) (a : A) n l, repeat a n ++ a :: l = a :: repeat a n ++ l.
Proof. induction n; intros; simpl; [reflexivity|]. rewrite IHn. reflexivity. Qed.

Lemma rev_repeat : forall (A : Type) (a : A) n, rev (repeat a n) = repeat a n.
Proof.
  induction n; simpl; [reflexivity|]. rewrite IHn.
  change [a] with (repeat a 1). rewrite <- repeat_app. replace (n + 1)%nat with (S n) by lia. reflexivity.
Qed.

Lemma ops_bits_ones : forall n, ops_bits (repeat (1, 1) n) = repeat true n.
Proof. induction n; simpl; [reflexivity|]. rewrite IHn. reflexivity. Qed.

(* ---------- the unary part of the run-length code ---------- *)

Lemma runlen_loop_sync : forall fuel rl ri acc rl' ri' acc',
  enc_runlen_loop fuel rl ri acc = Some (rl', ri', acc') ->
  0 <= ri <= 31 -> 0 <= rl ->
  exists ones,
    acc' = repeat (1, 1) ones ++ acc /\ 0 <= rl' < Z.shiftl 1 (Jof ri') /\ 0 <= ri' <= 31 /\ rl' <= rl /\
    (rl < Z.shiftl 1 (Jof ri) -> ones = O) /\
    (forall remaining done tail, 0 <= done -> done + (rl - rl') < remaining ->
       dec_runlen_loop (repeat true ones ++ tail) remaining done ri =
       dec_runlen_loop tail remaining (done + rl - rl') ri') /\
    (rl' = 0 -> 0 < rl -> forall remaining done tail, 0 <= done -> done + rl = remaining ->
       dec_runlen_loop (repeat true ones ++ tail) remaining done ri = Some (true, remaining, ri', tail)).
Proof.
  induction fuel as [|f IH]; intros rl ri acc rl' ri' acc' H Hri Hrl; cbn [enc_runlen_loop] in H; [discriminate|].
  pose proof (pow_J_pos ri Hri) as Hfull.
  destruct (Z.geb_spec rl (Z.shiftl 1 (Jof ri))) as [Hge|Hlt].
  - pose proof (inc_run_index_range ri Hri) as Hri1.
    destruct (IH _ _ _ _ _ _ H Hri1 ltac:(lia)) as (ones & Hacc & Hrl' & Hri' & Hle & Hz & Hcont & Hend).
    exists (S ones). repeat split; try lia.
    + rewrite Hacc. cbn [repeat app]. apply repeat_snoc.
    + intros remaining done tail Hd Hlt. cbn [repeat app dec_runlen_loop].
      rewrite Z.min_l by lia. rewrite Z.eqb_refl.
      destruct (Z.geb_spec (done + Z.shiftl 1 (Jof ri)) remaining); [lia|].
      rewrite Hcont by lia. f_equal. lia.
    + intros Hz' Hpos remaining done tail Hd Heq. cbn [repeat app dec_runlen_loop].
      rewrite Z.min_l by lia. rewrite Z.eqb_refl.
      destruct (Z.geb_spec (done + Z.shiftl 1 (Jof ri)) remaining) as [Hreach|Hnot].
      * assert (Hrl0 : rl - Z.shiftl 1 (Jof ri) = 0) by lia.
        pose proof (pow_J_pos _ Hri1).
        rewrite (Hz ltac:(lia)) in *. cbn [repeat app] in *.
        (* ri' = inc ri: the loop stopped at once *)
        destruct f as [|f']; cbn [enc_runlen_loop] in H; [discriminate|].
        destruct (Z.geb_spec (rl - Z.shiftl 1 (Jof ri)) (Z.shiftl 1 (Jof (inc_run_index ri)))); [lia|].
        inversion H; subst. reflexivity.
      * apply Hend; lia.
  - inversion H; subst. exists O. repeat split; try lia.
    intros remaining done tail Hd Hl. cbn [repeat app]. f_equal. lia.
Qed.

Lemma enc_runlen_loop_total : forall fuel rl ri acc,
  0 <= ri <= 31 -> 0 <= rl -> (Z.to_nat rl < fuel)%nat ->
  exists r, enc_runlen_loop fuel rl ri acc = Some r.
Proof.
  induction fuel as [|f IH]; intros rl ri acc Hri Hrl Hf; [lia|]. cbn [enc_runlen_loop].
  pose proof (pow_J_pos ri Hri).
  destruct (Z.geb_spec rl (Z.shiftl 1 (Jof ri))).
  - apply IH; [apply inc_run_index_range; assumption | lia | lia].
  - eexists. reflexivity.
Qed.

Lemma wop_ok_ones : forall n, Forall wop_ok (repeat (1, 1) n).
Proof. intros. apply Forall_forall. intros x Hx. apply repeat_spec in Hx. subst x. unfold wop_ok. cbn. lia. Qed.

(* run_roundtrip: DecodeRunLength inverts EncodeRunLength for every run length 0 <= n <= remaining
   (remaining >= 1 samples left in the line), end of line exactly when n = remaining, any
   RunIndex; both sides leave the same RunIndex; the fuel (run pixels + 1) suffices. *)
Theorem run_roundtrip : forall fuel n remaining ri rest,
  0 <= ri <= 31 -> 0 <= n <= remaining -> 1 <= remaining -> (Z.to_nat n < fuel)%nat ->
  exists ops ri',
    EncodeRunLength fuel n (n =? remaining) ri = Some (ops, ri') /\ 0 <= ri' <= 31 /\
    DecodeRunLength (ops_bits ops ++ rest) remaining ri = Some (n, ri', rest) /\
    Forall wop_ok ops.
Proof.
  intros fuel n remaining ri rest Hri Hn Hrem Hf.
  destruct (enc_runlen_loop_total fuel n ri [] Hri ltac:(lia) Hf) as [[[rl' ri'] acc'] Hloop].
  destruct (runlen_loop_sync _ _ _ _ _ _ _ Hloop Hri ltac:(lia))
    as (ones & Hacc & Hrl' & Hri' & Hle & _ & Hcont & Hend).
  rewrite app_nil_r in Hacc. subst acc'.
  unfold EncodeRunLength. rewrite Hloop.
  pose proof (Jof_range ri' Hri') as HJ.
  destruct (Z.eqb_spec n remaining) as [Heol|Hneol].
  - (* end of line *)
    eexists. exists ri'. split; [reflexivity|]. split; [assumption|].
    split.
    2:{ rewrite frev_rev. apply Forall_rev. destruct (negb (rl' =? 0)); [constructor; [unfold wop_ok; cbn; lia|]|];
        apply wop_ok_ones. }
    unfold DecodeRunLength. rewrite frev_rev.
    destruct (Z.eqb_spec rl' 0) as [Hz|Hnz]; cbn [negb].
    + rewrite rev_repeat, ops_bits_ones.
      rewrite (Hend Hz ltac:(lia) remaining 0 rest ltac:(lia) ltac:(lia)). subst n. reflexivity.
    + cbn [rev]. rewrite rev_repeat, ops_bits_app, ops_bits_ones. cbn [ops_bits bits_of bits_of_nat app].
      rewrite <- app_assoc. rewrite Hcont by lia.
      change (bits_of 1 1) with [true]. cbn [app dec_runlen_loop].
      rewrite Z.min_r by lia.
      replace (0 + n - rl' + (remaining - (0 + n - rl'))) with remaining by lia.
      destruct (Z.eqb_spec (remaining - (0 + n - rl')) (Z.shiftl 1 (Jof ri'))); [lia|].
      destruct (Z.geb_spec remaining remaining); [|lia]. subst n. reflexivity.
  - (* interrupted run: ones, then a zero bit and J bits of the remainder *)
    eexists. exists ri'. split; [reflexivity|]. split; [assumption|].
    split.
    2:{ rewrite frev_rev. apply Forall_rev. constructor; [|apply wop_ok_ones].
        unfold wop_ok. cbn [fst snd]. rewrite Z.shiftl_1_l in Hrl'.
        assert (2 ^ Jof ri' <= 2 ^ 32) by (apply Z.pow_le_mono_r; lia).
        unfold wrapU. rewrite Z.mod_small by lia. rewrite Z.pow_add_r by lia. change (2 ^ 1) with 2. lia. }
    unfold DecodeRunLength. rewrite frev_rev. cbn [rev].
    rewrite rev_repeat, ops_bits_app, ops_bits_ones. cbn [ops_bits]. rewrite app_nil_r.
    rewrite <- app_assoc. rewrite Hcont by lia.
    rewrite Z.shiftl_1_l in Hrl'.
    assert (H32 : 2 ^ Jof ri' <= 2 ^ 32) by (apply Z.pow_le_mono_r; lia).
    unfold wrapU. rewrite (Z.mod_small rl') by lia.
    (* bits_of rl' (J+1) = false :: bits_of rl' J *)
    unfold bits_of. replace (Z.to_nat (Jof ri' + 1)) with (S (Z.to_nat (Jof ri'))) by lia.
    cbn [bits_of_nat app]. rewrite Z2Nat.id by lia.
    assert (Htb : Z.testbit rl' (Jof ri') = false).
    { destruct (Z.eq_dec rl' 0) as [->|]; [apply Z.testbit_0_l|].
      apply Z.bits_above_log2; [lia|]. apply Z.log2_lt_pow2; lia. }
    rewrite Htb.
    cbn [dec_runlen_loop].
    destruct (Z.gtb_spec (Jof ri') 0) as [HJpos|HJ0].
    + fold (bits_of rl' (Jof ri')). rewrite read_bits_bits_of by lia.
      replace (0 + n - rl' + rl') with n by lia.
      destruct (Z.gtb_spec n remaining); [lia|]. reflexivity.
    + assert (Jof ri' = 0) by lia. assert (rl' = 0) by (rewrite H in Hrl'; simpl in Hrl'; lia).
      rewrite H. cbn [Z.to_nat bits_of_nat app].
      replace (0 + n - rl') with n by lia.
      destruct (Z.gtb_spec n remaining); [lia|]. reflexivity.
Qed.

(* ---------- run interruption ---------- *)

Lemma land_1r : forall v, Z.land v 1 = v mod 2.
Proof. intros. change 1 with (Z.ones 1). rewrite Z.land_ones by lia. reflexivity. Qed.

Lemma ggc_loop_bound : forall fuel nTest temp k, 0 <= k -> 0 <= ggc_loop fuel nTest temp k.
Proof.
  induction fuel as [|f IH]; intros nTest temp k Hk; cbn [ggc_loop]; [lia|].
  destruct (nTest <? temp); [|lia]. destruct (k + 1 >? 32); [lia|]. apply IH. lia.
Qed.

Lemma GetGolombCode_nonneg : forall c, 0 <= GetGolombCode c.
Proof. intros. apply ggc_loop_bound. lia. Qed.

(* run_interruption_roundtrip: for either run context (type 0 / 1), any RunIndex, every error
   value e with 2|e| <= 2^qbpp (what ModuloRange guarantees; it makes the escape code fit) and
   e <> 0 for context 1 (an interruption sample differs from Ra by more than NEAR), the decoder
   recovers e and both sides make the same update of A, N, Nn. Covers both map conditions. *)
Theorem run_interruption_roundtrip : forall p ri c e rest,
  rc_type c = 0 \/ rc_type c = 1 ->
  (rc_type c = 1 -> e <> 0) ->
  0 <= ri <= 31 ->
  GetGolombCode c <= 32 ->
  0 <= jp_qbpp p <= 32 ->
  jp_qbpp p + 1 < jp_limit p - Jof ri - 1 -> jp_limit p <= 64 ->
  2 * Z.abs e <= 2 ^ jp_qbpp p ->
  DecodeRunInterruption p ri c (ops_bits (fst (EncodeRunInterruption p ri c e)) ++ rest) =
  Some (e, snd (EncodeRunInterruption p ri c e), rest) /\
  (1 <= jp_qbpp p -> Forall wop_ok (fst (EncodeRunInterruption p ri c e))).
Proof.
  intros p ri c e rest Hty He1 Hri Hk32 Hq Hlim Hl64 He.
  unfold EncodeRunInterruption, DecodeRunInterruption. cbv zeta. cbn [fst snd].
  set (k := GetGolombCode c) in *.
  pose proof (GetGolombCode_nonneg c) as Hk0. fold k in Hk0.
  pose proof (Jof_range ri Hri) as HJ.
  set (mp := ComputeMap c e k).
  set (em := if mp then 2 * Z.abs e - rc_type c - 1 else 2 * Z.abs e - rc_type c).
  (* map = true implies e <> 0 *)
  assert (Hmp : mp = true -> e <> 0).
  { unfold mp, ComputeMap. intros H E. subst e. cbn in H.
    rewrite !andb_false_r in H. cbn in H. discriminate. }
  assert (Hem0 : 0 <= em).
  { unfold em. destruct mp eqn:Em.
    - specialize (Hmp eq_refl). destruct Hty as [T|T]; rewrite T; lia.
    - destruct Hty as [T|T]; rewrite T; [lia|]. specialize (He1 T). lia. }
  assert (Hem1 : em - 1 < 2 ^ jp_qbpp p).
  { unfold em. destruct mp; destruct Hty as [T|T]; rewrite T; lia. }
  split.
  2:{ intro Hq1. fold mp. fold em. apply encode_mapped_ops_ok; lia. }
  rewrite golomb_roundtrip by lia.
  (* ComputeErrorValue recovers e *)
  assert (Herr : ComputeErrorValue c (em + rc_type c) k = e).
  { unfold ComputeErrorValue. cbv zeta.
    assert (Htemp : em + rc_type c = 2 * Z.abs e - (if mp then 1 else 0)) by (unfold em; destruct mp; lia).
    rewrite Htemp. rewrite land_1r.
    assert (Hbit : (2 * Z.abs e - (if mp then 1 else 0)) mod 2 = (if mp then 1 else 0)).
    { destruct mp.
      - replace (2 * Z.abs e - 1) with (1 + (Z.abs e - 1) * 2) by ring. rewrite Z.mod_add by lia. reflexivity.
      - replace (2 * Z.abs e - 0) with (0 + Z.abs e * 2) by ring. rewrite Z.mod_add by lia. reflexivity. }
    rewrite Hbit.
    replace (2 * Z.abs e - (if mp then 1 else 0) + (if mp then 1 else 0)) with (Z.abs e * 2) by (destruct mp; lia).
    rewrite Z.quot_div_nonneg by lia. rewrite Z.div_mul by lia.
    assert (Hneg : negb ((if mp then 1 else 0) =? 0) = mp) by (destruct mp; reflexivity).
    rewrite Hneg.
    (* sign analysis *)
    unfold mp, ComputeMap.
    destruct (Z.eqb_spec k 0) as [Ek|Nk]; cbn [negb andb orb];
      destruct (Z.gtb_spec e 0); destruct (Z.ltb_spec e 0); try lia;
      destruct (Z.ltb_spec (2 * rc_NN c) (rc_N c)); destruct (Z.geb_spec (2 * rc_NN c) (rc_N c)); try lia;
      cbn [negb andb orb Bool.eqb]; lia. }
  fold mp. fold em. rewrite Herr. reflexivity.
Qed.
