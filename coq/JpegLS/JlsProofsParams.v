(* C14: the coded parameter function (ComputeCodingParameters / computeThresholds / bitsLen)
   against the formulas of T.87 A.2.1 and C.2.4.1.1, over the whole domain
   2 <= P <= 16, 0 <= NEAR <= min(255, MAXVAL/2)  (2302 pairs, decided by vm_compute). *)
From V Require Import Common.Base JpegLS.JlsParams.

Definition zrange (lo n : Z) : list Z := map (fun i => lo + Z.of_nat i) (seq 0 (Z.to_nat n)).

Lemma in_zrange : forall lo n x, lo <= x < lo + n -> In x (zrange lo n).
Proof.
  intros lo n x H. unfold zrange. apply in_map_iff. exists (Z.to_nat (x - lo)). split.
  - rewrite Z2Nat.id by lia. lia.
  - apply in_seq. split; [lia|]. simpl. apply Z2Nat.inj_lt; lia.
Qed.

(* all (P, NEAR) of the domain *)
Definition params_domain : list (Z * Z) :=
  flat_map (fun P => map (fun near => (P, near)) (zrange 0 (near_max P + 1))) (zrange 2 15).

Lemma in_params_domain : forall P near,
  2 <= P <= 16 -> 0 <= near <= near_max P -> In (P, near) params_domain.
Proof.
  intros P near HP Hn. unfold params_domain. apply in_flat_map. exists P. split.
  - apply in_zrange. lia.
  - apply in_map. apply in_zrange. lia.
Qed.

Lemma domain_forall : forall (f : Z * Z -> bool),
  forallb f params_domain = true ->
  forall P near, 2 <= P <= 16 -> 0 <= near <= near_max P -> f (P, near) = true.
Proof.
  intros f H P near HP Hn. rewrite forallb_forall in H. apply H. apply in_params_domain; assumption.
Qed.

Lemma jparams_eqb_eq : forall a b, jparams_eqb a b = true -> a = b.
Proof.
  intros [a1 a2 a3 a4 a5 a6 a7 a8 a9] [b1 b2 b3 b4 b5 b6 b7 b8 b9]. unfold jparams_eqb. cbn.
  rewrite !andb_true_iff, !Z.eqb_eq. intuition congruence.
Qed.

Lemma params_domain_eq :
  forallb (fun pn => jparams_eqb (jls_params (fst pn) (snd pn)) (t87_params (fst pn) (snd pn)) &&
                     (a_init (jp_range (jls_params (fst pn) (snd pn))) =?
                      t87_a_init (jp_range (t87_params (fst pn) (snd pn)))))
          params_domain = true.
Proof. vm_compute. reflexivity. Qed.

(* params_match_T87: for every P in 2..16 and NEAR in 0..min(255, MAXVAL/2) the coded parameter
   function (RANGE, qbpp, LIMIT, T1, T2, T3, RESET) equals the standard's formulas, and so does
   the initial value of A.
   History: until /repo commit 44f34f1 this was refuted (finding F07): clamp(v, lo, hi) returned
   hi for v > hi where T.87 Figure C.3 returns the lower bound; witness P = 8, NEAR = 34: coded
   T3 = 255, T.87 T3 = T2 = 177; 483 of the 2302 pairs deviated, the smallest P = 3, NEAR = 2. *)
Theorem params_match_T87 : forall P near,
  2 <= P <= 16 -> 0 <= near <= near_max P ->
  jls_params P near = t87_params P near /\
  a_init (jp_range (jls_params P near)) = t87_a_init (jp_range (t87_params P near)).
Proof.
  intros P near HP Hn.
  pose proof (domain_forall _ params_domain_eq P near HP Hn) as H. cbn [fst snd] in H.
  apply andb_true_iff in H. destruct H as [H1 H2].
  split; [apply jparams_eqb_eq; exact H1 | apply Z.eqb_eq; exact H2].
Qed.

(* the historical witness now agrees *)
Example params_P8_NEAR34 : jp_t3 (jls_params 8 34) = 177 /\ jp_t3 (t87_params 8 34) = 177.
Proof. split; vm_compute; reflexivity. Qed.

(* number of (P, NEAR) pairs of the domain *)
Lemma params_domain_size : length params_domain = 2302%nat.
Proof. vm_compute. reflexivity. Qed.

(* ---- facts about the coded parameters that the coding theorems use, whole domain ---- *)

Definition params_facts_point (pn : Z * Z) : bool :=
  let '(P, near) := pn in
  let p := jls_params P near in
  (jp_maxval p =? 2 ^ P - 1) && (jp_near p =? near) &&
  (jp_range p =? (jp_maxval p + 2 * near) / (2 * near + 1) + 1) &&
  (2 <=? jp_range p) && (jp_range p <=? 2 ^ jp_qbpp p) &&
  (1 <=? jp_qbpp p) && (jp_qbpp p <=? 16) &&
  (jp_qbpp p + 1 <? jp_limit p - 16) && (jp_limit p <=? 64) &&
  (jp_reset p =? 64) &&
  (near + 1 <=? jp_t1 p) && (jp_t1 p <=? jp_t2 p) && (jp_t2 p <=? jp_t3 p) &&
  (2 <=? a_init (jp_range p)).

Lemma params_facts_ok : forallb params_facts_point params_domain = true.
Proof. vm_compute. reflexivity. Qed.

Record params_facts (P near : Z) (p : jparams) : Prop := mkParamsFacts {
  pf_maxval : jp_maxval p = 2 ^ P - 1;
  pf_near : jp_near p = near;
  pf_range : jp_range p = (jp_maxval p + 2 * near) / (2 * near + 1) + 1;
  pf_range2 : 2 <= jp_range p;
  pf_range_qbpp : jp_range p <= 2 ^ jp_qbpp p;
  pf_qbpp1 : 1 <= jp_qbpp p;
  pf_qbpp16 : jp_qbpp p <= 16;
  pf_limit_lo : jp_qbpp p + 1 < jp_limit p - 16;     (* room for J[RunIndex] + 1 <= 16 *)
  pf_limit_hi : jp_limit p <= 64;
  pf_reset : jp_reset p = 64;
  pf_t1 : near + 1 <= jp_t1 p;
  pf_t12 : jp_t1 p <= jp_t2 p;
  pf_t23 : jp_t2 p <= jp_t3 p;
  pf_ainit : 2 <= a_init (jp_range p)
}.

Theorem jls_params_facts : forall P near,
  2 <= P <= 16 -> 0 <= near <= near_max P -> params_facts P near (jls_params P near).
Proof.
  intros P near HP Hn.
  pose proof (domain_forall _ params_facts_ok P near HP Hn) as H.
  unfold params_facts_point in H.
  rewrite !andb_true_iff in H.
  repeat match goal with H : _ /\ _ |- _ => destruct H end.
  constructor;
    repeat match goal with
           | H : (_ =? _) = true |- _ => apply Z.eqb_eq in H
           | H : (_ <=? _) = true |- _ => apply Z.leb_le in H
           | H : (_ <? _) = true |- _ => apply Z.ltb_lt in H
           end; assumption.
Qed.
