(* C14: the coded parameter function (ComputeCodingParameters / computeThresholds / bitsLen)
   against the formulas of T.87 A.2.1 and C.2.4.1.1, over the whole domain
   2 <= P <= 16, 0 <= NEAR <= min(255, MAXVAL/2)  (2302 pairs, decided by vm_compute). *)
From V Require Import Common.Base JpegLS.JlsParams.

Definition zrange (lo n : Z) : list Z := map (fun i => lo + Z.of_nat i) (seq 0 (Z.to_nat n)).

Lemma in_zrange : forall lo n x, lo <= x < lo + n -> In x (zrange lo n).
Proof.
  intros lo n x H. unfold zrange. apply in_map_iff. exists (Z.to_nat (x - lo)). split.
  - rewrite Z2Nat.id by lia. lia.
  - apply in_seq. split; [lia|]. simpl. apply Z2Nat.inj_lt; lia.
Qed.

(* all (P, NEAR) of the domain *)
Definition params_domain : list (Z * Z) :=
  flat_map (fun P => map (fun near => (P, near)) (zrange 0 (near_max P + 1))) (zrange 2 15).

Lemma in_params_domain : forall P near,
  2 <= P <= 16 -> 0 <= near <= near_max P -> In (P, near) params_domain.
Proof.
  intros P near HP Hn. unfold params_domain. apply in_flat_map. exists P. split.
  - apply in_zrange. lia.
  - apply in_map. apply in_zrange. lia.
Qed.

Lemma domain_forall : forall (f : Z * Z -> bool),
  forallb f params_domain = true ->
  forall P near, 2 <= P <= 16 -> 0 <= near <= near_max P -> f (P, near) = true.
Proof.
  intros f H P near HP Hn. rewrite forallb_forall in H. apply H. apply in_params_domain; assumption.
Qed.

(* ---- the full statement, which the code as it stands violates ---- *)
Definition params_match_T87_statement : Prop :=
  forall P near, 2 <= P <= 16 -> 0 <= near <= near_max P -> jls_params P near = t87_params P near.

(* P = 8, NEAR = 34: the coded T3 is 255 (clamp to MAXVAL), T.87 C.2.4.1.1.1 gives T3 = T2 = 177
   (CLAMP returns its lower bound when the candidate exceeds MAXVAL). *)
Theorem params_match_T87_refuted :
  exists P near, 2 <= P <= 16 /\ 0 <= near <= near_max P /\
                 jls_params P near <> t87_params P near /\
                 jp_t3 (jls_params P near) = 255 /\ jp_t3 (t87_params P near) = 177.
Proof.
  exists 8, 34. repeat split; try (vm_compute; congruence).
Qed.

(* smallest instance: P = 3, NEAR = 2 *)
Theorem params_match_T87_refuted_smallest :
  jls_params 3 2 <> t87_params 3 2 /\
  forallb (fun pn => jparams_eqb (jls_params (fst pn) (snd pn)) (t87_params (fst pn) (snd pn)))
          (filter (fun pn => (fst pn <? 3) || ((fst pn =? 3) && (snd pn <? 2))) params_domain) = true.
Proof. split; [vm_compute; discriminate | vm_compute; reflexivity]. Qed.

(* ---- what is true ---- *)

Lemma jparams_eqb_eq : forall a b, jparams_eqb a b = true -> a = b.
Proof.
  intros [a1 a2 a3 a4 a5 a6 a7 a8 a9] [b1 b2 b3 b4 b5 b6 b7 b8 b9]. unfold jparams_eqb. cbn.
  rewrite !andb_true_iff, !Z.eqb_eq. intuition congruence.
Qed.

(* the candidate value of T3 before clamping, as T.87 C.2.4.1.1 computes it *)
Definition t3_candidate (maxval near : Z) : Z :=
  if maxval >=? 128 then (Z.min maxval 4095 + 128) / 256 * (21 - 4) + 4 + 7 * near
  else Z.max 4 (21 / (256 / (maxval + 1)) + 7 * near).

(* over the whole domain: the coded parameters are the standard's whenever the T3 candidate does
   not exceed MAXVAL (otherwise they coincide only by accident, e.g. P = 2); everything except
   T1..T3 always agrees *)
Definition params_point_ok (pn : Z * Z) : bool :=
  let '(P, near) := pn in
  let a := jls_params P near in
  let b := t87_params P near in
  (negb (t3_candidate (2 ^ P - 1) near <=? 2 ^ P - 1) || jparams_eqb a b) &&
  (jp_maxval a =? jp_maxval b) && (jp_near a =? jp_near b) && (jp_range a =? jp_range b) &&
  (jp_qbpp a =? jp_qbpp b) && (jp_limit a =? jp_limit b) && (jp_reset a =? jp_reset b) &&
  (a_init (jp_range a) =? t87_a_init (jp_range b)).

Lemma params_domain_ok : forallb params_point_ok params_domain = true.
Proof. vm_compute. reflexivity. Qed.

Theorem params_match_T87_partial : forall P near,
  2 <= P <= 16 -> 0 <= near <= near_max P ->
  let a := jls_params P near in
  let b := t87_params P near in
  (t3_candidate (2 ^ P - 1) near <= 2 ^ P - 1 -> a = b) /\
  jp_maxval a = jp_maxval b /\ jp_near a = jp_near b /\ jp_range a = jp_range b /\
  jp_qbpp a = jp_qbpp b /\ jp_limit a = jp_limit b /\ jp_reset a = jp_reset b /\
  a_init (jp_range a) = t87_a_init (jp_range b).
Proof.
  intros P near HP Hn a b.
  pose proof (domain_forall _ params_domain_ok P near HP Hn) as H.
  unfold params_point_ok in H. fold a b in H.
  rewrite !andb_true_iff, !Z.eqb_eq in H.
  destruct H as [[[[[[[H0 H1] H2] H3] H4] H5] H6] H7].
  repeat split; try assumption.
  intro Hc. apply jparams_eqb_eq. apply Z.leb_le in Hc. rewrite Hc in H0. exact H0.
Qed.

(* NEAR = 0 (C03, and the lossless half of C14): the coded parameters are the standard's *)
Theorem params_match_T87_lossless : forall P, 2 <= P <= 16 -> jls_params P 0 = t87_params P 0.
Proof.
  intros P HP.
  assert (H : forallb (fun P => jparams_eqb (jls_params P 0) (t87_params P 0)) (zrange 2 15) = true)
    by (vm_compute; reflexivity).
  rewrite forallb_forall in H. apply jparams_eqb_eq. apply H. apply in_zrange. lia.
Qed.

(* number of (P, NEAR) pairs of the domain, and of those where the thresholds deviate *)
Lemma params_domain_size : length params_domain = 2302%nat.
Proof. vm_compute. reflexivity. Qed.
Lemma params_deviating_count :
  length (filter (fun pn => negb (jparams_eqb (jls_params (fst pn) (snd pn)) (t87_params (fst pn) (snd pn))))
                 params_domain) = 483%nat.
Proof. vm_compute. reflexivity. Qed.

(* ---- facts about the coded parameters that the coding theorems use, whole domain ---- *)

Definition params_facts_point (pn : Z * Z) : bool :=
  let '(P, near) := pn in
  let p := jls_params P near in
  (jp_maxval p =? 2 ^ P - 1) && (jp_near p =? near) &&
  (jp_range p =? (jp_maxval p + 2 * near) / (2 * near + 1) + 1) &&
  (2 <=? jp_range p) && (jp_range p <=? 2 ^ jp_qbpp p) &&
  (1 <=? jp_qbpp p) && (jp_qbpp p <=? 16) &&
  (jp_qbpp p + 1 <? jp_limit p - 16) && (jp_limit p <=? 64) &&
  (jp_reset p =? 64) &&
  (near + 1 <=? jp_t1 p) && (jp_t1 p <=? jp_t2 p) && (jp_t2 p <=? jp_t3 p) &&
  (2 <=? a_init (jp_range p)).

Lemma params_facts_ok : forallb params_facts_point params_domain = true.
Proof. vm_compute. reflexivity. Qed.

Record params_facts (P near : Z) (p : jparams) : Prop := mkParamsFacts {
  pf_maxval : jp_maxval p = 2 ^ P - 1;
  pf_near : jp_near p = near;
  pf_range : jp_range p = (jp_maxval p + 2 * near) / (2 * near + 1) + 1;
  pf_range2 : 2 <= jp_range p;
  pf_range_qbpp : jp_range p <= 2 ^ jp_qbpp p;
  pf_qbpp1 : 1 <= jp_qbpp p;
  pf_qbpp16 : jp_qbpp p <= 16;
  pf_limit_lo : jp_qbpp p + 1 < jp_limit p - 16;     (* room for J[RunIndex] + 1 <= 16 *)
  pf_limit_hi : jp_limit p <= 64;
  pf_reset : jp_reset p = 64;
  pf_t1 : near + 1 <= jp_t1 p;
  pf_t12 : jp_t1 p <= jp_t2 p;
  pf_t23 : jp_t2 p <= jp_t3 p;
  pf_ainit : 2 <= a_init (jp_range p)
}.

Theorem jls_params_facts : forall P near,
  2 <= P <= 16 -> 0 <= near <= near_max P -> params_facts P near (jls_params P near).
Proof.
  intros P near HP Hn.
  pose proof (domain_forall _ params_facts_ok P near HP Hn) as H.
  unfold params_facts_point in H.
  rewrite !andb_true_iff in H.
  repeat match goal with H : _ /\ _ |- _ => destruct H end.
  constructor;
    repeat match goal with
           | H : (_ =? _) = true |- _ => apply Z.eqb_eq in H
           | H : (_ <=? _) = true |- _ => apply Z.leb_le in H
           | H : (_ <? _) = true |- _ => apply Z.ltb_lt in H
           end; assumption.
Qed.
