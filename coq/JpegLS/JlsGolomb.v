(* EXTRACT *)
(* jpegls/lossless/golomb.go.
   - GolombWriter as coded: 32-bit buffer, freeBitCount, isFFWritten, flush (<= 4 bytes, 7 bits
     after a 0xFF byte), WriteBits with the double flush, Flush (end_scan padding).
     An encoder run is the list of its WriteBits calls ("write ops" (value, bitCount)), replayed
     through the writer by gw_run.
   - the same stream semantics on bit lists (jls_pack) used by the theorems: bits are packed
     MSB first, after a 0xFF byte only 7 bits go into the next byte.
   - EncodeMappedValue (limited-length Golomb code with escape, unary splits) as write ops.
   - GolombReader: bit-list semantics (the 64-bit cache / positionFF fast path is not modelled):
     jls_bits_of_bytes removes the stuffed bit and stops at a marker; ReadBit/ReadBits/DecodeValue
     consume a bit list. *)
From V Require Import Common.Base.

(* linear-time list reversal (List.rev is quadratic when extracted); frev l = rev l *)
Definition frev {A : Type} (l : list A) : list A := rev_append l [].

(* ---------- GolombWriter, as coded ---------- *)

Record gwst : Type := mkGw {
  gw_buf : Z;          (* bitBuffer uint32 *)
  gw_free : Z;         (* freeBitCount *)
  gw_ff : bool;        (* isFFWritten *)
  gw_out : list Z      (* bytes written so far, most recent first *)
}.

Definition gw_init : gwst := mkGw 0 32 false [].

(* one iteration of the loop in flush() that writes a byte *)
Definition gw_flush_byte (g : gwst) : gwst :=
  if gw_ff g then
    let b := wrapU 8 (Z.shiftr (gw_buf g) 25) in
    mkGw (wrapU 32 (Z.shiftl (gw_buf g) 7)) (gw_free g + 7) (b =? 255) (b :: gw_out g)
  else
    let b := wrapU 8 (Z.shiftr (gw_buf g) 24) in
    mkGw (wrapU 32 (Z.shiftl (gw_buf g) 8)) (gw_free g + 8) (b =? 255) (b :: gw_out g).

(* func (gw *GolombWriter) flush() : for i := 0; i < 4; i++ { if free >= 32 { free = 32; break } ... } *)
Fixpoint gw_flush_n (n : nat) (g : gwst) : gwst :=
  match n with
  | O => g
  | S n' =>
    if gw_free g >=? 32 then mkGw (gw_buf g) 32 (gw_ff g) (gw_out g)
    else gw_flush_n n' (gw_flush_byte g)
  end.
Definition gw_flush (g : gwst) : gwst := gw_flush_n 4 g.

Definition gw_set (g : gwst) (buf free : Z) : gwst := mkGw buf free (gw_ff g) (gw_out g).

(* func (gw *GolombWriter) WriteBits(bits uint32, bitCount int) *)
Definition gw_write_bits (bits n : Z) (g : gwst) : gwst :=
  let free := gw_free g - n in
  if free >=? 0 then
    gw_set g (Z.lor (gw_buf g) (wrapU 32 (Z.shiftl bits free))) free
  else
    let g1 := gw_flush (gw_set g (Z.lor (gw_buf g) (Z.shiftr bits (- free))) free) in
    let g2 := if gw_free g1 <? 0
              then gw_flush (gw_set g1 (Z.lor (gw_buf g1) (Z.shiftr bits (- gw_free g1))) (gw_free g1))
              else g1 in
    gw_set g2 (Z.lor (gw_buf g2) (wrapU 32 (Z.shiftl bits (gw_free g2)))) (gw_free g2).

(* func (gw *GolombWriter) Flush() *)
Definition gw_Flush (g : gwst) : gwst :=
  let g1 := gw_flush g in
  let g2 := if gw_ff g1 then gw_write_bits 0 (Z.rem (gw_free g1 - 1) 8) g1 else g1 in
  gw_flush g2.

Definition wop : Type := (Z * Z)%type.    (* WriteBits(value, bitCount) *)

Fixpoint gw_run_ops (ops : list wop) (g : gwst) : gwst :=
  match ops with
  | [] => g
  | (v, n) :: r => gw_run_ops r (gw_write_bits v n g)
  end.

(* scan bytes of an encoder run: all WriteBits calls, then Flush *)
Definition gw_run (ops : list wop) : list Z := frev (gw_out (gw_Flush (gw_run_ops ops gw_init))).

(* ---------- bit-list view of the same stream ---------- *)

(* the n low bits of v, most significant first *)
Fixpoint bits_of_nat (n : nat) (v : Z) : list bool :=
  match n with
  | O => []
  | S n' => Z.testbit v (Z.of_nat n') :: bits_of_nat n' v
  end.
Definition bits_of (v n : Z) : list bool := bits_of_nat (Z.to_nat n) v.

Fixpoint ops_bits (ops : list wop) : list bool :=
  match ops with
  | [] => []
  | (v, n) :: r => bits_of v n ++ ops_bits r
  end.

Definition b2z (b : bool) : Z := if b then 1 else 0.

(* pack bits into bytes; acc holds `have` bits of the byte under construction, which takes
   7 bits when the previous byte was 0xFF and 8 otherwise. At the end a partial byte is padded
   with zero bits; if nothing is pending and the last byte was 0xFF a zero byte follows
   (that is what Flush does). *)
Fixpoint jls_pack_go (bits : list bool) (acc have : Z) (ff : bool) : list Z :=
  match bits with
  | [] =>
    if have >? 0 then [Z.shiftl acc ((if ff then 7 else 8) - have)]
    else if ff then [0] else []
  | b :: r =>
    let acc' := 2 * acc + b2z b in
    let have' := have + 1 in
    if have' =? (if ff then 7 else 8)
    then acc' :: jls_pack_go r 0 0 (acc' =? 255)
    else jls_pack_go r acc' have' ff
  end.
Definition jls_pack (bits : list bool) : list Z := jls_pack_go bits 0 0 false.

(* ---------- EncodeMappedValue as write ops ---------- *)

(* WriteZeros(n): chunks of at most 31 bits. n <= limit <= 64 at every call site. *)
Definition write_zeros_ops (n : Z) : list wop :=
  if n <=? 0 then []
  else if n <=? 31 then [(0, n)]
  else if n <=? 62 then [(0, 31); (0, n - 31)]
  else [(0, 31); (0, 31); (0, n - 62)].

(* WriteUnary(n) = WriteBits(1, n+1) *)
Definition write_unary_ops (n : Z) : list wop := [(1, n + 1)].

(* func (gw *GolombWriter) EncodeMappedValue(k, mappedError, limit, quantizedBitsPerPixel) *)
Definition encode_mapped_ops (k m limit qbpp : Z) : list wop :=
  let high := Z.shiftr m k in
  if high <? limit - (qbpp + 1) then
    let pre := if high + 1 >? 31 then write_zeros_ops (Z.quot high 2) else [] in
    let high' := if high + 1 >? 31 then high - Z.quot high 2 else high in
    pre ++ write_unary_ops high' ++
    (if k >? 0 then [(wrapU 32 (Z.land m (Z.shiftl 1 k - 1)), k)] else [])
  else
    let esc := limit - qbpp in
    (if esc >? 31 then write_zeros_ops 31 ++ write_unary_ops (esc - 31 - 1)
     else write_unary_ops (esc - 1)) ++
    [(wrapU 32 (Z.land (m - 1) (Z.shiftl 1 qbpp - 1)), qbpp)].

(* ---------- GolombReader: bit-list semantics ---------- *)

Definition byte_bits8 (b : Z) : list bool :=
  [Z.testbit b 7; Z.testbit b 6; Z.testbit b 5; Z.testbit b 4;
   Z.testbit b 3; Z.testbit b 2; Z.testbit b 1; Z.testbit b 0].
Definition byte_bits7 (b : Z) : list bool :=
  [Z.testbit b 6; Z.testbit b 5; Z.testbit b 4;
   Z.testbit b 3; Z.testbit b 2; Z.testbit b 1; Z.testbit b 0].

(* fillReadCache, slow path, as a function of the whole buffer: a byte after 0xFF contributes 7
   bits; 0xFF that is last or followed by a byte >= 0x80 is a marker: reading stops there.
   ff = the previous byte was 0xFF (and was consumed). *)
Fixpoint jls_bits_go (bs : list Z) (ff : bool) : list bool :=
  match bs with
  | [] => []
  | b :: r =>
    if b =? 255 then
      match r with
      | [] => []
      | b2 :: _ => if Z.land b2 128 =? 0
                   then (if ff then byte_bits7 b else byte_bits8 b) ++ jls_bits_go r true
                   else []
      end
    else (if ff then byte_bits7 b else byte_bits8 b) ++ jls_bits_go r false
  end.
Definition jls_bits_of_bytes (bs : list Z) : list bool := jls_bits_go bs false.

(* ReadBits(n): n = 0 -> 0 ; n > 32 -> error ; fewer than n bits left -> error *)
Fixpoint read_bits_nat (n : nat) (bits : list bool) (acc : Z) : option (Z * list bool) :=
  match n with
  | O => Some (acc, bits)
  | S n' => match bits with
            | [] => None
            | b :: r => read_bits_nat n' r (2 * acc + b2z b)
            end
  end.
Definition read_bits (n : Z) (bits : list bool) : option (Z * list bool) :=
  if n =? 0 then Some (0, bits)
  else if n >? 32 then None
  else read_bits_nat (Z.to_nat n) bits 0.

(* the unary prefix loop of DecodeValue: count zeros up to the first one; more than 1000 zeros
   is an error ("highBits exceeded safety limit") *)
Fixpoint dec_unary (bits : list bool) (cnt : Z) : option (Z * list bool) :=
  match bits with
  | [] => None
  | true :: r => Some (cnt, r)
  | false :: r => if cnt + 1 >? 1000 then None else dec_unary r (cnt + 1)
  end.

(* func (gr *GolombReader) DecodeValue(k, limit, quantizedBitsPerPixel) *)
Definition decode_value (k limit qbpp : Z) (bits : list bool) : option (Z * list bool) :=
  match dec_unary bits 0 with
  | None => None
  | Some (high, r) =>
    if high >=? limit - (qbpp + 1) then
      match read_bits qbpp r with
      | None => None
      | Some (v, r') => Some (v + 1, r')
      end
    else if k =? 0 then Some (high, r)
    else match read_bits k r with
         | None => None
         | Some (v, r') => Some (Z.shiftl high k + v, r')
         end
  end.
