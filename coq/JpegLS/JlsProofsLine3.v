(* Lockstep of encoder and decoder over the sample-interleaved (three component) scan. *)
From V Require Import Common.Base JpegLS.JlsParams JpegLS.JlsGolomb JpegLS.JlsRun JpegLS.JlsModel.
From V Require Import JpegLS.JlsProofsParams JpegLS.JlsProofsGolomb JpegLS.JlsProofsSample
                      JpegLS.JlsProofsRun JpegLS.JlsProofsNear0 JpegLS.JlsProofsInterrupt JpegLS.JlsProofsLine JpegLS.JlsProofsWriter.

Definition in_range3 (P : Z) (v : px3) : Prop :=
  in_range P (p3_0 v) /\ in_range P (p3_1 v) /\ in_range P (p3_2 v).
Definition near_close3 (near : Z) (s r : px3) : Prop :=
  near_close near (p3_0 s) (p3_0 r) /\ near_close near (p3_1 s) (p3_1 r) /\ near_close near (p3_2 s) (p3_2 r).

Lemma z3_in_range : forall P, 2 <= P <= 16 -> in_range3 P z3.
Proof. intros P HP. pose proof (pow2_bounds P HP). unfold in_range3, in_range, z3. cbn. lia. Qed.

Lemma push_n3_repeat : forall m v l, push_n3 m v l = repeat v m ++ l.
Proof.
  induction m as [|m IH]; intros v l; cbn [push_n3 repeat app]; [reflexivity|].
  rewrite IH. rewrite repeat_snoc. reflexivity.
Qed.

Lemma w3_in_range : forall P pw, 2 <= P <= 16 -> Forall (in_range3 P) pw ->
  in_range3 P (w3_0 pw) /\ in_range3 P (w3_1 pw) /\ in_range3 P (w3_2 pw).
Proof.
  intros P pw HP H. pose proof (z3_in_range P HP) as Hz.
  destruct pw as [|a [|b [|c t]]]; cbn [w3_0 w3_1 w3_2];
    repeat match goal with H : Forall _ (_ :: _) |- _ => inversion H; clear H; subst end; auto.
Qed.

Section Line3.
  Variables (P near : Z) (pk : pkg).
  Hypothesis HP : 2 <= P <= 16.
  Hypothesis Hnear : 0 <= near <= near_max P.
  Hypothesis Hpk : pk_ok pk near.
  Let p := jls_params P near.

  Lemma run_count3_spec : forall lv inp n0 m0 n m rest,
    run_count3 pk p lv inp n0 m0 = (n, m, rest) ->
    exists run, inp = run ++ rest /\ m = (m0 + length run)%nat /\ n = n0 + Z.of_nat (length run) /\
                Forall (fun v => near_close3 near v lv) run.
  Proof.
    induction inp as [|v t IH]; intros n0 m0 n m rest H; cbn [run_count3] in H.
    - inversion H; subst. exists []. repeat split; try constructor; simpl; lia.
    - destruct (is_run_pixel3 pk p v lv) eqn:E.
      + destruct (IH _ _ _ _ _ H) as (run & Hinp & Hm & Hn & Hall).
        exists (v :: run). subst. repeat split; try assumption; cbn [length app]; try lia.
        constructor; [|assumption].
        unfold is_run_pixel3 in E. apply andb_true_iff in E. destruct E as [E E2].
        apply andb_true_iff in E. destruct E as [E0 E1].
        unfold near_close3, near_close.
        repeat split; apply (is_run_pixel_true P near pk HP Hnear Hpk); assumption.
      + inversion H; subst. exists []. repeat split; try constructor; simpl; lia.
  Qed.

  Variables (w y : Z) (plf pplf : px3).
  Hypothesis Hplf : in_range3 P plf.

  (* Ra and Rb delivered by sampleNeighbors are in range *)
  Lemma nb3_range : forall x left pw sel ra rb rc rd,
    (sel = p3_0 \/ sel = p3_1 \/ sel = p3_2) ->
    in_range3 P left -> Forall (in_range3 P) pw ->
    nb3 w y x plf pplf left pw sel = (ra, rb, rc, rd) -> in_range P ra /\ in_range P rb.
  Proof.
    intros x left pw sel ra rb rc rd Hsel Hl Hpw H.
    pose proof (pow2_bounds P HP) as Hpb.
    destruct (w3_in_range P pw HP Hpw) as (H0 & H1 & H2).
    assert (Hs : forall v, in_range3 P v -> in_range P (sel v)).
    { intros v (A & B & C). destruct Hsel as [-> | [-> | ->]]; assumption. }
    unfold nb3, sampleNeighbors in H.
    destruct (x =? 0); inversion H; subst; split; try (apply Hs; assumption);
      destruct (y >? 0); try (apply Hs; assumption); unfold in_range; lia.
  Qed.

  Lemma regular_i_lockstep : forall st a b c d x rest ops st1 v,
    jst_ok st -> in_range P x ->
    regular_enc_i pk p st (context_qs p a b c d) a b c x = Some (ops, st1, v) ->
    regular_dec_i pk p st (context_qs p a b c d) a b c (ops_bits ops ++ rest) = Some (v, st1, rest) /\
    jst_ok st1 /\ near_close near x v /\ in_range P v /\ Forall wop_ok ops.
  Proof.
    intros st a b c d x rest ops st1 v Hst Hx H.
    unfold regular_enc_i in H. unfold regular_dec_i.
    destruct (ctx_index_in_range pk _ (context_qs_range p a b c d)) as [Hci _]. rewrite Hci in *.
    destruct (regular_enc pk true p (nth (Z.to_nat (Z.abs (context_qs p a b c d))) (js_ctxs st) (mkCtx 0 0 0 0))
                (context_qs p a b c d) a b c x) as [[ops' c'] stored] eqn:E.
    inversion H; subst ops' st1 stored.
    destruct (regular_lockstep P near pk HP Hnear Hpk true _ _ a b c x rest ops c' v (fun _ => eq_refl) Hx E)
      as (Hd & Hc & Hr & Hwf).
    fold p in Hd. rewrite Hd. split; [reflexivity|]. split; [apply jst_ok_set_ctx; assumption|]. split; [assumption|]. split; assumption.
  Qed.

  Lemma line3_lockstep : forall fuel st x pw cur inp ops_rev st' cur' ops_rev',
    jst_ok st -> 0 <= x -> x + Z.of_nat (length inp) = w ->
    Forall (in_range3 P) inp -> Forall (in_range3 P) cur -> Forall (in_range3 P) pw ->
    enc_line3 fuel pk p w y plf pplf st x pw cur inp ops_rev = Ok (st', cur', ops_rev') ->
    exists ops recs,
      ops_rev' = rev ops ++ ops_rev /\ cur' = rev recs ++ cur /\
      Forall2 (near_close3 near) inp recs /\ Forall (in_range3 P) recs /\ jst_ok st' /\ Forall wop_ok ops /\
      forall rest, dec_line3 fuel pk p w y plf pplf st x pw cur (ops_bits ops ++ rest) = Ok (st', cur', rest).
  Proof.
    pose proof (pow2_bounds P HP) as Hpb. pose proof (z3_in_range P HP) as Hz3.
    induction fuel as [|f IH]; intros st x pw cur inp ops_rev st' cur' ops_rev' Hst Hx0 Hxw Hinp Hcur Hpw Henc.
    - destruct inp as [|xs inp']; cbn [enc_line3] in Henc; [|discriminate].
      inversion Henc; subst st' cur' ops_rev'. exists [], []. cbn [rev app ops_bits].
      split; [reflexivity|]. split; [reflexivity|]. split; [constructor|]. split; [constructor|]. split; [exact Hst|]. split; [constructor|].
      intros rest. cbn [dec_line3 length] in *. destruct (Z.geb_spec x w); [reflexivity|lia].
    - destruct inp as [|xs inp']; cbn [enc_line3] in Henc.
      + inversion Henc; subst st' cur' ops_rev'. exists [], []. cbn [rev app ops_bits].
        split; [reflexivity|]. split; [reflexivity|]. split; [constructor|]. split; [constructor|]. split; [exact Hst|]. split; [constructor|].
        intros rest. cbn [dec_line3 length] in *. destruct (Z.geb_spec x w); [reflexivity|lia].
      + cbn [length] in Hxw. inversion Hinp as [|? ? Hxs Hinp']. subst x0 l.
        destruct Hxs as (Hxs0 & Hxs1 & Hxs2).
        set (left := match cur with l :: _ => l | [] => z3 end) in *.
        assert (Hleft : in_range3 P left).
        { unfold left. destruct cur; [exact Hz3|]. inversion Hcur; assumption. }
        destruct (nb3 w y x plf pplf left pw p3_0) as [[[ra0 rb0] rc0] rd0] eqn:En0.
        destruct (nb3 w y x plf pplf left pw p3_1) as [[[ra1 rb1] rc1] rd1] eqn:En1.
        destruct (nb3 w y x plf pplf left pw p3_2) as [[[ra2 rb2] rc2] rd2] eqn:En2.
        destruct (nb3_range _ _ _ _ _ _ _ _ (or_introl eq_refl) Hleft Hpw En0) as [Hra0 _].
        destruct (nb3_range _ _ _ _ _ _ _ _ (or_intror (or_introl eq_refl)) Hleft Hpw En1) as [Hra1 _].
        destruct (nb3_range _ _ _ _ _ _ _ _ (or_intror (or_intror eq_refl)) Hleft Hpw En2) as [Hra2 _].
        unfold qs_of in Henc. cbn [fst snd] in Henc.
        set (q0 := context_qs p ra0 rb0 rc0 rd0) in *.
        set (q1 := context_qs p ra1 rb1 rc1 rd1) in *.
        set (q2 := context_qs p ra2 rb2 rc2 rd2) in *.
        destruct ((q0 =? 0) && (q1 =? 0) && (q2 =? 0)) eqn:Eq.
        * (* run mode *)
          set (lv := (ra0, ra1, ra2) : px3) in *.
          assert (Hlv : in_range3 P lv) by (unfold lv, in_range3; cbn; auto).
          destruct (run_count3 pk p lv (xs :: inp') 0 0) as [[n m] rest0] eqn:Erc.
          destruct (run_count3_spec _ _ _ _ _ _ _ Erc) as (run & Hsplit & Hm & Hn & Hrun).
          cbn [Nat.add] in Hm. rewrite Z.add_0_l in Hn. subst m n.
          pose proof Hst as (Hri & Hok0 & Hty0 & Hok1 & Hty1).
          assert (Hlen : Z.of_nat (length (xs :: inp')) = Z.of_nat (length run) + Z.of_nat (length rest0)).
          { rewrite Hsplit, app_length. lia. }
          cbn [length] in Hlen.
          set (remaining := w - x).
          assert (Hrem : 1 <= remaining) by (unfold remaining; lia).
          assert (Heol : (Z.of_nat (length run) =? remaining) = match rest0 with [] => true | _ :: _ => false end).
          { unfold remaining. destruct rest0; cbn [length] in Hlen.
            - apply Z.eqb_eq. lia.
            - apply Z.eqb_neq. lia. }
          destruct (run_roundtrip (S (length run)) (Z.of_nat (length run)) remaining (js_ri st) [] Hri
                      ltac:(unfold remaining; lia) Hrem ltac:(lia)) as (rops & ri' & Hrl & Hri' & _ & Hwfr).
          rewrite Heol in Hrl. rewrite Hrl in Henc.
          assert (HrunR : Forall (in_range3 P) (repeat lv (length run))) by (apply Forall_repeat; assumption).
          assert (Hst1 : jst_ok (set_ri st ri')) by (apply jst_ok_set_ri; assumption).
          assert (Hdecrl : forall R, DecodeRunLength (ops_bits rops ++ R) remaining (js_ri st) =
                                     Some (Z.of_nat (length run), ri', R)).
          { intros R.
            destruct (run_roundtrip (S (length run)) (Z.of_nat (length run)) remaining (js_ri st) R Hri
                        ltac:(unfold remaining; lia) Hrem ltac:(lia)) as (rops2 & ri2 & Hrl2 & _ & Hd2 & _).
            rewrite Heol in Hrl2. rewrite Hrl in Hrl2. inversion Hrl2; subst. exact Hd2. }
          assert (Hrunclose : Forall2 (near_close3 near) run (repeat lv (length run))).
          { clear - Hrun. induction run as [|v t IHt]; cbn [length repeat]; constructor.
            - inversion Hrun; subst. assumption.
            - inversion Hrun; subst. apply IHt. assumption. }
          destruct rest0 as [|xi rest'].
          -- inversion Henc; subst st' cur' ops_rev'.
             exists rops, (repeat lv (length run)).
             split; [rewrite rev_append_rev'; reflexivity|].
             split; [rewrite push_n3_repeat, rev_repeat; reflexivity|].
             split; [rewrite Hsplit, app_nil_r; exact Hrunclose|].
             split; [assumption|]. split; [assumption|]. split; [assumption|].
             intros rest. cbn [dec_line3]. destruct (Z.geb_spec x w); [lia|].
             fold left. rewrite En0, En1, En2. unfold qs_of. cbn [fst snd]. fold q0 q1 q2. rewrite Eq.
             fold lv remaining. rewrite Hdecrl. rewrite Nat2Z.id.
             destruct (Z.eqb_spec (Z.of_nat (length run)) remaining); [reflexivity | unfold remaining in *; lia].
          -- assert (Hrest_rng : Forall (in_range3 P) (xi :: rest')).
             { rewrite Hsplit in Hinp. apply Forall_app in Hinp. destruct Hinp; assumption. }
             inversion Hrest_rng as [|? ? Hxi Hrest']. subst x0 l.
             destruct Hxi as (Hxi0 & Hxi1 & Hxi2).
             set (pw1 := skipn (length run) pw) in *.
             assert (Hpw1 : Forall (in_range3 P) pw1) by (unfold pw1; apply Forall_skipn; assumption).
             set (xi_pos := x + Z.of_nat (length run)) in *.
             destruct (nb3 w y xi_pos plf pplf lv pw1 p3_0) as [[[ia0 ib0] ic0] id0] eqn:Ei0.
             destruct (nb3 w y xi_pos plf pplf lv pw1 p3_1) as [[[ia1 ib1] ic1] id1] eqn:Ei1.
             destruct (nb3 w y xi_pos plf pplf lv pw1 p3_2) as [[[ia2 ib2] ic2] id2] eqn:Ei2.
             destruct (nb3_range _ _ _ _ _ _ _ _ (or_introl eq_refl) Hlv Hpw1 Ei0) as [_ Hib0].
             destruct (nb3_range _ _ _ _ _ _ _ _ (or_intror (or_introl eq_refl)) Hlv Hpw1 Ei1) as [_ Hib1].
             destruct (nb3_range _ _ _ _ _ _ _ _ (or_intror (or_intror eq_refl)) Hlv Hpw1 Ei2) as [_ Hib2].
             cbn [fst snd] in Henc.
             destruct (interrupt_enc_i pk p (set_ri st ri') (p3_0 xi) (p3_0 lv) ib0) as [[o0 s0] r0] eqn:E0.
             destruct (interrupt_enc_i pk p s0 (p3_1 xi) (p3_1 lv) ib1) as [[o1 s1] r1] eqn:E1.
             destruct (interrupt_enc_i pk p s1 (p3_2 xi) (p3_2 lv) ib2) as [[o2 s2] r2] eqn:E2.
             destruct (interrupt_i_roundtrip P near pk HP Hnear Hpk _ _ _ _ [] _ _ _ Hst1 Hib0 Hxi0 E0)
               as (_ & Hs0 & Hri0 & _ & Hc0 & Hr0 & Hw0).
             destruct (interrupt_i_roundtrip P near pk HP Hnear Hpk _ _ _ _ [] _ _ _ Hs0 Hib1 Hxi1 E1)
               as (_ & Hs1 & Hri1 & _ & Hc1 & Hr1 & Hw1).
             destruct (interrupt_i_roundtrip P near pk HP Hnear Hpk _ _ _ _ [] _ _ _ Hs1 Hib2 Hxi2 E2)
               as (_ & Hs2 & Hri2 & _ & Hc2 & Hr2 & Hw2).
             assert (Hst3 : jst_ok (set_ri s2 (dec_run_index (js_ri s2)))).
             { apply jst_ok_set_ri; [assumption|]. apply dec_run_index_range. destruct Hs2; assumption. }
             cbn [length] in Hlen.
             assert (Hcur2 : Forall (in_range3 P) ((r0, r1, r2) :: push_n3 (length run) lv cur)).
             { constructor; [unfold in_range3; cbn; auto|]. rewrite push_n3_repeat. apply Forall_app. split; assumption. }
             assert (Hpw2 : Forall (in_range3 P) (tl pw1)).
             { destruct pw1; [constructor | inversion Hpw1; assumption]. }
             assert (Hx1 : 0 <= x + Z.of_nat (length run) + 1) by lia.
             assert (Hlen2 : x + Z.of_nat (length run) + 1 + Z.of_nat (length rest') = w) by lia.
             destruct (IH _ _ _ _ _ _ _ _ _ Hst3 Hx1 Hlen2 Hrest' Hcur2 Hpw2 Henc)
               as (ops2 & recs2 & Hops & Hcur' & Hrel & Hrng & Hst' & Hwf2 & Hdec).
             exists (rops ++ o0 ++ o1 ++ o2 ++ ops2), (repeat lv (length run) ++ (r0, r1, r2) :: recs2).
             split.
             { rewrite Hops, !rev_append_rev', !rev_app_distr, <- !app_assoc. reflexivity. }
             split.
             { rewrite Hcur', push_n3_repeat, rev_app_distr. cbn [rev]. rewrite rev_repeat, <- !app_assoc. reflexivity. }
             split.
             { rewrite Hsplit. apply Forall2_app; [exact Hrunclose|]. constructor; [|assumption].
               unfold near_close3, near_close. cbn. auto. }
             split.
             { apply Forall_app. split; [assumption|]. constructor; [unfold in_range3; cbn; auto | assumption]. }
             split; [assumption|].
             split; [repeat (apply Forall_app; split; try assumption)|].
             intros rest. cbn [dec_line3]. destruct (Z.geb_spec x w); [lia|].
             fold left. rewrite En0, En1, En2. unfold qs_of. cbn [fst snd]. fold q0 q1 q2. rewrite Eq.
             fold lv remaining.
             rewrite !ops_bits_app, <- !app_assoc. rewrite Hdecrl. rewrite Nat2Z.id.
             destruct (Z.eqb_spec (Z.of_nat (length run)) remaining); [unfold remaining in *; lia|].
             fold pw1 xi_pos. rewrite Ei0, Ei1, Ei2. cbn [fst snd].
             destruct (interrupt_i_roundtrip P near pk HP Hnear Hpk _ _ _ _
                         (ops_bits o1 ++ ops_bits o2 ++ ops_bits ops2 ++ rest) _ _ _ Hst1 Hib0 Hxi0 E0) as (Hd0 & _).
             fold p in Hd0. rewrite Hd0.
             destruct (interrupt_i_roundtrip P near pk HP Hnear Hpk _ _ _ _
                         (ops_bits o2 ++ ops_bits ops2 ++ rest) _ _ _ Hs0 Hib1 Hxi1 E1) as (Hd1 & _).
             fold p in Hd1. rewrite Hd1.
             destruct (interrupt_i_roundtrip P near pk HP Hnear Hpk _ _ _ _
                         (ops_bits ops2 ++ rest) _ _ _ Hs1 Hib2 Hxi2 E2) as (Hd2 & _).
             fold p in Hd2. rewrite Hd2. apply Hdec.
        * (* regular mode, three samples *)
          destruct (regular_enc_i pk p st q0 ra0 rb0 rc0 (p3_0 xs)) as [[[o0 s0] v0]|] eqn:E0; [|discriminate].
          destruct (regular_enc_i pk p s0 q1 ra1 rb1 rc1 (p3_1 xs)) as [[[o1 s1] v1]|] eqn:E1; [|discriminate].
          destruct (regular_enc_i pk p s1 q2 ra2 rb2 rc2 (p3_2 xs)) as [[[o2 s2] v2]|] eqn:E2; [|discriminate].
          destruct (regular_i_lockstep _ _ _ _ _ _ [] _ _ _ Hst Hxs0 E0) as (_ & Hs0 & Hc0 & Hr0 & Hw0).
          destruct (regular_i_lockstep _ _ _ _ _ _ [] _ _ _ Hs0 Hxs1 E1) as (_ & Hs1 & Hc1 & Hr1 & Hw1).
          destruct (regular_i_lockstep _ _ _ _ _ _ [] _ _ _ Hs1 Hxs2 E2) as (_ & Hs2 & Hc2 & Hr2 & Hw2).
          assert (Hcur2 : Forall (in_range3 P) ((v0, v1, v2) :: cur)).
          { constructor; [unfold in_range3; cbn; auto | assumption]. }
          assert (Hpw2 : Forall (in_range3 P) (tl pw)) by (destruct pw; [constructor | inversion Hpw; assumption]).
          assert (Hx1 : 0 <= x + 1) by lia.
          assert (Hlen2 : x + 1 + Z.of_nat (length inp') = w) by lia.
          destruct (IH _ _ _ _ _ _ _ _ _ Hs2 Hx1 Hlen2 Hinp' Hcur2 Hpw2 Henc)
            as (ops2 & recs2 & Hops & Hcur' & Hrel & Hrng & Hst' & Hwf2 & Hdec).
          exists (o0 ++ o1 ++ o2 ++ ops2), ((v0, v1, v2) :: recs2).
          split.
          { rewrite Hops, !rev_append_rev', !rev_app_distr, <- !app_assoc. reflexivity. }
          split; [rewrite Hcur'; cbn [rev]; rewrite <- app_assoc; reflexivity|].
          split; [constructor; [unfold near_close3; cbn; auto | assumption]|].
          split; [constructor; [unfold in_range3; cbn; auto | assumption]|]. split; [assumption|].
          split; [repeat (apply Forall_app; split; try assumption)|].
          intros rest. cbn [dec_line3]. destruct (Z.geb_spec x w); [lia|].
          fold left. rewrite En0, En1, En2. unfold qs_of. cbn [fst snd]. fold q0 q1 q2. rewrite Eq.
          rewrite !ops_bits_app, <- !app_assoc.
          destruct (regular_i_lockstep _ _ _ _ _ _ (ops_bits o1 ++ ops_bits o2 ++ ops_bits ops2 ++ rest) _ _ _ Hst Hxs0 E0)
            as (Hd0 & _).
          fold q0 in Hd0. rewrite Hd0.
          destruct (regular_i_lockstep _ _ _ _ _ _ (ops_bits o2 ++ ops_bits ops2 ++ rest) _ _ _ Hs0 Hxs1 E1) as (Hd1 & _).
          fold q1 in Hd1. rewrite Hd1.
          destruct (regular_i_lockstep _ _ _ _ _ _ (ops_bits ops2 ++ rest) _ _ _ Hs1 Hxs2 E2) as (Hd2 & _).
          fold q2 in Hd2. rewrite Hd2. apply Hdec.
  Qed.
End Line3.

(* ---------- all lines of the interleaved scan ---------- *)

Section Lines3.
  Variables (P near : Z) (pk : pkg).
  Hypothesis HP : 2 <= P <= 16.
  Hypothesis Hnear : 0 <= near <= near_max P.
  Hypothesis Hpk : pk_ok pk near.
  Let p := jls_params P near.
  Variables (w : Z) (wn : nat).
  Hypothesis Hw : w = Z.of_nat wn.

  Lemma lines3_lockstep : forall hfuel y plf pplf st prev pix ops_rev ops_rev',
    jst_ok st -> in_range3 P plf -> Forall (in_range3 P) prev -> Forall (in_range3 P) pix ->
    length pix = (hfuel * wn)%nat ->
    enc_lines3 hfuel pk p w wn y plf pplf st prev pix ops_rev = Ok ops_rev' ->
    exists ops lines,
      ops_rev' = rev ops ++ ops_rev /\
      Forall2 (near_close3 near) pix (concat lines) /\ Forall (in_range3 P) (concat lines) /\
      length lines = hfuel /\ Forall (fun l => length l = wn) lines /\ Forall wop_ok ops /\
      forall rest, dec_lines3 hfuel pk p w wn y plf pplf st prev (ops_bits ops ++ rest) = Ok lines.
  Proof.
    pose proof (z3_in_range P HP) as Hz3.
    induction hfuel as [|hf IH]; intros y plf pplf st prev pix ops_rev ops_rev' Hst Hplf Hprev Hpix Hlen Henc;
      cbn [enc_lines3] in Henc.
    - inversion Henc; subst ops_rev'. exists [], []. destruct pix; [|discriminate].
      cbn. repeat split; constructor.
    - destruct (enc_line3 (S wn) pk p w y plf pplf st 0 (z3 :: prev) [] (firstn wn pix) ops_rev)
        as [[[st1 cur_rev] ops1]| | |] eqn:Eline; try discriminate.
      assert (Hge : (wn <= length pix)%nat) by (rewrite Hlen; cbn; lia).
      destruct (firstn_skipn_length _ wn pix Hge) as [Hf Hs].
      assert (Hpw : Forall (in_range3 P) (z3 :: prev)) by (constructor; assumption).
      destruct (line3_lockstep P near pk HP Hnear Hpk w y plf pplf Hplf (S wn) st 0 (z3 :: prev) []
                  (firstn wn pix) ops_rev st1 cur_rev ops1 Hst ltac:(lia) ltac:(rewrite Hf; lia)
                  (Forall_firstn _ _ wn pix Hpix) ltac:(constructor) Hpw Eline)
        as (ops_a & recs & Hops1 & Hcur & Hrel & Hrng & Hst1 & Hwfa & Hdec).
      rewrite app_nil_r in Hcur.
      assert (Hcurl : frev cur_rev = recs) by (rewrite frev_rev, Hcur, rev_involutive; reflexivity).
      rewrite Hcurl in Henc.
      assert (Hreclen : length recs = wn).
      { apply Forall2_len in Hrel. rewrite <- Hrel. exact Hf. }
      assert (Hfirst : in_range3 P (line_first3 recs)).
      { unfold line_first3. destruct recs; [exact Hz3 | inversion Hrng; assumption]. }
      destruct (IH (y + 1) (line_first3 recs) plf st1 recs (skipn wn pix) ops1 ops_rev' Hst1 Hfirst Hrng
                  (Forall_skipn _ _ wn pix Hpix) ltac:(rewrite Hs, Hlen; cbn; lia) Henc)
        as (ops_b & lines & Hops & Hrel2 & Hrng2 & Hll & Hlw & Hwfb & Hdec2).
      exists (ops_a ++ ops_b), (recs :: lines).
      split; [rewrite Hops, Hops1, rev_app_distr, app_assoc; reflexivity|].
      split.
      { cbn [concat]. rewrite <- (firstn_skipn wn pix). apply Forall2_app; assumption. }
      split; [cbn [concat]; apply Forall_app; split; assumption|].
      split; [cbn [length]; lia|]. split; [constructor; assumption|].
      split; [apply Forall_app; split; assumption|].
      intros rest. cbn [dec_lines3]. rewrite ops_bits_app, <- app_assoc.
      fold p in Hdec. rewrite (Hdec (ops_bits ops_b ++ rest)). rewrite Hcurl. rewrite Hdec2. reflexivity.
  Qed.
End Lines3.
