(* Whole scan and whole stream: the decoders applied to the encoders' output.
   scan_lockstep    : bit level (the bits of the encoder's write ops, any trailing bits)
   stream theorems  : byte level through SOI/SOF55/SOS parsing, scan extraction and unstuffing,
                      given that the as-coded GolombWriter realises the bit-list packing for the
                      ops of this image (gw_pack_ok; see JlsProofsWriter.v). *)
From V Require Import Common.Base JpegLS.JlsParams JpegLS.JlsGolomb JpegLS.JlsRun JpegLS.JlsModel.
From V Require Import JpegLS.JlsProofsParams JpegLS.JlsProofsGolomb JpegLS.JlsProofsSample
                      JpegLS.JlsProofsRun JpegLS.JlsProofsNear0 JpegLS.JlsProofsInterrupt
                      JpegLS.JlsProofsLine JpegLS.JlsProofsLine3 JpegLS.JlsProofsWriter.

(* ---------- triples ---------- *)

Lemma triples_spec : forall k l, length l = (3 * k)%nat ->
  untriples (triples l) = l /\ length (triples l) = k.
Proof.
  induction k as [|k IH]; intros l Hl.
  - destruct l; [split; reflexivity | discriminate].
  - destruct l as [|a [|b [|c t]]]; try (cbn in Hl; lia).
    cbn [triples untriples length]. destruct (IH t ltac:(cbn in Hl; lia)) as [H1 H2].
    rewrite H1, H2. split; reflexivity.
Qed.

Lemma triples_range : forall P k l, length l = (3 * k)%nat -> Forall (in_range P) l -> Forall (in_range3 P) (triples l).
Proof.
  induction k as [|k IH]; intros l Hl HF.
  - destruct l; [constructor | discriminate].
  - destruct l as [|a [|b [|c t]]]; try (cbn in Hl; lia).
    cbn [triples]. inversion HF as [|? ? Ha HF1]; subst. inversion HF1 as [|? ? Hb HF2]; subst.
    inversion HF2 as [|? ? Hc HF3]; subst.
    constructor; [unfold in_range3; cbn; auto | apply IH; [cbn in Hl; lia | assumption]].
Qed.

Lemma untriples_close : forall near a b, Forall2 (near_close3 near) a b ->
  Forall2 (near_close near) (untriples a) (untriples b).
Proof.
  induction 1 as [|[[a0 a1] a2] [[b0 b1] b2] ta tb (H0 & H1 & H2) HF IH]; cbn [untriples]; [constructor|].
  unfold p3_0, p3_1, p3_2 in *. cbn [fst snd] in *.
  constructor; [exact H0|]. constructor; [exact H1|]. constructor; [exact H2|]. exact IH.
Qed.

Lemma untriples_range : forall P a, Forall (in_range3 P) a -> Forall (in_range P) (untriples a).
Proof.
  induction 1 as [|[[a0 a1] a2] t (H0 & H1 & H2) HF IH]; cbn [untriples]; [constructor|].
  unfold p3_0, p3_1, p3_2 in *. cbn [fst snd] in *.
  constructor; [exact H0|]. constructor; [exact H1|]. constructor; [exact H2|]. exact IH.
Qed.

Lemma untriples_length : forall a, length (untriples a) = (3 * length a)%nat.
Proof. induction a as [|[[a0 a1] a2] t IH]; cbn [untriples length]; lia. Qed.

(* the decoders' line loops as one function of the bits *)
Definition decode_scan_samples (pk : pkg) (p : jparams) (w h comps : Z) (bits : list bool) : outcome (list Z) :=
  if comps >? 1 then
    match dec_lines3 (Z.to_nat h) pk p w (Z.to_nat w) 0 z3 z3 (jst_init p) [] bits with
    | Ok ls => Ok (untriples (concat ls))
    | Err => Err | Panic => Panic | OutOfFuel => OutOfFuel
    end
  else
    match dec_lines1 (Z.to_nat h) pk p w (Z.to_nat w) 0 0 0 (jst_init p) [] bits with
    | Ok ls => Ok (concat ls)
    | Err => Err | Panic => Panic | OutOfFuel => OutOfFuel
    end.

(* ---------- scan_lockstep ---------- *)

Theorem scan_lockstep : forall P near pk w h comps pixels ops,
  2 <= P <= 16 -> 0 <= near <= near_max P -> pk_ok pk near ->
  0 <= w -> 0 <= h -> comps = 1 \/ comps = 3 ->
  Forall (in_range P) pixels -> zlen pixels = w * h * comps ->
  encode_scan_ops pk (jls_params P near) w h comps pixels = Ok ops ->
  exists recon,
    Forall2 (near_close near) pixels recon /\ Forall (in_range P) recon /\ Forall wop_ok ops /\
    forall rest, decode_scan_samples pk (jls_params P near) w h comps (ops_bits ops ++ rest) = Ok recon.
Proof.
  intros P near pk w h comps pixels ops HP Hn Hpk Hw Hh Hc Hrng Hlen Henc.
  pose proof (pow2_bounds P HP) as Hpb. pose proof (z3_in_range P HP) as Hz3.
  pose proof (jst_init_ok P near HP Hn) as Hinit.
  unfold encode_scan_ops in Henc. unfold decode_scan_samples. unfold zlen in Hlen.
  assert (Hwn : w = Z.of_nat (Z.to_nat w)) by lia.
  destruct Hc as [-> | ->].
  - (* one component *)
    change (1 >? 1) with false in *. cbv iota in *.
    destruct (enc_lines1 (Z.to_nat h) pk (jls_params P near) w (Z.to_nat w) 0 0 0 (jst_init (jls_params P near)) [] pixels [])
      as [ops_rev| | |] eqn:E; try discriminate.
    inversion Henc; subst ops.
    destruct (lines1_lockstep P near pk HP Hn Hpk w (Z.to_nat w) Hwn (Z.to_nat h) 0 0 0 _ [] pixels [] ops_rev
                Hinit ltac:(unfold in_range; lia) ltac:(constructor) Hrng ltac:(nia) E)
      as (ops & lines & Hops & Hrel & Hr & _ & _ & Hwf & Hdec).
    rewrite app_nil_r in Hops.
    exists (concat lines). split; [assumption|]. split; [assumption|].
    split; [rewrite Hops, frev_rev, rev_involutive; exact Hwf|].
    intros rest. rewrite Hops, frev_rev, rev_involutive. rewrite Hdec. reflexivity.
  - (* three components, sample interleaved *)
    change (3 >? 1) with true in *. cbv iota in *.
    destruct (enc_lines3 (Z.to_nat h) pk (jls_params P near) w (Z.to_nat w) 0 z3 z3 (jst_init (jls_params P near)) []
                (triples pixels) []) as [ops_rev| | |] eqn:E; try discriminate.
    inversion Henc; subst ops.
    assert (Hl3 : length pixels = (3 * (Z.to_nat h * Z.to_nat w))%nat) by nia.
    destruct (triples_spec _ _ Hl3) as [Hun Htl].
    destruct (lines3_lockstep P near pk HP Hn Hpk w (Z.to_nat w) Hwn (Z.to_nat h) 0 z3 z3 _ [] (triples pixels) [] ops_rev
                Hinit Hz3 ltac:(constructor) (triples_range P _ _ Hl3 Hrng) Htl E)
      as (ops & lines & Hops & Hrel & Hr & _ & _ & Hwf & Hdec).
    rewrite app_nil_r in Hops.
    exists (untriples (concat lines)).
    split; [rewrite <- Hun; apply untriples_close; assumption|].
    split; [apply untriples_range; assumption|].
    split; [rewrite Hops, frev_rev, rev_involutive; exact Hwf|].
    intros rest. rewrite Hops, frev_rev, rev_involutive. rewrite Hdec. reflexivity.
Qed.
