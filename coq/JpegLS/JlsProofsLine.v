(* Lockstep of encoder and decoder over one line of the one-component scan: the decoder, fed
   with the bits of the encoder's write ops, goes through the same states and produces the
   line the encoder keeps as its reconstruction; every reconstructed sample is within NEAR of
   its source sample and inside [0, MAXVAL]. *)
From V Require Import Common.Base JpegLS.JlsParams JpegLS.JlsGolomb JpegLS.JlsRun JpegLS.JlsModel.
From V Require Import JpegLS.JlsProofsParams JpegLS.JlsProofsGolomb JpegLS.JlsProofsSample
                      JpegLS.JlsProofsRun JpegLS.JlsProofsNear0 JpegLS.JlsProofsInterrupt JpegLS.JlsProofsWriter.

Definition near_close (near s r : Z) : Prop := Z.abs (r - s) <= near.

Lemma rev_append_rev' : forall (A : Type) (l l' : list A), rev_append l l' = rev l ++ l'.
Proof. intros. apply rev_append_rev. Qed.

Lemma push_n_repeat : forall m v l, push_n m v l = repeat v m ++ l.
Proof.
  induction m as [|m IH]; intros v l; cbn [push_n repeat app]; [reflexivity|].
  rewrite IH. rewrite repeat_snoc. reflexivity.
Qed.

Lemma Forall_repeat : forall (A : Type) (Q : A -> Prop) a n, Q a -> Forall Q (repeat a n).
Proof. induction n; intros; simpl; constructor; auto. Qed.

Lemma win1_in_range : forall P pw, 2 <= P <= 16 -> Forall (in_range P) pw -> in_range P (win1 pw).
Proof.
  intros P pw HP H. pose proof (pow2_bounds P HP). unfold win1.
  destruct pw as [|a [|b t]]; try (unfold in_range; lia).
  inversion H as [|? ? _ H2]; subst. inversion H2; subst. assumption.
Qed.

Section Line1.
  Variables (P near : Z) (pk : pkg).
  Hypothesis HP : 2 <= P <= 16.
  Hypothesis Hnear : 0 <= near <= near_max P.
  Hypothesis Hpk : pk_ok pk near.
  Let p := jls_params P near.
  Let store1 := match pk with PkLossless => false | PkNear => true end.

  Lemma p_near : jp_near p = near.
  Proof. destruct (jls_params_facts P near HP Hnear); assumption. Qed.

  Lemma is_run_pixel_true : forall v ra, is_run_pixel pk p v ra = true -> Z.abs (ra - v) <= near.
  Proof.
    intros v ra H. unfold is_run_pixel in H. rewrite p_near in H. destruct pk.
    - apply Z.eqb_eq in H. subst. simpl in Hpk. lia.
    - apply Z.leb_le in H. lia.
  Qed.

  Lemma is_run_pixel_false : forall v ra, is_run_pixel pk p v ra = false -> near < Z.abs (v - ra).
  Proof.
    intros v ra H. unfold is_run_pixel in H. rewrite p_near in H. destruct pk.
    - apply Z.eqb_neq in H. simpl in Hpk. lia.
    - apply Z.leb_gt in H. lia.
  Qed.

  Lemma run_count_spec : forall ra inp n0 m0 n m rest,
    run_count pk p ra inp n0 m0 = (n, m, rest) ->
    exists run, inp = run ++ rest /\ m = (m0 + length run)%nat /\ n = n0 + Z.of_nat (length run) /\
                Forall (fun v => Z.abs (ra - v) <= near) run /\
                match rest with [] => True | v :: _ => near < Z.abs (v - ra) end.
  Proof.
    induction inp as [|v t IH]; intros n0 m0 n m rest H; cbn [run_count] in H.
    - inversion H; subst. exists []. repeat split; try constructor; simpl; lia.
    - destruct (is_run_pixel pk p v ra) eqn:E.
      + destruct (IH _ _ _ _ _ H) as (run & Hinp & Hm & Hn & Hall & Hrest).
        exists (v :: run). subst. repeat split; try assumption; cbn [length app]; try lia.
        constructor; [apply is_run_pixel_true; assumption | assumption].
      + inversion H; subst. exists []. repeat split; try constructor; simpl; try lia.
        apply is_run_pixel_false. assumption.
  Qed.

  (* regular mode: what the encoder stores is what the decoder reconstructs *)
  Lemma regular_lockstep : forall store c qs ra rb rc x rest ops c' stored,
    (pk = PkNear -> store = true) -> in_range P x ->
    regular_enc pk store p c qs ra rb rc x = (ops, c', stored) ->
    regular_dec p c qs ra rb rc (ops_bits ops ++ rest) = Some (stored, c', rest) /\
    near_close near x stored /\ in_range P stored /\ Forall wop_ok ops.
  Proof.
    intros store c qs ra rb rc x rest ops c' stored Hst Hx Henc. unfold near_close, in_range in *.
    destruct pk eqn:Epk.
    - simpl in Hpk. unfold p in *. subst near.
      destruct (sample_exact P store c qs ra rb rc x rest ops c' stored HP Hx Henc) as (Hd & Hs & Hwf).
      subst stored. split; [exact Hd|]. split; [rewrite Z.sub_diag; simpl; lia|]. split; [lia | exact Hwf].
    - specialize (Hst eq_refl). subst store.
      destruct (sample_near P near true c qs ra rb rc x rest ops c' stored HP Hnear Hx Henc)
        as (x' & Hd & Hb & Hr & Hs & Hwf).
      subst stored. split; [exact Hd|]. split; [assumption|]. split; assumption.
  Qed.

  Variables (w y pfp pn1 : Z).
  Hypothesis Hpfp : in_range P pfp.

  Lemma neighbors1_ra : forall x left pw ra rb rc rd,
    in_range P left -> neighbors1 w y x pfp pn1 left pw = (ra, rb, rc, rd) -> in_range P ra.
  Proof.
    intros x left pw ra rb rc rd Hl H. unfold neighbors1 in H.
    destruct (x =? 0); inversion H; subst; assumption.
  Qed.

  Lemma line1_lockstep : forall fuel st x pw cur inp ops_rev st' cur' ops_rev',
    jst_ok st -> 0 <= x -> x + Z.of_nat (length inp) = w ->
    Forall (in_range P) inp -> Forall (in_range P) cur -> Forall (in_range P) pw ->
    enc_line1 fuel pk p w y pfp pn1 st x pw cur inp ops_rev = Ok (st', cur', ops_rev') ->
    exists ops recs,
      ops_rev' = rev ops ++ ops_rev /\ cur' = rev recs ++ cur /\
      Forall2 (near_close near) inp recs /\ Forall (in_range P) recs /\ jst_ok st' /\ Forall wop_ok ops /\
      forall rest, dec_line1 fuel pk p w y pfp pn1 st x pw cur (ops_bits ops ++ rest) = Ok (st', cur', rest).
  Proof.
    pose proof (pow2_bounds P HP) as Hpb.
    induction fuel as [|f IH]; intros st x pw cur inp ops_rev st' cur' ops_rev' Hst Hx0 Hxw Hinp Hcur Hpw Henc.
    - destruct inp as [|xs inp']; cbn [enc_line1] in Henc; [|discriminate].
      inversion Henc; subst st' cur' ops_rev'. exists [], []. cbn [rev app ops_bits].
      split; [reflexivity|]. split; [reflexivity|]. split; [constructor|]. split; [constructor|]. split; [exact Hst|]. split; [constructor|].
      intros rest. cbn [dec_line1 length] in *. destruct (Z.geb_spec x w); [reflexivity|lia].
    - destruct inp as [|xs inp']; cbn [enc_line1] in Henc.
      + inversion Henc; subst st' cur' ops_rev'. exists [], []. cbn [rev app ops_bits].
        split; [reflexivity|]. split; [reflexivity|]. split; [constructor|]. split; [constructor|]. split; [exact Hst|]. split; [constructor|].
        intros rest. cbn [dec_line1 length] in *. destruct (Z.geb_spec x w); [reflexivity|lia].
      + cbn [length] in Hxw. inversion Hinp as [|? ? Hxs Hinp']. subst x0 l.
        set (left := match cur with l :: _ => l | [] => 0 end) in *.
        assert (Hleft : in_range P left).
        { unfold left. destruct cur; [unfold in_range; lia|]. inversion Hcur; assumption. }
        destruct (neighbors1 w y x pfp pn1 left pw) as [[[ra rb] rc] rd] eqn:Enb.
        pose proof (neighbors1_ra _ _ _ _ _ _ _ Hleft Enb) as Hra.
        set (qs := context_qs p ra rb rc rd) in *.
        pose proof (context_qs_range p ra rb rc rd) as Hqs. fold qs in Hqs.
        destruct (ctx_index_in_range pk qs Hqs) as [Hci _].
        destruct (negb (qs =? 0)) eqn:Eqs.
        * (* regular mode *)
          rewrite Hci in Henc.
          destruct (regular_enc pk store1 p (nth (Z.to_nat (Z.abs qs)) (js_ctxs st) (mkCtx 0 0 0 0)) qs ra rb rc xs)
            as [[ops c'] stored] eqn:Ereg.
          fold store1 in Henc. rewrite Ereg in Henc.
          assert (Hs1 : pk = PkNear -> store1 = true) by (intro E; unfold store1; rewrite E; reflexivity).
          destruct (regular_lockstep store1 _ qs ra rb rc xs [] ops c' stored Hs1 Hxs Ereg)
            as (_ & Hclose & Hsr & Hwf1).
          assert (Hcur2 : Forall (in_range P) (stored :: cur)) by (constructor; assumption).
          assert (Hpw2 : Forall (in_range P) (tl pw)) by (destruct pw; [constructor | inversion Hpw; assumption]).
          assert (Hx1 : 0 <= x + 1) by lia.
          assert (Hlen2 : x + 1 + Z.of_nat (length inp') = w) by lia.
          destruct (IH _ _ _ _ _ _ _ _ _ (jst_ok_set_ctx _ _ _ Hst) Hx1 Hlen2 Hinp' Hcur2 Hpw2 Henc)
            as (ops2 & recs2 & Hops & Hcur' & Hrel & Hrng & Hst' & Hwf2 & Hdec).
          exists (ops ++ ops2), (stored :: recs2).
          split; [rewrite Hops, rev_append_rev', rev_app_distr, app_assoc; reflexivity|].
          split; [rewrite Hcur'; cbn [rev]; rewrite <- app_assoc; reflexivity|].
          split; [constructor; assumption|]. split; [constructor; assumption|]. split; [assumption|].
          split; [apply Forall_app; split; assumption|].
          intros rest. cbn [dec_line1]. destruct (Z.geb_spec x w); [lia|].
          fold left. rewrite Enb. fold qs. rewrite Eqs, Hci.
          rewrite ops_bits_app, <- app_assoc.
          destruct (regular_lockstep store1 _ qs ra rb rc xs (ops_bits ops2 ++ rest) ops c' stored Hs1 Hxs Ereg)
            as (Hd & _).
          rewrite Hd. apply Hdec.
        * (* run mode *)
          destruct (run_count pk p ra (xs :: inp') 0 0) as [[n m] rest0] eqn:Erc.
          destruct (run_count_spec _ _ _ _ _ _ _ Erc) as (run & Hsplit & Hm & Hn & Hrun & Hstop).
          cbn [Nat.add] in Hm. rewrite Z.add_0_l in Hn. subst m n.
          destruct Hst as (Hri & Hok0 & Hty0 & Hok1 & Hty1).
          assert (Hlen : Z.of_nat (length (xs :: inp')) = Z.of_nat (length run) + Z.of_nat (length rest0)).
          { rewrite Hsplit, app_length. lia. }
          cbn [length] in Hlen.
          set (remaining := w - x).
          assert (Hrem : 1 <= remaining) by (unfold remaining; lia).
          assert (Heol : (Z.of_nat (length run) =? remaining) = match rest0 with [] => true | _ :: _ => false end).
          { unfold remaining. destruct rest0; cbn [length] in Hlen.
            - apply Z.eqb_eq. lia.
            - apply Z.eqb_neq. lia. }
          destruct (run_roundtrip (S (length run)) (Z.of_nat (length run)) remaining (js_ri st) [] Hri
                      ltac:(unfold remaining; lia) Hrem ltac:(lia)) as (rops & ri' & Hrl & Hri' & _ & Hwfr).
          rewrite Heol in Hrl. rewrite Hrl in Henc.
          assert (HrunR : Forall (in_range P) (repeat ra (length run))) by (apply Forall_repeat; assumption).
          assert (Hst1 : jst_ok (set_ri st ri')) by (apply jst_ok_set_ri; [unfold jst_ok; auto | assumption]).
          assert (Hdecrl : forall R, DecodeRunLength (ops_bits rops ++ R) remaining (js_ri st) =
                                     Some (Z.of_nat (length run), ri', R)).
          { intros R.
            destruct (run_roundtrip (S (length run)) (Z.of_nat (length run)) remaining (js_ri st) R Hri
                        ltac:(unfold remaining; lia) Hrem ltac:(lia)) as (rops2 & ri2 & Hrl2 & _ & Hd2 & _).
            rewrite Heol in Hrl2. rewrite Hrl in Hrl2. inversion Hrl2; subst. exact Hd2. }
          assert (Hrunclose : Forall2 (near_close near) run (repeat ra (length run))).
          { clear - Hrun. induction run as [|v t IHt]; cbn [length repeat]; constructor.
            - inversion Hrun; subst. unfold near_close. assumption.
            - inversion Hrun; subst. apply IHt. assumption. }
          destruct rest0 as [|xi rest'].
          -- (* the run reaches the end of the line *)
             inversion Henc; subst st' cur' ops_rev'.
             exists rops, (repeat ra (length run)).
             split; [rewrite rev_append_rev'; reflexivity|].
             split; [rewrite push_n_repeat, rev_repeat; reflexivity|].
             split; [rewrite Hsplit, app_nil_r; exact Hrunclose|].
             split; [assumption|]. split; [assumption|]. split; [assumption|].
             intros rest. cbn [dec_line1]. destruct (Z.geb_spec x w); [lia|].
             fold left. rewrite Enb. fold qs. rewrite Eqs. fold remaining. rewrite Hdecrl.
             rewrite Nat2Z.id.
             cbn [length] in Hlen.
             destruct (Z.geb_spec (Z.of_nat (length run)) remaining); [reflexivity | unfold remaining in *; lia].
          -- (* interruption sample *)
             assert (Hrest_rng : Forall (in_range P) (xi :: rest')).
             { rewrite Hsplit in Hinp. apply Forall_app in Hinp. destruct Hinp; assumption. }
             inversion Hrest_rng as [|? ? Hxi Hrest']. subst x0 l.
             set (pw1 := skipn (length run) pw) in *.
             set (rb' := if y >? 0 then win1 pw1 else 0) in *.
             assert (Hrb' : in_range P rb').
             { unfold rb'. destruct (y >? 0); [|unfold in_range; lia].
               apply win1_in_range; [assumption|]. unfold pw1. apply Forall_skipn. assumption. }
             destruct (interrupt_enc pk p (set_ri st ri') xi ra rb') as [[iops st2] recon] eqn:Eint.
             destruct (interrupt_roundtrip P near pk HP Hnear Hpk (set_ri st ri') xi ra rb' [] iops st2 recon
                         Hst1 Hra Hrb' Hxi Hstop Eint) as (_ & Hst2 & Hri2 & _ & Hclose & Hrecon & Hwfi).
             assert (Hst3 : jst_ok (set_ri st2 (dec_run_index (js_ri st2)))).
             { apply jst_ok_set_ri; [assumption|]. apply dec_run_index_range. destruct Hst2; assumption. }
             cbn [length] in Hlen.
             assert (Hcur2 : Forall (in_range P) (recon :: push_n (length run) ra cur)).
             { constructor; [exact Hrecon|]. rewrite push_n_repeat. apply Forall_app. split; assumption. }
             assert (Hpw2 : Forall (in_range P) (tl pw1)).
             { assert (Hsk : Forall (in_range P) pw1) by (unfold pw1; apply Forall_skipn; assumption).
               destruct pw1; [constructor | inversion Hsk; assumption]. }
             assert (Hx1 : 0 <= x + Z.of_nat (length run) + 1) by lia.
             assert (Hlen2 : x + Z.of_nat (length run) + 1 + Z.of_nat (length rest') = w) by lia.
             destruct (IH _ _ _ _ _ _ _ _ _ Hst3 Hx1 Hlen2 Hrest' Hcur2 Hpw2 Henc)
               as (ops2 & recs2 & Hops & Hcur' & Hrel & Hrng & Hst' & Hwf2 & Hdec).
             exists (rops ++ iops ++ ops2), (repeat ra (length run) ++ recon :: recs2).
             split.
             { rewrite Hops, !rev_append_rev', !rev_app_distr, <- !app_assoc. reflexivity. }
             split.
             { rewrite Hcur', push_n_repeat, rev_app_distr. cbn [rev]. rewrite rev_repeat, <- !app_assoc. reflexivity. }
             split.
             { rewrite Hsplit. apply Forall2_app; [exact Hrunclose|]. constructor; assumption. }
             split.
             { apply Forall_app. split; [assumption|]. constructor; assumption. }
             split; [assumption|].
             split; [apply Forall_app; split; [assumption | apply Forall_app; split; assumption]|].
             intros rest. cbn [dec_line1]. destruct (Z.geb_spec x w); [lia|].
             fold left. rewrite Enb. fold qs. rewrite Eqs. fold remaining.
             rewrite !ops_bits_app, <- !app_assoc. rewrite Hdecrl. rewrite Nat2Z.id.
             destruct (Z.geb_spec (Z.of_nat (length run)) remaining); [unfold remaining in *; lia|].
             fold pw1 rb'.
             destruct (interrupt_roundtrip P near pk HP Hnear Hpk (set_ri st ri') xi ra rb' (ops_bits ops2 ++ rest)
                         iops st2 recon Hst1 Hra Hrb' Hxi Hstop Eint) as (Hd & _).
             fold p in Hd. rewrite Hd. apply Hdec.
  Qed.
End Line1.

(* ---------- all lines of the one-component scan ---------- *)

Lemma firstn_skipn_length : forall (A : Type) n (l : list A), (n <= length l)%nat ->
  length (firstn n l) = n /\ length (skipn n l) = (length l - n)%nat.
Proof. intros. split; [apply firstn_length_le; assumption | apply skipn_length]. Qed.

Lemma jst_init_ok : forall P near, 2 <= P <= 16 -> 0 <= near <= near_max P -> jst_ok (jst_init (jls_params P near)).
Proof.
  intros P near HP Hn. destruct (jls_params_facts P near HP Hn).
  assert (HR : 2 <= jp_range (jls_params P near) <= 65536).
  { split; [assumption|]. assert (2 ^ jp_qbpp (jls_params P near) <= 2 ^ 16) by (apply Z.pow_le_mono_r; lia).
    change (2 ^ 16) with 65536 in *. lia. }
  unfold jst_init, jst_ok. cbn [js_ri js_rc0 js_rc1].
  destruct (new_runctx_ok 0 _ HR) as [H0 T0]. destruct (new_runctx_ok 1 _ HR) as [H1 T1].
  split; [lia|]. split; [exact H0|]. split; [exact T0|]. split; [exact H1 | exact T1].
Qed.

Lemma Forall2_len : forall (A B : Type) (R : A -> B -> Prop) l1 l2, Forall2 R l1 l2 -> length l1 = length l2.
Proof. induction 1; simpl; congruence. Qed.

Section Lines1.
  Variables (P near : Z) (pk : pkg).
  Hypothesis HP : 2 <= P <= 16.
  Hypothesis Hnear : 0 <= near <= near_max P.
  Hypothesis Hpk : pk_ok pk near.
  Let p := jls_params P near.
  Variables (w : Z) (wn : nat).
  Hypothesis Hw : w = Z.of_nat wn.

  Lemma lines1_lockstep : forall hfuel y pfp pn1 st prev pix ops_rev ops_rev',
    jst_ok st -> in_range P pfp -> Forall (in_range P) prev -> Forall (in_range P) pix ->
    length pix = (hfuel * wn)%nat ->
    enc_lines1 hfuel pk p w wn y pfp pn1 st prev pix ops_rev = Ok ops_rev' ->
    exists ops lines,
      ops_rev' = rev ops ++ ops_rev /\
      Forall2 (near_close near) pix (concat lines) /\ Forall (in_range P) (concat lines) /\
      length lines = hfuel /\ Forall (fun l => length l = wn) lines /\ Forall wop_ok ops /\
      forall rest, dec_lines1 hfuel pk p w wn y pfp pn1 st prev (ops_bits ops ++ rest) = Ok lines.
  Proof.
    pose proof (pow2_bounds P HP) as Hpb.
    induction hfuel as [|hf IH]; intros y pfp pn1 st prev pix ops_rev ops_rev' Hst Hpfp Hprev Hpix Hlen Henc;
      cbn [enc_lines1] in Henc.
    - inversion Henc; subst ops_rev'. exists [], []. destruct pix; [|discriminate].
      cbn. repeat split; constructor.
    - destruct (enc_line1 (S wn) pk p w y pfp pn1 st 0 (0 :: prev) [] (firstn wn pix) ops_rev)
        as [[[st1 cur_rev] ops1]| | |] eqn:Eline; try discriminate.
      assert (Hge : (wn <= length pix)%nat) by (rewrite Hlen; cbn; lia).
      destruct (firstn_skipn_length _ wn pix Hge) as [Hf Hs].
      assert (Hpw : Forall (in_range P) (0 :: prev)) by (constructor; [unfold in_range; lia | assumption]).
      destruct (line1_lockstep P near pk HP Hnear Hpk w y pfp pn1 Hpfp (S wn) st 0 (0 :: prev) []
                  (firstn wn pix) ops_rev st1 cur_rev ops1 Hst ltac:(lia) ltac:(rewrite Hf; lia)
                  (Forall_firstn _ _ wn pix Hpix) ltac:(constructor) Hpw Eline)
        as (ops_a & recs & Hops1 & Hcur & Hrel & Hrng & Hst1 & Hwfa & Hdec).
      rewrite app_nil_r in Hcur.
      assert (Hcurl : frev cur_rev = recs) by (rewrite frev_rev, Hcur, rev_involutive; reflexivity).
      rewrite Hcurl in Henc.
      assert (Hreclen : length recs = wn).
      { apply Forall2_len in Hrel. rewrite <- Hrel. exact Hf. }
      assert (Hfirst : in_range P (line_first recs)).
      { unfold line_first. destruct recs; [unfold in_range; lia | inversion Hrng; assumption]. }
      destruct (IH (y + 1) (line_first recs) pfp st1 recs (skipn wn pix) ops1 ops_rev' Hst1 Hfirst Hrng
                  (Forall_skipn _ _ wn pix Hpix) ltac:(rewrite Hs, Hlen; cbn; lia) Henc)
        as (ops_b & lines & Hops & Hrel2 & Hrng2 & Hll & Hlw & Hwfb & Hdec2).
      exists (ops_a ++ ops_b), (recs :: lines).
      split; [rewrite Hops, Hops1, rev_app_distr, app_assoc; reflexivity|].
      split.
      { cbn [concat]. rewrite <- (firstn_skipn wn pix). apply Forall2_app; assumption. }
      split; [cbn [concat]; apply Forall_app; split; assumption|].
      split; [cbn [length]; lia|]. split; [constructor; assumption|].
      split; [apply Forall_app; split; assumption|].
      intros rest. cbn [dec_lines1]. rewrite ops_bits_app, <- app_assoc.
      fold p in Hdec. rewrite (Hdec (ops_bits ops_b ++ rest)). rewrite Hcurl. rewrite Hdec2. reflexivity.
  Qed.
End Lines1.
